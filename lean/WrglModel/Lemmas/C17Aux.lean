/-
Helper lemmas for C17 (decoders are total, never panic, never exhaust fuel, output ≤ input):
the whole-buffer decoders of Model/Encoding.lean. Core Lean only.
-/
import WrglModel.Model.Encoding
namespace Wrgl

/-! ## takeN -/

theorem takeN_some {n : Nat} {b x rest : Bytes} (h : takeN n b = some (x, rest)) :
    x.length = n ∧ x.length + rest.length = b.length := by
  unfold takeN at h
  split at h
  · cases h
  · injection h with h
    injection h with h1 h2
    subst h1; subst h2
    simp only [List.length_take, List.length_drop]
    omega

/-! ## string list -/

theorem decodeCells_no_panic (n : Nat) (b : Bytes) (p : String) : decodeCells n b ≠ .panic p := by
  induction n generalizing b p with
  | zero => simp [decodeCells]
  | succ n ih =>
    intro h
    unfold decodeCells at h
    split at h
    · cases h
    · dsimp only at h
      split at h
      · split at h
        · cases h
        · cases h
        · rename_i heq; exact ih _ _ heq
      · split at h
        · split at h
          · cases h
          · cases h
          · rename_i heq; exact ih _ _ heq
        · split at h <;> cases h

/-- exact accounting of the cell loop: every cell costs its 2 length bytes plus its bytes -/
theorem decodeCells_size (n : Nat) (b : Bytes) (r : Row) (rest : Bytes)
    (h : decodeCells n b = .ok (r, rest)) :
    2 * r.length + (r.map List.length).sum + rest.length = b.length ∧ r.length = n := by
  induction n generalizing b r rest with
  | zero =>
    simp only [decodeCells, Res.ok.injEq, Prod.mk.injEq] at h
    obtain ⟨rfl, rfl⟩ := h
    simp
  | succ n ih =>
    unfold decodeCells at h
    split at h
    · cases h
    · rename_i lb rest0 ht
      have h2 := takeN_some ht
      dsimp only at h
      split at h
      · split at h
        · rename_i cs r' heq
          simp only [Res.ok.injEq, Prod.mk.injEq] at h
          obtain ⟨rfl, rfl⟩ := h
          have := ih _ _ _ heq
          simp only [List.length_cons, List.map_cons, List.length_nil, List.sum_cons]
          omega
        · cases h
        · cases h
      · split at h
        · rename_i c rest' htc
          have h3 := takeN_some htc
          split at h
          · rename_i cs r' heq
            simp only [Res.ok.injEq, Prod.mk.injEq] at h
            obtain ⟨rfl, rfl⟩ := h
            have := ih _ _ _ heq
            simp only [List.length_cons, List.map_cons, List.sum_cons]
            omega
          · cases h
          · cases h
        · split at h
          · rename_i hc
            simp only [Res.ok.injEq, Prod.mk.injEq] at h
            obtain ⟨rfl, rfl⟩ := h
            simp only [Bool.and_eq_true, List.isEmpty_iff, beq_iff_eq] at hc
            obtain ⟨hr, hn⟩ := hc
            subst hr; subst hn
            simp only [List.length_nil] at h2
            simp
            omega
          · cases h

theorem strListRead_size_exact (b : Bytes) (r : Row) (rest : Bytes)
    (h : strListRead b = .ok (r, rest)) :
    2 * r.length + (r.map List.length).sum + rest.length + 4 = b.length := by
  unfold strListRead at h
  split at h
  · split at h <;> cases h
  · rename_i cb rest0 ht
    have h2 := takeN_some ht
    have := (decodeCells_size _ _ _ _ h).1
    omega

theorem strListRead_no_panic' (b : Bytes) (p : String) : strListRead b ≠ .panic p := by
  unfold strListRead
  split
  · split <;> simp
  · exact decodeCells_no_panic _ _ _

/-! ## block -/

theorem decodeRows_no_panic (n : Nat) (b : Bytes) (p : String) : decodeRows n b ≠ .panic p := by
  induction n generalizing b p with
  | zero => simp [decodeRows]
  | succ n ih =>
    intro h
    unfold decodeRows at h
    split at h
    · split at h
      · cases h
      · cases h
      · rename_i heq; exact ih _ _ heq
    · cases h
    · rename_i heq; exact strListRead_no_panic' _ _ heq

theorem decodeRows_size (n : Nat) (b : Bytes) (rows : List Row) (rest : Bytes)
    (h : decodeRows n b = .ok (rows, rest)) :
    4 * rows.length + 2 * (rows.map List.length).sum
      + (rows.map (fun r => (r.map List.length).sum)).sum + rest.length = b.length := by
  induction n generalizing b rows rest with
  | zero =>
    simp only [decodeRows, Res.ok.injEq, Prod.mk.injEq] at h
    obtain ⟨rfl, rfl⟩ := h
    simp
  | succ n ih =>
    unfold decodeRows at h
    split at h
    · rename_i r rest0 hs
      have h1 := strListRead_size_exact _ _ _ hs
      split at h
      · rename_i rs r' heq
        simp only [Res.ok.injEq, Prod.mk.injEq] at h
        obtain ⟨rfl, rfl⟩ := h
        have := ih _ _ _ heq
        simp only [List.length_cons, List.map_cons, List.sum_cons]
        omega
      · cases h
      · cases h
    · cases h
    · cases h

/-! ## uint list -/

theorem decodeUints_no_panic (n : Nat) (b : Bytes) (p : String) : decodeUints n b ≠ .panic p := by
  induction n generalizing b p with
  | zero => simp [decodeUints]
  | succ n ih =>
    intro h
    unfold decodeUints at h
    split at h
    · cases h
    · split at h
      · cases h
      · cases h
      · rename_i heq; exact ih _ _ heq

theorem uintListRead_no_panic' (b : Bytes) (p : String) : uintListRead b ≠ .panic p := by
  unfold uintListRead
  split
  · simp
  · exact decodeUints_no_panic _ _ _

/-! ## objline fields -/

theorem readLabel_no_panic (l : String) (b : Bytes) (p : String) : readLabel l b ≠ .panic p := by
  unfold readLabel
  dsimp only
  split
  · simp
  · split
    · simp
    · split <;> simp

theorem readLabel_err (l : String) (b : Bytes) (e : String) (h : readLabel l b = .err e) :
    e = "label" := by
  unfold readLabel at h
  dsimp only at h
  split at h
  · cases h
  · split at h
    · cases h; rfl
    · split at h
      · cases h
      · cases h; rfl

theorem readLabel_some (l : String) (b b1 : Bytes) (h : readLabel l b = .ok (some b1)) :
    b1.length < b.length := by
  unfold readLabel at h
  dsimp only at h
  split at h
  · cases h
  · split at h
    · cases h
    · rename_i x rest ht
      have h2 := takeN_some ht
      split at h
      · simp only [Res.ok.injEq, Option.some.injEq] at h
        subst h
        simp only [List.length_append, List.length_cons, List.length_nil] at h2
        omega
      · cases h

theorem readNewline_no_panic (b : Bytes) (p : String) : readNewline b ≠ .panic p := by
  unfold readNewline
  split <;> simp

theorem readNewline_err (b : Bytes) (e : String) (h : readNewline b = .err e) : e = "newline" := by
  unfold readNewline at h
  split at h
  · cases h
  · cases h; rfl

theorem readNewline_ok (b b1 : Bytes) (h : readNewline b = .ok b1) : b1.length < b.length := by
  unfold readNewline at h
  split at h
  · cases h; simp
  · cases h

theorem readString_no_panic (b : Bytes) (p : String) : readString b ≠ .panic p := by
  unfold readString
  split
  · simp
  · split <;> simp

theorem readString_err (b : Bytes) (e : String) (h : readString b = .err e) : e = "eof" := by
  unfold readString at h
  split at h
  · cases h; rfl
  · split at h
    · cases h; rfl
    · cases h

theorem takeSums_no_panic (n : Nat) (b : Bytes) (p : String) : takeSums n b ≠ .panic p := by
  induction n generalizing b p with
  | zero => simp [takeSums]
  | succ n ih =>
    intro h
    unfold takeSums at h
    split at h
    · cases h
    · split at h
      · cases h
      · cases h
      · rename_i heq; exact ih _ _ heq

/-! ## commit -/

theorem readStrField_no_panic (l : String) (b : Bytes) (p : String) :
    readStrField l b ≠ .panic p := by
  intro h
  unfold readStrField at h
  split at h
  · split at h
    · split at h
      · cases h
      · cases h
      · rename_i heq; exact readNewline_no_panic _ _ heq
    · cases h
    · rename_i heq; exact readString_no_panic _ _ heq
  · cases h
  · cases h
  · rename_i heq; exact readLabel_no_panic _ _ _ heq

theorem readStrField_no_fuel (l : String) (b : Bytes) : readStrField l b ≠ .err "fuel" := by
  intro h
  unfold readStrField at h
  split at h
  · split at h
    · split at h
      · cases h
      · rename_i heq
        injection h with h; subst h
        exact absurd (readNewline_err _ _ heq) (by decide)
      · cases h
    · rename_i heq
      injection h with h; subst h
      exact absurd (readString_err _ _ heq) (by decide)
    · cases h
  · injection h with h; exact absurd h (by decide)
  · rename_i heq
    injection h with h; subst h
    exact absurd (readLabel_err _ _ _ heq) (by decide)
  · cases h

theorem readStrField_ok (l : String) (b s b3 : Bytes) (h : readStrField l b = .ok (s, b3)) :
    b3.length < b.length := by
  unfold readStrField at h
  split at h
  · rename_i b1 h0
    have l0 := readLabel_some _ _ _ h0
    split at h
    · rename_i s' b2 h1
      split at h
      · rename_i b3' h2
        have l2 := readNewline_ok _ _ h2
        simp only [Res.ok.injEq, Prod.mk.injEq] at h
        obtain ⟨rfl, rfl⟩ := h
        unfold readString at h1
        split at h1
        · cases h1
        · rename_i lb r0 ht
          have := takeN_some ht
          split at h1
          · cases h1
          · rename_i s'' r1 ht2
            have := takeN_some ht2
            simp only [Res.ok.injEq, Prod.mk.injEq] at h1
            obtain ⟨rfl, rfl⟩ := h1
            omega
      · cases h
      · cases h
    · cases h
    · cases h
  · cases h
  · cases h
  · cases h

theorem readFixedField_no_panic (l : String) (n : Nat) (b : Bytes) (p : String) :
    readFixedField l n b ≠ .panic p := by
  intro h
  unfold readFixedField at h
  split at h
  · split at h
    · split at h
      · cases h
      · cases h
      · rename_i heq; exact readNewline_no_panic _ _ heq
    · cases h
  · cases h
  · cases h
  · rename_i heq; exact readLabel_no_panic _ _ _ heq

theorem readFixedField_no_fuel (l : String) (n : Nat) (b : Bytes) :
    readFixedField l n b ≠ .err "fuel" := by
  intro h
  unfold readFixedField at h
  split at h
  · split at h
    · split at h
      · cases h
      · rename_i heq
        injection h with h; subst h
        exact absurd (readNewline_err _ _ heq) (by decide)
      · cases h
    · injection h with h; exact absurd h (by decide)
  · injection h with h; exact absurd h (by decide)
  · rename_i heq
    injection h with h; subst h
    exact absurd (readLabel_err _ _ _ heq) (by decide)
  · cases h

theorem readParents_safe (fuel : Nat) (b : Bytes) (hf : b.length < fuel) (p : String) :
    readParents fuel b ≠ .panic p ∧ readParents fuel b ≠ .err "fuel" := by
  induction fuel generalizing b with
  | zero => omega
  | succ fuel ih =>
    unfold readParents
    split
    · simp
    · rename_i b1 h0
      have l0 := readLabel_some _ _ _ h0
      split
      · exact ⟨by simp, by simp⟩
      · rename_i q b2 ht
        have l1 := takeN_some ht
        split
        · rename_i b3 h2
          have l2 := readNewline_ok _ _ h2
          have := ih b3 (by omega)
          split
          · simp
          · rename_i e heq
            refine ⟨by simp, ?_⟩
            intro h; injection h with h; subst h
            exact this.2 heq
          · rename_i q' heq
            refine ⟨?_, by simp⟩
            intro h; injection h with h; subst h
            exact this.1 heq
        · rename_i e heq
          refine ⟨by simp, ?_⟩
          intro h; injection h with h; subst h
          exact absurd (readNewline_err _ _ heq) (by decide)
        · rename_i q' heq
          exact absurd heq (readNewline_no_panic _ _)
    · rename_i e heq
      refine ⟨by simp, ?_⟩
      intro h; injection h with h; subst h
      exact absurd (readLabel_err _ _ _ heq) (by decide)
    · rename_i q heq
      exact absurd heq (readLabel_no_panic _ _ _)

/-! ## packfile object header -/

theorem decodeHdrTail_safe (fuel : Nat) (b : Bytes) (bits acc : Nat) (hf : b.length < fuel)
    (p : String) :
    decodeHdrTail fuel b bits acc ≠ .panic p ∧ decodeHdrTail fuel b bits acc ≠ .err "fuel" := by
  induction fuel generalizing b bits acc with
  | zero => omega
  | succ fuel ih =>
    cases b with
    | nil => exact ⟨by simp [decodeHdrTail], by simp [decodeHdrTail]⟩
    | cons x rest =>
      unfold decodeHdrTail
      dsimp only
      split
      · simp
      · exact ih _ _ _ (by simp only [List.length_cons] at hf; omega)

end Wrgl
