/-
Auxiliary lemmas for C07 (object sender / receiver model). Core Lean only.
-/
import WrglModel.Model.Transfer
namespace Wrgl
namespace C07

/-! ## `eraseDups` on `Nat` lists -/

theorem nodup_eraseDups_aux (n : Nat) : ∀ (l : List Nat), l.length ≤ n → l.eraseDups.Nodup := by
  induction n with
  | zero =>
    intro l hl
    cases l with
    | nil => simp
    | cons a as => simp at hl
  | succ n ih =>
    intro l hl
    cases l with
    | nil => simp
    | cons a as =>
      rw [List.eraseDups_cons, List.nodup_cons]
      constructor
      · rw [List.mem_eraseDups]; simp
      · apply ih
        have := List.length_filter_le (fun b => !b == a) as
        simp only [List.length_cons] at hl
        omega

theorem nodup_eraseDups (l : List Nat) : l.eraseDups.Nodup := nodup_eraseDups_aux _ l (Nat.le_refl _)

/-! ## packfiles -/

theorem cutPack_spec (m : Nat) (size : ObjKey → Nat) : ∀ (os : List ObjKey) (sz : Nat) (acc : List ObjKey),
    (cutPack m size os sz acc).1 ++ (cutPack m size os sz acc).2 = acc.reverse ++ os ∧
    (os ≠ [] → (cutPack m size os sz acc).1 ≠ [] ∧ (cutPack m size os sz acc).2.length < os.length) := by
  intro os
  induction os with
  | nil => intro sz acc; simp [cutPack]
  | cons o os ih =>
    intro sz acc
    unfold cutPack
    simp only []
    split
    · simp
    · have := ih (sz + size o) (o :: acc)
      refine ⟨by simpa using this.1, fun _ => ?_⟩
      cases os with
      | nil => simp [cutPack]
      | cons o' os' =>
        have h2 := this.2 (by simp)
        exact ⟨h2.1, by have := h2.2; simp only [List.length_cons] at this ⊢; omega⟩

theorem packfiles_spec (m : Nat) (size : ObjKey → Nat) : ∀ (fuel : Nat) (objs : List ObjKey),
    objs.length < fuel →
    (packfiles m size fuel objs).flatten = objs ∧
    (∀ p ∈ packfiles m size fuel objs, p ≠ []) ∧
    (packfiles m size fuel objs).length ≤ objs.length := by
  intro fuel
  induction fuel with
  | zero => intro objs h; omega
  | succ fuel ih =>
    intro objs h
    cases objs with
    | nil => simp [packfiles]
    | cons o os =>
      have hs := cutPack_spec m size (o :: os) 0 []
      have hs2 := hs.2 (by simp)
      have hlen : (cutPack m size (o :: os) 0 []).2.length < fuel := by
        have := hs2.2; simp only [List.length_cons] at this h; omega
      have ihr := ih _ hlen
      have e : packfiles m size (fuel + 1) (o :: os) =
          (cutPack m size (o :: os) 0 []).1 :: packfiles m size fuel (cutPack m size (o :: os) 0 []).2 := by
        simp [packfiles]
      rw [e]
      refine ⟨?_, ?_, ?_⟩
      · rw [List.flatten_cons, ihr.1]; simpa using hs.1
      · intro p hp
        rcases List.mem_cons.1 hp with rfl | hp
        · exact hs2.1
        · exact ihr.2.1 p hp
      · have := ihr.2.2; have := hs2.2
        simp only [List.length_cons] at *; omega

/-! ## lookups return the requested id -/

theorem get?_id {g : Graph} {c : Nat} {cm : Commit} (h : g.get? c = some cm) : cm.id = c := by
  have := List.find?_some h
  simpa using this

theorem table?_id {s : SrcRepo} {t : Nat} {ti : TblInfo} (h : s.table? t = some ti) : ti.id = t := by
  have := List.find?_some h
  simpa using this

theorem get?_cons_isSome (cm : Commit) (g : Graph) (k : Nat) :
    (Graph.get? (cm :: g) k).isSome = true ↔ cm.id = k ∨ (Graph.get? g k).isSome = true := by
  unfold Graph.get?
  rw [List.find?_cons]
  by_cases h : cm.id = k
  · simp [h]
  · have : (cm.id == k) = false := by simpa using h
    simp [this, h]

/-! ## the receiver: what one accepted object changes -/

theorem receiveObj_has {s : SrcRepo} {d d' : DstRepo} {o : ObjKey} (h : receiveObj s d o = .ok d') :
    ∀ k, d'.has k = true ↔ d.has k = true ∨ k = o := by
  intro k
  cases o with
  | blk b =>
    simp only [receiveObj, Res.ok.injEq] at h
    subst h
    by_cases hb : d.blocks.contains b = true
    · rw [if_pos hb]
      constructor
      · exact Or.inl
      · rintro (h | rfl)
        · exact h
        · exact hb
    · rw [if_neg hb]
      cases k with
      | blk b' =>
        simp only [DstRepo.has, List.contains_iff_mem, List.mem_cons, ObjKey.blk.injEq]
        constructor
        · rintro (h | h)
          · exact Or.inr h
          · exact Or.inl h
        · rintro (h | h)
          · exact Or.inr h
          · exact Or.inl h
      | tbl t' => simp [DstRepo.has]
      | com c' => simp [DstRepo.has]
  | tbl t =>
    simp only [receiveObj] at h
    split at h
    · cases h
    · rename_i ti hti
      split at h
      · simp only [Res.ok.injEq] at h
        subst h
        by_cases ht : d.tables.any (fun x => x.id == t) = true
        · rw [if_pos ht]
          constructor
          · exact Or.inl
          · rintro (h | rfl)
            · exact h
            · exact ht
        · rw [if_neg ht]
          have hid := table?_id hti
          cases k with
          | blk b' => simp [DstRepo.has]
          | tbl t' =>
            simp only [DstRepo.has, List.any_cons, Bool.or_eq_true, beq_iff_eq, ObjKey.tbl.injEq, hid]
            constructor
            · rintro (h | h)
              · exact Or.inr h.symm
              · exact Or.inl h
            · rintro (h | h)
              · exact Or.inr h
              · exact Or.inl h.symm
          | com c' => simp [DstRepo.has]
      · cases h
  | com c =>
    simp only [receiveObj] at h
    split at h
    · cases h
    · rename_i cm hcm
      split at h
      · simp only [Res.ok.injEq] at h
        subst h
        by_cases hc : (d.commits.get? c).isSome = true
        · rw [if_pos hc]
          constructor
          · exact Or.inl
          · rintro (h | rfl)
            · exact h
            · exact hc
        · rw [if_neg hc]
          have hid := get?_id hcm
          cases k with
          | blk b' => simp [DstRepo.has]
          | tbl t' => simp [DstRepo.has]
          | com c' =>
            simp only [DstRepo.has, get?_cons_isSome, hid, ObjKey.com.injEq]
            constructor
            · rintro (h | h)
              · exact Or.inr h.symm
              · exact Or.inl h
            · rintro (h | h)
              · exact Or.inr h
              · exact Or.inl h.symm
      · cases h

theorem receiveAll_has {s : SrcRepo} : ∀ (os : List ObjKey) {d d' : DstRepo}, receiveAll s d os = .ok d' →
    ∀ k, d'.has k = true ↔ d.has k = true ∨ k ∈ os := by
  intro os
  induction os with
  | nil => intro d d' h k; simp only [receiveAll, Res.ok.injEq] at h; subst h; simp
  | cons o os ih =>
    intro d d' h k
    simp only [receiveAll] at h
    split at h
    · rename_i d1 h1
      rw [ih h k, receiveObj_has h1 k, List.mem_cons, or_assoc]
    · cases h
    · cases h

theorem receiveAll_append {s : SrcRepo} : ∀ (a b : List ObjKey) {d d1 : DstRepo}, receiveAll s d a = .ok d1 →
    receiveAll s d (a ++ b) = receiveAll s d1 b := by
  intro a
  induction a with
  | nil => intro b d d1 h; simp only [receiveAll, Res.ok.injEq] at h; subst h; rfl
  | cons o os ih =>
    intro b d d1 h
    simp only [receiveAll, List.cons_append] at h ⊢
    split at h
    · rename_i d2 h2
      exact ih b h
    · cases h
    · cases h

/-! ## the receiver: when an object is accepted -/

theorem receiveAll_blks_ok (s : SrcRepo) : ∀ (bs : List Nat) (d : DstRepo),
    ∃ d', receiveAll s d (bs.map ObjKey.blk) = .ok d' := by
  intro bs
  induction bs with
  | nil => intro d; exact ⟨d, rfl⟩
  | cons b bs ih =>
    intro d
    simp only [List.map_cons, receiveAll, receiveObj]
    exact ih _

theorem receiveObj_tbl_ok {s : SrcRepo} {d : DstRepo} {t : Nat} {ti : TblInfo} (ht : s.table? t = some ti)
    (hb : ∀ b ∈ ti.blocks, d.has (.blk b) = true) : ∃ d', receiveObj s d (.tbl t) = .ok d' := by
  simp only [receiveObj, ht]
  have : ti.blocks.all d.blocks.contains = true := by
    rw [List.all_eq_true]; intro b hbm; exact hb b hbm
  rw [if_pos this]
  exact ⟨_, rfl⟩

theorem receiveObj_com_ok {s : SrcRepo} {d : DstRepo} {c : Nat} {cm : Commit} (hc : s.commits.get? c = some cm)
    (hp : ∀ p ∈ cm.parents, d.has (.com p) = true) : ∃ d', receiveObj s d (.com c) = .ok d' := by
  simp only [receiveObj, hc]
  have : cm.parents.all (fun p => (d.commits.get? p).isSome) = true := by
    rw [List.all_eq_true]; intro p hpm; exact hp p hpm
  rw [if_pos this]
  exact ⟨_, rfl⟩

theorem receiveAll_single {s : SrcRepo} {d d' : DstRepo} {o : ObjKey} (h : receiveObj s d o = .ok d') :
    receiveAll s d [o] = .ok d' := by
  simp [receiveAll, h]

/-! ## the sender: one commit's contribution -/

/-- the blocks newly sent for table `ti` in state `st` -/
def newBlocks (st : SenderSt) (ti : TblInfo) : List Nat :=
  (ti.blocks.filter (fun b => !st.commonBlocks.contains b)).eraseDups

theorem mem_newBlocks {st : SenderSt} {ti : TblInfo} {b : Nat} :
    b ∈ newBlocks st ti ↔ b ∈ ti.blocks ∧ b ∉ st.commonBlocks := by
  simp [newBlocks, List.mem_eraseDups]

theorem commitObjs_cases {s : SrcRepo} {tts : List Nat} {st st' : SenderSt} {c : Nat} {o : List ObjKey}
    (h : commitObjs s tts st c = .ok (o, st')) :
    ∃ cm, s.commits.get? c = some cm ∧
      ((o = [.com c] ∧ st'.commonBlocks = st.commonBlocks ∧
          (st'.commonTables = st.commonTables ∨ st'.commonTables = cm.table :: st.commonTables)) ∨
       (∃ ti, s.table? cm.table = some ti ∧ cm.table ∉ st.commonTables ∧
          o = (newBlocks st ti).map ObjKey.blk ++ [.tbl cm.table, .com c] ∧
          st'.commonTables = cm.table :: st.commonTables ∧
          st'.commonBlocks = newBlocks st ti ++ st.commonBlocks)) := by
  unfold commitObjs at h
  split at h
  · cases h
  · rename_i cm hcm
    refine ⟨cm, hcm, ?_⟩
    split at h
    · rename_i hcond
      split at h
      · simp only [Res.ok.injEq, Prod.mk.injEq] at h
        obtain ⟨rfl, rfl⟩ := h
        exact Or.inl ⟨rfl, rfl, Or.inr rfl⟩
      · rename_i ti hti
        simp only [Res.ok.injEq, Prod.mk.injEq] at h
        obtain ⟨rfl, rfl⟩ := h
        refine Or.inr ⟨ti, hti, ?_, rfl, rfl, rfl⟩
        simp only [Bool.and_eq_true, Bool.not_eq_true'] at hcond
        intro hm
        have := List.contains_iff_mem.2 hm
        rw [hcond.2] at this; cases this
    · simp only [Res.ok.injEq, Prod.mk.injEq] at h
      obtain ⟨rfl, rfl⟩ := h
      exact Or.inl ⟨rfl, rfl, Or.inl rfl⟩

/-- what the order argument needs to know about one commit's contribution `o` -/
structure StepOK (s : SrcRepo) (f : ObjKey → Bool) (g : ObjKey → Option Nat) (st st' : SenderSt) (c : Nat)
    (o : List ObjKey) : Prop where
  fm : o.filterMap g = [c]
  nd : (o.filter f).Nodup
  blkNew : ∀ b, ObjKey.blk b ∈ o → b ∉ st.commonBlocks ∧ b ∈ st'.commonBlocks
  tblNew : ∀ t, ObjKey.tbl t ∈ o → t ∉ st.commonTables ∧ t ∈ st'.commonTables
  monoB : ∀ b ∈ st.commonBlocks, b ∈ st'.commonBlocks
  monoT : ∀ t ∈ st.commonTables, t ∈ st'.commonTables
  backB : ∀ b ∈ st'.commonBlocks, b ∈ st.commonBlocks ∨ ObjKey.blk b ∈ o
  tblBlocks : ∀ (i : Nat) (t : Nat), o[i]? = some (.tbl t) → ∀ ti, s.table? t = some ti →
    ∀ b ∈ ti.blocks, b ∈ st.commonBlocks ∨ ObjKey.blk b ∈ o.take i

theorem nodup_map_blk {l : List Nat} (h : l.Nodup) : (l.map ObjKey.blk).Nodup := by
  unfold List.Nodup at h ⊢
  rw [List.pairwise_map]
  exact h.imp (fun hne heq => hne (by injection heq))

section
variable {f : ObjKey → Bool} {g : ObjKey → Option Nat}
variable (hfb : ∀ b, f (.blk b) = true) (hft : ∀ t, f (.tbl t) = true) (hfc : ∀ c, f (.com c) = false)
variable (hgb : ∀ b, g (.blk b) = none) (hgt : ∀ t, g (.tbl t) = none) (hgc : ∀ c, g (.com c) = some c)
include hfb hft hfc hgb hgt hgc
set_option linter.unusedSectionVars false

theorem filterMap_map_blk (l : List Nat) : (l.map ObjKey.blk).filterMap g = [] := by
  induction l with
  | nil => rfl
  | cons b bs ih => simp [hgb, ih]

theorem filter_map_blk (l : List Nat) : (l.map ObjKey.blk).filter f = l.map ObjKey.blk := by
  induction l with
  | nil => rfl
  | cons b bs ih => simp [hfb, ih]

theorem commitObjs_step {s : SrcRepo} {tts : List Nat} {st st' : SenderSt} {c : Nat} {o : List ObjKey}
    (h : commitObjs s tts st c = .ok (o, st')) : StepOK s f g st st' c o := by
  obtain ⟨cm, hcm, hcase⟩ := commitObjs_cases h
  rcases hcase with ⟨rfl, hB, hT⟩ | ⟨ti, hti, hnt, rfl, hT, hB⟩
  · refine ⟨?_, ?_, ?_, ?_, ?_, ?_, ?_, ?_⟩
    · simp [hgc]
    · simp [hfc]
    · intro b hb; simp at hb
    · intro t ht; simp at ht
    · intro b hb; rw [hB]; exact hb
    · intro t ht
      rcases hT with hT | hT
      · rw [hT]; exact ht
      · rw [hT]; exact List.mem_cons_of_mem _ ht
    · intro b hb; rw [hB] at hb; exact Or.inl hb
    · intro i t hi
      have := List.mem_of_getElem? hi
      simp at this
  · have hmemblk : ∀ b, ObjKey.blk b ∈ (newBlocks st ti).map ObjKey.blk ++ [.tbl cm.table, .com c] ↔
        b ∈ newBlocks st ti := by
      intro b; simp
    refine ⟨?_, ?_, ?_, ?_, ?_, ?_, ?_, ?_⟩
    · rw [List.filterMap_append, filterMap_map_blk hfb hft hfc hgb hgt hgc]
      simp [hgc, hgt]
    · rw [List.filter_append, filter_map_blk hfb hft hfc hgb hgt hgc]
      have : List.filter f [ObjKey.tbl cm.table, ObjKey.com c] = [ObjKey.tbl cm.table] := by
        simp [hfc, hft]
      rw [this, List.nodup_append]
      refine ⟨nodup_map_blk (nodup_eraseDups _), by simp, ?_⟩
      intro a ha b hb
      simp only [List.mem_map] at ha
      obtain ⟨x, _, rfl⟩ := ha
      simp only [List.mem_singleton] at hb
      subst hb
      intro hh; cases hh
    · intro b hb
      rw [hmemblk] at hb
      rw [hB]
      exact ⟨(mem_newBlocks.1 hb).2, List.mem_append_left _ hb⟩
    · intro t ht
      have : t = cm.table := by simpa using ht
      subst this
      rw [hT]
      exact ⟨hnt, List.mem_cons_self⟩
    · intro b hb; rw [hB]; exact List.mem_append_right _ hb
    · intro t ht; rw [hT]; exact List.mem_cons_of_mem _ ht
    · intro b hb
      rw [hB] at hb
      rcases List.mem_append.1 hb with hb | hb
      · exact Or.inr ((hmemblk b).2 hb)
      · exact Or.inl hb
    · intro i t hi ti' hti' b hb
      by_cases hlt : i < ((newBlocks st ti).map ObjKey.blk).length
      · rw [List.getElem?_append_left hlt] at hi
        have := List.mem_of_getElem? hi
        simp at this
      · have hle : ((newBlocks st ti).map ObjKey.blk).length ≤ i := Nat.le_of_not_lt hlt
        rw [List.getElem?_append_right hle] at hi
        have hm := List.mem_of_getElem? hi
        have : t = cm.table := by simpa using hm
        subst this
        rw [hti] at hti'
        cases hti'
        by_cases hc : b ∈ st.commonBlocks
        · exact Or.inl hc
        · right
          rw [List.take_append, List.take_of_length_le hle]
          exact List.mem_append_left _ (List.mem_map.2 ⟨b, mem_newBlocks.2 ⟨hb, hc⟩, rfl⟩)

theorem senderObjs_order {s : SrcRepo} {tts : List Nat} : ∀ (cs : List Nat) (st : SenderSt) (objs : List ObjKey),
    senderObjs s tts st cs = .ok objs →
    objs.filterMap g = cs ∧ (objs.filter f).Nodup ∧
    (∀ b, ObjKey.blk b ∈ objs → b ∉ st.commonBlocks) ∧
    (∀ t, ObjKey.tbl t ∈ objs → t ∉ st.commonTables) ∧
    (∀ (i : Nat) (t : Nat), objs[i]? = some (.tbl t) → ∀ ti, s.table? t = some ti →
      ∀ b ∈ ti.blocks, b ∈ st.commonBlocks ∨ ObjKey.blk b ∈ objs.take i) := by
  intro cs
  induction cs with
  | nil =>
    intro st objs h
    simp only [senderObjs, Res.ok.injEq] at h
    subst h
    simp
  | cons c cs ih =>
    intro st objs h
    simp only [senderObjs] at h
    split at h
    · rename_i o st' hstep
      split at h
      · rename_i rest hrest
        simp only [Res.ok.injEq] at h
        subst h
        have S : StepOK s f g st st' c o := commitObjs_step hfb hft hfc hgb hgt hgc hstep
        obtain ⟨i1, i2, i3, i4, i5⟩ := ih st' rest hrest
        refine ⟨?_, ?_, ?_, ?_, ?_⟩
        · rw [List.filterMap_append, S.fm, i1]; rfl
        · rw [List.filter_append, List.nodup_append]
          refine ⟨S.nd, i2, ?_⟩
          intro a ha b hb hab
          subst hab
          have ha' := List.mem_filter.1 ha
          have hb' := List.mem_filter.1 hb
          cases a with
          | blk x => exact i3 x hb'.1 (S.blkNew x ha'.1).2
          | tbl x => exact i4 x hb'.1 (S.tblNew x ha'.1).2
          | com x => have := ha'.2; rw [hfc] at this; cases this
        · intro b hb
          rcases List.mem_append.1 hb with hb | hb
          · exact (S.blkNew b hb).1
          · exact fun hc => i3 b hb (S.monoB b hc)
        · intro t ht
          rcases List.mem_append.1 ht with ht | ht
          · exact (S.tblNew t ht).1
          · exact fun hc => i4 t ht (S.monoT t hc)
        · intro i t hi ti hti b hb
          by_cases hlt : i < o.length
          · rw [List.getElem?_append_left hlt] at hi
            rcases S.tblBlocks i t hi ti hti b hb with h1 | h1
            · exact Or.inl h1
            · right; rw [List.take_append]; exact List.mem_append_left _ h1
          · have hle : o.length ≤ i := Nat.le_of_not_lt hlt
            rw [List.getElem?_append_right hle] at hi
            rw [List.take_append, List.take_of_length_le hle]
            rcases i5 _ t hi ti hti b hb with h1 | h1
            · rcases S.backB b h1 with h2 | h2
              · exact Or.inl h2
              · exact Or.inr (List.mem_append_left _ h2)
            · exact Or.inr (List.mem_append_right _ h1)
      · cases h
      · cases h
    · cases h
    · cases h
end

/-! ## sender output is accepted by the receiver -/

theorem commitObjs_com_mem {s : SrcRepo} {tts : List Nat} {st st' : SenderSt} {c : Nat} {o : List ObjKey}
    (h : commitObjs s tts st c = .ok (o, st')) : ObjKey.com c ∈ o := by
  obtain ⟨cm, _, hcase⟩ := commitObjs_cases h
  rcases hcase with ⟨rfl, _, _⟩ | ⟨ti, _, _, rfl, _, _⟩ <;> simp

theorem commitObjs_receive {s : SrcRepo} {tts : List Nat} {st st' : SenderSt} {c : Nat} {o : List ObjKey}
    {d : DstRepo} (h : commitObjs s tts st c = .ok (o, st'))
    (hB : ∀ b ∈ st.commonBlocks, d.has (.blk b) = true)
    (hP : ∀ cm, s.commits.get? c = some cm → ∀ p ∈ cm.parents, d.has (.com p) = true) :
    ∃ d1, receiveAll s d o = .ok d1 ∧ ∀ b ∈ st'.commonBlocks, d1.has (.blk b) = true := by
  obtain ⟨cm, hcm, hcase⟩ := commitObjs_cases h
  rcases hcase with ⟨rfl, hB', _⟩ | ⟨ti, hti, _, rfl, _, hB'⟩
  · obtain ⟨d1, h1⟩ := receiveObj_com_ok hcm (hP cm hcm)
    refine ⟨d1, receiveAll_single h1, ?_⟩
    intro b hb
    rw [hB'] at hb
    exact (receiveObj_has h1 _).2 (Or.inl (hB b hb))
  · obtain ⟨db, hdb⟩ := receiveAll_blks_ok s (newBlocks st ti) d
    have hasb := receiveAll_has _ hdb
    have hblocks : ∀ b ∈ ti.blocks, db.has (.blk b) = true := by
      intro b hb
      by_cases hc : b ∈ st.commonBlocks
      · exact (hasb _).2 (Or.inl (hB b hc))
      · exact (hasb _).2 (Or.inr (List.mem_map.2 ⟨b, mem_newBlocks.2 ⟨hb, hc⟩, rfl⟩))
    obtain ⟨dt, hdt⟩ := receiveObj_tbl_ok hti hblocks
    have hast := receiveObj_has hdt
    have hpar : ∀ p ∈ cm.parents, dt.has (.com p) = true := by
      intro p hp
      exact (hast _).2 (Or.inl ((hasb _).2 (Or.inl (hP cm hcm p hp))))
    obtain ⟨dc, hdc⟩ := receiveObj_com_ok hcm hpar
    have hasc := receiveObj_has hdc
    refine ⟨dc, ?_, ?_⟩
    · rw [receiveAll_append _ _ hdb]
      simp only [receiveAll, hdt, hdc]
    · intro b hb
      rw [hB'] at hb
      apply (hasc _).2; left
      apply (hast _).2; left
      apply (hasb _).2
      rcases List.mem_append.1 hb with hb | hb
      · exact Or.inr (List.mem_map.2 ⟨b, hb, rfl⟩)
      · exact Or.inl (hB b hb)

theorem senderObjs_receive {s : SrcRepo} {tts : List Nat} : ∀ (cs : List Nat) (st : SenderSt) (d : DstRepo)
    (objs : List ObjKey), senderObjs s tts st cs = .ok objs →
    (∀ b ∈ st.commonBlocks, d.has (.blk b) = true) →
    (∀ (i : Nat) (c : Nat), cs[i]? = some c → ∀ cm, s.commits.get? c = some cm →
      ∀ p ∈ cm.parents, d.has (.com p) = true ∨ p ∈ cs.take i) →
    ∃ d', receiveAll s d objs = .ok d' := by
  intro cs
  induction cs with
  | nil =>
    intro st d objs h _ _
    simp only [senderObjs, Res.ok.injEq] at h
    subst h
    exact ⟨d, rfl⟩
  | cons c cs ih =>
    intro st d objs h hB hP
    simp only [senderObjs] at h
    split at h
    · rename_i o st' hstep
      split at h
      · rename_i rest hrest
        simp only [Res.ok.injEq] at h
        subst h
        have hP0 : ∀ cm, s.commits.get? c = some cm → ∀ p ∈ cm.parents, d.has (.com p) = true := by
          intro cm hcm p hp
          rcases hP 0 c rfl cm hcm p hp with h1 | h1
          · exact h1
          · simp at h1
        obtain ⟨d1, hd1, hB1⟩ := commitObjs_receive hstep hB hP0
        have has1 := receiveAll_has _ hd1
        have hP1 : ∀ (i : Nat) (c' : Nat), cs[i]? = some c' → ∀ cm, s.commits.get? c' = some cm →
            ∀ p ∈ cm.parents, d1.has (.com p) = true ∨ p ∈ cs.take i := by
          intro i c' hi cm hcm p hp
          rcases hP (i + 1) c' (by simpa using hi) cm hcm p hp with h1 | h1
          · exact Or.inl ((has1 _).2 (Or.inl h1))
          · rw [List.take_succ_cons] at h1
            rcases List.mem_cons.1 h1 with rfl | h1
            · exact Or.inl ((has1 _).2 (Or.inr (commitObjs_com_mem hstep)))
            · exact Or.inr h1
        obtain ⟨d', hd'⟩ := ih st' d1 rest hrest hB1 hP1
        exact ⟨d', by rw [receiveAll_append _ _ hd1]; exact hd'⟩
      · cases h
      · cases h
    · cases h
    · cases h

theorem senderInit_blocks {s : SrcRepo} {common : List Nat} {st : SenderSt} (h : senderInit s common = .ok st) :
    ∀ b ∈ st.commonBlocks, ∃ c ∈ common, ∃ cm, s.commits.get? c = some cm ∧
      ∃ ti, s.table? cm.table = some ti ∧ b ∈ ti.blocks := by
  unfold senderInit at h
  split at h
  · cases h
  · simp only [Res.ok.injEq] at h
    subst h
    intro b hb
    simp only [List.mem_eraseDups, List.mem_flatMap, List.mem_filterMap] at hb
    obtain ⟨t, ⟨c, hc, hct⟩, hbt⟩ := hb
    cases hcm : s.commits.get? c with
    | none => rw [hcm] at hct; simp at hct
    | some cm =>
      rw [hcm] at hct
      simp only [Option.map_some, Option.some.injEq] at hct
      subst hct
      cases hti : s.table? cm.table with
      | none => rw [hti] at hbt; simp at hbt
      | some ti =>
        rw [hti] at hbt
        exact ⟨c, hc, cm, hcm, ti, hti, hbt⟩

end C07
end Wrgl
