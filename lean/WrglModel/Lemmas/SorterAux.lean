/-
Auxiliary lemmas for C19: the `addRows` invariant, `dedupAdj` on a sorted list, uniqueness of the
strictly ascending enumeration, `cutBlocks`.
-/
import WrglModel.Model.Sorter
import WrglModel.Spec.Sorter
import WrglModel.Lemmas.Kway
import WrglModel.Lemmas.KeyOrder
namespace Wrgl.SorterAux
open Wrgl.KeyOrder

/-! ### addRow / addRows -/

theorem addRow_ok_shape (sortFn : List Row → List Row) (maxCell : Option Nat) (runSize : Nat)
    (st st' : SorterSt) (r : Row) (h : addRow sortFn maxCell runSize st r = .ok st') :
    st' = { chunks := st.chunks ++ [sortFn (st.current ++ [r])], current := [], size := 0 } ∨
    st' = { chunks := st.chunks, current := st.current ++ [r], size := st.size + rowSize r } := by
  unfold addRow at h
  cases maxCell with
  | none =>
    simp only at h
    split at h
    · left; injection h with h; exact h.symm
    · right; injection h with h; exact h.symm
  | some m =>
    simp only at h
    split at h
    · cases h
    · split at h
      · left; injection h with h; exact h.symm
      · right; injection h with h; exact h.symm

theorem addRow_ne_panic (sortFn : List Row → List Row) (maxCell : Option Nat) (runSize : Nat)
    (st : SorterSt) (r : Row) (p : String) : addRow sortFn maxCell runSize st r ≠ .panic p := by
  unfold addRow
  cases maxCell with
  | none => simp only; split <;> simp
  | some m =>
    simp only
    split
    · simp
    · split <;> simp

theorem addRow_some_ok_iff (sortFn : List Row → List Row) (m runSize : Nat) (st : SorterSt) (r : Row) :
    (∃ st', addRow sortFn (some m) runSize st r = .ok st') ↔ ∀ c ∈ r, c.length ≤ m := by
  unfold addRow
  simp only
  by_cases hany : r.any (fun c => decide (c.length > m)) = true
  · simp only [hany, if_true]
    constructor
    · rintro ⟨_, h⟩; cases h
    · intro h
      simp only [List.any_eq_true, decide_eq_true_eq] at hany
      obtain ⟨c, hc, hlt⟩ := hany
      have := h c hc
      omega
  · simp only [hany]
    constructor
    · intro _ c hc
      simp only [List.any_eq_true, decide_eq_true_eq, not_exists, not_and] at hany
      have := hany c hc
      omega
    · intro _
      simp only [Bool.false_eq_true, if_false]
      split <;> exact ⟨_, rfl⟩

theorem addRows_ne_panic (sortFn : List Row → List Row) (maxCell : Option Nat) (runSize : Nat)
    (rows : List Row) : ∀ (st : SorterSt) (p : String),
    addRows sortFn maxCell runSize st rows ≠ .panic p := by
  induction rows with
  | nil => intro st p; simp [addRows]
  | cons r rs ih =>
    intro st p
    simp only [addRows]
    cases h : addRow sortFn maxCell runSize st r with
    | ok st' => exact ih st' p
    | err e => simp
    | panic q => exact absurd h (addRow_ne_panic _ _ _ _ _ _)

theorem addRows_some_ok_iff (sortFn : List Row → List Row) (m runSize : Nat) (rows : List Row) :
    ∀ st : SorterSt, (∃ st', addRows sortFn (some m) runSize st rows = .ok st') ↔
      ∀ r ∈ rows, ∀ c ∈ r, c.length ≤ m := by
  induction rows with
  | nil => intro st; simp [addRows]
  | cons r rs ih =>
    intro st
    simp only [addRows, List.forall_mem_cons]
    cases h : addRow sortFn (some m) runSize st r with
    | ok st1 =>
      simp only
      rw [ih st1]
      have := (addRow_some_ok_iff sortFn m runSize st r).1 ⟨st1, h⟩
      exact ⟨fun h2 => ⟨this, h2⟩, fun h2 => h2.2⟩
    | err e =>
      simp only
      constructor
      · rintro ⟨_, h2⟩; cases h2
      · intro h2
        obtain ⟨st', hst'⟩ := (addRow_some_ok_iff sortFn m runSize st r).2 h2.1
        rw [h] at hst'; cases hst'
    | panic q => exact absurd h (addRow_ne_panic _ _ _ _ _ _)

/-- invariant of `addRows`: chunks are outputs of `sortFn`, nothing is lost -/
theorem addRows_inv (sortFn : List Row → List Row) (maxCell : Option Nat) (runSize : Nat)
    (P : List Row → Prop) (hP : ∀ l, P (sortFn l))
    (hperm : ∀ l, (sortFn l).Perm l) (rows : List Row) :
    ∀ (st st' : SorterSt), addRows sortFn maxCell runSize st rows = .ok st' →
      (∀ c ∈ st.chunks, P c) →
      (∀ c ∈ st'.chunks, P c) ∧
      (st'.chunks.flatten ++ st'.current).Perm (st.chunks.flatten ++ st.current ++ rows) := by
  induction rows with
  | nil =>
    intro st st' h hc
    simp only [addRows] at h
    injection h with h
    subst h
    exact ⟨hc, by simp⟩
  | cons r rs ih =>
    intro st st' h hc
    simp only [addRows] at h
    cases h1 : addRow sortFn maxCell runSize st r with
    | err e => rw [h1] at h; cases h
    | panic q => rw [h1] at h; cases h
    | ok st1 =>
      rw [h1] at h
      simp only at h
      rcases addRow_ok_shape _ _ _ _ _ _ h1 with e | e
      · have hc1 : ∀ c ∈ st1.chunks, P c := by
          intro c hcm
          rw [e] at hcm
          simp only [List.mem_append, List.mem_singleton] at hcm
          rcases hcm with hcm | rfl
          · exact hc c hcm
          · exact hP _
        obtain ⟨ha, hb⟩ := ih st1 st' h hc1
        refine ⟨ha, hb.trans ?_⟩
        rw [e]
        simp only [List.flatten_append, List.flatten_cons, List.flatten_nil, List.append_nil,
          List.append_assoc]
        refine List.Perm.append_left _ ?_
        have := (hperm (st.current ++ [r])).append_right rs
        simpa using this
      · have hc1 : ∀ c ∈ st1.chunks, P c := by
          intro c hcm
          rw [e] at hcm
          exact hc c hcm
        obtain ⟨ha, hb⟩ := ih st1 st' h hc1
        refine ⟨ha, hb.trans ?_⟩
        rw [e]
        simp

/-! ### dedupAdj on a sorted list -/

/-- sortedness in terms of `keyCmp` -/
def KSorted (pk : List Nat) (l : List Row) : Prop :=
  l.Pairwise (fun a b => keyCmp (keyOf pk b) (keyOf pk a) ≠ .lt)

theorem dedupAdj_spec (pk : List Nat) (l : List Row) :
    ∀ (prev : Option (List Bytes)), KSorted pk l →
      (∀ k, prev = some k → ∀ r ∈ l, keyCmp (keyOf pk r) k ≠ .lt) →
      (dedupAdj pk prev l).Pairwise (fun a b => keyCmp (keyOf pk a) (keyOf pk b) = .lt) ∧
      (∀ r ∈ dedupAdj pk prev l, r ∈ l) ∧
      (∀ k, prev = some k → ∀ r ∈ dedupAdj pk prev l, keyCmp k (keyOf pk r) = .lt) ∧
      (∀ r ∈ l, prev = some (keyOf pk r) ∨ ∃ r' ∈ dedupAdj pk prev l, keyOf pk r' = keyOf pk r) := by
  induction l with
  | nil => intro prev _ _; simp [dedupAdj]
  | cons r rs ih =>
    intro prev hs hb
    have hs' : KSorted pk rs := (List.pairwise_cons.1 hs).2
    have hr : ∀ r' ∈ rs, keyCmp (keyOf pk r') (keyOf pk r) ≠ .lt := (List.pairwise_cons.1 hs).1
    simp only [dedupAdj]
    by_cases hp : prev = some (keyOf pk r)
    · have hbeq : (prev == some (keyOf pk r)) = true := by simp [hp]
      simp only [hbeq, if_true]
      obtain ⟨i1, i2, i3, i4⟩ := ih prev hs' (fun k hk r' hr' => hb k hk r' (List.mem_cons_of_mem _ hr'))
      refine ⟨i1, fun x hx => List.mem_cons_of_mem _ (i2 x hx), i3, ?_⟩
      intro x hx
      rcases List.mem_cons.1 hx with rfl | hx
      · exact Or.inl hp
      · exact i4 x hx
    · have hbeq : (prev == some (keyOf pk r)) = false := by simp [hp]
      simp only [hbeq, Bool.false_eq_true, if_false]
      obtain ⟨i1, i2, i3, i4⟩ := ih (some (keyOf pk r)) hs'
        (fun k hk r' hr' => by injection hk with hk; subst hk; exact hr r' hr')
      refine ⟨?_, ?_, ?_, ?_⟩
      · rw [List.pairwise_cons]
        exact ⟨fun x hx => i3 _ rfl x hx, i1⟩
      · intro x hx
        rcases List.mem_cons.1 hx with rfl | hx
        · exact List.mem_cons_self
        · exact List.mem_cons_of_mem _ (i2 x hx)
      · intro k hk x hx
        have hkr : keyCmp k (keyOf pk r) = .lt := by
          apply keyCmp_good.lt_of_not_gt_of_ne
          · exact hb k hk r List.mem_cons_self
          · intro e; exact hp (by rw [hk, e])
        rcases List.mem_cons.1 hx with rfl | hx
        · exact hkr
        · exact keyCmp_lt_trans _ _ _ hkr (i3 _ rfl x hx)
      · intro x hx
        right
        rcases List.mem_cons.1 hx with rfl | hx
        · exact ⟨x, List.mem_cons_self, rfl⟩
        · rcases i4 x hx with e | ⟨r', hr', e⟩
          · injection e with e
            exact ⟨r, List.mem_cons_self, e⟩
          · exact ⟨r', List.mem_cons_of_mem _ hr', e⟩

/-! ### the strictly ascending enumeration is unique -/

theorem asc_unique {α β : Type} {cmp : β → β → Ordering} (hc : GoodCmp cmp) (K : α → β) :
    ∀ (l1 l2 : List α),
      l1.Pairwise (fun a b => cmp (K a) (K b) = .lt) →
      l2.Pairwise (fun a b => cmp (K a) (K b) = .lt) →
      (∀ a ∈ l1, ∃ b ∈ l2, K b = K a) →
      (∀ b ∈ l2, ∃ a ∈ l1, K a = K b) →
      (∀ a ∈ l1, ∀ b ∈ l2, K a = K b → a = b) →
      l1 = l2 := by
  have irrefl : ∀ x : β, cmp x x ≠ .lt := fun x h => by rw [hc.refl x] at h; cases h
  intro l1
  induction l1 with
  | nil =>
    intro l2 _ _ _ h21 _
    cases l2 with
    | nil => rfl
    | cons b bs =>
      obtain ⟨a, ha, _⟩ := h21 b List.mem_cons_self
      cases ha
  | cons a as ih =>
    intro l2 p1 p2 h12 h21 heq
    cases l2 with
    | nil =>
      obtain ⟨b, hb, _⟩ := h12 a List.mem_cons_self
      cases hb
    | cons b bs =>
      obtain ⟨pa, pas⟩ := List.pairwise_cons.1 p1
      obtain ⟨pb, pbs⟩ := List.pairwise_cons.1 p2
      have hk : K a = K b := by
        obtain ⟨b', hb', eb⟩ := h12 a List.mem_cons_self
        rcases List.mem_cons.1 hb' with rfl | hb'
        · exact eb.symm
        · obtain ⟨a', ha', ea⟩ := h21 b List.mem_cons_self
          rcases List.mem_cons.1 ha' with rfl | ha'
          · exact ea
          · have h1 := pb b' hb'   -- K b < K b' = K a
            have h2 := pa a' ha'   -- K a < K a' = K b
            rw [eb] at h1
            rw [ea] at h2
            exact absurd (hc.lt_trans _ _ _ h1 h2) (irrefl _)
      have hab : a = b := heq a List.mem_cons_self b List.mem_cons_self hk
      subst hab
      congr 1
      apply ih bs pas pbs
      · intro x hx
        obtain ⟨y, hy, e⟩ := h12 x (List.mem_cons_of_mem _ hx)
        rcases List.mem_cons.1 hy with rfl | hy
        · have := pa x hx
          rw [e] at this
          exact absurd this (irrefl _)
        · exact ⟨y, hy, e⟩
      · intro y hy
        obtain ⟨x, hx, e⟩ := h21 y (List.mem_cons_of_mem _ hy)
        rcases List.mem_cons.1 hx with rfl | hx
        · have := pb y hy
          rw [e] at this
          exact absurd this (irrefl _)
        · exact ⟨x, hx, e⟩
      · intro x hx y hy
        exact heq x (List.mem_cons_of_mem _ hx) y (List.mem_cons_of_mem _ hy)

theorem eq_of_pairwise_ne {α β : Type} (K : α → β) (l : List α)
    (h : l.Pairwise (fun a b => K a ≠ K b)) :
    ∀ a ∈ l, ∀ b ∈ l, K a = K b → a = b := by
  induction l with
  | nil => intro a ha; cases ha
  | cons x xs ih =>
    obtain ⟨hx, hxs⟩ := List.pairwise_cons.1 h
    intro a ha b hb e
    rcases List.mem_cons.1 ha with ea | ha'
    · rcases List.mem_cons.1 hb with eb | hb'
      · rw [ea, eb]
      · rw [ea] at e; exact absurd e (hx b hb')
    · rcases List.mem_cons.1 hb with eb | hb'
      · rw [eb] at e; exact absurd e.symm (hx a ha')
      · exact ih hxs a ha' b hb' e

/-! ### cutBlocks -/

theorem cutBlocks_nil {α : Type} (n fuel : Nat) : cutBlocks n fuel ([] : List α) = [] := by
  cases fuel <;> simp [cutBlocks]

theorem cutBlocks_aux {α : Type} (bs : Nat) (hbs : 0 < bs) :
    ∀ (fuel : Nat) (l : List α), l.length < fuel →
      (cutBlocks bs fuel l).flatten = l ∧
      blockSizesOk bs ((cutBlocks bs fuel l).map List.length) = true ∧
      (l ≠ [] → cutBlocks bs fuel l ≠ []) := by
  intro fuel
  induction fuel with
  | zero => intro l h; omega
  | succ f ih =>
    intro l hl
    cases l with
    | nil => simp [cutBlocks, blockSizesOk]
    | cons x xs =>
      have hne : (bs == 0) = false := by simp; omega
      simp only [cutBlocks, List.isEmpty_cons, hne, Bool.false_eq_true, if_false]
      have hdl : ((x :: xs).drop bs).length < f := by
        simp only [List.length_drop, List.length_cons] at *
        omega
      obtain ⟨i1, i2, i3⟩ := ih ((x :: xs).drop bs) hdl
      refine ⟨?_, ?_, by simp⟩
      · rw [List.flatten_cons, i1, List.take_append_drop]
      · simp only [List.map_cons]
        by_cases hd : (x :: xs).drop bs = []
        · rw [hd, cutBlocks_nil]
          have : (x :: xs).length ≤ bs := by
            have := congrArg List.length hd
            simp only [List.length_drop, List.length_nil] at this
            omega
          simp only [List.map_nil, blockSizesOk, List.length_take, List.length_cons] at *
          simp
          omega
        · have hne2 := i3 hd
          have hlen : bs < (x :: xs).length := by
            apply Nat.lt_of_not_le
            intro hle
            exact hd (List.drop_eq_nil_of_le hle)
          cases hcb : cutBlocks bs f ((x :: xs).drop bs) with
          | nil => exact absurd hcb hne2
          | cons y ys =>
            rw [hcb] at i2
            simp only [List.map_cons] at i2 ⊢
            simp only [blockSizesOk, Bool.and_eq_true, beq_iff_eq]
            refine ⟨?_, i2⟩
            simp only [List.length_take]
            omega

end Wrgl.SorterAux
