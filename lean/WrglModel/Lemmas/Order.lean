/-
Order facts about `bytesCmp` and `keyCmp` (shared). Core Lean only.
-/
import WrglModel.Model.Basic
namespace Wrgl

/-! ## `bytesCmp` -/

theorem bytesCmp_refl (a : Bytes) : bytesCmp a a = .eq := by
  induction a with
  | nil => rfl
  | cons x xs ih => simp [bytesCmp, ih]

theorem bytesCmp_eq_iff (a b : Bytes) : bytesCmp a b = .eq ↔ a = b := by
  induction a generalizing b with
  | nil => cases b <;> simp [bytesCmp]
  | cons x xs ih =>
    cases b with
    | nil => simp [bytesCmp]
    | cons y ys =>
      simp only [bytesCmp]
      by_cases h1 : x < y
      · have : x ≠ y := by intro h; subst h; exact absurd h1 (UInt8.lt_irrefl _)
        simp [h1, this]
      · by_cases h2 : y < x
        · have : x ≠ y := by intro h; subst h; exact absurd h2 (UInt8.lt_irrefl _)
          simp [h1, h2, this]
        · have hxy : x = y := by
            apply UInt8.toNat_inj.mp
            rw [UInt8.lt_iff_toNat_lt] at h1 h2
            omega
          simp [ih, hxy]

theorem bytesCmp_lt_iff_gt (a b : Bytes) : bytesCmp a b = .lt ↔ bytesCmp b a = .gt := by
  induction a generalizing b with
  | nil => cases b <;> simp [bytesCmp]
  | cons x xs ih =>
    cases b with
    | nil => simp [bytesCmp]
    | cons y ys =>
      simp only [bytesCmp, UInt8.lt_iff_toNat_lt]
      by_cases h1 : x.toNat < y.toNat
      · have h2 : ¬ y.toNat < x.toNat := by omega
        simp [h1, h2]
      · by_cases h2 : y.toNat < x.toNat
        · simp [h1, h2]
        · simp [h1, h2, ih]

theorem bytesCmp_gt_iff_lt (a b : Bytes) : bytesCmp a b = .gt ↔ bytesCmp b a = .lt :=
  (bytesCmp_lt_iff_gt b a).symm

theorem bytesCmp_lt_trans {a b c : Bytes} (h1 : bytesCmp a b = .lt) (h2 : bytesCmp b c = .lt) :
    bytesCmp a c = .lt := by
  induction a generalizing b c with
  | nil =>
    cases b with
    | nil => simp [bytesCmp] at h1
    | cons y ys => cases c with
      | nil => simp [bytesCmp] at h2
      | cons z zs => simp [bytesCmp]
  | cons x xs ih =>
    cases b with
    | nil => simp [bytesCmp] at h1
    | cons y ys =>
      cases c with
      | nil => simp [bytesCmp] at h2
      | cons z zs =>
        simp only [bytesCmp, UInt8.lt_iff_toNat_lt] at h1 h2 ⊢
        by_cases hxy : x.toNat < y.toNat
        · by_cases hyz : y.toNat < z.toNat
          · have : x.toNat < z.toNat := by omega
            simp [this]
          · by_cases hzy : z.toNat < y.toNat
            · simp [hyz, hzy] at h2
            · have : x.toNat < z.toNat := by omega
              simp [this]
        · by_cases hyx : y.toNat < x.toNat
          · simp [hxy, hyx] at h1
          · simp only [hxy, hyx, ↓reduceIte] at h1
            by_cases hyz : y.toNat < z.toNat
            · have : x.toNat < z.toNat := by omega
              simp [this]
            · by_cases hzy : z.toNat < y.toNat
              · simp [hyz, hzy] at h2
              · simp only [hyz, hzy, ↓reduceIte] at h2
                have n1 : ¬ x.toNat < z.toNat := by omega
                have n2 : ¬ z.toNat < x.toNat := by omega
                simp only [n1, n2, ↓reduceIte]
                exact ih h1 h2

theorem bytesCmp_total (a b : Bytes) :
    bytesCmp a b = .lt ∨ a = b ∨ bytesCmp b a = .lt := by
  cases h : bytesCmp a b with
  | lt => exact Or.inl rfl
  | eq => exact Or.inr (Or.inl ((bytesCmp_eq_iff a b).mp h))
  | gt => exact Or.inr (Or.inr ((bytesCmp_gt_iff_lt a b).mp h))

theorem bytesCmp_lt_irrefl (a : Bytes) : bytesCmp a a ≠ .lt := by
  rw [bytesCmp_refl]; decide

theorem bytesCmp_lt_asymm {a b : Bytes} (h : bytesCmp a b = .lt) : bytesCmp b a ≠ .lt := by
  intro h'
  exact bytesCmp_lt_irrefl a (bytesCmp_lt_trans h h')


theorem bytesCmp_ne_gt_iff (a b : Bytes) : bytesCmp a b ≠ .gt ↔ (bytesCmp a b = .lt ∨ a = b) := by
  cases h : bytesCmp a b with
  | lt => simp
  | eq => simp [(bytesCmp_eq_iff a b).mp h]
  | gt =>
    have : a ≠ b := by intro e; subst e; rw [bytesCmp_refl] at h; cases h
    simp [this]

theorem bytesCmp_le_lt_trans {a b c : Bytes} (h1 : bytesCmp a b ≠ .gt) (h2 : bytesCmp b c = .lt) :
    bytesCmp a c = .lt := by
  rcases (bytesCmp_ne_gt_iff a b).mp h1 with h | h
  · exact bytesCmp_lt_trans h h2
  · subst h; exact h2

/-- antisymmetry: neither `.lt` nor `.gt` means equal -/
theorem bytesCmp_antisymm {a b : Bytes} (h1 : bytesCmp a b ≠ .lt) (h2 : bytesCmp a b ≠ .gt) : a = b := by
  cases h : bytesCmp a b with
  | lt => exact absurd h h1
  | gt => exact absurd h h2
  | eq => exact (bytesCmp_eq_iff a b).mp h

/-! ## `keyCmp` -/

theorem keyCmp_refl (a : List Bytes) : keyCmp a a = .eq := by
  induction a with
  | nil => rfl
  | cons x xs ih => simp [keyCmp, bytesCmp_refl, ih]

/-- `keyCmp` is `.eq` exactly on equal lists (no length hypothesis needed). -/
theorem keyCmp_eq_iff (a b : List Bytes) : keyCmp a b = .eq ↔ a = b := by
  induction a generalizing b with
  | nil => cases b <;> simp [keyCmp]
  | cons x xs ih =>
    cases b with
    | nil => simp [keyCmp]
    | cons y ys =>
      simp only [keyCmp]
      cases h : bytesCmp x y with
      | lt =>
        have : x ≠ y := by intro e; subst e; rw [bytesCmp_refl] at h; cases h
        simp [this]
      | gt =>
        have : x ≠ y := by intro e; subst e; rw [bytesCmp_refl] at h; cases h
        simp [this]
      | eq =>
        have := (bytesCmp_eq_iff x y).mp h
        simp [this, ih]

/-- the form asked for: on lists of equal length, `.eq ↔ equal` -/
theorem keyCmp_eq_iff_of_length {a b : List Bytes} (_h : a.length = b.length) :
    keyCmp a b = .eq ↔ a = b := keyCmp_eq_iff a b

theorem keyCmp_lt_iff_gt (a b : List Bytes) : keyCmp a b = .lt ↔ keyCmp b a = .gt := by
  induction a generalizing b with
  | nil => cases b <;> simp [keyCmp]
  | cons x xs ih =>
    cases b with
    | nil => simp [keyCmp]
    | cons y ys =>
      simp only [keyCmp]
      cases h : bytesCmp x y with
      | lt =>
        have := (bytesCmp_lt_iff_gt x y).mp h
        simp [this]
      | gt =>
        have := (bytesCmp_gt_iff_lt x y).mp h
        simp [this]
      | eq =>
        have := (bytesCmp_eq_iff x y).mp h
        subst this
        simp [bytesCmp_refl, ih]

theorem keyCmp_gt_iff_lt (a b : List Bytes) : keyCmp a b = .gt ↔ keyCmp b a = .lt :=
  (keyCmp_lt_iff_gt b a).symm

theorem keyCmp_lt_trans {a b c : List Bytes} (h1 : keyCmp a b = .lt) (h2 : keyCmp b c = .lt) :
    keyCmp a c = .lt := by
  induction a generalizing b c with
  | nil =>
    cases b with
    | nil => simp [keyCmp] at h1
    | cons y ys => cases c with
      | nil => simp [keyCmp] at h2
      | cons z zs => simp [keyCmp]
  | cons x xs ih =>
    cases b with
    | nil => simp [keyCmp] at h1
    | cons y ys =>
      cases c with
      | nil => simp [keyCmp] at h2
      | cons z zs =>
        simp only [keyCmp] at h1 h2 ⊢
        cases hxy : bytesCmp x y with
        | gt => simp [hxy] at h1
        | lt =>
          cases hyz : bytesCmp y z with
          | gt => simp [hyz] at h2
          | lt => simp [bytesCmp_lt_trans hxy hyz]
          | eq =>
            have := (bytesCmp_eq_iff y z).mp hyz
            subst this
            simp [hxy]
        | eq =>
          have := (bytesCmp_eq_iff x y).mp hxy
          subst this
          cases hyz : bytesCmp x z with
          | gt => simp [hyz] at h2
          | lt => simp
          | eq =>
            simp only [hxy] at h1
            simp only [hyz] at h2
            exact ih h1 h2

theorem keyCmp_total (a b : List Bytes) :
    keyCmp a b = .lt ∨ a = b ∨ keyCmp b a = .lt := by
  cases h : keyCmp a b with
  | lt => exact Or.inl rfl
  | eq => exact Or.inr (Or.inl ((keyCmp_eq_iff a b).mp h))
  | gt => exact Or.inr (Or.inr ((keyCmp_gt_iff_lt a b).mp h))

theorem keyCmp_lt_irrefl (a : List Bytes) : keyCmp a a ≠ .lt := by
  rw [keyCmp_refl]; decide

theorem keyCmp_lt_asymm {a b : List Bytes} (h : keyCmp a b = .lt) : keyCmp b a ≠ .lt := by
  intro h'
  exact keyCmp_lt_irrefl a (keyCmp_lt_trans h h')

theorem keyCmp_lt_ne {a b : List Bytes} (h : keyCmp a b = .lt) : a ≠ b := by
  intro e; subst e; exact keyCmp_lt_irrefl a h

/-- "`a ≤ b`" written as `keyCmp a b ≠ .gt` -/
theorem keyCmp_ne_gt_iff (a b : List Bytes) : keyCmp a b ≠ .gt ↔ (keyCmp a b = .lt ∨ a = b) := by
  cases h : keyCmp a b with
  | lt => simp
  | eq => simp [(keyCmp_eq_iff a b).mp h]
  | gt =>
    have : a ≠ b := by intro e; subst e; rw [keyCmp_refl] at h; cases h
    simp [this]

theorem keyCmp_ne_lt_iff (a b : List Bytes) : keyCmp a b ≠ .lt ↔ (keyCmp b a = .lt ∨ a = b) := by
  cases h : keyCmp a b with
  | lt =>
    have h1 := keyCmp_lt_asymm h
    have h2 := keyCmp_lt_ne h
    simp [h1, h2]
  | eq => simp [(keyCmp_eq_iff a b).mp h]
  | gt => simp [(keyCmp_gt_iff_lt a b).mp h]

theorem keyCmp_le_lt_trans {a b c : List Bytes} (h1 : keyCmp a b ≠ .gt) (h2 : keyCmp b c = .lt) :
    keyCmp a c = .lt := by
  rcases (keyCmp_ne_gt_iff a b).mp h1 with h | h
  · exact keyCmp_lt_trans h h2
  · subst h; exact h2

theorem keyCmp_lt_le_trans {a b c : List Bytes} (h1 : keyCmp a b = .lt) (h2 : keyCmp b c ≠ .gt) :
    keyCmp a c = .lt := by
  rcases (keyCmp_ne_gt_iff b c).mp h2 with h | h
  · exact keyCmp_lt_trans h1 h
  · subst h; exact h1

end Wrgl
