/-
C06, table profile writer: the writer succeeds exactly when every text fits its 16-bit length prefix.
-/
import WrglModel.Model.Profile
namespace Wrgl

theorem writeString_isOk (v : Bytes) : (writeString true v).isOk = decide (v.length ≤ 65535) := by
  unfold writeString
  by_cases h : v.length > 65535
  · have : ¬ v.length ≤ 65535 := by omega
    simp [h, this, Res.isOk]
  · have : v.length ≤ 65535 := by omega
    simp [h, this, Res.isOk]

theorem valueCountEntries_isOk (l : List (Bytes × Nat)) :
    (valueCountEntries l).isOk = l.all (fun vc => decide (vc.1.length ≤ 65535)) := by
  induction l with
  | nil => simp [valueCountEntries, Res.isOk]
  | cons x xs ih =>
    obtain ⟨v, c⟩ := x
    have hw := writeString_isOk v
    unfold valueCountEntries
    cases h1 : writeString true v with
    | ok s =>
      rw [h1] at hw
      cases h2 : valueCountEntries xs with
      | ok r => rw [h2] at ih; simp [Res.isOk] at ih hw ⊢; exact ⟨hw, ih⟩
      | err e => rw [h2] at ih; simp [Res.isOk] at ih hw ⊢; intro _; exact ih
      | panic q => rw [h2] at ih; simp [Res.isOk] at ih hw ⊢; intro _; exact ih
    | err e => rw [h1] at hw; simp [Res.isOk] at hw ⊢; intro h; omega
    | panic q => rw [h1] at hw; simp [Res.isOk] at hw ⊢; intro h; omega

theorem topValuesBytes_isOk (t : Option (List (Bytes × Nat))) :
    (topValuesBytes t).isOk = topValuesFit t := by
  cases t with
  | none => simp [topValuesBytes, topValuesFit, Res.isOk]
  | some l =>
    have h := valueCountEntries_isOk l
    unfold topValuesBytes topValuesFit
    cases h2 : valueCountEntries l <;> simp only [h2] at h ⊢ <;> simp only [Res.isOk] at h ⊢ <;> exact h

theorem nameBytes_isOk (n : Bytes) : (nameBytes true n).isOk = decide (n.length ≤ 65535) := by
  unfold nameBytes
  by_cases he : n.isEmpty
  · have : n = [] := by simpa using he
    subst this
    simp [Res.isOk]
  · have h := writeString_isOk n
    simp only [he]
    cases h1 : writeString true n with
    | ok s => rw [h1] at h; simpa [Res.isOk] using h
    | err e => rw [h1] at h; simpa [Res.isOk] using h
    | panic q => rw [h1] at h; simpa [Res.isOk] using h

theorem colBytes_isOk (c : ColProfile) : (colBytes true c).isOk = c.textsFit := by
  have hn := nameBytes_isOk c.name
  have ht := topValuesBytes_isOk c.topValues
  unfold colBytes ColProfile.textsFit
  cases h1 : nameBytes true c.name with
  | ok nm =>
    rw [h1] at hn
    cases h2 : topValuesBytes c.topValues with
    | ok tv => rw [h2] at ht; simp only [Res.isOk] at hn ht ⊢; rw [← hn, ← ht]; rfl
    | err e => rw [h2] at ht; simp only [Res.isOk] at hn ht ⊢; rw [← hn, ← ht]; rfl
    | panic q => rw [h2] at ht; simp only [Res.isOk] at hn ht ⊢; rw [← hn, ← ht]; rfl
  | err e => rw [h1] at hn; simp only [Res.isOk] at hn ⊢; rw [← hn]; rfl
  | panic q => rw [h1] at hn; simp only [Res.isOk] at hn ⊢; rw [← hn]; rfl

theorem colsBytes_isOk (cs : List ColProfile) : (colsBytes true cs).isOk = cs.all ColProfile.textsFit := by
  induction cs with
  | nil => simp [colsBytes, Res.isOk]
  | cons c cs ih =>
    have hc := colBytes_isOk c
    unfold colsBytes
    cases h1 : colBytes true c with
    | ok b =>
      rw [h1] at hc
      cases h2 : colsBytes true cs with
      | ok bs => rw [h2] at ih; simp only [Res.isOk, List.all_cons] at hc ih ⊢; rw [← hc, ← ih]; rfl
      | err e => rw [h2] at ih; simp only [Res.isOk, List.all_cons] at hc ih ⊢; rw [← hc, ← ih]; rfl
      | panic q => rw [h2] at ih; simp only [Res.isOk, List.all_cons] at hc ih ⊢; rw [← hc, ← ih]; rfl
    | err e => rw [h1] at hc; simp only [Res.isOk, List.all_cons] at hc ⊢; rw [← hc]; rfl
    | panic q => rw [h1] at hc; simp only [Res.isOk, List.all_cons] at hc ⊢; rw [← hc]; rfl

theorem profileBytes_isOk (p : ProfileObj) : (profileBytes true p).isOk = p.textsFit := by
  have h := colsBytes_isOk p.columns
  unfold profileBytes ProfileObj.textsFit
  cases h1 : colsBytes true p.columns with
  | ok b => rw [h1] at h; simpa [Res.isOk] using h
  | err e => rw [h1] at h; simpa [Res.isOk] using h
  | panic q => rw [h1] at h; simpa [Res.isOk] using h

end Wrgl
