import WrglModel.Model.Diff
import WrglModel.Spec.Diff
import WrglModel.Spec.DiffWF
import WrglModel.Lemmas.Search
namespace Wrgl

/-- Main theorem of C04: on structurally sound tables of the same key arity whose hashes identify
    keys and rows, `diffRows` (with the empty-table guard) never panics or errors, and its event
    list satisfies every clause of `diffVerdict`. -/
theorem diffRows_exact (bs arity : Nat) (hbs : 0 < bs) (harity : 0 < arity) (t1 t2 : ATable)
    (h1 : t1.WF bs arity) (h2 : t2.WF bs arity) (hk : HashInj t1 t2) (hr : RowHashInj t1 t2) :
    ∃ evs, diffRows true bs t1.toD t2.toD = .ok evs ∧ diffVerdict t1.allRows t2.allRows evs = [] := by
  sorry

end Wrgl
