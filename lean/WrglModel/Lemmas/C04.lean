import WrglModel.Model.Diff
import WrglModel.Spec.Diff
import WrglModel.Spec.DiffWF
import WrglModel.Lemmas.Search
import WrglModel.Lemmas.Order
import WrglModel.Lemmas.DiffGet
import WrglModel.Lemmas.DiffWindow
import WrglModel.Lemmas.DiffTable
import WrglModel.Lemmas.DiffIterate
import WrglModel.Lemmas.DiffVerdict
namespace Wrgl

/-- distinct keys have distinct key hashes within a sound table -/
theorem pkSum_pairwise_ne {bs arity : Nat} {t : ATable} (h : t.WF bs arity)
    (hk : ∀ a ∈ t.allRows, ∀ b ∈ t.allRows, (a.pkSum = b.pkSum ↔ a.key = b.key)) :
    t.allRows.Pairwise (fun a b => a.pkSum ≠ b.pkSum) := by
  refine List.Pairwise.imp_of_mem ?_ h.ascending
  intro a b ha hb hlt hp
  have hkey := (hk a ha b hb).mp hp
  rw [hkey] at hlt
  exact keyCmp_lt_irrefl _ hlt

/-- Main theorem of C04: on structurally sound tables of the same key arity whose hashes identify
    keys and rows, `diffRows` (with the empty-table guard) never panics or errors, and its event
    list satisfies every clause of `diffVerdict`. -/
theorem diffRows_exact (bs arity : Nat) (hbs : 0 < bs) (harity : 0 < arity) (t1 t2 : ATable)
    (h1 : t1.WF bs arity) (h2 : t2.WF bs arity) (hk : HashInj t1 t2) (hr : RowHashInj t1 t2) :
    ∃ evs, diffRows true bs t1.toD t2.toD = .ok evs ∧ diffVerdict t1.allRows t2.allRows evs = [] := by
  have _ := harity  -- not needed: the arity only has to agree between the two tables
  have hk12 : ∀ a ∈ t1.allRows, ∀ b ∈ t2.allRows, (a.pkSum = b.pkSum ↔ a.key = b.key) :=
    fun a ha b hb => hk a (List.mem_append_left _ ha) b (List.mem_append_right _ hb)
  have hk21 : ∀ a ∈ t2.allRows, ∀ b ∈ t1.allRows, (a.pkSum = b.pkSum ↔ a.key = b.key) :=
    fun a ha b hb => hk a (List.mem_append_right _ ha) b (List.mem_append_left _ hb)
  have hk11 : ∀ a ∈ t1.allRows, ∀ b ∈ t1.allRows, (a.pkSum = b.pkSum ↔ a.key = b.key) :=
    fun a ha b hb => hk a (List.mem_append_left _ ha) b (List.mem_append_left _ hb)
  have hk22 : ∀ a ∈ t2.allRows, ∀ b ∈ t2.allRows, (a.pkSum = b.pkSum ↔ a.key = b.key) :=
    fun a ha b hb => hk a (List.mem_append_right _ ha) b (List.mem_append_right _ hb)
  have hr12 : ∀ a ∈ t1.allRows, ∀ b ∈ t2.allRows, (a.rowSum = b.rowSum ↔ a.cells = b.cells) :=
    fun a ha b hb => hr a (List.mem_append_left _ ha) b (List.mem_append_right _ hb)
  have s12 := iterateAndMatch_spec h1 h2 hk12 hk22
  have s21 := iterateAndMatch_spec h2 h1 hk21 hk11
  refine ⟨_, diffRows_of_specs bs t1 t2 s12 s21, ?_⟩
  exact verdict_events t1.allRows t2.allRows
    (fun x hx y hy e => h2.key_unique hx hy e)
    (fun x hx y hy e => h1.off_unique hbs hx hy e)
    (fun x hx y hy e => h2.off_unique hbs hx hy e)
    (pkSum_pairwise_ne h1 hk11) (pkSum_pairwise_ne h2 hk22) hk12 hr12

end Wrgl
