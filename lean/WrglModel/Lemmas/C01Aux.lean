/-
Auxiliary lemmas for C01/C02/C03 (Lemmas/C01.lean): the table ingest stores as a function of the
kept rows, column removal with nothing removed, strict ascent, block-index facts. Core Lean only.
-/
import WrglModel.Model.Sorter
import WrglModel.Model.TableId
import WrglModel.Spec.Sorter
import WrglModel.Spec.TableInv
import WrglModel.Lemmas.C19
import WrglModel.Lemmas.C06Codec
namespace Wrgl.C01Aux

/-! ### column removal with nothing removed -/

theorem removeCols_nil (r : Row) : removeCols [] r = r := by
  unfold removeCols
  have : (fun (x : Bytes × Nat) => if ([] : List Nat).contains x.2 = true then none else some x.1)
      = some ∘ Prod.fst := by
    funext x; simp
  show List.filterMap (fun (x : Bytes × Nat) =>
    if ([] : List Nat).contains x.2 = true then none else some x.1) r.zipIdx = r
  rw [this, List.filterMap_eq_map, List.zipIdx_map_fst]

theorem map_removeCols_nil (b : List Row) : b.map (removeCols []) = b := by
  induction b with
  | nil => rfl
  | cons r rs ih => simp [removeCols_nil, ih]

/-! ### the stored table as a function of the kept rows -/

def firstKey (pk : List Nat) (b : List Row) : List Bytes :=
  match b with
  | r :: _ => keyOf pk r
  | [] => []

def tableOfKept (bs : Nat) (columns : Row) (pk : List Nat) (kept : List Row) : StoredTable :=
  { columns := columns, pk := pk,
    rowsCount := ((cutBlocks bs (kept.length + 1) kept).map List.length).sum,
    blocks := cutBlocks bs (kept.length + 1) kept,
    tblIdx := (cutBlocks bs (kept.length + 1) kept).map (firstKey pk) }

theorem zipIdx_map_fst' {α β : Type} (f : α → β) (l : List α) (k : Nat) :
    (l.zipIdx k).map (fun p => f p.1) = l.map f := by
  have : (fun (p : α × Nat) => f p.1) = f ∘ Prod.fst := rfl
  rw [this, ← List.map_map, List.zipIdx_map_fst]

def mkOut (pk : List Nat) (p : List Row × Nat) : OutBlock :=
  { offset := p.2, rows := p.1.map (removeCols []),
    pk := match p.1 with
      | r :: _ => keyOf pk r
      | [] => [] }

theorem sortedBlocks_eq (sortFn : List Row → List Row) (bs : Nat) (pk : List Nat) (st : SorterSt) :
    sortedBlocks sortFn bs pk [] st =
      ((cutBlocks bs ((keptRows sortFn pk st).length + 1) (keptRows sortFn pk st)).zipIdx).map (mkOut pk) := rfl

theorem outBlocks_fields (pk : List Nat) (blks : List (List Row)) : ∀ k : Nat,
    ((blks.zipIdx k).map (mkOut pk)).map (fun b => b.rows.length) = blks.map List.length ∧
    ((blks.zipIdx k).map (mkOut pk)).map (·.rows) = blks ∧
    ((blks.zipIdx k).map (mkOut pk)).map (·.pk) = blks.map (firstKey pk) := by
  induction blks with
  | nil => intro k; simp
  | cons b bs ih =>
    intro k
    obtain ⟨h1, h2, h3⟩ := ih (k + 1)
    simp only [List.zipIdx_cons, List.map_cons]
    rw [h1, h2, h3]
    simp [mkOut, map_removeCols_nil, firstKey]

theorem ingestTable_ok (sortFn : List Row → List Row) (bs : Nat) (maxCell : Option Nat) (runSize : Nat)
    (columns : Row) (pk : List Nat) (rows : List Row) (t : StoredTable)
    (h : ingestTable sortFn bs maxCell runSize columns pk rows = .ok t) :
    ∃ st, addRows sortFn maxCell runSize { chunks := [], current := [], size := 0 } rows = .ok st ∧
      t = tableOfKept bs columns pk (keptRows sortFn pk st) := by
  unfold ingestTable at h
  split at h
  · cases h
  · cases h
  · rename_i st hst
    refine ⟨st, hst, ?_⟩
    injection h with h
    rw [← h]
    obtain ⟨h1, h2, h3⟩ := outBlocks_fields pk
      (cutBlocks bs ((keptRows sortFn pk st).length + 1) (keptRows sortFn pk st)) 0
    simp only [sortedBlocks_eq, tableOfKept]
    rw [h1, h2, h3]

/-! ### clauses of the structural invariant -/

theorem strictAsc_of_pairwise : ∀ (l : List (List Bytes)),
    l.Pairwise (fun a b => keyCmp a b = .lt) → strictAsc l = true
  | [], _ => rfl
  | [_], _ => rfl
  | a :: b :: rest, h => by
    obtain ⟨h1, h2⟩ := List.pairwise_cons.1 h
    simp only [strictAsc, Bool.and_eq_true, beq_iff_eq]
    exact ⟨h1 b List.mem_cons_self, strictAsc_of_pairwise (b :: rest) h2⟩

theorem indices_rows_eq (H : Bytes → Bytes) (sortPerm : List Bytes → List Nat) (mc : Nat) (pk : List Nat)
    (blocks : List (List Row)) :
    ((blocks.map (indexBlock H sortPerm mc pk)).zip
      (blocks.map (fun b => b.map (rowHashes H mc pk)))).all (fun (idx, hs) => idx.rows == hs) = true := by
  induction blocks with
  | nil => rfl
  | cons b bs ih =>
    simp only [List.map_cons, List.zip_cons_cons, List.all_cons, Bool.and_eq_true]
    exact ⟨by simp [indexBlock], ih⟩

theorem isPermOfRange_of_perm (so : List Nat) (n : Nat) (h : so.Perm (List.range n)) :
    isPermOfRange so n = true := by
  unfold isPermOfRange
  simp only [Bool.and_eq_true, beq_iff_eq, List.all_eq_true, List.contains_iff_mem]
  refine ⟨by rw [h.length_eq, List.length_range], ?_⟩
  intro i hi
  exact h.symm.subset hi

theorem zip_tail_all {α : Type} (P : α × α → Bool) : ∀ (l : List α),
    (∀ i a b, l[i]? = some a → l[i+1]? = some b → P (a, b) = true) → (l.zip l.tail).all P = true
  | [], _ => rfl
  | [_], _ => rfl
  | x :: y :: rest, h => by
    simp only [List.tail_cons, List.zip_cons_cons, List.all_cons, Bool.and_eq_true]
    refine ⟨h 0 x y rfl rfl, ?_⟩
    have := zip_tail_all P (y :: rest) (fun i a b ha hb => h (i + 1) a b (by simpa using ha) (by simpa using hb))
    simpa using this

theorem nondecreasingAlong_of_sorted (sortPerm : List Bytes → List Nat) (hp : IsSortPerm sortPerm)
    (hs : List (Bytes × Bytes)) :
    nondecreasingAlong (sortPerm (hs.map (·.1))) hs = true := by
  unfold nondecreasingAlong
  apply zip_tail_all
  intro i a b ha hb
  have key : ∀ (i : Nat) (a : Bytes),
      (List.map (fun j => match hs[j]? with
        | some (p, _) => p
        | none => []) (sortPerm (hs.map (·.1))))[i]? = some a →
      ((sortPerm (hs.map (·.1)))[i]?).bind ((hs.map (·.1))[·]?) = some a := by
    intro i a ha
    rw [List.getElem?_map] at ha
    cases hj : (sortPerm (hs.map (·.1)))[i]? with
    | none => rw [hj] at ha; cases ha
    | some j =>
      rw [hj] at ha
      have hmem : j ∈ sortPerm (hs.map (·.1)) := List.mem_of_getElem? hj
      have hlt : j < hs.length := by
        have := (hp.perm (hs.map (·.1))).subset hmem
        simpa using this
      simp only [Option.map_some, Option.some.injEq] at ha
      simp only [Option.bind_some, List.getElem?_map]
      rw [List.getElem?_eq_getElem hlt] at ha ⊢
      simp only [Option.map_some]
      rw [← ha]
  have := hp.sorted (hs.map (·.1)) i (i + 1) a b (Nat.lt_succ_self _) (key i a ha) (key (i + 1) b hb)
  simpa using this

/-! ### from equal identifiers to equal rows -/

theorem encodeRows_of_fit (mc : Nat) : ∀ (rows : List Row), (∀ r ∈ rows, ∀ c ∈ r, c.length ≤ mc) →
    ∃ b, encodeRows mc rows = .ok b
  | [], _ => ⟨[], rfl⟩
  | r :: rs, h => by
    obtain ⟨b, hb⟩ := encodeRows_of_fit mc rs (fun r' hr' => h r' (List.mem_cons_of_mem _ hr'))
    simp only [encodeRows, strListEncode_of_fit mc r (h r List.mem_cons_self), hb]
    exact ⟨_, rfl⟩

theorem blockEncode_of_fit (mc : Nat) (rows : List Row) (h : ∀ r ∈ rows, ∀ c ∈ r, c.length ≤ mc) :
    ∃ b, blockEncode mc rows = .ok b := by
  obtain ⟨b, hb⟩ := encodeRows_of_fit mc rows h
  simp only [blockEncode, hb]
  exact ⟨_, rfl⟩

def BlockOk (mc : Nat) (b : List Row) : Prop :=
  b.length < 2 ^ 32 ∧ ∀ r ∈ b, r.length < 2 ^ 32 ∧ ∀ c ∈ r, c.length ≤ mc

theorem blockSums_injective (H : Bytes → Bytes) (hinj : ∀ a b, H a = H b → a = b) (mc : Nat)
    (hmc : mc ≤ 65535) : ∀ (l1 l2 : List (List Row)),
    (∀ b ∈ l1, BlockOk mc b) → (∀ b ∈ l2, BlockOk mc b) →
    l1.map (fun b => match blockEncode mc b with
      | .ok bytes => H bytes
      | _ => []) =
    l2.map (fun b => match blockEncode mc b with
      | .ok bytes => H bytes
      | _ => []) → l1 = l2
  | [], [], _, _, _ => rfl
  | [], _ :: _, _, _, h => by simp at h
  | _ :: _, [], _, _, h => by simp at h
  | x :: xs, y :: ys, h1, h2, h => by
    simp only [List.map_cons, List.cons.injEq] at h
    obtain ⟨hh, ht⟩ := h
    have ih := blockSums_injective H hinj mc hmc xs ys
      (fun b hb => h1 b (List.mem_cons_of_mem _ hb)) (fun b hb => h2 b (List.mem_cons_of_mem _ hb)) ht
    obtain ⟨xl, xr⟩ := h1 x List.mem_cons_self
    obtain ⟨yl, yr⟩ := h2 y List.mem_cons_self
    obtain ⟨bx, hbx⟩ := blockEncode_of_fit mc x (fun r hr => (xr r hr).2)
    obtain ⟨by', hby⟩ := blockEncode_of_fit mc y (fun r hr => (yr r hr).2)
    rw [hbx, hby] at hh
    simp only at hh
    have := hinj _ _ hh
    subst this
    rw [block_injective mc hmc x y bx xl yl (fun r hr => (xr r hr).1) (fun r hr => (yr r hr).1) hbx hby, ih]

theorem tableId_ok (H : Bytes → Bytes) (sortPerm : List Bytes → List Nat) (mc : Nat) (t : StoredTable)
    (id : Bytes) (h : tableId H sortPerm mc t = .ok id) :
    ∃ b, tableBytes mc (tableObjOf H sortPerm mc t) = .ok b ∧ id = H b := by
  unfold tableId at h
  split at h
  · rename_i b hb
    injection h with h
    exact ⟨b, hb, h.symm⟩
  · cases h
  · cases h

end Wrgl.C01Aux
