import WrglModel.Model.RefStore
import WrglModel.Spec.RefStore
import WrglModel.Lemmas.C15Bulk
namespace Wrgl

/-- runs from related states produce the same outputs -/
theorem run_sim (ops : List ROp) : ∀ (s : SqlSt) (a : ASt), R s a → runC true s ops = runA a ops := by
  induction ops with
  | nil => intro s a _; rfl
  | cons o os ih =>
    intro s a h
    have hs := step_sim h o
    show (stepC true s o).2 :: runC true (stepC true s o).1 os =
      (stepA a o).2 :: runA (stepA a o).1 os
    rw [hs.1, ih _ _ hs.2]

/-- C15 (refinement): with literal-prefix filtering, every sequence of operations on the SQL model
    returns, step by step, exactly what the plain map with append-only logs returns. -/
theorem refstore_refines (ops : List ROp) :
    runC true { refs := [], logs := [] } ops = runA { vals := [], logs := [] } ops :=
  run_sim ops _ _ R_init

/-- the same statement restricted to the store's own methods (no bulk helpers) -/
def ROp.isCore : ROp → Bool
  | .delAllRemote _ => false
  | .renameAllRemote _ _ => false
  | _ => true

theorem refstore_refines_core (ops : List ROp) (h : ops.all ROp.isCore = true) :
    runC true { refs := [], logs := [] } ops = runA { vals := [], logs := [] } ops :=
  have _ := h
  refstore_refines ops

/-- with `LIKE` patterns the store is NOT a refinement of the map: '_' is a wildcard -/
theorem like_is_not_prefix :
    runC false { refs := [], logs := [] }
      [.set "remotes/myXrepo/x" [1], .filterKey ["remotes/my_repo/"] []] ≠
    runA { vals := [], logs := [] }
      [.set "remotes/myXrepo/x" [1], .filterKey ["remotes/my_repo/"] []] := by
  decide

end Wrgl
