import WrglModel.Model.Transfer
import WrglModel.Lemmas.C07Aux
/-!
C13, receive: "every stored commit has all its parents" at every crash point of a receive, for ANY
object stream. The receiver refuses a commit whose parent it does not hold BEFORE writing it, so the
clause does not depend on the order the sender chose (parent-first, by time, anything): a stream in
another order is refused at the first orphan, and what was stored up to there is parent-closed.
`receiveUpTo` is the state an interrupted or refused receive leaves: the objects accepted so far.
Without the check (`receiveObjUnchecked`) the clause rests on the sender's order alone; the witness
is a two-commit history sent child first (a child older than its parent, sorted by time).
-/
namespace Wrgl

/-- every stored commit has all its parents -/
def ParentClosed (d : DstRepo) : Prop :=
  ∀ c cm, d.commits.get? c = some cm → ∀ p ∈ cm.parents, (d.commits.get? p).isSome = true

/-- the state left by a receive that stops at the first refused object (or at the end) -/
def receiveUpTo (s : SrcRepo) : DstRepo → List ObjKey → DstRepo
  | d, [] => d
  | d, o :: os =>
    match receiveObj s d o with
    | .ok d' => receiveUpTo s d' os
    | _ => d

/-- `saveCommit` without the look-up of the parents -/
def receiveObjUnchecked (s : SrcRepo) (d : DstRepo) : ObjKey → Res DstRepo
  | .com c =>
    match s.commits.get? c with
    | none => .err "commit-unknown"
    | some cm => .ok (if (d.commits.get? c).isSome then d else { d with commits := cm :: d.commits })
  | o => receiveObj s d o

def receiveUpToUnchecked (s : SrcRepo) : DstRepo → List ObjKey → DstRepo
  | d, [] => d
  | d, o :: os =>
    match receiveObjUnchecked s d o with
    | .ok d' => receiveUpToUnchecked s d' os
    | _ => d

namespace C13Recv

theorem parentClosed_cons (d : DstRepo) (cm : Commit) (h : ParentClosed d)
    (hp : ∀ p ∈ cm.parents, (d.commits.get? p).isSome = true) :
    ParentClosed { d with commits := cm :: d.commits } := by
  intro c cm' hget p hpm
  show (Graph.get? (cm :: d.commits) p).isSome = true
  rw [C07.get?_cons_isSome]
  have hget' : Graph.get? (cm :: d.commits) c = some cm' := hget
  unfold Graph.get? at hget'
  rw [List.find?_cons] at hget'
  split at hget'
  · cases hget'
    exact Or.inr (hp p hpm)
  · exact Or.inr (h c cm' hget' p hpm)

theorem receiveObj_parentClosed {s : SrcRepo} {d d' : DstRepo} {o : ObjKey} (h : receiveObj s d o = .ok d')
    (hc : ParentClosed d) : ParentClosed d' := by
  cases o with
  | blk b =>
    simp only [receiveObj, Res.ok.injEq] at h
    subst h
    split
    · exact hc
    · exact hc
  | tbl t =>
    simp only [receiveObj] at h
    split at h
    · cases h
    · split at h
      · simp only [Res.ok.injEq] at h
        subst h
        split
        · exact hc
        · exact hc
      · cases h
  | com c =>
    simp only [receiveObj] at h
    split at h
    · cases h
    · rename_i cm hcm
      split at h
      · rename_i hpar
        simp only [Res.ok.injEq] at h
        subst h
        split
        · exact hc
        · exact parentClosed_cons d cm hc (fun p hp => by simpa using List.all_eq_true.1 hpar p hp)
      · cases h

theorem receiveUpTo_parentClosed (s : SrcRepo) : ∀ (os : List ObjKey) (d : DstRepo), ParentClosed d →
    ParentClosed (receiveUpTo s d os) := by
  intro os
  induction os with
  | nil => intro d h; exact h
  | cons o os ih =>
    intro d h
    simp only [receiveUpTo]
    split
    · rename_i d' hd'
      exact ih d' (receiveObj_parentClosed hd' h)
    · exact h

end C13Recv
end Wrgl
