/-
C15 auxiliary lemmas: insertion sort by name is determined by membership (for lists with pairwise
distinct names); `eraseDups` yields a duplicate-free list. Core Lean only.
-/
import WrglModel.Model.RefStore
import WrglModel.Spec.RefStore
namespace Wrgl
open SqlSt

theorem mem_insertSortedName {x p : Name × Bytes} {l : List (Name × Bytes)} :
    p ∈ insertSortedName x l ↔ p = x ∨ p ∈ l := by
  induction l with
  | nil => simp [insertSortedName]
  | cons y ys ih =>
    simp only [insertSortedName]
    split
    · simp
    · simp only [List.mem_cons, ih]
      constructor
      · rintro (h | h | h) <;> simp [h]
      · rintro (h | h | h) <;> simp [h]

theorem mem_sortByName {p : Name × Bytes} {l : List (Name × Bytes)} :
    p ∈ sortByName l ↔ p ∈ l := by
  induction l with
  | nil => simp [sortByName]
  | cons y ys ih =>
    have : sortByName (y :: ys) = insertSortedName y (sortByName ys) := rfl
    rw [this, mem_insertSortedName, ih]; simp

def NameSorted (l : List (Name × Bytes)) : Prop := l.Pairwise (fun a b => a.1 < b.1)

theorem insertSortedName_sorted {x : Name × Bytes} {l : List (Name × Bytes)}
    (h : NameSorted l) (hx : ∀ y ∈ l, y.1 ≠ x.1) : NameSorted (insertSortedName x l) := by
  induction l with
  | nil => simp [insertSortedName, NameSorted]
  | cons y ys ih =>
    unfold NameSorted at h ⊢
    rw [List.pairwise_cons] at h
    simp only [insertSortedName]
    split
    · rename_i hlt
      rw [List.pairwise_cons]
      refine ⟨?_, List.pairwise_cons.2 h⟩
      intro z hz
      rcases List.mem_cons.1 hz with rfl | hz
      · exact hlt
      · exact String.lt_trans hlt (h.1 z hz)
    · rename_i hnlt
      have hle : y.1 ≤ x.1 := String.not_lt.1 hnlt
      have hne : y.1 ≠ x.1 := hx y (List.mem_cons_self)
      have hyx : y.1 < x.1 := Classical.byContradiction fun hc =>
        hne (String.le_antisymm hle (String.not_lt.1 hc))
      rw [List.pairwise_cons]
      refine ⟨?_, ih h.2 (fun z hz => hx z (List.mem_cons_of_mem _ hz))⟩
      intro z hz
      rcases mem_insertSortedName.1 hz with rfl | hz
      · exact hyx
      · exact h.1 z hz

theorem sortByName_sorted {l : List (Name × Bytes)} (h : (l.map (·.1)).Nodup) :
    NameSorted (sortByName l) := by
  induction l with
  | nil => simp [sortByName, NameSorted]
  | cons y ys ih =>
    have e : sortByName (y :: ys) = insertSortedName y (sortByName ys) := rfl
    rw [e]
    simp only [List.map_cons, List.nodup_cons] at h
    apply insertSortedName_sorted (ih h.2)
    intro z hz hzy
    apply h.1
    rw [← hzy]
    exact List.mem_map_of_mem (mem_sortByName.1 hz)

theorem nameSorted_ext {l1 l2 : List (Name × Bytes)} (h1 : NameSorted l1) (h2 : NameSorted l2)
    (h : ∀ p, p ∈ l1 ↔ p ∈ l2) : l1 = l2 := by
  induction l1 generalizing l2 with
  | nil =>
    cases l2 with
    | nil => rfl
    | cons y ys => exact absurd ((h y).2 List.mem_cons_self) (by simp)
  | cons x xs ih =>
    cases l2 with
    | nil => exact absurd ((h x).1 List.mem_cons_self) (by simp)
    | cons y ys =>
      unfold NameSorted at h1 h2
      rw [List.pairwise_cons] at h1 h2
      have hxy : x = y := by
        rcases List.mem_cons.1 ((h x).1 List.mem_cons_self) with e | hx
        · exact e
        · rcases List.mem_cons.1 ((h y).2 List.mem_cons_self) with e | hy
          · exact e.symm
          · exact absurd (h2.1 x hx) (String.lt_asymm (h1.1 y hy))
      subst hxy
      congr 1
      apply ih h1.2 h2.2
      intro p
      constructor
      · intro hp
        rcases List.mem_cons.1 ((h p).1 (List.mem_cons_of_mem _ hp)) with e | hp'
        · subst e; exact absurd (h1.1 p hp) (String.lt_irrefl _)
        · exact hp'
      · intro hp
        rcases List.mem_cons.1 ((h p).2 (List.mem_cons_of_mem _ hp)) with e | hp'
        · subst e; exact absurd (h2.1 p hp) (String.lt_irrefl _)
        · exact hp'

theorem sortByName_congr {l1 l2 : List (Name × Bytes)} (n1 : (l1.map (·.1)).Nodup)
    (n2 : (l2.map (·.1)).Nodup) (h : ∀ p, p ∈ l1 ↔ p ∈ l2) : sortByName l1 = sortByName l2 :=
  nameSorted_ext (sortByName_sorted n1) (sortByName_sorted n2)
    (fun p => by rw [mem_sortByName, mem_sortByName]; exact h p)

/-! `eraseDups` has no duplicates -/
theorem nodup_eraseDups_aux (n : Nat) : ∀ (l : List Name), l.length ≤ n → l.eraseDups.Nodup := by
  induction n with
  | zero =>
    intro l hl
    cases l with
    | nil => simp
    | cons a as => simp at hl
  | succ n ih =>
    intro l hl
    cases l with
    | nil => simp
    | cons a as =>
      rw [List.eraseDups_cons, List.nodup_cons]
      constructor
      · rw [List.mem_eraseDups]; simp
      · apply ih
        have := List.length_filter_le (fun b => !b == a) as
        simp only [List.length_cons] at hl
        omega

theorem nodup_eraseDups (l : List Name) : l.eraseDups.Nodup := nodup_eraseDups_aux _ l (Nat.le_refl _)

end Wrgl
