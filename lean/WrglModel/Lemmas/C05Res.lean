/-
C05: analysis of `tryResolve` / `resolveRec` without added / removed columns.
-/
import WrglModel.Lemmas.C05Aux
namespace Wrgl.C05Aux

/-! ### uniqRows has the same rows as the present ones -/

theorem exists_last {α : Type} (a : α) : ∀ (l : List α), a ∈ l →
    ∃ i, l[i]? = some a ∧ a ∉ l.drop (i + 1) := by
  intro l
  induction l with
  | nil => intro h; cases h
  | cons x t ih =>
    intro h
    by_cases ht : a ∈ t
    · obtain ⟨i, h1, h2⟩ := ih ht
      exact ⟨i + 1, by simpa using h1, by simpa using h2⟩
    · have : a = x := by
        rcases List.mem_cons.1 h with e | e
        · exact e
        · exact absurd e ht
      subst this
      exact ⟨0, by simp, by simpa using ht⟩

theorem mem_uniqRows (xs : List (Option Row)) (r : Row) :
    r ∈ (uniqRows xs).map (·.2) ↔ r ∈ xs.filterMap id := by
  simp only [uniqRows, List.mem_map, List.mem_filterMap, id]
  constructor
  · rintro ⟨⟨i, r'⟩, ⟨⟨o, j⟩, hm, hf⟩, e⟩
    simp only at e
    subst e
    cases o with
    | none => simp at hf
    | some r0 =>
      simp only at hf
      split at hf
      · cases hf
      · injection hf with hf
        injection hf with _ hf
        subst hf
        exact ⟨some r0, (List.mem_zipIdx_iff_getElem?.1 hm |> List.mem_of_getElem?), rfl⟩
  · rintro ⟨o, ho, e⟩
    subst e
    obtain ⟨i, h1, h2⟩ := exists_last (some r) xs ho
    refine ⟨(i, r), ⟨(some r, i), List.mem_zipIdx_iff_getElem?.2 h1, ?_⟩, rfl⟩
    simp only
    have : (xs.drop (i + 1)).any (fun o' => o' == some r) = false := by
      rw [Bool.eq_false_iff]
      intro hh
      rw [List.any_eq_true] at hh
      obtain ⟨o', ho', e⟩ := hh
      rw [beq_iff_eq] at e
      subst e
      exact h2 ho'
    rw [this]
    rfl

/-! ### clean form of tryResolve -/

def noAR : Nat → Nat → Bool := fun _ _ => false

def remLayers (b : Option Row) (xs : List (Option Row)) : List Nat :=
  if b.isNone then [] else (xs.zipIdx).filterMap (fun (o, i) => if o.isNone then some i else none)

def cellOf (b : Option Row) (xs : List (Option Row)) (i : Nat) : CellSt :=
  (uniqRows xs).foldl (fun st (lr : Nat × Row) =>
      cellStep (b.map (fun b => (b[i]?).getD [])) (noAR lr.1 i) (noAR lr.1 i) ((lr.2[i]?).getD []) st)
    { add := none, mod := none, rem := (remLayers b xs).any (fun l => !noAR l i),
      val := (b.map (fun b => (b[i]?).getD [])).getD [], unresolved := false }

def unresOf (cells : List CellSt) : List Nat :=
  ((cells.zipIdx).filter (fun (c, _) => c.unresolved)).map (·.2)

theorem tryResolve_eq (n : Nat) (k : List Bytes) (b : Option Row) (xs : List (Option Row)) :
    tryResolve n noAR noAR { key := k, base := b, others := xs } =
      if !(remLayers b xs).isEmpty then
        .conflict (((List.range n).map (cellOf b xs)).map (·.val)) (unresOf ((List.range n).map (cellOf b xs)))
      else if (unresOf ((List.range n).map (cellOf b xs))).isEmpty then
        .resolved (((List.range n).map (cellOf b xs)).map (·.val))
      else .conflict (((List.range n).map (cellOf b xs)).map (·.val)) (unresOf ((List.range n).map (cellOf b xs))) :=
  rfl

theorem unresOf_isEmpty (cells : List CellSt) :
    (unresOf cells).isEmpty = true ↔ ∀ c ∈ cells, c.unresolved = false := by
  unfold unresOf
  rw [List.isEmpty_iff, List.map_eq_nil_iff, List.filter_eq_nil_iff]
  constructor
  · intro h c hc
    obtain ⟨i, hi, e⟩ := List.getElem_of_mem hc
    have hm : (c, i) ∈ cells.zipIdx := by
      rw [List.mem_zipIdx_iff_getElem?]
      simp [← e]
    have := h (c, i) hm
    simpa using this
  · intro h p hp
    have := List.mem_zipIdx_iff_getElem?.1 hp
    have hc : p.1 ∈ cells := List.mem_of_getElem? this
    simp [h p.1 hc]

theorem cellOf_noRem (b : Option Row) (xs : List (Option Row)) (i : Nat) (h : remLayers b xs = []) :
    cellOf b xs i = (cellsAt i ((uniqRows xs).map (·.2))).foldl (step (b.map (fun b => (b[i]?).getD [])))
      { add := none, mod := none, rem := false,
        val := (b.map (fun b => (b[i]?).getD [])).getD [], unresolved := false } := by
  unfold cellOf cellsAt
  rw [h, List.foldl_map, List.foldl_map]
  rfl

/-- the three outcomes of `tryResolve` -/
theorem tryResolve_cases (n : Nat) (k : List Bytes) (b : Option Row) (xs : List (Option Row)) :
    (remLayers b xs ≠ [] → ∃ row cols, tryResolve n noAR noAR { key := k, base := b, others := xs } = .conflict row cols) ∧
    (remLayers b xs = [] →
      ((∀ i, i < n → (changedVals (b.map (fun b => (b[i]?).getD [])) (cellsAt i (xs.filterMap id))).length ≤ 1) →
        tryResolve n noAR noAR { key := k, base := b, others := xs } =
          .resolved ((List.range n).map (fun i =>
            (changedVals (b.map (fun b => (b[i]?).getD [])) (cellsAt i (xs.filterMap id))).headD
              ((b.map (fun b => (b[i]?).getD [])).getD [])))) ∧
      (¬ (∀ i, i < n → (changedVals (b.map (fun b => (b[i]?).getD [])) (cellsAt i (xs.filterMap id))).length ≤ 1) →
        ∃ row cols, tryResolve n noAR noAR { key := k, base := b, others := xs } = .conflict row cols)) := by
  rw [tryResolve_eq]
  refine ⟨?_, ?_⟩
  · intro h
    have : (!(remLayers b xs).isEmpty) = true := by
      simp only [Bool.not_eq_true', ← Bool.not_eq_true, List.isEmpty_iff]
      exact h
    rw [if_pos this]
    exact ⟨_, _, rfl⟩
  · intro h
    have h0 : (!(remLayers b xs).isEmpty) = false := by simp [h]
    rw [h0]
    simp only [Bool.false_eq_true, if_false]
    have hmem : ∀ i, ∀ a, a ∈ cellsAt i ((uniqRows xs).map (·.2)) ↔ a ∈ cellsAt i (xs.filterMap id) :=
      fun i => mem_cellsAt_congr i (mem_uniqRows xs)
    have hcell : ∀ i, ((cellOf b xs i).unresolved = true ↔
          (changedVals (b.map (fun b => (b[i]?).getD [])) (cellsAt i ((uniqRows xs).map (·.2)))).length ≥ 2) ∧
        ((cellOf b xs i).unresolved = false → (cellOf b xs i).val =
          (changedVals (b.map (fun b => (b[i]?).getD [])) (cellsAt i ((uniqRows xs).map (·.2)))).headD
            ((b.map (fun b => (b[i]?).getD [])).getD [])) := by
      intro i
      rw [cellOf_noRem b xs i h]
      exact fold_init _ _
    have hiff : (unresOf ((List.range n).map (cellOf b xs))).isEmpty = true ↔
        (∀ i, i < n → (changedVals (b.map (fun b => (b[i]?).getD [])) (cellsAt i (xs.filterMap id))).length ≤ 1) := by
      rw [unresOf_isEmpty]
      constructor
      · intro H i hi
        have h1 := H (cellOf b xs i) (List.mem_map.2 ⟨i, List.mem_range.2 hi, rfl⟩)
        rw [← changedVals_le_one_congr _ (hmem i)]
        have h2 := (hcell i).1
        cases hu : (cellOf b xs i).unresolved with
        | true => rw [hu] at h1; cases h1
        | false =>
          rw [hu] at h2
          have : ¬ (changedVals (b.map (fun b => (b[i]?).getD [])) (cellsAt i ((uniqRows xs).map (·.2)))).length ≥ 2 :=
            fun hh => by have := h2.2 hh; cases this
          omega
      · intro H c hc
        obtain ⟨i, hi, e⟩ := List.mem_map.1 hc
        subst e
        have h1 := H i (List.mem_range.1 hi)
        rw [← changedVals_le_one_congr _ (hmem i)] at h1
        cases hu : (cellOf b xs i).unresolved with
        | false => rfl
        | true =>
          have := (hcell i).1.1 hu
          omega
    refine ⟨?_, ?_⟩
    · intro H
      rw [if_pos (hiff.2 H)]
      congr 1
      rw [List.map_map]
      apply List.map_congr_left
      intro i hi
      have hi' := List.mem_range.1 hi
      have h1 := H i hi'
      have h1' := h1
      rw [← changedVals_le_one_congr _ (hmem i)] at h1'
      have hu : (cellOf b xs i).unresolved = false := by
        cases hu : (cellOf b xs i).unresolved with
        | false => rfl
        | true =>
          have := (hcell i).1.1 hu
          omega
      simp only [Function.comp]
      rw [(hcell i).2 hu]
      exact changedVals_headD_congr _ (hmem i) h1' _
    · intro H
      rw [if_neg (fun hh => H (hiff.1 hh))]
      exact ⟨_, _, rfl⟩


/-! ### resolveRec against mergeKey -/

theorem resolveRec_eq (n : Nat) (k : List Bytes) (b : Option Row) (xs : List (Option Row)) :
    resolveRec n noAR noAR { key := k, base := b, others := xs } =
      if ((xs.filterMap id).isEmpty ||
          ((xs.filterMap id).filter (fun r => some r == b)).length == (xs.filterMap id).length) = true
      then .removed else tryResolve n noAR noAR { key := k, base := b, others := xs } := rfl

theorem changedVals_none (l : List Bytes) : changedVals none l = l.eraseDups := by
  unfold changedVals
  congr 1
  rw [List.filter_eq_self]
  intro a _
  simp

theorem remLayers_some_nil (br : Row) (xs : List (Option Row)) :
    remLayers (some br) xs = [] ↔ xs.any Option.isNone = false := by
  unfold remLayers
  simp only [Option.isNone_some, Bool.false_eq_true, if_false, List.filterMap_eq_nil_iff]
  rw [Bool.eq_false_iff, Ne, List.any_eq_true]
  constructor
  · rintro H ⟨o, ho, e⟩
    obtain ⟨i, hi, e'⟩ := List.getElem_of_mem ho
    have hm : (o, i) ∈ xs.zipIdx := by
      rw [List.mem_zipIdx_iff_getElem?]; simp [← e']
    have := H (o, i) hm
    simp [e] at this
  · intro H p hp
    have := List.mem_zipIdx_iff_getElem?.1 hp
    have hc : p.1 ∈ xs := List.mem_of_getElem? this
    cases hn : p.1.isNone with
    | false => simp
    | true => exact absurd ⟨p.1, hc, hn⟩ H

theorem guard_none (xs : List (Option Row)) :
    ((xs.filterMap id).isEmpty ||
      ((xs.filterMap id).filter (fun r => some r == (none : Option Row))).length == (xs.filterMap id).length) =
      (xs.filterMap id).isEmpty := by
  have : (xs.filterMap id).filter (fun r => some r == (none : Option Row)) = [] := by
    rw [List.filter_eq_nil_iff]; intro a _; simp
  rw [this]
  cases h : xs.filterMap id with
  | nil => rfl
  | cons a t => simp

theorem guard_some (br : Row) (xs : List (Option Row)) :
    ((xs.filterMap id).isEmpty ||
      ((xs.filterMap id).filter (fun r => some r == some br)).length == (xs.filterMap id).length) =
      (xs.filterMap id).all (fun r => r == br) := by
  rw [Bool.eq_iff_iff, Bool.or_eq_true, beq_iff_eq, List.length_filter_eq_length_iff, List.all_eq_true,
    List.isEmpty_iff]
  constructor
  · rintro (h | h)
    · rw [h]; intro a ha; cases ha
    · intro a ha; simpa using h a ha
  · intro h; right; intro a ha; simpa using h a ha

theorem resolve_meets (n : Nat) (b : Option Row) (xs : List (Option Row)) (k : List Bytes)
    (hne : ¬ (b.isSome = true ∧ xs.all (fun o => o == b) = true)) :
    match resolveRec n noAR noAR { key := k, base := b, others := xs } with
    | .removed => mergeKey n b xs = .absent
    | .resolved row => mergeKey n b xs = .row row
    | .conflict _ _ => mergeKey n b xs = .conflict := by
  rw [resolveRec_eq]
  obtain ⟨tc1, tc2⟩ := tryResolve_cases n k b xs
  cases b with
  | none =>
    rw [guard_none]
    by_cases hpres : xs.filterMap id = []
    · rw [hpres, mergeKey_none, hpres]
      rfl
    have hemp : (xs.filterMap id).isEmpty = false := by
      rw [Bool.eq_false_iff, Ne, List.isEmpty_iff]; exact hpres
    rw [hemp]
    simp only [Bool.false_eq_true, if_false]
    obtain ⟨t1, t2⟩ := tc2 rfl
    have hcne : ∀ i, cellsAt i (xs.filterMap id) ≠ [] := by
      intro i; unfold cellsAt; simpa using hpres
    rw [mergeKey_none, hemp]
    simp only [Bool.false_eq_true, if_false]
    by_cases H : ∀ i, i < n → (changedVals ((none : Option Row).map (fun b => (b[i]?).getD []))
        (cellsAt i (xs.filterMap id))).length ≤ 1
    · rw [t1 H]
      simp only
      have hall : (List.range n).all (fun i => (cellsAt i (xs.filterMap id)).eraseDups.length == 1) = true := by
        rw [List.all_eq_true]
        intro i hi
        have h1 := H i (List.mem_range.1 hi)
        simp only [Option.map_none, changedVals_none] at h1
        have h2 := (eraseDups_length_pos _).2 (hcne i)
        rw [beq_iff_eq]; omega
      rw [if_pos hall]
      congr 1
      apply List.map_congr_left
      intro i _
      simp only [Option.map_none, changedVals_none, Option.getD_none]
    · obtain ⟨row, cols, e⟩ := t2 H
      rw [e]
      simp only
      have hall : ¬ (List.range n).all (fun i => (cellsAt i (xs.filterMap id)).eraseDups.length == 1) = true := by
        intro hall
        apply H
        intro i hi
        have := List.all_eq_true.1 hall i (List.mem_range.2 hi)
        rw [beq_iff_eq] at this
        simp only [Option.map_none, changedVals_none]
        omega
      rw [if_neg hall]
  | some br =>
    rw [guard_some, mergeKey_some]
    by_cases hall : (xs.filterMap id).all (fun r => r == br) = true
    · rw [if_pos hall, if_pos hall]
      simp only
      have : xs.any Option.isNone = true := by
        cases hh : xs.any Option.isNone with
        | true => rfl
        | false =>
          exfalso
          apply hne
          refine ⟨rfl, ?_⟩
          rw [List.all_eq_true]
          intro o ho
          cases o with
          | none =>
            have : xs.any Option.isNone = true := List.any_eq_true.2 ⟨none, ho, rfl⟩
            rw [hh] at this; cases this
          | some r =>
            have hr : r ∈ xs.filterMap id := by
              simp only [List.mem_filterMap, id]; exact ⟨some r, ho, rfl⟩
            have := List.all_eq_true.1 hall r hr
            simpa using this
      rw [if_pos this]
    · rw [if_neg hall, if_neg hall]
      cases hrem : xs.any Option.isNone with
      | true =>
        have : remLayers (some br) xs ≠ [] := by
          intro e
          have := (remLayers_some_nil br xs).1 e
          rw [hrem] at this; cases this
        obtain ⟨row, cols, e⟩ := tc1 this
        rw [e]
        simp
      | false =>
        obtain ⟨t1, t2⟩ := tc2 ((remLayers_some_nil br xs).2 hrem)
        simp only [Bool.false_eq_true, if_false]
        by_cases H : ∀ i, i < n → (changedVals ((some br).map (fun b => (b[i]?).getD []))
            (cellsAt i (xs.filterMap id))).length ≤ 1
        · rw [t1 H]
          simp only
          have hall2 : (List.range n).all (fun i =>
              decide ((changedVals (some ((br[i]?).getD [])) (cellsAt i (xs.filterMap id))).length ≤ 1)) = true := by
            rw [List.all_eq_true]
            intro i hi
            have h1 := H i (List.mem_range.1 hi)
            simpa using h1
          rw [if_pos hall2]
          rfl
        · obtain ⟨row, cols, e⟩ := t2 H
          rw [e]
          simp only
          have hall2 : ¬ (List.range n).all (fun i =>
              decide ((changedVals (some ((br[i]?).getD [])) (cellsAt i (xs.filterMap id))).length ≤ 1)) = true := by
            intro hall2
            apply H
            intro i hi
            have := List.all_eq_true.1 hall2 i (List.mem_range.2 hi)
            simpa using this
          rw [if_neg hall2]

end Wrgl.C05Aux
