import WrglModel.Model.Queue
import WrglModel.Model.Finder
import WrglModel.Lemmas.C11
import WrglModel.Lemmas.C11MultiAux
namespace Wrgl

/-- A history walk started from ANY list of commits (repeats allowed: two refs on one commit) pops
    every commit that is an ancestor-or-self of some start point, each exactly once. `tie` is the
    (unstable) initial sort of the start points. -/
theorem walkMulti_correct (g : Graph) (hwf : g.wf = true) (tie : List (Nat × Int) → List (Nat × Int))
    (htie : ∀ l, (tie l).Perm l ∧ (tie l).Pairwise (fun a b => a.2 ≥ b.2))
    (sums : List Nat) (hs : ∀ s ∈ sums, (g.get? s).isSome = true) :
    ∃ q l, queueOf g tie sums = .ok q ∧ walkLoop g (g.length + 2) q [] = .ok l ∧ l.Nodup ∧
      ∀ x, x ∈ l ↔ ∃ s ∈ sums, Reach g x s := by
  obtain ⟨q, e, h⟩ := C11MultiAux.queueOf_inv tie (fun l => (htie l).1) sums hs
  obtain ⟨l, el, hn, hm⟩ := C11MultiAux.walkLoop_correct hwf sums (g.length + 2) q [] h (by simp)
  exact ⟨q, l, e, el, hn, hm⟩

end Wrgl
