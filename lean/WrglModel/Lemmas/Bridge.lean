/-
From C03 to C04: a stored table that satisfies the structural invariant `tableInv` (Spec/TableInv.lean)
looks to the differ like a well-formed abstract table (`ATable.WF`, Spec/DiffWF.lean). With it the
hypotheses of `C04_diff_exact` are consequences of what C03 proves of every ingest result.
Core Lean only.
-/
import WrglModel.Spec.TableInv
import WrglModel.Spec.DiffWF
import WrglModel.Lemmas.C03Producers
import WrglModel.Lemmas.KeyOrder
import WrglModel.Lemmas.Order
namespace Wrgl.Bridge

/-- the differ's view of a stored table: every row with its key, its recorded hashes and its
    absolute offset -/
def mkBlock (bs : Nat) (pk : List Nat) (i : Nat) (rows : List Row) (hs : List (Bytes × Bytes)) : List KRow :=
  ((rows.zip hs).zipIdx).map (fun (p : (Row × (Bytes × Bytes)) × Nat) =>
    ({ key := keyOf pk p.1.1, cells := p.1.1, pkSum := p.1.2.1, rowSum := p.1.2.2, off := i * bs + p.2 } : KRow))

def aTableOf (bs : Nat) (t : FullTable) : ATable :=
  { blocks := ((t.blocks.zip t.hashes).zipIdx).map (fun (p : (List Row × List (Bytes × Bytes)) × Nat) => mkBlock bs t.pk p.2 p.1.1 p.1.2),
    sortedOffs := t.indices.map (·.sortedOff) }

/-! ### list facts -/

/-- a list of `n` numbers that contains every number below `n` is a permutation of `0..n-1` -/
theorem perm_of_length_of_subset : ∀ (s l : List Nat), s.Nodup → (∀ x ∈ s, x ∈ l) → l.length = s.length → l.Perm s := by
  intro s
  induction s with
  | nil => intro l _ _ hl; cases l with
    | nil => exact List.Perm.refl _
    | cons _ _ => simp at hl
  | cons a s ih =>
    intro l hnd hsub hl
    have ha : a ∈ l := hsub a List.mem_cons_self
    have hnd' := List.nodup_cons.1 hnd
    have h1 : l.Perm (a :: l.erase a) := List.perm_cons_erase ha
    have hlen : (l.erase a).length = s.length := by
      rw [List.length_erase_of_mem ha, hl]; simp
    have hsub' : ∀ x ∈ s, x ∈ l.erase a := by
      intro x hx
      have hne : x ≠ a := fun e => hnd'.1 (e ▸ hx)
      exact (List.mem_erase_of_ne hne).2 (hsub x (List.mem_cons_of_mem _ hx))
    exact h1.trans (List.Perm.cons a (ih (l.erase a) hnd'.2 hsub' hlen))

theorem perm_of_isPermOfRange (so : List Nat) (n : Nat) (h : isPermOfRange so n = true) : so.Perm (List.range n) := by
  unfold isPermOfRange at h
  simp only [Bool.and_eq_true, beq_iff_eq, List.all_eq_true, List.contains_iff_mem] at h
  exact perm_of_length_of_subset (List.range n) so List.nodup_range (fun x hx => by simpa using h.2 x hx) (by simp [h.1])

theorem pairwise_of_strictAsc : ∀ (l : List (List Bytes)), strictAsc l = true → l.Pairwise (fun a b => keyCmp a b = .lt)
  | [], _ => List.Pairwise.nil
  | [_], _ => by simp
  | a :: b :: rest, h => by
    simp only [strictAsc, Bool.and_eq_true, beq_iff_eq] at h
    have ih := pairwise_of_strictAsc (b :: rest) h.2
    refine List.Pairwise.cons ?_ ih
    intro c hc
    rcases List.mem_cons.1 hc with rfl | hc
    · exact h.1
    · exact keyCmp_lt_trans h.1 ((List.pairwise_cons.1 ih).1 c hc)

theorem blockSizesOk_spec (bs : Nat) (hbs : 0 < bs) : ∀ (l : List Nat), blockSizesOk bs l = true →
    (∀ n ∈ l, 1 ≤ n ∧ n ≤ bs) ∧ (∀ (i n : Nat), l[i]? = some n → i + 1 < l.length → n = bs)
  | [], _ => by simp
  | [n], h => by
    simp only [blockSizesOk, decide_eq_true_eq] at h
    refine ⟨by simpa using h, ?_⟩
    intro i m _ hi; simp at hi
  | n :: m :: rest, h => by
    simp only [blockSizesOk, Bool.and_eq_true, beq_iff_eq] at h
    obtain ⟨ih1, ih2⟩ := blockSizesOk_spec bs hbs (m :: rest) (by simpa [blockSizesOk] using h.2)
    refine ⟨?_, ?_⟩
    · intro x hx
      rcases List.mem_cons.1 hx with rfl | hx
      · omega
      · exact ih1 x hx
    · intro i x hx hi
      cases i with
      | zero => simp at hx; omega
      | succ i =>
        simp only [List.getElem?_cons_succ] at hx
        exact ih2 i x hx (by simp only [List.length_cons] at hi ⊢; omega)

/-! ### the differ's view, element by element -/


theorem mkBlock_getElem? (bs : Nat) (pk : List Nat) (i : Nat) (rows : List Row) (hs : List (Bytes × Bytes)) (j : Nat) (r : KRow) :
    (mkBlock bs pk i rows hs)[j]? = some r ↔
      ∃ row h, rows[j]? = some row ∧ hs[j]? = some h ∧
        r = { key := keyOf pk row, cells := row, pkSum := h.1, rowSum := h.2, off := i * bs + j } := by
  unfold mkBlock
  simp only [List.getElem?_map, List.getElem?_zipIdx, Option.map_eq_some_iff, List.getElem?_zip_eq_some]
  constructor
  · rintro ⟨⟨⟨row, h⟩, k⟩, ⟨⟨⟨row', h'⟩, ⟨h1, h2⟩, e⟩, rfl⟩⟩
    simp only [Prod.mk.injEq] at e
    obtain ⟨⟨rfl, rfl⟩, rfl⟩ := e
    exact ⟨row', h', h1, h2, by simp⟩
  · rintro ⟨row, h, h1, h2, rfl⟩
    exact ⟨((row, h), 0 + j), ⟨(row, h), ⟨h1, h2⟩, rfl⟩, by simp⟩

theorem mkBlock_length (bs : Nat) (pk : List Nat) (i : Nat) (rows : List Row) (hs : List (Bytes × Bytes)) :
    (mkBlock bs pk i rows hs).length = min rows.length hs.length := by
  simp [mkBlock]

theorem aTable_getElem? (bs : Nat) (t : FullTable) (i : Nat) (b : List KRow) :
    (aTableOf bs t).blocks[i]? = some b ↔
      ∃ rows hs, t.blocks[i]? = some rows ∧ t.hashes[i]? = some hs ∧ b = mkBlock bs t.pk i rows hs := by
  unfold aTableOf
  simp only [List.getElem?_map, List.getElem?_zipIdx, Option.map_eq_some_iff, List.getElem?_zip_eq_some]
  constructor
  · rintro ⟨⟨⟨rows, hs⟩, k⟩, ⟨⟨⟨rows', hs'⟩, ⟨h1, h2⟩, e⟩, rfl⟩⟩
    simp only [Prod.mk.injEq] at e
    obtain ⟨⟨rfl, rfl⟩, rfl⟩ := e
    exact ⟨rows', hs', h1, h2, by simp⟩
  · rintro ⟨rows, hs, h1, h2, rfl⟩
    exact ⟨((rows, hs), 0 + i), ⟨(rows, hs), ⟨h1, h2⟩, rfl⟩, by simp⟩



theorem mkBlock_keys (bs : Nat) (pk : List Nat) (i : Nat) (rows : List Row) (hs : List (Bytes × Bytes))
    (hl : hs.length = rows.length) : (mkBlock bs pk i rows hs).map (·.key) = rows.map (keyOf pk) := by
  unfold mkBlock
  rw [List.map_map]
  have : ((fun (r : KRow) => r.key) ∘ fun (p : (Row × (Bytes × Bytes)) × Nat) =>
      ({ key := keyOf pk p.1.1, cells := p.1.1, pkSum := p.1.2.1, rowSum := p.1.2.2, off := i * bs + p.2 } : KRow))
      = (fun (q : Row × (Bytes × Bytes)) => keyOf pk q.1) ∘ Prod.fst := rfl
  rw [this, ← List.map_map, List.zipIdx_map_fst]
  have h2 : (fun (q : Row × (Bytes × Bytes)) => keyOf pk q.1) = keyOf pk ∘ Prod.fst := rfl
  rw [h2, ← List.map_map, List.map_fst_zip (by omega)]

theorem blocks_keys (bs : Nat) (pk : List Nat) : ∀ (bl : List (List Row)) (hl : List (List (Bytes × Bytes))) (k : Nat),
    hl.map List.length = bl.map List.length →
    ((((bl.zip hl).zipIdx k).map (fun (p : (List Row × List (Bytes × Bytes)) × Nat) => mkBlock bs pk p.2 p.1.1 p.1.2)).flatten).map (·.key)
      = bl.flatten.map (keyOf pk) := by
  intro bl
  induction bl with
  | nil => intro hl k _; simp
  | cons rows bl ih =>
    intro hl k h
    cases hl with
    | nil => simp at h
    | cons hs hl =>
      simp only [List.map_cons, List.cons.injEq] at h
      simp only [List.zip_cons_cons, List.zipIdx_cons, List.map_cons, List.flatten_cons, List.map_append]
      rw [mkBlock_keys bs pk k rows hs h.1, ih hl (k + 1) h.2]

theorem allRows_keys (bs : Nat) (t : FullTable) (hh : t.hashes.map List.length = t.blocks.map List.length) :
    (aTableOf bs t).allRows.map (·.key) = t.blocks.flatten.map (keyOf t.pk) := by
  unfold ATable.allRows aTableOf
  exact blocks_keys bs t.pk t.blocks t.hashes 0 hh



theorem bytes_le_trans {a b c : Bytes} (h1 : bytesCmp a b ≠ .gt) (h2 : bytesCmp b c ≠ .gt) : bytesCmp a c ≠ .gt := by
  rw [bytesCmp_ne_gt_iff] at h1 h2 ⊢
  rcases h1 with h1 | rfl
  · rcases h2 with h2 | rfl
    · exact Or.inl (bytesCmp_lt_trans h1 h2)
    · exact Or.inl h1
  · exact h2

theorem pairwise_of_adjacent : ∀ (ks : List Bytes),
    (ks.zip ks.tail).all (fun (p : Bytes × Bytes) => bytesCmp p.1 p.2 != .gt) = true →
    ks.Pairwise (fun a b => bytesCmp a b ≠ .gt)
  | [], _ => List.Pairwise.nil
  | [_], _ => by simp
  | a :: b :: rest, h => by
    simp only [List.tail_cons, List.zip_cons_cons, List.all_cons, Bool.and_eq_true, bne_iff_ne, ne_eq] at h
    have ih := pairwise_of_adjacent (b :: rest) (by simpa using h.2)
    refine List.Pairwise.cons ?_ ih
    intro c hc
    rcases List.mem_cons.1 hc with rfl | hc
    · exact h.1
    · exact bytes_le_trans h.1 ((List.pairwise_cons.1 ih).1 c hc)

def hkey (hs : List (Bytes × Bytes)) (j : Nat) : Bytes :=
  match hs[j]? with
  | some (p, _) => p
  | none => []

theorem sortedOffOk_of (bs : Nat) (pk : List Nat) (i : Nat) (rows : List Row) (hs : List (Bytes × Bytes)) (so : List Nat)
    (hl : hs.length = rows.length)
    (hp : isPermOfRange so hs.length = true) (hn : nondecreasingAlong so hs = true) :
    ATable.sortedOffOk (mkBlock bs pk i rows hs) so := by
  constructor
  · rw [mkBlock_length, hl, Nat.min_self, ← hl]
    exact perm_of_isPermOfRange so hs.length hp
  · intro x y a c hxy ha hc
    have hn' : ((so.map (hkey hs)).zip (so.map (hkey hs)).tail).all (fun (p : Bytes × Bytes) => bytesCmp p.1 p.2 != .gt) = true := hn
    have hpw := pairwise_of_adjacent _ hn'
    rw [List.pairwise_iff_getElem] at hpw
    obtain ⟨jx, hjx, hax⟩ := Option.bind_eq_some_iff.1 ha
    obtain ⟨jy, hjy, hcy⟩ := Option.bind_eq_some_iff.1 hc
    obtain ⟨_, h1, _, hh1, rfl⟩ := (mkBlock_getElem? bs pk i rows hs jx a).1 hax
    obtain ⟨_, h2, _, hh2, rfl⟩ := (mkBlock_getElem? bs pk i rows hs jy c).1 hcy
    obtain ⟨hx, ex⟩ := List.getElem?_eq_some_iff.1 hjx
    obtain ⟨hy, ey⟩ := List.getElem?_eq_some_iff.1 hjy
    have := hpw x y (by simpa using hx) (by simpa using hy) hxy
    simp only [List.getElem_map, ex, ey] at this
    have e1 : hkey hs jx = h1.1 := by unfold hkey; rw [hh1]
    have e2 : hkey hs jy = h2.1 := by unfold hkey; rw [hh2]
    rw [e1, e2] at this
    exact this



theorem zip_all_get {α β : Type} (p : α × β → Bool) (l1 : List α) (l2 : List β) (i : Nat) (a : α) (b : β)
    (h : (l1.zip l2).all p = true) (h1 : l1[i]? = some a) (h2 : l2[i]? = some b) : p (a, b) = true := by
  rw [List.all_eq_true] at h
  apply h
  have : (l1.zip l2)[i]? = some (a, b) := List.getElem?_zip_eq_some.2 ⟨h1, h2⟩
  exact List.mem_of_getElem? this

theorem wf_of_tableInv (bs arity : Nat) (hbs : 0 < bs) (t : FullTable) (hinv : tableInv bs t = [])
    (hh : t.hashes.map List.length = t.blocks.map List.length)
    (har : ∀ r ∈ t.blocks.flatten, (keyOf t.pk r).length = arity) :
    (aTableOf bs t).WF bs arity := by
  have c := (C03P.tableInv_nil_iff bs t).1 hinv
  have c4 := c.c4
  simp only [Bool.and_eq_true, beq_iff_eq] at c4
  obtain ⟨sz1, sz2⟩ := blockSizesOk_spec bs hbs _ c.c2
  have hlen : ∀ (i : Nat) rows hs, t.blocks[i]? = some rows → t.hashes[i]? = some hs → hs.length = rows.length := by
    intro i rows hs h1 h2
    have := congrArg (·[i]?) hh
    simpa [List.getElem?_map, h1, h2] using this
  have blen : (aTableOf bs t).blocks.length = t.blocks.length := by simp [aTableOf, c4.2]
  have bl : ∀ (i : Nat) rows hs, t.blocks[i]? = some rows → t.hashes[i]? = some hs →
      (mkBlock bs t.pk i rows hs).length = rows.length := by
    intro i rows hs h1 h2
    rw [mkBlock_length, hlen i rows hs h1 h2, Nat.min_self]
  have szmem : ∀ (i : Nat) rows, t.blocks[i]? = some rows → rows.length ∈ t.blocks.map List.length := by
    intro i rows h1
    exact List.mem_map.2 ⟨rows, List.mem_of_getElem? h1, rfl⟩
  refine ⟨?_, ?_, ?_, ?_, ?_, ?_, ?_, ?_⟩
  · simp [aTableOf, c4]
  · intro b hb
    obtain ⟨i, hi⟩ := List.getElem?_of_mem hb
    obtain ⟨rows, hs, h1, h2, rfl⟩ := (aTable_getElem? bs t i b).1 hi
    have := (sz1 _ (szmem i rows h1)).1
    intro e
    have hl := bl i rows hs h1 h2
    rw [e] at hl; simp at hl; omega
  · intro b hb
    obtain ⟨i, hi⟩ := List.getElem?_of_mem hb
    obtain ⟨rows, hs, h1, h2, rfl⟩ := (aTable_getElem? bs t i b).1 hi
    rw [bl i rows hs h1 h2]
    exact (sz1 _ (szmem i rows h1)).2
  · intro i b hi hlast
    obtain ⟨rows, hs, h1, h2, rfl⟩ := (aTable_getElem? bs t i b).1 hi
    rw [bl i rows hs h1 h2]
    apply sz2 i rows.length
    · simp [List.getElem?_map, h1]
    · rw [blen] at hlast; simpa using hlast
  · intro r hr
    have hk : r.key ∈ (aTableOf bs t).allRows.map (·.key) := List.mem_map.2 ⟨r, hr, rfl⟩
    rw [allRows_keys bs t hh] at hk
    obtain ⟨row, hrow, e⟩ := List.mem_map.1 hk
    rw [← e]; exact har row hrow
  · have hp := pairwise_of_strictAsc _ c.c3
    rw [← allRows_keys bs t hh, List.pairwise_map] at hp
    exact hp
  · intro i b so hi hso
    obtain ⟨rows, hs, h1, h2, rfl⟩ := (aTable_getElem? bs t i b).1 hi
    have hso' : ∃ idx, t.indices[i]? = some idx ∧ so = idx.sortedOff := by
      simp only [aTableOf, List.getElem?_map, Option.map_eq_some_iff] at hso
      obtain ⟨idx, h, e⟩ := hso
      exact ⟨idx, h, e.symm⟩
    obtain ⟨idx, hidx, rfl⟩ := hso'
    have e5 := zip_all_get _ t.indices t.hashes i idx hs c.c5 hidx h2
    simp only [beq_iff_eq] at e5
    have e6 := (List.all_eq_true.1 c.c6) idx (List.mem_of_getElem? hidx)
    simp only [Bool.and_eq_true] at e6
    rw [e5] at e6
    exact sortedOffOk_of bs t.pk i rows hs idx.sortedOff (hlen i rows hs h1 h2) e6.1 e6.2
  · intro i b j r hi hj
    obtain ⟨rows, hs, h1, h2, rfl⟩ := (aTable_getElem? bs t i b).1 hi
    obtain ⟨_, _, _, _, rfl⟩ := (mkBlock_getElem? bs t.pk i rows hs j r).1 hj
    rfl



theorem mkBlock_sums (bs : Nat) (pk : List Nat) (i : Nat) (rows : List Row) (hs : List (Bytes × Bytes))
    (hl : hs.length = rows.length) : (mkBlock bs pk i rows hs).map (fun r => (r.pkSum, r.rowSum)) = hs := by
  unfold mkBlock
  rw [List.map_map]
  have : ((fun (r : KRow) => (r.pkSum, r.rowSum)) ∘ fun (p : (Row × (Bytes × Bytes)) × Nat) =>
      ({ key := keyOf pk p.1.1, cells := p.1.1, pkSum := p.1.2.1, rowSum := p.1.2.2, off := i * bs + p.2 } : KRow))
      = Prod.snd ∘ Prod.fst := rfl
  rw [this, ← List.map_map, List.zipIdx_map_fst, List.map_snd_zip (by omega)]

/-- what the differ reads of the abstract table is what is stored: the block indices and the table index -/
theorem toD_of_inv (bs : Nat) (t : FullTable) (hinv : tableInv bs t = [])
    (hh : t.hashes.map List.length = t.blocks.map List.length) :
    (aTableOf bs t).toD = { blocks := t.indices, tblIdx := t.tblIdx } := by
  have c := (C03P.tableInv_nil_iff bs t).1 hinv
  have c4 := c.c4
  simp only [Bool.and_eq_true, beq_iff_eq] at c4
  have hlen : ∀ (i : Nat) rows hs, t.blocks[i]? = some rows → t.hashes[i]? = some hs → hs.length = rows.length := by
    intro i rows hs h1 h2
    have := congrArg (·[i]?) hh
    simpa [List.getElem?_map, h1, h2] using this
  have blen : (aTableOf bs t).blocks.length = t.blocks.length := by simp [aTableOf, c4.2]
  unfold ATable.toD
  congr 1
  · apply List.ext_getElem?
    intro i
    by_cases hi : i < t.blocks.length
    · obtain ⟨rows, h1⟩ : ∃ rows, t.blocks[i]? = some rows := ⟨t.blocks[i], List.getElem?_eq_getElem hi⟩
      obtain ⟨hs, h2⟩ : ∃ hs, t.hashes[i]? = some hs := ⟨t.hashes[i]'(by omega), List.getElem?_eq_getElem (by omega)⟩
      obtain ⟨idx, h3⟩ : ∃ idx, t.indices[i]? = some idx := ⟨t.indices[i]'(by omega), List.getElem?_eq_getElem (by omega)⟩
      have hb : (aTableOf bs t).blocks[i]? = some (mkBlock bs t.pk i rows hs) :=
        (aTable_getElem? bs t i _).2 ⟨rows, hs, h1, h2, rfl⟩
      have hso : (aTableOf bs t).sortedOffs[i]? = some idx.sortedOff := by simp [aTableOf, h3]
      have e5 := zip_all_get _ t.indices t.hashes i idx hs c.c5 h3 h2
      simp only [beq_iff_eq] at e5
      rw [List.getElem?_map, (List.getElem?_zip_eq_some (z := (mkBlock bs t.pk i rows hs, idx.sortedOff))).2 ⟨hb, hso⟩, h3]
      simp only [Option.map_some, mkBlock_sums bs t.pk i rows hs (hlen i rows hs h1 h2)]
      rw [← e5]
    · have h1 : t.indices[i]? = none := List.getElem?_eq_none (by omega)
      rw [h1, List.getElem?_eq_none]
      simp only [List.length_map, List.length_zip, blen]
      omega
  · have e7 := c.c7
    rw [beq_iff_eq] at e7
    rw [e7]
    apply List.ext_getElem?
    intro i
    by_cases hi : i < t.blocks.length
    · obtain ⟨rows, h1⟩ : ∃ rows, t.blocks[i]? = some rows := ⟨t.blocks[i], List.getElem?_eq_getElem hi⟩
      obtain ⟨hs, h2⟩ : ∃ hs, t.hashes[i]? = some hs := ⟨t.hashes[i]'(by omega), List.getElem?_eq_getElem (by omega)⟩
      have hb : (aTableOf bs t).blocks[i]? = some (mkBlock bs t.pk i rows hs) :=
        (aTable_getElem? bs t i _).2 ⟨rows, hs, h1, h2, rfl⟩
      rw [List.getElem?_map, List.getElem?_map, hb, h1]
      simp only [Option.map_some]
      have hl := hlen i rows hs h1 h2
      cases rows with
      | nil => simp [mkBlock]
      | cons r rest =>
        cases hs with
        | nil => simp at hl
        | cons h hrest => simp [mkBlock, List.zipIdx_cons]
    · rw [List.getElem?_eq_none (by simp [blen]; omega), List.getElem?_eq_none (by simp; omega)]


end Wrgl.Bridge
