import WrglModel.Lemmas.C09Tables
/-!
C09, interrupted transfers. A transfer that dies on an object boundary leaves the receiver with a
PREFIX of the sender's object stream. The retry (a new session) asks only for advertised commits
the receiver does not hold yet, so a commit stored by the interrupted attempt is taken as complete.
That is sound because the stream carries every table before the commit it belongs to and the
receiver stores each object as it is read: at every cut, every commit of the prefix has its table in
the prefix (or it was counted as present from the start).
`deferredPrefix` models a receiver that sets tables aside until the end of the packfile; for it the
statement is false (witness below).
-/
namespace Wrgl
namespace C09Aux

/-- an element that ends a list and occurs nowhere before: a prefix holding it is the whole list -/
theorem prefix_with_last {α} (pre a b : List α) (x : α) (hx : x ∉ pre) (h : pre ++ [x] = a ++ b) (hxa : x ∈ a) :
    b = [] := by
  rcases List.append_eq_append_iff.1 h with ⟨a', ha, hb⟩ | ⟨c', hp, hb⟩
  · -- a = pre ++ a', [x] = a' ++ b
    cases a' with
    | nil =>
      simp only [List.append_nil] at ha
      subst ha
      exact absurd hxa hx
    | cons y ys =>
      have hl := congrArg List.length hb
      simp only [List.length_cons, List.length_nil, List.length_append] at hl
      have : b.length = 0 := by omega
      exact List.eq_nil_of_length_eq_zero this
  · -- pre = a ++ c'
    subst hp
    exact absurd (List.mem_append_left _ hxa) hx

/-- one commit's contribution, cut anywhere: a prefix that holds a commit object holds all of it -/
theorem commitObjs_prefix {s : SrcRepo} {tts : List Nat} {st st' : SenderSt} {c0 : Nat} {o : List ObjKey}
    (h : commitObjs s tts st c0 = .ok (o, st')) (a b : List ObjKey) (hs : o = a ++ b) (c : Nat) (hc : ObjKey.com c ∈ a) :
    b = [] ∧ c = c0 := by
  obtain ⟨cm, _, hcase⟩ := C07.commitObjs_cases h
  rcases hcase with ⟨ho, _, _⟩ | ⟨ti, _, _, ho, _, _⟩
  · -- o = [.com c0]
    have hmem : ObjKey.com c ∈ o := by rw [hs]; exact List.mem_append_left _ hc
    rw [ho] at hmem
    have hcc : c = c0 := by simpa using hmem
    subst hcc
    have : ([] : List ObjKey) ++ [ObjKey.com c] = a ++ b := by rw [← hs, ho]; rfl
    exact ⟨prefix_with_last [] a b _ (by simp) this hc, rfl⟩
  · have hmem : ObjKey.com c ∈ o := by rw [hs]; exact List.mem_append_left _ hc
    rw [ho] at hmem
    have hcc : c = c0 := by
      simp only [List.mem_append, List.mem_map, List.mem_cons, List.not_mem_nil, or_false] at hmem
      rcases hmem with ⟨_, _, hk⟩ | hk | hk
      · cases hk
      · cases hk
      · exact ObjKey.com.inj hk
    subst hcc
    have hx : ObjKey.com c ∉ (C07.newBlocks st ti).map ObjKey.blk ++ [ObjKey.tbl cm.table] := by
      simp only [List.mem_append, List.mem_map, List.mem_cons, List.not_mem_nil, or_false]
      rintro (⟨_, _, hk⟩ | hk)
      · cases hk
      · cases hk
    have : ((C07.newBlocks st ti).map ObjKey.blk ++ [ObjKey.tbl cm.table]) ++ [ObjKey.com c] = a ++ b := by
      rw [← hs, ho]; simp
    exact ⟨prefix_with_last _ a b _ hx this hc, rfl⟩

/-- the stream cut at ANY object boundary: every commit of the part before the cut has its table
    (when selected and present at the source) before the cut too, unless that table counted as
    present at the receiver from the start -/
theorem senderObjs_prefix_tbl {s : SrcRepo} {tts : List Nat} : ∀ (cs : List Nat) (st : SenderSt) (objs : List ObjKey),
    senderObjs s tts st cs = .ok objs →
    ∀ (a b : List ObjKey), objs = a ++ b → ∀ c, ObjKey.com c ∈ a →
    ∀ cm, s.commits.get? c = some cm → tts.contains cm.table = true → (s.table? cm.table).isSome = true →
      cm.table ∈ st.commonTables ∨ ObjKey.tbl cm.table ∈ a := by
  intro cs
  induction cs with
  | nil =>
    intro st objs h a b hs c hc
    simp only [senderObjs, Res.ok.injEq] at h
    subst h
    have : a = [] := (List.append_eq_nil_iff.1 hs.symm).1
    subst this
    cases hc
  | cons c0 cs ih =>
    intro st objs h a b hs c hc cm hcm htts hsrc
    simp only [senderObjs] at h
    split at h
    · rename_i o st' hstep
      split at h
      · rename_i rest hrest
        simp only [Res.ok.injEq] at h
        subst h
        rcases List.append_eq_append_iff.1 hs with ⟨a', ha, hb⟩ | ⟨b', ho, hb⟩
        · -- the cut lies in the rest: a = o ++ a'
          subst ha
          rcases List.mem_append.1 hc with hco | hca
          · have hcc := (commitObjs_prefix hstep o [] (by simp) c hco).2
            subst hcc
            rcases commitObjs_tbl_self hstep cm hcm htts hsrc with h1 | h1
            · exact Or.inl h1
            · exact Or.inr (List.mem_append_left _ h1)
          · rcases ih st' rest hrest a' b hb c hca cm hcm htts hsrc with h1 | h1
            · rcases commitObjs_tbl_back hstep cm.table h1 with h2 | h2 | h2
              · exact Or.inl h2
              · rw [h2] at hsrc; cases hsrc
              · exact Or.inr (List.mem_append_left _ h2)
            · exact Or.inr (List.mem_append_right _ h1)
        · -- the cut lies inside this commit's objects: o = a ++ b'
          obtain ⟨hb', hcc⟩ := commitObjs_prefix hstep a b' ho c hc
          subst hcc
          subst hb'
          simp only [List.append_nil] at ho
          subst ho
          rcases commitObjs_tbl_self hstep cm hcm htts hsrc with h1 | h1
          · exact Or.inl h1
          · exact Or.inr h1
      · cases h
      · cases h
    · cases h
    · cases h

end C09Aux

/-- An interrupted transfer: the receiver took the objects before a cut at any object boundary and
    nothing after it. Every commit it holds now and did not hold before has its table (when that
    table is selected for sending and present at the source), given that the receiver holds the
    tables the sender counts as present from the start (those of the acknowledged commons). -/
theorem interrupted_commit_has_table (s : SrcRepo) (d : DstRepo) (tts : List Nat) (st : SenderSt) (cs : List Nat)
    (objs : List ObjKey) (ho : senderObjs s tts st cs = .ok objs)
    (hct : ∀ t ∈ st.commonTables, d.has (.tbl t) = true)
    (a b : List ObjKey) (hs : objs = a ++ b) (d' : DstRepo) (hrecv : receiveAll s d a = .ok d')
    (c : Nat) (hnew : d'.has (.com c) = true) (hold : d.has (.com c) = false)
    (cm : Commit) (hcm : s.commits.get? c = some cm) (htts : tts.contains cm.table = true)
    (hsrc : (s.table? cm.table).isSome = true) :
    d'.has (.tbl cm.table) = true := by
  have hca : ObjKey.com c ∈ a := by
    rcases (C07.receiveAll_has a hrecv (.com c)).1 hnew with h | h
    · rw [hold] at h; cases h
    · exact h
  rcases C09Aux.senderObjs_prefix_tbl cs st objs ho a b hs c hca cm hcm htts hsrc with h | h
  · exact (C07.receiveAll_has a hrecv _).2 (Or.inl (hct _ h))
  · exact (C07.receiveAll_has a hrecv _).2 (Or.inr h)

/-- A receiver that sets the tables of a packfile aside until the packfile has been read to its end:
    what an interruption leaves is the prefix without its tables. -/
def deferredPrefix (a : List ObjKey) : List ObjKey :=
  a.filter (fun o => match o with
    | .tbl _ => false
    | _ => true)

end Wrgl
