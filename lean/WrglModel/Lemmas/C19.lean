import WrglModel.Model.Sorter
import WrglModel.Spec.Sorter
import WrglModel.Lemmas.Kway
import WrglModel.Lemmas.KeyOrder
import WrglModel.Lemmas.SorterAux
namespace Wrgl

/-- what `sort.Slice` with `StringSliceIsLess` is assumed to be: some correct sort -/
structure IsSort (pk : List Nat) (sortFn : List Row → List Row) : Prop where
  perm : ∀ l, (sortFn l).Perm l
  sorted : ∀ l, (sortFn l).Pairwise (fun a b => rowLt pk b a = false)

/-- all rows have the same number `w` of cells and the key columns exist -/
def RowsWF (w : Nat) (pk : List Nat) (rows : List Row) : Prop :=
  (∀ r ∈ rows, r.length = w) ∧ (∀ i ∈ pk, i < w)

/-- the rows that survive: merged runs with adjacent equal keys collapsed -/
def keptRows (sortFn : List Row → List Row) (pk : List Nat) (st : SorterSt) : List Row :=
  dedupAdj pk none (mergedRows sortFn pk st)

/-- the merged rows are a sorted permutation of the input -/
theorem mergedRows_spec (sortFn : List Row → List Row) (pk : List Nat) (hs : IsSort pk sortFn)
    (maxCell : Option Nat) (runSize : Nat) (rows : List Row) (st : SorterSt)
    (hadd : addRows sortFn maxCell runSize { chunks := [], current := [], size := 0 } rows = .ok st) :
    (mergedRows sortFn pk st).Perm rows ∧ SorterAux.KSorted pk (mergedRows sortFn pk st) := by
  obtain ⟨hch, hperm⟩ := SorterAux.addRows_inv sortFn maxCell runSize (Kway.Sorted (rowLt pk))
    hs.sorted hs.perm rows _ st hadd (by simp)
  have hcs : ∀ c ∈ st.chunks ++ [sortFn st.current], Kway.Sorted (rowLt pk) c := by
    intro c hc
    simp only [List.mem_append, List.mem_singleton] at hc
    rcases hc with hc | rfl
    · exact hch c hc
    · exact hs.sorted _
  obtain ⟨kp, ks⟩ := Kway.kway_spec (rowLt pk) (KeyOrder.rowLt_order pk)
    (totalLen (st.chunks ++ [sortFn st.current])) (st.chunks ++ [sortFn st.current]) hcs (Nat.le_refl _)
  have hm : mergedRows sortFn pk st =
      kway (rowLt pk) (totalLen (st.chunks ++ [sortFn st.current])) (st.chunks ++ [sortFn st.current]) := rfl
  rw [hm]
  refine ⟨?_, ?_⟩
  · refine kp.trans ?_
    simp only [List.flatten_append, List.flatten_cons, List.flatten_nil, List.append_nil]
    refine ((hs.perm st.current).append_left _).trans ?_
    simpa using hperm
  · unfold SorterAux.KSorted
    exact List.Pairwise.imp (fun {a b} h => (KeyOrder.rowLt_false_iff pk b a).1 h) ks

/-- `kept_spec` without the (unused) well-formedness hypothesis -/
theorem kept_facts (sortFn : List Row → List Row) (pk : List Nat) (hs : IsSort pk sortFn)
    (maxCell : Option Nat) (runSize : Nat) (rows : List Row) (st : SorterSt)
    (hadd : addRows sortFn maxCell runSize { chunks := [], current := [], size := 0 } rows = .ok st) :
    (keptRows sortFn pk st).Pairwise (fun a b => keyCmp (keyOf pk a) (keyOf pk b) = .lt) ∧
    (∀ r ∈ keptRows sortFn pk st, r ∈ rows) ∧
    (∀ r ∈ rows, ∃ r' ∈ keptRows sortFn pk st, keyOf pk r' = keyOf pk r) := by
  obtain ⟨mp, ms⟩ := mergedRows_spec sortFn pk hs maxCell runSize rows st hadd
  obtain ⟨d1, d2, _, d4⟩ := SorterAux.dedupAdj_spec pk (mergedRows sortFn pk st) none ms
    (fun k hk => by cases hk)
  refine ⟨d1, ?_, ?_⟩
  · intro r hr
    exact mp.subset (d2 r hr)
  · intro r hr
    rcases d4 r (mp.symm.subset hr) with h | h
    · cases h
    · exact h

/-- C19 core: for every memory limit (`runSize`), every correct sort and every input, the kept rows
    are input rows, their keys strictly ascend, and every input key is represented. -/
theorem kept_spec (sortFn : List Row → List Row) (pk : List Nat) (hs : IsSort pk sortFn)
    (w : Nat) (maxCell : Option Nat) (runSize : Nat) (rows : List Row) (st : SorterSt)
    (hw : RowsWF w pk rows)
    (hadd : addRows sortFn maxCell runSize { chunks := [], current := [], size := 0 } rows = .ok st) :
    (keptRows sortFn pk st).Pairwise (fun a b => keyCmp (keyOf pk a) (keyOf pk b) = .lt) ∧
    (∀ r ∈ keptRows sortFn pk st, r ∈ rows) ∧
    (∀ r ∈ rows, ∃ r' ∈ keptRows sortFn pk st, keyOf pk r' = keyOf pk r) :=
  kept_facts sortFn pk hs maxCell runSize rows st hadd

/-- over-long cells are refused with an error and nothing else is (given the guard) -/
theorem addRows_ok_iff (sortFn : List Row → List Row) (m runSize : Nat) (rows : List Row) :
    (∃ st, addRows sortFn (some m) runSize { chunks := [], current := [], size := 0 } rows = .ok st) ↔
    ∀ r ∈ rows, ∀ c ∈ r, c.length ≤ m :=
  SorterAux.addRows_some_ok_iff sortFn m runSize rows _

theorem addRows_never_panics (sortFn : List Row → List Row) (maxCell : Option Nat) (runSize : Nat)
    (rows : List Row) (p : String) :
    addRows sortFn maxCell runSize { chunks := [], current := [], size := 0 } rows ≠ .panic p :=
  SorterAux.addRows_ne_panic sortFn maxCell runSize rows _ p

/-- configuration independence: with unique keys the kept rows do not depend on the memory limit
    or on which correct sort is used -/
theorem kept_config_independent (s1 s2 : List Row → List Row) (pk : List Nat)
    (h1 : IsSort pk s1) (h2 : IsSort pk s2) (w : Nat) (m1 m2 : Option Nat) (rs1 rs2 : Nat)
    (rows1 rows2 : List Row) (st1 st2 : SorterSt) (hw : RowsWF w pk rows1)
    (hperm : rows1.Perm rows2)
    (huniq : rows1.Pairwise (fun a b => keyOf pk a ≠ keyOf pk b))
    (ha1 : addRows s1 m1 rs1 { chunks := [], current := [], size := 0 } rows1 = .ok st1)
    (ha2 : addRows s2 m2 rs2 { chunks := [], current := [], size := 0 } rows2 = .ok st2) :
    keptRows s1 pk st1 = keptRows s2 pk st2 := by
  obtain ⟨a1, a2, a3⟩ := kept_facts s1 pk h1 m1 rs1 rows1 st1 ha1
  obtain ⟨b1, b2, b3⟩ := kept_facts s2 pk h2 m2 rs2 rows2 st2 ha2
  have hu := SorterAux.eq_of_pairwise_ne (keyOf pk) rows1 huniq
  apply SorterAux.asc_unique KeyOrder.keyCmp_good (keyOf pk) _ _ a1 b1
  · intro a ha
    exact b3 a (hperm.subset (a2 a ha))
  · intro b hb
    exact a3 b (hperm.symm.subset (b2 b hb))
  · intro a ha b hb e
    exact hu a (a2 a ha) b (hperm.symm.subset (b2 b hb)) e

/-- block cutting: nothing lost, every block but the last is full, the last has 1..bs rows -/
theorem cutBlocks_spec {α : Type} (bs : Nat) (hbs : 0 < bs) (l : List α) :
    (cutBlocks bs (l.length + 1) l).flatten = l ∧
    blockSizesOk bs ((cutBlocks bs (l.length + 1) l).map List.length) = true := by
  obtain ⟨h1, h2, _⟩ := SorterAux.cutBlocks_aux bs hbs (l.length + 1) l (Nat.lt_succ_self _)
  exact ⟨h1, h2⟩

/-- both outputs contain the same rows; blocks carry the key of their first row -/
theorem sortedBlocks_rows_agree (sortFn : List Row → List Row) (bs : Nat) (pk removed : List Nat) (st : SorterSt) :
    (sortedBlocks sortFn bs pk removed st).map (·.rows) = sortedRows sortFn bs pk removed st := by
  simp only [sortedBlocks, sortedRows, List.map_map]
  generalize cutBlocks bs _ _ = blks
  conv => rhs; rw [← List.zipIdx_map_fst 0 blks]
  rw [List.map_map]
  rfl

end Wrgl
