import WrglModel.Model.Encoding
import WrglModel.Model.Chunked
import WrglModel.Lemmas.C17Aux
import WrglModel.Lemmas.C17Chunked
namespace Wrgl

/-! Decoders never panic and never run out of their fuel, on ANY byte string. -/

theorem strListRead_total (b : Bytes) : ∃ r, strListRead b = .ok r ∨ ∃ e, strListRead b = .err e := by
  cases h : strListRead b with
  | ok r => exact ⟨r, Or.inl rfl⟩
  | err e => exact ⟨([], []), Or.inr ⟨e, rfl⟩⟩
  | panic p => exact absurd h (strListRead_no_panic' b p)

theorem strListRead_no_panic (b : Bytes) (p : String) : strListRead b ≠ .panic p :=
  strListRead_no_panic' b p

theorem blockDecode_no_panic (b : Bytes) (p : String) : blockDecode b ≠ .panic p := by
  unfold blockDecode
  split
  · simp
  · exact decodeRows_no_panic _ _ _

theorem uintListRead_no_panic (b : Bytes) (p : String) : uintListRead b ≠ .panic p :=
  uintListRead_no_panic' b p

theorem tableRead_no_panic (b : Bytes) (p : String) : tableRead b ≠ .panic p := by
  intro h
  unfold tableRead at h
  repeat' first | split at h | (dsimp only at h; split at h)
  all_goals first
    | (cases h; done)
    | (rename_i heq
       first
        | exact absurd heq (readLabel_no_panic _ _ _)
        | exact absurd heq (strListRead_no_panic' _ _)
        | exact absurd heq (uintListRead_no_panic' _ _)
        | exact absurd heq (readNewline_no_panic _ _)
        | exact absurd heq (takeSums_no_panic _ _ _))

theorem commitRead_no_panic (b : Bytes) (p : String) : commitRead b ≠ .panic p ∧ commitRead b ≠ .err "fuel" := by
  constructor
  · intro h
    unfold commitRead at h
    repeat' split at h
    all_goals first
      | (cases h; done)
      | (rename_i heq
         first
          | exact absurd heq (readFixedField_no_panic _ _ _ _)
          | exact absurd heq (readStrField_no_panic _ _ _)
          | exact absurd heq (readParents_safe _ _ (by omega) _).1)
  · intro h
    unfold commitRead at h
    repeat' split at h
    all_goals first
      | (cases h; done)
      | (rename_i heq
         injection h with h
         subst h
         first
          | exact absurd heq (readFixedField_no_fuel _ _ _)
          | exact absurd heq (readStrField_no_fuel _ _)
          | exact absurd heq (readParents_safe _ _ (by omega) "").2)

theorem decodeHdr_no_panic (b : Bytes) (p : String) : decodeHdr b ≠ .panic p ∧ decodeHdr b ≠ .err "fuel" := by
  unfold decodeHdr
  split
  · exact ⟨by simp, by simp⟩
  · rename_i b0 rest
    have hs := fun q => decodeHdrTail_safe (rest.length + 1) rest 4 (b0.toNat % 16) (by omega) q
    split
    · simp
    · rename_i e heq
      refine ⟨by simp, ?_⟩
      intro h; injection h with h; subst h
      exact (hs p).2 heq
    · rename_i q heq
      exact absurd heq (hs q).1

theorem packfileFlat_no_panic (b : Bytes) (p : String) : packfileFlat b ≠ .panic p ∧ packfileFlat b ≠ .err "fuel" :=
  packfileC_safe _ _ p

/-! What a decoder returns is never larger than what it consumed: memory proportional to input. -/

def rowBytes (r : Row) : Nat := (r.map List.length).sum

theorem strListRead_size (b : Bytes) (r : Row) (rest : Bytes) (h : strListRead b = .ok (r, rest)) :
    2 * r.length + rowBytes r + rest.length + 4 ≤ b.length + 2 := by
  have := strListRead_size_exact b r rest h
  unfold rowBytes
  omega

/-- the sharp form of `strListRead_size`: the accounting is exact (also in the quirk branch) -/
theorem strListRead_size_eq (b : Bytes) (r : Row) (rest : Bytes) (h : strListRead b = .ok (r, rest)) :
    2 * r.length + rowBytes r + rest.length + 4 = b.length :=
  strListRead_size_exact b r rest h

/-- exact accounting of a block: 4 bytes of row count, then per row 4 bytes of cell count, 2 bytes
    per cell and the cell bytes -/
theorem blockDecode_size_eq (b : Bytes) (rows : List Row) (rest : Bytes) (h : blockDecode b = .ok (rows, rest)) :
    4 + 4 * rows.length + 2 * (rows.map List.length).sum + (rows.map rowBytes).sum + rest.length
      = b.length := by
  unfold blockDecode at h
  split at h
  · cases h
  · rename_i cb rest0 ht
    have h2 := takeN_some ht
    have := decodeRows_size _ _ _ _ h
    have e : (rows.map rowBytes) = rows.map (fun r => (r.map List.length).sum) := rfl
    rw [e]
    omega

theorem blockDecode_size (b : Bytes) (rows : List Row) (rest : Bytes) (h : blockDecode b = .ok (rows, rest)) :
    4 * rows.length + (rows.map rowBytes).sum + rest.length ≤ b.length + 2 * rows.length := by
  have := blockDecode_size_eq b rows rest h
  omega

theorem packfileFlat_size (b : Bytes) (v : Nat) (objs : List (Nat × Bytes)) (h : packfileFlat b = .ok (v, objs)) :
    8 + 2 * objs.length + (objs.map (fun o => o.2.length)).sum ≤ b.length := by
  have := packfileC_size (fun _ => .full) rfl _ v objs h
  simpa [Chunked.content] using this

end Wrgl
