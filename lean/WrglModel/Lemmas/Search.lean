/-
`sort.Search` specification (shared by C04, C11, C12, C20). Core Lean only.
-/
import WrglModel.Model.Basic
namespace Wrgl

/-- invariant-style spec of Go's sort.Search: if `f` is monotone (false…false true…true) on [0,n)
    then the result `r` satisfies: r ≤ n, f is false below r and true from r on. -/
theorem searchLoop_spec (f : Nat → Bool) (n : Nat)
    (mono : ∀ a b, a ≤ b → b < n → f a = true → f b = true) :
    ∀ fuel i j, i ≤ j → j ≤ n → j - i < fuel →
      (∀ k, k < i → f k = false) → (∀ k, j ≤ k → k < n → f k = true) →
      let r := searchLoop f fuel i j
      i ≤ r ∧ r ≤ j ∧ (∀ k, k < r → f k = false) ∧ (∀ k, r ≤ k → k < n → f k = true) := by
  intro fuel
  induction fuel with
  | zero => intro i j _ _ h; omega
  | succ fuel ih =>
    intro i j hij hjn hfuel hlo hhi
    simp only [searchLoop]
    by_cases hlt : i < j
    · simp only [hlt, ↓reduceIte]
      have hh : (i + j) / 2 < j := by omega
      have hh2 : i ≤ (i + j) / 2 := by omega
      by_cases hf : f ((i + j) / 2) = true
      · simp only [hf, Bool.not_true, Bool.false_eq_true, ↓reduceIte]
        have := ih i ((i+j)/2) hh2 (by omega) (by omega) hlo (by
          intro k hk hkn
          exact mono _ _ hk hkn hf)
        obtain ⟨a, b, c, d⟩ := this
        exact ⟨a, by omega, c, d⟩
      · have hf' : f ((i + j) / 2) = false := by simpa using hf
        simp only [hf', Bool.not_false, ↓reduceIte]
        have := ih ((i+j)/2 + 1) j (by omega) hjn (by omega) (by
          intro k hk
          by_cases hk2 : f k = true
          · have := mono k ((i+j)/2) (by omega) (by omega) hk2
            rw [hf'] at this; exact absurd this (by simp)
          · simpa using hk2) hhi
        obtain ⟨a, b, c, d⟩ := this
        exact ⟨by omega, b, c, d⟩
    · simp only [hlt, ↓reduceIte]
      have : i = j := by omega
      subst this
      exact ⟨Nat.le_refl _, Nat.le_refl _, hlo, hhi⟩

theorem search_spec (f : Nat → Bool) (n : Nat)
    (mono : ∀ a b, a ≤ b → b < n → f a = true → f b = true) :
    search n f ≤ n ∧ (∀ k, k < search n f → f k = false) ∧ (∀ k, search n f ≤ k → k < n → f k = true) := by
  have := searchLoop_spec f n mono (n+1) 0 n (Nat.zero_le _) (Nat.le_refl _) (by omega)
    (by intro k hk; omega) (by intro k hk hkn; omega)
  obtain ⟨_, b, c, d⟩ := this
  exact ⟨b, c, d⟩

/-- `sort.Search` never returns more than `n`, monotone or not. -/
theorem searchLoop_le (f : Nat → Bool) : ∀ fuel i j, i ≤ j → searchLoop f fuel i j ≤ j := by
  intro fuel
  induction fuel with
  | zero => intro i j h; simpa [searchLoop] using h
  | succ fuel ih =>
    intro i j hij
    simp only [searchLoop]
    by_cases hlt : i < j
    · simp only [hlt, ↓reduceIte]
      by_cases hf : f ((i + j) / 2) = true
      · simp only [hf, Bool.not_true, Bool.false_eq_true, ↓reduceIte]
        have := ih i ((i+j)/2) (by omega); omega
      · have hf' : f ((i + j) / 2) = false := by simpa using hf
        simp only [hf', Bool.not_false, ↓reduceIte]
        exact ih _ _ (by omega)
    · simp only [hlt, ↓reduceIte]; exact hij

theorem search_le (n : Nat) (f : Nat → Bool) : search n f ≤ n := searchLoop_le f (n+1) 0 n (Nat.zero_le _)

end Wrgl
