import WrglModel.Model.Merge
import WrglModel.Spec.Merge
import WrglModel.Lemmas.C19
import WrglModel.Lemmas.C05Res
import WrglModel.Lemmas.C05Tab
import WrglModel.Lemmas.C05Pipe
namespace Wrgl

/-- a table for the merge: rows of `nCols` cells with pairwise distinct keys -/
def TableOK (nCols : Nat) (pk : List Nat) (t : List Row) : Prop :=
  (∀ r ∈ t, r.length = nCols) ∧ t.Pairwise (fun a b => keyOf pk a ≠ keyOf pk b)

theorem TableOK.width_of_find {nCols : Nat} {pk : List Nat} {t : List Row} (h : TableOK nCols pk t)
    (k : List Bytes) : ∀ r, findByKey pk t k = some r → r.length = nCols :=
  fun r hr => h.1 r (C05Aux.findByKey_some hr).1

/-- the decision chain of `tryResolve` on one column, without added/removed columns, computes the
    three-way rule: with base value `bc` and the branches' cells `xs` (in any order, repeats
    allowed), the column is unresolved iff two different changed values occur, and otherwise its
    value is the changed value if there is one, the base value if there is none -/
theorem cellFold_spec (bc : Option Bytes) (xs : List Bytes) :
    let st := xs.foldl (fun st x => cellStep bc false false x st)
      { add := none, mod := none, rem := false, val := bc.getD [], unresolved := false }
    (st.unresolved = true ↔ (changedVals bc xs).length ≥ 2) ∧
    (st.unresolved = false → st.val = (changedVals bc xs).headD (bc.getD [])) :=
  C05Aux.fold_init bc xs

/-- per key: the implemented resolution (`Resolve` + `tryResolve`, as used by `mergeTables`) is
    the specified three-way rule -/
theorem resolve_meets_mergeKey (nCols : Nat) (b : Option Row) (xs : List (Option Row)) (k : List Bytes)
    (hb : ∀ r, b = some r → r.length = nCols) (hx : ∀ r, some r ∈ xs → r.length = nCols)
    (hne : ¬ (b.isSome = true ∧ xs.all (fun o => o == b) = true)) (hany : b.isSome = true ∨ ∃ r, some r ∈ xs) :
    match resolveRec nCols (fun _ _ => false) (fun _ _ => false) { key := k, base := b, others := xs } with
    | .removed => mergeKey nCols b xs = .absent
    | .resolved row => mergeKey nCols b xs = .row row
    | .conflict _ _ => mergeKey nCols b xs = .conflict := by
  -- the width hypotheses `hb`, `hx` and `hany` are not needed
  have _ := hb; have _ := hx; have _ := hany
  exact C05Aux.resolve_meets nCols b xs k hne

/-- C05 (equal column lists): the pipeline as implemented reports exactly the specified conflicts
    and produces exactly the specified rows -/
theorem merge_model_meets_spec (sortFn : List Row → List Row) (pk : List Nat) (hs : IsSort pk sortFn)
    (nCols : Nat) (base : List Row) (branches : List (List Row))
    (hb : TableOK nCols pk base) (hbr : ∀ t ∈ branches, TableOK nCols pk t) :
    (mergeTablesModel sortFn nCols pk base branches).conflicts.map (·.1) =
      (mergeSpec sortFn nCols pk base branches).conflictKeys ∧
    (mergeTablesModel sortFn nCols pk base branches).rows = (mergeSpec sortFn nCols pk base branches).rows :=
  C05Aux.pipeline_meets sortFn pk hs nCols base branches hb hbr

/-! ### laws of the rule (hence, by the theorem above, of the implementation) -/

/-- merge(base; X, base) = X -/
theorem mergeSpec_identity (sortFn : List Row → List Row) (pk : List Nat) (hs : IsSort pk sortFn)
    (nCols : Nat) (base x : List Row) (hb : TableOK nCols pk base) (hx : TableOK nCols pk x) :
    (mergeSpec sortFn nCols pk base [x, base]).conflictKeys = [] ∧
    (mergeSpec sortFn nCols pk base [x, base]).rows.Perm x ∧
    (mergeSpec sortFn nCols pk base [base, x]).conflictKeys = [] ∧
    (mergeSpec sortFn nCols pk base [base, x]).rows.Perm x := by
  have h1 := C05Aux.spec_follow sortFn pk hs nCols base [x, base] x hx.2 (by simp) (by
    intro k _
    apply C05Aux.mergeKey_follow nCols _ _ _ (hb.width_of_find k) (hx.width_of_find k)
    · intro o ho
      simp only [List.map_cons, List.map_nil, List.mem_cons, List.not_mem_nil, or_false] at ho
      rcases ho with e | e
      · exact Or.inr e
      · exact Or.inl e
    · simp)
  have h2 := C05Aux.spec_follow sortFn pk hs nCols base [base, x] x hx.2 (by simp) (by
    intro k _
    apply C05Aux.mergeKey_follow nCols _ _ _ (hb.width_of_find k) (hx.width_of_find k)
    · intro o ho
      simp only [List.map_cons, List.map_nil, List.mem_cons, List.not_mem_nil, or_false] at ho
      rcases ho with e | e
      · exact Or.inl e
      · exact Or.inr e
    · simp)
  exact ⟨h1.1, h1.2, h2.1, h2.2⟩

/-- merge(base; X, X) = X -/
theorem mergeSpec_idempotent (sortFn : List Row → List Row) (pk : List Nat) (hs : IsSort pk sortFn)
    (nCols : Nat) (base x : List Row) (hb : TableOK nCols pk base) (hx : TableOK nCols pk x) :
    (mergeSpec sortFn nCols pk base [x, x]).conflictKeys = [] ∧
    (mergeSpec sortFn nCols pk base [x, x]).rows.Perm x := by
  apply C05Aux.spec_follow sortFn pk hs nCols base [x, x] x hx.2 (by simp)
  intro k _
  apply C05Aux.mergeKey_follow nCols _ _ _ (hb.width_of_find k) (hx.width_of_find k)
  · intro o ho
    simp only [List.map_cons, List.map_nil, List.mem_cons, List.not_mem_nil, or_false] at ho
    rcases ho with e | e <;> exact Or.inr e
  · simp

/-- the outcome for a key does not depend on the order in which branches are listed -/
theorem mergeKey_perm (nCols : Nat) (b : Option Row) (xs ys : List (Option Row)) (h : xs.Perm ys) :
    mergeKey nCols b xs = mergeKey nCols b ys :=
  C05Aux.mergeKey_congr nCols b xs ys (fun _ => h.mem_iff)

/-- different edits of one cell, or a removal against a modification, are conflicts — never a
    silent pick -/
theorem mergeKey_conflict_reported (nCols : Nat) (br x y : Row) (i : Nat)
    (hl : br.length = nCols ∧ x.length = nCols ∧ y.length = nCols) (hi : i < nCols)
    (hx : x[i]? ≠ br[i]?) (hy : y[i]? ≠ br[i]?) (hxy : x[i]? ≠ y[i]?) :
    mergeKey nCols (some br) [some x, some y] = .conflict ∧
    mergeKey nCols (some br) [none, some x] = .conflict := by
  have hxb : x ≠ br := fun e => hx (by rw [e])
  have hxi : x[i]?.getD [] ≠ br[i]?.getD [] := by
    rw [List.getElem?_eq_getElem (by omega), List.getElem?_eq_getElem (by omega)] at hx ⊢
    simpa using hx
  have hyi : y[i]?.getD [] ≠ br[i]?.getD [] := by
    rw [List.getElem?_eq_getElem (by omega), List.getElem?_eq_getElem (by omega)] at hy ⊢
    simpa using hy
  have hxyi : x[i]?.getD [] ≠ y[i]?.getD [] := by
    rw [List.getElem?_eq_getElem (by omega), List.getElem?_eq_getElem (by omega)] at hxy ⊢
    simpa using hxy
  refine ⟨?_, ?_⟩
  · rw [C05Aux.mergeKey_some]
    have h1 : ([some x, some y].filterMap id).all (fun r => r == br) = false := by
      simp [hxb]
    have h2 : [some x, some y].any Option.isNone = false := by simp
    have h3 : (List.range nCols).all (fun i =>
        decide ((changedVals (some ((br[i]?).getD [])) (C05Aux.cellsAt i ([some x, some y].filterMap id))).length ≤ 1))
        = false := by
      rw [Bool.eq_false_iff]
      intro hall
      have := List.all_eq_true.1 hall i (List.mem_range.2 hi)
      rw [decide_eq_true_iff] at this
      unfold changedVals at this
      rw [C05Aux.eraseDups_length_le_one] at this
      apply hxyi
      apply this
      · simp [C05Aux.cellsAt, hxi]
      · simp [C05Aux.cellsAt, hyi]
    rw [h1, h2, h3]
    simp
  · rw [C05Aux.mergeKey_some]
    have h1 : ([none, some x].filterMap id).all (fun r => r == br) = false := by
      simp [hxb]
    have h2 : [none, some x].any Option.isNone = true := by simp
    rw [h1, h2]
    simp

/-- a key that only one branch changed (the others left the base row alone) takes that branch's row -/
theorem mergeKey_single_change (nCols : Nat) (br x : Row) (hl : br.length = nCols ∧ x.length = nCols)
    (n m : Nat) :
    mergeKey nCols (some br) (List.replicate n (some br) ++ [some x] ++ List.replicate m (some br)) = .row x := by
  apply C05Aux.mergeKey_two_valued nCols br x hl.1 hl.2
  · intro o ho
    simp only [List.mem_append, List.mem_replicate, List.mem_singleton] at ho
    rcases ho with (⟨_, e⟩ | e) | ⟨_, e⟩
    · exact Or.inl e
    · exact Or.inr e
    · exact Or.inl e
  · simp

end Wrgl
