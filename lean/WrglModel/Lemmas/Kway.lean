/-
k-way merge "first minimal head wins" = sorted permutation (lifted from DESIGN.md Appendix B.2).
-/
import WrglModel.Model.Sorter
namespace Wrgl.Kway
variable {α : Type}

/-- `le a b := !lt b a` ; we assume lt is a strict weak order presented through le -/
structure Order (lt : α → α → Bool) : Prop where
  trans_le : ∀ a b c, lt b a = false → lt c b = false → lt c a = false   -- a ≤ b → b ≤ c → a ≤ c
  total_le : ∀ a b, lt a b = false ∨ lt b a = false                      -- b ≤ a ∨ a ≤ b

def Sorted (lt : α → α → Bool) (l : List α) : Prop := l.Pairwise (fun a b => lt b a = false)

theorem minHead_none (lt : α → α → Bool) (cs : List (List α)) :
    minHead lt cs = none ↔ ∀ c ∈ cs, c = [] := by
  induction cs with
  | nil => simp [minHead]
  | cons c cs ih =>
    cases c with
    | nil => simp [minHead, ih]
    | cons x xs =>
      simp only [minHead]
      cases h : minHead lt cs with
      | none => simp
      | some p =>
        obtain ⟨j, m⟩ := p
        simp only
        split <;> simp

/-- the chosen head is the head of chunk i, and is ≤ every head -/
theorem minHead_spec (lt : α → α → Bool) (ho : Order lt) (cs : List (List α)) (i : Nat) (x : α)
    (h : minHead lt cs = some (i, x)) :
    (∃ c, cs[i]? = some c ∧ c.head? = some x) ∧
    (∀ c ∈ cs, ∀ y, c.head? = some y → lt y x = false) := by
  induction cs generalizing i x with
  | nil => simp [minHead] at h
  | cons c cs ih =>
    cases c with
    | nil =>
      simp only [minHead] at h
      cases hm : minHead lt cs with
      | none => simp [hm] at h
      | some p =>
        obtain ⟨j, m⟩ := p
        simp [hm] at h
        obtain ⟨rfl, rfl⟩ := h
        have := ih j m hm
        refine ⟨?_, ?_⟩
        · simpa using this.1
        · intro c hc y hy
          simp at hc
          rcases hc with rfl | hc
          · simp at hy
          · exact this.2 c hc y hy
    | cons a as =>
      simp only [minHead] at h
      cases hm : minHead lt cs with
      | none =>
        simp [hm] at h
        obtain ⟨rfl, rfl⟩ := h
        have hall := (minHead_none lt cs).1 hm
        refine ⟨⟨a :: as, by simp, by simp⟩, ?_⟩
        intro c hc y hy
        simp at hc
        rcases hc with rfl | hc
        · simp at hy; subst hy
          rcases ho.total_le a a with h | h <;> exact h
        · have := hall c hc; subst this; simp at hy
      | some p =>
        obtain ⟨j, m⟩ := p
        simp only [hm] at h
        have ihm := ih j m hm
        by_cases hlt : lt m a = true
        · simp [hlt] at h
          obtain ⟨rfl, rfl⟩ := h
          refine ⟨by simpa using ihm.1, ?_⟩
          intro c hc y hy
          simp at hc
          rcases hc with rfl | hc
          · simp at hy; subst hy
            -- m < a  ⇒  ¬ (a < m)
            rcases ho.total_le a m with h1 | h1
            · exact h1
            · rw [hlt] at h1; exact absurd h1 (by simp)
          · exact ihm.2 c hc y hy
        · have hlt' : lt m a = false := by simpa using hlt
          simp [hlt'] at h
          obtain ⟨rfl, rfl⟩ := h
          refine ⟨⟨a :: as, by simp, by simp⟩, ?_⟩
          intro c hc y hy
          simp at hc
          rcases hc with rfl | hc
          · simp at hy; subst hy
            rcases ho.total_le a a with h | h <;> exact h
          · -- a ≤ m (since ¬ m < a) and m ≤ y
            have hmy := ihm.2 c hc y hy      -- lt y m = false  : m ≤ y
            exact ho.trans_le a m y hlt' hmy

theorem le_refl' {lt : α → α → Bool} (ho : Order lt) (a : α) : lt a a = false := by
  rcases ho.total_le a a with h | h <;> exact h

theorem popAt_perm (cs : List (List α)) (i : Nat) (x : α) (t : List α)
    (h : cs[i]? = some (x :: t)) : cs.flatten.Perm (x :: (popAt cs i).flatten) := by
  induction cs generalizing i with
  | nil => simp at h
  | cons c cs ih =>
    cases i with
    | zero =>
      simp at h; subst h
      simp [popAt]
    | succ i =>
      simp at h
      have := ih i h
      simp only [popAt, List.flatten_cons]
      exact (List.Perm.append_left c this).trans (List.perm_middle)

theorem popAt_sorted (lt : α → α → Bool) (cs : List (List α)) (i : Nat)
    (hs : ∀ c ∈ cs, Sorted lt c) : ∀ c ∈ popAt cs i, Sorted lt c := by
  induction cs generalizing i with
  | nil => simp [popAt]
  | cons c cs ih =>
    cases i with
    | zero =>
      intro d hd
      simp [popAt] at hd
      rcases hd with rfl | hd
      · have := hs c (by simp)
        unfold Sorted at *
        cases c with
        | nil => simp
        | cons a as => simpa using (List.pairwise_cons.1 this).2
      · exact hs d (by simp [hd])
    | succ i =>
      intro d hd
      simp [popAt] at hd
      rcases hd with rfl | hd
      · exact hs _ (by simp)
      · exact ih i (fun c hc => hs c (by simp [hc])) d hd

theorem popAt_total (cs : List (List α)) (i : Nat) (x : α) (t : List α)
    (h : cs[i]? = some (x :: t)) : totalLen (popAt cs i) + 1 = totalLen cs := by
  induction cs generalizing i with
  | nil => simp at h
  | cons c cs ih =>
    cases i with
    | zero => simp at h; subst h; simp [popAt, totalLen]; omega
    | succ i =>
      simp at h
      have := ih i h
      simp [popAt, totalLen] at *
      omega

/-- the chosen minimum is ≤ every element of every chunk -/
theorem min_le_all (lt : α → α → Bool) (ho : Order lt) (cs : List (List α))
    (hs : ∀ c ∈ cs, Sorted lt c) (x : α)
    (hmin : ∀ c ∈ cs, ∀ y, c.head? = some y → lt y x = false) :
    ∀ y ∈ cs.flatten, lt y x = false := by
  intro y hy
  simp only [List.mem_flatten] at hy
  obtain ⟨c, hc, hyc⟩ := hy
  cases c with
  | nil => simp at hyc
  | cons a as =>
    have hax := hmin _ hc a (by simp)
    simp at hyc
    rcases hyc with rfl | hyc
    · exact hax
    · have hsc := hs _ hc
      unfold Sorted at hsc
      have hay := (List.pairwise_cons.1 hsc).1 y hyc   -- lt y a = false : a ≤ y
      exact ho.trans_le x a y hax hay

theorem kway_spec (lt : α → α → Bool) (ho : Order lt) :
    ∀ fuel (cs : List (List α)), (∀ c ∈ cs, Sorted lt c) → totalLen cs ≤ fuel →
      (kway lt fuel cs).Perm cs.flatten ∧ Sorted lt (kway lt fuel cs) := by
  intro fuel
  induction fuel with
  | zero =>
    intro cs _ ht
    have : cs.flatten = [] := by
      have : cs.flatten.length = 0 := by
        simp [totalLen, List.length_flatten] at *; exact ht
      exact List.length_eq_zero_iff.mp this
    simp [kway, this, Sorted]
  | succ f ih =>
    intro cs hs ht
    simp only [kway]
    cases hm : minHead lt cs with
    | none =>
      have hall := (minHead_none lt cs).1 hm
      have : cs.flatten = [] := by
        apply List.eq_nil_iff_forall_not_mem.2
        intro y hy
        simp only [List.mem_flatten] at hy
        obtain ⟨c, hc, hyc⟩ := hy
        rw [hall c hc] at hyc; simp at hyc
      simp [this, Sorted]
    | some p =>
      obtain ⟨i, x⟩ := p
      obtain ⟨⟨c, hci, hcx⟩, hmin⟩ := minHead_spec lt ho cs i x hm
      cases c with
      | nil => simp at hcx
      | cons a t =>
        simp at hcx; subst hcx
        have hperm := popAt_perm cs i a t hci
        have htot := popAt_total cs i a t hci
        have hrec := ih (popAt cs i) (popAt_sorted lt cs i hs) (by omega)
        refine ⟨?_, ?_⟩
        · exact (List.Perm.cons a hrec.1).trans hperm.symm
        · unfold Sorted
          rw [List.pairwise_cons]
          refine ⟨?_, hrec.2⟩
          intro y hy
          have hy' : y ∈ (popAt cs i).flatten := hrec.1.subset hy
          have hy'' : y ∈ cs.flatten := hperm.symm.subset (List.mem_cons_of_mem a hy')
          exact min_le_all lt ho cs hs a hmin y hy''

end Wrgl.Kway
