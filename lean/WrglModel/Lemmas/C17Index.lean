import WrglModel.Model.IndexTable
namespace Wrgl

theorem indexTable_go_no_panic (cols : Row) (pk : List Nat) (hpk : pk.any (fun i => decide (i ≥ cols.length)) = false) :
    ∀ (blocks : List (List Row)) (acc : List (List Bytes)) (p : String),
      indexTable.go true cols pk blocks acc ≠ .panic p := by
  intro blocks
  induction blocks with
  | nil => intro acc p; simp [indexTable.go]
  | cons blk rest ih =>
    intro acc p
    cases blk with
    | nil => simp [indexTable.go]
    | cons first more =>
      simp only [indexTable.go]
      by_cases hw : ((first :: more).any (fun r => r.length != cols.length)) = true
      · simp [hw]
      · have hw' : ((first :: more).any (fun r => r.length != cols.length)) = false := by simpa using hw
        have hnp : ((first :: more).any (fun r => pk.any (fun i => decide (i ≥ r.length)))) = false := by
          rw [List.any_eq_false] at hw' ⊢
          intro r hr
          have hlen : r.length = cols.length := by
            have := hw' r hr
            simpa using this
          rw [hlen]
          simp [hpk]
        simp only [Bool.true_and, hw', hnp]
        exact ih _ p

/-- With the checks in place `IndexTable` never indexes a row out of range, whatever the table
    object claims about its key and columns and whatever the blocks contain. -/
theorem indexTable_no_panic (cols : Row) (pk : List Nat) (blocks : List (List Row)) (p : String) :
    indexTable true cols pk blocks ≠ .panic p := by
  unfold indexTable
  by_cases h : pk.any (fun i => decide (i ≥ cols.length)) = true
  · simp [h]
  · have h' : pk.any (fun i => decide (i ≥ cols.length)) = false := by simpa using h
    simp only [Bool.true_and, h']
    exact indexTable_go_no_panic cols pk h' blocks [] p

/-- Without them a key position beyond the row width panics (the defect that was repaired). -/
theorem indexTable_unchecked_panics :
    indexTable false [[97]] [3] [[[[48]]]] = .panic "index out of range" := by decide

end Wrgl
