/-
C04 building blocks: `cmpKeyComp` agrees with `keyCmp`, and the specification of `BIdx.get`.
Core Lean only.
-/
import WrglModel.Model.Diff
import WrglModel.Lemmas.Search
import WrglModel.Lemmas.Order
namespace Wrgl

theorem cmpKeyComp_eq_keyCmp : ∀ (v s : List Bytes), v.length = s.length →
    cmpKeyComp v s = .ok (keyCmp v s)
  | [], [], _ => rfl
  | [], _ :: _, h => by simp at h
  | _ :: _, [], h => by simp at h
  | a :: as, b :: bs, h => by
    have ih := cmpKeyComp_eq_keyCmp as bs (by simpa using h)
    simp only [cmpKeyComp, keyCmp]
    cases hab : bytesCmp a b <;> simp [ih]

/-- hypotheses on a block index: `sortedOff` is a permutation of the row numbers along which the
    key hash is non-decreasing -/
structure BIdx.Sorted (idx : BIdx) : Prop where
  perm : idx.sortedOff.Perm (List.range idx.rows.length)
  mono : ∀ (i j : Nat) (a b : Bytes × Bytes), i < j →
    (idx.sortedOff[i]?).bind (idx.rows[·]?) = some a → (idx.sortedOff[j]?).bind (idx.rows[·]?) = some b →
    bytesCmp a.1 b.1 ≠ .gt

namespace BIdx.Sorted
variable {idx : BIdx} (h : idx.Sorted)
include h

theorem length_eq : idx.sortedOff.length = idx.rows.length := by
  have := h.perm.length_eq
  simpa using this

theorem so_lt {i j : Nat} (hi : idx.sortedOff[i]? = some j) : j < idx.rows.length := by
  have hm : j ∈ idx.sortedOff := List.mem_of_getElem? hi
  have := (h.perm.mem_iff).mp hm
  simpa using this

theorem so_some {i : Nat} (hi : i < idx.rows.length) : ∃ j, idx.sortedOff[i]? = some j ∧ j < idx.rows.length := by
  have hl : i < idx.sortedOff.length := by rw [h.length_eq]; exact hi
  refine ⟨idx.sortedOff[i], List.getElem?_eq_getElem hl, ?_⟩
  exact h.so_lt (List.getElem?_eq_getElem hl)

theorem so_surj {j : Nat} (hj : j < idx.rows.length) : ∃ i, i < idx.rows.length ∧ idx.sortedOff[i]? = some j := by
  have hm : j ∈ idx.sortedOff := (h.perm.mem_iff).mpr (by simpa using hj)
  obtain ⟨i, hi, he⟩ := List.getElem_of_mem hm
  refine ⟨i, by rw [← h.length_eq]; exact hi, ?_⟩
  rw [List.getElem?_eq_getElem hi, he]

end BIdx.Sorted

/-- the `ok` check of the model never fires on a sound block index -/
theorem BIdx.get_okcheck {idx : BIdx} (h : idx.Sorted) :
    ((List.range idx.rows.length).all (fun i => match idx.sortedOff[i]? with
      | some j => decide (j < idx.rows.length)
      | none => false)) = true := by
  rw [List.all_eq_true]
  intro i hi
  have hi' : i < idx.rows.length := by simpa using hi
  obtain ⟨j, hj, hjl⟩ := h.so_some hi'
  simp [hj, hjl]

/-- the bisection predicate of `BlockIndex.Get` -/
def BIdx.getPred (idx : BIdx) (pk : Bytes) : Nat → Bool := fun i =>
  match idx.sortedOff[i]? with
  | some j => match idx.rows[j]? with
    | some (p, _) => bytesCmp p pk != .lt
    | none => true
  | none => true

theorem BIdx.Sorted.row_some {idx : BIdx} (h : idx.Sorted) {i : Nat} (hi : i < idx.rows.length) :
    ∃ (j : Nat) (p s : Bytes), idx.sortedOff[i]? = some j ∧ idx.rows[j]? = some (p, s) := by
  obtain ⟨j, hj, hjl⟩ := h.so_some hi
  obtain ⟨⟨p, s⟩, hr⟩ : ∃ x, idx.rows[j]? = some x := ⟨_, List.getElem?_eq_getElem hjl⟩
  exact ⟨j, p, s, hj, hr⟩

theorem BIdx.getPred_mono {idx : BIdx} (h : idx.Sorted) (pk : Bytes) :
    ∀ a b, a ≤ b → b < idx.rows.length → idx.getPred pk a = true → idx.getPred pk b = true := by
  intro a b hab hb hfa
  by_cases hEq : a = b
  · subst hEq; exact hfa
  have hlt : a < b := by omega
  obtain ⟨ja, pa, sa, hja, hra⟩ := h.row_some (by omega : a < idx.rows.length)
  obtain ⟨jb, pb, sb, hjb, hrb⟩ := h.row_some hb
  have hm := h.mono a b (pa, sa) (pb, sb) hlt (by simp [hja, hra]) (by simp [hjb, hrb])
  simp only [BIdx.getPred, hja, hra, bne_iff_ne, ne_eq] at hfa
  simp only [BIdx.getPred, hjb, hrb, bne_iff_ne, ne_eq]
  intro hc
  exact hfa (bytesCmp_le_lt_trans hm hc)

/-- Specification of `BlockIndex.Get` on a sound block index: it never panics; it answers `none`
    only when no row has the key hash, and otherwise returns a row that has it. -/
theorem BIdx.get_spec {idx : BIdx} (h : idx.Sorted) (pk : Bytes) :
    (idx.get pk = .ok none ∧ ∀ (j : Nat) (s : Bytes), idx.rows[j]? ≠ some (pk, s)) ∨
    (∃ (j : Nat) (s : Bytes), idx.get pk = .ok (some (j, s)) ∧ idx.rows[j]? = some (pk, s)) := by
  have hsp := search_spec (idx.getPred pk) idx.rows.length (BIdx.getPred_mono h pk)
  obtain ⟨_, hlo, hhi⟩ := hsp
  have hget : idx.get pk =
      (if search idx.rows.length (idx.getPred pk) ≥ idx.rows.length then .ok none
       else match idx.sortedOff[search idx.rows.length (idx.getPred pk)]? with
        | some j => match idx.rows[j]? with
          | some (p, s) => if p == pk then .ok (some (j, s)) else .ok none
          | none => .panic "blockindex-get-index"
        | none => .panic "blockindex-get-index") := by
    unfold BIdx.get
    simp only []
    split
    · rename_i hc
      rw [Bool.not_eq_true'] at hc
      have := (BIdx.get_okcheck h).symm.trans hc
      cases this
    · rfl
  -- a row with hash `pk` forces the search to land on a row with hash `pk`
  have key : ∀ (j : Nat) (s : Bytes), idx.rows[j]? = some (pk, s) →
      ∃ i, i = search idx.rows.length (idx.getPred pk) ∧ i < idx.rows.length ∧
        ∃ (j' : Nat) (s' : Bytes), idx.sortedOff[i]? = some j' ∧ idx.rows[j']? = some (pk, s') := by
    intro j s hj
    have hjl : j < idx.rows.length := (List.getElem?_eq_some_iff.mp hj).1
    obtain ⟨i0, hi0, hso0⟩ := h.so_surj hjl
    have hf0 : idx.getPred pk i0 = true := by
      simp [BIdx.getPred, hso0, hj, bytesCmp_refl]
    have hle : search idx.rows.length (idx.getPred pk) ≤ i0 := by
      by_cases hc : search idx.rows.length (idx.getPred pk) ≤ i0
      · exact hc
      · have := hlo i0 (by omega)
        rw [hf0] at this; cases this
    refine ⟨_, rfl, by omega, ?_⟩
    generalize hi : search idx.rows.length (idx.getPred pk) = i at *
    have hil : i < idx.rows.length := by omega
    obtain ⟨j', p', s', hj', hr'⟩ := h.row_some hil
    refine ⟨j', s', hj', ?_⟩
    rw [hr']
    have hfi := hhi i (Nat.le_refl _) hil
    simp only [BIdx.getPred, hj', hr', bne_iff_ne, ne_eq] at hfi
    by_cases hii : i = i0
    · subst hii
      rw [hso0] at hj'
      cases hj'
      rw [hj] at hr'
      injection hr' with hr'
      injection hr' with e1 e2
      rw [e1]
    · have hm := h.mono i i0 (p', s') (pk, s) (by omega) (by simp [hj', hr']) (by simp [hso0, hj])
      have : p' = pk := bytesCmp_antisymm hfi hm
      rw [this]
  rw [hget]
  by_cases hge : search idx.rows.length (idx.getPred pk) ≥ idx.rows.length
  · left
    simp only [hge, ↓reduceIte, true_and]
    intro j s hj
    obtain ⟨i, hi, hil, _⟩ := key j s hj
    omega
  · simp only [hge, ↓reduceIte]
    have hil : search idx.rows.length (idx.getPred pk) < idx.rows.length := by omega
    obtain ⟨j', p', s', hj', hr'⟩ := h.row_some hil
    simp only [hj', hr']
    by_cases hpe : p' = pk
    · right
      refine ⟨j', s', by simp [hpe], by rw [hr', hpe]⟩
    · left
      refine ⟨by simp [hpe], ?_⟩
      intro j s hj
      obtain ⟨i, hi, _, j'', s'', hso'', hr''⟩ := key j s hj
      subst hi
      rw [hj'] at hso''
      cases hso''
      rw [hr'] at hr''
      injection hr'' with hr''
      injection hr'' with e1 e2
      exact hpe e1

end Wrgl
