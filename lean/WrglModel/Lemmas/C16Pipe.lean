import WrglModel.Model.Pipe
namespace Wrgl

/-! ### a pipeline that has come to rest stays at rest -/

theorem allLeft_get {p : Pipe} (h : p.allLeft = true) {w : Nat} {st : PwSt} (hw : p.ws[w]? = some st) :
    st.terminal = true := by
  have hmem : st ∈ p.ws := List.mem_of_getElem? hw
  unfold Pipe.allLeft at h
  rw [List.all_eq_true] at h
  exact h st hmem

theorem quiescent_step (f : Option Nat) (p : Pipe) (a : Nat) (h : p.quiescent = true) :
    p.step f a = p := by
  unfold Pipe.quiescent at h
  simp only [Bool.and_eq_true, beq_iff_eq] at h
  obtain ⟨hl, hc⟩ := h
  unfold Pipe.step
  by_cases ha : a < p.ws.length
  · simp only [ha, if_true]
    unfold Pipe.stepWorker
    cases hw : p.ws[a]? with
    | none => rfl
    | some st =>
      have ht := allLeft_get hl hw
      cases st with
      | idle => simp [PwSt.terminal] at ht
      | saving b => simp [PwSt.terminal] at ht
      | failed => rfl
      | done => rfl
  · simp only [ha, if_false]
    by_cases hb : a = p.ws.length
    · simp only [hb, if_true]
      unfold Pipe.stepProd
      rw [hc]
    · simp only [hb, if_false]

theorem quiescent_run (f : Option Nat) (s : List Nat) : ∀ (p : Pipe), p.quiescent = true → p.run f s = p := by
  induction s with
  | nil => intro p _; rfl
  | cons a t ih =>
    intro p h
    show (p.step f a).run f t = p
    rw [quiescent_step f p a h]
    exact ih p h

/-! ### a worker only leaves through the closed and drained channel after the producer has returned -/

/-- once some worker has seen the channel closed, the producer has returned and the channel is empty -/
def DoneInv (p : Pipe) : Prop := (∃ st ∈ p.ws, st = PwSt.done) → p.prod = .closed ∧ p.chan = []

theorem doneInv_init (n bs cap nw : Nat) : DoneInv (Pipe.init n bs cap nw) := by
  intro ⟨st, hmem, hst⟩
  simp [Pipe.init] at hmem
  rw [hmem.2] at hst
  cases hst

theorem stepProd_closed (p : Pipe) (h : p.prod = .closed) : p.stepProd = p := by
  unfold Pipe.stepProd; rw [h]

theorem stepProd_ws (p : Pipe) : p.stepProd.ws = p.ws := by
  unfold Pipe.stepProd
  cases p.prod with
  | building =>
    simp only
    split
    · rfl
    · split
      · rfl
      · split <;> rfl
  | parked b => simp only; split <;> rfl
  | closed => rfl

theorem doneInv_stepProd (p : Pipe) (h : DoneInv p) : DoneInv p.stepProd := by
  intro hd
  rw [stepProd_ws] at hd
  obtain ⟨hc, hch⟩ := h hd
  rw [stepProd_closed p hc]
  exact ⟨hc, hch⟩

theorem doneInv_stepWorker (f : Option Nat) (p : Pipe) (w : Nat) (h : DoneInv p) :
    DoneInv (p.stepWorker f w) := by
  unfold Pipe.stepWorker
  cases hw : p.ws[w]? with
  | none => exact h
  | some st =>
    -- a state other than `done` written into the list: an earlier `done` is still there
    have other : ∀ (x : PwSt), x ≠ .done → (∃ s ∈ p.ws.set w x, s = PwSt.done) → ∃ s ∈ p.ws, s = PwSt.done := by
      intro x hx ⟨s, hs, hsd⟩
      rcases List.mem_or_eq_of_mem_set hs with h1 | h1
      · exact ⟨s, h1, hsd⟩
      · rw [h1] at hsd; exact absurd hsd hx
    cases st with
    | idle =>
      simp only
      cases hch : p.chan with
      | nil =>
        simp only
        by_cases hc : p.prod = .closed
        · rw [if_pos hc]
          intro _
          exact ⟨by simpa using hc, by simp⟩
        · rw [if_neg hc]
          exact h
      | cons b rest =>
        simp only
        intro hd
        have hd' := other (.saving b) (by intro hh; cases hh) hd
        have := (h hd').2
        rw [hch] at this
        cases this
    | saving b =>
      simp only
      by_cases hf : f = some p.saves
      · simp only [hf, if_true]
        intro hd
        exact h (other .failed (by intro hh; cases hh) hd)
      · simp only [hf, if_false]
        intro hd
        exact h (other .idle (by intro hh; cases hh) hd)
    | failed => exact h
    | done => exact h

theorem doneInv_step (f : Option Nat) (p : Pipe) (a : Nat) (h : DoneInv p) : DoneInv (p.step f a) := by
  unfold Pipe.step
  by_cases ha : a < p.ws.length
  · simp only [ha, if_true]; exact doneInv_stepWorker f p a h
  · simp only [ha, if_false]
    by_cases hb : a = p.ws.length
    · simp only [hb, if_true]; exact doneInv_stepProd p h
    · simp only [hb, if_false]; exact h

theorem doneInv_run (f : Option Nat) (s : List Nat) : ∀ (p : Pipe), DoneInv p → DoneInv (p.run f s) := by
  induction s with
  | nil => intro p h; exact h
  | cons a t ih => intro p h; exact ih (p.step f a) (doneInv_step f p a h)

theorem anyDone_mem {p : Pipe} (h : p.anyDone = true) : ∃ st ∈ p.ws, st = PwSt.done := by
  unfold Pipe.anyDone at h
  rw [List.any_eq_true] at h
  obtain ⟨st, hm, hb⟩ := h
  exact ⟨st, hm, by simpa using hb⟩

/-- The coordinator that waits for every worker (`wg.Wait()`): if at least one of the workers left
    because it saw the channel closed - which is what every worker that does not fail does - then
    the whole pipeline is at rest when the call returns. -/
theorem pipe_rest_at_return (n bs cap nw : Nat) (f : Option Nat) (s : List Nat)
    (hl : ((Pipe.init n bs cap nw).run f s).allLeft = true)
    (hd : ((Pipe.init n bs cap nw).run f s).anyDone = true) :
    ((Pipe.init n bs cap nw).run f s).quiescent = true := by
  have hinv := doneInv_run f s _ (doneInv_init n bs cap nw)
  have hc := (hinv (anyDone_mem hd)).1
  unfold Pipe.quiescent
  simp [hl, hc]

/-! ### no row is lost on the way (no fault) -/

def heldW (ws : List PwSt) : Nat := (ws.map PwSt.held).sum

theorem heldW_set : ∀ (l : List PwSt) (w : Nat) (st x : PwSt), l[w]? = some st →
    heldW (l.set w x) + st.held = heldW l + x.held := by
  intro l
  induction l with
  | nil => intro w st x h; simp at h
  | cons a t ih =>
    intro w st x h
    cases w with
    | zero =>
      simp at h
      subst h
      simp only [List.set_cons_zero, heldW, List.map_cons, List.sum_cons]
      omega
    | succ w =>
      simp at h
      have := ih w st x h
      simp only [heldW] at this
      simp only [List.set_cons_succ, heldW, List.map_cons, List.sum_cons]
      omega

/-- what is where: counted, in the channel, in a worker's hands, in the blocked send, still in the sorter -/
def Pipe.mass (p : Pipe) : Nat := p.rows + p.chan.sum + heldW p.ws + p.prod.held + p.src

structure FlowInv (n nw : Nat) (p : Pipe) : Prop where
  len : p.ws.length = nw
  mass : p.mass = n
  live : p.cancelled = false
  drained : p.prod = .closed → p.src = 0
  nofail : ∀ st ∈ p.ws, st ≠ PwSt.failed

theorem flowInv_init (n bs cap nw : Nat) : FlowInv n nw (Pipe.init n bs cap nw) := by
  have h0 : heldW (List.replicate nw PwSt.idle) = 0 := by
    induction nw with
    | zero => rfl
    | succ k _ => simp [heldW, List.replicate_succ, PwSt.held]
  refine ⟨by simp [Pipe.init], ?_, rfl, ?_, ?_⟩
  · simp [Pipe.mass, Pipe.init, h0, PrSt.held]
  · intro h; simp [Pipe.init] at h
  · intro st hst
    simp [Pipe.init] at hst
    rw [hst.2]; intro hh; cases hh

theorem flowInv_stepProd (n nw : Nat) (p : Pipe) (h : FlowInv n nw p) : FlowInv n nw p.stepProd := by
  obtain ⟨hlen, hm, hl, hd, hn⟩ := h
  have hncan : ¬ (p.cancelled = true) := by rw [hl]; exact Bool.false_ne_true
  unfold Pipe.stepProd
  cases hp : p.prod with
  | building =>
    have hm' : p.rows + p.chan.sum + heldW p.ws + p.src = n := by
      simp only [Pipe.mass, hp, PrSt.held] at hm; omega
    simp only
    by_cases h0 : p.src = 0
    · rw [if_pos h0]
      refine ⟨hlen, ?_, hl, fun _ => h0, hn⟩
      simp only [Pipe.mass, PrSt.held]; omega
    · rw [if_neg h0, if_neg hncan]
      have hk : min p.blkRows p.src ≤ p.src := Nat.min_le_right _ _
      by_cases hroom : p.chan.length < p.cap
      · rw [if_pos hroom]
        refine ⟨hlen, ?_, hl, ?_, hn⟩
        · simp only [Pipe.mass, PrSt.held, List.sum_append, List.sum_cons, List.sum_nil]
          omega
        · intro hc; cases hc
      · rw [if_neg hroom]
        refine ⟨hlen, ?_, hl, ?_, hn⟩
        · simp only [Pipe.mass, PrSt.held]
          omega
        · intro hc; cases hc
  | parked b =>
    have hm' : p.rows + p.chan.sum + heldW p.ws + b + p.src = n := by
      simp only [Pipe.mass, hp, PrSt.held] at hm; omega
    simp only
    by_cases hroom : p.chan.length < p.cap
    · rw [if_pos hroom]
      refine ⟨hlen, ?_, hl, ?_, hn⟩
      · simp only [Pipe.mass, PrSt.held, List.sum_append, List.sum_cons, List.sum_nil]
        omega
      · intro hc; cases hc
    · rw [if_neg hroom]
      exact ⟨hlen, hm, hl, hd, hn⟩
  | closed => exact ⟨hlen, hm, hl, hd, hn⟩

theorem nofail_set {l : List PwSt} (h : ∀ st ∈ l, st ≠ PwSt.failed) (w : Nat) (x : PwSt) (hx : x ≠ .failed) :
    ∀ st ∈ l.set w x, st ≠ PwSt.failed := by
  intro st hst
  rcases List.mem_or_eq_of_mem_set hst with h1 | h1
  · exact h st h1
  · rw [h1]; exact hx

theorem flowInv_stepWorker (n nw : Nat) (p : Pipe) (w : Nat) (h : FlowInv n nw p) :
    FlowInv n nw (p.stepWorker none w) := by
  obtain ⟨hlen, hm, hl, hd, hn⟩ := h
  unfold Pipe.stepWorker
  cases hw : p.ws[w]? with
  | none => exact ⟨hlen, hm, hl, hd, hn⟩
  | some st =>
    have S := fun x => heldW_set p.ws w st x hw
    cases st with
    | idle =>
      simp only
      cases hch : p.chan with
      | nil =>
        simp only
        by_cases hc : p.prod = .closed
        · rw [if_pos hc]
          refine ⟨by simp [hlen], ?_, hl, hd, nofail_set hn w .done (by intro hh; cases hh)⟩
          have := S .done
          simp only [PwSt.held] at this
          simp only [Pipe.mass, hch, List.sum_nil] at hm ⊢
          omega
        · rw [if_neg hc]
          exact ⟨hlen, hm, hl, hd, hn⟩
      | cons b rest =>
        simp only
        refine ⟨by simp [hlen], ?_, hl, hd, nofail_set hn w (.saving b) (by intro hh; cases hh)⟩
        have := S (.saving b)
        simp only [PwSt.held] at this
        simp only [Pipe.mass] at hm ⊢
        rw [hch] at hm
        simp only [List.sum_cons] at hm
        omega
    | saving b =>
      simp only
      have hne : (none : Option Nat) ≠ some p.saves := by intro hh; cases hh
      simp only [hne, if_false]
      refine ⟨by simp [hlen], ?_, hl, hd, nofail_set hn w .idle (by intro hh; cases hh)⟩
      have := S .idle
      simp only [PwSt.held] at this
      simp only [Pipe.mass] at hm ⊢
      omega
    | failed => exact ⟨hlen, hm, hl, hd, hn⟩
    | done => exact ⟨hlen, hm, hl, hd, hn⟩

theorem flowInv_step (n nw : Nat) (p : Pipe) (a : Nat) (h : FlowInv n nw p) : FlowInv n nw (p.step none a) := by
  unfold Pipe.step
  by_cases ha : a < p.ws.length
  · simp only [ha, if_true]; exact flowInv_stepWorker n nw p a h
  · simp only [ha, if_false]
    by_cases hb : a = p.ws.length
    · simp only [hb, if_true]; exact flowInv_stepProd n nw p h
    · simp only [hb, if_false]; exact h

theorem flowInv_run (n nw : Nat) (s : List Nat) : ∀ (p : Pipe), FlowInv n nw p → FlowInv n nw (p.run none s) := by
  induction s with
  | nil => intro p h; exact h
  | cons a t ih => intro p h; exact ih (p.step none a) (flowInv_step n nw p a h)

theorem heldW_zero_of_terminal : ∀ (l : List PwSt), (∀ st ∈ l, st.terminal = true) → heldW l = 0 := by
  intro l
  induction l with
  | nil => intro _; rfl
  | cons a t ih =>
    intro h
    have ha := h a (List.mem_cons_self)
    have ht := ih (fun st hst => h st (List.mem_cons_of_mem _ hst))
    simp only [heldW] at ht
    simp only [heldW, List.map_cons, List.sum_cons, ht]
    cases a <;> simp [PwSt.terminal, PwSt.held] at ha ⊢

/-- without a fault, a pipeline whose workers have all left has counted every row of the sorter -/
theorem pipe_complete (n bs cap nw : Nat) (hnw : 0 < nw) (s : List Nat)
    (hl : ((Pipe.init n bs cap nw).run none s).allLeft = true) :
    ((Pipe.init n bs cap nw).run none s).rows = n ∧ ((Pipe.init n bs cap nw).run none s).src = 0 ∧
    ((Pipe.init n bs cap nw).run none s).quiescent = true := by
  have hf := flowInv_run n nw s _ (flowInv_init n bs cap nw)
  have hdi := doneInv_run none s _ (doneInv_init n bs cap nw)
  generalize (Pipe.init n bs cap nw).run none s = p at hl hf hdi
  obtain ⟨hlen, hm, _, hdr, hnf⟩ := hf
  have hterm : ∀ st ∈ p.ws, st.terminal = true := by
    unfold Pipe.allLeft at hl
    rw [List.all_eq_true] at hl
    exact hl
  -- there is a worker; it has left and it has not failed: it saw the channel closed
  have hne : p.ws ≠ [] := by
    intro h0; rw [h0] at hlen; simp at hlen; omega
  obtain ⟨st, hst⟩ := List.exists_mem_of_ne_nil p.ws hne
  have hdone : st = PwSt.done := by
    have h1 := hterm st hst
    have h2 := hnf st hst
    cases st <;> simp_all [PwSt.terminal]
  obtain ⟨hc, hch⟩ := hdi ⟨st, hst, hdone⟩
  have hsrc := hdr hc
  have hh := heldW_zero_of_terminal p.ws hterm
  refine ⟨?_, hsrc, ?_⟩
  · simp only [Pipe.mass, hch, hh, hc, PrSt.held, hsrc, List.sum_nil] at hm
    omega
  · unfold Pipe.quiescent
    simp [hl, hc]

end Wrgl
