import WrglModel.Model.Finder
import WrglModel.Spec.Finder
import WrglModel.Lemmas.C11
namespace Wrgl

/-- commit graphs are acyclic: here, every parent has a smaller id (what the hash chain gives) -/
def Acyclic (g : Graph) : Prop := ∀ c ∈ g, ∀ p ∈ c.parents, p < c.id

/-- the unfolding tree of the history below `s`: every path from `s` that does not run into a
    stop node, as the list of (commit, path length) it visits -/
def unfoldTree (g : Graph) (stop : Nat → Bool) : Nat → Nat → Nat → List (Nat × Nat)
  | 0, _, _ => []
  | fuel+1, s, d =>
    if stop s then [] else
    match g.get? s with
    | none => []
    | some c => (s, d) :: c.parents.flatMap (fun p => unfoldTree g stop fuel p (d + 1))

namespace C08Aux
open C11Aux

/-! ### rank: the number of ids of `g` below a given id; parents have smaller rank -/

def rank (g : Graph) (x : Nat) : Nat := (g.map (·.id)).countP (fun y => decide (y < x))

theorem countP_lt_of_mem (l : List Nat) (x y : Nat) (hy : y ∈ l) (hlt : y < x) :
    l.countP (fun z => decide (z < y)) < l.countP (fun z => decide (z < x)) := by
  induction l with
  | nil => simp at hy
  | cons z zs ih =>
    have hmono : zs.countP (fun z => decide (z < y)) ≤ zs.countP (fun z => decide (z < x)) := by
      apply List.countP_mono_left
      intro a _ ha
      simp only [decide_eq_true_eq] at ha ⊢
      omega
    simp only [List.countP_cons, decide_eq_true_eq]
    rcases List.mem_cons.1 hy with rfl | hy
    · have h1 : ¬ (y < y) := Nat.lt_irrefl _
      simp only [h1, hlt, if_true, if_false]
      omega
    · have := ih hy
      by_cases hzy : z < y
      · have hzx : z < x := by omega
        simp only [hzy, hzx, if_true]
        omega
      · simp only [hzy, if_false]
        split <;> omega

theorem countP_lt_length_of_mem (l : List Nat) (x : Nat) (hx : x ∈ l) :
    l.countP (fun z => decide (z < x)) < l.length := by
  induction l with
  | nil => simp at hx
  | cons z zs ih =>
    have hle : zs.countP (fun z => decide (z < x)) ≤ zs.length := List.countP_le_length
    simp only [List.countP_cons, decide_eq_true_eq, List.length_cons]
    rcases List.mem_cons.1 hx with rfl | hx
    · have h1 : ¬ (x < x) := Nat.lt_irrefl _
      simp only [h1, if_false]
      omega
    · have := ih hx
      split <;> omega

theorem rank_lt_length {g : Graph} {x : Nat} (hx : (g.get? x).isSome = true) :
    rank g x < g.length := by
  have := countP_lt_length_of_mem (g.map (·.id)) x (get?_isSome_mem hx)
  simpa [rank] using this

theorem rank_parent_lt {g : Graph} (hwf : g.wf = true) (hac : Acyclic g) {s p : Nat} {c : Commit}
    (hc : g.get? s = some c) (hp : p ∈ c.parents) : rank g p < rank g s := by
  obtain ⟨hcg, hid⟩ := get?_some hc
  have hlt : p < s := by rw [← hid]; exact hac c hcg p hp
  exact countP_lt_of_mem _ _ _ (get?_isSome_mem (wf_parents hwf hc p hp)) hlt

theorem flatMap_congr' {α β : Type} {l : List α} {f h : α → List β} (e : ∀ x ∈ l, f x = h x) :
    l.flatMap f = l.flatMap h := by
  induction l with
  | nil => rfl
  | cons a as ih =>
    simp only [List.flatMap_cons]
    rw [e a (by simp), ih (fun x hx => e x (by simp [hx]))]

/-! ### the unfolding tree does not depend on the fuel once it exceeds the rank -/

theorem unfoldTree_succ (g : Graph) (stop : Nat → Bool) (F s d : Nat) :
    unfoldTree g stop (F + 1) s d =
      if stop s then [] else
      match g.get? s with
      | none => []
      | some c => (s, d) :: c.parents.flatMap (fun p => unfoldTree g stop F p (d + 1)) := by
  rw [unfoldTree]

theorem unfold_stable {g : Graph} (hwf : g.wf = true) (hac : Acyclic g) (stop : Nat → Bool) :
    ∀ F s d, rank g s < F → unfoldTree g stop F s d = unfoldTree g stop (rank g s + 1) s d := by
  intro F
  induction F using Nat.strongRecOn with
  | ind F ih =>
    intro s d hF
    cases F with
    | zero => omega
    | succ F =>
      rw [unfoldTree_succ, unfoldTree_succ]
      by_cases hs : stop s = true
      · simp [hs]
      · simp only [hs, Bool.false_eq_true, if_false]
        cases hc : g.get? s with
        | none => rfl
        | some c =>
          simp only
          congr 1
          apply flatMap_congr'
          intro p hp
          have hr := rank_parent_lt hwf hac hc hp
          rw [ih F (by omega) p (d + 1) (by omega), ih (rank g s) (by omega) p (d + 1) hr]

/-- one-step unfolding at the fuel used in the statements -/
theorem U_cons {g : Graph} (hwf : g.wf = true) (hac : Acyclic g) (stop : Nat → Bool) {s d : Nat}
    {c : Commit} (hs : stop s = false) (hc : g.get? s = some c) :
    unfoldTree g stop (g.length + 1) s d =
      (s, d) :: c.parents.flatMap (fun p => unfoldTree g stop (g.length + 1) p (d + 1)) := by
  rw [unfoldTree_succ]
  simp only [hs, Bool.false_eq_true, if_false, hc]
  congr 1
  apply flatMap_congr'
  intro p hp
  have hr := rank_parent_lt hwf hac hc hp
  have hl : rank g s < g.length := rank_lt_length (by simp [hc])
  rw [unfold_stable hwf hac stop g.length p (d + 1) (by omega),
    unfold_stable hwf hac stop (g.length + 1) p (d + 1) (by omega)]

theorem U_stop (g : Graph) (stop : Nat → Bool) {F s d : Nat} (hs : stop s = true) :
    unfoldTree g stop F s d = [] := by
  cases F with
  | zero => rw [unfoldTree]
  | succ F => rw [unfoldTree_succ]; simp [hs]

/-! ### step equations of the walk (nothing listed before, no stop at roots) -/

theorem walk_zero (rv : Bool) (g : Graph) (cm : List Nat) (dp : Nat) (q : List (Nat × Nat))
    (cl tl sums : List Nat) (st : Nat) :
    walkWant rv g cm [] dp false 0 q cl tl sums st = .err "fuel" := by
  rw [walkWant]

theorem walk_nil (rv : Bool) (g : Graph) (cm : List Nat) (dp F : Nat)
    (cl tl sums : List Nat) (st : Nat) :
    walkWant rv g cm [] dp false (F + 1) [] cl tl sums st = .ok (some (cl, tl, sums, st)) := by
  simp [walkWant]

theorem walk_stop (rv : Bool) (g : Graph) (cm : List Nat) (dp F s d : Nat) (rest : List (Nat × Nat))
    (cl tl sums : List Nat) (st : Nat) (h : cm.contains s = true) :
    walkWant rv g cm [] dp false (F + 1) ((s, d) :: rest) cl tl sums st =
      walkWant rv g cm [] dp false F rest cl tl (s :: sums) (st + 1) := by
  have h' : s ∈ cm := by simpa using h
  simp [walkWant, h']

theorem walk_none (rv : Bool) (g : Graph) (cm : List Nat) (dp F s d : Nat) (rest : List (Nat × Nat))
    (cl tl sums : List Nat) (st : Nat) (h : cm.contains s = false) (hc : g.get? s = none) :
    walkWant rv g cm [] dp false (F + 1) ((s, d) :: rest) cl tl sums st = .err "missing-commit" := by
  have h' : s ∉ cm := by simpa using h
  simp [walkWant, h', hc]

theorem walk_some (rv : Bool) (g : Graph) (cm : List Nat) (dp F s d : Nat) (rest : List (Nat × Nat))
    (cl tl sums : List Nat) (st : Nat) (c : Commit) (h : cm.contains s = false)
    (hc : g.get? s = some c) :
    walkWant rv g cm [] dp false (F + 1) ((s, d) :: rest) cl tl sums st =
      walkWant rv g cm [] dp false F (rest ++ c.parents.map (fun p => (p, d + 1))) (s :: cl)
        (if (dp == 0 || decide (d < dp)) = true then s :: tl else tl) (s :: sums) (st + 1) := by
  have h' : s ∉ cm := by simpa using h
  simp [walkWant, h', hc]

/-! ### the walk lists the unfolding trees of its work list, up to order -/

theorem walk_spec_gen {g : Graph} (hwf : g.wf = true) (hac : Acyclic g) (rv : Bool)
    (cm : List Nat) (dp : Nat) :
    ∀ (F : Nat) (q : List (Nat × Nat)) (cl tl sums : List Nat) (st : Nat)
      (cl' tl' sums' : List Nat) (st' : Nat),
      walkWant rv g cm [] dp false F q cl tl sums st = .ok (some (cl', tl', sums', st')) →
      cl'.Perm (cl ++ (q.flatMap (fun x =>
          unfoldTree g (fun x => cm.contains x) (g.length + 1) x.1 x.2)).map (·.1)) ∧
      tl'.Perm (tl ++ ((q.flatMap (fun x =>
          unfoldTree g (fun x => cm.contains x) (g.length + 1) x.1 x.2)).filter
            (fun nd => dp == 0 || decide (nd.2 < dp))).map (·.1)) := by
  intro F
  induction F with
  | zero =>
    intro q cl tl sums st cl' tl' sums' st' h
    rw [walk_zero] at h
    cases h
  | succ F ih =>
    intro q cl tl sums st cl' tl' sums' st' h
    cases q with
    | nil =>
      rw [walk_nil] at h
      injection h with h
      injection h with h
      simp only [Prod.mk.injEq] at h
      obtain ⟨rfl, rfl, -, -⟩ := h
      simp
    | cons x rest =>
      obtain ⟨s, d⟩ := x
      by_cases hs : cm.contains s = true
      · rw [walk_stop _ _ _ _ _ _ _ _ _ _ _ _ hs] at h
        have := ih _ _ _ _ _ _ _ _ _ h
        simp only [List.flatMap_cons]
        rw [U_stop g (fun x => cm.contains x) (F := g.length + 1) (s := s) (d := d) hs]
        simpa using this
      · have hs' : cm.contains s = false := by simpa using hs
        cases hc : g.get? s with
        | none =>
          rw [walk_none _ _ _ _ _ _ _ _ _ _ _ _ hs' hc] at h
          cases h
        | some c =>
          rw [walk_some _ _ _ _ _ _ _ _ _ _ _ _ c hs' hc] at h
          obtain ⟨h1, h2⟩ := ih _ _ _ _ _ _ _ _ _ h
          simp only [List.flatMap_cons]
          rw [U_cons hwf hac (fun x => cm.contains x) (s := s) (d := d) hs' hc]
          rw [List.flatMap_append, List.flatMap_map] at h1 h2
          constructor
          · refine h1.trans ?_
            simp only [List.map_append, List.cons_append, List.map_cons]
            refine (List.Perm.cons s (List.Perm.append_left cl List.perm_append_comm)).trans ?_
            exact List.perm_middle.symm
          · rw [List.cons_append, List.filter_cons]
            by_cases hk : (dp == 0 || decide (d < dp)) = true
            · have hk' : (fun nd : Nat × Nat => dp == 0 || decide (nd.2 < dp)) (s, d) = true := hk
              rw [if_pos hk'] at ⊢
              rw [if_pos hk] at h2
              refine h2.trans ?_
              simp only [List.filter_append, List.map_append, List.cons_append, List.map_cons]
              refine (List.Perm.cons s (List.Perm.append_left tl List.perm_append_comm)).trans ?_
              exact List.perm_middle.symm
            · have hk' : ¬ (fun nd : Nat × Nat => dp == 0 || decide (nd.2 < dp)) (s, d) = true := hk
              rw [if_neg hk'] at ⊢
              rw [if_neg hk] at h2
              refine h2.trans ?_
              simp only [List.filter_append, List.map_append]
              exact List.Perm.append_left tl List.perm_append_comm

/-! ### everything listed is an ancestor; ancestors are listed unless cut off -/

theorem unfold_mem_reach (g : Graph) (stop : Nat → Bool) (a : Nat) :
    ∀ F s d e, (a, e) ∈ unfoldTree g stop F s d → Reach g a s := by
  intro F
  induction F with
  | zero => intro s d e h; rw [unfoldTree] at h; cases h
  | succ F ih =>
    intro s d e h
    rw [unfoldTree_succ] at h
    by_cases hs : stop s = true
    · simp [hs] at h
    · simp only [hs, Bool.false_eq_true, if_false] at h
      cases hc : g.get? s with
      | none => simp [hc] at h
      | some c =>
        simp only [hc] at h
        rcases List.mem_cons.1 h with h | h
        · injection h with h1 _
          subst h1
          exact Reach.refl _
        · obtain ⟨p, hp, hm⟩ := List.mem_flatMap.1 h
          exact Reach.step (by simp [parentsOf, hc, hp]) (ih _ _ _ hm)

theorem unfold_closed_gen {g : Graph} (hwf : g.wf = true) (hac : Acyclic g) (stop : Nat → Bool)
    {a w : Nat} (hr : Reach g a w) :
    (g.get? w).isSome = true → ∀ d0,
    (∃ d, (a, d) ∈ unfoldTree g stop (g.length + 1) w d0) ∨
    (∃ s, stop s = true ∧ Reach g a s ∧ Reach g s w) := by
  induction hr with
  | refl =>
    intro hb d0
    by_cases hs : stop a = true
    · exact Or.inr ⟨a, hs, Reach.refl _, Reach.refl _⟩
    · have hs' : stop a = false := by simpa using hs
      cases hc : g.get? a with
      | none => simp [hc] at hb
      | some c =>
        left
        refine ⟨d0, ?_⟩
        rw [U_cons hwf hac stop hs' hc]
        simp
  | step hp hr ih =>
    rename_i p b
    intro hb d0
    by_cases hs : stop b = true
    · exact Or.inr ⟨b, hs, Reach.step hp hr, Reach.refl _⟩
    · have hs' : stop b = false := by simpa using hs
      cases hc : g.get? b with
      | none => simp [hc] at hb
      | some c =>
        have hpc : p ∈ c.parents := by simpa [parentsOf, hc] using hp
        rcases ih (wf_parents hwf hc p hpc) (d0 + 1) with ⟨d, hd⟩ | ⟨s, h1, h2, h3⟩
        · left
          refine ⟨d, ?_⟩
          rw [U_cons hwf hac stop hs' hc]
          exact List.mem_cons_of_mem _ (List.mem_flatMap.2 ⟨p, hpc, hd⟩)
        · exact Or.inr ⟨s, h1, h2, Reach.step hp h3⟩

/-! ### parent-first -/

theorem walk_pf_gen (g : Graph) (rv : Bool) (cm : List Nat) (dp : Nat) :
    ∀ (F : Nat) (q : List (Nat × Nat)) (cl tl sums : List Nat) (st : Nat)
      (cl' tl' sums' : List Nat) (st' : Nat),
      walkWant rv g cm [] dp false F q cl tl sums st = .ok (some (cl', tl', sums', st')) →
      ∃ pre, cl' = pre ++ cl ∧ (∀ x ∈ q, cm.contains x.1 = false → x.1 ∈ pre) ∧
        (∀ i a, pre[i]? = some a → ∀ p ∈ parentsOf g a,
          cm.contains p = true ∨ p ∈ pre.take i) := by
  intro F
  induction F with
  | zero =>
    intro q cl tl sums st cl' tl' sums' st' h
    rw [walk_zero] at h
    cases h
  | succ F ih =>
    intro q cl tl sums st cl' tl' sums' st' h
    cases q with
    | nil =>
      rw [walk_nil] at h
      injection h with h
      injection h with h
      simp only [Prod.mk.injEq] at h
      obtain ⟨rfl, rfl, -, -⟩ := h
      exact ⟨[], rfl, by simp, by simp⟩
    | cons x rest =>
      obtain ⟨s, d⟩ := x
      by_cases hs : cm.contains s = true
      · rw [walk_stop _ _ _ _ _ _ _ _ _ _ _ _ hs] at h
        obtain ⟨pre, e, hq, hpf⟩ := ih _ _ _ _ _ _ _ _ _ h
        refine ⟨pre, e, ?_, hpf⟩
        intro x hx hxc
        rcases List.mem_cons.1 hx with rfl | hx
        · rw [hs] at hxc; cases hxc
        · exact hq x hx hxc
      · have hs' : cm.contains s = false := by simpa using hs
        cases hc : g.get? s with
        | none =>
          rw [walk_none _ _ _ _ _ _ _ _ _ _ _ _ hs' hc] at h
          cases h
        | some c =>
          rw [walk_some _ _ _ _ _ _ _ _ _ _ _ _ c hs' hc] at h
          obtain ⟨pre, e, hq, hpf⟩ := ih _ _ _ _ _ _ _ _ _ h
          refine ⟨pre ++ [s], by rw [e]; simp, ?_, ?_⟩
          · intro x hx hxc
            rcases List.mem_cons.1 hx with rfl | hx
            · simp
            · exact List.mem_append_left _ (hq x (List.mem_append_left _ hx) hxc)
          · intro i a hi p hp
            by_cases hlt : i < pre.length
            · rw [List.getElem?_append_left hlt] at hi
              rw [List.take_append_of_le_length (Nat.le_of_lt hlt)]
              exact hpf i a hi p hp
            · have hge : pre.length ≤ i := Nat.le_of_not_lt hlt
              rw [List.getElem?_append_right hge] at hi
              have hi0 : i - pre.length = 0 := by
                cases hk : i - pre.length with
                | zero => rfl
                | succ k => rw [hk] at hi; simp at hi
              rw [hi0] at hi
              have has : s = a := by simpa using hi
              subst has
              have hpc : p ∈ c.parents := by simpa [parentsOf, hc] using hp
              by_cases hpcm : cm.contains p = true
              · exact Or.inl hpcm
              · right
                have hi' : i = pre.length := by omega
                subst hi'
                rw [List.take_append_of_le_length (Nat.le_refl _), List.take_length]
                have hmem : (p, d + 1) ∈ rest ++ c.parents.map (fun p => (p, d + 1)) :=
                  List.mem_append_right _ (List.mem_map.2 ⟨p, hpc, rfl⟩)
                exact hq (p, d + 1) hmem (by simpa using hpcm)

/-! ### termination: the work list is processed level by level, and ranks decrease -/

def children (g : Graph) (cm : List Nat) (q : List (Nat × Nat)) : List (Nat × Nat) :=
  q.flatMap (fun x => if cm.contains x.1 then [] else
    match g.get? x.1 with
    | none => []
    | some c => c.parents.map (fun p => (p, x.2 + 1)))

theorem mem_children {g : Graph} {cm : List Nat} {q : List (Nat × Nat)} {x : Nat × Nat}
    (h : x ∈ children g cm q) : ∃ y ∈ q, ∃ c, g.get? y.1 = some c ∧ x.1 ∈ c.parents := by
  obtain ⟨y, hy, hx⟩ := List.mem_flatMap.1 h
  refine ⟨y, hy, ?_⟩
  by_cases hs : cm.contains y.1 = true
  · simp only [hs, if_true] at hx
    cases hx
  · simp only [hs, Bool.false_eq_true, if_false] at hx
    cases hc : g.get? y.1 with
    | none => simp [hc] at hx
    | some c =>
      simp only [hc] at hx
      obtain ⟨p, hp, rfl⟩ := List.mem_map.1 hx
      exact ⟨c, rfl, hp⟩

theorem children_cons_stop (g : Graph) (cm : List Nat) (s d : Nat) (q : List (Nat × Nat))
    (hs : cm.contains s = true) : children g cm ((s, d) :: q) = children g cm q := by
  unfold children
  rw [List.flatMap_cons]
  simp only [hs, if_true, List.nil_append]

theorem children_cons_some (g : Graph) (cm : List Nat) (s d : Nat) (q : List (Nat × Nat))
    (c : Commit) (hs : cm.contains s = false) (hc : g.get? s = some c) :
    children g cm ((s, d) :: q) = c.parents.map (fun p => (p, d + 1)) ++ children g cm q := by
  unfold children
  rw [List.flatMap_cons]
  simp only [hs, Bool.false_eq_true, if_false, hc]

theorem walk_level (g : Graph) (rv : Bool) (cm : List Nat) (dp : Nat) :
    ∀ (q1 q2 : List (Nat × Nat)) (cl tl sums : List Nat) (st : Nat),
      (∀ x ∈ q1, (g.get? x.1).isSome = true) →
      ∃ cl' tl' sums' st', ∀ F,
        walkWant rv g cm [] dp false (F + q1.length) (q1 ++ q2) cl tl sums st =
          walkWant rv g cm [] dp false F (q2 ++ children g cm q1) cl' tl' sums' st' := by
  intro q1
  induction q1 with
  | nil =>
    intro q2 cl tl sums st _
    exact ⟨cl, tl, sums, st, fun F => by simp [children]⟩
  | cons x q1 ih =>
    intro q2 cl tl sums st hq
    obtain ⟨s, d⟩ := x
    have hq' : ∀ x ∈ q1, (g.get? x.1).isSome = true := fun x hx => hq x (List.mem_cons_of_mem _ hx)
    have hlen : ∀ F, F + ((s, d) :: q1).length = (F + q1.length) + 1 := by
      intro F; simp [Nat.add_assoc]
    by_cases hs : cm.contains s = true
    · obtain ⟨cl', tl', sums', st', e⟩ := ih q2 cl tl (s :: sums) (st + 1) hq'
      refine ⟨cl', tl', sums', st', fun F => ?_⟩
      rw [hlen, List.cons_append, walk_stop _ _ _ _ _ _ _ _ _ _ _ _ hs, e,
        children_cons_stop g cm s d q1 hs]
    · have hs' : cm.contains s = false := by simpa using hs
      have hsome := hq (s, d) (by simp)
      cases hc : g.get? s with
      | none => simp [hc] at hsome
      | some c =>
        obtain ⟨cl', tl', sums', st', e⟩ := ih (q2 ++ c.parents.map (fun p => (p, d + 1))) (s :: cl)
          (if (dp == 0 || decide (d < dp)) = true then s :: tl else tl) (s :: sums) (st + 1) hq'
        refine ⟨cl', tl', sums', st', fun F => ?_⟩
        rw [hlen, List.cons_append, walk_some _ _ _ _ _ _ _ _ _ _ _ _ c hs' hc, List.append_assoc, e,
          children_cons_some g cm s d q1 c hs' hc, List.append_assoc]

theorem walk_terminates_gen {g : Graph} (hwf : g.wf = true) (hac : Acyclic g) (rv : Bool)
    (cm : List Nat) (dp : Nat) :
    ∀ (n : Nat) (q : List (Nat × Nat)),
      (∀ x ∈ q, (g.get? x.1).isSome = true ∧ rank g x.1 < n) →
      ∀ (cl tl sums : List Nat) (st : Nat),
        ∃ F r, walkWant rv g cm [] dp false F q cl tl sums st = .ok (some r) := by
  intro n
  induction n with
  | zero =>
    intro q hq cl tl sums st
    cases q with
    | nil => exact ⟨1, _, walk_nil _ _ _ _ _ _ _ _ _⟩
    | cons x q => exact absurd (hq x (by simp)).2 (Nat.not_lt_zero _)
  | succ n ih =>
    intro q hq cl tl sums st
    obtain ⟨cl', tl', sums', st', e⟩ :=
      walk_level g rv cm dp q [] cl tl sums st (fun x hx => (hq x hx).1)
    have hch : ∀ x ∈ children g cm q, (g.get? x.1).isSome = true ∧ rank g x.1 < n := by
      intro x hx
      obtain ⟨y, hy, c, hc, hp⟩ := mem_children hx
      have := rank_parent_lt hwf hac hc hp
      have := (hq y hy).2
      exact ⟨wf_parents hwf hc _ hp, by omega⟩
    obtain ⟨F, r, hr⟩ := ih (children g cm q) hch cl' tl' sums' st'
    refine ⟨F + q.length, r, ?_⟩
    have := e F
    rw [List.append_nil, List.nil_append] at this
    rw [this, hr]

end C08Aux

/-- The walk of `enqueueWants` from one want (first want of a round: nothing listed before) lists
    exactly the unfolding tree — one entry per path, which is what makes it exponential — and
    selects tables exactly for the visits within the depth. -/
theorem walkWant_spec (revisit : Bool) (g : Graph) (hwf : g.wf = true) (hac : Acyclic g)
    (commons : List Nat) (depth : Nat) (w : Nat) (hw : (g.get? w).isSome = true)
    (fuel : Nat) (cl tl sums : List Nat) (steps : Nat)
    (h : walkWant revisit g commons [] depth false fuel [(w, 0)] [] [] [] 0 = .ok (some (cl, tl, sums, steps))) :
    cl.Perm ((unfoldTree g (fun x => commons.contains x) (g.length + 1) w 0).map (·.1)) ∧
    tl.Perm (((unfoldTree g (fun x => commons.contains x) (g.length + 1) w 0).filter
              (fun nd => depth == 0 || decide (nd.2 < depth))).map (·.1)) := by
  have _ := hw
  have := C08Aux.walk_spec_gen hwf hac revisit commons depth fuel [(w, 0)] [] [] [] 0 cl tl sums steps h
  simpa using this

/-- every commit on a non-common path below the want is visited, and only such commits -/
theorem unfoldTree_mem (g : Graph) (hwf : g.wf = true) (hac : Acyclic g) (stop : Nat → Bool) (w a : Nat)
    (hw : (g.get? w).isSome = true) :
    (∃ d, (a, d) ∈ unfoldTree g stop (g.length + 1) w 0) → Reach g a w := by
  have _ := hwf; have _ := hac; have _ := hw
  rintro ⟨d, hd⟩
  exact C08Aux.unfold_mem_reach g stop a _ _ _ _ hd

/-- closure: an ancestor of the want is listed unless every path to it runs into a common tip -/
theorem unfoldTree_closed (g : Graph) (hwf : g.wf = true) (hac : Acyclic g) (stop : Nat → Bool) (w a : Nat)
    (hw : (g.get? w).isSome = true) (hr : Reach g a w) :
    (∃ d, (a, d) ∈ unfoldTree g stop (g.length + 1) w 0) ∨
    (∃ s, stop s = true ∧ Reach g a s ∧ Reach g s w) := by
  have _ := hwf; have _ := hac; have _ := hw
  exact C08Aux.unfold_closed_gen hwf hac stop hr hw 0

/-- parent-first: in the list built by `PushFront`, the first occurrence of a commit is preceded by
    an occurrence of each of its parents, unless that parent is a common tip -/
theorem walkWant_parent_first (revisit : Bool) (g : Graph) (hwf : g.wf = true) (hac : Acyclic g)
    (commons : List Nat) (depth : Nat) (w : Nat) (hw : (g.get? w).isSome = true)
    (fuel : Nat) (cl tl sums : List Nat) (steps : Nat)
    (h : walkWant revisit g commons [] depth false fuel [(w, 0)] [] [] [] 0 = .ok (some (cl, tl, sums, steps)))
    (a p : Nat) (i : Nat) (hi : firstIndex cl a = some i) (hp : p ∈ parentsOf g a) :
    commons.contains p = true ∨ p ∈ cl.take i := by
  have _ := hwf; have _ := hac; have _ := hw
  obtain ⟨pre, e, -, hpf⟩ :=
    C08Aux.walk_pf_gen g revisit commons depth fuel [(w, 0)] [] [] [] 0 cl tl sums steps h
  have e' : cl = pre := by simpa using e
  subst e'
  unfold firstIndex at hi
  obtain ⟨hlt, hpi, -⟩ := List.findIdx?_eq_some_iff_getElem.1 hi
  have hai : cl[i]? = some a := by
    rw [List.getElem?_eq_getElem hlt]
    have : cl[i] = a := by simpa using hpi
    rw [this]
  exact hpf i a hai p hp

/-- the walk terminates: enough fuel is one more than the number of visits (tree size plus the
    visits that end in a common tip) -/
theorem walkWant_terminates (revisit : Bool) (g : Graph) (hwf : g.wf = true) (hac : Acyclic g)
    (commons : List Nat) (depth : Nat) (w : Nat) (hw : (g.get? w).isSome = true) :
    ∃ fuel r, walkWant revisit g commons [] depth false fuel [(w, 0)] [] [] [] 0 = .ok (some r) := by
  refine C08Aux.walk_terminates_gen hwf hac revisit commons depth (C08Aux.rank g w + 1) [(w, 0)] ?_ [] [] [] 0
  intro x hx
  have : x = (w, 0) := by simpa using hx
  subst this
  exact ⟨hw, Nat.lt_succ_self _⟩

/-- chain of k diamonds: 1 ← (2,3) ← 4 ← (5,6) ← 7 … ; tip = 3k+1 -/
def diamondChain : Nat → Graph
  | 0 => [{ id := 1, time := 0, parents := [] }]
  | k+1 =>
    let t := 3 * k + 1
    diamondChain k ++ [{ id := t + 1, time := 0, parents := [t] }, { id := t + 2, time := 0, parents := [t] },
                       { id := t + 3, time := 0, parents := [t + 1, t + 2] }]

namespace C08Aux
open C11Aux

/-! ### the diamond chain -/

/-- every parent of a commit of `g` is present in `g` -/
def ParentClosed (g : Graph) : Prop := ∀ c ∈ g, ∀ p ∈ c.parents, (g.get? p).isSome = true

theorem get?_append_left {g g' : Graph} {s : Nat} (h : (g.get? s).isSome = true) :
    (g ++ g').get? s = g.get? s := by
  unfold Graph.get? at h ⊢
  rw [List.find?_append]
  cases hf : List.find? (fun c => c.id == s) g with
  | none => simp [hf] at h
  | some c => rfl

theorem get?_append_right {g g' : Graph} {s : Nat} (h : ∀ c ∈ g, c.id ≠ s) :
    (g ++ g').get? s = g'.get? s := by
  unfold Graph.get?
  rw [List.find?_append]
  have : List.find? (fun c => c.id == s) g = none := by
    apply List.find?_eq_none.2
    intro c hc
    simpa using h c hc
  rw [this]
  rfl

theorem unfold_append {g : Graph} (hcl : ParentClosed g) (g' : Graph) (stop : Nat → Bool) :
    ∀ F s d, (g.get? s).isSome = true →
      unfoldTree (g ++ g') stop F s d = unfoldTree g stop F s d := by
  intro F
  induction F with
  | zero => intro s d _; rw [unfoldTree, unfoldTree]
  | succ F ih =>
    intro s d hs
    rw [unfoldTree_succ, unfoldTree_succ, get?_append_left hs]
    cases hc : g.get? s with
    | none => rfl
    | some c =>
      simp only
      have hcg := (get?_some hc).1
      rw [flatMap_congr' (fun p hp => ih p (d + 1) (hcl c hcg p hp))]

theorem dc_succ (k : Nat) : diamondChain (k + 1) = diamondChain k ++
    [{ id := 3 * k + 1 + 1, time := 0, parents := [3 * k + 1] },
     { id := 3 * k + 1 + 2, time := 0, parents := [3 * k + 1] },
     { id := 3 * k + 1 + 3, time := 0, parents := [3 * k + 1 + 1, 3 * k + 1 + 2] }] := rfl

theorem dc_ids (k : Nat) : ∀ c ∈ diamondChain k, c.id ≤ 3 * k + 1 := by
  induction k with
  | zero => intro c hc; simp [diamondChain] at hc; simp [hc]
  | succ k ih =>
    intro c hc
    rw [dc_succ] at hc
    rcases List.mem_append.1 hc with hc | hc
    · have := ih c hc; omega
    · simp only [List.mem_cons, List.not_mem_nil, or_false] at hc
      rcases hc with rfl | rfl | rfl <;> simp <;> omega

theorem dc_get1 (k : Nat) : (diamondChain (k + 1)).get? (3 * k + 1 + 1) =
    some { id := 3 * k + 1 + 1, time := 0, parents := [3 * k + 1] } := by
  rw [dc_succ, get?_append_right (fun c hc => by have := dc_ids k c hc; omega)]
  simp [Graph.get?]

theorem dc_get2 (k : Nat) : (diamondChain (k + 1)).get? (3 * k + 1 + 2) =
    some { id := 3 * k + 1 + 2, time := 0, parents := [3 * k + 1] } := by
  rw [dc_succ, get?_append_right (fun c hc => by have := dc_ids k c hc; omega)]
  simp [Graph.get?]

theorem dc_get3 (k : Nat) : (diamondChain (k + 1)).get? (3 * k + 1 + 3) =
    some { id := 3 * k + 1 + 3, time := 0, parents := [3 * k + 1 + 1, 3 * k + 1 + 2] } := by
  rw [dc_succ, get?_append_right (fun c hc => by have := dc_ids k c hc; omega)]
  simp [Graph.get?]

theorem dc_tip (k : Nat) : ((diamondChain k).get? (3 * k + 1)).isSome = true := by
  cases k with
  | zero => simp [diamondChain, Graph.get?]
  | succ k =>
    have : 3 * (k + 1) + 1 = 3 * k + 1 + 3 := by omega
    rw [this, dc_get3]; rfl

theorem dc_closed (k : Nat) : ParentClosed (diamondChain k) := by
  induction k with
  | zero =>
    intro c hc p hp
    simp [diamondChain] at hc
    subst hc
    simp at hp
  | succ k ih =>
    intro c hc p hp
    have ht := dc_tip k
    have ht' : ((diamondChain (k + 1)).get? (3 * k + 1)).isSome = true := by
      rw [dc_succ, get?_append_left ht]; exact ht
    rw [dc_succ] at hc
    rcases List.mem_append.1 hc with hc | hc
    · have := ih c hc p hp
      rw [dc_succ, get?_append_left this]; exact this
    · simp only [List.mem_cons, List.not_mem_nil, or_false] at hc
      rcases hc with rfl | rfl | rfl
      · have : p = 3 * k + 1 := by simpa using hp
        subst this; exact ht'
      · have : p = 3 * k + 1 := by simpa using hp
        subst this; exact ht'
      · have : p = 3 * k + 1 + 1 ∨ p = 3 * k + 1 + 2 := by simpa using hp
        rcases this with rfl | rfl
        · rw [dc_get1]; rfl
        · rw [dc_get2]; rfl

theorem dc_exp (k : Nat) : ∀ F d, 2 * k + 1 ≤ F →
    2 ^ k ≤ (unfoldTree (diamondChain k) (fun _ => false) F (3 * k + 1) d).length := by
  induction k with
  | zero =>
    intro F d hF
    obtain ⟨F', rfl⟩ : ∃ F', F = F' + 1 := ⟨F - 1, by omega⟩
    rw [unfoldTree_succ]
    simp [diamondChain, Graph.get?]
  | succ k ih =>
    intro F d hF
    obtain ⟨F', rfl⟩ : ∃ F', F = F' + 2 := ⟨F - 2, by omega⟩
    have ht : 3 * (k + 1) + 1 = 3 * k + 1 + 3 := by omega
    have hold : unfoldTree (diamondChain (k + 1)) (fun _ => false) F' (3 * k + 1) (d + 1 + 1) =
        unfoldTree (diamondChain k) (fun _ => false) F' (3 * k + 1) (d + 1 + 1) := by
      rw [dc_succ]
      exact unfold_append (dc_closed k) _ _ _ _ _ (dc_tip k)
    have hih := ih F' (d + 1 + 1) (by omega)
    rw [ht, unfoldTree_succ]
    simp only [Bool.false_eq_true, if_false, dc_get3, List.flatMap_cons, List.flatMap_nil,
      List.append_nil, unfoldTree_succ (diamondChain (k + 1)) _ F', dc_get1, dc_get2, hold,
      List.length_cons, List.length_append]
    rw [Nat.pow_succ]
    omega

end C08Aux

/-- the complexity clause FAILS on this tree: the walk from the tip of a chain of k diamonds visits
    at least 2^k entries (3k+1 commits) -/
theorem unfoldTree_exponential (k : Nat) :
    2 ^ k ≤ (unfoldTree (diamondChain k) (fun _ => false) ((diamondChain k).length + 1) (3 * k + 1) 0).length := by
  apply C08Aux.dc_exp
  have : (diamondChain k).length = 3 * k + 1 := by
    induction k with
    | zero => rfl
    | succ k ih => rw [C08Aux.dc_succ, List.length_append, ih]; simp; omega
  omega

end Wrgl
