import WrglModel.Model.BlockIndexCodec
namespace Wrgl

/-! helper lemmas for the block-index codec -/

private theorem readEntries_encode (rows : List (Bytes × Bytes))
    (h : rows.all (fun p => p.1.length == 16 && p.2.length == 16) = true) (tail : Bytes) :
    readEntries rows.length (rows.flatMap (fun p => p.1 ++ p.2) ++ tail) = some (rows, tail) := by
  induction rows with
  | nil => simp [readEntries]
  | cons p ps ih =>
    simp only [List.all_cons, Bool.and_eq_true, beq_iff_eq] at h
    obtain ⟨⟨h1, h2⟩, hps⟩ := h
    obtain ⟨k, r⟩ := p
    simp only at h1 h2
    have hlen : ¬ ((k ++ r ++ (ps.flatMap (fun p => p.1 ++ p.2)) ++ tail).length < 32) := by
      simp only [List.length_append, h1, h2]; omega
    have hd32 : (k ++ r ++ (ps.flatMap (fun p => p.1 ++ p.2)) ++ tail).drop 32
        = ps.flatMap (fun p => p.1 ++ p.2) ++ tail := by
      rw [List.append_assoc (k ++ r)]
      exact List.drop_left' (by simp [h1, h2])
    have ht16 : (k ++ r ++ (ps.flatMap (fun p => p.1 ++ p.2)) ++ tail).take 16 = k := by
      rw [List.append_assoc k, List.append_assoc k]
      exact List.take_left' h1
    have hd16 : ((k ++ r ++ (ps.flatMap (fun p => p.1 ++ p.2)) ++ tail).drop 16).take 16 = r := by
      rw [List.append_assoc k, List.append_assoc k, List.drop_left' h1, List.append_assoc r]
      exact List.take_left' h2
    simp only [List.length_cons, List.flatMap_cons, readEntries]
    rw [if_neg hlen, hd32, ih hps, ht16, hd16]

private theorem readEntries_inv : ∀ (n : Nat) (bs : Bytes) (es : List (Bytes × Bytes)) (tail : Bytes),
    readEntries n bs = some (es, tail) →
    es.flatMap (fun p => p.1 ++ p.2) ++ tail = bs ∧ es.length = n ∧
      es.all (fun p => p.1.length == 16 && p.2.length == 16) = true := by
  intro n
  induction n with
  | zero =>
    intro bs es tail h
    simp only [readEntries, Option.some.injEq, Prod.mk.injEq] at h
    obtain ⟨rfl, rfl⟩ := h
    simp
  | succ n ih =>
    intro bs es tail h
    simp only [readEntries] at h
    by_cases hl : bs.length < 32
    · simp [hl] at h
    · rw [if_neg hl] at h
      cases hr : readEntries n (bs.drop 32) with
      | none => simp [hr] at h
      | some q =>
        obtain ⟨es', rest⟩ := q
        simp only [hr, Option.some.injEq, Prod.mk.injEq] at h
        obtain ⟨rfl, rfl⟩ := h
        obtain ⟨e1, e2, e3⟩ := ih _ _ _ hr
        refine ⟨?_, ?_, ?_⟩
        · simp only [List.flatMap_cons, List.append_assoc]
          rw [e1]
          have : List.take 16 (List.drop 16 bs) ++ List.drop 32 bs = List.drop 16 bs := by
            have h2 : List.drop 32 bs = List.drop 16 (List.drop 16 bs) := by
              rw [List.drop_drop]
            rw [h2, List.take_append_drop]
          rw [this, List.take_append_drop]
        · simp [e2]
        · simp only [List.all_cons, e3, Bool.and_true, Bool.and_eq_true, beq_iff_eq]
          refine ⟨?_, ?_⟩
          · simp only [List.length_take]; omega
          · simp only [List.length_take, List.length_drop]; omega

private theorem map_ofNat_toNat (l : List UInt8) : (l.map UInt8.toNat).map UInt8.ofNat = l := by
  induction l with
  | nil => rfl
  | cons a l ih => simp only [List.map_cons, ih, UInt8.ofNat_toNat]

private theorem map_toNat_ofNat (l : List Nat) (h : l.all (fun o => o < 256) = true) :
    (l.map UInt8.ofNat).map UInt8.toNat = l := by
  induction l with
  | nil => rfl
  | cons a l ih =>
    simp only [List.all_cons, Bool.and_eq_true, decide_eq_true_eq] at h
    simp only [List.map_cons, ih h.2, List.cons.injEq, and_true]
    rw [UInt8.toNat_ofNat']
    exact Nat.mod_eq_of_lt h.1

/-- a block index reads back equal to what was written, consuming exactly its own bytes -/
theorem bidx_roundtrip (b : BIdx) (h : b.codecOk = true) (tail : Bytes) :
    decodeBIdx (encodeBIdx b ++ tail) = .ok (b, tail) := by
  obtain ⟨off, rows⟩ := b
  simp only [BIdx.codecOk, Bool.and_eq_true, decide_eq_true_eq, beq_iff_eq] at h
  obtain ⟨⟨⟨hlen, hoff⟩, hall⟩, hrows⟩ := h
  have hn : (UInt8.ofNat rows.length).toNat = rows.length := by
    rw [UInt8.toNat_ofNat']; exact Nat.mod_eq_of_lt (by omega)
  have hml : (off.map UInt8.ofNat).length = rows.length := by simp [hoff]
  simp only [encodeBIdx, List.cons_append, List.nil_append, decodeBIdx, hn, List.append_assoc]
  have hnl : ¬ ((off.map UInt8.ofNat ++ (rows.flatMap (fun p => p.1 ++ p.2) ++ tail)).length
      < rows.length) := by
    simp only [List.length_append, hml]; omega
  rw [if_neg hnl, List.drop_left' hml, List.take_left' hml, readEntries_encode rows hrows tail]
  simp only [map_toNat_ofNat off hall]

/-- re-encoding what was read reproduces the bytes that were read -/
theorem bidx_reencode (bs : Bytes) (b : BIdx) (tail : Bytes) (h : decodeBIdx bs = .ok (b, tail)) :
    encodeBIdx b ++ tail = bs ∧ b.codecOk = true := by
  cases bs with
  | nil => simp [decodeBIdx] at h
  | cons c rest =>
    simp only [decodeBIdx] at h
    by_cases hl : rest.length < c.toNat
    · simp [hl] at h
    · rw [if_neg hl] at h
      cases hr : readEntries c.toNat (rest.drop c.toNat) with
      | none => simp [hr] at h
      | some q =>
        obtain ⟨es, tl⟩ := q
        simp only [hr, Res.ok.injEq, Prod.mk.injEq] at h
        obtain ⟨rfl, rfl⟩ := h
        obtain ⟨e1, e2, e3⟩ := readEntries_inv _ _ _ _ hr
        have hc : c.toNat < 256 := UInt8.toNat_lt c
        refine ⟨?_, ?_⟩
        · simp only [encodeBIdx, List.cons_append, List.nil_append, List.append_assoc, e1, e2,
            map_ofNat_toNat, UInt8.ofNat_toNat, List.take_append_drop]
        · simp only [BIdx.codecOk, Bool.and_eq_true, decide_eq_true_eq, beq_iff_eq, e3, and_true]
          refine ⟨⟨by omega, ?_⟩, ?_⟩
          · simp only [List.length_map, List.length_take, e2]; omega
          · simp only [List.all_map, List.all_eq_true, Function.comp_apply, decide_eq_true_eq]
            intro x _
            exact UInt8.toNat_lt x

/-- the encoding is injective on well-formed indices (so the content hash identifies the index) -/
theorem bidx_encode_injective (a b : BIdx) (ha : a.codecOk = true) (hb : b.codecOk = true)
    (h : encodeBIdx a = encodeBIdx b) : a = b := by
  have h1 := bidx_roundtrip a ha []
  have h2 := bidx_roundtrip b hb []
  rw [h, h2] at h1
  simp only [Res.ok.injEq, Prod.mk.injEq, and_true] at h1
  exact h1.symm

/-- the decoder is total: any byte string gives a value or an error, and an accepted prefix never
    depends on what follows it -/
theorem bidx_decode_total (bs : Bytes) : (∃ r, decodeBIdx bs = .ok r) ∨ (∃ e, decodeBIdx bs = .err e) := by
  cases bs with
  | nil => exact Or.inr ⟨_, rfl⟩
  | cons c rest =>
    simp only [decodeBIdx]
    by_cases hl : rest.length < c.toNat
    · rw [if_pos hl]; exact Or.inr ⟨_, rfl⟩
    · rw [if_neg hl]
      cases hr : readEntries c.toNat (rest.drop c.toNat) with
      | none => exact Or.inr ⟨_, rfl⟩
      | some q => exact Or.inl ⟨_, rfl⟩

end Wrgl
