/-
Helper lemmas for the C06 codec round-trip theorems (Lemmas/C06Codec.lean). Core Lean only.
-/
import WrglModel.Model.Encoding
namespace Wrgl

theorem u8_toNat (n : Nat) : (u8 n).toNat = n % 256 := by
  simp [u8]

theorem beNat_u16be (n : Nat) (h : n < 65536) : beNat (u16be n) = n := by
  simp [u16be, beNat, u8_toNat]; omega

theorem beNat_u32be (n : Nat) (h : n < 2 ^ 32) : beNat (u32be n) = n := by
  simp [u32be, beNat, u8_toNat]; omega

@[simp] theorem u16be_length (n : Nat) : (u16be n).length = 2 := rfl
@[simp] theorem u32be_length (n : Nat) : (u32be n).length = 4 := rfl

theorem takeN_append (n : Nat) (a rest : Bytes) (h : a.length = n) :
    takeN n (a ++ rest) = some (a, rest) := by
  subst h
  simp [takeN]

theorem decodeCells_encodeCells (r : Row) (rest : Bytes) (hc : ∀ c ∈ r, c.length ≤ 65535) :
    decodeCells r.length (encodeCells r ++ rest) = .ok (r, rest) := by
  induction r with
  | nil => simp [decodeCells, encodeCells]
  | cons c cs ih =>
    have hcl : c.length ≤ 65535 := hc c (by simp)
    have ih' := ih (fun c h => hc c (by simp [h]))
    simp only [List.length_cons, decodeCells, encodeCells, List.append_assoc]
    rw [takeN_append 2 _ _ (u16be_length _)]
    simp only [beNat_u16be c.length (by omega)]
    by_cases h0 : c.length = 0
    · have : c = [] := List.eq_nil_of_length_eq_zero h0
      subst this
      simp [ih']
    · have : (c.length == 0) = false := by simp [h0]
      simp only [this]
      rw [takeN_append c.length _ _ rfl]
      simp [ih']

theorem strListEncode_ok (maxCell : Nat) (r : Row) (b : Bytes) (he : strListEncode maxCell r = .ok b) :
    (∀ c ∈ r, c.length ≤ maxCell) ∧ b = u32be r.length ++ encodeCells r := by
  unfold strListEncode at he
  split at he
  · cases he
  · rename_i h
    injection he with he
    refine ⟨?_, he.symm⟩
    intro c hc
    simp only [List.any_eq_true, decide_eq_true_eq, not_exists, not_and] at h
    have := h c hc
    omega

theorem strListEncode_of_fit (maxCell : Nat) (r : Row) (hc : ∀ c ∈ r, c.length ≤ maxCell) :
    strListEncode maxCell r = .ok (u32be r.length ++ encodeCells r) := by
  unfold strListEncode
  rw [if_neg]
  simp only [List.any_eq_true, decide_eq_true_eq, not_exists, not_and]
  intro c h
  have := hc c h
  omega

theorem strListRead_encode (r : Row) (rest : Bytes) (hc : ∀ c ∈ r, c.length ≤ 65535)
    (hn : r.length < 2 ^ 32) :
    strListRead (u32be r.length ++ encodeCells r ++ rest) = .ok (r, rest) := by
  unfold strListRead
  rw [List.append_assoc, takeN_append 4 _ _ (u32be_length _)]
  simp only [beNat_u32be _ hn]
  exact decodeCells_encodeCells r rest hc

/-! blocks -/

theorem encodeRows_ok (maxCell : Nat) (rows : List Row) (b : Bytes) (he : encodeRows maxCell rows = .ok b) :
    (∀ r ∈ rows, ∀ c ∈ r, c.length ≤ maxCell) ∧
    b = (rows.map (fun r => u32be r.length ++ encodeCells r)).flatten := by
  induction rows generalizing b with
  | nil => simp [encodeRows] at he; simp [he]
  | cons r rs ih =>
    unfold encodeRows at he
    split at he
    · rename_i b1 h1
      split at he
      · rename_i b2 h2
        injection he with he
        obtain ⟨hc, rfl⟩ := strListEncode_ok _ _ _ h1
        obtain ⟨hcs, rfl⟩ := ih b2 h2
        subst he
        constructor
        · intro r' hr'
          rcases List.mem_cons.1 hr' with rfl | h
          · exact hc
          · exact hcs r' h
        · simp
      · cases he
      · cases he
    · cases he
    · cases he

theorem decodeRows_encode (rows : List Row) (rest : Bytes)
    (hc : ∀ r ∈ rows, ∀ c ∈ r, c.length ≤ 65535) (hr : ∀ r ∈ rows, r.length < 2 ^ 32) :
    decodeRows rows.length ((rows.map (fun r => u32be r.length ++ encodeCells r)).flatten ++ rest)
      = .ok (rows, rest) := by
  induction rows with
  | nil => simp [decodeRows]
  | cons r rs ih =>
    simp only [List.length_cons, decodeRows, List.map_cons, List.flatten_cons, List.append_assoc]
    have := strListRead_encode r ((rs.map (fun r => u32be r.length ++ encodeCells r)).flatten ++ rest)
      (hc r (by simp)) (hr r (by simp))
    simp only [List.append_assoc] at this
    rw [this]
    simp only
    rw [ih (fun r h => hc r (by simp [h])) (fun r h => hr r (by simp [h]))]

theorem blockEncode_ok (maxCell : Nat) (rows : List Row) (b : Bytes) (he : blockEncode maxCell rows = .ok b) :
    (∀ r ∈ rows, ∀ c ∈ r, c.length ≤ maxCell) ∧
    b = u32be rows.length ++ (rows.map (fun r => u32be r.length ++ encodeCells r)).flatten := by
  unfold blockEncode at he
  split at he
  · rename_i b1 h1
    injection he with he
    obtain ⟨hc, rfl⟩ := encodeRows_ok _ _ _ h1
    exact ⟨hc, he.symm⟩
  · cases he
  · cases he

/-! uint list -/

theorem decodeUints_encode (l : List Nat) (rest : Bytes) (hx : ∀ x ∈ l, x < 2 ^ 32) :
    decodeUints l.length (l.flatMap u32be ++ rest) = .ok (l, rest) := by
  induction l with
  | nil => simp [decodeUints]
  | cons x xs ih =>
    simp only [List.length_cons, decodeUints, List.flatMap_cons, List.append_assoc]
    rw [takeN_append 4 _ _ (u32be_length _)]
    simp only
    rw [ih (fun x h => hx x (by simp [h])), beNat_u32be _ (hx x (by simp))]

theorem writeString_true_cases (s : Bytes) :
    (s.length ≤ 65535 ∧ writeString true s = .ok (u16be s.length ++ s)) ∨
    (s.length > 65535 ∧ writeString true s = .err "string-too-long") := by
  by_cases h : s.length > 65535
  · right; exact ⟨h, by simp [writeString, h]⟩
  · left; refine ⟨by omega, ?_⟩
    simp [writeString, h]

/-! objline -/

theorem readLabel_append (label : String) (rest : Bytes) :
    readLabel label ((strBytes label ++ [32]) ++ rest) = .ok (some rest) := by
  unfold readLabel
  have hne : ((strBytes label ++ [32]) ++ rest).isEmpty = false := by
    cases h : strBytes label <;> simp
  simp only [hne]
  rw [takeN_append _ _ _ rfl]
  simp

theorem readLabel_nil (label : String) : readLabel label [] = .ok none := by
  simp [readLabel]

theorem readNewline_cons (rest : Bytes) : readNewline (10 :: rest) = .ok rest := rfl

theorem takeSums_flatten (l : List Bytes) (rest : Bytes) (h : ∀ s ∈ l, s.length = 16) :
    takeSums l.length (l.flatten ++ rest) = .ok (l, rest) := by
  induction l with
  | nil => simp [takeSums]
  | cons s ss ih =>
    simp only [List.length_cons, takeSums, List.flatten_cons, List.append_assoc]
    rw [takeN_append 16 _ _ (h s (by simp))]
    simp only
    rw [ih (fun s hs => h s (by simp [hs]))]

theorem tableRead_steps (b b1 b2 b3 b4 b5 b6 b7 b8 b9 b10 b11 rc : Bytes) (cols : Row) (pk : List Nat)
    (blks idxs : List Bytes)
    (e0 : readLabel "columns" b = .ok (some b1))
    (e1 : strListRead b1 = .ok (cols, b2))
    (e2 : readNewline b2 = .ok b3)
    (e3 : readLabel "pk" b3 = .ok (some b4))
    (e4 : uintListRead b4 = .ok (pk, b5))
    (e5 : readNewline b5 = .ok b6)
    (e6 : readLabel "rows" b6 = .ok (some b7))
    (e7 : takeN 4 b7 = some (rc, b8))
    (e8 : readNewline b8 = .ok b9)
    (e9 : takeSums (blocksCount (beNat rc)) b9 = .ok (blks, b10))
    (e10 : takeSums (blocksCount (beNat rc)) b10 = .ok (idxs, b11)) :
    tableRead b = .ok { columns := cols, pk := pk, rowsCount := beNat rc, blocks := blks, blockIndices := idxs } := by
  unfold tableRead
  simp only [e0, e1, e2, e3, e4, e5, e6, e7, e8, e9, e10]

theorem tableBytes_shape (maxCell : Nat) (t : TableObj) (b : Bytes) 
    (he : tableBytes maxCell t = .ok b) : (∀ c ∈ t.columns, c.length ≤ maxCell) ∧
     b = (strBytes "columns" ++ [32]) ++ ((u32be t.columns.length ++ encodeCells t.columns) ++
        (10 :: ((strBytes "pk" ++ [32]) ++ (uintListEncode t.pk ++ (10 :: ((strBytes "rows" ++ [32]) ++
        (u32be t.rowsCount ++ (10 :: (t.blocks.flatten ++ (t.blockIndices.flatten ++ [])))))))))) := by
  unfold tableBytes at he
  split at he
  · rename_i cols hcols
    injection he with he
    obtain ⟨hc, rfl⟩ := strListEncode_ok _ _ _ hcols
    refine ⟨hc, ?_⟩
    rw [← he]; simp only [field, List.append_assoc, List.cons_append, List.nil_append, List.append_nil]
  · cases he
  · cases he


theorem field_append (label : String) (body rest : Bytes) :
    field label body ++ rest = (strBytes label ++ [32]) ++ (body ++ (10 :: rest)) := by
  simp [field]

theorem readFixedField_field (label : String) (n : Nat) (body rest : Bytes) (h : body.length = n) :
    readFixedField label n (field label body ++ rest) = .ok (body, rest) := by
  unfold readFixedField
  rw [field_append, readLabel_append]
  simp only
  rw [takeN_append n _ _ h]
  simp only [readNewline_cons]

theorem readString_append (s rest : Bytes) (h : s.length ≤ 65535) :
    readString (u16be s.length ++ s ++ rest) = .ok (s, rest) := by
  unfold readString
  rw [List.append_assoc, takeN_append 2 _ _ (u16be_length _)]
  simp only
  rw [beNat_u16be _ (by omega), takeN_append _ _ _ rfl]

theorem readStrField_field (label : String) (s rest : Bytes) (h : s.length ≤ 65535) :
    readStrField label (field label (u16be s.length ++ s) ++ rest) = .ok (s, rest) := by
  unfold readStrField
  rw [field_append, readLabel_append]
  simp only
  rw [readString_append _ _ h]
  simp only [readNewline_cons]

theorem field_length_pos (label : String) (body : Bytes) : 0 < (field label body).length := by
  simp [field]; omega

theorem readParents_fields (ps : List Bytes) (fuel : Nat) (h : ∀ p ∈ ps, p.length = 16)
    (hf : ((ps.map (field "parent")).flatten).length < fuel) :
    readParents fuel ((ps.map (field "parent")).flatten) = .ok ps := by
  induction ps generalizing fuel with
  | nil =>
    cases fuel with
    | zero => omega
    | succ f => simp [readParents, readLabel_nil]
  | cons p ps ih =>
    cases fuel with
    | zero => omega
    | succ f =>
      simp only [List.map_cons, List.flatten_cons]
      unfold readParents
      rw [field_append, readLabel_append]
      simp only
      rw [takeN_append 16 _ _ (h p (by simp))]
      simp only [readNewline_cons]
      rw [ih f (fun q hq => h q (by simp [hq]))]
      simp only [List.map_cons, List.flatten_cons, List.length_append] at hf
      have := field_length_pos "parent" p
      omega

theorem commitRead_steps (b b1 b2 b3 b4 b5 tbl an ae tm msg : Bytes) (ps : List Bytes)
    (e0 : readFixedField "table" 16 b = .ok (tbl, b1))
    (e1 : readStrField "authorName" b1 = .ok (an, b2))
    (e2 : readStrField "authorEmail" b2 = .ok (ae, b3))
    (e3 : readFixedField "time" 16 b3 = .ok (tm, b4))
    (e4 : readStrField "message" b4 = .ok (msg, b5))
    (e5 : readParents (b5.length + 1) b5 = .ok ps) :
    commitRead b = .ok { table := tbl, authorName := an, authorEmail := ae, time := tm, message := msg, parents := ps } := by
  unfold commitRead
  simp only [e0, e1, e2, e3, e4, e5]

theorem commitBytes_shape (c : CommitObj) (b : Bytes) (he : commitBytes true c = .ok b) :
    c.authorName.length ≤ 65535 ∧ c.authorEmail.length ≤ 65535 ∧ c.message.length ≤ 65535 ∧
    b = field "table" c.table ++ (field "authorName" (u16be c.authorName.length ++ c.authorName) ++
      (field "authorEmail" (u16be c.authorEmail.length ++ c.authorEmail) ++ (field "time" c.time ++
      (field "message" (u16be c.message.length ++ c.message) ++ (c.parents.map (field "parent")).flatten)))) := by
  unfold commitBytes at he
  rcases writeString_true_cases c.authorName with ⟨h1, e1⟩ | ⟨h1, e1⟩ <;>
  rcases writeString_true_cases c.authorEmail with ⟨h2, e2⟩ | ⟨h2, e2⟩ <;>
  rcases writeString_true_cases c.message with ⟨h3, e3⟩ | ⟨h3, e3⟩ <;>
  rw [e1, e2, e3] at he <;> simp only [reduceCtorEq] at he
  injection he with he
  refine ⟨h1, h2, h3, ?_⟩
  rw [← he]
  simp only [List.append_assoc]


end Wrgl
