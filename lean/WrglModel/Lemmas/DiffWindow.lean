/-
C04 building blocks: the block-window search `findOverlappingBlocks` on strictly ascending table
indices, and the slice cache `getBlockIndices`. Core Lean only.
-/
import WrglModel.Model.Diff
import WrglModel.Lemmas.Order
import WrglModel.Lemmas.DiffGet
namespace Wrgl

/-! ## `findStart` / `findEnd` -/

theorem findStart_spec (idx2 : List (List Bytes)) (s : List Bytes)
    (hlen : ∀ v ∈ idx2, v.length = s.length) :
    ∀ (fuel j : Nat), idx2.length - j < fuel →
    ∃ r, findStart idx2 s fuel j = .ok r ∧
      ((r = -1 ∧ ∀ (m : Nat) v, j ≤ m → idx2[m]? = some v → keyCmp v s = .lt) ∨
       (∃ (q : Nat) (v : List Bytes), j ≤ q ∧ idx2[q]? = some v ∧
          (∀ (m : Nat) v', j ≤ m → m < q → idx2[m]? = some v' → keyCmp v' s = .lt) ∧
          ((keyCmp v s = .eq ∧ r = (q : Int)) ∨
           (keyCmp v s = .gt ∧ r = ((q - 1 : Nat) : Int))))) := by
  intro fuel
  induction fuel with
  | zero => intro j h; omega
  | succ fuel ih =>
    intro j hf
    simp only [findStart]
    cases hj : idx2[j]? with
    | none =>
      refine ⟨-1, rfl, Or.inl ⟨rfl, ?_⟩⟩
      intro m v hm hv
      have h1 : idx2.length ≤ j := List.getElem?_eq_none_iff.mp hj
      have h2 : m < idx2.length := (List.getElem?_eq_some_iff.mp hv).1
      omega
    | some v =>
      have hvl : v.length = s.length := hlen v (List.mem_of_getElem? hj)
      simp only [cmpKeyComp_eq_keyCmp v s hvl]
      cases hc : keyCmp v s with
      | gt =>
        refine ⟨_, rfl, Or.inr ⟨j, v, Nat.le_refl _, hj, ?_, Or.inr ⟨hc, ?_⟩⟩⟩
        · intro m v' h1 h2; omega
        · split <;> omega
      | eq =>
        refine ⟨_, rfl, Or.inr ⟨j, v, Nat.le_refl _, hj, ?_, Or.inl ⟨hc, rfl⟩⟩⟩
        intro m v' h1 h2; omega
      | lt =>
        have hjl : j < idx2.length := (List.getElem?_eq_some_iff.mp hj).1
        obtain ⟨r, hr, hcase⟩ := ih (j+1) (by omega)
        refine ⟨r, hr, ?_⟩
        have hstep : ∀ (m : Nat) v', j ≤ m → ¬ (j + 1 ≤ m) → idx2[m]? = some v' → keyCmp v' s = .lt := by
          intro m v' h1 h2 hv'
          have : m = j := by omega
          subst this
          rw [hj] at hv'; cases hv'; exact hc
        rcases hcase with ⟨hr1, hall⟩ | ⟨q, vq, hq, hvq, hbelow, hres⟩
        · left
          refine ⟨hr1, ?_⟩
          intro m v' hm hv'
          by_cases h' : j + 1 ≤ m
          · exact hall m v' h' hv'
          · exact hstep m v' hm h' hv'
        · right
          refine ⟨q, vq, by omega, hvq, ?_, hres⟩
          intro m v' hm hmq hv'
          by_cases h' : j + 1 ≤ m
          · exact hbelow m v' h' hmq hv'
          · exact hstep m v' hm h' hv'

theorem findEnd_spec (idx2 : List (List Bytes)) (s : List Bytes)
    (hlen : ∀ v ∈ idx2, v.length = s.length) :
    ∀ (fuel j : Nat), idx2.length - j < fuel →
    ∃ r, findEnd idx2 s fuel j = .ok r ∧
      ((r = -1 ∧ ∀ (m : Nat) v, j ≤ m → idx2[m]? = some v → keyCmp v s = .lt) ∨
       (∃ (q : Nat) (v : List Bytes), j ≤ q ∧ idx2[q]? = some v ∧
          (∀ (m : Nat) v', j ≤ m → m < q → idx2[m]? = some v' → keyCmp v' s = .lt) ∧
          keyCmp v s ≠ .lt ∧ r = (q : Int))) := by
  intro fuel
  induction fuel with
  | zero => intro j h; omega
  | succ fuel ih =>
    intro j hf
    simp only [findEnd]
    cases hj : idx2[j]? with
    | none =>
      refine ⟨-1, rfl, Or.inl ⟨rfl, ?_⟩⟩
      intro m v hm hv
      have h1 : idx2.length ≤ j := List.getElem?_eq_none_iff.mp hj
      have h2 : m < idx2.length := (List.getElem?_eq_some_iff.mp hv).1
      omega
    | some v =>
      have hvl : v.length = s.length := hlen v (List.mem_of_getElem? hj)
      simp only [cmpKeyComp_eq_keyCmp v s hvl]
      cases hc : keyCmp v s with
      | gt =>
        refine ⟨_, rfl, Or.inr ⟨j, v, Nat.le_refl _, hj, ?_, by rw [hc]; decide, rfl⟩⟩
        intro m v' h1 h2; omega
      | eq =>
        refine ⟨_, rfl, Or.inr ⟨j, v, Nat.le_refl _, hj, ?_, by rw [hc]; decide, rfl⟩⟩
        intro m v' h1 h2; omega
      | lt =>
        have hjl : j < idx2.length := (List.getElem?_eq_some_iff.mp hj).1
        obtain ⟨r, hr, hcase⟩ := ih (j+1) (by omega)
        refine ⟨r, hr, ?_⟩
        have hstep : ∀ (m : Nat) v', j ≤ m → ¬ (j + 1 ≤ m) → idx2[m]? = some v' → keyCmp v' s = .lt := by
          intro m v' h1 h2 hv'
          have : m = j := by omega
          subst this
          rw [hj] at hv'; cases hv'; exact hc
        rcases hcase with ⟨hr1, hall⟩ | ⟨q, vq, hq, hvq, hbelow, hres⟩
        · left
          refine ⟨hr1, ?_⟩
          intro m v' hm hv'
          by_cases h' : j + 1 ≤ m
          · exact hall m v' h' hv'
          · exact hstep m v' hm h' hv'
        · right
          refine ⟨q, vq, by omega, hvq, ?_, hres⟩
          intro m v' hm hmq hv'
          by_cases h' : j + 1 ≤ m
          · exact hbelow m v' h' hmq hv'
          · exact hstep m v' hm h' hv'

/-! ## `findOverlappingBlocks` -/

/-- the start of the window, given that every block before `pe` starts below `s` -/
theorem findStart_window (idx2 : List (List Bytes)) (s : List Bytes) (pe : Nat)
    (hlen : ∀ v ∈ idx2, v.length = s.length)
    (hpre : ∀ (m : Nat) v, m < pe → idx2[m]? = some v → keyCmp v s = .lt) :
    ∃ r, findStart idx2 s (idx2.length + 1) (pe - 1) = .ok r ∧
      ((r = -1 ∧ ∀ (m : Nat) v, idx2[m]? = some v → keyCmp v s = .lt) ∨
       (∃ st : Nat, r = (st : Int) ∧ st < idx2.length ∧ pe ≤ st + 1 ∧
          (∀ (m : Nat) v, m < st → idx2[m]? = some v → keyCmp v s = .lt) ∧
          (∀ (m : Nat) v, 0 < m → m ≤ st → idx2[m]? = some v → keyCmp v s ≠ .gt))) := by
  obtain ⟨r, hr, hcase⟩ := findStart_spec idx2 s hlen (idx2.length + 1) (pe - 1) (by omega)
  refine ⟨r, hr, ?_⟩
  rcases hcase with ⟨hr1, hall⟩ | ⟨q, vq, hq, hvq, hbelow, hres⟩
  · left
    refine ⟨hr1, ?_⟩
    intro m v hv
    by_cases hm : pe - 1 ≤ m
    · exact hall m v hm hv
    · exact hpre m v (by omega) hv
  · right
    have hql : q < idx2.length := (List.getElem?_eq_some_iff.mp hvq).1
    have hb : ∀ (m : Nat) v, m < q → idx2[m]? = some v → keyCmp v s = .lt := by
      intro m v hm hv
      by_cases hm' : pe - 1 ≤ m
      · exact hbelow m v hm' hm hv
      · exact hpre m v (by omega) hv
    rcases hres with ⟨hc, hrq⟩ | ⟨hc, hrq⟩
    · refine ⟨q, hrq, hql, by omega, hb, ?_⟩
      intro m v h0 hm hv
      by_cases hmq : m < q
      · rw [hb m v hmq hv]; decide
      · have : m = q := by omega
        subst this
        rw [hvq] at hv; cases hv
        rw [hc]; decide
    · refine ⟨q - 1, hrq, by omega, ?_, ?_, ?_⟩
      · by_cases hqp : q < pe
        · have := hpre q vq hqp hvq
          rw [hc] at this; cases this
        · omega
      · intro m v hm hv
        exact hb m v (by omega) hv
      · intro m v h0 hm hv
        rw [hb m v (by omega) hv]; decide

/-- `findOverlappingBlocks` on a non-empty table 2, given the loop invariant "every block before
    `pe` starts below `s`". -/
theorem findOverlappingBlocks_spec (idx1 idx2 : List (List Bytes)) (i pe : Nat) (s : List Bytes)
    (hn : 0 < idx2.length) (hs : idx1[i]? = some s)
    (hlen : ∀ v ∈ idx2, v.length = s.length)
    (hlen1 : ∀ s', idx1[i+1]? = some s' → s'.length = s.length)
    (hasc1 : ∀ s', idx1[i+1]? = some s' → keyCmp s s' = .lt)
    (hpre : ∀ (m : Nat) v, m < pe → idx2[m]? = some v → keyCmp v s = .lt) (hpe : pe ≤ idx2.length) :
    ∃ st en : Nat, findOverlappingBlocks true idx1 idx2 i pe = .ok ((st : Int), (en : Int)) ∧
      st ≤ en ∧ en ≤ idx2.length ∧ st < idx2.length ∧ pe ≤ st + 1 ∧
      (∀ (m : Nat) v, m < st → idx2[m]? = some v → keyCmp v s = .lt) ∧
      (∀ (m : Nat) v, 0 < m → m ≤ st → idx2[m]? = some v → keyCmp v s ≠ .gt) ∧
      (match idx1[i+1]? with
        | none => en = idx2.length
        | some s' =>
          (∀ (m : Nat) v, st ≤ m → m < en → idx2[m]? = some v → keyCmp v s' = .lt) ∧
          (en = idx2.length ∨ ∃ v, idx2[en]? = some v ∧ keyCmp v s' ≠ .lt)) := by
  have hn0 : (idx2.length == 0) = false := by
    rw [beq_eq_false_iff_ne]; omega
  have hj0 : (if (pe == 0) = true then 1 else pe) - 1 = pe - 1 := by
    split
    · rename_i h
      have : pe = 0 := by simpa using h
      omega
    · rfl
  obtain ⟨r, hr, hcase⟩ := findStart_window idx2 s pe hlen hpre
  unfold findOverlappingBlocks
  simp only [hn0, Bool.and_false, Bool.false_eq_true, ↓reduceIte, hs, hj0, hr]
  rcases hcase with ⟨hr1, hall⟩ | ⟨st, hrst, hstl, hpest, hbelow, hle⟩
  · -- fallback window (n-1, n)
    subst hr1
    have e : ((idx2.length - 1 : Nat) : Int) = (idx2.length : Int) - 1 := by omega
    refine ⟨idx2.length - 1, idx2.length, by simp [e], by omega, Nat.le_refl _, by omega, by omega, ?_, ?_, ?_⟩
    · intro m v _ hv; exact hall m v hv
    · intro m v _ _ hv; rw [hall m v hv]; decide
    · cases h1 : idx1[i+1]? with
      | none => rfl
      | some s' =>
        refine ⟨?_, Or.inl rfl⟩
        intro m v _ _ hv
        exact keyCmp_lt_trans (hall m v hv) (hasc1 s' h1)
  · subst hrst
    have hne : ((st : Int) == -1) = false := by
      rw [beq_eq_false_iff_ne]; omega
    simp only [hne, Bool.false_eq_true, ↓reduceIte]
    by_cases hi1 : i + 1 < idx1.length
    · simp only [hi1, ↓reduceIte]
      obtain ⟨s', hs'⟩ : ∃ s', idx1[i+1]? = some s' := ⟨_, List.getElem?_eq_getElem hi1⟩
      have hlen' : ∀ v ∈ idx2, v.length = s'.length := by
        intro v hv; rw [hlen v hv, hlen1 s' hs']
      obtain ⟨r', hr', hcase'⟩ := findEnd_spec idx2 s' hlen' (idx2.length + 1) st (by omega)
      simp only [hs', Int.toNat_natCast, hr']
      rcases hcase' with ⟨hr1', hall'⟩ | ⟨q, vq, hq, hvq, hbelow', hge, hrq⟩
      · subst hr1'
        refine ⟨st, idx2.length, by simp, by omega, Nat.le_refl _, hstl, hpest, hbelow, hle, ?_, Or.inl rfl⟩
        intro m v hm _ hv
        exact hall' m v hm hv
      · subst hrq
        have hql : q < idx2.length := (List.getElem?_eq_some_iff.mp hvq).1
        have hne' : ((q : Int) == -1) = false := by
          rw [beq_eq_false_iff_ne]; omega
        refine ⟨st, q, by simp [hne'], hq, by omega, hstl, hpest, hbelow, hle, ?_, Or.inr ⟨vq, hvq, hge⟩⟩
        intro m v hm hmq hv
        exact hbelow' m v hm hmq hv
    · simp only [hi1, ↓reduceIte]
      have hnone : idx1[i+1]? = none := List.getElem?_eq_none_iff.mpr (by omega)
      refine ⟨st, idx2.length, rfl, by omega, Nat.le_refl _, hstl, hpest, hbelow, hle, ?_⟩
      simp [hnone]

/-- `findOverlappingBlocks_spec` with the loop-invariant consequences spelled out -/
theorem findOverlappingBlocks_spec' (idx1 idx2 : List (List Bytes)) (i pe : Nat) (s : List Bytes)
    (hn : 0 < idx2.length) (hs : idx1[i]? = some s)
    (hlen : ∀ v ∈ idx2, v.length = s.length)
    (hlen1 : ∀ s', idx1[i+1]? = some s' → s'.length = s.length)
    (hasc1 : ∀ s', idx1[i+1]? = some s' → keyCmp s s' = .lt)
    (hpre : ∀ (m : Nat) v, m < pe → idx2[m]? = some v → keyCmp v s = .lt) (hpe : pe ≤ idx2.length) :
    ∃ st en : Nat, findOverlappingBlocks true idx1 idx2 i pe = .ok ((st : Int), (en : Int)) ∧
      st ≤ en ∧ en ≤ idx2.length ∧ st < idx2.length ∧ pe ≤ st + 1 ∧
      (∀ (m : Nat) v, 0 < m → m ≤ st → idx2[m]? = some v → keyCmp v s ≠ .gt) ∧
      (idx1[i+1]? = none → en = idx2.length) ∧
      (∀ s', idx1[i+1]? = some s' → en = idx2.length ∨ ∃ v, idx2[en]? = some v ∧ keyCmp v s' ≠ .lt) ∧
      (∀ s', idx1[i+1]? = some s' → ∀ (m : Nat) v, m < en → idx2[m]? = some v → keyCmp v s' = .lt) ∧
      (st = en → en = 0) := by
  obtain ⟨st, en, hfob, hse, hen, hstl, hpest, hbelow, hle, hmatch⟩ :=
    findOverlappingBlocks_spec idx1 idx2 i pe s hn hs hlen hlen1 hasc1 hpre hpe
  refine ⟨st, en, hfob, hse, hen, hstl, hpest, hle, ?_, ?_, ?_, ?_⟩
  · intro hnone
    rw [hnone] at hmatch
    exact hmatch
  · intro s' hs'
    rw [hs'] at hmatch
    exact hmatch.2
  · intro s' hs' m v hm hv
    rw [hs'] at hmatch
    by_cases hms : m < st
    · exact keyCmp_lt_trans (hbelow m v hms hv) (hasc1 s' hs')
    · exact hmatch.1 m v (by omega) hm hv
  · intro hEq
    cases h1 : idx1[i+1]? with
    | none =>
      rw [h1] at hmatch
      simp only at hmatch
      omega
    | some s' =>
      rw [h1] at hmatch
      rcases hmatch.2 with hn' | ⟨v, hv, hge⟩
      · omega
      · by_cases h0 : 0 < st
        · have := hle st v h0 (Nat.le_refl _) (by rw [hEq]; exact hv)
          exact absurd (keyCmp_le_lt_trans this (hasc1 s' h1)) hge
        · omega

/-! ## `getBlockIndices` -/

theorem map_range_window (blocks : List BIdx) (st len : Nat) (h : st + len ≤ blocks.length)
    (F : Nat → Option BIdx) (hF : ∀ k, k < len → F k = blocks[st + k]?) :
    (List.range len).map F = ((blocks.drop st).take len).map some := by
  apply List.ext_getElem?
  intro k
  by_cases hk : k < len
  · have hk2 : st + k < blocks.length := by omega
    simp [hk, hF k hk, List.getElem?_eq_getElem hk2]
  · simp [List.getElem?_take, hk]

theorem getBlockIndices_nopanic (blocks : List BIdx) (st len : Nat) (from_ : Int) (h : st + len ≤ blocks.length) :
    ((List.range len).any fun (k : Nat) =>
      decide ((st : Int) + (k : Int) ≥ from_) &&
        (decide ((st : Int) + (k : Int) < 0) || decide (((st : Int) + (k : Int)).toNat ≥ blocks.length))) = false := by
  rw [List.any_eq_false]
  intro k hk
  have hk' : k < len := by simpa using hk
  have a : ¬ ((st : Int) + (k : Int) < 0) := by omega
  have b : ¬ (((st : Int) + (k : Int)).toNat ≥ blocks.length) := by omega
  simp [a, b]

theorem getBlockIndices_spec (blocks : List BIdx) (st en ps pe : Nat) (psl : Option (List (Option BIdx)))
    (hse : st ≤ en) (hen : en ≤ blocks.length) (hst : st < blocks.length) (hpest : pe ≤ st + 1)
    (hps : ps ≤ pe) (hemp : ps = pe → pe = 0)
    (hcache : ps < pe → psl = some (((blocks.drop ps).take (pe - ps)).map some)) :
    getBlockIndices blocks st en psl ps pe =
      .ok (if st = en then none else some (((blocks.drop st).take (en - st)).map some)) := by
  unfold getBlockIndices
  by_cases hEq : st = en
  · subst hEq
    simp
  · have h1 : ¬ ((st : Int) ≥ (blocks.length : Int)) := by omega
    have h2 : ((st : Int) == (en : Int)) = false := by rw [beq_eq_false_iff_ne]; omega
    have h3 : ¬ ((en : Int) < (st : Int)) := by omega
    have h4 : ((en : Int) - (st : Int)).toNat = en - st := by omega
    simp only [h1, h2, h3, h4, decide_false, Bool.or_self, Bool.false_eq_true, ↓reduceIte, hEq]
    by_cases hc : (pe : Int) > (st : Int)
    · simp only [hc, ↓reduceIte]
      have hpe : pe = st + 1 := by omega
      have hpsl := hcache (by omega)
      have hplen : (psl.getD []).length = pe - ps := by
        rw [hpsl]; simp; omega
      have b1 : ¬ ((st : Int) - (ps : Int) < 0) := by omega
      have b2 : ¬ ((st : Int) - (ps : Int) > ((psl.getD []).length : Int)) := by rw [hplen]; omega
      have b3 : ((st : Int) - (ps : Int)).toNat = st - ps := by omega
      simp only [b1, b2, b3, decide_false, Bool.or_self, Bool.false_eq_true, ↓reduceIte,
        getBlockIndices_nopanic blocks st (en - st) pe (by omega)]
      congr 2
      apply map_range_window blocks st (en - st) (by omega)
      intro k hk
      by_cases hk0 : k = 0
      · subst hk0
        have c1 : ¬ ((st : Int) + ((0 : Nat) : Int) ≥ (pe : Int)) := by omega
        simp only [c1, ↓reduceIte]
        rw [hpsl]
        have : ps + (st - ps) = st := by omega
        simp [List.getElem?_take, this, List.getElem?_eq_getElem hst]
        have d1 : st - ps < pe - ps := by omega
        simp [hk, d1]
      · have c1 : ((st : Int) + (k : Int) ≥ (pe : Int)) := by omega
        have c2 : ¬ ((st : Int) + (k : Int) < 0) := by omega
        have c3 : ((st : Int) + (k : Int)).toNat = st + k := by omega
        simp only [c1, c2, c3, ↓reduceIte]
    · simp only [hc, ↓reduceIte, getBlockIndices_nopanic blocks st (en - st) st (by omega), Bool.false_eq_true]
      congr 2
      apply map_range_window blocks st (en - st) (by omega)
      intro k hk
      have c1 : ((st : Int) + (k : Int) ≥ (st : Int)) := by omega
      have c2 : ¬ ((st : Int) + (k : Int) < 0) := by omega
      have c3 : ((st : Int) + (k : Int)).toNat = st + k := by omega
      simp only [c1, c2, c3, ↓reduceIte]
end Wrgl
