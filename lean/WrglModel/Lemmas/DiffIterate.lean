/-
C04: specification of `iterateAndMatch` on sound tables: one callback per row of table 1, in
order, carrying the unique row of table 2 with the same key (if any). Core Lean only.
-/
import WrglModel.Lemmas.DiffWindow
import WrglModel.Lemmas.DiffTable
namespace Wrgl

/-- the callback `iterateAndMatch t1 t2` is expected to make for row `r` of table 1 -/
def mkMatch (r2 : List KRow) (r : KRow) : Match :=
  match r2.find? (fun s => s.key == r.key) with
  | some s => { pk := r.pkSum, row1 := r.rowSum, row2 := some s.rowSum, off1 := r.off, off2 := s.off }
  | none => { pk := r.pkSum, row1 := r.rowSum, row2 := none, off1 := r.off, off2 := 0 }

/-! ## `lookupIn` over a list of sound block indices -/

theorem lookupIn_none (bs : Nat) (st : Int) (pk : Bytes) : ∀ (L : List BIdx) (k : Nat),
    (∀ idx ∈ L, idx.Sorted) →
    (∀ idx ∈ L, ∀ (j : Nat) (s : Bytes), idx.rows[j]? ≠ some (pk, s)) →
    lookupIn bs st (L.map some) k pk = .ok none := by
  intro L
  induction L with
  | nil => intro k _ _; rfl
  | cons idx0 L ih =>
    intro k hs hno
    simp only [List.map_cons, lookupIn]
    rcases BIdx.get_spec (hs idx0 (by simp)) pk with ⟨hg, _⟩ | ⟨j, s, _, hrow⟩
    · rw [hg]
      exact ih (k+1) (fun idx hi => hs idx (by simp [hi])) (fun idx hi => hno idx (by simp [hi]))
    · exact absurd hrow (hno idx0 (by simp) j s)

theorem lookupIn_found (bs : Nat) (st : Int) (pk : Bytes) : ∀ (L : List BIdx) (k q : Nat) (idx : BIdx) (j : Nat) (s : Bytes),
    (∀ idx ∈ L, idx.Sorted) →
    L[q]? = some idx →
    (∀ (q' : Nat) idx', q' < q → L[q']? = some idx' → ∀ (j : Nat) (s : Bytes), idx'.rows[j]? ≠ some (pk, s)) →
    idx.rows[j]? = some (pk, s) →
    (∀ (j' : Nat) (s' : Bytes), idx.rows[j']? = some (pk, s') → j' = j) →
    lookupIn bs st (L.map some) k pk = .ok (some (s, (st + ((k + q : Nat) : Int)).toNat * bs + j)) := by
  intro L
  induction L with
  | nil => intro k q idx j s _ hq; simp at hq
  | cons idx0 L ih =>
    intro k q idx j s hs hq hbefore hrow huniq
    simp only [List.map_cons, lookupIn]
    cases q with
    | zero =>
      simp only [List.getElem?_cons_zero, Option.some.injEq] at hq
      subst hq
      rcases BIdx.get_spec (hs idx0 (by simp)) pk with ⟨_, hno⟩ | ⟨j', s', hg, hrow'⟩
      · exact absurd hrow (hno j s)
      · have hj := huniq j' s' hrow'
        subst hj
        rw [hrow] at hrow'
        injection hrow' with e
        injection e with _ e2
        subst e2
        rw [hg]
        simp
    | succ q =>
      simp only [List.getElem?_cons_succ] at hq
      rcases BIdx.get_spec (hs idx0 (by simp)) pk with ⟨hg, _⟩ | ⟨j', s', _, hrow'⟩
      · rw [hg]
        have := ih (k+1) q idx j s (fun idx hi => hs idx (by simp [hi])) hq
          (fun q' idx' hq' hL => hbefore (q'+1) idx' (by omega) (by simpa using hL)) hrow huniq
        rw [this]
        have e : k + 1 + q = k + (q + 1) := by omega
        rw [e]
      · exact absurd hrow' (hbefore 0 idx0 (by omega) (by simp) j' s')

/-! ## `lookupIn` over a window of a sound table -/

section Table
variable {bs arity : Nat} {t2 : ATable} (h2 : t2.WF bs arity)
include h2

/-- the window `[st, en)` of block indices of table 2 -/
def window (t2 : ATable) (st en : Nat) : List BIdx := (t2.toD.blocks.drop st).take (en - st)

omit h2 in
theorem window_get (st en q : Nat) : (window t2 st en)[q]? = if q < en - st then t2.toD.blocks[st + q]? else none := by
  simp [window, List.getElem?_take]

theorem window_sorted (st en : Nat) : ∀ idx ∈ window t2 st en, idx.Sorted := by
  intro idx hi
  have h1 : idx ∈ t2.toD.blocks := List.mem_of_mem_drop (List.mem_of_mem_take hi)
  obtain ⟨m, hm⟩ := List.mem_iff_getElem?.mp h1
  exact h2.toD_block_sorted hm

/-- a row of the D-level block index comes from a row of the abstract block -/
theorem block_row {m : Nat} {idx : BIdx} (hidx : t2.toD.blocks[m]? = some idx) {j : Nat} {pk s : Bytes}
    (hrow : idx.rows[j]? = some (pk, s)) :
    ∃ b y, t2.blocks[m]? = some b ∧ b[j]? = some y ∧ y.pkSum = pk ∧ y.rowSum = s := by
  obtain ⟨b, so, hb, _, rfl⟩ := h2.toD_blocks_get_inv hidx
  simp only [List.getElem?_map, Option.map_eq_some_iff] at hrow
  obtain ⟨y, hy, hp⟩ := hrow
  simp only [rowPair, Prod.mk.injEq] at hp
  exact ⟨b, y, hb, hy, hp.1, hp.2⟩

theorem lookup_none_table (st en : Nat) (sti : Int) (pk : Bytes)
    (hno : ∀ y ∈ t2.allRows, y.pkSum ≠ pk) :
    lookupIn bs sti ((window t2 st en).map some) 0 pk = .ok none := by
  apply lookupIn_none bs sti pk _ 0 (window_sorted h2 st en)
  intro idx hi j s hrow
  have h1 : idx ∈ t2.toD.blocks := List.mem_of_mem_drop (List.mem_of_mem_take hi)
  obtain ⟨m, hm⟩ := List.mem_iff_getElem?.mp h1
  obtain ⟨b, y, hb, hy, hp, _⟩ := block_row h2 hm hrow
  exact hno y (ATable.WF.allRows_mem hb (List.mem_of_getElem? hy)) hp

theorem lookup_found_table (st en : Nat) {m j : Nat} {b : List KRow} {x : KRow}
    (hb : t2.blocks[m]? = some b) (hx : b[j]? = some x) (hst : st ≤ m) (hen : m < en)
    (huniq : ∀ y ∈ t2.allRows, y.pkSum = x.pkSum → y.key = x.key) :
    lookupIn bs (st : Int) ((window t2 st en).map some) 0 x.pkSum = .ok (some (x.rowSum, x.off)) := by
  obtain ⟨so, _, hd⟩ := h2.toD_blocks_get hb
  have hwq : (window t2 st en)[m - st]? = some ⟨so, b.map rowPair⟩ := by
    rw [window_get]
    have a : m - st < en - st := by omega
    have c : st + (m - st) = m := by omega
    simp [a, c, hd]
  have := lookupIn_found bs (st : Int) x.pkSum (window t2 st en) 0 (m - st) ⟨so, b.map rowPair⟩ j x.rowSum
    (window_sorted h2 st en) hwq ?_ ?_ ?_
  · rw [this]
    have o := h2.offs m b j x hb hx
    have e : ((st : Int) + ((0 + (m - st) : Nat) : Int)).toNat = m := by omega
    rw [e, o]
  · intro q' idx' hq' hL j' s' hrow
    rw [window_get] at hL
    have a : q' < en - st := by omega
    simp only [a, ↓reduceIte] at hL
    obtain ⟨b', y, hb', hy, hp, _⟩ := block_row h2 hL hrow
    have hk := huniq y (ATable.WF.allRows_mem hb' (List.mem_of_getElem? hy)) hp
    have := (h2.key_unique_pos hb' hb hy hx hk).1
    omega
  · simp [hx, rowPair]
  · intro j' s' hrow
    obtain ⟨b', y, hb', hy, hp, _⟩ := block_row h2 hd hrow
    have hk := huniq y (ATable.WF.allRows_mem hb' (List.mem_of_getElem? hy)) hp
    exact (h2.key_unique_pos hb' hb hy hx hk).2

end Table

/-! ## `matchRows` -/

theorem matchRows_spec (bs i : Nat) (st : Int) (W : List (Option BIdx)) (r2 : List KRow) :
    ∀ (l : List KRow) (ro : Nat),
    (∀ (j : Nat) r, l[j]? = some r → r.off = i * bs + (ro + j)) →
    (∀ r ∈ l, lookupIn bs st W 0 r.pkSum =
      .ok ((r2.find? (fun s => s.key == r.key)).map (fun s => (s.rowSum, s.off)))) →
    matchRows bs i st W (l.map rowPair) ro = .ok (l.map (mkMatch r2)) := by
  intro l
  induction l with
  | nil => intro ro _ _; rfl
  | cons r l ih =>
    intro ro hoff hlk
    have ih' := ih (ro + 1)
      (fun j r' hj => by
        have := hoff (j+1) r' (by simpa using hj)
        omega)
      (fun r' hr' => hlk r' (by simp [hr']))
    have h0 := hoff 0 r (by simp)
    have hl := hlk r (by simp)
    simp only [List.map_cons, rowPair, matchRows]
    rw [hl, ih']
    simp only [mkMatch]
    cases hf : r2.find? (fun s => s.key == r.key) with
    | none => simp [h0]
    | some x => simp [h0]

/-! ## the block loop -/

section Iterate
variable {bs arity : Nat} {t1 t2 : ATable} (h1 : t1.WF bs arity) (h2 : t2.WF bs arity)
  (hk12 : ∀ a ∈ t1.allRows, ∀ b ∈ t2.allRows, (a.pkSum = b.pkSum ↔ a.key = b.key))
  (hk22 : ∀ a ∈ t2.allRows, ∀ b ∈ t2.allRows, (a.pkSum = b.pkSum ↔ a.key = b.key))

include h2 hk12 hk22 in
/-- the per-row lookup over a window that covers every row of table 2 with the key of `r` -/
theorem lookup_row (st en : Nat) (r : KRow) (hr : r ∈ t1.allRows)
    (hcov : ∀ (m : Nat) b (j : Nat) x, t2.blocks[m]? = some b → b[j]? = some x → x.key = r.key → st ≤ m ∧ m < en) :
    lookupIn bs (st : Int) ((window t2 st en).map some) 0 r.pkSum =
      .ok ((t2.allRows.find? (fun s => s.key == r.key)).map (fun s => (s.rowSum, s.off))) := by
  cases hf : t2.allRows.find? (fun s => s.key == r.key) with
  | none =>
    rw [lookup_none_table h2]
    · rfl
    · intro y hy hp
      have hkey := (hk12 r hr y hy).mp hp.symm
      have := List.find?_eq_none.mp hf y hy
      simp [hkey] at this
  | some x =>
    have hxm : x ∈ t2.allRows := List.mem_of_find?_eq_some hf
    have hxk : x.key = r.key := by simpa using List.find?_some hf
    have hxp : r.pkSum = x.pkSum := (hk12 r hr x hxm).mpr hxk.symm
    obtain ⟨m, b, j, hb, hx⟩ := h2.mem_allRows hxm
    obtain ⟨hst, hen⟩ := hcov m b j x hb hx hxk
    rw [hxp, lookup_found_table h2 st en hb hx hst hen (fun y hy hp => (hk22 y hy x hxm).mp hp)]
    rfl

include h1 h2 in
/-- the Go window contains every block of table 2 that holds a key of block `i` of table 1 -/
theorem window_covers {i st en : Nat} {b1 : List KRow} {s : List Bytes} (hb1 : t1.blocks[i]? = some b1)
    (hs : t1.toD.tblIdx[i]? = some s) (hstl : st < t2.toD.tblIdx.length)
    (hle : ∀ (m : Nat) v, 0 < m → m ≤ st → t2.toD.tblIdx[m]? = some v → keyCmp v s ≠ .gt)
    (hend0 : t1.toD.tblIdx[i+1]? = none → en = t2.toD.tblIdx.length)
    (hend1 : ∀ s', t1.toD.tblIdx[i+1]? = some s' →
      en = t2.toD.tblIdx.length ∨ ∃ v, t2.toD.tblIdx[en]? = some v ∧ keyCmp v s' ≠ .lt)
    {r : KRow} (hr : r ∈ b1) {m : Nat} {b : List KRow} {j : Nat} {x : KRow}
    (hb : t2.blocks[m]? = some b) (hx : b[j]? = some x) (hkey : x.key = r.key) : st ≤ m ∧ m < en := by
  have hxb : x ∈ b := List.mem_of_getElem? hx
  have hml : m < t2.toD.tblIdx.length := by
    rw [toD_tblIdx_length]; exact (List.getElem?_eq_some_iff.mp hb).1
  have hsr : keyCmp s r.key ≠ .gt := h1.tblIdx_le hb1 hs hr
  constructor
  · -- start ≤ m
    by_cases hc : st ≤ m
    · exact hc
    · exfalso
      obtain ⟨v, hv⟩ : ∃ v, t2.toD.tblIdx[m+1]? = some v :=
        ⟨_, List.getElem?_eq_getElem (by omega : m + 1 < t2.toD.tblIdx.length)⟩
      have a1 : keyCmp x.key v = .lt := h2.lt_tblIdx hb hv (by omega) hxb
      have a2 : keyCmp v s ≠ .gt := hle (m+1) v (by omega) (by omega) hv
      have a3 : keyCmp x.key s = .lt := keyCmp_lt_le_trans a1 a2
      have a4 : keyCmp x.key r.key = .lt := keyCmp_lt_le_trans a3 hsr
      rw [hkey] at a4
      exact keyCmp_lt_irrefl _ a4
  · -- m < end
    by_cases hc : m < en
    · exact hc
    · exfalso
      cases hn : t1.toD.tblIdx[i+1]? with
      | none => have := hend0 hn; omega
      | some s' =>
        rcases hend1 s' hn with he | ⟨v, hv, hge⟩
        · omega
        · obtain ⟨vm, hvm⟩ : ∃ v, t2.toD.tblIdx[m]? = some v := ⟨_, List.getElem?_eq_getElem hml⟩
          have a1 : keyCmp r.key s' = .lt := h1.lt_tblIdx hb1 hn (by omega) hr
          have a2 : keyCmp vm x.key ≠ .gt := h2.tblIdx_le hb hvm hxb
          have a3 : keyCmp v vm ≠ .gt := by
            by_cases hem : en = m
            · subst hem
              rw [hv] at hvm; cases hvm
              rw [keyCmp_refl]; decide
            · rw [h2.tblIdx_asc hv hvm (by omega)]; decide
          -- s' ≤ v ≤ vm ≤ x.key = r.key < s'
          rw [hkey] at a2
          have a4 : keyCmp vm s' = .lt := keyCmp_le_lt_trans a2 a1
          have a5 : keyCmp v s' = .lt := keyCmp_le_lt_trans a3 a4
          exact hge a5

include h1 h2 hk12 hk22 in
theorem iterateBlocks_spec (hn2 : 0 < t2.blocks.length) :
    ∀ (rest : List BIdx) (i ps pe : Nat) (psl : Option (List (Option BIdx))),
    rest = t1.toD.blocks.drop i →
    ps ≤ pe → pe ≤ t2.blocks.length → (ps = pe → pe = 0) →
    (ps < pe → psl = some ((window t2 ps pe).map some)) →
    (∀ s, t1.toD.tblIdx[i]? = some s → ∀ (m : Nat) v, m < pe → t2.toD.tblIdx[m]? = some v → keyCmp v s = .lt) →
    iterateBlocks true bs t1.toD t2.toD rest i (ps : Int) (pe : Int) psl =
      .ok ((t1.blocks.drop i).flatten.map (mkMatch t2.allRows)) := by
  intro rest
  induction rest with
  | nil =>
    intro i ps pe psl hrest _ _ _ _ _
    have hl : t1.blocks.length ≤ i := by
      have := List.drop_eq_nil_iff.mp hrest.symm
      rw [h1.toD_blocks_length] at this; exact this
    simp [iterateBlocks, List.drop_eq_nil_iff.mpr hl]
  | cons idx1 rest ih =>
    intro i ps pe psl hrest hps hpe hemp hcache hpre
    have hil : i < t1.toD.blocks.length := by
      by_cases hc : i < t1.toD.blocks.length
      · exact hc
      · rw [List.drop_eq_nil_iff.mpr (by omega)] at hrest; cases hrest
    rw [List.drop_eq_getElem_cons hil] at hrest
    injection hrest with e1 e2
    have hil1 : i < t1.blocks.length := by rw [← h1.toD_blocks_length]; exact hil
    obtain ⟨b1, hb1⟩ : ∃ b, t1.blocks[i]? = some b := ⟨_, List.getElem?_eq_getElem hil1⟩
    obtain ⟨so1, _, hd1⟩ := h1.toD_blocks_get hb1
    have hidx1 : idx1 = ⟨so1, b1.map rowPair⟩ := by
      rw [List.getElem?_eq_getElem hil] at hd1
      injection hd1 with hd1
      rw [e1, hd1]
    obtain ⟨r0, hr0, hs⟩ := h1.tblIdx_get hb1
    have hn2' : 0 < t2.toD.tblIdx.length := by rw [toD_tblIdx_length]; exact hn2
    obtain ⟨st, en, hfob, hse, hen, hstl, hpest, hle, hend0, hend1, hnext, hempty⟩ :=
      findOverlappingBlocks_spec' t1.toD.tblIdx t2.toD.tblIdx i pe r0.key hn2' hs
        (fun v hv => by
          rw [h2.tblIdx_arity hv, h1.tblIdx_arity (List.mem_of_getElem? hs)])
        (fun s' hs' => by
          rw [h1.tblIdx_arity (List.mem_of_getElem? hs'), h1.tblIdx_arity (List.mem_of_getElem? hs)])
        (fun s' hs' => h1.tblIdx_asc hs hs' (by omega))
        (hpre r0.key hs) (by rw [toD_tblIdx_length]; exact hpe)
    rw [toD_tblIdx_length] at hen
    have hstl' : st < t2.toD.blocks.length := by
      rw [h2.toD_blocks_length]; rw [toD_tblIdx_length] at hstl; exact hstl
    have hgb := getBlockIndices_spec t2.toD.blocks st en ps pe psl hse
      (by rw [h2.toD_blocks_length]; exact hen) hstl' hpest hps hemp hcache
    simp only [iterateBlocks, Int.toNat_natCast, hfob, hgb]
    have hW : (if st = en then none else some (List.map some (List.take (en - st) (List.drop st t2.toD.blocks)))).getD []
        = (window t2 st en).map some := by
      by_cases hEq : st = en
      · simp [hEq, window]
      · simp [hEq, window]
    have hmr := matchRows_spec bs i (st : Int) ((window t2 st en).map some) t2.allRows b1 0
      (fun j r hj => by
        have := h1.offs i b1 j r hb1 hj
        omega)
      (fun r hr => lookup_row h2 hk12 hk22 st en r (ATable.WF.allRows_mem hb1 hr)
        (fun m b j x hb hx hkey => window_covers h1 h2 hb1 hs hstl hle hend0 hend1 hr hb hx hkey))
    have hih := ih (i+1) st en
      (if st = en then none else some (List.map some (List.take (en - st) (List.drop st t2.toD.blocks))))
      e2 hse hen hempty
      (fun hlt => by
        have : ¬ st = en := by omega
        simp [this, window])
      hnext
    have hb1' : b1 = t1.blocks[i] := by
      rw [List.getElem?_eq_getElem hil1] at hb1
      injection hb1 with hb1
      exact hb1.symm
    rw [hW, hidx1, hmr, hih, List.drop_eq_getElem_cons hil1, ← hb1']
    simp

include h1 in
theorem iterateBlocks_empty (hn2 : t2.blocks = []) :
    ∀ (rest : List BIdx) (i : Nat) (ps pe : Int) (psl : Option (List (Option BIdx))),
    rest = t1.toD.blocks.drop i →
    iterateBlocks true bs t1.toD t2.toD rest i ps pe psl =
      .ok ((t1.blocks.drop i).flatten.map (mkMatch t2.allRows)) := by
  have hidx : t2.toD.tblIdx = [] := by rw [toD_tblIdx, hn2]; rfl
  have hblk : t2.toD.blocks = [] := by rw [toD_blocks, hn2]; rfl
  have hall : t2.allRows = [] := by unfold ATable.allRows; rw [hn2]; rfl
  intro rest
  induction rest with
  | nil =>
    intro i ps pe psl hrest
    have hl : t1.blocks.length ≤ i := by
      have := List.drop_eq_nil_iff.mp hrest.symm
      rw [h1.toD_blocks_length] at this; exact this
    simp [iterateBlocks, List.drop_eq_nil_iff.mpr hl]
  | cons idx1 rest ih =>
    intro i ps pe psl hrest
    have hil : i < t1.toD.blocks.length := by
      by_cases hc : i < t1.toD.blocks.length
      · exact hc
      · rw [List.drop_eq_nil_iff.mpr (by omega)] at hrest; cases hrest
    rw [List.drop_eq_getElem_cons hil] at hrest
    injection hrest with e1 e2
    have hil1 : i < t1.blocks.length := by rw [← h1.toD_blocks_length]; exact hil
    obtain ⟨b1, hb1⟩ : ∃ b, t1.blocks[i]? = some b := ⟨_, List.getElem?_eq_getElem hil1⟩
    obtain ⟨so1, _, hd1⟩ := h1.toD_blocks_get hb1
    have hidx1 : idx1 = ⟨so1, b1.map rowPair⟩ := by
      rw [List.getElem?_eq_getElem hil] at hd1
      injection hd1 with hd1
      rw [e1, hd1]
    have hfob : ∀ pe', findOverlappingBlocks true t1.toD.tblIdx t2.toD.tblIdx i pe' = .ok (0, 0) := by
      intro pe'
      unfold findOverlappingBlocks
      simp [hidx]
    have hgb : getBlockIndices t2.toD.blocks 0 0 psl ps pe = .ok none := by
      unfold getBlockIndices
      simp [hblk]
    have hmr := matchRows_spec bs i (0 : Int) [] t2.allRows b1 0
      (fun j r hj => by
        have := h1.offs i b1 j r hb1 hj
        omega)
      (fun r hr => by simp [hall, lookupIn])
    have hih := ih (i+1) 0 0 none e2
    have hb1' : b1 = t1.blocks[i] := by
      rw [List.getElem?_eq_getElem hil1] at hb1
      injection hb1 with hb1
      exact hb1.symm
    simp only [iterateBlocks, hfob, hgb, Option.getD_none]
    rw [hidx1, hmr, hih, List.drop_eq_getElem_cons hil1, ← hb1']
    simp

include h1 h2 hk12 hk22 in
/-- `iterateAndMatch` on sound tables: one callback per row of table 1, in order, carrying the
    row of table 2 with the same key when there is one. -/
theorem iterateAndMatch_spec :
    iterateAndMatch true bs t1.toD t2.toD = .ok (t1.allRows.map (mkMatch t2.allRows)) := by
  unfold iterateAndMatch
  by_cases hn2 : t2.blocks = []
  · have := iterateBlocks_empty (bs := bs) h1 hn2 t1.toD.blocks 0 0 0 none rfl
    rw [this]; rfl
  · have hpos : 0 < t2.blocks.length := List.length_pos_iff.mpr hn2
    have := iterateBlocks_spec h1 h2 hk12 hk22 hpos t1.toD.blocks 0 0 0 none rfl (Nat.le_refl _)
      (Nat.zero_le _) (fun _ => rfl) (fun h => absurd h (Nat.lt_irrefl _))
      (fun s _ m v hm => absurd hm (Nat.not_lt_zero _))
    exact this

end Iterate

end Wrgl
