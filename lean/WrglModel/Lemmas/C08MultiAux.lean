import WrglModel.Model.Finder
import WrglModel.Spec.Finder
import WrglModel.Lemmas.C08
namespace Wrgl
namespace C08Multi

/-! ### one walk, with an arbitrary set `sb` of commits visited by earlier walks -/

/-- what one completed walk guarantees about the entries `pre` it pushed in front of the list and the
    entries `spre` it pushed in front of the visited sums -/
structure WalkInv (g : Graph) (cm sb : List Nat) (q : List (Nat × Nat)) (pre spre : List Nat) : Prop where
  visited : ∀ x ∈ q, x.1 ∈ spre
  sums : ∀ s ∈ spre, s ∈ cm ∨ s ∈ sb ∨ (s ∈ pre ∧ ∀ p ∈ parentsOf g s, p ∈ spre)
  pf : ∀ i a, pre[i]? = some a → ∀ p ∈ parentsOf g a, p ∈ cm ∨ p ∈ sb ∨ p ∈ pre.take i
  sound : ∀ a ∈ pre, ∃ x ∈ q, Reach g a x.1

theorem inv_skip {g : Graph} {cm sb : List Nat} {s d : Nat} {rest : List (Nat × Nat)}
    {pre spre : List Nat} (hs : s ∈ cm ∨ s ∈ sb) (h : WalkInv g cm sb rest pre spre) :
    WalkInv g cm sb ((s, d) :: rest) pre (spre ++ [s]) := by
  refine ⟨?_, ?_, h.pf, ?_⟩
  · intro x hx
    rcases List.mem_cons.1 hx with rfl | hx
    · simp
    · exact List.mem_append_left _ (h.visited x hx)
  · intro t ht
    rcases List.mem_append.1 ht with ht | ht
    · rcases h.sums t ht with h1 | h1 | ⟨h1, h2⟩
      · exact Or.inl h1
      · exact Or.inr (Or.inl h1)
      · exact Or.inr (Or.inr ⟨h1, fun p hp => List.mem_append_left _ (h2 p hp)⟩)
    · have : t = s := by simpa using ht
      subst this
      rcases hs with hs | hs
      · exact Or.inl hs
      · exact Or.inr (Or.inl hs)
  · intro a ha
    obtain ⟨x, hx, hr⟩ := h.sound a ha
    exact ⟨x, List.mem_cons_of_mem _ hx, hr⟩

theorem reach_of_queue {g : Graph} {s d : Nat} {c : Commit} (hc : g.get? s = some c)
    {rest : List (Nat × Nat)} {a : Nat}
    (h : ∃ x ∈ rest ++ c.parents.map (fun p => (p, d + 1)), Reach g a x.1) :
    ∃ x ∈ (s, d) :: rest, Reach g a x.1 := by
  obtain ⟨x, hx, hr⟩ := h
  rcases List.mem_append.1 hx with hx | hx
  · exact ⟨x, List.mem_cons_of_mem _ hx, hr⟩
  · obtain ⟨p, hp, rfl⟩ := List.mem_map.1 hx
    refine ⟨(s, d), by simp, ?_⟩
    exact Reach.step (by simp [parentsOf, hc, hp]) hr

theorem inv_seen {g : Graph} {cm sb : List Nat} {s d : Nat} {c : Commit} {rest : List (Nat × Nat)}
    {pre spre : List Nat} (hs : s ∈ sb) (hc : g.get? s = some c)
    (h : WalkInv g cm sb (rest ++ c.parents.map (fun p => (p, d + 1))) pre spre) :
    WalkInv g cm sb ((s, d) :: rest) pre (spre ++ [s]) := by
  refine ⟨?_, ?_, h.pf, ?_⟩
  · intro x hx
    rcases List.mem_cons.1 hx with rfl | hx
    · simp
    · exact List.mem_append_left _ (h.visited x (List.mem_append_left _ hx))
  · intro t ht
    rcases List.mem_append.1 ht with ht | ht
    · rcases h.sums t ht with h1 | h1 | ⟨h1, h2⟩
      · exact Or.inl h1
      · exact Or.inr (Or.inl h1)
      · exact Or.inr (Or.inr ⟨h1, fun p hp => List.mem_append_left _ (h2 p hp)⟩)
    · have : t = s := by simpa using ht
      subst this
      exact Or.inr (Or.inl hs)
  · intro a ha
    exact reach_of_queue hc (h.sound a ha)

theorem inv_new {g : Graph} {cm sb : List Nat} {s d : Nat} {c : Commit} {rest : List (Nat × Nat)}
    {pre spre : List Nat} (hc : g.get? s = some c)
    (h : WalkInv g cm sb (rest ++ c.parents.map (fun p => (p, d + 1))) pre spre) :
    WalkInv g cm sb ((s, d) :: rest) (pre ++ [s]) (spre ++ [s]) := by
  have hpar : ∀ p ∈ parentsOf g s, p ∈ spre := by
    intro p hp
    have hpc : p ∈ c.parents := by simpa [parentsOf, hc] using hp
    exact h.visited (p, d + 1) (List.mem_append_right _ (List.mem_map.2 ⟨p, hpc, rfl⟩))
  refine ⟨?_, ?_, ?_, ?_⟩
  · intro x hx
    rcases List.mem_cons.1 hx with rfl | hx
    · simp
    · exact List.mem_append_left _ (h.visited x (List.mem_append_left _ hx))
  · intro t ht
    rcases List.mem_append.1 ht with ht | ht
    · rcases h.sums t ht with h1 | h1 | ⟨h1, h2⟩
      · exact Or.inl h1
      · exact Or.inr (Or.inl h1)
      · exact Or.inr (Or.inr ⟨List.mem_append_left _ h1, fun p hp => List.mem_append_left _ (h2 p hp)⟩)
    · have : t = s := by simpa using ht
      subst this
      exact Or.inr (Or.inr ⟨by simp, fun p hp => List.mem_append_left _ (hpar p hp)⟩)
  · intro i a hi p hp
    by_cases hlt : i < pre.length
    · rw [List.getElem?_append_left hlt] at hi
      rw [List.take_append_of_le_length (Nat.le_of_lt hlt)]
      exact h.pf i a hi p hp
    · have hge : pre.length ≤ i := Nat.le_of_not_lt hlt
      rw [List.getElem?_append_right hge] at hi
      have hi0 : i - pre.length = 0 := by
        cases hk : i - pre.length with
        | zero => rfl
        | succ k => rw [hk] at hi; simp at hi
      rw [hi0] at hi
      have has : s = a := by simpa using hi
      subst has
      have hi' : i = pre.length := by omega
      subst hi'
      rw [List.take_append_of_le_length (Nat.le_refl _), List.take_length]
      rcases h.sums p (hpar p hp) with h1 | h1 | ⟨h1, -⟩
      · exact Or.inl h1
      · exact Or.inr (Or.inl h1)
      · exact Or.inr (Or.inr h1)
  · intro a ha
    rcases List.mem_append.1 ha with ha | ha
    · exact reach_of_queue hc (h.sound a ha)
    · have : a = s := by simpa using ha
      subst this
      exact ⟨(a, d), by simp, Reach.refl _⟩

theorem walk_inv (rv : Bool) (g : Graph) (cm sb : List Nat) (dp : Nat) (stop : Bool) :
    ∀ (F : Nat) (q : List (Nat × Nat)) (cl tl sums : List Nat) (st : Nat)
      (cl' tl' sums' : List Nat) (st' : Nat),
      walkWant rv g cm sb dp stop F q cl tl sums st = .ok (some (cl', tl', sums', st')) →
      ∃ pre spre, cl' = pre ++ cl ∧ sums' = spre ++ sums ∧ WalkInv g cm sb q pre spre := by
  intro F
  induction F with
  | zero =>
    intro q cl tl sums st cl' tl' sums' st' h
    rw [walkWant] at h
    cases h
  | succ F ih =>
    intro q cl tl sums st cl' tl' sums' st' h
    cases q with
    | nil =>
      simp only [walkWant] at h
      injection h with h
      injection h with h
      simp only [Prod.mk.injEq] at h
      obtain ⟨rfl, -, rfl, -⟩ := h
      exact ⟨[], [], rfl, rfl, ⟨by simp, by simp, by simp, by simp⟩⟩
    | cons x rest =>
      obtain ⟨s, d⟩ := x
      rw [walkWant] at h
      split at h
      · rename_i hcond
        have hs : s ∈ sb := by
          simp only [Bool.and_eq_true] at hcond
          simpa using hcond.1
        obtain ⟨pre, spre, e1, e2, hinv⟩ := ih _ _ _ _ _ _ _ _ _ h
        exact ⟨pre, spre ++ [s], e1, by rw [e2]; simp, inv_skip (Or.inr hs) hinv⟩
      · split at h
        · rename_i hcm
          have hs : s ∈ cm := by simpa using hcm
          obtain ⟨pre, spre, e1, e2, hinv⟩ := ih _ _ _ _ _ _ _ _ _ h
          exact ⟨pre, spre ++ [s], e1, by rw [e2]; simp, inv_skip (Or.inl hs) hinv⟩
        · split at h
          · cases h
          · rename_i c hc
            simp only at h
            split at h
            · cases h
            · obtain ⟨pre, spre, e1, e2, hinv⟩ := ih _ _ _ _ _ _ _ _ _ h
              by_cases hseen : sb.contains s = true
              · have hs : s ∈ sb := by simpa using hseen
                rw [if_pos hseen] at e1
                exact ⟨pre, spre ++ [s], e1, by rw [e2]; simp, inv_seen hs hc hinv⟩
              · rw [if_neg hseen] at e1
                exact ⟨pre ++ [s], spre ++ [s], by rw [e1]; simp, by rw [e2]; simp, inv_new hc hinv⟩

end C08Multi
end Wrgl

namespace Wrgl
namespace C08Multi

/-! ### across the wants of one `enqueueWants` call -/

/-- every commit visited by a completed earlier walk is a common commit, or is listed so far and all
    its parents were visited as well -/
def SeenOK (g : Graph) (cm sb L : List Nat) : Prop :=
  ∀ s ∈ sb, s ∈ cm ∨ (s ∈ L ∧ ∀ p ∈ parentsOf g s, p ∈ sb)

/-- acceptable at every position -/
def PF (g : Graph) (cm X : List Nat) : Prop :=
  ∀ (i : Nat) (c : Nat), X[i]? = some c → ∀ p ∈ parentsOf g c, p ∈ cm ∨ p ∈ X.take i

theorem seen_closed {g : Graph} {cm sb L : List Nat} (h : SeenOK g cm sb L) {a s : Nat}
    (hr : Reach g a s) : s ∈ sb → a ∈ L ∨ ∃ c ∈ cm, Reach g a c := by
  induction hr with
  | refl =>
    intro hs
    rcases h _ hs with h1 | ⟨h1, -⟩
    · exact Or.inr ⟨_, h1, Reach.refl _⟩
    · exact Or.inl h1
  | step hp hr ih =>
    intro hs
    rcases h _ hs with h1 | ⟨-, h2⟩
    · exact Or.inr ⟨_, h1, Reach.step hp hr⟩
    · exact ih (h2 _ hp)

theorem seenOK_step {g : Graph} {cm sb L : List Nat} {q : List (Nat × Nat)} {pre spre : List Nat}
    (h : SeenOK g cm sb L) (hinv : WalkInv g cm sb q pre spre) :
    SeenOK g cm (spre ++ sb) (L ++ pre) := by
  have hold : ∀ s ∈ sb, s ∈ cm ∨ (s ∈ L ++ pre ∧ ∀ p ∈ parentsOf g s, p ∈ spre ++ sb) := by
    intro s hs
    rcases h s hs with h1 | ⟨h1, h2⟩
    · exact Or.inl h1
    · exact Or.inr ⟨List.mem_append_left _ h1, fun p hp => List.mem_append_right _ (h2 p hp)⟩
  intro s hs
  rcases List.mem_append.1 hs with hs | hs
  · rcases hinv.sums s hs with h1 | h1 | ⟨h1, h2⟩
    · exact Or.inl h1
    · exact hold s h1
    · exact Or.inr ⟨List.mem_append_right _ h1, fun p hp => List.mem_append_left _ (h2 p hp)⟩
  · exact hold s hs

theorem pf_step {g : Graph} {cm sb L : List Nat} {q : List (Nat × Nat)} {pre spre : List Nat}
    (h : SeenOK g cm sb L) (hpf : PF g cm L) (hinv : WalkInv g cm sb q pre spre) :
    PF g cm (L ++ pre) := by
  intro i c hi p hp
  by_cases hlt : i < L.length
  · rw [List.getElem?_append_left hlt] at hi
    rw [List.take_append_of_le_length (Nat.le_of_lt hlt)]
    exact hpf i c hi p hp
  · have hge : L.length ≤ i := Nat.le_of_not_lt hlt
    rw [List.getElem?_append_right hge] at hi
    have hmem : ∀ x, x ∈ L ∨ x ∈ pre.take (i - L.length) → x ∈ (L ++ pre).take i := by
      intro x hx
      rw [List.take_append, List.take_of_length_le hge]
      exact List.mem_append.2 hx
    rcases hinv.pf _ c hi p hp with h1 | h1 | h1
    · exact Or.inl h1
    · rcases h p h1 with h2 | ⟨h2, -⟩
      · exact Or.inl h2
      · exact Or.inr (hmem p (Or.inl h2))
    · exact Or.inr (hmem p (Or.inr h1))

theorem enqueue_gen (rv : Bool) (g : Graph) (dp : Nat) (stop : Bool) (F : Nat) :
    ∀ (ws : List Nat) (f : Finder) (sb pend L : List Nat) (f' : Finder) (pending : List Nat),
      SeenOK g f.commons sb L → PF g f.commons L →
      enqueueWants rv g dp stop F ws f sb pend = .ok (f', pending) →
      ∃ nl : List (List Nat), f'.commitLists = f.commitLists ++ nl ∧ f'.commons = f.commons ∧
        (∀ x ∈ pend, x ∈ pending) ∧
        (∀ w ∈ ws, w ∉ pending → ∀ a, Reach g a w →
          a ∈ L ++ nl.flatten ∨ ∃ s ∈ f.commons, Reach g a s) ∧
        PF g f.commons (L ++ nl.flatten) ∧
        (∀ a ∈ nl.flatten, ∃ w ∈ ws, Reach g a w) := by
  intro ws
  induction ws with
  | nil =>
    intro f sb pend L f' pending hseen hpf h
    rw [enqueueWants] at h
    injection h with h
    simp only [Prod.mk.injEq] at h
    obtain ⟨rfl, rfl⟩ := h
    refine ⟨[], by simp, rfl, by simp, by simp, by simpa using hpf, by simp⟩
  | cons w ws ih =>
    intro f sb pend L f' pending hseen hpf h
    rw [enqueueWants] at h
    split at h
    · obtain ⟨nl, e1, e2, hp, hcl, hpf', hsd⟩ := ih f sb (w :: pend) L f' pending hseen hpf h
      refine ⟨nl, e1, e2, fun x hx => hp x (List.mem_cons_of_mem _ hx), ?_, hpf', ?_⟩
      · intro w' hw' hnp
        rcases List.mem_cons.1 hw' with rfl | hw'
        · exact absurd (hp w' (by simp)) hnp
        · exact hcl w' hw' hnp
      · intro a ha
        obtain ⟨w', hw', hr⟩ := hsd a ha
        exact ⟨w', List.mem_cons_of_mem _ hw', hr⟩
    · rename_i cl tl sums st hwalk
      obtain ⟨pre, spre, e1, e2, hinv⟩ := walk_inv rv g f.commons sb dp stop F _ _ _ _ _ _ _ _ _ hwalk
      rw [List.append_nil] at e1 e2
      subst e1 e2
      have hseen' := seenOK_step hseen hinv
      have hpfL := pf_step hseen hpf hinv
      obtain ⟨nl, e1, e2, hp, hcl, hpf', hsd⟩ :=
        ih { f with commitLists := f.commitLists ++ [cl], tableLists := f.tableLists ++ [tl],
                    steps := f.steps + st } (sums ++ sb) pend (L ++ cl) f' pending hseen' hpfL h
      simp only at e1 e2 hcl hpf'
      have hflat : L ++ (cl :: nl).flatten = L ++ cl ++ nl.flatten := by
        rw [List.flatten_cons, List.append_assoc]
      refine ⟨cl :: nl, by rw [e1]; simp, e2, hp, ?_, by rw [hflat]; exact hpf', ?_⟩
      · intro w' hw' hnp a hr
        rw [hflat]
        rcases List.mem_cons.1 hw' with rfl | hw'
        · have hws : w' ∈ sums ++ sb := List.mem_append_left _ (hinv.visited (w', 0) (by simp))
          rcases seen_closed hseen' hr hws with h1 | h1
          · exact Or.inl (List.mem_append_left _ h1)
          · exact Or.inr h1
        · exact hcl w' hw' hnp a hr
      · intro a ha
        rw [List.flatten_cons] at ha
        rcases List.mem_append.1 ha with ha | ha
        · obtain ⟨x, hx, hr⟩ := hinv.sound a ha
          have : x = (w, 0) := by simpa using hx
          subst this
          exact ⟨w, by simp, hr⟩
        · obtain ⟨w', hw', hr⟩ := hsd a ha
          exact ⟨w', List.mem_cons_of_mem _ hw', hr⟩
    · cases h
    · cases h

end C08Multi
end Wrgl
