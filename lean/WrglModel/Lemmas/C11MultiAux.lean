/-
Multi-start generalisation of the C11 walk invariant (`C11Aux.Inv` with one start `b` replaced by
a list of starts `sums`); used by `walkMulti_correct`.
-/
import WrglModel.Model.Queue
import WrglModel.Model.Finder
import WrglModel.Lemmas.C11
namespace Wrgl

namespace C11MultiAux
open C11Aux

/-- "target set": ancestors-or-self of some start -/
def Tgt (g : Graph) (sums : List Nat) (x : Nat) : Prop := ∃ s ∈ sums, Reach g x s

structure MInv0 (g : Graph) (sums : List Nat) (q : Q) (popped : List Nat) : Prop where
  items_seen : ∀ x ∈ q.items.map Prod.fst, x ∈ q.seen
  seen_cover : ∀ x ∈ q.seen, x ∈ q.items.map Prod.fst ∨ x ∈ popped
  popped_seen : ∀ x ∈ popped, x ∈ q.seen
  reach : ∀ x ∈ q.seen, Tgt g sums x
  nodup : (q.items.map Prod.fst ++ popped).Nodup
  ing : ∀ x ∈ q.seen, (g.get? x).isSome = true
  root : ∀ s ∈ sums, s ∈ q.seen

structure MInv (g : Graph) (sums : List Nat) (q : Q) (popped : List Nat) : Prop
    extends MInv0 g sums q popped where
  closed : ∀ x ∈ popped, ∀ p ∈ parentsOf g x, p ∈ q.seen

theorem insert_step {g : Graph} {sums : List Nat} {q : Q} {popped : List Nat} {p : Nat}
    (h : MInv0 g sums q popped) (hr : Tgt g sums p) (hg : (g.get? p).isSome = true) :
    ∃ q', Q.insert g q p = .ok q' ∧ MInv0 g sums q' popped ∧ (∀ x ∈ q.seen, x ∈ q'.seen) ∧
      p ∈ q'.seen := by
  unfold Q.insert
  by_cases hs : q.hasSeen p = true
  · simp only [hs, ↓reduceIte]
    refine ⟨q, rfl, h, fun _ hx => hx, ?_⟩
    simpa [Q.hasSeen] using hs
  · simp only [hs]
    have hps : p ∉ q.seen := by simpa [Q.hasSeen] using hs
    cases hc : g.get? p with
    | none => simp [hc] at hg
    | some c =>
      simp only [Bool.false_eq_true, ↓reduceIte]
      refine ⟨_, rfl, ?_, ?_, ?_⟩
      · have hperm : (List.take (Q.insertPos q.items c.time) q.items ++
            (p, c.time) :: List.drop (Q.insertPos q.items c.time) q.items).Perm
            ((p, c.time) :: q.items) := by
          refine List.perm_middle.trans ?_
          rw [List.take_append_drop]
        have hmem : ∀ x, x ∈ (List.take (Q.insertPos q.items c.time) q.items ++
            (p, c.time) :: List.drop (Q.insertPos q.items c.time) q.items).map Prod.fst ↔
            x = p ∨ x ∈ q.items.map Prod.fst := by
          intro x
          rw [(hperm.map Prod.fst).mem_iff]
          simp
        constructor
        · intro x hx
          rcases (hmem x).1 hx with rfl | hx
          · simp
          · exact List.mem_cons_of_mem _ (h.items_seen x hx)
        · intro x hx
          rcases List.mem_cons.1 hx with rfl | hx
          · exact Or.inl ((hmem x).2 (Or.inl rfl))
          · rcases h.seen_cover x hx with h1 | h1
            · exact Or.inl ((hmem x).2 (Or.inr h1))
            · exact Or.inr h1
        · intro x hx
          exact List.mem_cons_of_mem _ (h.popped_seen x hx)
        · intro x hx
          rcases List.mem_cons.1 hx with rfl | hx
          · exact hr
          · exact h.reach x hx
        · have hperm2 := (hperm.map Prod.fst).append_right popped
          rw [hperm2.nodup_iff]
          simp only [List.map_cons, List.cons_append, List.nodup_cons]
          refine ⟨?_, h.nodup⟩
          intro hx
          rcases List.mem_append.1 hx with hx | hx
          · exact hps (h.items_seen p hx)
          · exact hps (h.popped_seen p hx)
        · intro x hx
          rcases List.mem_cons.1 hx with rfl | hx
          · exact hg
          · exact h.ing x hx
        · intro s hs'
          exact List.mem_cons_of_mem _ (h.root s hs')
      · intro x hx
        exact List.mem_cons_of_mem _ hx
      · simp

theorem insertAll_step {g : Graph} {sums : List Nat} {popped : List Nat} (ps : List Nat) :
    ∀ (q : Q), MInv0 g sums q popped → (∀ p ∈ ps, Tgt g sums p) →
      (∀ p ∈ ps, (g.get? p).isSome = true) →
      ∃ q', Q.insertAll g q ps = .ok q' ∧ MInv0 g sums q' popped ∧ (∀ x ∈ q.seen, x ∈ q'.seen) ∧
        ∀ p ∈ ps, p ∈ q'.seen := by
  induction ps with
  | nil =>
    intro q h _ _
    exact ⟨q, rfl, h, fun _ hx => hx, by simp⟩
  | cons p ps ih =>
    intro q h hr hg
    obtain ⟨q1, e1, h1, m1, s1⟩ := insert_step h (hr p (by simp)) (hg p (by simp))
    obtain ⟨q2, e2, h2, m2, s2⟩ := ih q1 h1 (fun x hx => hr x (by simp [hx]))
      (fun x hx => hg x (by simp [hx]))
    refine ⟨q2, ?_, h2, fun x hx => m2 x (m1 x hx), ?_⟩
    · simp only [Q.insertAll, e1, e2]
    · intro x hx
      rcases List.mem_cons.1 hx with rfl | hx
      · exact m2 _ s1
      · exact s2 x hx

theorem inv_bound {g : Graph} {sums : List Nat} {q : Q} {popped : List Nat}
    (h : MInv0 g sums q popped) : q.items.length + popped.length ≤ g.length := by
  have := nodup_length_le (m := g.map (·.id)) h.nodup (by
    intro x hx
    apply get?_isSome_mem
    apply h.ing
    rcases List.mem_append.1 hx with hx | hx
    · exact h.items_seen x hx
    · exact h.popped_seen x hx)
  simpa using this

theorem pop_step {g : Graph} {sums : List Nat} {q : Q} {popped : List Nat} (hwf : g.wf = true)
    (h : MInv g sums q popped) :
    (q.items = [] ∧ Q.popInsertParents g q = .ok (none, q)) ∨
    (∃ id q', Q.popInsertParents g q = .ok (some id, q') ∧ MInv g sums q' (id :: popped) ∧
      popped.length < g.length) := by
  obtain ⟨items, seen⟩ := q
  cases items with
  | nil => left; exact ⟨rfl, rfl⟩
  | cons hd rest =>
    right
    obtain ⟨id, t⟩ := hd
    have hb := inv_bound h.toMInv0
    have hid : id ∈ seen := h.items_seen id (by simp)
    have hg := h.ing id hid
    cases hc : g.get? id with
    | none => simp [hc] at hg
    | some c =>
      have hnd : (rest.map Prod.fst ++ id :: popped).Nodup := by
        have hp : (rest.map Prod.fst ++ id :: popped).Perm (id :: (rest.map Prod.fst ++ popped)) :=
          List.perm_middle
        rw [hp.nodup_iff]
        simpa using h.nodup
      have h0 : MInv0 g sums { items := rest, seen := seen } (id :: popped) := by
        constructor
        · intro x hx
          exact h.items_seen x (by simp at hx ⊢; exact Or.inr hx)
        · intro x hx
          rcases h.seen_cover x hx with h1 | h1
          · simp only [List.map_cons, List.mem_cons] at h1
            rcases h1 with rfl | h1
            · exact Or.inr (by simp)
            · exact Or.inl h1
          · exact Or.inr (List.mem_cons_of_mem _ h1)
        · intro x hx
          rcases List.mem_cons.1 hx with rfl | hx
          · exact hid
          · exact h.popped_seen x hx
        · exact h.reach
        · exact hnd
        · exact h.ing
        · exact h.root
      have hpar : parentsOf g id = c.parents := by simp [parentsOf, hc]
      obtain ⟨s0, hs0, hr0⟩ := h.reach id hid
      obtain ⟨q', e, h', m, s⟩ := insertAll_step c.parents _ h0
        (fun p hp => ⟨s0, hs0, reach_trans (Reach.step (by rw [hpar]; exact hp) (Reach.refl p)) hr0⟩)
        (wf_parents hwf hc)
      refine ⟨id, q', ?_, ⟨h', ?_⟩, ?_⟩
      · simp only [Q.popInsertParents, hc, e]
      · intro x hx p hp
        rcases List.mem_cons.1 hx with rfl | hx
        · rw [hpar] at hp; exact s p hp
        · exact m p (h.closed x hx p hp)
      · simp at hb; omega

theorem inv_eof {g : Graph} {sums : List Nat} {q : Q} {popped : List Nat}
    (h : MInv g sums q popped) (he : q.items = []) : ∀ x, x ∈ popped ↔ Tgt g sums x := by
  have hsp : ∀ x, x ∈ q.seen → x ∈ popped := by
    intro x hx
    rcases h.seen_cover x hx with h1 | h1
    · simp [he] at h1
    · exact h1
  intro x
  constructor
  · intro hx; exact h.reach x (h.popped_seen x hx)
  · rintro ⟨s, hs, hx⟩
    exact Reach.closed g (fun y => y ∈ popped) s (hsp s (h.root s hs))
      (fun y hy p hp => hsp p (h.closed y hy p hp)) x hx

theorem inv_popped_nodup {g : Graph} {sums : List Nat} {q : Q} {popped : List Nat}
    (h : MInv g sums q popped) : popped.Nodup :=
  (List.nodup_append.1 h.nodup).2.1

theorem walkLoop_correct {g : Graph} (hwf : g.wf = true) (sums : List Nat) :
    ∀ (fuel : Nat) (q : Q) (acc : List Nat), MInv g sums q acc →
      g.length + 1 ≤ fuel + acc.length →
      ∃ l, walkLoop g fuel q acc = .ok l ∧ l.Nodup ∧ ∀ x, x ∈ l ↔ Tgt g sums x := by
  intro fuel
  induction fuel with
  | zero =>
    intro q acc h hf
    have := inv_bound h.toMInv0
    omega
  | succ fuel ih =>
    intro q acc h hf
    rcases pop_step hwf h with ⟨he, e⟩ | ⟨id, q', e, h', hlt⟩
    · simp only [walkLoop, e]
      refine ⟨_, rfl, ?_, ?_⟩
      · exact (List.reverse_perm acc).nodup_iff.2 (inv_popped_nodup h)
      · intro x
        rw [List.mem_reverse]
        exact inv_eof h he x
    · simp only [walkLoop, e]
      apply ih q' (id :: acc) h'
      simp only [List.length_cons]; omega

/-! ### the initial queue of `queueOf` -/

theorem nodup_eraseDups : ∀ (n : Nat) (l : List Nat), l.length ≤ n → l.eraseDups.Nodup := by
  intro n
  induction n with
  | zero =>
    intro l h
    have : l = [] := List.length_eq_zero_iff.1 (Nat.le_zero.1 h)
    subst this; simp
  | succ n ih =>
    intro l h
    cases l with
    | nil => simp
    | cons a as =>
      rw [List.eraseDups_cons, List.nodup_cons]
      refine ⟨?_, ih _ ?_⟩
      · simp [List.mem_eraseDups]
      · have := List.length_filter_le (fun b => !b == a) as
        simp only [List.length_cons] at h
        omega

theorem filterMap_fst {g : Graph} : ∀ (ids : List Nat), (∀ i ∈ ids, (g.get? i).isSome = true) →
    (ids.filterMap (fun i => (g.get? i).map (fun c => (i, c.time)))).map Prod.fst = ids := by
  intro ids
  induction ids with
  | nil => intro _; rfl
  | cons i is ih =>
    intro h
    have hi := h i (by simp)
    cases hc : g.get? i with
    | none => simp [hc] at hi
    | some c =>
      have := ih (fun j hj => h j (by simp [hj]))
      simp [hc, this]

theorem queueOf_inv {g : Graph} (tie : List (Nat × Int) → List (Nat × Int))
    (htie : ∀ l, (tie l).Perm l) (sums : List Nat)
    (hs : ∀ s ∈ sums, (g.get? s).isSome = true) :
    ∃ q, queueOf g tie sums = .ok q ∧ MInv g sums q [] := by
  have hids : ∀ i ∈ sums.eraseDups, (g.get? i).isSome = true :=
    fun i hi => hs i (List.mem_eraseDups.1 hi)
  have hany : (sums.eraseDups.any (fun i => (g.get? i).isNone)) = false := by
    rw [List.any_eq_false]
    intro i hi
    have := hids i hi
    cases hc : g.get? i with
    | none => simp [hc] at this
    | some c => simp
  have hfst : ((tie (sums.eraseDups.filterMap
      (fun i => (g.get? i).map (fun c => (i, c.time))))).map Prod.fst).Perm sums.eraseDups := by
    have := (htie (sums.eraseDups.filterMap
      (fun i => (g.get? i).map (fun c => (i, c.time))))).map Prod.fst
    rwa [filterMap_fst _ hids] at this
  refine ⟨_, by simp only [queueOf, hany]; rfl, ⟨?_, ?_⟩⟩
  · constructor
    · intro x hx; exact hfst.mem_iff.1 hx
    · intro x hx; left; exact hfst.mem_iff.2 hx
    · intro x hx; simp at hx
    · intro x hx
      exact ⟨x, List.mem_eraseDups.1 hx, Reach.refl _⟩
    · rw [List.append_nil, hfst.nodup_iff]
      exact nodup_eraseDups _ _ (Nat.le_refl _)
    · exact hids
    · intro s hs'; exact List.mem_eraseDups.2 hs'
  · intro x hx; simp at hx

end C11MultiAux

end Wrgl
