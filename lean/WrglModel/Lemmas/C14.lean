import WrglModel.Model.Tx
namespace Wrgl

def lookupHead (hs : List (String × Cid)) (b : String) : Cid := ((hs.find? (fun p => p.1 == b)).map (·.2)).getD .none

/-- a freshly staged, open transaction -/
structure TxSt.Fresh (s : TxSt) : Prop where
  exists_ : s.exists_ = true
  open_ : s.committed = false
  noLogs : s.logs = []
  stagedNodup : (s.staged.map (·.1)).Nodup

/-- `order` enumerates the staged branches (any order: Go iterates a map) -/
def IsOrder (s : TxSt) (order : List String) : Prop := order.Perm (s.staged.map (·.1))

namespace C14

theorem head_eq_lookup (s : TxSt) (b : String) : s.head b = lookupHead s.heads b := rfl

theorem find_map_key (hs : List (String × Cid)) (b b' : String) (c : Cid) :
    (hs.map (fun p => if p.1 == b then (b, c) else p)).find? (fun p => p.1 == b') =
      (hs.find? (fun p => p.1 == b')).map (fun p => if p.1 == b then (b, c) else p) := by
  rw [List.find?_map]
  congr 1
  congr 1
  funext p
  simp only [Function.comp]
  by_cases h : p.1 = b
  · simp [h]
  · simp [h]

theorem lookup_setHead (hs : List (String × Cid)) (b b' : String) (c : Cid) :
    lookupHead (setHead hs b c) b' = if b' = b then c else lookupHead hs b' := by
  unfold setHead
  split
  · rename_i hany
    unfold lookupHead
    rw [find_map_key]
    by_cases hb : b' = b
    · subst hb
      obtain ⟨x, hx, hxb⟩ := List.any_eq_true.mp hany
      cases hf : hs.find? (fun p => p.1 == b') with
      | none =>
        rw [List.find?_eq_none] at hf
        exact absurd hxb (hf x hx)
      | some y =>
        have := List.find?_some hf
        simp at this
        simp [this]
    · cases hf : hs.find? (fun p => p.1 == b') with
      | none => simp [hb]
      | some y =>
        have := List.find?_some hf
        simp at this
        have h2 : ¬ y.1 = b := fun h => hb (this ▸ h)
        simp [hb, h2]
  · rename_i hany
    by_cases hb : b' = b
    · subst hb
      have : hs.find? (fun p => p.1 == b') = none := by
        simp only [List.find?_eq_none]; intro x hx hxb
        exact hany (List.any_eq_true.mpr ⟨x, hx, hxb⟩)
      simp [lookupHead, List.find?_append, this]
    · have : ¬ b = b' := fun h => hb h.symm
      simp [lookupHead, List.find?_append, hb, this]

/-- staged commit of branch `b` -/
def stagedOf (st : List (String × Nat)) (b : String) : Option Nat := (st.find? (fun p => p.1 == b)).map (·.2)

theorem stagedOf_none_of_not_mem (st : List (String × Nat)) (b : String) (h : b ∉ st.map (·.1)) :
    stagedOf st b = none := by
  unfold stagedOf
  have : st.find? (fun p => p.1 == b) = none := by
    rw [List.find?_eq_none]; intro x hx hxb
    apply h
    simp at hxb
    exact List.mem_map.mpr ⟨x, hx, hxb⟩
  simp [this]

theorem stagedOf_isSome_iff (st : List (String × Nat)) (b : String) :
    (stagedOf st b).isSome = (st.map (·.1)).contains b := by
  induction st with
  | nil => simp [stagedOf]
  | cons p st ih =>
    unfold stagedOf at ih ⊢
    by_cases h : p.1 = b
    · simp [h]
    · have h' : ¬ b = p.1 := fun e => h e.symm
      have hbeq : (b == p.1) = false := by simp [h']
      simp [h, hbeq] at ih ⊢
      exact ih

/-- characterization of the all-branches outcome -/
theorem lookup_fold (h0 : String → Cid) (l : List (String × Nat)) (hnd : (l.map (·.1)).Nodup)
    (hs : List (String × Cid)) (b : String) :
    lookupHead (l.foldl (fun hs (p : String × Nat) => setHead hs p.1 (Cid.txc p.2 (h0 p.1))) hs) b =
      match stagedOf l b with
      | some st => Cid.txc st (h0 b)
      | none => lookupHead hs b := by
  induction l generalizing hs with
  | nil => simp [stagedOf]
  | cons p l ih =>
    simp only [List.map_cons, List.nodup_cons] at hnd
    rw [List.foldl_cons, ih hnd.2]
    by_cases hb : p.1 = b
    · subst hb
      rw [stagedOf_none_of_not_mem l _ hnd.1]
      simp [stagedOf, lookup_setHead]
    · have hb' : ¬ b = p.1 := fun e => hb e.symm
      have : stagedOf (p :: l) b = stagedOf l b := by simp [stagedOf, hb]
      rw [this]
      cases stagedOf l b with
      | none => simp [lookup_setHead, hb']
      | some st => rfl

theorem lookup_all (init : TxSt) (hnd : (init.staged.map (·.1)).Nodup) (b : String) :
    lookupHead (allBranchesHeads init) b =
      match stagedOf init.staged b with
      | some st => Cid.txc st (init.head b)
      | none => init.head b := by
  unfold allBranchesHeads
  rw [lookup_fold (fun x => init.head x) init.staged hnd init.heads b]
  rfl

/-- number of log entries of this transaction for branch `b` -/
def cnt (logs : List TxLog) (b : String) : Nat := (logs.filter (fun l => l.branch == b)).length

theorem any_iff_cnt (logs : List TxLog) (b : String) :
    logs.any (fun l => l.branch == b) = true ↔ 0 < cnt logs b := by
  unfold cnt
  rw [List.length_pos_iff_exists_mem]
  simp [List.mem_filter]

theorem cnt_append_one (logs : List TxLog) (l : TxLog) (b : String) :
    cnt (logs ++ [l]) b = cnt logs b + if l.branch = b then 1 else 0 := by
  unfold cnt
  by_cases h : l.branch = b <;> simp [List.filter_append, h]

/-- per-branch part of the re-run invariant: a branch is either not logged and at its original
    head, or logged exactly once and at its final head -/
def InvBr (init s : TxSt) : Prop :=
  ∀ b, (cnt s.logs b = 0 ∧ s.head b = init.head b) ∨
       (cnt s.logs b = 1 ∧ ∃ st, stagedOf init.staged b = some st ∧ s.head b = Cid.txc st (init.head b))

/-- the re-run invariant -/
structure Inv (init s : TxSt) : Prop where
  staged : s.staged = init.staged
  ex : s.exists_ = init.exists_
  com : s.committed = init.committed
  br : InvBr init s

theorem Inv.init (init : TxSt) (hl : init.logs = []) : Inv init init :=
  ⟨rfl, rfl, rfl, fun b => Or.inl ⟨by simp [hl, cnt], rfl⟩⟩

/-- one fully executed branch step preserves the invariant -/
theorem Inv.step {init s : TxSt} (hi : Inv init s) (b : String) (st : Nat) (objs : List Cid)
    (hst : stagedOf s.staged b = some st) (hnl : ¬ (s.logs.any (fun l => l.branch == b) = true)) :
    Inv init { s with objects := objs, heads := setHead s.heads b (Cid.txc st (s.head b)),
                      logs := s.logs ++ [{ branch := b, new := Cid.txc st (s.head b), old := s.head b }] } := by
  have hc0 : cnt s.logs b = 0 := by
    rw [any_iff_cnt] at hnl; omega
  have hhead : s.head b = init.head b := by
    rcases hi.br b with h | h
    · exact h.2
    · omega
  refine ⟨hi.staged, hi.ex, hi.com, fun b' => ?_⟩
  simp only [head_eq_lookup, lookup_setHead, cnt_append_one]
  by_cases hb : b' = b
  · subst hb
    right
    refine ⟨by simp [hc0], st, ?_, ?_⟩
    · rw [← hi.staged]; exact hst
    · simp [← head_eq_lookup, hhead]
  · have hb' : ¬ b = b' := fun e => hb e.symm
    simp only [hb, hb', if_false, Nat.add_zero, ← head_eq_lookup]
    exact hi.br b'

theorem Inv.objs {init s : TxSt} (hi : Inv init s) (objs : List Cid) : Inv init { s with objects := objs } :=
  ⟨hi.staged, hi.ex, hi.com, hi.br⟩

theorem inv_commitBranches (init : TxSt) (bs : List String) (budget : Option Nat) (s : TxSt) (hi : Inv init s) :
    Inv init (commitBranches true bs budget s).1 := by
  induction bs generalizing budget s with
  | nil => simpa [commitBranches] using hi
  | cons b bs ih =>
    unfold commitBranches
    split
    · exact ih _ _ hi
    · rename_i hnl
      simp only [Bool.true_and] at hnl
      split
      · exact ih _ _ hi
      · rename_i st hst
        split
        · exact hi
        · dsimp only
          split
          · exact hi.objs _
          · exact ih _ _ (hi.step b st _ hst hnl)

theorem staged_commitBranches (g : Bool) (bs : List String) (budget : Option Nat) (s : TxSt) :
    (commitBranches g bs budget s).1.staged = s.staged := by
  induction bs generalizing budget s with
  | nil => rfl
  | cons b bs ih =>
    unfold commitBranches
    split
    · exact ih _ _
    · split
      · exact ih _ _
      · split
        · rfl
        · dsimp only
          split
          · rfl
          · rw [ih]

theorem cnt_mono (g : Bool) (bs : List String) (budget : Option Nat) (s : TxSt) (b' : String) :
    cnt s.logs b' ≤ cnt (commitBranches g bs budget s).1.logs b' := by
  induction bs generalizing budget s with
  | nil => exact Nat.le_refl _
  | cons b bs ih =>
    unfold commitBranches
    split
    · exact ih _ _
    · split
      · exact ih _ _
      · split
        · exact Nat.le_refl _
        · dsimp only
          split
          · exact Nat.le_refl _
          · refine Nat.le_trans ?_ (ih _ _)
            dsimp only
            rw [cnt_append_one]
            omega

theorem cb_skip_logged (g : Bool) (b : String) (bs : List String) (budget : Option Nat) (s : TxSt)
    (h : (g && s.logs.any (fun l => l.branch == b)) = true) :
    commitBranches g (b :: bs) budget s = commitBranches g bs budget s := by
  rw [commitBranches, if_pos h]

theorem cb_skip_unstaged (g : Bool) (b : String) (bs : List String) (budget : Option Nat) (s : TxSt)
    (h : ¬ (g && s.logs.any (fun l => l.branch == b)) = true) (hs : stagedOf s.staged b = none) :
    commitBranches g (b :: bs) budget s = commitBranches g bs budget s := by
  unfold stagedOf at hs
  rw [commitBranches, if_neg h, hs]

theorem cb_fail1 (g : Bool) (b : String) (bs : List String) (s : TxSt) (st : Nat)
    (h : ¬ (g && s.logs.any (fun l => l.branch == b)) = true) (hs : stagedOf s.staged b = some st) :
    commitBranches g (b :: bs) (some 0) s = (s, some 0, false) := by
  unfold stagedOf at hs
  rw [commitBranches, if_neg h, hs]
  rfl

theorem cb_fail2 (g : Bool) (b : String) (bs : List String) (s : TxSt) (st : Nat)
    (h : ¬ (g && s.logs.any (fun l => l.branch == b)) = true) (hs : stagedOf s.staged b = some st) :
    commitBranches g (b :: bs) (some 1) s =
      ({ s with objects := if s.objects.contains (Cid.txc st (s.head b)) then s.objects
                           else Cid.txc st (s.head b) :: s.objects }, some 0, false) := by
  unfold stagedOf at hs
  rw [commitBranches, if_neg h, hs]
  rfl

theorem cb_go (g : Bool) (b : String) (bs : List String) (budget : Option Nat) (s : TxSt) (st : Nat)
    (h : ¬ (g && s.logs.any (fun l => l.branch == b)) = true) (hs : stagedOf s.staged b = some st)
    (h0 : budget ≠ some 0) (h1 : budget ≠ some 1) :
    commitBranches g (b :: bs) budget s =
      commitBranches g bs (budget.map (· - 2))
        { s with objects := if s.objects.contains (Cid.txc st (s.head b)) then s.objects
                            else Cid.txc st (s.head b) :: s.objects,
                 heads := setHead s.heads b (Cid.txc st (s.head b)),
                 logs := s.logs ++ [{ branch := b, new := Cid.txc st (s.head b), old := s.head b }] } := by
  unfold stagedOf at hs
  rw [commitBranches, if_neg h, hs]
  cases budget with
  | none => rfl
  | some n =>
    match n, h0, h1 with
    | n + 2, _, _ => simp [Nat.add_sub_cancel]

/-- a run that was not interrupted has logged every staged branch of its order -/
theorem logged_of_done (bs : List String) (budget : Option Nat) (s : TxSt)
    (hd : (commitBranches true bs budget s).2.2 = true) :
    ∀ b ∈ bs, (stagedOf s.staged b).isSome = true → 0 < cnt (commitBranches true bs budget s).1.logs b := by
  induction bs generalizing budget s with
  | nil => intro b hb; cases hb
  | cons b bs ih =>
    intro b' hb' hst'
    by_cases hl : (true && s.logs.any (fun l => l.branch == b)) = true
    · rw [cb_skip_logged _ _ _ _ _ hl] at hd ⊢
      rcases List.mem_cons.mp hb' with rfl | hm
      · simp only [Bool.true_and] at hl
        exact Nat.lt_of_lt_of_le ((any_iff_cnt _ _).mp hl) (cnt_mono _ _ _ _ _)
      · exact ih _ _ hd b' hm hst'
    · cases hs : stagedOf s.staged b with
      | none =>
        rw [cb_skip_unstaged _ _ _ _ _ hl hs] at hd ⊢
        rcases List.mem_cons.mp hb' with rfl | hm
        · rw [hs] at hst'; cases hst'
        · exact ih _ _ hd b' hm hst'
      | some st =>
        by_cases h0 : budget = some 0
        · subst h0; rw [cb_fail1 _ _ _ _ _ hl hs] at hd; cases hd
        · by_cases h1 : budget = some 1
          · subst h1; rw [cb_fail2 _ _ _ _ _ hl hs] at hd; cases hd
          · rw [cb_go _ _ _ _ _ _ hl hs h0 h1] at hd ⊢
            rcases List.mem_cons.mp hb' with rfl | hm
            · refine Nat.lt_of_lt_of_le ?_ (cnt_mono _ _ _ _ _)
              dsimp only
              rw [cnt_append_one]
              simp
            · exact ih _ _ hd b' hm hst'

theorem commitBranches_none (g : Bool) (bs : List String) (s : TxSt) :
    (commitBranches g bs none s).2 = (none, true) := by
  induction bs generalizing s with
  | nil => rfl
  | cons b bs ih =>
    unfold commitBranches
    split
    · exact ih _
    · split
      · exact ih _
      · simp only [Option.map_none]
        exact ih _

theorem txCommit_open (order : List String) (k : Option Nat) (s : TxSt)
    (he : s.exists_ = true) (ho : s.committed = false) :
    txCommit true order k s =
      if (commitBranches true order k s).2.2 = true ∧ (commitBranches true order k s).2.1 ≠ some 0 then
        ({ (commitBranches true order k s).1 with committed := true }, .ok)
      else ((commitBranches true order k s).1, .failed) := by
  unfold txCommit
  simp only [he, ho, Bool.not_true, Bool.and_false, Bool.false_eq_true, if_false]
  rcases hR : commitBranches true order k s with ⟨s', bud, flag⟩
  cases flag with
  | false => simp
  | true =>
    cases bud with
    | none => simp
    | some n =>
      cases n with
      | zero => simp
      | succ n => simp

theorem txCommit_none (order : List String) (s : TxSt)
    (he : s.exists_ = true) (ho : s.committed = false) :
    txCommit true order none s = ({ (commitBranches true order none s).1 with committed := true }, .ok) := by
  rw [txCommit_open order none s he ho, commitBranches_none]
  simp

theorem txCommit_committed (order : List String) (k : Option Nat) (s : TxSt)
    (he : s.exists_ = true) (hc : s.committed = true) : txCommit true order k s = (s, .refused) := by
  simp [txCommit, he, hc]

theorem mem_staged_iff (st : List (String × Nat)) (b : String) :
    b ∈ st.map (·.1) ↔ (stagedOf st b).isSome = true := by
  rw [stagedOf_isSome_iff]; simp

/-- the final state: invariant + every staged branch logged -/
theorem final_of_inv {init s : TxSt} (hnd : (init.staged.map (·.1)).Nodup) (hbr : InvBr init s)
    (hall : ∀ b, (stagedOf init.staged b).isSome = true → 0 < cnt s.logs b) (b : String) :
    s.head b = lookupHead (allBranchesHeads init) b ∧
    cnt s.logs b = if (init.staged.map (·.1)).contains b then 1 else 0 := by
  rw [lookup_all init hnd b, ← stagedOf_isSome_iff]
  have hall := hall b
  cases hs : stagedOf init.staged b with
  | none =>
    rcases hbr b with h | ⟨_, st, h, _⟩
    · simpa using ⟨h.2, h.1⟩
    · rw [hs] at h; cases h
  | some st =>
    rw [hs] at hall
    have hpos := hall rfl
    rcases hbr b with h | ⟨hc, st', h, hh⟩
    · omega
    · rw [hs] at h; cases h
      simpa using ⟨hh, hc⟩

theorem InvBr.commit {init s : TxSt} (h : InvBr init s) : InvBr init { s with committed := true } := h

theorem all_logged (init : TxSt) (order : List String) (h : IsOrder init order) (k : Option Nat) (s : TxSt)
    (hst : s.staged = init.staged) (hd : (commitBranches true order k s).2.2 = true) :
    ∀ b, (stagedOf init.staged b).isSome = true → 0 < cnt (commitBranches true order k s).1.logs b := by
  intro b hb
  have hm : b ∈ order := (List.Perm.mem_iff h).mpr ((mem_staged_iff _ _).mpr hb)
  exact logged_of_done order k s hd b hm (by rw [hst]; exact hb)

end C14

/-- C14, all-or-completable: commit a fresh transaction with a failure (or crash) before write
    number k, for ANY k and ANY branch orders; then re-run. Either the first run already succeeded
    (and the re-run is refused, changing nothing) or the re-run succeeds; in both cases every staged
    branch ends at the staged commit on top of its ORIGINAL head — moved exactly once, logged exactly
    once — other branches are untouched and the transaction is committed. -/
theorem tx_all_or_completable (init : TxSt) (hf : init.Fresh) (order1 order2 : List String)
    (h1 : IsOrder init order1) (h2 : IsOrder init order2) (k : Option Nat) :
    let r1 := txCommit true order1 k init
    let r2 := txCommit true order2 none r1.1
    (r2.2 = .ok ∨ (r1.2 = .ok ∧ r2.2 = .refused)) ∧
    r2.1.committed = true ∧
    (∀ b, r2.1.head b = lookupHead (allBranchesHeads init) b) ∧
    (∀ b, (r2.1.logs.filter (fun l => l.branch == b)).length = if (init.staged.map (·.1)).contains b then 1 else 0) := by
  intro r1 r2
  have hi1 : C14.Inv init (commitBranches true order1 k init).1 :=
    C14.inv_commitBranches init order1 k init (C14.Inv.init init hf.noLogs)
  have hfin : ∀ s : TxSt, C14.InvBr init s →
      (∀ b, (C14.stagedOf init.staged b).isSome = true → 0 < C14.cnt s.logs b) →
      (∀ b, s.head b = lookupHead (allBranchesHeads init) b) ∧
      (∀ b, (s.logs.filter (fun l => l.branch == b)).length = if (init.staged.map (·.1)).contains b then 1 else 0) :=
    fun s hbr hall => ⟨fun b => (C14.final_of_inv hf.stagedNodup hbr hall b).1,
                       fun b => (C14.final_of_inv hf.stagedNodup hbr hall b).2⟩
  by_cases hok : (commitBranches true order1 k init).2.2 = true ∧ (commitBranches true order1 k init).2.1 ≠ some 0
  · -- the first run succeeded; the second one is refused and changes nothing
    have e1 : r1 = ({ (commitBranches true order1 k init).1 with committed := true }, .ok) := by
      show txCommit true order1 k init = _
      rw [C14.txCommit_open order1 k init hf.exists_ hf.open_, if_pos hok]
    have e2 : r2 = (r1.1, .refused) := by
      show txCommit true order2 none r1.1 = _
      apply C14.txCommit_committed
      · rw [e1]; show (commitBranches true order1 k init).1.exists_ = true
        rw [hi1.ex]; exact hf.exists_
      · rw [e1]
    have hall := C14.all_logged init order1 h1 k init rfl hok.1
    obtain ⟨hh, hl⟩ := hfin _ hi1.br.commit hall
    rw [e2, e1]
    exact ⟨Or.inr ⟨rfl, rfl⟩, rfl, hh, hl⟩
  · -- the first run was interrupted; the re-run completes it
    have e1 : r1 = ((commitBranches true order1 k init).1, .failed) := by
      show txCommit true order1 k init = _
      rw [C14.txCommit_open order1 k init hf.exists_ hf.open_, if_neg hok]
    have he : r1.1.exists_ = true := by rw [e1]; show (commitBranches true order1 k init).1.exists_ = true; rw [hi1.ex]; exact hf.exists_
    have ho : r1.1.committed = false := by rw [e1]; show (commitBranches true order1 k init).1.committed = false; rw [hi1.com]; exact hf.open_
    have hi1' : C14.Inv init r1.1 := by rw [e1]; exact hi1
    have e2 : r2 = ({ (commitBranches true order2 none r1.1).1 with committed := true }, .ok) :=
      C14.txCommit_none order2 r1.1 he ho
    have hi2 : C14.Inv init (commitBranches true order2 none r1.1).1 := C14.inv_commitBranches init order2 none r1.1 hi1'
    have hd : (commitBranches true order2 none r1.1).2.2 = true := by rw [C14.commitBranches_none]
    have hall := C14.all_logged init order2 h2 none r1.1 hi1'.staged hd
    obtain ⟨hh, hl⟩ := hfin _ hi2.br.commit hall
    rw [e2]
    exact ⟨Or.inl rfl, rfl, hh, hl⟩

/-- a failed (interrupted) run leaves every branch either at its original head or at its final one -/
theorem tx_partial_state (init : TxSt) (hf : init.Fresh) (order : List String) (h : IsOrder init order) (k : Option Nat) :
    let r := txCommit true order k init
    ∀ b, r.1.head b = init.head b ∨ r.1.head b = lookupHead (allBranchesHeads init) b := by
  intro r b
  have _ := h  -- the order hypothesis is not needed for this property
  have hi1 : C14.Inv init (commitBranches true order k init).1 :=
    C14.inv_commitBranches init order k init (C14.Inv.init init hf.noLogs)
  have hbr : C14.InvBr init r.1 := by
    show C14.InvBr init (txCommit true order k init).1
    rw [C14.txCommit_open order k init hf.exists_ hf.open_]
    split
    · exact hi1.br.commit
    · exact hi1.br
  rcases hbr b with h | ⟨_, st, hs, hh⟩
  · exact Or.inl h.2
  · right
    rw [C14.lookup_all init hf.stagedNodup b, hs]
    exact hh

/-- a committed transaction can be neither committed again nor discarded, and the refused call
    changes nothing -/
theorem tx_committed_is_final (s : TxSt) (hc : s.committed = true) (he : s.exists_ = true) (order : List String) (k : Option Nat) :
    txCommit true order k s = (s, .refused) ∧ txDiscard true s = (s, .refused) := by
  constructor
  · exact C14.txCommit_committed order k s he hc
  · simp [txDiscard, he, hc]

/-- discarding an open transaction removes all staged refs and never touches a branch -/
theorem tx_discard_frame (s : TxSt) (ho : s.committed = false) (he : s.exists_ = true) :
    (txDiscard true s).2 = .ok ∧ (txDiscard true s).1.staged = [] ∧ (txDiscard true s).1.heads = s.heads ∧
    (txDiscard true s).1.logs = s.logs := by
  simp [txDiscard, he, ho]

/-- without the guards (the code before the repair) a second commit moves the branch again -/
theorem tx_unguarded_double_commit :
    let init : TxSt := { heads := [("a", .orig 1)], staged := [("a", 2)], logs := [], exists_ := true, committed := false, objects := [] }
    let s1 := (txCommit false ["a"] none init).1
    let s2 := (txCommit false ["a"] none s1).1
    s2.head "a" ≠ s1.head "a" := by
  decide

/-- without the early status check a refused discard has already deleted the staged refs -/
theorem tx_unguarded_discard_side_effect :
    let s : TxSt := { heads := [("a", .orig 1)], staged := [("a", 2)], logs := [], exists_ := true, committed := true, objects := [] }
    (txDiscard false s).1.staged ≠ s.staged := by
  decide

end Wrgl
