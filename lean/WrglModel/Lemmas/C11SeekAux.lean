import WrglModel.Model.Queue
import WrglModel.Spec.Graph
import WrglModel.Lemmas.C11
namespace Wrgl
namespace C11Aux

/-- `hasSeen` lifted to a possibly-nil base, as in the elimination loop -/
def seenB (q : Q) : Option Nat → Bool
  | some b => q.hasSeen b
  | none => false

/-- the elimination double loop, computed for exactly two entries -/
theorem elim_two (b0 b1 : Option Nat) (q0 q1 : Q) :
    elim ⟨[b0, b1], [q0, q1]⟩ =
      if seenB q0 b1 then .ok ⟨[b1], [q1]⟩
      else if seenB q1 b0 then .ok ⟨[b0], [q0]⟩
      else .ok ⟨[b0, b1], [q0, q1]⟩ := by
  cases h0 : seenB q0 b1 <;> cases h1 : seenB q1 b0 <;> cases b0 <;> cases b1 <;>
    simp [seenB] at h0 h1 <;> simp [elim, elimI, elimJ, h0, h1]

/-- one `PopInsertParents` on a queue satisfying the single-queue invariant, in the form needed
    by the two-queue loop (`k` = number of rounds so far) -/
theorem pop_step' {g : Graph} {b : Nat} {q : Q} {popped : List Nat} {k : Nat} (hwf : g.wf = true)
    (h : Inv g b q popped) (hl : popped.length = k ∨ q.items = []) :
    ∃ r q' p', Q.popInsertParents g q = .ok (r, q') ∧ Inv g b q' p' ∧
      (∀ c, r = some c → c ∈ q'.seen) ∧
      (∀ c ∈ p', c ∈ popped ∨ r = some c) ∧
      (∀ c ∈ popped, c ∈ p') ∧
      (p'.length = k + 1 ∨ q'.items = []) ∧
      (r = none → ∀ z, z ∈ popped ↔ Reach g z b) ∧
      (r ≠ none → k < g.length) := by
  rcases pop_step hwf h with ⟨he, e⟩ | ⟨id, q', e, h', hlt⟩
  · refine ⟨none, q, popped, e, h, ?_, ?_, ?_, Or.inr he, ?_, ?_⟩
    · intro c hc; cases hc
    · intro c hc; exact Or.inl hc
    · intro c hc; exact hc
    · intro _; exact inv_eof h he
    · intro hn; exact absurd rfl hn
  · have hne : q.items ≠ [] := by
      intro he
      simp [Q.popInsertParents, he] at e
    have hk : popped.length = k := by
      rcases hl with hl | hl
      · exact hl
      · exact absurd hl hne
    refine ⟨some id, q', id :: popped, e, h', ?_, ?_, ?_, Or.inl (by simp [hk]), ?_, ?_⟩
    · intro c hc
      cases hc
      exact h'.popped_seen id (by simp)
    · intro c hc
      rcases List.mem_cons.1 hc with rfl | hc
      · exact Or.inr rfl
      · exact Or.inl hc
    · intro c hc; exact List.mem_cons_of_mem _ hc
    · intro hn; cases hn
    · intro _; omega

/-- invariant of the two-queue `SeekCommonAncestor` loop, at the top of an iteration -/
structure SInv (g : Graph) (x y k : Nat) (b0 b1 : Option Nat) (q0 q1 : Q) (p0 p1 : List Nat) :
    Prop where
  i0 : Inv g x q0 p0
  i1 : Inv g y q1 p1
  s0 : ∀ b, b0 = some b → b ∈ q0.seen
  s1 : ∀ b, b1 = some b → b ∈ q1.seen
  d : ∀ c, c ∈ p0 → c ∈ p1 → b0 = some c ∨ b1 = some c
  l0 : p0.length = k ∨ q0.items = []
  l1 : p1.length = k ∨ q1.items = []
  kb : k ≤ g.length

theorem seekLoop_two {g : Graph} (hwf : g.wf = true) (x y : Nat) :
    ∀ (fuel k : Nat) (b0 b1 : Option Nat) (q0 q1 : Q) (p0 p1 : List Nat),
      SInv g x y k b0 b1 q0 q1 p0 p1 → g.length + 1 ≤ fuel + k →
      (∃ r, seekLoop g fuel ⟨[b0, b1], [q0, q1]⟩ = .ok (some r) ∧ Reach g r x ∧ Reach g r y) ∨
      (seekLoop g fuel ⟨[b0, b1], [q0, q1]⟩ = .err "not-found" ∧
        ¬ ∃ r, Reach g r x ∧ Reach g r y) := by
  intro fuel
  induction fuel with
  | zero =>
    intro k b0 b1 q0 q1 p0 p1 h hf
    have := h.kb
    omega
  | succ fuel ih =>
    intro k b0 b1 q0 q1 p0 p1 h hf
    simp only [seekLoop, elim_two]
    by_cases h0 : seenB q0 b1 = true
    · left
      cases b1 with
      | none => simp [seenB] at h0
      | some b =>
        have hb : b ∈ q0.seen := by simpa [seenB, Q.hasSeen] using h0
        refine ⟨b, ?_, h.i0.reach b hb, h.i1.reach b (h.s1 b rfl)⟩
        simp [h0]
    by_cases h1 : seenB q1 b0 = true
    · left
      cases b0 with
      | none => simp [seenB] at h1
      | some b =>
        have hb : b ∈ q1.seen := by simpa [seenB, Q.hasSeen] using h1
        refine ⟨b, ?_, h.i0.reach b (h.s0 b rfl), h.i1.reach b hb⟩
        simp [h0, h1]
    -- no elimination: the popped sets are disjoint
    have hd : ∀ c, c ∈ p0 → c ∈ p1 → False := by
      intro c hc0 hc1
      rcases h.d c hc0 hc1 with e | e
      · subst e
        apply h1
        simpa [seenB, Q.hasSeen] using h.i1.popped_seen c hc1
      · subst e
        apply h0
        simpa [seenB, Q.hasSeen] using h.i0.popped_seen c hc0
    obtain ⟨r0, q0', p0', e0, i0', s0', c0, m0, l0', f0, k0⟩ := pop_step' hwf h.i0 h.l0
    obtain ⟨r1, q1', p1', e1, i1', s1', c1, m1, l1', f1, k1⟩ := pop_step' hwf h.i1 h.l1
    simp only [h0, h1, Bool.false_eq_true, ↓reduceIte, popAll, e0, e1]
    by_cases hall : r0 = none ∧ r1 = none
    · obtain ⟨hr0, hr1⟩ := hall
      right
      subst hr0 hr1
      refine ⟨by simp, ?_⟩
      rintro ⟨r, hrx, hry⟩
      exact hd r ((f0 rfl r).2 hrx) ((f1 rfl r).2 hry)
    · have hk : k < g.length := by
        by_cases hr0 : r0 = none
        · exact k1 (fun hr1 => hall ⟨hr0, hr1⟩)
        · exact k0 hr0
      have hne : ((if r0.isNone = true then (if r1.isNone = true then 0 + 1 else 0) + 1
          else if r1.isNone = true then 0 + 1 else 0) == [q0', q1'].length) = false := by
        cases r0 <;> cases r1 <;> simp at hall ⊢
      have hne1 : ([b0, b1].length == 1) = false := by simp
      simp only [hne, hne1, Bool.false_eq_true, ↓reduceIte]
      apply ih (k + 1) r0 r1 q0' q1' p0' p1' _ (by omega)
      refine ⟨i0', i1', s0', s1', ?_, l0', l1', hk⟩
      intro c hc0 hc1
      rcases c0 c hc0 with hc0 | hc0
      · rcases c1 c hc1 with hc1 | hc1
        · exact absurd hc1 (fun hc1 => hd c hc0 hc1)
        · exact Or.inr hc1
      · exact Or.inl hc0

end C11Aux
end Wrgl
