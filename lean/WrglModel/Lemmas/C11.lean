import WrglModel.Model.Queue
import WrglModel.Spec.Graph
import WrglModel.Lemmas.Search
namespace Wrgl

theorem isAncestor_correct (g : Graph) (hwf : g.wf = true) (a b : Nat)
    (hb : (g.get? b).isSome = true) :
    (∃ r, isAncestorOf g a b = .ok r) ∧ (isAncestorOf g a b = .ok true ↔ Reach g a b) := by
  sorry

theorem walk_correct (g : Graph) (hwf : g.wf = true) (b : Nat)
    (hb : (g.get? b).isSome = true) :
    ∃ l, walk g b = .ok l ∧ l.Nodup ∧ ∀ x, x ∈ l ↔ Reach g x b := by
  sorry

end Wrgl
