import WrglModel.Model.Queue
import WrglModel.Spec.Graph
import WrglModel.Lemmas.Search
namespace Wrgl

namespace C11Aux

theorem get?_some {g : Graph} {id : Nat} {c : Commit} (h : g.get? id = some c) :
    c ∈ g ∧ c.id = id := by
  unfold Graph.get? at h
  have h1 := List.mem_of_find?_eq_some h
  have h2 := List.find?_some h
  exact ⟨h1, by simpa using h2⟩

theorem get?_isSome_mem {g : Graph} {id : Nat} (h : (g.get? id).isSome = true) :
    id ∈ g.map (·.id) := by
  cases hc : g.get? id with
  | none => simp [hc] at h
  | some c =>
    obtain ⟨h1, h2⟩ := get?_some hc
    exact List.mem_map.2 ⟨c, h1, h2⟩

theorem nodup_length_le {l m : List Nat} (hn : l.Nodup) (hs : ∀ x ∈ l, x ∈ m) :
    l.length ≤ m.length := by
  induction l generalizing m with
  | nil => simp
  | cons x xs ih =>
    have hx : x ∈ m := hs x (by simp)
    rw [List.nodup_cons] at hn
    have h1 := ih (m := m.erase x) hn.2 (by
      intro y hy
      have hne : y ≠ x := by intro e; subst e; exact hn.1 hy
      exact (List.mem_erase_of_ne hne).2 (hs y (by simp [hy])))
    have hl := List.length_erase_of_mem hx
    have hp : 0 < m.length := List.length_pos_of_mem hx
    simp only [List.length_cons]
    omega

theorem wf_nodup {g : Graph} (hwf : g.wf = true) : (g.map (·.id)).Nodup := by
  simp [Graph.wf] at hwf
  exact hwf.1

theorem wf_parents {g : Graph} (hwf : g.wf = true) {x : Nat} {c : Commit}
    (h : g.get? x = some c) : ∀ p ∈ c.parents, (g.get? p).isSome = true := by
  simp [Graph.wf] at hwf
  exact hwf.2 c (get?_some h).1

theorem reach_trans {g : Graph} {a m b : Nat} (h1 : Reach g a m) (h2 : Reach g m b) :
    Reach g a b := by
  induction h2 with
  | refl => exact h1
  | step hp _ ih => exact Reach.step hp ih

/-- loop invariant without the "popped is closed under parents" part -/
structure Inv0 (g : Graph) (b : Nat) (q : Q) (popped : List Nat) : Prop where
  items_seen : ∀ x ∈ q.items.map Prod.fst, x ∈ q.seen
  seen_cover : ∀ x ∈ q.seen, x ∈ q.items.map Prod.fst ∨ x ∈ popped
  popped_seen : ∀ x ∈ popped, x ∈ q.seen
  reach : ∀ x ∈ q.seen, Reach g x b
  nodup : (q.items.map Prod.fst ++ popped).Nodup
  ing : ∀ x ∈ q.seen, (g.get? x).isSome = true
  root : b ∈ q.seen

structure Inv (g : Graph) (b : Nat) (q : Q) (popped : List Nat) : Prop extends Inv0 g b q popped where
  closed : ∀ x ∈ popped, ∀ p ∈ parentsOf g x, p ∈ q.seen

theorem insert_step {g : Graph} {b : Nat} {q : Q} {popped : List Nat} {p : Nat}
    (h : Inv0 g b q popped) (hr : Reach g p b) (hg : (g.get? p).isSome = true) :
    ∃ q', Q.insert g q p = .ok q' ∧ Inv0 g b q' popped ∧ (∀ x ∈ q.seen, x ∈ q'.seen) ∧
      p ∈ q'.seen := by
  unfold Q.insert
  by_cases hs : q.hasSeen p = true
  · simp only [hs, ↓reduceIte]
    refine ⟨q, rfl, h, fun _ hx => hx, ?_⟩
    simpa [Q.hasSeen] using hs
  · simp only [hs]
    have hps : p ∉ q.seen := by simpa [Q.hasSeen] using hs
    cases hc : g.get? p with
    | none => simp [hc] at hg
    | some c =>
      simp only [Bool.false_eq_true, ↓reduceIte]
      refine ⟨_, rfl, ?_, ?_, ?_⟩
      · have hperm : (List.take (Q.insertPos q.items c.time) q.items ++
            (p, c.time) :: List.drop (Q.insertPos q.items c.time) q.items).Perm
            ((p, c.time) :: q.items) := by
          refine List.perm_middle.trans ?_
          rw [List.take_append_drop]
        have hmem : ∀ x, x ∈ (List.take (Q.insertPos q.items c.time) q.items ++
            (p, c.time) :: List.drop (Q.insertPos q.items c.time) q.items).map Prod.fst ↔
            x = p ∨ x ∈ q.items.map Prod.fst := by
          intro x
          rw [(hperm.map Prod.fst).mem_iff]
          simp
        constructor
        · intro x hx
          rcases (hmem x).1 hx with rfl | hx
          · simp
          · exact List.mem_cons_of_mem _ (h.items_seen x hx)
        · intro x hx
          rcases List.mem_cons.1 hx with rfl | hx
          · exact Or.inl ((hmem x).2 (Or.inl rfl))
          · rcases h.seen_cover x hx with h1 | h1
            · exact Or.inl ((hmem x).2 (Or.inr h1))
            · exact Or.inr h1
        · intro x hx
          exact List.mem_cons_of_mem _ (h.popped_seen x hx)
        · intro x hx
          rcases List.mem_cons.1 hx with rfl | hx
          · exact hr
          · exact h.reach x hx
        · have hperm2 := (hperm.map Prod.fst).append_right popped
          rw [hperm2.nodup_iff]
          simp only [List.map_cons, List.cons_append, List.nodup_cons]
          refine ⟨?_, h.nodup⟩
          intro hx
          rcases List.mem_append.1 hx with hx | hx
          · exact hps (h.items_seen p hx)
          · exact hps (h.popped_seen p hx)
        · intro x hx
          rcases List.mem_cons.1 hx with rfl | hx
          · exact hg
          · exact h.ing x hx
        · exact List.mem_cons_of_mem _ h.root
      · intro x hx
        exact List.mem_cons_of_mem _ hx
      · simp

theorem insertAll_step {g : Graph} {b : Nat} {popped : List Nat} (ps : List Nat) :
    ∀ (q : Q), Inv0 g b q popped → (∀ p ∈ ps, Reach g p b) →
      (∀ p ∈ ps, (g.get? p).isSome = true) →
      ∃ q', Q.insertAll g q ps = .ok q' ∧ Inv0 g b q' popped ∧ (∀ x ∈ q.seen, x ∈ q'.seen) ∧
        ∀ p ∈ ps, p ∈ q'.seen := by
  induction ps with
  | nil =>
    intro q h _ _
    exact ⟨q, rfl, h, fun _ hx => hx, by simp⟩
  | cons p ps ih =>
    intro q h hr hg
    obtain ⟨q1, e1, h1, m1, s1⟩ := insert_step h (hr p (by simp)) (hg p (by simp))
    obtain ⟨q2, e2, h2, m2, s2⟩ := ih q1 h1 (fun x hx => hr x (by simp [hx]))
      (fun x hx => hg x (by simp [hx]))
    refine ⟨q2, ?_, h2, fun x hx => m2 x (m1 x hx), ?_⟩
    · simp only [Q.insertAll, e1, e2]
    · intro x hx
      rcases List.mem_cons.1 hx with rfl | hx
      · exact m2 _ s1
      · exact s2 x hx

theorem inv_bound {g : Graph} {b : Nat} {q : Q} {popped : List Nat} (_hwf : g.wf = true)
    (h : Inv0 g b q popped) : q.items.length + popped.length ≤ g.length := by
  have := nodup_length_le (m := g.map (·.id)) h.nodup (by
    intro x hx
    apply get?_isSome_mem
    apply h.ing
    rcases List.mem_append.1 hx with hx | hx
    · exact h.items_seen x hx
    · exact h.popped_seen x hx)
  simpa using this

theorem pop_step {g : Graph} {b : Nat} {q : Q} {popped : List Nat} (hwf : g.wf = true)
    (h : Inv g b q popped) :
    (q.items = [] ∧ Q.popInsertParents g q = .ok (none, q)) ∨
    (∃ id q', Q.popInsertParents g q = .ok (some id, q') ∧ Inv g b q' (id :: popped) ∧
      popped.length < g.length) := by
  obtain ⟨items, seen⟩ := q
  cases items with
  | nil => left; exact ⟨rfl, rfl⟩
  | cons hd rest =>
    right
    obtain ⟨id, t⟩ := hd
    have hb := inv_bound hwf h.toInv0
    have hid : id ∈ seen := h.items_seen id (by simp)
    have hg := h.ing id hid
    cases hc : g.get? id with
    | none => simp [hc] at hg
    | some c =>
      have hnd : (rest.map Prod.fst ++ id :: popped).Nodup := by
        have hp : (rest.map Prod.fst ++ id :: popped).Perm (id :: (rest.map Prod.fst ++ popped)) :=
          List.perm_middle
        rw [hp.nodup_iff]
        simpa using h.nodup
      have h0 : Inv0 g b { items := rest, seen := seen } (id :: popped) := by
        constructor
        · intro x hx
          exact h.items_seen x (by simp at hx ⊢; exact Or.inr hx)
        · intro x hx
          rcases h.seen_cover x hx with h1 | h1
          · simp only [List.map_cons, List.mem_cons] at h1
            rcases h1 with rfl | h1
            · exact Or.inr (by simp)
            · exact Or.inl h1
          · exact Or.inr (List.mem_cons_of_mem _ h1)
        · intro x hx
          rcases List.mem_cons.1 hx with rfl | hx
          · exact hid
          · exact h.popped_seen x hx
        · exact h.reach
        · exact hnd
        · exact h.ing
        · exact h.root
      have hpar : parentsOf g id = c.parents := by simp [parentsOf, hc]
      obtain ⟨q', e, h', m, s⟩ := insertAll_step c.parents _ h0
        (fun p hp => reach_trans (Reach.step (by rw [hpar]; exact hp) (Reach.refl p))
          (h.reach id hid))
        (wf_parents hwf hc)
      refine ⟨id, q', ?_, ⟨h', ?_⟩, ?_⟩
      · simp only [Q.popInsertParents, hc, e]
      · intro x hx p hp
        rcases List.mem_cons.1 hx with rfl | hx
        · rw [hpar] at hp; exact s p hp
        · exact m p (h.closed x hx p hp)
      · simp at hb; omega

theorem inv_eof {g : Graph} {b : Nat} {q : Q} {popped : List Nat}
    (h : Inv g b q popped) (he : q.items = []) : ∀ x, x ∈ popped ↔ Reach g x b := by
  have hsp : ∀ x, x ∈ q.seen → x ∈ popped := by
    intro x hx
    rcases h.seen_cover x hx with h1 | h1
    · simp [he] at h1
    · exact h1
  intro x
  constructor
  · intro hx; exact h.reach x (h.popped_seen x hx)
  · intro hx
    exact Reach.closed g (fun y => y ∈ popped) b (hsp b h.root)
      (fun y hy p hp => hsp p (h.closed y hy p hp)) x hx

theorem inv_popped_nodup {g : Graph} {b : Nat} {q : Q} {popped : List Nat}
    (h : Inv g b q popped) : popped.Nodup :=
  (List.nodup_append.1 h.nodup).2.1

theorem single_inv {g : Graph} {b : Nat} (hb : (g.get? b).isSome = true) :
    ∃ q, Q.single g b = .ok q ∧ Inv g b q [] := by
  unfold Q.single
  cases hc : g.get? b with
  | none => simp [hc] at hb
  | some c =>
    refine ⟨_, rfl, ⟨?_, ?_⟩⟩
    · constructor
      · intro x hx; simpa using hx
      · intro x hx; left; simpa using hx
      · intro x hx; simp at hx
      · intro x hx
        have : x = b := by simpa using hx
        subst this; exact Reach.refl _
      · simp
      · intro x hx
        have : x = b := by simpa using hx
        subst this; exact hb
      · simp
    · intro x hx; simp at hx

theorem isAncestorLoop_correct {g : Graph} (hwf : g.wf = true) (a b : Nat) :
    ∀ (fuel : Nat) (q : Q) (popped : List Nat), Inv g b q popped → a ∉ popped →
      g.length + 1 ≤ fuel + popped.length →
      (∃ r, isAncestorLoop g a fuel q = .ok r) ∧
        (isAncestorLoop g a fuel q = .ok true ↔ Reach g a b) := by
  intro fuel
  induction fuel with
  | zero =>
    intro q popped h _ hf
    have := inv_bound hwf h.toInv0
    omega
  | succ fuel ih =>
    intro q popped h ha hf
    rcases pop_step hwf h with ⟨he, e⟩ | ⟨id, q', e, h', hlt⟩
    · simp only [isAncestorLoop, e]
      refine ⟨⟨false, rfl⟩, ?_⟩
      constructor
      · intro h1; cases h1
      · intro hr
        exact absurd ((inv_eof h he a).2 hr) ha
    · simp only [isAncestorLoop, e]
      by_cases hia : id = a
      · subst hia
        simp only [beq_self_eq_true, ↓reduceIte]
        refine ⟨⟨true, rfl⟩, ?_⟩
        constructor
        · intro _
          exact h'.reach id (h'.popped_seen id (by simp))
        · intro _; trivial
      · have : (id == a) = false := by simpa using hia
        simp only [this, Bool.false_eq_true, ↓reduceIte]
        apply ih q' (id :: popped) h'
        · intro hx
          rcases List.mem_cons.1 hx with rfl | hx
          · exact hia rfl
          · exact ha hx
        · simp only [List.length_cons]; omega

theorem walkLoop_correct {g : Graph} (hwf : g.wf = true) (b : Nat) :
    ∀ (fuel : Nat) (q : Q) (acc : List Nat), Inv g b q acc →
      g.length + 1 ≤ fuel + acc.length →
      ∃ l, walkLoop g fuel q acc = .ok l ∧ l.Nodup ∧ ∀ x, x ∈ l ↔ Reach g x b := by
  intro fuel
  induction fuel with
  | zero =>
    intro q acc h hf
    have := inv_bound hwf h.toInv0
    omega
  | succ fuel ih =>
    intro q acc h hf
    rcases pop_step hwf h with ⟨he, e⟩ | ⟨id, q', e, h', hlt⟩
    · simp only [walkLoop, e]
      refine ⟨_, rfl, ?_, ?_⟩
      · exact (List.reverse_perm acc).nodup_iff.2 (inv_popped_nodup h)
      · intro x
        rw [List.mem_reverse]
        exact inv_eof h he x
    · simp only [walkLoop, e]
      apply ih q' (id :: acc) h'
      simp only [List.length_cons]; omega

end C11Aux

open C11Aux in
theorem isAncestor_correct (g : Graph) (hwf : g.wf = true) (a b : Nat)
    (hb : (g.get? b).isSome = true) :
    (∃ r, isAncestorOf g a b = .ok r) ∧ (isAncestorOf g a b = .ok true ↔ Reach g a b) := by
  obtain ⟨q, e, h⟩ := single_inv hb
  simp only [isAncestorOf, e]
  exact isAncestorLoop_correct hwf a b _ q [] h (by simp) (by simp)

open C11Aux in
theorem walk_correct (g : Graph) (hwf : g.wf = true) (b : Nat)
    (hb : (g.get? b).isSome = true) :
    ∃ l, walk g b = .ok l ∧ l.Nodup ∧ ∀ x, x ∈ l ↔ Reach g x b := by
  obtain ⟨q, e, h⟩ := single_inv hb
  simp only [walk, e]
  exact walkLoop_correct hwf b _ q [] h (by simp)

end Wrgl
