/-
Auxiliary lemmas for C05: `eraseDups` facts, the per-column fold of `tryResolve`.
-/
import WrglModel.Model.Merge
import WrglModel.Spec.Merge
import WrglModel.Lemmas.C19
namespace Wrgl.C05Aux

/-! ### eraseDups -/

theorem eraseDups_eq_nil {α : Type} [BEq α] (l : List α) : l.eraseDups = [] ↔ l = [] := by
  cases l with
  | nil => simp
  | cons a as => simp [List.eraseDups_cons]

theorem eraseDups_headD {α : Type} [BEq α] (l : List α) (d : α) : l.eraseDups.headD d = l.headD d := by
  cases l with
  | nil => simp
  | cons a as => simp [List.eraseDups_cons]

theorem eraseDups_length_le_one {α : Type} [BEq α] [LawfulBEq α] (l : List α) :
    l.eraseDups.length ≤ 1 ↔ ∀ a ∈ l, ∀ b ∈ l, a = b := by
  cases l with
  | nil => simp
  | cons a as =>
    rw [List.eraseDups_cons]
    have e : (a :: (as.filter fun b => !b == a).eraseDups).length ≤ 1 ↔
        ∀ x ∈ as, ¬ (!x == a) = true := by
      rw [← List.filter_eq_nil_iff (p := fun b => !b == a), ← eraseDups_eq_nil, ← List.length_eq_zero_iff,
        List.length_cons]
      omega
    rw [e]
    simp only [List.mem_cons]
    constructor
    · intro h x hx y hy
      have hx' : x = a := by
        rcases hx with rfl | hx
        · rfl
        · simpa using h x hx
      have hy' : y = a := by
        rcases hy with rfl | hy
        · rfl
        · simpa using h y hy
      rw [hx', hy']
    · intro h x hx
      simp [h x (Or.inr hx) a (Or.inl rfl)]

theorem eraseDups_length_pos {α : Type} [BEq α] (l : List α) : 0 < l.eraseDups.length ↔ l ≠ [] := by
  rw [List.length_pos_iff, Ne, eraseDups_eq_nil]

theorem eraseDups_length_eq_one {α : Type} [BEq α] [LawfulBEq α] (l : List α) :
    l.eraseDups.length = 1 ↔ l ≠ [] ∧ ∀ a ∈ l, ∀ b ∈ l, a = b := by
  rw [← eraseDups_length_le_one, ← eraseDups_length_pos]
  omega

theorem nodup_eraseDups {α : Type} [BEq α] [LawfulBEq α] : ∀ (n : Nat) (l : List α), l.length ≤ n →
    l.eraseDups.Nodup := by
  intro n
  induction n with
  | zero =>
    intro l h
    have : l = [] := List.length_eq_zero_iff.1 (Nat.le_zero.1 h)
    subst this; simp
  | succ n ih =>
    intro l h
    cases l with
    | nil => simp
    | cons a as =>
      rw [List.eraseDups_cons, List.nodup_cons]
      refine ⟨?_, ih _ ?_⟩
      · simp [List.mem_eraseDups]
      · have := List.length_filter_le (fun b => !b == a) as
        simp only [List.length_cons] at h
        omega

/-! ### the per-column fold without added / removed columns -/

def step (bc : Option Bytes) (st : CellSt) (x : Bytes) : CellSt := cellStep bc false false x st

theorem fold_mod (bc : Option Bytes) (m : Bytes) : ∀ (xs : List Bytes) (v : Bytes) (u : Bool),
    ∃ v', xs.foldl (step bc) { add := none, mod := some m, rem := false, val := v, unresolved := u } =
        { add := none, mod := some m, rem := false, val := v',
          unresolved := u || (xs.filter (fun x => some x != bc)).any (fun x => x != m) } ∧
      ((u || (xs.filter (fun x => some x != bc)).any (fun x => x != m)) = false → v = m → v' = m) := by
  intro xs
  induction xs with
  | nil => intro v u; exact ⟨v, by simp⟩
  | cons x xs ih =>
    intro v u
    simp only [List.foldl_cons]
    by_cases hc : bc = some x
    · have hs : step bc { add := none, mod := some m, rem := false, val := v, unresolved := u } x =
          { add := none, mod := some m, rem := false, val := v, unresolved := u } := by
        simp [step, cellStep, hc]
      have hf : (some x != bc) = false := by simp [hc]
      rw [hs, List.filter_cons, hf]
      exact ih v u
    · have hf : (some x != bc) = true := by
        simp only [bne_iff_ne, ne_eq]; exact fun e => hc e.symm
      have hf' : (bc != some x) = true := by simp only [bne_iff_ne, ne_eq]; exact hc
      rw [List.filter_cons, hf]
      simp only [if_true, List.any_cons]
      by_cases hm : m = x
      · have hs : step bc { add := none, mod := some m, rem := false, val := v, unresolved := u } x =
            { add := none, mod := some m, rem := false, val := x, unresolved := u } := by
          simp [step, cellStep, hf', hm]
        rw [hs]
        obtain ⟨v', h1, h2⟩ := ih x u
        refine ⟨v', ?_, ?_⟩
        · rw [h1]; simp [hm]
        · intro hu _
          apply h2
          · simpa [hm] using hu
          · exact hm.symm
      · have hs : step bc { add := none, mod := some m, rem := false, val := v, unresolved := u } x =
            { add := none, mod := some m, rem := false, val := bc.getD [], unresolved := true } := by
          simp [step, cellStep, hf', hm, CellSt.unresolve]
        rw [hs]
        obtain ⟨v', h1, _⟩ := ih (bc.getD []) true
        have hxm : (x != m) = true := by simp only [bne_iff_ne, ne_eq]; exact fun e => hm e.symm
        refine ⟨v', ?_, ?_⟩
        · rw [h1]; simp [hxm]
        · simp [hxm]

theorem fold_init (bc : Option Bytes) : ∀ (xs : List Bytes),
    let st := xs.foldl (step bc)
      { add := none, mod := none, rem := false, val := bc.getD [], unresolved := false }
    (st.unresolved = true ↔ (changedVals bc xs).length ≥ 2) ∧
    (st.unresolved = false → st.val = (changedVals bc xs).headD (bc.getD [])) := by
  intro xs
  induction xs with
  | nil => simp [changedVals]
  | cons x xs ih =>
    simp only [List.foldl_cons]
    by_cases hc : bc = some x
    · have hs : step bc { add := none, mod := none, rem := false, val := bc.getD [], unresolved := false } x =
          { add := none, mod := none, rem := false, val := bc.getD [], unresolved := false } := by
        simp [step, cellStep, hc]
      have hf : (some x != bc) = false := by simp [hc]
      have hcv : changedVals bc (x :: xs) = changedVals bc xs := by
        simp only [changedVals, List.filter_cons, hf]; rfl
      rw [hs, hcv]
      exact ih
    · have hf : (some x != bc) = true := by
        simp only [bne_iff_ne, ne_eq]; exact fun e => hc e.symm
      have hf' : (bc != some x) = true := by simp only [bne_iff_ne, ne_eq]; exact hc
      have hs : step bc { add := none, mod := none, rem := false, val := bc.getD [], unresolved := false } x =
          { add := none, mod := some x, rem := false, val := x, unresolved := false } := by
        simp [step, cellStep, hf']
      rw [hs]
      obtain ⟨v', h1, h2⟩ := fold_mod bc x xs x false
      rw [h1]
      have hcv : changedVals bc (x :: xs) =
          x :: ((xs.filter (fun y => some y != bc)).filter (fun b => !b == x)).eraseDups := by
        simp only [changedVals, List.filter_cons, hf, if_true, List.eraseDups_cons]
      rw [hcv]
      simp only [Bool.false_or, List.length_cons, List.headD_cons]
      refine ⟨?_, ?_⟩
      · rw [List.any_eq_true]
        constructor
        · rintro ⟨y, hy, hne⟩
          have : 0 < (((xs.filter (fun y => some y != bc)).filter (fun b => !b == x)).eraseDups).length := by
            rw [eraseDups_length_pos]
            intro e
            have : y ∈ ((xs.filter (fun y => some y != bc)).filter (fun b => !b == x)) := by
              rw [List.mem_filter]; exact ⟨hy, by simpa using hne⟩
            rw [e] at this; cases this
          omega
        · intro h
          have : 0 < (((xs.filter (fun y => some y != bc)).filter (fun b => !b == x)).eraseDups).length := by omega
          rw [eraseDups_length_pos] at this
          obtain ⟨y, hy⟩ := List.exists_mem_of_ne_nil _ this
          rw [List.mem_filter] at hy
          exact ⟨y, hy.1, by simpa using hy.2⟩
      · intro hu
        exact h2 (by simpa using hu) rfl


/-! ### membership-congruence of the per-column quantities -/

theorem eraseDups_le_one_congr {α : Type} [BEq α] [LawfulBEq α] {l1 l2 : List α}
    (h : ∀ a, a ∈ l1 ↔ a ∈ l2) : l1.eraseDups.length ≤ 1 ↔ l2.eraseDups.length ≤ 1 := by
  rw [eraseDups_length_le_one, eraseDups_length_le_one]
  constructor
  · intro H a ha b hb; exact H a ((h a).2 ha) b ((h b).2 hb)
  · intro H a ha b hb; exact H a ((h a).1 ha) b ((h b).1 hb)

theorem nil_congr {α : Type} {l1 l2 : List α} (h : ∀ a, a ∈ l1 ↔ a ∈ l2) : l1 = [] ↔ l2 = [] := by
  constructor
  · intro e; subst e
    cases l2 with
    | nil => rfl
    | cons b bs => exact absurd ((h b).2 List.mem_cons_self) (by simp)
  · intro e; subst e
    cases l1 with
    | nil => rfl
    | cons b bs => exact absurd ((h b).1 List.mem_cons_self) (by simp)

theorem eraseDups_eq_one_congr {α : Type} [BEq α] [LawfulBEq α] {l1 l2 : List α}
    (h : ∀ a, a ∈ l1 ↔ a ∈ l2) : l1.eraseDups.length = 1 ↔ l2.eraseDups.length = 1 := by
  have h1 := eraseDups_le_one_congr h
  have h2 := nil_congr h
  have p1 := eraseDups_length_pos l1
  have p2 := eraseDups_length_pos l2
  constructor
  · intro e
    have : l2 ≠ [] := fun e2 => (p1.1 (by omega)) (h2.2 e2)
    have := p2.2 this
    have := h1.1 (by omega)
    omega
  · intro e
    have : l1 ≠ [] := fun e2 => (p2.1 (by omega)) (h2.1 e2)
    have := p1.2 this
    have := h1.2 (by omega)
    omega

theorem eraseDups_headD_congr {α : Type} [BEq α] [LawfulBEq α] {l1 l2 : List α}
    (h : ∀ a, a ∈ l1 ↔ a ∈ l2) (h1 : l1.eraseDups.length ≤ 1) (d : α) :
    l1.eraseDups.headD d = l2.eraseDups.headD d := by
  rw [eraseDups_headD, eraseDups_headD]
  rw [eraseDups_length_le_one] at h1
  cases l1 with
  | nil =>
    have := (nil_congr h).1 rfl
    subst this; rfl
  | cons a as =>
    cases l2 with
    | nil => exact absurd ((nil_congr h).2 rfl) (by simp)
    | cons b bs =>
      simp only [List.headD_cons]
      exact h1 a List.mem_cons_self b ((h b).2 List.mem_cons_self)

theorem mem_map_congr {α β : Type} (f : α → β) {l1 l2 : List α} (h : ∀ a, a ∈ l1 ↔ a ∈ l2) :
    ∀ b, b ∈ l1.map f ↔ b ∈ l2.map f := by
  intro b
  simp only [List.mem_map]
  constructor
  · rintro ⟨a, ha, e⟩; exact ⟨a, (h a).1 ha, e⟩
  · rintro ⟨a, ha, e⟩; exact ⟨a, (h a).2 ha, e⟩

theorem mem_filter_congr {α : Type} (p : α → Bool) {l1 l2 : List α} (h : ∀ a, a ∈ l1 ↔ a ∈ l2) :
    ∀ b, b ∈ l1.filter p ↔ b ∈ l2.filter p := by
  intro b
  simp only [List.mem_filter, h b]

theorem mem_filterMap_id_congr {α : Type} {l1 l2 : List (Option α)} (h : ∀ a, a ∈ l1 ↔ a ∈ l2) :
    ∀ b, b ∈ l1.filterMap id ↔ b ∈ l2.filterMap id := by
  intro b
  simp only [List.mem_filterMap, id]
  constructor
  · rintro ⟨a, ha, e⟩; exact ⟨a, (h a).1 ha, e⟩
  · rintro ⟨a, ha, e⟩; exact ⟨a, (h a).2 ha, e⟩

theorem all_congr_mem {α : Type} (p : α → Bool) {l1 l2 : List α} (h : ∀ a, a ∈ l1 ↔ a ∈ l2) :
    l1.all p = l2.all p := by
  rw [Bool.eq_iff_iff, List.all_eq_true, List.all_eq_true]
  constructor
  · intro H a ha; exact H a ((h a).2 ha)
  · intro H a ha; exact H a ((h a).1 ha)

theorem any_congr_mem {α : Type} (p : α → Bool) {l1 l2 : List α} (h : ∀ a, a ∈ l1 ↔ a ∈ l2) :
    l1.any p = l2.any p := by
  rw [Bool.eq_iff_iff, List.any_eq_true, List.any_eq_true]
  constructor
  · rintro ⟨a, ha, e⟩; exact ⟨a, (h a).1 ha, e⟩
  · rintro ⟨a, ha, e⟩; exact ⟨a, (h a).2 ha, e⟩

theorem isEmpty_congr_mem {α : Type} {l1 l2 : List α} (h : ∀ a, a ∈ l1 ↔ a ∈ l2) :
    l1.isEmpty = l2.isEmpty := by
  rw [Bool.eq_iff_iff, List.isEmpty_iff, List.isEmpty_iff]
  exact nil_congr h

/-! ### clean forms of `mergeKey` -/

def cellsAt (i : Nat) (l : List Row) : List Bytes := l.map (fun r => (r[i]?).getD [])

theorem mem_cellsAt_congr (i : Nat) {l1 l2 : List Row} (h : ∀ a, a ∈ l1 ↔ a ∈ l2) :
    ∀ b, b ∈ cellsAt i l1 ↔ b ∈ cellsAt i l2 := mem_map_congr _ h

theorem changedVals_le_one_congr (bc : Option Bytes) {l1 l2 : List Bytes} (h : ∀ a, a ∈ l1 ↔ a ∈ l2) :
    (changedVals bc l1).length ≤ 1 ↔ (changedVals bc l2).length ≤ 1 :=
  eraseDups_le_one_congr (mem_filter_congr _ h)

theorem changedVals_headD_congr (bc : Option Bytes) {l1 l2 : List Bytes} (h : ∀ a, a ∈ l1 ↔ a ∈ l2)
    (h1 : (changedVals bc l1).length ≤ 1) (d : Bytes) :
    (changedVals bc l1).headD d = (changedVals bc l2).headD d :=
  eraseDups_headD_congr (mem_filter_congr _ h) h1 d

theorem mergeKey_some (n : Nat) (br : Row) (xs : List (Option Row)) :
    mergeKey n (some br) xs =
      if (xs.filterMap id).all (fun r => r == br) then
        (if xs.any Option.isNone then .absent else .row br)
      else if xs.any Option.isNone then .conflict
      else if (List.range n).all (fun i =>
          decide ((changedVals (some ((br[i]?).getD [])) (cellsAt i (xs.filterMap id))).length ≤ 1)) then
        .row ((List.range n).map (fun i =>
          (changedVals (some ((br[i]?).getD [])) (cellsAt i (xs.filterMap id))).headD ((br[i]?).getD [])))
      else .conflict := by
  simp only [mergeKey, List.all_map, List.map_map]
  rfl

theorem mergeKey_none (n : Nat) (xs : List (Option Row)) :
    mergeKey n none xs =
      if (xs.filterMap id).isEmpty then .absent
      else if (List.range n).all (fun i => (cellsAt i (xs.filterMap id)).eraseDups.length == 1) then
        .row ((List.range n).map (fun i => (cellsAt i (xs.filterMap id)).eraseDups.headD []))
      else .conflict := by
  simp only [mergeKey, List.all_map, List.map_map]
  rfl

theorem ite_row_congr {c1 c2 : Bool} {r1 r2 : Row} (hc : c1 = c2) (hr : c1 = true → r1 = r2) :
    (if c1 = true then KeyOutcome.row r1 else .conflict) = (if c2 = true then KeyOutcome.row r2 else .conflict) := by
  subst hc
  cases c1 with
  | false => rfl
  | true => simp [hr rfl]

theorem all_range_congr (n : Nat) (p q : Nat → Bool) (h : ∀ i, i < n → p i = q i) :
    (List.range n).all p = (List.range n).all q := by
  rw [Bool.eq_iff_iff, List.all_eq_true, List.all_eq_true]
  constructor
  · intro H i hi; rw [← h i (List.mem_range.1 hi)]; exact H i hi
  · intro H i hi; rw [h i (List.mem_range.1 hi)]; exact H i hi

/-- the outcome only depends on the set of branch rows -/
theorem mergeKey_congr (n : Nat) (b : Option Row) (xs ys : List (Option Row))
    (h : ∀ o, o ∈ xs ↔ o ∈ ys) : mergeKey n b xs = mergeKey n b ys := by
  have hp := mem_filterMap_id_congr h
  cases b with
  | none =>
    rw [mergeKey_none, mergeKey_none, isEmpty_congr_mem hp]
    congr 1
    apply ite_row_congr
    · apply all_range_congr
      intro i _
      rw [Bool.eq_iff_iff, beq_iff_eq, beq_iff_eq]
      exact eraseDups_eq_one_congr (mem_cellsAt_congr i hp)
    · intro hall
      apply List.map_congr_left
      intro i hi
      have := List.all_eq_true.1 hall i hi
      rw [beq_iff_eq] at this
      exact eraseDups_headD_congr (mem_cellsAt_congr i hp) (by omega) _
  | some br =>
    rw [mergeKey_some, mergeKey_some, all_congr_mem _ hp, any_congr_mem _ h]
    congr 1
    congr 1
    apply ite_row_congr
    · apply all_range_congr
      intro i _
      rw [Bool.eq_iff_iff, decide_eq_true_iff, decide_eq_true_iff]
      exact changedVals_le_one_congr _ (mem_cellsAt_congr i hp)
    · intro hall
      apply List.map_congr_left
      intro i hi
      have := List.all_eq_true.1 hall i hi
      rw [decide_eq_true_iff] at this
      exact changedVals_headD_congr _ (mem_cellsAt_congr i hp) this _


/-! ### a key changed to a single row -/

theorem row_rebuild (n : Nat) (r : Row) (h : r.length = n) :
    (List.range n).map (fun i => (r[i]?).getD []) = r := by
  apply List.ext_getElem
  · simp [h]
  · intro i h1 h2
    simp only [List.getElem_map, List.getElem_range]
    rw [List.getElem?_eq_getElem h2]
    rfl

theorem changedVals_two_valued (bc v : Bytes) (cells : List Bytes)
    (h : ∀ c ∈ cells, c = bc ∨ c = v) (hv : v = bc ∨ v ∈ cells) :
    (changedVals (some bc) cells).length ≤ 1 ∧ (changedVals (some bc) cells).headD bc = v := by
  have hF : ∀ a ∈ cells.filter (fun x => some x != some bc), a = v := by
    intro a ha
    rw [List.mem_filter] at ha
    rcases h a ha.1 with e | e
    · subst e; simp at ha
    · exact e
  refine ⟨?_, ?_⟩
  · unfold changedVals
    rw [eraseDups_length_le_one]
    intro a ha b hb
    rw [hF a ha, hF b hb]
  · unfold changedVals
    rw [eraseDups_headD]
    cases hc : cells.filter (fun x => some x != some bc) with
    | nil =>
      simp only [List.headD_nil]
      by_cases e : v = bc
      · exact e.symm
      · have hv' : v ∈ cells := by
          rcases hv with e' | e'
          · exact absurd e' e
          · exact e'
        have : v ∈ cells.filter (fun x => some x != some bc) := by
          rw [List.mem_filter]; exact ⟨hv', by simpa using e⟩
        rw [hc] at this; cases this
    | cons a as =>
      simp only [List.headD_cons]
      exact hF a (by rw [hc]; exact List.mem_cons_self)

theorem mergeKey_two_valued (n : Nat) (br x : Row) (hbr : br.length = n) (hxl : x.length = n)
    (xs : List (Option Row)) (h : ∀ o ∈ xs, o = some br ∨ o = some x) (hx : some x ∈ xs) :
    mergeKey n (some br) xs = .row x := by
  have hp : ∀ r ∈ xs.filterMap id, r = br ∨ r = x := by
    intro r hr
    simp only [List.mem_filterMap, id] at hr
    obtain ⟨o, ho, e⟩ := hr
    subst e
    rcases h _ ho with e | e
    · left; injection e
    · right; injection e
  have hxp : x ∈ xs.filterMap id := by
    simp only [List.mem_filterMap, id]; exact ⟨some x, hx, rfl⟩
  have hnone : xs.any Option.isNone = false := by
    rw [Bool.eq_false_iff]
    intro hh
    rw [List.any_eq_true] at hh
    obtain ⟨o, ho, e⟩ := hh
    rcases h o ho with e' | e' <;> subst e' <;> simp at e
  rw [mergeKey_some, hnone]
  by_cases hall : (xs.filterMap id).all (fun r => r == br) = true
  · rw [if_pos hall]
    have := List.all_eq_true.1 hall x hxp
    simp only [beq_iff_eq] at this
    subst this
    simp
  · rw [if_neg hall]
    have hcol : ∀ i, (changedVals (some ((br[i]?).getD [])) (cellsAt i (xs.filterMap id))).length ≤ 1 ∧
        (changedVals (some ((br[i]?).getD [])) (cellsAt i (xs.filterMap id))).headD ((br[i]?).getD []) =
          (x[i]?).getD [] := by
      intro i
      apply changedVals_two_valued
      · intro c hc
        simp only [cellsAt, List.mem_map] at hc
        obtain ⟨r, hr, e⟩ := hc
        subst e
        rcases hp r hr with e | e <;> subst e <;> simp
      · right
        simp only [cellsAt, List.mem_map]
        exact ⟨x, hxp, rfl⟩
    have hc : (List.range n).all (fun i =>
          decide ((changedVals (some ((br[i]?).getD [])) (cellsAt i (xs.filterMap id))).length ≤ 1)) = true := by
      rw [List.all_eq_true]
      intro i _
      simpa using (hcol i).1
    simp only [Bool.false_eq_true, if_false, hc, if_true]
    congr 1
    refine Eq.trans (List.map_congr_left ?_) (row_rebuild n x hxl)
    intro i _
    exact (hcol i).2

end Wrgl.C05Aux
