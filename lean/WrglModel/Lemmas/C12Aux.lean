import WrglModel.Model.Prune
import WrglModel.Lemmas.C11
import WrglModel.Lemmas.C11Reach
namespace Wrgl

namespace C12Aux
open C11Aux

/-! ### no panics -/

theorem insert_ne_panic (g : Graph) (q : Q) (id : Nat) (p : String) : Q.insert g q id ≠ .panic p := by
  unfold Q.insert
  split
  · intro h; cases h
  · split <;> intro h <;> cases h

theorem insertAll_ne_panic (g : Graph) (ps : List Nat) : ∀ (q : Q) (p : String),
    Q.insertAll g q ps ≠ .panic p := by
  induction ps with
  | nil => intro q p h; cases h
  | cons x xs ih =>
    intro q p
    unfold Q.insertAll
    cases hx : Q.insert g q x with
    | ok q' => exact ih q' p
    | err e => intro h; cases h
    | panic s => exact absurd hx (insert_ne_panic g q x s)

theorem pop_ne_panic (g : Graph) (q : Q) (p : String) : Q.popInsertParents g q ≠ .panic p := by
  unfold Q.popInsertParents
  split
  · intro h; cases h
  · split
    · intro h; cases h
    · rename_i c _
      split
      · intro h; cases h
      · intro h; cases h
      · rename_i s hs
        exact absurd hs (insertAll_ne_panic g _ _ s)

theorem markLoop_ne_panic (g : Graph) : ∀ (fuel : Nat) (q : Q) (acc : List Nat) (p : String),
    markLoop g fuel q acc ≠ .panic p := by
  intro fuel
  induction fuel with
  | zero => intro q acc p h; cases h
  | succ fuel ih =>
    intro q acc p
    unfold markLoop
    cases hx : Q.popInsertParents g q with
    | ok r =>
      obtain ⟨o, q'⟩ := r
      cases o with
      | none => intro h; cases h
      | some id => exact ih q' _ p
    | err e => intro h; cases h
    | panic s => exact absurd hx (pop_ne_panic g q s)

/-! ### the walk invariant for several start nodes

`P` is "reachable from some start"; all that matters is that it is closed under parents. -/

structure MInv0 (g : Graph) (P : Nat → Prop) (q : Q) (popped : List Nat) : Prop where
  items_seen : ∀ x ∈ q.items.map Prod.fst, x ∈ q.seen
  seen_cover : ∀ x ∈ q.seen, x ∈ q.items.map Prod.fst ∨ x ∈ popped
  popped_seen : ∀ x ∈ popped, x ∈ q.seen
  reach : ∀ x ∈ q.seen, P x
  nodup : (q.items.map Prod.fst ++ popped).Nodup
  ing : ∀ x ∈ q.seen, (g.get? x).isSome = true

structure MInv (g : Graph) (P : Nat → Prop) (q : Q) (popped : List Nat) : Prop
    extends MInv0 g P q popped where
  closed : ∀ x ∈ popped, ∀ p ∈ parentsOf g x, p ∈ q.seen

theorem minsert_step {g : Graph} {P : Nat → Prop} {q : Q} {popped : List Nat} {p : Nat}
    (h : MInv0 g P q popped) (hr : P p) (hg : (g.get? p).isSome = true) :
    ∃ q', Q.insert g q p = .ok q' ∧ MInv0 g P q' popped ∧ (∀ x ∈ q.seen, x ∈ q'.seen) ∧
      p ∈ q'.seen := by
  unfold Q.insert
  by_cases hs : q.hasSeen p = true
  · simp only [hs, ↓reduceIte]
    refine ⟨q, rfl, h, fun _ hx => hx, ?_⟩
    simpa [Q.hasSeen] using hs
  · simp only [hs]
    have hps : p ∉ q.seen := by simpa [Q.hasSeen] using hs
    cases hc : g.get? p with
    | none => simp [hc] at hg
    | some c =>
      simp only [Bool.false_eq_true, ↓reduceIte]
      refine ⟨_, rfl, ?_, ?_, ?_⟩
      · have hperm : (List.take (Q.insertPos q.items c.time) q.items ++
            (p, c.time) :: List.drop (Q.insertPos q.items c.time) q.items).Perm
            ((p, c.time) :: q.items) := by
          refine List.perm_middle.trans ?_
          rw [List.take_append_drop]
        have hmem : ∀ x, x ∈ (List.take (Q.insertPos q.items c.time) q.items ++
            (p, c.time) :: List.drop (Q.insertPos q.items c.time) q.items).map Prod.fst ↔
            x = p ∨ x ∈ q.items.map Prod.fst := by
          intro x
          rw [(hperm.map Prod.fst).mem_iff]
          simp
        constructor
        · intro x hx
          rcases (hmem x).1 hx with rfl | hx
          · simp
          · exact List.mem_cons_of_mem _ (h.items_seen x hx)
        · intro x hx
          rcases List.mem_cons.1 hx with rfl | hx
          · exact Or.inl ((hmem x).2 (Or.inl rfl))
          · rcases h.seen_cover x hx with h1 | h1
            · exact Or.inl ((hmem x).2 (Or.inr h1))
            · exact Or.inr h1
        · intro x hx
          exact List.mem_cons_of_mem _ (h.popped_seen x hx)
        · intro x hx
          rcases List.mem_cons.1 hx with rfl | hx
          · exact hr
          · exact h.reach x hx
        · have hperm2 := (hperm.map Prod.fst).append_right popped
          rw [hperm2.nodup_iff]
          simp only [List.map_cons, List.cons_append, List.nodup_cons]
          refine ⟨?_, h.nodup⟩
          intro hx
          rcases List.mem_append.1 hx with hx | hx
          · exact hps (h.items_seen p hx)
          · exact hps (h.popped_seen p hx)
        · intro x hx
          rcases List.mem_cons.1 hx with rfl | hx
          · exact hg
          · exact h.ing x hx
      · intro x hx
        exact List.mem_cons_of_mem _ hx
      · simp

theorem minsertAll_step {g : Graph} {P : Nat → Prop} {popped : List Nat} (ps : List Nat) :
    ∀ (q : Q), MInv0 g P q popped → (∀ p ∈ ps, P p) →
      (∀ p ∈ ps, (g.get? p).isSome = true) →
      ∃ q', Q.insertAll g q ps = .ok q' ∧ MInv0 g P q' popped ∧ (∀ x ∈ q.seen, x ∈ q'.seen) ∧
        ∀ p ∈ ps, p ∈ q'.seen := by
  induction ps with
  | nil =>
    intro q h _ _
    exact ⟨q, rfl, h, fun _ hx => hx, by simp⟩
  | cons p ps ih =>
    intro q h hr hg
    obtain ⟨q1, e1, h1, m1, s1⟩ := minsert_step h (hr p (by simp)) (hg p (by simp))
    obtain ⟨q2, e2, h2, m2, s2⟩ := ih q1 h1 (fun x hx => hr x (by simp [hx]))
      (fun x hx => hg x (by simp [hx]))
    refine ⟨q2, ?_, h2, fun x hx => m2 x (m1 x hx), ?_⟩
    · simp only [Q.insertAll, e1, e2]
    · intro x hx
      rcases List.mem_cons.1 hx with rfl | hx
      · exact m2 _ s1
      · exact s2 x hx

theorem minv_bound {g : Graph} {P : Nat → Prop} {q : Q} {popped : List Nat}
    (h : MInv0 g P q popped) : q.items.length + popped.length ≤ g.length := by
  have := nodup_length_le (m := g.map (·.id)) h.nodup (by
    intro x hx
    apply get?_isSome_mem
    apply h.ing
    rcases List.mem_append.1 hx with hx | hx
    · exact h.items_seen x hx
    · exact h.popped_seen x hx)
  simpa using this

theorem mpop_step {g : Graph} {P : Nat → Prop} {q : Q} {popped : List Nat} (hwf : g.wf = true)
    (hP : ∀ x p, P x → p ∈ parentsOf g x → P p)
    (h : MInv g P q popped) :
    (q.items = [] ∧ Q.popInsertParents g q = .ok (none, q)) ∨
    (∃ id q', Q.popInsertParents g q = .ok (some id, q') ∧ MInv g P q' (id :: popped) ∧
      (∀ x ∈ q.seen, x ∈ q'.seen) ∧ popped.length < g.length) := by
  obtain ⟨items, seen⟩ := q
  cases items with
  | nil => left; exact ⟨rfl, rfl⟩
  | cons hd rest =>
    right
    obtain ⟨id, t⟩ := hd
    have hb := minv_bound h.toMInv0
    have hid : id ∈ seen := h.items_seen id (by simp)
    have hg := h.ing id hid
    cases hc : g.get? id with
    | none => simp [hc] at hg
    | some c =>
      have hnd : (rest.map Prod.fst ++ id :: popped).Nodup := by
        have hp : (rest.map Prod.fst ++ id :: popped).Perm (id :: (rest.map Prod.fst ++ popped)) :=
          List.perm_middle
        rw [hp.nodup_iff]
        simpa using h.nodup
      have h0 : MInv0 g P { items := rest, seen := seen } (id :: popped) := by
        constructor
        · intro x hx
          exact h.items_seen x (by simp at hx ⊢; exact Or.inr hx)
        · intro x hx
          rcases h.seen_cover x hx with h1 | h1
          · simp only [List.map_cons, List.mem_cons] at h1
            rcases h1 with rfl | h1
            · exact Or.inr (by simp)
            · exact Or.inl h1
          · exact Or.inr (List.mem_cons_of_mem _ h1)
        · intro x hx
          rcases List.mem_cons.1 hx with rfl | hx
          · exact hid
          · exact h.popped_seen x hx
        · exact h.reach
        · exact hnd
        · exact h.ing
      have hpar : parentsOf g id = c.parents := by simp [parentsOf, hc]
      obtain ⟨q', e, h', m, s⟩ := minsertAll_step c.parents _ h0
        (fun p hp => hP id p (h.reach id hid) (by rw [hpar]; exact hp))
        (wf_parents hwf hc)
      refine ⟨id, q', ?_, ⟨h', ?_⟩, m, ?_⟩
      · simp only [Q.popInsertParents, hc, e]
      · intro x hx p hp
        rcases List.mem_cons.1 hx with rfl | hx
        · rw [hpar] at hp; exact s p hp
        · exact m p (h.closed x hx p hp)
      · simp at hb; omega

theorem markLoop_correct {g : Graph} {P : Nat → Prop} (hwf : g.wf = true)
    (hP : ∀ x p, P x → p ∈ parentsOf g x → P p) :
    ∀ (fuel : Nat) (q : Q) (acc : List Nat), MInv g P q acc →
      g.length + 1 ≤ fuel + acc.length →
      ∃ l, markLoop g fuel q acc = .ok l ∧ l.Nodup ∧ (∀ x ∈ l, P x) ∧
        (∀ x ∈ l, (g.get? x).isSome = true) ∧ (∀ x ∈ q.seen, x ∈ l) ∧
        (∀ x ∈ l, ∀ p ∈ parentsOf g x, p ∈ l) := by
  intro fuel
  induction fuel with
  | zero =>
    intro q acc h hf
    have := minv_bound h.toMInv0
    omega
  | succ fuel ih =>
    intro q acc h hf
    rcases mpop_step hwf hP h with ⟨he, e⟩ | ⟨id, q', e, h', hm, hlt⟩
    · simp only [markLoop, e]
      have hsp : ∀ x, x ∈ q.seen → x ∈ acc := by
        intro x hx
        rcases h.seen_cover x hx with h1 | h1
        · simp [he] at h1
        · exact h1
      refine ⟨_, rfl, ?_, ?_, ?_, hsp, ?_⟩
      · exact (List.nodup_append.1 h.nodup).2.1
      · intro x hx; exact h.reach x (h.popped_seen x hx)
      · intro x hx; exact h.ing x (h.popped_seen x hx)
      · intro x hx p hp; exact hsp p (h.closed x hx p hp)
    · simp only [markLoop, e]
      obtain ⟨l, e1, h1, h2, h3, h4, h5⟩ := ih q' (id :: acc) h' (by simp only [List.length_cons]; omega)
      exact ⟨l, e1, h1, h2, h3, fun x hx => h4 x (hm x hx), h5⟩

/-! ### inserting the ref targets -/

theorem insertRefs_missing {g : Graph} {q : Q} {p : Nat} (rs : List Nat) (hp : g.get? p = none) :
    insertRefs g q (p :: rs) = insertRefs g q rs := by
  by_cases hs : q.hasSeen p = true
  · simp only [insertRefs, Q.insert, hs, ↓reduceIte]
  · simp only [insertRefs, Q.insert, hp, hs, Bool.false_eq_true, ↓reduceIte]

theorem insertRefs_inv {g : Graph} {P : Nat → Prop} (refs : List Nat) :
    ∀ (q : Q), MInv0 g P q [] → (∀ b ∈ refs, (g.get? b).isSome = true → P b) →
      MInv0 g P (insertRefs g q refs) [] ∧ (∀ x ∈ q.seen, x ∈ (insertRefs g q refs).seen) ∧
        ∀ b ∈ refs, (g.get? b).isSome = true → b ∈ (insertRefs g q refs).seen := by
  induction refs with
  | nil =>
    intro q h _
    exact ⟨h, fun _ hx => hx, by simp⟩
  | cons p ps ih =>
    intro q h hr
    cases hc : g.get? p with
    | none =>
      rw [insertRefs_missing ps hc]
      obtain ⟨h1, h2, h3⟩ := ih q h (fun b hb => hr b (by simp [hb]))
      refine ⟨h1, h2, ?_⟩
      intro b hb hg
      rcases List.mem_cons.1 hb with rfl | hb
      · simp [hc] at hg
      · exact h3 b hb hg
    | some c =>
      have hg : (g.get? p).isSome = true := by simp [hc]
      obtain ⟨q1, e1, i1, m1, s1⟩ := minsert_step h (hr p (by simp) hg) hg
      obtain ⟨h1, h2, h3⟩ := ih q1 i1 (fun b hb => hr b (by simp [hb]))
      have e : insertRefs g q (p :: ps) = insertRefs g q1 ps := by
        simp only [insertRefs, e1]
      rw [e]
      refine ⟨h1, fun x hx => h2 x (m1 x hx), ?_⟩
      intro b hb hg
      rcases List.mem_cons.1 hb with rfl | hb
      · exact h2 _ s1
      · exact h3 b hb hg

theorem minv0_empty (g : Graph) (P : Nat → Prop) : MInv0 g P { items := [], seen := [] } [] := by
  constructor <;> simp

/-- reachable from some ref that points at a stored commit -/
def FromRefs (g : Graph) (refs : List Nat) (a : Nat) : Prop :=
  ∃ b ∈ refs, (g.get? b).isSome = true ∧ Reach g a b

theorem fromRefs_closed (g : Graph) (refs : List Nat) :
    ∀ x p, FromRefs g refs x → p ∈ parentsOf g x → FromRefs g refs p := by
  intro x p ⟨b, hb, hg, hr⟩ hp
  exact ⟨b, hb, hg, reach_trans (Reach.step hp (Reach.refl p)) hr⟩

/-- the mark phase on a closed history: completes, and marks exactly the commits reachable
    from the refs that point at stored commits -/
theorem mark_correct (g : Graph) (hwf : g.wf = true) (refs : List Nat) :
    ∃ found, markLoop g (g.length + 2) (insertRefs g { items := [], seen := [] } refs) [] = .ok found ∧
      found.Nodup ∧ (∀ x ∈ found, (g.get? x).isSome = true) ∧
      ∀ a, a ∈ found ↔ FromRefs g refs a := by
  obtain ⟨h1, _, h3⟩ := insertRefs_inv (g := g) (P := FromRefs g refs) refs _
    (minv0_empty g _) (fun b hb hg => ⟨b, hb, hg, Reach.refl b⟩)
  have hinv : MInv g (FromRefs g refs) (insertRefs g { items := [], seen := [] } refs) [] :=
    ⟨h1, by intro x hx; simp at hx⟩
  obtain ⟨l, e, hn, hP, hg, hs, hc⟩ := markLoop_correct hwf (fromRefs_closed g refs)
    (g.length + 2) _ [] hinv (by simp)
  refine ⟨l, e, hn, hg, ?_⟩
  intro a
  constructor
  · exact hP a
  · intro ⟨b, hb, hgb, hr⟩
    exact Reach.closed g (fun y => y ∈ l) b (hs b (h3 b hb hgb)) hc a hr

/-! ### the computable closure from several starts -/

theorem closureN_sound' (g : Graph) (P : Nat → Prop)
    (hP : ∀ x p, P x → p ∈ parentsOf g x → P p) : ∀ n s, (∀ x ∈ s, P x) →
    ∀ x ∈ closureN g n s, P x := by
  intro n
  induction n with
  | zero => intro s hs x hx; exact hs x hx
  | succ n ih =>
    intro s hs x hx
    simp only [closureN] at hx
    refine ih (expand g s) ?_ x hx
    obtain ⟨t, e, h1, _, _⟩ := expand_spec g s
    rw [e]
    intro z hz
    rcases List.mem_append.1 hz with hz | hz
    · exact hs z hz
    · obtain ⟨y, hy, hp⟩ := h1 z hz
      exact hP y z (hs y hy) hp

theorem nodup_eraseDups : ∀ (n : Nat) (l : List Nat), l.length ≤ n → l.eraseDups.Nodup := by
  intro n
  induction n with
  | zero =>
    intro l hl
    have : l = [] := List.eq_nil_of_length_eq_zero (by omega)
    subst this; simp
  | succ n ih =>
    intro l hl
    cases l with
    | nil => simp
    | cons a as =>
      rw [List.eraseDups_cons, List.nodup_cons]
      constructor
      · rw [List.mem_eraseDups]
        simp
      · apply ih
        have := List.length_filter_le (fun b => !b == a) as
        simp only [List.length_cons] at hl
        omega

theorem mem_ancestorsOfAll (g : Graph) (hwf : g.wf = true) (starts : List Nat)
    (hs : ∀ b ∈ starts, (g.get? b).isSome = true) (a : Nat) :
    a ∈ ancestorsOfAll g starts ↔ ∃ b ∈ starts, Reach g a b := by
  unfold ancestorsOfAll
  constructor
  · intro h
    refine closureN_sound' g (fun x => ∃ b ∈ starts, Reach g x b) ?_ g.length starts.eraseDups ?_ a h
    · intro x p ⟨b, hb, hr⟩ hp
      exact ⟨b, hb, reach_trans (Reach.step hp (Reach.refl p)) hr⟩
    · intro x hx
      exact ⟨x, List.mem_eraseDups.1 hx, Reach.refl x⟩
  · intro ⟨b, hb, hr⟩
    have hcl := closureN_closed hwf g.length starts.eraseDups (nodup_eraseDups _ _ (Nat.le_refl _))
      (by
        intro x hx
        exact get?_isSome_mem (hs x (List.mem_eraseDups.1 hx)))
      (by omega)
    exact Reach.closed g (fun z => z ∈ closureN g g.length starts.eraseDups) b
      (closureN_mono g _ _ b (List.mem_eraseDups.2 hb)) hcl a hr

end C12Aux

end Wrgl
