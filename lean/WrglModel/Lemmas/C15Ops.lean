/-
C15 auxiliary lemmas: rename, copy, log reading and filtering under the simulation relation.
Core Lean only.
-/
import WrglModel.Lemmas.C15Rel
namespace Wrgl
open SqlSt

theorem rename_sim {s : SqlSt} {a : ASt} (h : R s a) (o n : Name) :
    (s.rename o n = none ∧ aRename a o n = none) ∨
    ∃ s' a', s.rename o n = some s' ∧ aRename a o n = some a' ∧ R s' a' := by
  unfold SqlSt.rename aRename
  rw [SqlSt.get_eq, SqlSt.get_eq, h.vals, h.vals]
  cases ho : a.val o with
  | none => left; simp
  | some v =>
    cases hn : a.val n with
    | some w => left; simp
    | none =>
      right
      simp only [Option.isSome_none, Bool.false_eq_true, if_false]
      refine ⟨_, _, rfl, rfl, ?_⟩
      have hon : o ≠ n := by
        intro e; rw [e, hn] at ho; cases ho
      have hno : ¬ n = o := fun e => hon e.symm
      have hgn : getL s.refs n = none := by rw [h.vals, hn]
      have hrn : rowsOf s.logs n = [] := h.dom n hgn
      have hrows := fun j => rowsOf_rename s.logs o n j hon hrn
      have hval : ∀ j, getL ((s.refs ++ [(n, v)]).filter (fun r => r.1 != o)) j =
          if j = o then none else if j = n then some v else a.val j := by
        intro j
        rw [getL_filter_ne, getL_append_single]
        by_cases hjo : j = o
        · simp [hjo]
        · simp only [hjo, if_false]
          by_cases hjn : j = n
          · subst hjn; simp [hgn]
          · simp only [hjn, if_false]
            rw [h.vals]
            cases a.val j <;> rfl
      refine ⟨nodup_filter_fst (nodup_append_single h.nodup v hgn) _, ?_, ?_, ?_, ?_⟩
      · intro j
        rw [hval]
        simp only [ASt.val_setLog, ASt.val_setVal_none, ASt.val_setVal_some]
      · intro j
        show (rowsOf (s.logs.map (fun l => if l.ref == o then reRef n l else l)) j).map toEntry = _
        rw [hrows]
        simp only [ASt.log_setLog, ASt.log_setVal]
        by_cases hjn : j = n
        · subst hjn; simp only [if_true, hno, if_false, map_toEntry_reRef, h.logs]
        · by_cases hjo : j = o
          · simp [hjo, hon]
          · simp [hjn, hjo, h.logs]
      · intro j
        show (rowsOf (s.logs.map (fun l => if l.ref == o then reRef n l else l)) j).map (·.ordinal) =
          List.range' 1 (rowsOf (s.logs.map (fun l => if l.ref == o then reRef n l else l)) j).length
        rw [hrows]
        by_cases hjn : j = n
        · subst hjn; simp only [if_true, map_ordinal_reRef, h.ords, List.length_map]
        · by_cases hjo : j = o
          · simp [hjo, hon]
          · simp [hjn, hjo, h.ords]
      · intro j hj
        show rowsOf (s.logs.map (fun l => if l.ref == o then reRef n l else l)) j = []
        rw [hrows]
        have hj : getL ((s.refs ++ [(n, v)]).filter (fun r => r.1 != o)) j = none := hj
        rw [hval] at hj
        by_cases hjo : j = o
        · simp [hjo, hon]
        · simp only [hjo, if_false] at hj ⊢
          by_cases hjn : j = n
          · simp [hjn] at hj
          · simp only [hjn, if_false] at hj ⊢
            rw [← h.vals] at hj
            exact h.dom j hj

theorem copy_sim {s : SqlSt} {a : ASt} (h : R s a) (src dst : Name) :
    (s.copy src dst = none ∧ (a.val src = none ∨ (a.val dst).isSome = true)) ∨
    ∃ v s', a.val src = some v ∧ a.val dst = none ∧ s.copy src dst = some s' ∧
      R s' ((a.setVal dst (some v)).setLog dst (a.log src)) := by
  cases ho : a.val src with
  | none =>
    left
    refine ⟨?_, Or.inl rfl⟩
    unfold SqlSt.copy
    rw [SqlSt.get_eq, h.vals, ho]
  | some v =>
    cases hn : a.val dst with
    | some w =>
      left
      refine ⟨?_, Or.inr rfl⟩
      unfold SqlSt.copy
      rw [SqlSt.get_eq, SqlSt.get_eq, h.vals, h.vals, ho, hn]
      rfl
    | none =>
      right
      have hgn : getL s.refs dst = none := by rw [h.vals, hn]
      have hrn : rowsOf s.logs dst = [] := h.dom dst hgn
      have hc : s.logCount dst = 0 := by rw [logCount_eq, hrn]; rfl
      have hcopy : s.copy src dst = some (SqlSt.mk (s.refs ++ [(dst, v)])
          (s.logs ++ (rowsOf s.logs src).map (reRef dst))) := by
        unfold SqlSt.copy
        rw [SqlSt.get_eq, SqlSt.get_eq, h.vals, h.vals, ho, hn]
        simp only [Option.isSome_none, Bool.false_eq_true, if_false, hc, bne_self_eq_false,
          Bool.and_false]
        rfl
      refine ⟨v, _, rfl, rfl, hcopy, ?_⟩
      have hlogs : ∀ j, rowsOf (s.logs ++ (rowsOf s.logs src).map (reRef dst)) j =
          if j = dst then (rowsOf s.logs src).map (reRef dst) else rowsOf s.logs j := by
        intro j
        rw [rowsOf_append, rowsOf_map_reRef]
        by_cases hj : j = dst
        · subst hj; simp [hrn]
        · simp [hj]
      have hval : ∀ j, getL (s.refs ++ [(dst, v)]) j = if j = dst then some v else a.val j := by
        intro j
        rw [getL_append_single]
        by_cases hj : j = dst
        · subst hj; simp [hgn]
        · simp only [hj, if_false]
          rw [h.vals]
          cases a.val j <;> rfl
      refine ⟨nodup_append_single h.nodup v hgn, ?_, ?_, ?_, ?_⟩
      · intro j
        rw [hval]
        simp only [ASt.val_setLog, ASt.val_setVal_some]
      · intro j
        show (rowsOf (s.logs ++ (rowsOf s.logs src).map (reRef dst)) j).map toEntry = _
        rw [hlogs, ASt.log_setLog, ASt.log_setVal]
        by_cases hj : j = dst
        · simp only [hj, if_true, map_toEntry_reRef, h.logs]
        · simp [hj, h.logs]
      · intro j
        show (rowsOf (s.logs ++ (rowsOf s.logs src).map (reRef dst)) j).map (·.ordinal) =
          List.range' 1 (rowsOf (s.logs ++ (rowsOf s.logs src).map (reRef dst)) j).length
        rw [hlogs]
        by_cases hj : j = dst
        · simp only [hj, if_true, map_ordinal_reRef, h.ords, List.length_map]
        · simp [hj, h.ords]
      · intro j hj
        show rowsOf (s.logs ++ (rowsOf s.logs src).map (reRef dst)) j = []
        have hj : getL (s.refs ++ [(dst, v)]) j = none := hj
        rw [hval] at hj
        rw [hlogs]
        by_cases hjd : j = dst
        · simp [hjd] at hj
        · simp only [hjd, if_false] at hj ⊢
          rw [← h.vals] at hj
          exact h.dom j hj

/-! ### reading the log -/

theorem find?_rowsOf (logs : List LogRow) (k : Name) (q : LogRow → Bool) :
    logs.find? (fun l => l.ref == k && q l) = (rowsOf logs k).find? q := by
  induction logs with
  | nil => rfl
  | cons x xs ih =>
    unfold rowsOf at ih ⊢
    rw [List.find?_cons, List.filter_cons]
    by_cases hx : x.ref = k
    · have : (x.ref == k) = true := by simp [hx]
      simp only [this, Bool.true_and, if_true, List.find?_cons, ih]
    · have : (x.ref == k) = false := by simp [hx]
      simp only [this, Bool.false_and, Bool.false_eq_true, if_false, ih]

theorem find?_ordinal (M : List LogRow) : ∀ (st c : Nat), M.map (·.ordinal) = List.range' st c →
    ∀ i, i < c → M.find? (fun l => l.ordinal == st + i) = M[i]? := by
  induction M with
  | nil =>
    intro st c h i hi
    have : c = 0 := by simpa using (congrArg List.length h).symm
    omega
  | cons x xs ih =>
    intro st c h i hi
    cases c with
    | zero => omega
    | succ c =>
      rw [List.range'_succ, List.map_cons, List.cons.injEq] at h
      cases i with
      | zero => simp [h.1]
      | succ i =>
        have hne : (x.ordinal == st + (i + 1)) = false := by
          rw [h.1]; simp
        rw [List.find?_cons, hne]
        have e : st + (i + 1) = (st + 1) + i := by omega
        simp only [e]
        rw [ih (st + 1) c h.2 i (by omega)]
        simp

theorem range_map_rev (M : List LogRow) :
    (List.range M.length).map (fun i => M[M.length - 1 - i]?) = M.reverse.map some := by
  apply List.ext_getElem
  · simp
  · intro i h1 h2
    simp only [List.length_map, List.length_range] at h1
    rw [List.getElem_map, List.getElem_map, List.getElem_range, List.getElem_reverse]
    rw [List.getElem?_eq_getElem]

theorem readLog_aux (refs : List (Name × Bytes)) (logs : List LogRow) (k : Name) (M : List LogRow)
    (hM : rowsOf logs k = M) (hord : M.map (·.ordinal) = List.range' 1 M.length) :
    SqlSt.readLog { refs := refs, logs := logs } k =
      if M.isEmpty then none else some (some M.reverse) := by
  unfold SqlSt.readLog
  simp only [logCount_eq, hM]
  by_cases hc : M.length = 0
  · have : M = [] := List.eq_nil_of_length_eq_zero hc
    subst this
    simp
  · have hne : M.isEmpty = false := by
      cases M with
      | nil => simp at hc
      | cons _ _ => rfl
    have hrows : (List.range M.length).map
        (fun i => logs.find? (fun l => l.ref == k && l.ordinal == M.length - i)) = M.reverse.map some := by
      rw [← range_map_rev]
      apply List.map_congr_left
      intro i hi
      rw [List.mem_range] at hi
      rw [find?_rowsOf logs k (fun l => l.ordinal == M.length - i), hM]
      have e : M.length - i = 1 + (M.length - 1 - i) := by omega
      rw [e]
      exact find?_ordinal M 1 M.length hord (M.length - 1 - i) (by omega)
    have hc' : (M.length == 0) = false := by simp [hc]
    simp only [hc', Bool.false_eq_true, if_false, hne, hrows]
    simp [List.all_map]

theorem readLog_eq {s : SqlSt} {a : ASt} (h : R s a) (k : Name) :
    s.readLog k = if (a.log k).isEmpty then none else some (some (rowsOf s.logs k).reverse) := by
  have := readLog_aux s.refs s.logs k _ rfl (h.ords k)
  rw [← h.logs k, List.isEmpty_map]
  exact this

/-! ### filtering -/

theorem matchFilter_true (ps nps : List Name) : matchFilter true ps nps = litFilter ps nps := by
  funext n
  simp [matchFilter, litFilter, prefixCond]

theorem mem_names_iff (a : ASt) (n : Name) : n ∈ a.names ↔ a.val n ≠ none := by
  unfold ASt.names
  rw [List.mem_eraseDups, ASt.val_eq, Ne, getL_eq_none]
  simp

theorem mem_pairsOf (a : ASt) (f : Name → Bool) (p : Name × Bytes) :
    p ∈ (a.names.filter f).filterMap (fun n => (a.val n).map (fun v => (n, v))) ↔
      f p.1 = true ∧ a.val p.1 = some p.2 := by
  rw [List.mem_filterMap]
  constructor
  · rintro ⟨n, hn, e⟩
    rw [List.mem_filter] at hn
    cases hv : a.val n with
    | none => rw [hv] at e; cases e
    | some v =>
      rw [hv] at e
      simp only [Option.map_some, Option.some.injEq] at e
      subst e
      exact ⟨hn.2, hv⟩
  · rintro ⟨hf, hv⟩
    refine ⟨p.1, ?_, ?_⟩
    · rw [List.mem_filter, mem_names_iff, hv]
      exact ⟨by simp, hf⟩
    · rw [hv]; rfl

theorem sublist_pairsOf (g : Name → Option Bytes) (l : List Name) :
    ((l.filterMap (fun n => (g n).map (fun v => (n, v)))).map (·.1)).Sublist l := by
  induction l with
  | nil => simp
  | cons x xs ih =>
    rw [List.filterMap_cons]
    cases g x with
    | none => exact List.Sublist.cons _ ih
    | some v => exact List.Sublist.cons_cons _ ih

theorem nodup_pairsOf (a : ASt) (f : Name → Bool) :
    (((a.names.filter f).filterMap (fun n => (a.val n).map (fun v => (n, v)))).map (·.1)).Nodup :=
  List.Nodup.sublist (sublist_pairsOf _ _)
    (List.Nodup.sublist List.filter_sublist (nodup_eraseDups _))

theorem mem_sortedPairs (a : ASt) (f : Name → Bool) (p : Name × Bytes) :
    p ∈ sortedPairs a f ↔ f p.1 = true ∧ a.val p.1 = some p.2 := by
  unfold sortedPairs
  rw [mem_sortByName, mem_pairsOf]

theorem filter_sim {s : SqlSt} {a : ASt} (h : R s a) (f : Name → Bool) :
    sortByName (s.refs.filter (fun r => f r.1)) = sortedPairs a f := by
  unfold sortedPairs
  apply sortByName_congr (nodup_filter_fst h.nodup _) (nodup_pairsOf a f)
  intro p
  rw [mem_pairsOf, List.mem_filter, mem_iff_getL h.nodup, h.vals]
  exact And.comm

theorem filter_eq {s : SqlSt} {a : ASt} (h : R s a) (ps nps : List Name) :
    s.filter true ps nps = sortedPairs a (litFilter ps nps) := by
  unfold SqlSt.filter
  rw [matchFilter_true]
  exact filter_sim h _

theorem filter_single {s : SqlSt} {a : ASt} (h : R s a) (pfx : Name) :
    s.filter true [pfx] [] = sortedPairs a (hasPrefix pfx) := by
  rw [filter_eq h]
  congr 1
  funext n
  simp [litFilter]

end Wrgl
