import WrglModel.Model.Merge
import WrglModel.Spec.Merge
import WrglModel.Lemmas.C05Aux
namespace Wrgl

/-- fold of `tryResolve`'s per-cell decision chain over the distinct rows of a key -/
def cellFold (bc : Option Bytes) (rem0 : Bool) (layers : List (Bool × Bool × Bytes)) : CellSt :=
  layers.foldl (fun st (l : Bool × Bool × Bytes) => cellStep bc l.1 l.2.1 l.2.2 st)
    { add := none, mod := none, rem := rem0, val := bc.getD [], unresolved := false }

namespace C05CellAux

/-! ### generalities -/

/-- once a column is unresolved it stays unresolved -/
theorem cellStep_unres (bc : Option Bytes) (a r : Bool) (x : Bytes) (st : CellSt)
    (h : st.unresolved = true) : (cellStep bc a r x st).unresolved = true := by
  unfold cellStep
  repeat' split
  all_goals simp [CellSt.unresolve, h]

theorem foldl_unres {α : Type} (f : CellSt → α → CellSt)
    (hf : ∀ st a, st.unresolved = true → (f st a).unresolved = true) :
    ∀ (l : List α) (st : CellSt), st.unresolved = true → (l.foldl f st).unresolved = true := by
  intro l
  induction l with
  | nil => intro st h; exact h
  | cons a l ih => intro st h; exact ih _ (hf st a h)

theorem eraseDups_cons_length_ge_two {α : Type} [BEq α] [LawfulBEq α] (x : α) (l : List α) :
    (x :: l).eraseDups.length ≥ 2 ↔ ∃ y ∈ l, y ≠ x := by
  have h := C05Aux.eraseDups_length_le_one (x :: l)
  constructor
  · intro h2
    apply Classical.byContradiction
    intro hne
    have : (x :: l).eraseDups.length ≤ 1 := by
      rw [h]
      have hall : ∀ a ∈ x :: l, a = x := by
        intro a ha
        rcases List.mem_cons.1 ha with e | e
        · exact e
        · apply Classical.byContradiction
          intro hax
          exact hne ⟨a, e, hax⟩
      intro a ha b hb
      rw [hall a ha, hall b hb]
    omega
  · rintro ⟨y, hy, hne⟩
    apply Classical.byContradiction
    intro h2
    have h1 : (x :: l).eraseDups.length ≤ 1 := by omega
    rw [h] at h1
    exact hne (h1 y (List.mem_cons_of_mem _ hy) x List.mem_cons_self)

/-! ### a column of the base table -/

/-- one layer of a base column: `l = (removed, cell)` -/
def bstep (bc : Option Bytes) (st : CellSt) (l : Bool × Bytes) : CellSt := cellStep bc false l.1 l.2 st

/-- the cells the layers changed (repeats kept) -/
def chg (bc : Option Bytes) (layers : List (Bool × Bytes)) : List Bytes :=
  ((layers.filter (fun l => !l.1)).map (·.2)).filter (fun x => some x != bc)

theorem chg_nil (bc : Option Bytes) : chg bc [] = [] := rfl

theorem chg_cons_removed (bc : Option Bytes) (x : Bytes) (L : List (Bool × Bytes)) :
    chg bc ((true, x) :: L) = chg bc L := by
  simp [chg]

theorem chg_cons_same (bc : Option Bytes) (x : Bytes) (L : List (Bool × Bytes)) (h : bc = some x) :
    chg bc ((false, x) :: L) = chg bc L := by
  simp [chg, h]

theorem chg_cons_changed (bc : Option Bytes) (x : Bytes) (L : List (Bool × Bytes)) (h : bc ≠ some x) :
    chg bc ((false, x) :: L) = x :: chg bc L := by
  have : (some x != bc) = true := by
    simp only [bne_iff_ne, ne_eq]; exact fun e => h e.symm
  simp [chg, this]

/-- the row or the column was removed and no layer changed the cell so far -/
theorem fold_rem (bc : Option Bytes) : ∀ (L : List (Bool × Bytes)) (v : Bytes),
    (∀ l ∈ L, l.1 = true → l.2 = []) →
    let st := L.foldl (bstep bc) { add := none, mod := none, rem := true, val := v, unresolved := false }
    (st.unresolved = true ↔ chg bc L ≠ []) ∧
    (st.unresolved = false → st.val = if L.any (·.1) then [] else v) := by
  intro L
  induction L with
  | nil => intro v _; simp [chg_nil]
  | cons l L ih =>
    intro v hrm
    have hrm' : ∀ l ∈ L, l.1 = true → l.2 = [] := fun l' hl' => hrm l' (List.mem_cons_of_mem _ hl')
    obtain ⟨r, x⟩ := l
    simp only [List.foldl_cons]
    cases r with
    | true =>
      have hx : x = [] := hrm (true, x) List.mem_cons_self rfl
      subst hx
      have hs : bstep bc { add := none, mod := none, rem := true, val := v, unresolved := false } (true, []) =
          { add := none, mod := none, rem := true, val := [], unresolved := false } := by
        simp [bstep, cellStep]
      rw [hs, chg_cons_removed]
      have := ih [] hrm'
      refine ⟨this.1, ?_⟩
      intro hu
      rw [this.2 hu]
      simp
    | false =>
      by_cases hc : bc = some x
      · have hs : bstep bc { add := none, mod := none, rem := true, val := v, unresolved := false } (false, x) =
            { add := none, mod := none, rem := true, val := v, unresolved := false } := by
          simp [bstep, cellStep, hc]
        rw [hs, chg_cons_same bc x L hc]
        have := ih v hrm'
        refine ⟨this.1, ?_⟩
        intro hu
        rw [this.2 hu]
        simp only [List.any_cons, Bool.false_or]
      · have hf' : (bc != some x) = true := by simp only [bne_iff_ne, ne_eq]; exact hc
        have hs : bstep bc { add := none, mod := none, rem := true, val := v, unresolved := false } (false, x) =
            { add := none, mod := none, rem := true, val := bc.getD [], unresolved := true } := by
          simp [bstep, cellStep, hf', CellSt.unresolve]
        rw [hs, chg_cons_changed bc x L hc]
        have hu := foldl_unres (bstep bc) (fun st a h => cellStep_unres bc _ _ _ st h) L
          { add := none, mod := none, rem := true, val := bc.getD [], unresolved := true } rfl
        refine ⟨?_, ?_⟩
        · simp [hu]
        · intro h; rw [hu] at h; cases h

/-- some layer changed the cell to `m`, no layer removed the row or the column so far -/
theorem fold_mod (bc : Option Bytes) (m : Bytes) : ∀ (L : List (Bool × Bytes)),
    let st := L.foldl (bstep bc) { add := none, mod := some m, rem := false, val := m, unresolved := false }
    (st.unresolved = true ↔ L.any (·.1) = true ∨ ∃ y ∈ chg bc L, y ≠ m) ∧
    (st.unresolved = false → st.val = m) := by
  intro L
  induction L with
  | nil => simp [chg_nil]
  | cons l L ih =>
    obtain ⟨r, x⟩ := l
    simp only [List.foldl_cons]
    have hstick : ∀ (s : CellSt), s.unresolved = true → (L.foldl (bstep bc) s).unresolved = true :=
      foldl_unres (bstep bc) (fun st a h => cellStep_unres bc _ _ _ st h) L
    cases r with
    | true =>
      have hs : bstep bc { add := none, mod := some m, rem := false, val := m, unresolved := false } (true, x) =
          { add := none, mod := some m, rem := false, val := bc.getD [], unresolved := true } := by
        simp [bstep, cellStep, CellSt.unresolve]
      rw [hs]
      have hu := hstick _ (rfl :
        ({ add := none, mod := some m, rem := false, val := bc.getD [], unresolved := true } : CellSt).unresolved = true)
      refine ⟨?_, ?_⟩
      · simp [hu]
      · intro h; rw [hu] at h; cases h
    | false =>
      by_cases hc : bc = some x
      · have hs : bstep bc { add := none, mod := some m, rem := false, val := m, unresolved := false } (false, x) =
            { add := none, mod := some m, rem := false, val := m, unresolved := false } := by
          simp [bstep, cellStep, hc]
        rw [hs, chg_cons_same bc x L hc]
        simpa using ih
      · have hf' : (bc != some x) = true := by simp only [bne_iff_ne, ne_eq]; exact hc
        rw [chg_cons_changed bc x L hc]
        by_cases hm : m = x
        · have hs : bstep bc { add := none, mod := some m, rem := false, val := m, unresolved := false } (false, x) =
              { add := none, mod := some m, rem := false, val := m, unresolved := false } := by
            simp [bstep, cellStep, hf', hm]
          rw [hs]
          refine ⟨?_, ih.2⟩
          rw [ih.1]
          simp [hm]
        · have hs : bstep bc { add := none, mod := some m, rem := false, val := m, unresolved := false } (false, x) =
              { add := none, mod := some m, rem := false, val := bc.getD [], unresolved := true } := by
            simp [bstep, cellStep, hf', hm, CellSt.unresolve]
          rw [hs]
          have hu := hstick _ (rfl :
            ({ add := none, mod := some m, rem := false, val := bc.getD [], unresolved := true } : CellSt).unresolved = true)
          refine ⟨?_, ?_⟩
          · simp only [hu, true_iff]
            right
            exact ⟨x, List.mem_cons_self, fun e => hm e.symm⟩
          · intro h; rw [hu] at h; cases h

/-- nothing happened so far -/
theorem fold_init (bc : Option Bytes) : ∀ (L : List (Bool × Bytes)),
    (∀ l ∈ L, l.1 = true → l.2 = []) →
    let st := L.foldl (bstep bc) { add := none, mod := none, rem := false, val := bc.getD [], unresolved := false }
    (st.unresolved = true ↔ (L.any (·.1) = true ∧ chg bc L ≠ []) ∨ (chg bc L).eraseDups.length ≥ 2) ∧
    (st.unresolved = false → st.val = (chg bc L).headD (if L.any (·.1) then [] else bc.getD [])) := by
  intro L
  induction L with
  | nil => intro _; simp [chg_nil]
  | cons l L ih =>
    intro hrm
    have hrm' : ∀ l ∈ L, l.1 = true → l.2 = [] := fun l' hl' => hrm l' (List.mem_cons_of_mem _ hl')
    obtain ⟨r, x⟩ := l
    simp only [List.foldl_cons]
    cases r with
    | true =>
      have hx : x = [] := hrm (true, x) List.mem_cons_self rfl
      subst hx
      have hs : bstep bc { add := none, mod := none, rem := false, val := bc.getD [], unresolved := false } (true, []) =
          { add := none, mod := none, rem := true, val := [], unresolved := false } := by
        simp [bstep, cellStep]
      rw [hs, chg_cons_removed]
      have h := fold_rem bc L [] hrm'
      refine ⟨?_, ?_⟩
      · rw [h.1]
        simp only [List.any_cons, Bool.true_or, true_and]
        constructor
        · intro hne; exact Or.inl hne
        · rintro (hne | h2)
          · exact hne
          · intro e; rw [e] at h2; simp at h2
      · intro hu
        have hnil : chg bc L = [] := by
          apply Classical.byContradiction
          intro hne
          have := h.1.2 hne
          rw [hu] at this; cases this
        rw [h.2 hu, hnil]
        simp
    | false =>
      by_cases hc : bc = some x
      · have hs : bstep bc { add := none, mod := none, rem := false, val := bc.getD [], unresolved := false } (false, x) =
            { add := none, mod := none, rem := false, val := bc.getD [], unresolved := false } := by
          simp [bstep, cellStep, hc]
        rw [hs, chg_cons_same bc x L hc]
        have := ih hrm'
        simp only [List.any_cons, Bool.false_or]
        exact this
      · have hf' : (bc != some x) = true := by simp only [bne_iff_ne, ne_eq]; exact hc
        have hs : bstep bc { add := none, mod := none, rem := false, val := bc.getD [], unresolved := false } (false, x) =
            { add := none, mod := some x, rem := false, val := x, unresolved := false } := by
          simp [bstep, cellStep, hf']
        rw [hs, chg_cons_changed bc x L hc]
        have h := fold_mod bc x L
        refine ⟨?_, ?_⟩
        · rw [h.1, eraseDups_cons_length_ge_two]
          simp
        · intro hu
          rw [h.2 hu]
          simp

/-! ### a column that is not in the base table -/

/-- one layer of an added column: `l = (has the column, cell)` -/
def astep (bc : Option Bytes) (st : CellSt) (l : Bool × Bytes) : CellSt := cellStep bc l.1 false l.2 st

/-- the cells of the layers that have the column (repeats kept) -/
def addv (layers : List (Bool × Bytes)) : List Bytes := (layers.filter (·.1)).map (·.2)

theorem addv_cons_has (x : Bytes) (L : List (Bool × Bytes)) : addv ((true, x) :: L) = x :: addv L := by
  simp [addv]

theorem addv_cons_lacks (x : Bytes) (L : List (Bool × Bytes)) : addv ((false, x) :: L) = addv L := by
  simp [addv]

/-- some layer added the column with value `a` -/
theorem fold_add (bc : Option Bytes) (a : Bytes) (md : Option Bytes) (rm : Bool) :
    ∀ (L : List (Bool × Bytes)),
    let st := L.foldl (astep bc) { add := some a, mod := md, rem := rm, val := a, unresolved := false }
    (st.unresolved = true ↔ ∃ y ∈ addv L, y ≠ a) ∧
    (st.unresolved = false → st.val = a) := by
  intro L
  induction L with
  | nil => simp [addv]
  | cons l L ih =>
    obtain ⟨h, x⟩ := l
    simp only [List.foldl_cons]
    cases h with
    | false =>
      have hs : astep bc { add := some a, mod := md, rem := rm, val := a, unresolved := false } (false, x) =
          { add := some a, mod := md, rem := rm, val := a, unresolved := false } := by
        simp [astep, cellStep]
      rw [hs, addv_cons_lacks]
      exact ih
    | true =>
      rw [addv_cons_has]
      by_cases hm : a = x
      · have hs : astep bc { add := some a, mod := md, rem := rm, val := a, unresolved := false } (true, x) =
            { add := some a, mod := md, rem := rm, val := a, unresolved := false } := by
          simp [astep, cellStep, hm]
        rw [hs]
        refine ⟨?_, ih.2⟩
        rw [ih.1]
        simp [hm]
      · have hs : astep bc { add := some a, mod := md, rem := rm, val := a, unresolved := false } (true, x) =
            { add := some a, mod := md, rem := rm, val := bc.getD [], unresolved := true } := by
          simp [astep, cellStep, hm, CellSt.unresolve]
        rw [hs]
        have hu := foldl_unres (astep bc) (fun st a h => cellStep_unres bc _ _ _ st h) L
          { add := some a, mod := md, rem := rm, val := bc.getD [], unresolved := true } rfl
        refine ⟨?_, ?_⟩
        · simp only [hu, true_iff]
          exact ⟨x, List.mem_cons_self, fun e => hm e.symm⟩
        · intro h; rw [hu] at h; cases h

/-- no layer has added the column so far -/
theorem fold_noadd (bc : Option Bytes) (hbc : bc = none ∨ bc = some []) (rm : Bool) :
    ∀ (L : List (Bool × Bytes)) (md : Option Bytes), (md = none ∨ md = some []) →
    (∀ l ∈ L, l.1 = false → l.2 = []) →
    let st := L.foldl (astep bc) { add := none, mod := md, rem := rm, val := [], unresolved := false }
    (st.unresolved = true ↔ (addv L).eraseDups.length ≥ 2 ∨
      (bc = none ∧ rm = true ∧ (L.head?.map (·.1)) = some false)) ∧
    (st.unresolved = false → st.val = (addv L).eraseDups.headD []) := by
  intro L
  induction L with
  | nil => intro md _ _; simp [addv]
  | cons l L ih =>
    intro md hmd hlack
    have hlack' : ∀ l ∈ L, l.1 = false → l.2 = [] := fun l' hl' => hlack l' (List.mem_cons_of_mem _ hl')
    obtain ⟨h, x⟩ := l
    simp only [List.foldl_cons]
    cases h with
    | true =>
      have hs : astep bc { add := none, mod := md, rem := rm, val := [], unresolved := false } (true, x) =
          { add := some x, mod := md, rem := rm, val := x, unresolved := false } := by
        simp [astep, cellStep]
      rw [hs, addv_cons_has]
      have h := fold_add bc x md rm L
      refine ⟨?_, ?_⟩
      · rw [h.1, eraseDups_cons_length_ge_two]
        simp
      · intro hu
        rw [h.2 hu, C05Aux.eraseDups_headD]
        rfl
    | false =>
      have hx : x = [] := hlack (false, x) List.mem_cons_self rfl
      subst hx
      rw [addv_cons_lacks]
      by_cases hbad : bc = none ∧ rm = true
      · obtain ⟨hb, hr⟩ := hbad
        subst hb; subst hr
        have hs : astep none { add := none, mod := md, rem := true, val := [], unresolved := false } (false, []) =
            { add := none, mod := md, rem := true, val := [], unresolved := true } := by
          simp [astep, cellStep, CellSt.unresolve]
        rw [hs]
        have hu := foldl_unres (astep none) (fun st a h => cellStep_unres none _ _ _ st h) L
          { add := none, mod := md, rem := true, val := [], unresolved := true } rfl
        refine ⟨?_, ?_⟩
        · simp [hu]
        · intro h; rw [hu] at h; cases h
      · have hs : ∃ md', (md' = none ∨ md' = some []) ∧
            astep bc { add := none, mod := md, rem := rm, val := [], unresolved := false } (false, []) =
            { add := none, mod := md', rem := rm, val := [], unresolved := false } := by
          rcases hbc with hb | hb
          · subst hb
            have hr : rm = false := by
              cases rm with
              | false => rfl
              | true => exact absurd ⟨rfl, rfl⟩ hbad
            subst hr
            refine ⟨some [], Or.inr rfl, ?_⟩
            rcases hmd with e | e <;> subst e <;> simp [astep, cellStep]
          · subst hb
            refine ⟨md, hmd, ?_⟩
            rcases hmd with e | e <;> subst e <;> cases rm <;> simp [astep, cellStep]
        obtain ⟨md', hmd', hs⟩ := hs
        rw [hs]
        have h := ih md' hmd' hlack'
        refine ⟨?_, h.2⟩
        rw [h.1]
        constructor
        · rintro (h2 | ⟨hb, hr, _⟩)
          · exact Or.inl h2
          · exact absurd ⟨hb, hr⟩ hbad
        · rintro (h2 | ⟨hb, hr, _⟩)
          · exact Or.inl h2
          · exact absurd ⟨hb, hr⟩ hbad

end C05CellAux

/-- A column of the BASE table (no layer can have "added" it): `layers` gives for every distinct
    row of the key, in layer order, whether that layer removed the column, and the cell it has
    (empty when removed). `rem0`: some layer lacks the row altogether while the base has it.
    The three-way rule by column: a conflict iff the column (or the row) was removed by one layer and
    the cell changed by another, or two layers changed the cell differently; otherwise the changed
    value if there is one, else nothing (empty) when the column was removed, else the base value. -/
theorem cellFold_base_column (bc : Option Bytes) (rem0 : Bool) (layers : List (Bool × Bytes))
    (hrm : ∀ l ∈ layers, l.1 = true → l.2 = []) :
    let st := cellFold bc rem0 (layers.map (fun l => (false, l.1, l.2)))
    let changed := changedVals bc ((layers.filter (fun l => !l.1)).map (·.2))
    let removed := rem0 || layers.any (·.1)
    (st.unresolved = true ↔ (removed = true ∧ changed ≠ []) ∨ changed.length ≥ 2) ∧
    (st.unresolved = false →
      st.val = (match changed with
        | v :: _ => v
        | [] => if layers.any (·.1) then [] else bc.getD [])) := by
  intro st changed removed
  have hst : st = layers.foldl (C05CellAux.bstep bc)
      { add := none, mod := none, rem := rem0, val := bc.getD [], unresolved := false } := by
    show cellFold bc rem0 (layers.map (fun l => (false, l.1, l.2))) = _
    unfold cellFold
    rw [List.foldl_map]
    rfl
  have hch : changed = (C05CellAux.chg bc layers).eraseDups := rfl
  have key : ∀ (c : List Bytes) (d : Bytes), (match c with
      | v :: _ => v
      | [] => d) = c.headD d := by intro c d; cases c <;> rfl
  rw [key, hch, C05Aux.eraseDups_headD, Ne, C05Aux.eraseDups_eq_nil, hst]
  show (_ ↔ ((rem0 || layers.any (·.1)) = true ∧ _) ∨ _) ∧ _
  cases rem0 with
  | false =>
    simpa using C05CellAux.fold_init bc layers hrm
  | true =>
    have h := C05CellAux.fold_rem bc layers (bc.getD []) hrm
    refine ⟨?_, ?_⟩
    · rw [h.1]
      simp only [Bool.true_or, true_and]
      constructor
      · intro hne; exact Or.inl hne
      · rintro (hne | h2)
        · exact hne
        · intro e; rw [e] at h2; simp at h2
    · intro hu
      have hnil : C05CellAux.chg bc layers = [] := by
        apply Classical.byContradiction
        intro hne
        have := h.1.2 hne
        rw [hu] at this; cases this
      rw [h.2 hu, hnil]
      rfl

/-- A column that is NOT in the base table: `layers` gives for every distinct row, in layer order,
    whether the layer has (added) the column and its cell (empty when it lacks the column); the base
    cell is empty when the key exists in the base (`bc = some []`) and absent otherwise. A conflict
    iff two layers added different values, or — in a state `tryResolve` never starts from — the key
    is not in the base (`bc = none`) yet `rem0` is set and the first layer lacks the column (the
    chain then takes its empty cell for a change against a removal; a first layer that has the
    column shields all later ones). Otherwise the added value (empty if no layer has it). -/
theorem cellFold_added_column (bc : Option Bytes) (hbc : bc = none ∨ bc = some []) (rem0 : Bool)
    (layers : List (Bool × Bytes)) (hlack : ∀ l ∈ layers, l.1 = false → l.2 = []) :
    let st := cellFold bc rem0 (layers.map (fun l => (l.1, false, l.2)))
    let addedVals := ((layers.filter (·.1)).map (·.2)).eraseDups
    (st.unresolved = true ↔ addedVals.length ≥ 2 ∨
      (bc = none ∧ rem0 = true ∧ (layers.head?.map (·.1)) = some false)) ∧
    (st.unresolved = false → st.val = addedVals.headD []) := by
  intro st addedVals
  have hst : st = layers.foldl (C05CellAux.astep bc)
      { add := none, mod := none, rem := rem0, val := [], unresolved := false } := by
    show cellFold bc rem0 (layers.map (fun l => (l.1, false, l.2))) = _
    unfold cellFold
    rw [List.foldl_map]
    rcases hbc with e | e <;> subst e <;> rfl
  rw [hst]
  exact C05CellAux.fold_noadd bc hbc rem0 layers none (Or.inl rfl) hlack

/-- the case `tryResolve` is in (`rem0` is only ever set when the key is in the base): the plain
    rule — a conflict iff two layers added different values, otherwise the added value -/
theorem cellFold_added_column_reachable (bc : Option Bytes) (hbc : bc = none ∨ bc = some [])
    (rem0 : Bool) (hrem : bc = none → rem0 = false)
    (layers : List (Bool × Bytes)) (hlack : ∀ l ∈ layers, l.1 = false → l.2 = []) :
    let st := cellFold bc rem0 (layers.map (fun l => (l.1, false, l.2)))
    let addedVals := ((layers.filter (·.1)).map (·.2)).eraseDups
    (st.unresolved = true ↔ addedVals.length ≥ 2) ∧
    (st.unresolved = false → st.val = addedVals.headD []) := by
  intro st addedVals
  have h := cellFold_added_column bc hbc rem0 layers hlack
  refine ⟨?_, h.2⟩
  rw [h.1]
  constructor
  · rintro (h2 | ⟨hb, hr, _⟩)
    · exact h2
    · rw [hrem hb] at hr; cases hr
  · intro h2; exact Or.inl h2

end Wrgl
