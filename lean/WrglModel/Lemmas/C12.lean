import WrglModel.Model.Prune
import WrglModel.Lemmas.C11
import WrglModel.Lemmas.C11Seek
import WrglModel.Lemmas.C12Aux
import WrglModel.Lemmas.C12Verdict
namespace Wrgl

/-- a repository whose stored history is closed (every stored commit's parents are stored, ids
    distinct) and whose table ids are distinct; tables, blocks, indices may be missing anywhere
    (shallow commits, interrupted transfers) -/
structure PRepo.OK (r : PRepo) : Prop where
  wf : r.commits.wf = true
  tables : (r.tables.map (·.id)).Nodup

/-- prune never panics, whatever the repository and the refs (also refs to missing commits) -/
theorem prune_never_panics (r : PRepo) (refs : List Nat) (p : String) : prune true r refs ≠ .panic p := by
  unfold prune
  simp only [Bool.not_true, Bool.false_eq_true, ↓reduceIte]
  split
  · intro h; cases h
  · rename_i s hs
    exact absurd hs (C12Aux.markLoop_ne_panic _ _ _ _ s)
  · split <;> intro h <;> cases h

/-- on a closed history prune always completes -/
theorem prune_completes (r : PRepo) (hok : r.OK) (refs : List Nat) : ∃ r', prune true r refs = .ok r' := by
  obtain ⟨found, e, _⟩ := C12Aux.mark_correct r.commits hok.wf refs
  rw [C12Aux.prune_eq e]
  split
  · exact ⟨_, rfl⟩
  · exact ⟨_, rfl⟩

/-- the marked commits are exactly those reachable from the refs that point at stored commits -/
theorem mark_spec (r : PRepo) (hok : r.OK) (refs : List Nat) (found : List Nat)
    (h : markLoop r.commits (r.commits.length + 2) (insertRefs r.commits { items := [], seen := [] } refs) [] = .ok found) :
    ∀ a, a ∈ found ↔ ∃ b ∈ refs, (r.commits.get? b).isSome = true ∧ Reach r.commits a b := by
  obtain ⟨found', e, _, _, hf⟩ := C12Aux.mark_correct r.commits hok.wf refs
  rw [h] at e
  cases e
  exact hf

/-- C12: the result of prune satisfies every clause of the property: reachable commits kept with
    their table, table index, profile, blocks and block indices wherever those existed; unreachable
    commits gone; tables referenced only by removed commits and blocks referenced only by removed
    tables gone; nothing created -/
theorem prune_meets_spec (r : PRepo) (hok : r.OK) (refs : List Nat) (r' : PRepo)
    (h : prune true r refs = .ok r') : pruneVerdict r r' refs = [] := by
  obtain ⟨found, e, _, hg, hf⟩ := C12Aux.mark_correct r.commits hok.wf refs
  rw [C12Aux.prune_eq e] at h
  have hcongr : ∀ c ∈ r.commits,
      (reachableCommits r refs).contains c.id = found.contains c.id := by
    intro c _
    rw [Bool.eq_iff_iff, List.contains_iff_mem, List.contains_iff_mem]
    exact C12Aux.mem_reachableCommits hok.wf hg hf c.id
  rw [C12Aux.pruneVerdict_eq, C12Aux.verdictWith_congr _ _ _ _ hcongr]
  split at h
  · rename_i he
    cases h
    exact C12Aux.verdict_same _ _ he
  · cases h
    exact C12Aux.verdict_pruned found r

/-- pruning twice changes nothing the second time -/
theorem prune_idempotent (r : PRepo) (hok : r.OK) (refs : List Nat) (r' : PRepo)
    (h : prune true r refs = .ok r') : prune true r' refs = .ok r' := by
  obtain ⟨found, e, _, hg, hf⟩ := C12Aux.mark_correct r.commits hok.wf refs
  rw [C12Aux.prune_eq e] at h
  split at h
  · rename_i he
    cases h
    rw [C12Aux.prune_eq e, if_pos he]
  · cases h
    have hwf' : Graph.wf (C12Aux.pruned found r).commits = true := C12Aux.surviving_wf hok.wf hg hf
    obtain ⟨found', e', _, _, hf'⟩ := C12Aux.mark_correct (C12Aux.pruned found r).commits hwf' refs
    rw [C12Aux.prune_eq e', if_pos]
    rw [List.isEmpty_iff, List.filter_eq_nil_iff]
    intro c hc
    have hc' : c ∈ r.commits.filter (fun c => found.contains c.id) := hc
    have hcf : c.id ∈ found := by simpa using (List.mem_filter.1 hc').2
    have : c.id ∈ found' := (hf' c.id).2 (C12Aux.fromRefs_surviving hf hcf)
    simpa using this

/-! ### refs whose commit is not stored -/

/-- the walk starts from the same queue whether or not the refs to absent commits are there -/
theorem insertRefs_filter_stored (g : Graph) : ∀ (refs : List Nat) (q : Q),
    insertRefs g q refs = insertRefs g q (refs.filter (fun x => (g.get? x).isSome)) := by
  intro refs
  induction refs with
  | nil => intro q; rfl
  | cons p rs ih =>
    intro q
    cases hp : g.get? p with
    | none =>
      rw [C12Aux.insertRefs_missing rs hp, ih q]
      simp [List.filter, hp]
    | some c =>
      have : (p :: rs).filter (fun x => (g.get? x).isSome) = p :: rs.filter (fun x => (g.get? x).isSome) := by
        simp [List.filter, hp]
      rw [this]
      simp only [insertRefs]
      split <;> exact ih _

/-- a ref whose commit is not stored roots nothing: prune does exactly what it does without it -/
theorem prune_ignores_dangling_refs (chk : Bool) (r : PRepo) (refs : List Nat) :
    prune chk r refs = prune chk r (refs.filter (fun x => (r.commits.get? x).isSome)) := by
  unfold prune
  rw [← insertRefs_filter_stored]

/-! ### one live table at a time -/

theorem ite_nil_true {c : Bool} {s : String} (h : (if c = true then ([] : List String) else [s]) = []) : c = true := by
  cases c
  · simp at h
  · rfl

/-- the table of a reachable commit survives with every block and every block index of its own
    that was stored, whichever other live tables list the same blocks -/
theorem live_table_kept_whole (r : PRepo) (hok : r.OK) (refs : List Nat) (r' : PRepo)
    (h : prune true r refs = .ok r')
    (t : PTable) (ht : t ∈ r.tables) (c : Commit) (hc : c ∈ r.commits)
    (hreach : (reachableCommits r refs).contains c.id = true) (hct : c.table = t.id) :
    t ∈ r'.tables ∧ (∀ b ∈ t.blocks, b ∈ r.blocks → b ∈ r'.blocks) ∧ (∀ i ∈ t.idxs, i ∈ r.idxs → i ∈ r'.idxs) := by
  have hv := prune_meets_spec r hok refs r' h
  unfold pruneVerdict at hv
  simp only [List.append_eq_nil_iff] at hv
  obtain ⟨⟨⟨⟨⟨⟨_, h2⟩, _⟩, h4⟩, _⟩, _⟩, _⟩ := hv
  have h2 := ite_nil_true h2
  have h4 := ite_nil_true h4
  have hlive : t ∈ (r.tables.filter (fun t => (r.commits.filter (fun c => (reachableCommits r refs).contains c.id)).any (fun c => c.table == t.id))) := by
    rw [List.mem_filter]
    refine ⟨ht, ?_⟩
    rw [List.any_eq_true]
    exact ⟨c, List.mem_filter.mpr ⟨hc, hreach⟩, by simp [hct]⟩
  rw [Bool.and_eq_true, List.all_eq_true, List.all_eq_true] at h4
  rw [List.all_eq_true] at h2
  refine ⟨?_, ?_, ?_⟩
  · have := h2 t hlive
    simpa using this
  · intro b hb hbr
    have := h4.1 b (List.mem_filter.mpr ⟨List.mem_flatMap.mpr ⟨t, hlive, hb⟩, by simpa using hbr⟩)
    simpa using this
  · intro i hi hir
    have := h4.2 i (List.mem_filter.mpr ⟨List.mem_flatMap.mpr ⟨t, hlive, hi⟩, by simpa using hir⟩)
    simpa using this

end Wrgl
