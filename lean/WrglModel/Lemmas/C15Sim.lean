/-
C15 auxiliary lemmas: the simulation relation between the SQL model and the abstract map, and its
preservation by every single operation. Core Lean only.
-/
import WrglModel.Lemmas.C15Sort
namespace Wrgl
open SqlSt

/-! ### association-list lookup -/

def getL (refs : List (Name × Bytes)) (k : Name) : Option Bytes :=
  (refs.find? (fun r => r.1 == k)).map (·.2)

theorem SqlSt.get_eq (s : SqlSt) (k : Name) : s.get k = getL s.refs k := rfl
theorem ASt.val_eq (a : ASt) (k : Name) : a.val k = getL a.vals k := rfl

@[simp] theorem getL_nil (k : Name) : getL [] k = none := rfl

theorem getL_cons (x : Name × Bytes) (l : List (Name × Bytes)) (k : Name) :
    getL (x :: l) k = if x.1 = k then some x.2 else getL l k := by
  unfold getL
  rw [List.find?_cons]
  by_cases h : x.1 = k
  · simp [h]
  · have : (x.1 == k) = false := by simp [h]
    simp [this, h]

theorem getL_eq_none {l : List (Name × Bytes)} {k : Name} :
    getL l k = none ↔ k ∉ l.map (·.1) := by
  induction l with
  | nil => simp
  | cons x xs ih =>
    rw [getL_cons]
    by_cases h : x.1 = k
    · simp [h]
    · simp only [h, if_false, ih, List.map_cons, List.mem_cons]
      constructor
      · intro h1 h2
        rcases h2 with h2 | h2
        · exact h h2.symm
        · exact h1 h2
      · intro h1 h2
        exact h1 (Or.inr h2)

theorem getL_filter_ne (l : List (Name × Bytes)) (k j : Name) :
    getL (l.filter (fun r => r.1 != k)) j = if j = k then none else getL l j := by
  induction l with
  | nil => simp
  | cons x xs ih =>
    rw [List.filter_cons]
    by_cases hx : x.1 = k
    · have : (x.1 != k) = false := by simp [hx]
      rw [this]
      simp only [Bool.false_eq_true, if_false]
      rw [ih, getL_cons]
      by_cases hj : j = k
      · simp [hj]
      · have : ¬ x.1 = j := by rw [hx]; exact fun h => hj h.symm
        simp [hj, this]
    · have : (x.1 != k) = true := by simp [hx]
      rw [this]
      simp only [if_true]
      rw [getL_cons, getL_cons, ih]
      by_cases hj : j = k
      · subst hj
        simp [hx]
      · simp [hj]

theorem getL_append_single (l : List (Name × Bytes)) (n j : Name) (v : Bytes) :
    getL (l ++ [(n, v)]) j = match getL l j with
      | some x => some x
      | none => if j = n then some v else none := by
  induction l with
  | nil =>
    simp only [List.nil_append, getL_cons, getL_nil]
    by_cases h : n = j
    · simp [h]
    · have : ¬ j = n := fun e => h e.symm
      simp [h, this]
  | cons x xs ih =>
    rw [List.cons_append, getL_cons, getL_cons, ih]
    by_cases h : x.1 = j
    · simp [h]
    · simp [h]

theorem getL_upsert (l : List (Name × Bytes)) (k j : Name) (v : Bytes) :
    getL (upsert l k v) j = if j = k then some v else getL l j := by
  unfold upsert
  split
  · rename_i hany
    induction l with
    | nil => simp at hany
    | cons x xs ih =>
      rw [List.map_cons, getL_cons, getL_cons]
      by_cases hx : x.1 = k
      · have : (x.1 == k) = true := by simp [hx]
        simp only [this, if_true]
        by_cases hj : j = k
        · simp [hj]
        · have h1 : ¬ k = j := fun e => hj e.symm
          have h2 : ¬ x.1 = j := by rw [hx]; exact h1
          simp only [h1, h2, hj, if_false]
          clear ih hany this
          induction xs with
          | nil => rfl
          | cons y ys ih2 =>
            rw [List.map_cons, getL_cons, getL_cons, ih2]
            by_cases hy : y.1 = k
            · have : (y.1 == k) = true := by simp [hy]
              have h3 : ¬ y.1 = j := by rw [hy]; exact h1
              simp [this, h1, h3]
            · have : (y.1 == k) = false := by simp [hy]
              simp [this]
      · have : (x.1 == k) = false := by simp [hx]
        simp only [this, Bool.false_eq_true, if_false]
        have hany' : xs.any (fun r => r.1 == k) = true := by
          simpa [List.any_cons, this] using hany
        rw [ih hany']
        by_cases hj : j = k
        · subst hj; simp [hx]
        · simp [hj]
  · rename_i hany
    have hnone : getL l k = none := by
      rw [getL_eq_none]
      intro hm
      apply hany
      rw [List.any_eq_true]
      rcases List.mem_map.1 hm with ⟨r, hr, e⟩
      exact ⟨r, hr, by simp [e]⟩
    rw [getL_append_single]
    by_cases hj : j = k
    · subst hj; simp [hnone]
    · simp only [hj, if_false]
      cases getL l j <;> rfl

theorem map_fst_upsert_of_any (l : List (Name × Bytes)) (k : Name) (v : Bytes) :
    (l.map (fun r => if r.1 == k then (k, v) else r)).map (·.1) = l.map (·.1) := by
  induction l with
  | nil => rfl
  | cons x xs ih =>
    simp only [List.map_cons, ih]
    congr 1
    by_cases hx : x.1 = k
    · simp [hx]
    · have : (x.1 == k) = false := by simp [hx]
      simp [this]

theorem nodup_upsert {l : List (Name × Bytes)} (h : (l.map (·.1)).Nodup) (k : Name) (v : Bytes) :
    ((upsert l k v).map (·.1)).Nodup := by
  unfold upsert
  split
  · rw [map_fst_upsert_of_any]; exact h
  · rename_i hany
    rw [List.map_append, List.nodup_append]
    refine ⟨h, by simp, ?_⟩
    intro a ha b hb
    simp only [List.map_cons, List.map_nil, List.mem_singleton] at hb
    subst hb
    intro e
    subst e
    apply hany
    rw [List.any_eq_true]
    rcases List.mem_map.1 ha with ⟨r, hr, e⟩
    exact ⟨r, hr, by simp [e]⟩

theorem nodup_filter_fst {l : List (Name × Bytes)} (h : (l.map (·.1)).Nodup) (p : Name × Bytes → Bool) :
    ((l.filter p).map (·.1)).Nodup :=
  List.Nodup.sublist (List.Sublist.map _ List.filter_sublist) h

theorem nodup_append_single {l : List (Name × Bytes)} (h : (l.map (·.1)).Nodup) {n : Name} (v : Bytes)
    (hn : getL l n = none) : ((l ++ [(n, v)]).map (·.1)).Nodup := by
  rw [List.map_append, List.nodup_append]
  refine ⟨h, by simp, ?_⟩
  intro a ha b hb
  simp only [List.map_cons, List.map_nil, List.mem_singleton] at hb
  subst hb
  intro e
  subst e
  exact getL_eq_none.1 hn ha

theorem mem_iff_getL {l : List (Name × Bytes)} (h : (l.map (·.1)).Nodup) (p : Name × Bytes) :
    p ∈ l ↔ getL l p.1 = some p.2 := by
  induction l with
  | nil => simp
  | cons x xs ih =>
    simp only [List.map_cons, List.nodup_cons] at h
    rw [getL_cons, List.mem_cons]
    by_cases hx : x.1 = p.1
    · simp only [hx, if_true]
      constructor
      · rintro (e | hp)
        · rw [e]
        · exact absurd (hx ▸ List.mem_map_of_mem hp) h.1
      · intro e
        left
        cases p; cases x; simp_all
    · simp only [hx, if_false]
      rw [← ih h.2]
      constructor
      · rintro (e | hp)
        · exact absurd (e ▸ rfl) hx
        · exact hp
      · exact Or.inr

/-! ### abstract store lookups -/

theorem ASt.val_setVal_some (a : ASt) (k j : Name) (v : Bytes) :
    (a.setVal k (some v)).val j = if j = k then some v else a.val j := by
  simp only [ASt.val_eq, ASt.setVal, List.singleton_append]
  rw [getL_cons, getL_filter_ne]
  by_cases h : j = k
  · simp [h]
  · have : ¬ k = j := fun e => h e.symm
    simp [h, this]

theorem ASt.val_setVal_none (a : ASt) (k j : Name) :
    (a.setVal k none).val j = if j = k then none else a.val j := by
  simp only [ASt.val_eq, ASt.setVal, List.nil_append]
  rw [getL_filter_ne]

@[simp] theorem ASt.log_setVal (a : ASt) (k j : Name) (v : Option Bytes) :
    (a.setVal k v).log j = a.log j := rfl

@[simp] theorem ASt.val_setLog (a : ASt) (k j : Name) (l : List Entry) :
    (a.setLog k l).val j = a.val j := rfl

theorem ASt.log_filter_ne (logs : List (Name × List Entry)) (k j : Name) (h : j ≠ k) :
    (logs.filter (fun r => r.1 != k)).find? (fun r => r.1 == j) = logs.find? (fun r => r.1 == j) := by
  induction logs with
  | nil => rfl
  | cons x xs ih =>
    rw [List.filter_cons]
    by_cases hx : x.1 = k
    · have h1 : (x.1 != k) = false := by simp [hx]
      have h2 : (x.1 == j) = false := by simp [hx]; exact fun e => h e.symm
      simp only [h1, Bool.false_eq_true, if_false, List.find?_cons, h2, ih]
    · have h1 : (x.1 != k) = true := by simp [hx]
      simp only [h1, if_true, List.find?_cons, ih]

theorem ASt.log_setLog (a : ASt) (k j : Name) (l : List Entry) :
    (a.setLog k l).log j = if j = k then l else a.log j := by
  unfold ASt.log ASt.setLog
  simp only [List.find?_cons]
  by_cases h : j = k
  · subst h; simp
  · have : (k == j) = false := by simp; exact fun e => h e.symm
    simp only [this, h, if_false]
    rw [ASt.log_filter_ne _ _ _ h]

end Wrgl
