import WrglModel.Model.Chunked
import WrglModel.Model.ReadModes
namespace Wrgl

/-! ### one `Read`, `io.ReadFull` -/


theorem readList_spec (ewl : Bool) (chunks : List Bytes) (n : Nat) (hn : 0 < n) :
    (Chunked.readList ewl chunks n).1 ++ (Chunked.readList ewl chunks n).2.2.flatten = chunks.flatten ∧
    (Chunked.readList ewl chunks n).1.length ≤ n ∧
    ((Chunked.readList ewl chunks n).1 = [] → chunks.flatten = []) := by
  induction chunks with
  | nil => simp [Chunked.readList]
  | cons ch rest ih =>
    unfold Chunked.readList
    by_cases h1 : ch.isEmpty
    · have : ch = [] := by simpa using h1
      subst this
      simpa using ih
    · have hne : ch ≠ [] := by simpa using h1
      have hn0 : (n == 0) = false := by simp; omega
      simp only [h1, hn0, Bool.false_eq_true, if_false]
      by_cases h2 : ch.length ≤ n
      · simp only [h2, if_true]
        refine ⟨?_, trivial, fun h => absurd h hne⟩
        by_cases h3 : rest.all (·.isEmpty)
        · simp only [h3, if_true]
          have : rest.flatten = [] := by
            simp only [List.all_eq_true, List.isEmpty_iff] at h3
            simp only [List.flatten_eq_nil_iff]
            exact h3
          simp [this]
        · simp [h3]
      · simp only [h2, if_false]
        refine ⟨?_, ?_, ?_⟩
        · simp [← List.append_assoc]
        · simp; omega
        · intro h; simp at h; rcases h with h | h; omega; exact absurd h hne

theorem read_spec (c : Chunked) (n : Nat) (hn : 0 < n) :
    (c.read n).1 ++ (c.read n).2.2.content = c.content ∧
    (c.read n).1.length ≤ n ∧
    ((c.read n).1 = [] → c.content = []) ∧
    (c.read n).2.2.eofWithLast = c.eofWithLast := by
  have := readList_spec c.eofWithLast c.chunks n hn
  simp only [Chunked.read, Chunked.content]
  exact ⟨this.1, this.2.1, this.2.2, trivial⟩

theorem readFull_spec (fuel : Nat) : ∀ (c : Chunked) (n : Nat) (acc : Bytes), n ≤ fuel →
    (Chunked.readFull fuel c n acc).1 = acc ++ c.content.take n ∧
    (Chunked.readFull fuel c n acc).2.content = c.content.drop n ∧
    (Chunked.readFull fuel c n acc).2.eofWithLast = c.eofWithLast := by
  induction fuel with
  | zero =>
    intro c n acc h
    have : n = 0 := by omega
    subst this
    simp [Chunked.readFull]
  | succ fuel ih =>
    intro c n acc h
    unfold Chunked.readFull
    by_cases hn : n = 0
    · subst hn; simp
    · have hn0 : (n == 0) = false := by simp; omega
      simp only [hn0, Bool.false_eq_true, if_false]
      obtain ⟨h1, h2, h3, h4⟩ := read_spec c n (by omega)
      generalize c.read n = r at h1 h2 h3 h4
      obtain ⟨b, eof, c'⟩ := r
      simp only at h1 h2 h3 h4 ⊢
      by_cases hb : b = []
      · have hc := h3 hb
        subst hb
        simp only [List.nil_append] at h1
        simp [h1, hc, h4]
      · have hbe : b.isEmpty = false := by simpa using hb
        simp only [hbe, Bool.false_and, Bool.false_eq_true, if_false]
        have hlen : 0 < b.length := List.length_pos_iff.mpr hb
        obtain ⟨i1, i2, i3⟩ := ih c' (n - b.length) (acc ++ b) (by omega)
        rw [i1, i2, i3, ← h1]
        refine ⟨?_, ?_, h4⟩
        · rw [List.take_append, List.take_of_length_le h2]; simp
        · rw [List.drop_append, List.drop_of_length_le h2]; simp

/-- `io.ReadFull` over any chunking returns the next `n` bytes of the stream (fewer only at its
    end) and leaves the rest of the stream -/
theorem readFullN_content (c : Chunked) (n : Nat) :
    (c.readFullN n).1 = c.content.take n ∧ (c.readFullN n).2.content = c.content.drop n ∧
    (c.readFullN n).2.eofWithLast = c.eofWithLast := by
  have := readFull_spec (n + 1) c n [] (by omega)
  simpa [Chunked.readFullN] using this

theorem fetch_full_eq (c : Chunked) (n : Nat) :
    fetch .full c n =
      (c.content.take n ++ List.replicate (n - (c.content.take n).length) 0,
       (c.content.take n).length, decide ((c.content.take n).length < n), (c.readFullN n).2) := by
  simp only [fetch, (readFullN_content c n).1]

theorem readFullN_congr {c1 c2 : Chunked} (n : Nat) (h : c1.content = c2.content) :
    (c1.readFullN n).2.content = (c2.readFullN n).2.content := by
  rw [(readFullN_content c1 n).2.1, (readFullN_content c2 n).2.1, h]

/-- with `io.ReadFull` at a site, what the code sees depends only on the stream content -/
theorem fetch_full_content (c1 c2 : Chunked) (n : Nat) (h : c1.content = c2.content) :
    (fetch .full c1 n).1 = (fetch .full c2 n).1 ∧ (fetch .full c1 n).2.1 = (fetch .full c2 n).2.1 ∧
    (fetch .full c1 n).2.2.1 = (fetch .full c2 n).2.2.1 ∧
    (fetch .full c1 n).2.2.2.content = (fetch .full c2 n).2.2.2.content := by
  simp only [fetch_full_eq, h]
  exact ⟨trivial, trivial, trivial, readFullN_congr n h⟩

/-- two results agree up to the chunking of the remaining reader -/
def ResEquiv {α : Type} : Res (α × Chunked) → Res (α × Chunked) → Prop
  | .ok (a, c), .ok (b, d) => a = b ∧ c.content = d.content
  | .err e, .err f => e = f
  | .panic p, .panic q => p = q
  | _, _ => False

def fullMode : Site → ReadMode := fun _ => .full

theorem packVersionC_equiv (c1 c2 : Chunked) (h : c1.content = c2.content) :
    ResEquiv (packVersionC fullMode c1) (packVersionC fullMode c2) := by
  have h4 := readFullN_congr 4 h
  have h8 := readFullN_congr 4 h4
  simp only [packVersionC, fullMode, fetch_full_eq, h, h4]
  split
  · simp [ResEquiv]
  · split
    · simp [ResEquiv]
    · split
      · simp [ResEquiv]
      · exact ⟨rfl, h8⟩

theorem packHdrTailC_equiv (fuel : Nat) : ∀ (c1 c2 : Chunked) (bits acc : Nat),
    c1.content = c2.content →
    ResEquiv (packHdrTailC fullMode fuel c1 bits acc) (packHdrTailC fullMode fuel c2 bits acc) := by
  induction fuel with
  | zero => intro c1 c2 bits acc h; simp [packHdrTailC, ResEquiv]
  | succ fuel ih =>
    intro c1 c2 bits acc h
    have h1 := readFullN_congr 1 h
    simp only [packHdrTailC, fullMode, fetch_full_eq, h]
    split
    · simp [ResEquiv]
    · split
      · split
        · exact ⟨rfl, h1⟩
        · exact ih _ _ _ _ h1
      · simp [ResEquiv]

theorem packHdrC_equiv (c1 c2 : Chunked) (h : c1.content = c2.content) :
    ResEquiv (packHdrC fullMode c1) (packHdrC fullMode c2) := by
  have h1 := readFullN_congr 1 h
  simp only [packHdrC, fullMode, fetch_full_eq, h, h1]
  split
  · split
    · exact ⟨rfl, h1⟩
    · simp [ResEquiv]
  · split
    · have := packHdrTailC_equiv ((c2.readFullN 1).2.content.length + 2) _ _ 4
        (UInt8.toNat ‹UInt8› % 16) h1
      revert this
      generalize packHdrTailC fullMode _ (c1.readFullN 1).2 _ _ = r1
      generalize packHdrTailC fullMode _ (c2.readFullN 1).2 _ _ = r2
      intro this
      cases r1 <;> cases r2 <;> simp_all [ResEquiv]
    · simp [ResEquiv]

theorem packObjectsC_equiv (fuel : Nat) : ∀ (c1 c2 : Chunked), c1.content = c2.content →
    packObjectsC fullMode fuel c1 = packObjectsC fullMode fuel c2 := by
  induction fuel with
  | zero => intro c1 c2 h; simp [packObjectsC]
  | succ fuel ih =>
    intro c1 c2 h
    have hh := packHdrC_equiv c1 c2 h
    simp only [packObjectsC]
    revert hh
    generalize packHdrC fullMode c1 = r1
    generalize packHdrC fullMode c2 = r2
    intro hh
    cases r1 <;> cases r2 <;> simp only [ResEquiv] at hh <;> try (first | exact hh.elim | (subst hh; rfl))
    rename_i a b
    obtain ⟨o1, d1⟩ := a
    obtain ⟨o2, d2⟩ := b
    obtain ⟨ho, hd⟩ := hh
    subst ho
    cases o1 with
    | none => rfl
    | some tu =>
      obtain ⟨t, u⟩ := tu
      simp only [(readFullN_content d1 u).1, (readFullN_content d2 u).1, hd,
        ih _ _ (readFullN_congr u hd)]

theorem packfileC_full_equiv (c1 c2 : Chunked) (h : c1.content = c2.content) :
    packfileC fullMode c1 = packfileC fullMode c2 := by
  have hh := packVersionC_equiv c1 c2 h
  simp only [packfileC, h]
  revert hh
  generalize packVersionC fullMode c1 = r1
  generalize packVersionC fullMode c2 = r2
  intro hh
  cases r1 <;> cases r2 <;> simp only [ResEquiv] at hh <;> try (first | exact hh.elim | (subst hh; rfl))
  rename_i a b
  obtain ⟨v1, d1⟩ := a
  obtain ⟨v2, d2⟩ := b
  obtain ⟨hv, hd⟩ := hh
  subst hv
  simp only [packObjectsC_equiv _ d1 d2 hd]

theorem mode_eq_full (mode : Site → ReadMode) (hm : ∀ s, mode s = .full) : mode = fullMode :=
  funext hm

/-- C18 for the packfile reader: if every site reads with `io.ReadFull` (or a completing loop), the
    decoded objects and the end-of-stream condition depend only on the bytes of the stream, not on
    how the transport cuts them (1-byte reads, reads ending mid-header, data+EOF in one call). -/
theorem packfileC_chunk_independent (mode : Site → ReadMode) (hm : ∀ s, mode s = .full)
    (c1 c2 : Chunked) (h : c1.content = c2.content) : packfileC mode c1 = packfileC mode c2 := by
  rw [mode_eq_full mode hm]; exact packfileC_full_equiv c1 c2 h

/-- in particular every chunking agrees with the whole-buffer result -/
theorem packfileC_eq_flat (mode : Site → ReadMode) (hm : ∀ s, mode s = .full) (c : Chunked) :
    packfileC mode c = packfileFlat c.content := by
  rw [mode_eq_full mode hm]
  exact packfileC_full_equiv _ _ (by simp [Chunked.content])

theorem site_mem_all (s : Site) : s ∈ Site.all := by
  cases s <;> simp [Site.all]

/-- a single `Read` at the version site makes the result depend on the chunking: the same valid
    packfile ("PACK", version 1, no objects) decodes when delivered whole and is rejected when the
    first read returns one byte -/
theorem single_read_is_chunk_dependent :
    let mode : Site → ReadMode := fun s => if s = .packVersion then .single else .full
    let bytes : Bytes := [80, 65, 67, 75, 0, 0, 0, 1]
    packfileC mode { chunks := [bytes], eofWithLast := false } ≠
    packfileC mode { chunks := [[80], [65, 67, 75, 0, 0, 0, 1]], eofWithLast := false } := by
  decide

end Wrgl
