/-
C15 auxiliary lemmas for the file-store form of the abstract map (`stepAF`, Spec/RefStore.lean):
reading a value / a log back through `setVal` / `setLog`, and what rename / copy onto a bound
destination leave behind. Core Lean only.
-/
import WrglModel.Spec.RefStore
namespace Wrgl

theorem ASt.val_setVal_same (a : ASt) (k : Name) (v : Option Bytes) : (a.setVal k v).val k = v := by
  cases v <;> simp [ASt.val, ASt.setVal, List.find?_filter]

theorem ASt.val_setVal_ne (a : ASt) (k k' : Name) (v : Option Bytes) (h : k ≠ k') : (a.setVal k v).val k' = a.val k' := by
  have h1 : (k == k') = false := by simpa using h
  have h2 : ∀ x : Name × Bytes, (x.1 == k') = true → (x.1 != k) = true := by
    intro x hx; have : x.1 = k' := by simpa using hx
    simp [this]; exact fun e => h e.symm
  have h3 : (a.vals.filter (fun r => r.1 != k)).find? (fun r => r.1 == k') = a.vals.find? (fun r => r.1 == k') := by
    induction a.vals with
    | nil => rfl
    | cons x xs ih =>
      by_cases hx : (x.1 == k') = true
      · simp [List.filter, h2 x hx, List.find?, hx]
      · have hx' : (x.1 == k') = false := by simpa using hx
        cases hk : (x.1 != k) <;> simp [List.filter, hk, List.find?, hx', ih]
  cases v <;> simp [ASt.val, ASt.setVal, h1, h3]

theorem ASt.val_setLog (a : ASt) (k k' : Name) (l : List Entry) : (a.setLog k l).val k' = a.val k' := rfl
theorem ASt.log_setVal (a : ASt) (k k' : Name) (v : Option Bytes) : (a.setVal k v).log k' = a.log k' := rfl
theorem ASt.log_setLog_same (a : ASt) (k : Name) (l : List Entry) : (a.setLog k l).log k = l := by
  simp [ASt.log, ASt.setLog]

theorem ASt.log_setLog_ne (a : ASt) (k k' : Name) (l : List Entry) (h : k ≠ k') : (a.setLog k l).log k' = a.log k' := by
  have h1 : (k == k') = false := by simpa using h
  have h2 : ∀ x : Name × List Entry, (x.1 == k') = true → (x.1 != k) = true := by
    intro x hx; have : x.1 = k' := by simpa using hx
    simp [this]; exact fun e => h e.symm
  have h3 : (a.logs.filter (fun r => r.1 != k)).find? (fun r => r.1 == k') = a.logs.find? (fun r => r.1 == k') := by
    induction a.logs with
    | nil => rfl
    | cons x xs ih =>
      by_cases hx : (x.1 == k') = true
      · simp [List.filter, h2 x hx, List.find?, hx]
      · have hx' : (x.1 == k') = false := by simpa using hx
        cases hk : (x.1 != k) <;> simp [List.filter, hk, List.find?, hx', ih]
  simp [ASt.log, ASt.setLog, h1, h3]

/-- rename onto a bound destination: the destination ends with the source's value and log, the source is gone -/
theorem fs_rename_replaces (a : ASt) (o n : Name) (v : Bytes) (ho : a.val o = some v) (hn : (a.val n).isSome = true) (hne : o ≠ n) :
    (stepAF a (.rename o n)).2 = .ok ∧ (stepAF a (.rename o n)).1.val n = some v ∧ (stepAF a (.rename o n)).1.log n = a.log o
    ∧ (stepAF a (.rename o n)).1.val o = none ∧ (stepAF a (.rename o n)).1.log o = [] := by
  have hne' : n ≠ o := fun e => hne e.symm
  have hb : (o == n) = false := by simpa using hne
  have e1 : ((a.setVal n none).setLog n []).val o = some v := by
    rw [ASt.val_setLog, ASt.val_setVal_ne _ _ _ _ hne', ho]
  have e2 : ((a.setVal n none).setLog n []).val n = none := by
    rw [ASt.val_setLog, ASt.val_setVal_same]
  have e3 : ((a.setVal n none).setLog n []).log o = a.log o := by
    rw [ASt.log_setLog_ne _ _ _ _ hne', ASt.log_setVal]
  have key : stepAF a (.rename o n) =
      ((((((a.setVal n none).setLog n []).setVal n (some v)).setVal o none).setLog n (a.log o)).setLog o [], .ok) := by
    simp [stepAF, ho, hn, hb, stepA, aRename, e1, e2, e3]
  rw [key]
  refine ⟨rfl, ?_, ?_, ?_, ?_⟩
  · show (ASt.setLog _ o []).val n = some v
    rw [ASt.val_setLog, ASt.val_setLog, ASt.val_setVal_ne _ _ _ _ hne, ASt.val_setVal_same]
  · show (ASt.setLog _ o []).log n = a.log o
    rw [ASt.log_setLog_ne _ _ _ _ hne, ASt.log_setLog_same]
  · show (ASt.setLog _ o []).val o = none
    rw [ASt.val_setLog, ASt.val_setLog, ASt.val_setVal_same]
  · show (ASt.setLog _ o []).log o = []
    rw [ASt.log_setLog_same]

/-- copy onto a bound destination: the destination ends with the source's value and log, the source keeps both -/
theorem fs_copy_replaces (a : ASt) (s d : Name) (v : Bytes) (hs : a.val s = some v) (hd : (a.val d).isSome = true) (hne : s ≠ d) :
    (stepAF a (.copy s d)).2 = .ok ∧ (stepAF a (.copy s d)).1.val d = some v ∧ (stepAF a (.copy s d)).1.log d = a.log s
    ∧ (stepAF a (.copy s d)).1.val s = some v ∧ (stepAF a (.copy s d)).1.log s = a.log s := by
  have hne' : d ≠ s := fun e => hne e.symm
  have hb : (s == d) = false := by simpa using hne
  have e1 : ((a.setVal d none).setLog d []).val s = some v := by
    rw [ASt.val_setLog, ASt.val_setVal_ne _ _ _ _ hne', hs]
  have e2 : ((a.setVal d none).setLog d []).val d = none := by
    rw [ASt.val_setLog, ASt.val_setVal_same]
  have e3 : ((a.setVal d none).setLog d []).log s = a.log s := by
    rw [ASt.log_setLog_ne _ _ _ _ hne', ASt.log_setVal]
  have key : stepAF a (.copy s d) =
      ((((a.setVal d none).setLog d []).setVal d (some v)).setLog d (a.log s), .ok) := by
    simp [stepAF, hs, hd, hb, stepA, e1, e2, e3]
  rw [key]
  refine ⟨rfl, ?_, ?_, ?_, ?_⟩
  · show (ASt.setLog _ d _).val d = some v
    rw [ASt.val_setLog, ASt.val_setVal_same]
  · show (ASt.setLog _ d _).log d = a.log s
    rw [ASt.log_setLog_same]
  · show (ASt.setLog _ d _).val s = some v
    rw [ASt.val_setLog, ASt.val_setVal_ne _ _ _ _ hne', e1]
  · show (ASt.setLog _ d _).log s = a.log s
    rw [ASt.log_setLog_ne _ _ _ _ hne', ASt.log_setVal, e3]
end Wrgl
