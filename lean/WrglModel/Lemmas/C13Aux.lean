import WrglModel.Model.Crash
namespace Wrgl

theorem mem_addN (l : List Nat) (x y : Nat) : y ∈ addN l x ↔ y = x ∨ y ∈ l := by
  unfold addN
  split
  · rename_i h
    simp at h
    constructor
    · intro h'; exact Or.inr h'
    · rintro (rfl | h')
      · exact h
      · exact h'
  · simp

theorem consistent_iff (u : Universe) (heads : List Nat) (s : RState) :
    Consistent u heads s ↔
      (∀ p ∈ s.refs, p.2 ∈ s.coms) ∧
      (∀ c ∈ s.coms, ∃ ps t, u.commit? c = some (ps, t) ∧ ∀ p ∈ ps, p ∈ s.coms) ∧
      (∀ t ∈ s.tbls, ∃ bs is, u.table? t = some (bs, is) ∧ (∀ b ∈ bs, b ∈ s.blks) ∧ (∀ i ∈ is, i ∈ s.idxs) ∧ t ∈ s.tblIdx) ∧
      (∀ p ∈ s.refs, p.1 ∈ heads → ∃ ps t, u.commit? p.2 = some (ps, t) ∧ t ∈ s.tbls) := by
  unfold Consistent consistentClauses
  simp only [List.append_eq_nil_iff, ite_eq_left_iff, reduceCtorEq, imp_false, Classical.not_not,
    List.all_eq_true, and_assoc]
  refine and_congr ?_ (and_congr ?_ (and_congr ?_ ?_))
  · simp
  · refine forall_congr' fun c => forall_congr' fun _ => ?_
    cases h : u.commit? c with
    | none => simp
    | some v => rcases v with ⟨ps, t⟩; simp
  · refine forall_congr' fun t => forall_congr' fun _ => ?_
    cases h : u.table? t with
    | none => simp
    | some v => rcases v with ⟨bs, is⟩; simp [and_assoc]
  · refine forall_congr' fun p => forall_congr' fun _ => ?_
    cases h : u.commit? p.2 with
    | none => simp
    | some v => rcases v with ⟨ps, t⟩; simp [and_assoc, Decidable.imp_iff_not_or]

/-! ### applyAll -/

theorem applyAll_nil (s : RState) : s.applyAll [] = s := rfl
theorem applyAll_cons (s : RState) (w : WOp) (ws : List WOp) :
    s.applyAll (w :: ws) = (s.apply w).applyAll ws := rfl
theorem applyAll_append (s : RState) (a b : List WOp) :
    s.applyAll (a ++ b) = (s.applyAll a).applyAll b := by
  unfold RState.applyAll; exact List.foldl_append

/-- the block writes of `insertBlock` in the order blk, blkidx -/
def bwPairs (l : List (Nat × Nat)) : List WOp := l.flatMap (fun p => [.blk p.1, .blkidx p.2])

theorem bwPairs_cons (p : Nat × Nat) (l : List (Nat × Nat)) :
    bwPairs (p :: l) = .blk p.1 :: .blkidx p.2 :: bwPairs l := by
  simp [bwPairs]

theorem applyAll_bwPairs (l : List (Nat × Nat)) : ∀ (s : RState),
    (s.applyAll (bwPairs l)).coms = s.coms ∧ (s.applyAll (bwPairs l)).tbls = s.tbls ∧
    (s.applyAll (bwPairs l)).refs = s.refs ∧ (s.applyAll (bwPairs l)).tblIdx = s.tblIdx ∧
    (∀ x ∈ s.blks, x ∈ (s.applyAll (bwPairs l)).blks) ∧
    (∀ x ∈ s.idxs, x ∈ (s.applyAll (bwPairs l)).idxs) ∧
    (∀ p ∈ l, p.1 ∈ (s.applyAll (bwPairs l)).blks ∧ p.2 ∈ (s.applyAll (bwPairs l)).idxs) := by
  induction l with
  | nil => intro s; simp [bwPairs, applyAll_nil]
  | cons p l ih =>
    intro s
    rw [bwPairs_cons, applyAll_cons, applyAll_cons]
    obtain ⟨h1, h2, h3, h4, h5, h6, h7⟩ := ih ((s.apply (.blk p.1)).apply (.blkidx p.2))
    refine ⟨by rw [h1]; rfl, by rw [h2]; rfl, by rw [h3]; rfl, by rw [h4]; rfl, ?_, ?_, ?_⟩
    · intro x hx
      apply h5
      simp only [RState.apply, mem_addN]
      exact Or.inr hx
    · intro x hx
      apply h6
      simp only [RState.apply, mem_addN]
      exact Or.inr hx
    · intro q hq
      rcases List.mem_cons.1 hq with rfl | hq
      · constructor
        · apply h5
          simp [RState.apply, mem_addN]
        · apply h6
          simp [RState.apply, mem_addN]
      · exact h7 q hq

theorem applyAll_idxWrites (l : List Nat) : ∀ (s : RState),
    (s.applyAll (l.map .blkidx)).coms = s.coms ∧ (s.applyAll (l.map .blkidx)).tbls = s.tbls ∧
    (s.applyAll (l.map .blkidx)).refs = s.refs ∧ (s.applyAll (l.map .blkidx)).tblIdx = s.tblIdx ∧
    (s.applyAll (l.map .blkidx)).blks = s.blks ∧
    (∀ x ∈ s.idxs, x ∈ (s.applyAll (l.map .blkidx)).idxs) ∧
    (∀ i ∈ l, i ∈ (s.applyAll (l.map .blkidx)).idxs) := by
  induction l with
  | nil => intro s; simp [applyAll_nil]
  | cons i l ih =>
    intro s
    rw [List.map_cons, applyAll_cons]
    obtain ⟨h1, h2, h3, h4, h5, h6, h7⟩ := ih (s.apply (.blkidx i))
    refine ⟨by rw [h1]; rfl, by rw [h2]; rfl, by rw [h3]; rfl, by rw [h4]; rfl, by rw [h5]; rfl, ?_, ?_⟩
    · intro x hx
      apply h6
      simp only [RState.apply, mem_addN]
      exact Or.inr hx
    · intro q hq
      rcases List.mem_cons.1 hq with rfl | hq
      · apply h6
        simp [RState.apply, mem_addN]
      · exact h7 q hq

theorem mem_zip_of_mem_left {α β} (a : List α) (b : List β) (h : a.length = b.length) (x : α) (hx : x ∈ a) :
    ∃ y, (x, y) ∈ a.zip b := by
  have : (a.zip b).map Prod.fst = a := List.map_fst_zip (by omega)
  rw [← this] at hx
  obtain ⟨p, hp, rfl⟩ := List.mem_map.1 hx
  exact ⟨p.2, hp⟩

theorem mem_zip_of_mem_right {α β} (a : List α) (b : List β) (h : a.length = b.length) (y : β) (hy : y ∈ b) :
    ∃ x, (x, y) ∈ a.zip b := by
  have : (a.zip b).map Prod.snd = b := List.map_snd_zip (by omega)
  rw [← this] at hy
  obtain ⟨p, hp, rfl⟩ := List.mem_map.1 hy
  exact ⟨p.1, hp⟩

end Wrgl
