import WrglModel.Model.Encoding
import WrglModel.Lemmas.C06CodecBase
namespace Wrgl

/-- a row whose cells fit the 16-bit length prefix round-trips, whatever its total size, and the
    decoder stops exactly at the end of the row -/
theorem strList_roundtrip (maxCell : Nat) (hm : maxCell ≤ 65535) (r : Row) (rest b : Bytes)
    (hc : ∀ c ∈ r, c.length ≤ maxCell) (hn : r.length < 2 ^ 32)
    (he : strListEncode maxCell r = .ok b) : strListRead (b ++ rest) = .ok (r, rest) := by
  obtain ⟨_, rfl⟩ := strListEncode_ok maxCell r b he
  exact strListRead_encode r rest (fun c h => Nat.le_trans (hc c h) hm) hn

/-- `Encode` is total on rows whose cells fit, and refuses (by panicking) every other row -/
theorem strList_encode_ok_iff (maxCell : Nat) (r : Row) :
    (∃ b, strListEncode maxCell r = .ok b) ↔ ∀ c ∈ r, c.length ≤ maxCell := by
  constructor
  · rintro ⟨b, hb⟩
    exact (strListEncode_ok maxCell r b hb).1
  · intro h
    exact ⟨_, strListEncode_of_fit maxCell r h⟩

theorem strList_encode_overlimit (maxCell : Nat) (r : Row) (h : ∃ c ∈ r, c.length > maxCell) :
    strListEncode maxCell r = .panic "strlist-cell-too-long" := by
  unfold strListEncode
  rw [if_pos]
  simp only [List.any_eq_true, decide_eq_true_eq]
  exact h

theorem strList_injective (maxCell : Nat) (hm : maxCell ≤ 65535) (r1 r2 : Row) (b : Bytes)
    (h1 : r1.length < 2 ^ 32) (h2 : r2.length < 2 ^ 32)
    (e1 : strListEncode maxCell r1 = .ok b) (e2 : strListEncode maxCell r2 = .ok b) : r1 = r2 := by
  have a1 := strList_roundtrip maxCell hm r1 [] b (strListEncode_ok _ _ _ e1).1 h1 e1
  have a2 := strList_roundtrip maxCell hm r2 [] b (strListEncode_ok _ _ _ e2).1 h2 e2
  rw [a1] at a2
  injection a2 with a2
  injection a2

theorem block_roundtrip (maxCell : Nat) (hm : maxCell ≤ 65535) (rows : List Row) (rest b : Bytes)
    (hn : rows.length < 2 ^ 32) (hr : ∀ r ∈ rows, r.length < 2 ^ 32)
    (he : blockEncode maxCell rows = .ok b) : blockDecode (b ++ rest) = .ok (rows, rest) := by
  obtain ⟨hc, rfl⟩ := blockEncode_ok _ _ _ he
  unfold blockDecode
  rw [List.append_assoc, takeN_append 4 _ _ (u32be_length _)]
  simp only [beNat_u32be _ hn]
  exact decodeRows_encode rows rest (fun r h c h' => Nat.le_trans (hc r h c h') hm) hr

theorem block_injective (maxCell : Nat) (hm : maxCell ≤ 65535) (rows1 rows2 : List Row) (b : Bytes)
    (h1 : rows1.length < 2 ^ 32) (h2 : rows2.length < 2 ^ 32)
    (hr1 : ∀ r ∈ rows1, r.length < 2 ^ 32) (hr2 : ∀ r ∈ rows2, r.length < 2 ^ 32)
    (e1 : blockEncode maxCell rows1 = .ok b) (e2 : blockEncode maxCell rows2 = .ok b) : rows1 = rows2 := by
  have a1 := block_roundtrip maxCell hm rows1 [] b h1 hr1 e1
  have a2 := block_roundtrip maxCell hm rows2 [] b h2 hr2 e2
  rw [a1] at a2
  injection a2 with a2
  injection a2

theorem uintList_roundtrip (l : List Nat) (rest : Bytes) (hn : l.length < 2 ^ 32)
    (hx : ∀ x ∈ l, x < 2 ^ 32) : uintListRead (uintListEncode l ++ rest) = .ok (l, rest) := by
  unfold uintListRead uintListEncode
  rw [List.append_assoc, takeN_append 4 _ _ (u32be_length _)]
  simp only [beNat_u32be _ hn]
  exact decodeUints_encode l rest hx

/-- a table object that is well formed (what `Table.WriteTo` is ever given) -/
structure TableObj.WF (t : TableObj) : Prop where
  cols : t.columns.length < 2 ^ 32
  pkLen : t.pk.length < 2 ^ 32
  pkVals : ∀ x ∈ t.pk, x < 2 ^ 32
  rows : t.rowsCount < 2 ^ 32
  nblocks : t.blocks.length = blocksCount t.rowsCount
  nidx : t.blockIndices.length = blocksCount t.rowsCount
  sums : ∀ s ∈ t.blocks ++ t.blockIndices, s.length = 16

theorem table_roundtrip (maxCell : Nat) (hm : maxCell ≤ 65535) (t : TableObj) (b : Bytes) (hw : t.WF)
    (he : tableBytes maxCell t = .ok b) : tableRead b = .ok t := by
  obtain ⟨hc, hb⟩ := tableBytes_shape _ _ _ he
  generalize h10 : t.blockIndices.flatten ++ [] = b10 at hb
  generalize h9 : t.blocks.flatten ++ b10 = b9 at hb
  generalize h8 : 10 :: b9 = b8 at hb
  generalize h7 : u32be t.rowsCount ++ b8 = b7 at hb
  generalize h6 : (strBytes "rows" ++ [32]) ++ b7 = b6 at hb
  generalize h5 : 10 :: b6 = b5 at hb
  generalize h4 : uintListEncode t.pk ++ b5 = b4 at hb
  generalize h3 : (strBytes "pk" ++ [32]) ++ b4 = b3 at hb
  generalize h2 : 10 :: b3 = b2 at hb
  generalize h1 : (u32be t.columns.length ++ encodeCells t.columns) ++ b2 = b1 at hb
  have hrc : beNat (u32be t.rowsCount) = t.rowsCount := beNat_u32be _ hw.rows
  have e0 : readLabel "columns" b = .ok (some b1) := by rw [hb, readLabel_append]
  have e1 : strListRead b1 = .ok (t.columns, b2) := by
    rw [← h1, strListRead_encode _ _ (fun c h => Nat.le_trans (hc c h) hm) hw.cols]
  have e2 : readNewline b2 = .ok b3 := by rw [← h2]; rfl
  have e3 : readLabel "pk" b3 = .ok (some b4) := by rw [← h3, readLabel_append]
  have e4 : uintListRead b4 = .ok (t.pk, b5) := by
    rw [← h4, uintList_roundtrip _ _ hw.pkLen hw.pkVals]
  have e5 : readNewline b5 = .ok b6 := by rw [← h5]; rfl
  have e6 : readLabel "rows" b6 = .ok (some b7) := by rw [← h6, readLabel_append]
  have e7 : takeN 4 b7 = some (u32be t.rowsCount, b8) := by
    rw [← h7, takeN_append 4 _ _ (u32be_length _)]
  have e8 : readNewline b8 = .ok b9 := by rw [← h8]; rfl
  have e9 : takeSums (blocksCount (beNat (u32be t.rowsCount))) b9 = .ok (t.blocks, b10) := by
    rw [hrc, ← h9, ← hw.nblocks, takeSums_flatten _ _ (fun s hs => hw.sums s (by simp [hs]))]
  have e10 : takeSums (blocksCount (beNat (u32be t.rowsCount))) b10 = .ok (t.blockIndices, []) := by
    rw [hrc, ← h10, ← hw.nidx, takeSums_flatten _ _ (fun s hs => hw.sums s (by simp [hs]))]
  have := tableRead_steps b b1 b2 b3 b4 b5 b6 b7 b8 b9 b10 [] (u32be t.rowsCount) t.columns t.pk
    t.blocks t.blockIndices e0 e1 e2 e3 e4 e5 e6 e7 e8 e9 e10
  rw [this, hrc]

structure CommitObj.WF (c : CommitObj) : Prop where
  table : c.table.length = 16
  time : c.time.length = 16
  parents : ∀ p ∈ c.parents, p.length = 16

/-- with the write-time guard, every commit that can be written reads back equal -/
theorem commit_roundtrip (c : CommitObj) (b : Bytes) (hw : c.WF)
    (he : commitBytes true c = .ok b) : commitRead b = .ok c := by
  obtain ⟨h1, h2, h3, hb⟩ := commitBytes_shape c b he
  generalize h5 : (c.parents.map (field "parent")).flatten = b5 at hb
  generalize h4 : field "message" (u16be c.message.length ++ c.message) ++ b5 = b4 at hb
  generalize h3' : field "time" c.time ++ b4 = b3 at hb
  generalize h2' : field "authorEmail" (u16be c.authorEmail.length ++ c.authorEmail) ++ b3 = b2 at hb
  generalize h1' : field "authorName" (u16be c.authorName.length ++ c.authorName) ++ b2 = b1 at hb
  have e0 : readFixedField "table" 16 b = .ok (c.table, b1) := by
    rw [hb, readFixedField_field _ _ _ _ hw.table]
  have e1 : readStrField "authorName" b1 = .ok (c.authorName, b2) := by
    rw [← h1', readStrField_field _ _ _ h1]
  have e2 : readStrField "authorEmail" b2 = .ok (c.authorEmail, b3) := by
    rw [← h2', readStrField_field _ _ _ h2]
  have e3 : readFixedField "time" 16 b3 = .ok (c.time, b4) := by
    rw [← h3', readFixedField_field _ _ _ _ hw.time]
  have e4 : readStrField "message" b4 = .ok (c.message, b5) := by
    rw [← h4, readStrField_field _ _ _ h3]
  have e5 : readParents (b5.length + 1) b5 = .ok c.parents := by
    rw [← h5]
    exact readParents_fields _ _ hw.parents (Nat.lt_succ_self _)
  exact commitRead_steps b b1 b2 b3 b4 b5 _ _ _ _ _ _ e0 e1 e2 e3 e4 e5

theorem writeString_overlimit_err (s : Bytes) (h : s.length > 65535) :
    writeString true s = .err "string-too-long" := by
  simp [writeString, h]

theorem commit_overlimit_err (c : CommitObj)
    (h : c.authorName.length > 65535 ∨ c.authorEmail.length > 65535 ∨ c.message.length > 65535) :
    ∃ e, commitBytes true c = .err e := by
  unfold commitBytes
  rcases writeString_true_cases c.authorName with ⟨h1, e1⟩ | ⟨h1, e1⟩ <;>
  rcases writeString_true_cases c.authorEmail with ⟨h2, e2⟩ | ⟨h2, e2⟩ <;>
  rcases writeString_true_cases c.message with ⟨h3, e3⟩ | ⟨h3, e3⟩ <;>
  rw [e1, e2, e3] <;> first | exact ⟨_, rfl⟩ | omega

end Wrgl
