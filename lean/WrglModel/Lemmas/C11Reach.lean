import WrglModel.Spec.Graph
import WrglModel.Lemmas.C11
namespace Wrgl

namespace C11Aux

/-- the deduplicating append used by `expand` -/
def addNew (acc : List Nat) (l : List Nat) : List Nat :=
  l.foldl (fun acc p => if acc.contains p then acc else acc ++ [p]) acc

theorem addNew_spec (l : List Nat) : ∀ acc : List Nat,
    ∃ t, addNew acc l = acc ++ t ∧ (∀ x, x ∈ t → x ∈ l) ∧ (∀ x, x ∈ l → x ∈ acc ++ t) ∧
      (acc.Nodup → (acc ++ t).Nodup) := by
  induction l with
  | nil =>
    intro acc
    exact ⟨[], by simp [addNew], by simp, by simp, by simp⟩
  | cons p ps ih =>
    intro acc
    by_cases hp : p ∈ acc
    · obtain ⟨t, e, h1, h2, h3⟩ := ih acc
      refine ⟨t, ?_, ?_, ?_, h3⟩
      · have : acc.contains p = true := by simpa using hp
        simp only [addNew, List.foldl_cons, this, ↓reduceIte]
        exact e
      · intro x hx; exact List.mem_cons_of_mem _ (h1 x hx)
      · intro x hx
        rcases List.mem_cons.1 hx with rfl | hx
        · exact List.mem_append_left _ hp
        · exact h2 x hx
    · obtain ⟨t, e, h1, h2, h3⟩ := ih (acc ++ [p])
      refine ⟨p :: t, ?_, ?_, ?_, ?_⟩
      · have : acc.contains p = false := by simpa using hp
        simp only [addNew, List.foldl_cons, this, Bool.false_eq_true, ↓reduceIte]
        have e' := e
        simp only [addNew] at e'
        rw [e']
        simp
      · intro x hx
        rcases List.mem_cons.1 hx with rfl | hx
        · simp
        · exact List.mem_cons_of_mem _ (h1 x hx)
      · intro x hx
        rcases List.mem_cons.1 hx with rfl | hx
        · simp
        · have := h2 x hx
          simpa using this
      · intro hn
        have : (acc ++ [p]).Nodup := by
          rw [List.nodup_append]
          refine ⟨hn, by simp, ?_⟩
          intro a ha b hb
          have : b = p := by simpa using hb
          subst this
          intro e; subst e; exact hp ha
        have := h3 this
        simpa using this

theorem expand_spec (g : Graph) (s : List Nat) :
    ∃ t, expand g s = s ++ t ∧ (∀ x, x ∈ t → ∃ y ∈ s, x ∈ parentsOf g y) ∧
      (∀ y ∈ s, ∀ x ∈ parentsOf g y, x ∈ s ++ t) ∧ (s.Nodup → (s ++ t).Nodup) := by
  obtain ⟨t, e, h1, h2, h3⟩ := addNew_spec (s.flatMap (parentsOf g)) s
  refine ⟨t, e, ?_, ?_, h3⟩
  · intro x hx
    have := h1 x hx
    simpa [List.mem_flatMap] using this
  · intro y hy x hx
    exact h2 x (List.mem_flatMap.2 ⟨y, hy, hx⟩)

theorem closureN_fix (g : Graph) (s : List Nat) (h : expand g s = s) :
    ∀ n, closureN g n s = s := by
  intro n
  induction n with
  | zero => rfl
  | succ n ih => simp only [closureN, h, ih]

theorem closureN_mono (g : Graph) : ∀ n s, ∀ x ∈ s, x ∈ closureN g n s := by
  intro n
  induction n with
  | zero => intro s x hx; exact hx
  | succ n ih =>
    intro s x hx
    simp only [closureN]
    apply ih
    obtain ⟨t, e, _⟩ := expand_spec g s
    rw [e]; exact List.mem_append_left _ hx

theorem closureN_sound (g : Graph) (b : Nat) : ∀ n s, (∀ x ∈ s, Reach g x b) →
    ∀ x ∈ closureN g n s, Reach g x b := by
  intro n
  induction n with
  | zero => intro s hs x hx; exact hs x hx
  | succ n ih =>
    intro s hs x hx
    simp only [closureN] at hx
    refine ih (expand g s) ?_ x hx
    obtain ⟨t, e, h1, _, _⟩ := expand_spec g s
    rw [e]
    intro z hz
    rcases List.mem_append.1 hz with hz | hz
    · exact hs z hz
    · obtain ⟨y, hy, hp⟩ := h1 z hz
      exact reach_trans (Reach.step hp (Reach.refl z)) (hs y hy)

theorem parentsOf_ing {g : Graph} (hwf : g.wf = true) (y p : Nat) (hp : p ∈ parentsOf g y) :
    p ∈ g.map (·.id) := by
  unfold parentsOf at hp
  cases hc : g.get? y with
  | none => simp [hc] at hp
  | some c =>
    simp only [hc] at hp
    exact get?_isSome_mem (wf_parents hwf hc p hp)

theorem closureN_closed {g : Graph} (hwf : g.wf = true) : ∀ n s, s.Nodup →
    (∀ x ∈ s, x ∈ g.map (·.id)) → g.length ≤ n + s.length →
    ∀ x ∈ closureN g n s, ∀ p ∈ parentsOf g x, p ∈ closureN g n s := by
  intro n
  induction n with
  | zero =>
    intro s hn hs hl
    obtain ⟨t, e, h1, h2, h3⟩ := expand_spec g s
    have hlen := nodup_length_le (m := g.map (·.id)) (h3 hn) (by
      intro x hx
      rcases List.mem_append.1 hx with hx | hx
      · exact hs x hx
      · obtain ⟨y, _, hp⟩ := h1 x hx
        exact parentsOf_ing hwf y x hp)
    have ht : t = [] := by
      apply List.eq_nil_of_length_eq_zero
      simp at hlen; omega
    subst ht
    intro x hx p hp
    simp only [closureN] at hx ⊢
    simpa using h2 x hx p hp
  | succ n ih =>
    intro s hn hs hl
    obtain ⟨t, e, h1, h2, h3⟩ := expand_spec g s
    cases t with
    | nil =>
      have e' : expand g s = s := by simpa using e
      rw [closureN_fix g s e']
      intro x hx p hp
      simpa using h2 x hx p hp
    | cons a t =>
      simp only [closureN]
      apply ih
      · rw [e]; exact h3 hn
      · rw [e]
        intro x hx
        rcases List.mem_append.1 hx with hx | hx
        · exact hs x hx
        · obtain ⟨y, _, hp⟩ := h1 x hx
          exact parentsOf_ing hwf y x hp
      · rw [e]; simp; omega

end C11Aux

open C11Aux in
theorem reach_iff_Reach_aux (g : Graph) (hwf : g.wf = true) (a b : Nat)
    (hb : (g.get? b).isSome = true) : reach g a b = true ↔ Reach g a b := by
  unfold reach ancestors
  rw [List.contains_iff_mem]
  constructor
  · intro h
    refine closureN_sound g b g.length [b] ?_ a h
    intro x hx
    have : x = b := by simpa using hx
    subst this; exact Reach.refl _
  · intro h
    have hcl := closureN_closed hwf g.length [b] (by simp)
      (by
        intro x hx
        have : x = b := by simpa using hx
        subst this; exact get?_isSome_mem hb)
      (by simp)
    exact Reach.closed g (fun z => z ∈ closureN g g.length [b]) b
      (closureN_mono g _ _ b (by simp)) hcl a h

end Wrgl
