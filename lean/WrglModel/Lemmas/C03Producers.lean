/-
Lemmas for the producers of C03 other than ingest (Model/Producers.lean): the repository's own
diagnosis finds nothing on a table that satisfies the invariant; a table the receiver accepts
satisfies every clause about indices, and all clauses when its rows did at the source.
Core Lean only.
-/
import WrglModel.Model.Producers
import WrglModel.Lemmas.C01Aux
import WrglModel.Lemmas.Order
namespace Wrgl.C03P

/-! ### `tableInv` clause by clause -/

theorem append_eq_nil' {α : Type} {a b : List α} : a ++ b = [] ↔ a = [] ∧ b = [] := List.append_eq_nil_iff

theorem ite_nil_iff {c : Bool} {s : String} : (if c = true then ([] : List String) else [s]) = [] ↔ c = true := by
  cases c <;> simp

structure Clauses (bs : Nat) (t : FullTable) : Prop where
  c1 : (t.rowsCount == (t.blocks.map List.length).sum) = true
  c2 : blockSizesOk bs (t.blocks.map List.length) = true
  c3 : strictAsc (t.blocks.flatten.map (keyOf t.pk)) = true
  c4 : (t.indices.length == t.blocks.length && t.hashes.length == t.blocks.length) = true
  c5 : (t.indices.zip t.hashes).all (fun (idx, hs) => idx.rows == hs) = true
  c6 : t.indices.all (fun idx => isPermOfRange idx.sortedOff idx.rows.length && nondecreasingAlong idx.sortedOff idx.rows) = true
  c7 : (t.tblIdx == t.blocks.map (fun b => match b with
      | r :: _ => keyOf t.pk r
      | [] => [])) = true

theorem tableInv_nil_iff (bs : Nat) (t : FullTable) : tableInv bs t = [] ↔ Clauses bs t := by
  unfold tableInv
  simp only [append_eq_nil', ite_nil_iff]
  constructor
  · rintro ⟨⟨⟨⟨⟨⟨h1, h2⟩, h3⟩, h4⟩, h5⟩, h6⟩, h7⟩
    exact ⟨h1, h2, h3, h4, h5, h6, h7⟩
  · intro h
    exact ⟨⟨⟨⟨⟨⟨h.c1, h.c2⟩, h.c3⟩, h.c4⟩, h.c5⟩, h.c6⟩, h.c7⟩

theorem mem_ite_single {c : Bool} {s x : String} (h : x ∈ (if c = true then ([] : List String) else [s])) : x = s := by
  cases c <;> simp at h
  exact h

/-- every clause reported is one of the listed ones when all the others hold -/
theorem tableInv_subset_rowClauses (bs : Nat) (t : FullTable)
    (c4 : (t.indices.length == t.blocks.length && t.hashes.length == t.blocks.length) = true)
    (c5 : (t.indices.zip t.hashes).all (fun (idx, hs) => idx.rows == hs) = true)
    (c6 : t.indices.all (fun idx => isPermOfRange idx.sortedOff idx.rows.length && nondecreasingAlong idx.sortedOff idx.rows) = true)
    (c7 : (t.tblIdx == t.blocks.map (fun b => match b with
      | r :: _ => keyOf t.pk r
      | [] => [])) = true) :
    ∀ c ∈ tableInv bs t, c ∈ rowClauses := by
  unfold tableInv
  simp only [c4, c5, c6, if_true, List.append_nil]
  intro c hc
  simp only [List.mem_append] at hc
  rcases hc with ((hc | hc) | hc) | hc
  · have e := mem_ite_single hc; subst e; simp [rowClauses]
  · have e := mem_ite_single hc; subst e; simp [rowClauses]
  · have e := mem_ite_single hc; subst e; simp [rowClauses]
  · split at hc
    · simp at hc
    · rename_i hneg; exact absurd c7 hneg

/-! ### diagnosis -/

theorem strictAsc_tail (a : List Bytes) (l : List (List Bytes)) (h : strictAsc (a :: l) = true) : strictAsc l = true := by
  cases l with
  | nil => rfl
  | cons b rest =>
    simp only [strictAsc, Bool.and_eq_true] at h
    exact h.2

theorem adjacentDup_false (pk : List Nat) : ∀ (rows : List Row) (prev : Option Row),
    strictAsc ((prev.toList ++ rows).map (keyOf pk)) = true → adjacentDup prev rows = false := by
  intro rows
  induction rows with
  | nil => intro prev _; rfl
  | cons r rs ih =>
    intro prev h
    cases prev with
    | none =>
      simp only [Option.toList_none, List.nil_append, List.map_cons] at h
      simp only [adjacentDup, Bool.false_or, Option.isNone_none, Bool.and_true]
      by_cases he : r.isEmpty = true
      · simp only [he, if_true]
        apply ih none
        simpa using strictAsc_tail _ _ h
      · simp only [he, Bool.false_eq_true, if_false]
        apply ih (some r)
        simpa using h
    | some p =>
      simp only [Option.toList_some, List.cons_append, List.nil_append, List.map_cons] at h
      simp only [strictAsc, Bool.and_eq_true, beq_iff_eq] at h
      have hne : (p == r) = false := by
        rw [beq_eq_false_iff_ne]
        intro e
        subst e
        exact keyCmp_lt_irrefl _ h.1
      simp only [adjacentDup, hne, Bool.false_or, Option.isNone_some, Bool.and_false, Bool.false_eq_true, if_false]
      apply ih (some r)
      simpa using h.2

theorem sum_lengths_of_zip_all : ∀ (idxs : List BIdx) (hs : List (List (Bytes × Bytes))),
    idxs.length = hs.length → (idxs.zip hs).all (fun (idx, h) => idx.rows == h) = true →
    idxs.map (fun i => i.rows.length) = hs.map List.length := by
  intro idxs
  induction idxs with
  | nil => intro hs hl _; cases hs with
    | nil => rfl
    | cons _ _ => simp at hl
  | cons i is ih =>
    intro hs hl hall
    cases hs with
    | nil => simp at hl
    | cons h hs' =>
      simp only [List.zip_cons_cons, List.all_cons, Bool.and_eq_true, beq_iff_eq] at hall
      simp only [List.length_cons, Nat.add_right_cancel_iff] at hl
      simp only [List.map_cons, hall.1, ih hs' hl hall.2]

theorem diagnose_none (bs : Nat) (t : FullTable) (hinv : tableInv bs t = [])
    (hh : t.hashes.map List.length = t.blocks.map List.length)
    (hpk : t.pk.any (fun k => decide (k ≥ t.columns.length)) = false)
    (hnames : t.pk.any (fun k => ((t.columns[k]?).getD []).isEmpty) = false) :
    diagnose t = none := by
  have c := (tableInv_nil_iff bs t).1 hinv
  have c1 := c.c1
  have c4 := c.c4
  simp only [Bool.and_eq_true, beq_iff_eq] at c1 c4
  have hdup : adjacentDup none t.blocks.flatten = false := adjacentDup_false t.pk _ none (by simpa using c.c3)
  have hidx : (t.indices.map (fun i => i.rows.length)).sum = t.rowsCount := by
    rw [sum_lengths_of_zip_all t.indices t.hashes (by omega) c.c5, hh, c1]
  unfold diagnose
  simp [hpk, hnames, hdup, c1, c4.1, hidx]

/-! ### receipt -/

theorem indexTable_go_ok (checked : Bool) (cols : Row) (pk : List Nat) :
    ∀ (blocks : List (List Row)) (acc ti : List (List Bytes)),
      indexTable.go checked cols pk blocks acc = .ok ti →
      ti = acc.reverse ++ blocks.map (C01Aux.firstKey pk) ∧ ∀ b ∈ blocks, b ≠ [] := by
  intro blocks
  induction blocks with
  | nil => intro acc ti h; simp [indexTable.go] at h; simp [h]
  | cons blk rest ih =>
    intro acc ti h
    cases blk with
    | nil => simp [indexTable.go] at h
    | cons first more =>
      simp only [indexTable.go] at h
      split at h
      · simp at h
      · split at h
        · simp at h
        · obtain ⟨e, hne⟩ := ih _ _ h
          refine ⟨?_, ?_⟩
          · rw [e]; simp [C01Aux.firstKey, keyOf]
          · intro b hb
            simp only [List.mem_cons] at hb
            rcases hb with rfl | hb
            · simp
            · exact hne b hb

theorem indexTable_ok (checked : Bool) (cols : Row) (pk : List Nat) (blocks : List (List Row)) (ti : List (List Bytes))
    (h : indexTable checked cols pk blocks = .ok ti) :
    ti = blocks.map (C01Aux.firstKey pk) ∧ ∀ b ∈ blocks, b ≠ [] := by
  unfold indexTable at h
  split at h
  · simp at h
  · simpa using indexTable_go_ok checked cols pk blocks [] ti h

/-- What `receiveTable` hands back: the declared description, the blocks found under the declared
    sums, indices recomputed from those blocks, the first key of every block as table index. -/
theorem receiveTable_ok (H : Bytes → Bytes) (sortPerm : List Bytes → List Nat) (mc : Nat) (checked cmp : Bool)
    (o : TableObj) (getBlock : Bytes → Option (List Row)) (ft : FullTable)
    (h : receiveTable H sortPerm mc checked cmp o getBlock = .ok ft) :
    o.blocks.mapM getBlock = some ft.blocks ∧ ft.columns = o.columns ∧ ft.pk = o.pk ∧ ft.rowsCount = o.rowsCount ∧
    ft.hashes = ft.blocks.map (fun b => b.map (rowHashes H mc o.pk)) ∧
    ft.indices = ft.blocks.map (indexBlock H sortPerm mc o.pk) ∧
    ft.tblIdx = ft.blocks.map (C01Aux.firstKey o.pk) ∧ (∀ b ∈ ft.blocks, b ≠ []) ∧
    (cmp = true → o.blockIndices = (ft.blocks.map (indexBlock H sortPerm mc o.pk)).map
        (fun idx => H (blockIndexBytes idx.sortedOff idx.rows))) := by
  unfold receiveTable at h
  split at h
  · simp at h
  · rename_i blocks hb
    split at h
    · simp at h
    · simp at h
    · rename_i ti hti
      obtain ⟨eti, hne⟩ := indexTable_ok _ _ _ _ _ hti
      dsimp only at h
      split at h
      · simp at h
      · rename_i hc
        simp only [Res.ok.injEq] at h
        subst h
        refine ⟨hb, rfl, rfl, rfl, rfl, rfl, eti, hne, ?_⟩
        intro hcmp
        simp only [hcmp, Bool.true_and, bne_iff_ne, ne_eq, Decidable.not_not] at hc
        exact hc.symm

theorem receive_index_clauses (H : Bytes → Bytes) (sortPerm : List Bytes → List Nat) (hp : IsSortPerm sortPerm)
    (mc : Nat) (checked cmp : Bool) (bs : Nat)
    (o : TableObj) (getBlock : Bytes → Option (List Row)) (ft : FullTable)
    (h : receiveTable H sortPerm mc checked cmp o getBlock = .ok ft) :
    ∀ c ∈ tableInv bs ft, c ∈ rowClauses := by
  obtain ⟨_, _, epk, _, eh, ei, eti, _, _⟩ := receiveTable_ok H sortPerm mc checked cmp o getBlock ft h
  apply tableInv_subset_rowClauses
  · rw [eh, ei]; simp
  · rw [eh, ei]; exact C01Aux.indices_rows_eq H sortPerm mc o.pk ft.blocks
  · rw [ei]
    simp only [List.all_map, List.all_eq_true, Function.comp, Bool.and_eq_true]
    intro b _
    constructor
    · apply C01Aux.isPermOfRange_of_perm
      have := hp.perm ((b.map (rowHashes H mc o.pk)).map (·.1))
      simpa [indexBlock] using this
    · exact C01Aux.nondecreasingAlong_of_sorted sortPerm hp (b.map (rowHashes H mc o.pk))
  · rw [eti, epk, beq_iff_eq]
    apply List.map_congr_left
    intro b _
    cases b <;> rfl

end Wrgl.C03P
