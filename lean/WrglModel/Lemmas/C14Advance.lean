/-
C14 with other operations moving the branches between the runs of a transaction's commit
(`txAdvance`, Model/Tx.lean): the re-run neither touches a branch an earlier run has moved, wherever
that branch is by now, nor logs it again; whatever ordinary commits land on whichever branches before
the first run and between the runs, the completed transaction has put exactly one commit into the
history of every staged branch and none anywhere else. Core Lean only.
-/
import WrglModel.Lemmas.C14
namespace Wrgl
namespace C14

theorem head_txAdvance (b : String) (n : Nat) (s : TxSt) (b' : String) :
    (txAdvance b n s).head b' = if b' = b then Cid.adv n (s.head b) else s.head b' := by
  simp only [txAdvance, head_eq_lookup, lookup_setHead]

theorem committed_commitBranches (g : Bool) (bs : List String) (budget : Option Nat) (s : TxSt) :
    (commitBranches g bs budget s).1.committed = s.committed := by
  induction bs generalizing budget s with
  | nil => rfl
  | cons b bs ih =>
    unfold commitBranches
    split
    · exact ih _ _
    · split
      · exact ih _ _
      · split
        · rfl
        · dsimp only
          split
          · rfl
          · rw [ih]

/-- the re-run skips a branch the transaction has logged: its head (wherever other operations have
    taken it) and its log count come out as they went in -/
theorem cb_keeps_logged (bs : List String) (budget : Option Nat) (s : TxSt) (b : String)
    (hl : s.logs.any (fun l => l.branch == b) = true) :
    (commitBranches true bs budget s).1.head b = s.head b ∧
    cnt (commitBranches true bs budget s).1.logs b = cnt s.logs b := by
  induction bs generalizing budget s with
  | nil => exact ⟨rfl, rfl⟩
  | cons b' bs ih =>
    by_cases hl' : (true && s.logs.any (fun l => l.branch == b')) = true
    · rw [cb_skip_logged _ _ _ _ _ hl']; exact ih _ _ hl
    · cases hs : stagedOf s.staged b' with
      | none => rw [cb_skip_unstaged _ _ _ _ _ hl' hs]; exact ih _ _ hl
      | some st =>
        by_cases h0 : budget = some 0
        · subst h0; rw [cb_fail1 _ _ _ _ _ hl' hs]; exact ⟨rfl, rfl⟩
        · by_cases h1 : budget = some 1
          · subst h1; rw [cb_fail2 _ _ _ _ _ hl' hs]; exact ⟨rfl, rfl⟩
          · rw [cb_go _ _ _ _ _ _ hl' hs h0 h1]
            have hne : ¬ b' = b := by
              intro e; subst e
              simp only [Bool.true_and] at hl'
              exact hl' hl
            have hne' : ¬ b = b' := fun e => hne e.symm
            have hl2 : (s.logs ++ [{ branch := b', new := Cid.txc st (s.head b'), old := s.head b' : TxLog }]).any
                (fun l => l.branch == b) = true := by
              simp only [List.any_append, hl, Bool.true_or]
            obtain ⟨ih1, ih2⟩ := ih (budget.map (· - 2))
              { s with objects := if s.objects.contains (Cid.txc st (s.head b')) then s.objects
                                  else Cid.txc st (s.head b') :: s.objects,
                       heads := setHead s.heads b' (Cid.txc st (s.head b')),
                       logs := s.logs ++ [{ branch := b', new := Cid.txc st (s.head b'), old := s.head b' }] } hl2
            constructor
            · rw [ih1]
              simp only [head_eq_lookup, lookup_setHead, hne', if_false]
            · rw [ih2]
              dsimp only
              rw [cnt_append_one]
              simp [hne]

/-- The history invariant. Branch heads are wherever the transaction and other operations have
    taken them; what is kept is the account: the number of commits of the transaction in a branch's
    history is the number of entries of the transaction in its log, that number is at most one, and
    only staged branches have one. -/
structure HInv (init s : TxSt) : Prop where
  staged : s.staged = init.staged
  ex : s.exists_ = init.exists_
  br : ∀ b, txCommitsIn (s.head b) = cnt s.logs b ∧ cnt s.logs b ≤ 1 ∧
            (cnt s.logs b = 1 → (stagedOf init.staged b).isSome = true)

theorem HInv.init (init : TxSt) (hl : init.logs = []) (h0 : ∀ b, txCommitsIn (init.head b) = 0) : HInv init init :=
  ⟨rfl, rfl, fun b => by simp [hl, cnt, h0 b]⟩

theorem HInv.commit {init s : TxSt} (h : HInv init s) : HInv init { s with committed := true } :=
  ⟨h.staged, h.ex, h.br⟩

theorem HInv.objs {init s : TxSt} (h : HInv init s) (objs : List Cid) : HInv init { s with objects := objs } :=
  ⟨h.staged, h.ex, h.br⟩

theorem HInv.advance {init s : TxSt} (h : HInv init s) (b : String) (n : Nat) : HInv init (txAdvance b n s) := by
  refine ⟨h.staged, h.ex, fun b' => ?_⟩
  rw [head_txAdvance]
  show _ ∧ cnt s.logs b' ≤ 1 ∧ (cnt s.logs b' = 1 → _)
  by_cases hb : b' = b
  · subst hb
    simp only [if_true, txCommitsIn]
    exact h.br b'
  · simp only [hb, if_false]
    exact h.br b'

theorem HInv.advances {init s : TxSt} (h : HInv init s) (advs : List (String × Nat)) : HInv init (txAdvances advs s) := by
  unfold txAdvances
  induction advs generalizing s with
  | nil => exact h
  | cons p advs ih => exact ih (h.advance p.1 p.2)

theorem committed_txAdvances (advs : List (String × Nat)) (s : TxSt) : (txAdvances advs s).committed = s.committed := by
  unfold txAdvances
  induction advs generalizing s with
  | nil => rfl
  | cons p advs ih => rw [List.foldl_cons, ih]; rfl

theorem logs_txAdvances (advs : List (String × Nat)) (s : TxSt) : (txAdvances advs s).logs = s.logs := by
  unfold txAdvances
  induction advs generalizing s with
  | nil => rfl
  | cons p advs ih => rw [List.foldl_cons, ih]; rfl

/-- one fully executed branch step preserves the history invariant -/
theorem HInv.step {init s : TxSt} (hi : HInv init s) (b : String) (st : Nat) (objs : List Cid)
    (hst : stagedOf s.staged b = some st) (hnl : ¬ (s.logs.any (fun l => l.branch == b) = true)) :
    HInv init { s with objects := objs, heads := setHead s.heads b (Cid.txc st (s.head b)),
                       logs := s.logs ++ [{ branch := b, new := Cid.txc st (s.head b), old := s.head b }] } := by
  have hc0 : cnt s.logs b = 0 := by
    rw [any_iff_cnt] at hnl; omega
  refine ⟨hi.staged, hi.ex, fun b' => ?_⟩
  simp only [head_eq_lookup, lookup_setHead, cnt_append_one]
  by_cases hb : b' = b
  · subst hb
    have hh := (hi.br b').1
    rw [hc0] at hh
    simp only [if_true, txCommitsIn, ← head_eq_lookup, hh, hc0]
    refine ⟨?_, ?_, fun _ => ?_⟩
    · trivial
    · first | omega | simp
    · rw [← hi.staged, hst]; rfl
  · have hb' : ¬ b = b' := fun e => hb e.symm
    simp only [hb, hb', if_false, Nat.add_zero, ← head_eq_lookup]
    exact hi.br b'

theorem hinv_commitBranches (init : TxSt) (bs : List String) (budget : Option Nat) (s : TxSt) (hi : HInv init s) :
    HInv init (commitBranches true bs budget s).1 := by
  induction bs generalizing budget s with
  | nil => simpa [commitBranches] using hi
  | cons b bs ih =>
    unfold commitBranches
    split
    · exact ih _ _ hi
    · rename_i hnl
      simp only [Bool.true_and] at hnl
      split
      · exact ih _ _ hi
      · rename_i st hst
        split
        · exact hi
        · dsimp only
          split
          · exact hi.objs _
          · exact ih _ _ (hi.step b st _ hst hnl)

/-- invariant + every staged branch logged = exactly one commit of the transaction per staged
    branch, in its log and in its history, and none elsewhere -/
theorem final_of_hinv {init s : TxSt} (hi : HInv init s)
    (hall : ∀ b, (stagedOf init.staged b).isSome = true → 0 < cnt s.logs b) (b : String) :
    cnt s.logs b = (if (init.staged.map (·.1)).contains b then 1 else 0) ∧
    txCommitsIn (s.head b) = (if (init.staged.map (·.1)).contains b then 1 else 0) := by
  obtain ⟨h1, h2, h3⟩ := hi.br b
  rw [h1, ← stagedOf_isSome_iff]
  have hall := hall b
  cases hs : (stagedOf init.staged b).isSome with
  | true =>
    have := hall hs
    simp only [if_true]
    omega
  | false =>
    rw [hs] at h3
    simp only [Bool.false_eq_true, if_false]
    have : cnt s.logs b ≠ 1 := fun e => by cases h3 e
    omega

end C14

/-- C14 across other operations. Ordinary commits `advs0` land on any branches after the transaction
    was staged, its commit is run with a failure or crash before ANY write, ordinary commits `advs1`
    land on any branches — those the interrupted run has moved included — and the commit is run
    again; any branch orders. Either the first run succeeded (the re-run is refused) or the re-run
    succeeds; the transaction is committed; every staged branch has exactly one entry of the
    transaction in its log and exactly one commit of the transaction in its history, every other
    branch none: nothing is committed twice. -/
theorem tx_completable_across_advances (init : TxSt) (hf : init.Fresh)
    (h0 : ∀ b, txCommitsIn (init.head b) = 0)
    (advs0 advs1 : List (String × Nat)) (order1 order2 : List String)
    (h1 : IsOrder init order1) (h2 : IsOrder init order2) (k : Option Nat) :
    let r1 := txCommit true order1 k (txAdvances advs0 init)
    let r2 := txCommit true order2 none (txAdvances advs1 r1.1)
    (r2.2 = .ok ∨ (r1.2 = .ok ∧ r2.2 = .refused)) ∧
    r2.1.committed = true ∧
    (∀ b, (r2.1.logs.filter (fun l => l.branch == b)).length = if (init.staged.map (·.1)).contains b then 1 else 0) ∧
    (∀ b, txCommitsIn (r2.1.head b) = if (init.staged.map (·.1)).contains b then 1 else 0) := by
  intro r1 r2
  let s0 := txAdvances advs0 init
  have hi0 : C14.HInv init s0 := (C14.HInv.init init hf.noLogs h0).advances advs0
  have he0 : s0.exists_ = true := by rw [hi0.ex]; exact hf.exists_
  have ho0 : s0.committed = false := by
    show (txAdvances advs0 init).committed = false
    rw [C14.committed_txAdvances]; exact hf.open_
  have hi1 : C14.HInv init (commitBranches true order1 k s0).1 := C14.hinv_commitBranches init order1 k s0 hi0
  have hfin : ∀ s : TxSt, C14.HInv init s →
      (∀ b, (C14.stagedOf init.staged b).isSome = true → 0 < C14.cnt s.logs b) →
      (∀ b, (s.logs.filter (fun l => l.branch == b)).length = if (init.staged.map (·.1)).contains b then 1 else 0) ∧
      (∀ b, txCommitsIn (s.head b) = if (init.staged.map (·.1)).contains b then 1 else 0) :=
    fun s hi hall => ⟨fun b => (C14.final_of_hinv hi hall b).1, fun b => (C14.final_of_hinv hi hall b).2⟩
  by_cases hok : (commitBranches true order1 k s0).2.2 = true ∧ (commitBranches true order1 k s0).2.1 ≠ some 0
  · -- the first run succeeded; the second one is refused and changes nothing
    have e1 : r1 = ({ (commitBranches true order1 k s0).1 with committed := true }, .ok) := by
      show txCommit true order1 k s0 = _
      rw [C14.txCommit_open order1 k s0 he0 ho0, if_pos hok]
    have hi1' : C14.HInv init (txAdvances advs1 r1.1) := by rw [e1]; exact hi1.commit.advances advs1
    have e2 : r2 = (txAdvances advs1 r1.1, .refused) := by
      show txCommit true order2 none (txAdvances advs1 r1.1) = _
      apply C14.txCommit_committed
      · rw [hi1'.ex]; exact hf.exists_
      · rw [C14.committed_txAdvances, e1]
    have hall : ∀ b, (C14.stagedOf init.staged b).isSome = true → 0 < C14.cnt (txAdvances advs1 r1.1).logs b := by
      intro b hb
      rw [C14.logs_txAdvances, e1]
      exact C14.all_logged init order1 h1 k s0 hi0.staged hok.1 b hb
    obtain ⟨hl, hh⟩ := hfin _ hi1' hall
    rw [e2]
    refine ⟨Or.inr ⟨by rw [e1], rfl⟩, ?_, hl, hh⟩
    show (txAdvances advs1 r1.1).committed = true
    rw [C14.committed_txAdvances, e1]
  · -- the first run was interrupted; the re-run completes it
    have e1 : r1 = ((commitBranches true order1 k s0).1, .failed) := by
      show txCommit true order1 k s0 = _
      rw [C14.txCommit_open order1 k s0 he0 ho0, if_neg hok]
    let s1 := txAdvances advs1 r1.1
    have hi1' : C14.HInv init s1 := by show C14.HInv init (txAdvances advs1 r1.1); rw [e1]; exact hi1.advances advs1
    have he : s1.exists_ = true := by rw [hi1'.ex]; exact hf.exists_
    have ho : s1.committed = false := by
      show (txAdvances advs1 r1.1).committed = false
      rw [C14.committed_txAdvances, e1]
      show (commitBranches true order1 k s0).1.committed = false
      -- commitBranches never touches the status
      exact (C14.committed_commitBranches true order1 k s0).trans ho0
    have e2 : r2 = ({ (commitBranches true order2 none s1).1 with committed := true }, .ok) :=
      C14.txCommit_none order2 s1 he ho
    have hi2 : C14.HInv init (commitBranches true order2 none s1).1 := C14.hinv_commitBranches init order2 none s1 hi1'
    have hd : (commitBranches true order2 none s1).2.2 = true := by rw [C14.commitBranches_none]
    have hall := C14.all_logged init order2 h2 none s1 hi1'.staged hd
    obtain ⟨hl, hh⟩ := hfin _ hi2.commit hall
    rw [e2]
    exact ⟨Or.inl rfl, rfl, hl, hh⟩

/-- The re-run leaves a branch the transaction has already moved exactly where it finds it — also
    when another operation has moved the branch on since — and does not log it again. -/
theorem tx_rerun_keeps_moved_branch (s : TxSt) (b : String) (advs : List (String × Nat))
    (hl : s.logs.any (fun l => l.branch == b) = true) (order : List String) (k : Option Nat) :
    let s1 := txAdvances advs s
    (txCommit true order k s1).1.head b = s1.head b ∧
    ((txCommit true order k s1).1.logs.filter (fun l => l.branch == b)).length = (s.logs.filter (fun l => l.branch == b)).length := by
  intro s1
  have hl1 : s1.logs.any (fun l => l.branch == b) = true := by
    show (txAdvances advs s).logs.any _ = true
    rw [C14.logs_txAdvances]; exact hl
  have hlogs : s1.logs = s.logs := C14.logs_txAdvances advs s
  obtain ⟨hh, hc⟩ := C14.cb_keeps_logged order k s1 b hl1
  unfold txCommit
  split
  · exact ⟨rfl, by rw [hlogs]⟩
  · split
    · exact ⟨rfl, by rw [hlogs]⟩
    · rcases hR : commitBranches true order k s1 with ⟨s', bud, flag⟩
      rw [hR] at hh hc
      have hc' : (s'.logs.filter (fun l => l.branch == b)).length = (s.logs.filter (fun l => l.branch == b)).length := by
        have := hc; unfold C14.cnt at this; rw [this, hlogs]
      cases flag with
      | false => exact ⟨hh, hc'⟩
      | true =>
        cases bud with
        | none => exact ⟨hh, hc'⟩
        | some n =>
          cases n with
          | zero => exact ⟨hh, hc'⟩
          | succ n => exact ⟨hh, hc'⟩

end Wrgl
