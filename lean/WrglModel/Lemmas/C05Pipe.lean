/-
C05: the pipeline `mergeTablesModel` against `mergeSpec` (equal column lists).
-/
import WrglModel.Lemmas.C05Tab
namespace Wrgl.C05Aux

/-! ### the key of a resolved row -/

theorem cells_of_key_eq {pk : List Nat} (hpk : pk.isEmpty = false) {p q : Row}
    (h : keyOf pk p = keyOf pk q) : ∀ i ∈ pk, (p[i]?).getD [] = (q[i]?).getD [] := by
  unfold keyOf at h
  simp only [hpk, Bool.false_eq_true, if_false] at h
  exact List.map_inj_left.1 h

theorem key_eq_of_cells {pk : List Nat} (hpk : pk.isEmpty = false) {p q : Row}
    (h : ∀ i ∈ pk, (p[i]?).getD [] = (q[i]?).getD []) : keyOf pk p = keyOf pk q := by
  unfold keyOf
  simp only [hpk, Bool.false_eq_true, if_false]
  exact List.map_inj_left.2 h

theorem mergeKey_row_key (n : Nat) (pk : List Nat) (k : List Bytes) (b : Option Row) (xs : List (Option Row))
    (r : Row) (hb : ∀ br, b = some br → br.length = n ∧ keyOf pk br = k)
    (hx : ∀ p, some p ∈ xs → p.length = n ∧ keyOf pk p = k) (h : mergeKey n b xs = .row r) :
    keyOf pk r = k := by
  have hp : ∀ p ∈ xs.filterMap id, p.length = n ∧ keyOf pk p = k := by
    intro p hp
    simp only [List.mem_filterMap, id] at hp
    obtain ⟨o, ho, e⟩ := hp
    subst e
    exact hx p ho
  cases b with
  | none =>
    rw [mergeKey_none] at h
    cases hpres : xs.filterMap id with
    | nil => rw [hpres] at h; cases h
    | cons p ps =>
      rw [hpres] at h hp
      simp only [List.isEmpty_cons, Bool.false_eq_true, if_false] at h
      split at h
      · injection h with h
        have : r = p := by
          rw [← h]
          refine Eq.trans (List.map_congr_left ?_) (row_rebuild n p (hp p List.mem_cons_self).1)
          intro i _
          rw [eraseDups_headD]
          rfl
        rw [this]
        exact (hp p List.mem_cons_self).2
      · cases h
  | some br =>
    obtain ⟨hbl, hbk⟩ := hb br rfl
    rw [mergeKey_some] at h
    by_cases hall : (xs.filterMap id).all (fun r => r == br) = true
    · rw [if_pos hall] at h
      split at h
      · cases h
      · injection h with h; rw [← h]; exact hbk
    · rw [if_neg hall] at h
      split at h
      · cases h
      · split at h
        · injection h with h
          cases hpk : pk.isEmpty with
          | true =>
            exfalso
            apply hall
            rw [List.all_eq_true]
            intro p hpm
            have h1 := (hp p hpm).2
            unfold keyOf at h1 hbk
            simp only [hpk, if_true] at h1 hbk
            simp [h1, hbk]
          | false =>
            rw [← hbk]
            apply key_eq_of_cells hpk
            intro i hi
            rw [← h]
            by_cases hin : i < n
            · rw [List.getElem?_eq_getElem (by simpa using hin)]
              simp only [List.getElem_map, List.getElem_range, Option.getD_some]
              have : changedVals (some ((br[i]?).getD [])) (cellsAt i (xs.filterMap id)) = [] := by
                unfold changedVals
                rw [eraseDups_eq_nil, List.filter_eq_nil_iff]
                intro c hc
                simp only [cellsAt, List.mem_map] at hc
                obtain ⟨p, hpm, e⟩ := hc
                have := cells_of_key_eq hpk ((hp p hpm).2.trans hbk.symm) i hi
                simp [← e, this]
              rw [this]
              rfl
            · rw [List.getElem?_eq_none (by simpa using hin), List.getElem?_eq_none (by omega)]
        · cases h

/-! ### clean form of the model -/

def recOf (pk : List Nat) (base : List Row) (brs : List (List Row)) (k : List Bytes) : MRec :=
  { key := k, base := findByKey pk base k, others := brs.map (fun br => findByKey pk br k) }

def noRec (pk : List Nat) (base : List Row) (brs : List (List Row)) (k : List Bytes) : Bool :=
  (findByKey pk base k).isSome &&
    (brs.map (fun br => findByKey pk br k)).all (fun o => o == findByKey pk base k)

def resOf (n : Nat) (pk : List Nat) (base : List Row) (brs : List (List Row)) (k : List Bytes) : Resolution :=
  resolveRec n noAR noAR (recOf pk base brs k)

def gConf (n : Nat) (pk : List Nat) (base : List Row) (brs : List (List Row)) (k : List Bytes) :
    Option (List Bytes) :=
  if noRec pk base brs k then none else
    match resOf n pk base brs k with
    | .conflict _ _ => some k
    | _ => none

def gRes (n : Nat) (pk : List Nat) (base : List Row) (brs : List (List Row)) (k : List Bytes) : Option Row :=
  if noRec pk base brs k then none else
    match resOf n pk base brs k with
    | .resolved row => some row
    | _ => none

def gDisc (n : Nat) (pk : List Nat) (base : List Row) (brs : List (List Row)) (k : List Bytes) :
    Option (List Bytes) :=
  if noRec pk base brs k then none else
    match resOf n pk base brs k with
    | .conflict _ _ => none
    | _ => some k

theorem model_conflicts (sortFn : List Row → List Row) (n : Nat) (pk : List Nat) (base : List Row)
    (brs : List (List Row)) :
    (mergeTablesModel sortFn n pk base brs).conflicts.map (·.1) =
      (allKeys pk base brs).filterMap (gConf n pk base brs) := by
  simp only [mergeTablesModel, mergeRecs, List.map_filterMap, List.filterMap_filterMap]
  apply filterMap_congr'
  intro k _
  cases h : noRec pk base brs k with
  | true =>
    have h' := h
    unfold noRec at h'
    simp only [gConf, h, h', if_true]
    rfl
  | false =>
    have h' := h
    unfold noRec at h'
    simp only [gConf, h, h', Bool.false_eq_true, if_false, Option.map_some, Option.bind_some, resOf, recOf]
    unfold noAR
    generalize resolveRec n _ _ _ = R
    cases R <;> rfl

theorem model_resolved (n : Nat) (pk : List Nat) (base : List Row) (brs : List (List Row)) :
    ((mergeRecs pk base brs).map (fun m => (m, resolveRec n (fun _ _ => false) (fun _ _ => false) m))).filterMap
        (fun (x : MRec × Resolution) => match x.2 with
          | .resolved row => some row
          | _ => none) =
      (allKeys pk base brs).filterMap (gRes n pk base brs) := by
  simp only [mergeRecs, List.filterMap_filterMap, List.filterMap_map]
  apply filterMap_congr'
  intro k _
  cases h : noRec pk base brs k with
  | true =>
    have h' := h
    unfold noRec at h'
    simp only [gRes, h, h', if_true]
    rfl
  | false =>
    have h' := h
    unfold noRec at h'
    simp only [gRes, h, h', Bool.false_eq_true, if_false, Function.comp, Option.bind_some, resOf, recOf]
    unfold noAR
    generalize resolveRec n _ _ _ = R
    cases R <;> rfl

theorem model_discarded (n : Nat) (pk : List Nat) (base : List Row) (brs : List (List Row)) :
    ((mergeRecs pk base brs).map (fun m => (m, resolveRec n (fun _ _ => false) (fun _ _ => false) m))).filterMap
        (fun (x : MRec × Resolution) => match x.2 with
          | .conflict _ _ => none
          | _ => some x.1.key) =
      (allKeys pk base brs).filterMap (gDisc n pk base brs) := by
  simp only [mergeRecs, List.filterMap_filterMap, List.filterMap_map]
  apply filterMap_congr'
  intro k _
  cases h : noRec pk base brs k with
  | true =>
    have h' := h
    unfold noRec at h'
    simp only [gDisc, h, h', if_true]
    rfl
  | false =>
    have h' := h
    unfold noRec at h'
    simp only [gDisc, h, h', Bool.false_eq_true, if_false, Function.comp, Option.bind_some, resOf, recOf]
    unfold noAR
    generalize resolveRec n _ _ _ = R
    cases R <;> rfl

theorem model_rows (sortFn : List Row → List Row) (n : Nat) (pk : List Nat) (base : List Row)
    (brs : List (List Row)) :
    (mergeTablesModel sortFn n pk base brs).rows =
      dedupAdj pk none (sortFn ((allKeys pk base brs).filterMap (gRes n pk base brs) ++
        base.filter (fun r => !((allKeys pk base brs).filterMap (gDisc n pk base brs)).contains (keyOf pk r)))) := by
  rw [← model_resolved, ← model_discarded]
  rfl


/-! ### per key: the model's decision against the rule -/

/-- rows of `n` cells with pairwise distinct keys (the body of `TableOK`) -/
def TabOK (n : Nat) (pk : List Nat) (t : List Row) : Prop :=
  (∀ r ∈ t, r.length = n) ∧ t.Pairwise (fun a b => keyOf pk a ≠ keyOf pk b)

theorem per_key_noRec (n : Nat) (pk : List Nat) (base : List Row) (brs : List (List Row)) (k : List Bytes)
    (h : noRec pk base brs k = true) :
    ∃ br, findByKey pk base k = some br ∧ specOut n pk base brs k = .row br := by
  unfold noRec at h
  rw [Bool.and_eq_true] at h
  obtain ⟨h1, h2⟩ := h
  cases hb : findByKey pk base k with
  | none => rw [hb] at h1; cases h1
  | some br =>
    refine ⟨br, rfl, ?_⟩
    unfold specOut
    rw [hb] at h2 ⊢
    rw [List.all_eq_true] at h2
    rw [mergeKey_some]
    have a1 : ((brs.map (fun t => findByKey pk t k)).filterMap id).all (fun r => r == br) = true := by
      rw [List.all_eq_true]
      intro r hr
      simp only [List.mem_filterMap, id] at hr
      obtain ⟨o, ho, e⟩ := hr
      subst e
      simpa using h2 _ ho
    have a2 : (brs.map (fun t => findByKey pk t k)).any Option.isNone = false := by
      rw [Bool.eq_false_iff]
      intro hh
      rw [List.any_eq_true] at hh
      obtain ⟨o, ho, e⟩ := hh
      have := h2 o ho
      rw [beq_iff_eq] at this
      subst this
      cases e
    rw [a1, a2]
    rfl

theorem per_key_rec (n : Nat) (pk : List Nat) (base : List Row) (brs : List (List Row)) (k : List Bytes)
    (h : noRec pk base brs k = false) :
    match resOf n pk base brs k with
    | .removed => specOut n pk base brs k = .absent
    | .resolved row => specOut n pk base brs k = .row row
    | .conflict _ _ => specOut n pk base brs k = .conflict := by
  have hne : ¬ ((findByKey pk base k).isSome = true ∧
      (brs.map (fun t => findByKey pk t k)).all (fun o => o == findByKey pk base k) = true) := by
    intro hh
    unfold noRec at h
    rw [hh.1, hh.2] at h
    cases h
  exact resolve_meets n (findByKey pk base k) (brs.map (fun t => findByKey pk t k)) k hne

theorem specOut_row_key (n : Nat) (pk : List Nat) (base : List Row) (brs : List (List Row))
    (hb : TabOK n pk base) (hbr : ∀ t ∈ brs, TabOK n pk t) (k : List Bytes) (r : Row)
    (h : specOut n pk base brs k = .row r) : keyOf pk r = k := by
  apply mergeKey_row_key n pk k _ _ r _ _ h
  · intro br e
    obtain ⟨h1, h2⟩ := findByKey_some e
    exact ⟨hb.1 br h1, h2⟩
  · intro p hp
    rw [List.mem_map] at hp
    obtain ⟨t, ht, e⟩ := hp
    obtain ⟨h1, h2⟩ := findByKey_some e
    exact ⟨(hbr t ht).1 p h1, h2⟩

theorem specRowOf_key (n : Nat) (pk : List Nat) (base : List Row) (brs : List (List Row))
    (hb : TabOK n pk base) (hbr : ∀ t ∈ brs, TabOK n pk t) (k : List Bytes) (r : Row)
    (h : specRowOf n pk base brs k = some r) : keyOf pk r = k := by
  unfold specRowOf at h
  split at h
  · next r' ho =>
    injection h with h
    subst h
    exact specOut_row_key n pk base brs hb hbr k _ ho
  · exact (findByKey_some h).2
  · cases h

theorem gRes_some (n : Nat) (pk : List Nat) (base : List Row) (brs : List (List Row)) (k : List Bytes) (r : Row) :
    gRes n pk base brs k = some r ↔ noRec pk base brs k = false ∧ resOf n pk base brs k = .resolved r := by
  unfold gRes
  cases noRec pk base brs k with
  | true => simp
  | false =>
    simp only [Bool.false_eq_true, if_false, true_and]
    cases resOf n pk base brs k <;> simp

theorem gDisc_some (n : Nat) (pk : List Nat) (base : List Row) (brs : List (List Row)) (k k' : List Bytes) :
    gDisc n pk base brs k = some k' ↔
      k' = k ∧ noRec pk base brs k = false ∧ ∀ row cols, resOf n pk base brs k ≠ .conflict row cols := by
  unfold gDisc
  cases noRec pk base brs k with
  | true => simp
  | false =>
    simp only [Bool.false_eq_true, if_false, true_and]
    cases resOf n pk base brs k <;> simp [eq_comm]

theorem mem_disc (n : Nat) (pk : List Nat) (base : List Row) (brs : List (List Row)) (k : List Bytes) :
    k ∈ (allKeys pk base brs).filterMap (gDisc n pk base brs) ↔
      k ∈ allKeys pk base brs ∧ noRec pk base brs k = false ∧
        ∀ row cols, resOf n pk base brs k ≠ .conflict row cols := by
  rw [List.mem_filterMap]
  constructor
  · rintro ⟨k', hk', e⟩
    obtain ⟨e1, e2, e3⟩ := (gDisc_some n pk base brs k' k).1 e
    subst e1
    exact ⟨hk', e2, e3⟩
  · rintro ⟨h1, h2, h3⟩
    exact ⟨k, h1, (gDisc_some n pk base brs k k).2 ⟨rfl, h2, h3⟩⟩

theorem gConf_eq (n : Nat) (pk : List Nat) (base : List Row) (brs : List (List Row)) (k : List Bytes) :
    gConf n pk base brs k = if specOut n pk base brs k == .conflict then some k else none := by
  unfold gConf
  cases h : noRec pk base brs k with
  | true =>
    obtain ⟨br, _, e⟩ := per_key_noRec n pk base brs k h
    rw [e]
    rfl
  | false =>
    have := per_key_rec n pk base brs k h
    simp only [Bool.false_eq_true, if_false]
    cases hr : resOf n pk base brs k with
    | removed => rw [hr] at this; simp only at this; rw [this]; rfl
    | resolved row => rw [hr] at this; simp only at this; rw [this]; rfl
    | conflict row cols => rw [hr] at this; simp only at this; rw [this]; rfl


theorem gRes_spec (n : Nat) (pk : List Nat) (base : List Row) (brs : List (List Row)) (k : List Bytes) (r : Row)
    (h : gRes n pk base brs k = some r) : specOut n pk base brs k = .row r := by
  obtain ⟨h1, h2⟩ := (gRes_some n pk base brs k r).1 h
  have := per_key_rec n pk base brs k h1
  rw [h2] at this
  exact this

theorem mem_untouched (pk : List Nat) (base : List Row) (D : List (List Bytes)) (r : Row) :
    r ∈ base.filter (fun r => !D.contains (keyOf pk r)) ↔ r ∈ base ∧ keyOf pk r ∉ D := by
  simp [List.mem_filter]

theorem pipeline_meets (sortFn : List Row → List Row) (pk : List Nat) (hs : IsSort pk sortFn)
    (n : Nat) (base : List Row) (brs : List (List Row))
    (hb : TabOK n pk base) (hbr : ∀ t ∈ brs, TabOK n pk t) :
    (mergeTablesModel sortFn n pk base brs).conflicts.map (·.1) =
      (mergeSpec sortFn n pk base brs).conflictKeys ∧
    (mergeTablesModel sortFn n pk base brs).rows = (mergeSpec sortFn n pk base brs).rows := by
  refine ⟨?_, ?_⟩
  · rw [model_conflicts, mergeSpec_conflictKeys]
    apply filterMap_congr'
    intro k _
    exact gConf_eq n pk base brs k
  · rw [model_rows, mergeSpec_rows]
    have hkeyRes : ∀ k r, gRes n pk base brs k = some r → keyOf pk r = k :=
      fun k r h => specOut_row_key n pk base brs hb hbr k r (gRes_spec n pk base brs k r h)
    apply sort_unique sortFn pk hs
    · rw [List.pairwise_append]
      refine ⟨filterMap_keys_pairwise pk _ (allKeys_nodup _ _ _) _ hkeyRes, hb.2.filter _, ?_⟩
      intro a ha b hb' e
      rw [List.mem_filterMap] at ha
      obtain ⟨k, hk, hg⟩ := ha
      obtain ⟨_, hnd⟩ := (mem_untouched pk base _ b).1 hb'
      apply hnd
      rw [← e, hkeyRes k a hg, mem_disc]
      obtain ⟨h1, h2⟩ := (gRes_some n pk base brs k a).1 hg
      refine ⟨hk, h1, ?_⟩
      intro row cols hh
      rw [h2] at hh
      cases hh
    · exact filterMap_keys_pairwise pk _ (allKeys_nodup _ _ _) _ (specRowOf_key n pk base brs hb hbr)
    · intro r
      rw [List.mem_append, List.mem_filterMap, List.mem_filterMap, mem_untouched]
      constructor
      · rintro (⟨k, hk, hg⟩ | ⟨hrb, hnd⟩)
        · refine ⟨k, hk, ?_⟩
          unfold specRowOf
          rw [gRes_spec n pk base brs k r hg]
        · have hk : keyOf pk r ∈ allKeys pk base brs :=
            mem_allKeys.2 ⟨base, List.mem_cons_self, r, hrb, rfl⟩
          have hf : findByKey pk base (keyOf pk r) = some r := findByKey_mem hb.2 hrb
          refine ⟨keyOf pk r, hk, ?_⟩
          unfold specRowOf
          cases hnr : noRec pk base brs (keyOf pk r) with
          | true =>
            obtain ⟨br, e1, e2⟩ := per_key_noRec n pk base brs _ hnr
            rw [e2]
            rw [hf] at e1
            injection e1 with e1
            rw [e1]
          | false =>
            have hpk := per_key_rec n pk base brs _ hnr
            rw [mem_disc] at hnd
            cases hres : resOf n pk base brs (keyOf pk r) with
            | removed =>
              exfalso; apply hnd
              refine ⟨hk, hnr, ?_⟩
              intro row cols hh; rw [hres] at hh; cases hh
            | resolved row' =>
              exfalso; apply hnd
              refine ⟨hk, hnr, ?_⟩
              intro row cols hh; rw [hres] at hh; cases hh
            | conflict row cols =>
              rw [hres] at hpk
              simp only at hpk
              rw [hpk]
              exact hf
      · rintro ⟨k, hk, hsr⟩
        have hkey := specRowOf_key n pk base brs hb hbr k r hsr
        unfold specRowOf at hsr
        cases hnr : noRec pk base brs k with
        | true =>
          right
          obtain ⟨br, e1, e2⟩ := per_key_noRec n pk base brs _ hnr
          rw [e2] at hsr
          simp only at hsr
          injection hsr with hsr
          subst hsr
          refine ⟨(findByKey_some e1).1, ?_⟩
          rw [mem_disc, hkey]
          intro hh
          rw [hnr] at hh
          cases hh.2.1
        | false =>
          have hpk := per_key_rec n pk base brs _ hnr
          cases hres : resOf n pk base brs k with
          | removed =>
            rw [hres] at hpk; simp only at hpk
            rw [hpk] at hsr
            cases hsr
          | resolved row' =>
            rw [hres] at hpk; simp only at hpk
            rw [hpk] at hsr
            simp only at hsr
            injection hsr with hsr
            subst hsr
            left
            exact ⟨k, hk, (gRes_some n pk base brs k _).2 ⟨hnr, hres⟩⟩
          | conflict row cols =>
            rw [hres] at hpk; simp only at hpk
            rw [hpk] at hsr
            simp only at hsr
            right
            refine ⟨(findByKey_some hsr).1, ?_⟩
            rw [mem_disc, hkey]
            intro hh
            exact hh.2.2 row cols hres

end Wrgl.C05Aux
