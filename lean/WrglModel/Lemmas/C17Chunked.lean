/-
Helper lemmas for C17: the chunked readers of Model/Chunked.lean deliver exactly what they take
from the stream, `fetch` always fills its buffer, and the packfile reader over ANY read mode never
panics and never exhausts its fuel. Core Lean only.
-/
import WrglModel.Model.Chunked
namespace Wrgl
namespace Chunked

theorem flatten_of_all_isEmpty (l : List Bytes) (h : l.all (·.isEmpty) = true) : l.flatten = [] := by
  induction l with
  | nil => rfl
  | cons a l ih =>
    simp only [List.all_cons, Bool.and_eq_true, List.isEmpty_iff] at h
    simp [h.1, ih h.2]

/-- one `Read`: what is returned plus what remains is what was there; at most `n` bytes; an empty
    result for a non-empty request means EOF -/
theorem readList_spec (ewl : Bool) (chunks : List Bytes) (n : Nat) :
    (readList ewl chunks n).1.length + (readList ewl chunks n).2.2.flatten.length
        = chunks.flatten.length ∧
    (readList ewl chunks n).1.length ≤ n ∧
    (0 < n → (readList ewl chunks n).1.length = 0 → (readList ewl chunks n).2.1 = true) := by
  induction chunks with
  | nil => simp [readList]
  | cons ch rest ih =>
    unfold readList
    split
    · rename_i he
      simp only [List.isEmpty_iff] at he
      subst he
      simpa using ih
    · rename_i hne
      split
      · rename_i hn
        simp only [beq_iff_eq] at hn
        subst hn
        simp
      · split
        · rename_i hn hle
          dsimp only
          refine ⟨?_, hle, ?_⟩
          · split
            · rename_i hall
              simp [flatten_of_all_isEmpty _ hall]
            · simp
          · intro _ h0
            have : ch = [] := List.eq_nil_of_length_eq_zero h0
            simp [this] at hne
        · rename_i hn hle
          dsimp only
          refine ⟨?_, ?_, ?_⟩
          · simp only [List.length_take, List.flatten_cons, List.length_append, List.length_drop]
            omega
          · simp only [List.length_take]; omega
          · intro hpos h0
            simp only [List.length_take] at h0
            omega

theorem read_spec (c : Chunked) (n : Nat) :
    (c.read n).1.length + (c.read n).2.2.content.length = c.content.length ∧
    (c.read n).1.length ≤ n ∧
    (0 < n → (c.read n).1.length = 0 → (c.read n).2.1 = true) := by
  have := readList_spec c.eofWithLast c.chunks n
  unfold read content
  exact this

theorem readFull_spec (fuel : Nat) (c : Chunked) (n : Nat) (acc : Bytes) :
    (readFull fuel c n acc).1.length + (readFull fuel c n acc).2.content.length
        = acc.length + c.content.length ∧
    (readFull fuel c n acc).1.length ≤ acc.length + n := by
  induction fuel generalizing c n acc with
  | zero => simp [readFull]
  | succ fuel ih =>
    unfold readFull
    split
    · simp
    · have hr := read_spec c n
      rcases hre : c.read n with ⟨b, eof, c'⟩
      rw [hre] at hr
      simp only at hr ⊢
      split
      · rename_i hb
        simp only [Bool.and_eq_true, List.isEmpty_iff] at hb
        simp only [hb.1, List.length_nil] at hr
        dsimp only
        omega
      · split
        · rename_i hb
          simp only [List.isEmpty_iff] at hb
          simp only [hb, List.length_nil] at hr
          dsimp only
          omega
        · have := ih c' (n - b.length) (acc ++ b)
          simp only [List.length_append] at this
          omega

theorem readFullN_spec (c : Chunked) (n : Nat) :
    (c.readFullN n).1.length + (c.readFullN n).2.content.length = c.content.length ∧
    (c.readFullN n).1.length ≤ n := by
  have := readFull_spec (n + 1) c n []
  unfold readFullN
  simpa using this

end Chunked

open Chunked

/-- `fetch` always hands back a buffer of exactly `n` bytes -/
theorem fetch_length (m : ReadMode) (c : Chunked) (n : Nat) : (fetch m c n).1.length = n := by
  cases m with
  | full =>
    have := readFullN_spec c n
    unfold fetch
    simp only [List.length_append, List.length_replicate]
    omega
  | single =>
    have := read_spec c n
    unfold fetch
    simp only [List.length_append, List.length_replicate]
    omega

/-- the stream shrinks by exactly the number of bytes `fetch` reports; a non-empty request that
    comes back without the error flag has made progress -/
theorem fetch_spec (m : ReadMode) (c : Chunked) (n : Nat) :
    (fetch m c n).1.length = n ∧
    (fetch m c n).2.1 + (fetch m c n).2.2.2.content.length = c.content.length ∧
    (fetch m c n).2.1 ≤ n ∧
    (0 < n → (fetch m c n).2.1 = 0 → (fetch m c n).2.2.1 = true) := by
  refine ⟨fetch_length m c n, ?_⟩
  cases m with
  | full =>
    have := readFullN_spec c n
    unfold fetch
    simp only [decide_eq_true_eq]
    omega
  | single =>
    have := read_spec c n
    unfold fetch
    exact this

/-- with `io.ReadFull` semantics, no error flag means the buffer was really filled -/
theorem fetch_full_ok (c : Chunked) (n : Nat) (h : (fetch .full c n).2.2.1 = false) :
    (fetch .full c n).2.1 = n := by
  have := readFullN_spec c n
  unfold fetch at h ⊢
  simp only [decide_eq_false_iff_not] at h ⊢
  omega

theorem length_one_cases {b : Bytes} (h : b.length = 1) : ∃ x, b = [x] := by
  match b, h with
  | [x], _ => exact ⟨x, rfl⟩

/-- the condition under which the header readers go on after a 1-byte `fetch`: one byte was consumed -/
theorem fetch_one_progress (m : ReadMode) (c : Chunked)
    (h : ((fetch m c 1).2.2.1 && (m == .single || (fetch m c 1).2.1 == 0)) = false) :
    (fetch m c 1).2.2.2.content.length + 1 = c.content.length := by
  obtain ⟨_, h2, h3, h4⟩ := fetch_spec m c 1
  have hgot : (fetch m c 1).2.1 ≠ 0 := by
    intro h0
    have he := h4 (by omega) h0
    simp [he, h0] at h
  omega

/-! ### packfile header -/

theorem packHdrTailC_safe (mode : Site → ReadMode) (fuel : Nat) (c : Chunked) (bits acc : Nat)
    (hf : c.content.length < fuel) (p : String) :
    packHdrTailC mode fuel c bits acc ≠ .panic p ∧
    packHdrTailC mode fuel c bits acc ≠ .err "fuel" := by
  induction fuel generalizing c bits acc with
  | zero => omega
  | succ fuel ih =>
    unfold packHdrTailC
    have hl := fetch_length (mode .packHeader) c 1
    have hp := fetch_one_progress (mode .packHeader) c
    rcases hfe : fetch (mode .packHeader) c 1 with ⟨b, got, e, c'⟩
    rw [hfe] at hl hp
    simp only at hl hp ⊢
    split
    · exact ⟨by simp, by simp⟩
    · rename_i hcond
      have hp' := hp (by simpa using hcond)
      obtain ⟨x, rfl⟩ := length_one_cases hl
      simp only
      split
      · simp
      · exact ih c' _ _ (by omega)

theorem packHdrTailC_ok (mode : Site → ReadMode) (fuel : Nat) (c : Chunked) (bits acc : Nat)
    (u : Nat) (c'' : Chunked) (h : packHdrTailC mode fuel c bits acc = .ok (u, c'')) :
    c''.content.length + 1 ≤ c.content.length := by
  induction fuel generalizing c bits acc with
  | zero => simp [packHdrTailC] at h
  | succ fuel ih =>
    unfold packHdrTailC at h
    have hl := fetch_length (mode .packHeader) c 1
    have hp := fetch_one_progress (mode .packHeader) c
    rcases hfe : fetch (mode .packHeader) c 1 with ⟨b, got, e, c'⟩
    rw [hfe] at hl hp h
    simp only at hl hp h
    split at h
    · cases h
    · rename_i hcond
      have hp' := hp (by simpa using hcond)
      obtain ⟨x, rfl⟩ := length_one_cases hl
      simp only at h
      split at h
      · simp only [Res.ok.injEq, Prod.mk.injEq] at h
        obtain ⟨_, rfl⟩ := h
        omega
      · have := ih _ _ _ h
        omega

theorem packHdrC_safe (mode : Site → ReadMode) (c : Chunked) (p : String) :
    packHdrC mode c ≠ .panic p ∧ packHdrC mode c ≠ .err "fuel" := by
  unfold packHdrC
  have hl := fetch_length (mode .packHeader) c 1
  have hp := fetch_one_progress (mode .packHeader) c
  rcases hfe : fetch (mode .packHeader) c 1 with ⟨b, got, e, c'⟩
  rw [hfe] at hl hp
  simp only at hl hp ⊢
  split
  · split
    · simp
    · exact ⟨by simp, by simp⟩
  · rename_i hcond
    have hp' := hp (by simpa using hcond)
    obtain ⟨x, rfl⟩ := length_one_cases hl
    simp only
    have hs := fun q => packHdrTailC_safe mode (c'.content.length + 2) c' 4 (x.toNat % 16)
      (by omega) q
    split
    · simp
    · rename_i e' heq
      refine ⟨by simp, ?_⟩
      intro h; injection h with h; subst h
      exact (hs p).2 heq
    · rename_i q heq
      exact absurd heq (hs q).1

theorem packHdrC_none (mode : Site → ReadMode) (c c' : Chunked)
    (h : packHdrC mode c = .ok (none, c')) : c'.content.length ≤ c.content.length := by
  unfold packHdrC at h
  have hs := (fetch_spec (mode .packHeader) c 1).2.1
  rcases hfe : fetch (mode .packHeader) c 1 with ⟨b, got, e, c1⟩
  rw [hfe] at hs h
  simp only at hs h
  split at h
  · split at h
    · simp only [Res.ok.injEq, Prod.mk.injEq, true_and] at h
      subst h
      omega
    · cases h
  · split at h
    · split at h <;> simp at h
    · cases h

theorem packHdrC_some (mode : Site → ReadMode) (c c'' : Chunked) (t u : Nat)
    (h : packHdrC mode c = .ok (some (t, u), c'')) : c''.content.length + 2 ≤ c.content.length := by
  unfold packHdrC at h
  have hl := fetch_length (mode .packHeader) c 1
  have hp := fetch_one_progress (mode .packHeader) c
  rcases hfe : fetch (mode .packHeader) c 1 with ⟨b, got, e, c'⟩
  rw [hfe] at hl hp h
  simp only at hl hp h
  split at h
  · split at h
    · simp at h
    · cases h
  · rename_i hcond
    have hp' := hp (by simpa using hcond)
    obtain ⟨x, rfl⟩ := length_one_cases hl
    simp only at h
    split at h
    · rename_i u' c2 heq
      have := packHdrTailC_ok _ _ _ _ _ _ _ heq
      simp only [Res.ok.injEq, Prod.mk.injEq] at h
      obtain ⟨_, rfl⟩ := h
      omega
    · cases h
    · cases h

/-! ### objects loop -/

theorem packObjectsC_safe (mode : Site → ReadMode) (fuel : Nat) (c : Chunked)
    (hf : c.content.length < fuel) (p : String) :
    packObjectsC mode fuel c ≠ .panic p ∧ packObjectsC mode fuel c ≠ .err "fuel" := by
  induction fuel generalizing c p with
  | zero => omega
  | succ fuel ih =>
    unfold packObjectsC
    split
    · simp
    · rename_i t u c1 hh
      have h1 := packHdrC_some _ _ _ _ _ hh
      have h2 := (readFullN_spec c1 u).1
      rcases hre : c1.readFullN u with ⟨b, c2⟩
      rw [hre] at h2
      simp only at h2 ⊢
      split
      · exact ⟨by simp, by simp⟩
      · have hi := fun q => ih c2 (by omega) q
        split
        · simp
        · rename_i e heq
          refine ⟨by simp, ?_⟩
          intro h; injection h with h; subst h
          exact (hi p).2 heq
        · rename_i q heq
          exact absurd heq (hi q).1
    · rename_i e heq
      refine ⟨by simp, ?_⟩
      intro h; injection h with h; subst h
      exact (packHdrC_safe mode c p).2 heq
    · rename_i q heq
      exact absurd heq (packHdrC_safe mode c q).1

/-- every object costs at least its two header bytes plus its body -/
theorem packObjectsC_size (mode : Site → ReadMode) (fuel : Nat) (c : Chunked)
    (objs : List (Nat × Bytes)) (h : packObjectsC mode fuel c = .ok objs) :
    2 * objs.length + (objs.map (fun o => o.2.length)).sum ≤ c.content.length := by
  induction fuel generalizing c objs with
  | zero => simp [packObjectsC] at h
  | succ fuel ih =>
    unfold packObjectsC at h
    split at h
    · simp only [Res.ok.injEq] at h
      subst h
      simp
    · rename_i t u c1 hh
      have h1 := packHdrC_some _ _ _ _ _ hh
      have h2 := (readFullN_spec c1 u).1
      rcases hre : c1.readFullN u with ⟨b, c2⟩
      rw [hre] at h2 h
      simp only at h2 h
      split at h
      · cases h
      · split at h
        · rename_i os heq
          simp only [Res.ok.injEq] at h
          subst h
          have := ih _ _ heq
          simp only [List.length_cons, List.map_cons, List.sum_cons]
          omega
        · cases h
        · cases h
    · cases h
    · cases h

/-! ### version and whole file -/

theorem packVersionC_no_panic (mode : Site → ReadMode) (c : Chunked) (p : String) :
    packVersionC mode c ≠ .panic p ∧ packVersionC mode c ≠ .err "fuel" := by
  unfold packVersionC
  rcases fetch (mode .packVersion) c 4 with ⟨b, got, e1, c1⟩
  simp only
  split
  · exact ⟨by simp, by simp⟩
  · split
    · exact ⟨by simp, by simp⟩
    · rcases fetch (mode .packVersion) c1 4 with ⟨v, got2, e2, c2⟩
      simp only
      split
      · exact ⟨by simp, by simp⟩
      · simp

theorem packVersionC_ok (mode : Site → ReadMode) (c c2 : Chunked) (v : Nat)
    (h : packVersionC mode c = .ok (v, c2)) : c2.content.length ≤ c.content.length := by
  unfold packVersionC at h
  have hs := (fetch_spec (mode .packVersion) c 4).2.1
  rcases hfe : fetch (mode .packVersion) c 4 with ⟨b, got, e1, c1⟩
  rw [hfe] at hs h
  simp only at hs h
  split at h
  · cases h
  · split at h
    · cases h
    · have hs2 := (fetch_spec (mode .packVersion) c1 4).2.1
      rcases hfe2 : fetch (mode .packVersion) c1 4 with ⟨vb, got2, e2, c2'⟩
      rw [hfe2] at hs2 h
      simp only at hs2 h
      split at h
      · cases h
      · simp only [Res.ok.injEq, Prod.mk.injEq] at h
        obtain ⟨_, rfl⟩ := h
        omega

theorem packVersionC_ok_full (mode : Site → ReadMode) (hm : mode .packVersion = .full)
    (c c2 : Chunked) (v : Nat)
    (h : packVersionC mode c = .ok (v, c2)) : c2.content.length + 8 = c.content.length := by
  unfold packVersionC at h
  rw [hm] at h
  have hs := (fetch_spec .full c 4).2.1
  have hk := fetch_full_ok c 4
  rcases hfe : fetch .full c 4 with ⟨b, got, e1, c1⟩
  rw [hfe] at hs hk h
  simp only at hs hk h
  split at h
  · cases h
  · rename_i he1
    have hg := hk (by simpa using he1)
    split at h
    · cases h
    · have hs2 := (fetch_spec .full c1 4).2.1
      have hk2 := fetch_full_ok c1 4
      rcases hfe2 : fetch .full c1 4 with ⟨vb, got2, e2, c2'⟩
      rw [hfe2] at hs2 hk2 h
      simp only at hs2 hk2 h
      split at h
      · cases h
      · rename_i he2
        have hg2 := hk2 (by simpa using he2)
        simp only [Res.ok.injEq, Prod.mk.injEq] at h
        obtain ⟨_, rfl⟩ := h
        omega

/-- the packfile reader never panics and never runs out of fuel, whatever the bytes, however they
    are chunked, and whichever read mode each site uses -/
theorem packfileC_safe (mode : Site → ReadMode) (c : Chunked) (p : String) :
    packfileC mode c ≠ .panic p ∧ packfileC mode c ≠ .err "fuel" := by
  unfold packfileC
  split
  · rename_i v c1 hv
    have hle := packVersionC_ok _ _ _ _ hv
    have hs := fun q => packObjectsC_safe mode (c.content.length + 2) c1 (by omega) q
    split
    · simp
    · rename_i e heq
      refine ⟨by simp, ?_⟩
      intro h; injection h with h; subst h
      exact (hs p).2 heq
    · rename_i q heq
      exact absurd heq (hs q).1
  · rename_i e heq
    refine ⟨by simp, ?_⟩
    intro h; injection h with h; subst h
    exact (packVersionC_no_panic mode c p).2 heq
  · rename_i q heq
    exact absurd heq (packVersionC_no_panic mode c q).1

theorem packfileC_size (mode : Site → ReadMode) (hm : mode .packVersion = .full) (c : Chunked)
    (v : Nat) (objs : List (Nat × Bytes)) (h : packfileC mode c = .ok (v, objs)) :
    8 + 2 * objs.length + (objs.map (fun o => o.2.length)).sum ≤ c.content.length := by
  unfold packfileC at h
  split at h
  · rename_i v' c1 hv
    have h8 := packVersionC_ok_full mode hm _ _ _ hv
    split at h
    · rename_i os heq
      have := packObjectsC_size _ _ _ _ heq
      simp only [Res.ok.injEq, Prod.mk.injEq] at h
      obtain ⟨_, rfl⟩ := h
      omega
    · cases h
    · cases h
  · cases h
  · cases h

end Wrgl
