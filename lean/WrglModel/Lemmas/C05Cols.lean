import WrglModel.Model.MergeCols
import WrglModel.Lemmas.C05
namespace Wrgl

/-- re-arranging a row into its own column list changes nothing -/
theorem rearrange_self (cols : Row) (hnd : cols.Nodup) (row : Row) (hlen : row.length = cols.length) :
    rearrange cols cols row = row := by
  induction cols generalizing row with
  | nil =>
    cases row with
    | nil => rfl
    | cons _ _ => simp at hlen
  | cons c cs ih =>
    cases row with
    | nil => simp at hlen
    | cons r rs =>
      have hnd' := List.nodup_cons.mp hnd
      have ih' := ih hnd'.2 rs (by simpa using hlen)
      unfold rearrange at ih' ⊢
      simp only [List.map_cons, List.zip_cons_cons, List.find?_cons, beq_self_eq_true,
        Option.map_some, Option.getD_some]
      congr 1
      refine Eq.trans ?_ ih'
      apply List.map_congr_left
      intro n hn
      have hne : (c == n) = false := by
        apply beq_false_of_ne
        intro h
        exact hnd'.1 (h ▸ hn)
      simp [hne]

/-- a branch that has exactly the base's columns adds no name -/
theorem mergedNames_same (cols : Row) (n : Nat) : mergedNames cols (List.replicate n cols) = cols := by
  unfold mergedNames
  have h : (List.replicate n cols).flatten.filter (fun a => !cols.contains a) = [] := by
    rw [List.filter_eq_nil_iff]
    intro a ha
    rw [List.mem_flatten] at ha
    obtain ⟨l, hl, hal⟩ := ha
    have := (List.mem_replicate.mp hl).2
    subst this
    simp [hal]
  rw [h]
  simp

theorem foldl_congr_mem {α β : Type} (f g : β → α → β) (l : List α)
    (h : ∀ x, x ∈ l → ∀ s, f s x = g s x) (s : β) : l.foldl f s = l.foldl g s := by
  induction l generalizing s with
  | nil => rfl
  | cons x xs ih =>
    simp only [List.foldl_cons]
    rw [h x (by simp) s]
    exact ih (fun y hy => h y (List.mem_cons_of_mem _ hy)) _

/-- `tryResolveL` looks at `removed` only at the layers of the supplied rows -/
theorem tryResolveL_congr_removed (n : Nat) (a r r' : Nat → Nat → Bool) (b : Option Row)
    (os : List (Option Row)) (rows : List (Nat × Row))
    (h : ∀ lr, lr ∈ rows → ∀ i, r lr.1 i = r' lr.1 i) :
    tryResolveL n a r b os rows = tryResolveL n a r' b os rows := by
  unfold tryResolveL
  have hc : ∀ (rl : List Nat), (List.range n).map (fun i =>
      rows.foldl (fun st (lr : Nat × Row) =>
        cellStep (b.map (fun b => (b[i]?).getD [])) (a lr.1 i) (r lr.1 i) ((lr.2[i]?).getD []) st)
        ({ add := none, mod := none, rem := rl.any (fun l => !a l i),
           val := (b.map (fun b => (b[i]?).getD [])).getD [], unresolved := false } : CellSt))
      = (List.range n).map (fun i =>
      rows.foldl (fun st (lr : Nat × Row) =>
        cellStep (b.map (fun b => (b[i]?).getD [])) (a lr.1 i) (r' lr.1 i) ((lr.2[i]?).getD []) st)
        ({ add := none, mod := none, rem := rl.any (fun l => !a l i),
           val := (b.map (fun b => (b[i]?).getD [])).getD [], unresolved := false } : CellSt)) := by
    intro rl
    apply List.map_congr_left
    intro i _
    apply foldl_congr_mem
    intro lr hlr s
    rw [h lr hlr i]
  simp only [hc]

theorem uniqRows_getElem? (os : List (Option Row)) (lr : Nat × Row) (h : lr ∈ uniqRows os) :
    os[lr.1]? = some (some lr.2) := by
  unfold uniqRows at h
  rw [List.mem_filterMap] at h
  obtain ⟨⟨o, i⟩, hm, he⟩ := h
  have hg := List.mem_zipIdx_iff_getElem?.1 hm
  cases o with
  | none => simp at he
  | some r =>
    simp only at he
    split at he
    · simp at he
    · simp only [Option.some.injEq] at he
      subst he
      simpa using hg

/-- When every table has the base's column list, the by-name resolution is the same-columns
    resolution `resolveRec` (about which the C05 theorems are proved). -/
theorem resolveRecCols_same (cols : Row) (hnd : cols.Nodup) (key : List Bytes) (b : Option Row) (os : List (Option Row))
    (hb : ∀ r, b = some r → r.length = cols.length)
    (hos : ∀ r, some r ∈ os → r.length = cols.length) :
    resolveRecCols cols (List.replicate os.length cols) b os =
      resolveRec cols.length (fun _ _ => false) (fun _ _ => false) { key := key, base := b, others := os } := by
  unfold resolveRecCols resolveRec
  rw [mergedNames_same]
  simp only
  split
  · rfl
  · rw [tryResolve_eq_L]
    simp only
    -- the base row is unchanged
    have hbase : b.map (rearrange cols cols) = b := by
      cases b with
      | none => rfl
      | some r => simp [rearrange_self cols hnd r (hb r rfl)]
    -- the branch rows are unchanged
    have hoth : (os.zipIdx).map (fun (x : Option Row × Nat) =>
        x.1.map (rearrange cols ((List.replicate os.length cols)[x.2]?.getD []))) = os := by
      apply List.ext_getElem
      · simp
      · intro i h1 h2
        simp only [List.getElem_map, List.getElem_zipIdx, Nat.zero_add]
        have hi : i < os.length := h2
        rw [List.getElem?_replicate, if_pos hi]
        simp only [Option.getD_some]
        cases ho : os[i] with
        | none => rfl
        | some r =>
          have : some r ∈ os := ho ▸ List.getElem_mem h2
          simp [rearrange_self cols hnd r (hos r this)]
    have hrows : (uniqRows os).map (fun (lr : Nat × Row) =>
        (lr.1, rearrange cols ((List.replicate os.length cols)[lr.1]?.getD []) lr.2)) = uniqRows os := by
      conv => rhs; rw [← List.map_id (uniqRows os)]
      apply List.map_congr_left
      intro lr hlr
      have hg := uniqRows_getElem? os lr hlr
      have hi : lr.1 < os.length := (List.getElem?_eq_some_iff.mp hg).1
      have hm : some lr.2 ∈ os := List.mem_of_getElem? hg
      rw [List.getElem?_replicate, if_pos hi]
      simp [rearrange_self cols hnd lr.2 (hos lr.2 hm)]
    rw [hbase, hoth, hrows]
    have hadd : ∀ (a a' r : Nat → Nat → Bool), (∀ l i, a l i = a' l i) →
        tryResolveL cols.length a r b os (uniqRows os) = tryResolveL cols.length a' r b os (uniqRows os) := by
      intro a a' r h
      have : a = a' := funext fun l => funext fun i => h l i
      rw [this]
    refine Eq.trans (hadd _ (fun _ _ => false) _ ?_) ?_
    · intro l i
      split
      · next n hci =>
        have : n ∈ cols := List.mem_of_getElem? hci
        simp [this]
      · rfl
    · apply tryResolveL_congr_removed
      intro lr hlr i
      have hg := uniqRows_getElem? os lr hlr
      have hi : lr.1 < os.length := (List.getElem?_eq_some_iff.mp hg).1
      rw [List.getElem?_replicate, if_pos hi]
      split
      · next n hci =>
        have : n ∈ cols := List.mem_of_getElem? hci
        simp [this]
      · rfl

end Wrgl
