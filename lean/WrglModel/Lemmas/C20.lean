import WrglModel.Model.HashSet
import WrglModel.Spec.HashSet
import WrglModel.Lemmas.Search
import WrglModel.Lemmas.C20Aux
namespace Wrgl

inductive HSOp where
  | add (h : Hash)
  | flush
  | flushReopen   -- flush, close, reopen from the file
  deriving Repr

def runOp (s : HS) : HSOp → Res HS
  | .add h => s.add h
  | .flush => s.flush
  | .flushReopen => match s.flush with
    | .ok s' => .ok (HS.open_ s'.file s'.batchSize)
    | .err e => .err e
    | .panic p => .panic p

def runOps : HS → List HSOp → Res HS
  | s, [] => .ok s
  | s, o :: os => match runOp s o with
    | .ok s' => runOps s' os
    | .err e => .err e
    | .panic p => .panic p

/-- the hashes that were added -/
def addedOf : List HSOp → List Hash
  | [] => []
  | .add h :: os => h :: addedOf os
  | _ :: os => addedOf os

/-- coherence between the in-memory handle and the file -/
def HS.Coherent (s : HS) : Prop :=
  hsInv s.file = true ∧ 0 < s.batchSize ∧
  s.memFanout = (if s.file.fanout.isEmpty then zeros256 else s.file.fanout) ∧
  (∀ h ∈ s.batch, h ∉ s.file.entries)

theorem open_eq (f : HSFile) (bs : Nat) : HS.open_ f bs =
    { file := f, memFanout := if f.fanout.isEmpty then zeros256 else f.fanout,
      size := if f.fanout.isEmpty then 0 else (f.fanout[255]?).getD 0, batch := [],
      batchSize := if bs == 0 then 1024 else bs } := by
  unfold HS.open_
  by_cases h : f.fanout.isEmpty = true <;> simp [h]

theorem open_file (f : HSFile) (bs : Nat) : (HS.open_ f bs).file = f := by rw [open_eq]

theorem open_batch (f : HSFile) (bs : Nat) : (HS.open_ f bs).batch = [] := by rw [open_eq]

/-- reopening any file that satisfies the invariant gives a coherent handle -/
theorem open_coherent_of_inv (f : HSFile) (hinv : hsInv f = true) (bs : Nat) :
    (HS.open_ f bs).Coherent := by
  have hbs : 0 < (if (bs == 0) = true then 1024 else bs) := by
    split
    · omega
    · rename_i h; simp at h; omega
  rw [open_eq]
  exact ⟨hinv, hbs, rfl, by simp⟩

theorem open_coherent (bs : Nat) : (HS.open_ { fanout := [], entries := [] } bs).Coherent :=
  open_coherent_of_inv _ (by decide) bs

/-- `Has` on a coherent handle answers membership in the file, exactly -/
theorem has_spec (s : HS) (hc : s.Coherent) (h : Hash) :
    s.has h = .ok (decide (h ∈ s.file.entries)) := by
  obtain ⟨r, hr, hiff⟩ := C20.indexOf_spec s.file hc.1 h
  simp only [HS.has, hr, Res.ok.injEq]
  rw [Bool.eq_iff_iff]
  simpa using hiff

/-- `Flush` keeps the file sorted with a consistent fan-out table and adds exactly the batch -/
theorem flush_spec (s : HS) (hc : s.Coherent) :
    ∃ s', s.flush = .ok s' ∧ s'.Coherent ∧ s'.batch = [] ∧
      (∀ h, h ∈ s'.file.entries ↔ h ∈ s.file.entries ∨ h ∈ s.batch) := by
  obtain ⟨hinv, hbs, hmf, _⟩ := hc
  obtain ⟨offs, ho, hmap, hlb⟩ := C20.offsetsOf_spec s.file hinv s.batch
  obtain ⟨hinv', hne⟩ := C20.flush_file_inv s.file hinv s.batch offs hmap hlb
  rw [← hmf] at hinv' hne
  refine ⟨{ s with file := { fanout := addToFanout s.memFanout s.batch,
                              entries := mergeAt offs 0 s.file.entries },
                    memFanout := addToFanout s.memFanout s.batch,
                    size := s.size + s.batch.length, batch := [] },
    by simp only [HS.flush, ho], ⟨hinv', hbs, ?_, by simp⟩, rfl, ?_⟩
  · have : (addToFanout s.memFanout s.batch).isEmpty = false := by simpa using hne
    simp [this]
  · intro h
    simp only
    rw [C20.mem_mergeAt, ← hmap]
    simp only [Nat.zero_le, true_and, List.mem_map]
    constructor
    · rintro (h1 | ⟨p, hp⟩)
      · exact Or.inl h1
      · exact Or.inr ⟨(p, h), hp, rfl⟩
    · rintro (h1 | ⟨⟨p, y⟩, hp, rfl⟩)
      · exact Or.inl h1
      · exact Or.inr ⟨p, hp⟩

theorem add_spec (s : HS) (hc : s.Coherent) (h : Hash) :
    ∃ s', s.add h = .ok s' ∧ s'.Coherent ∧
      (∀ x, x ∈ s'.file.entries ∨ x ∈ s'.batch ↔ x ∈ s.file.entries ∨ x ∈ s.batch ∨ x = h) := by
  obtain ⟨r, hr, hiff⟩ := C20.indexOf_spec s.file hc.1 h
  unfold HS.add
  rw [hr]
  cases r with
  | some i =>
    have hmem : h ∈ s.file.entries := hiff.mp rfl
    refine ⟨s, rfl, hc, ?_⟩
    intro x
    constructor
    · rintro (h1 | h1)
      · exact Or.inl h1
      · exact Or.inr (Or.inl h1)
    · rintro (h1 | h1 | rfl)
      · exact Or.inl h1
      · exact Or.inr h1
      · exact Or.inl hmem
  | none =>
    have hnmem : h ∉ s.file.entries := by
      intro hm; have := hiff.mpr hm; simp at this
    have hc' : ({ s with batch := s.batch ++ [h] } : HS).Coherent := by
      obtain ⟨h1, h2, h3, h4⟩ := hc
      refine ⟨h1, h2, h3, ?_⟩
      intro y hy
      rcases List.mem_append.mp hy with hy | hy
      · exact h4 y hy
      · have : y = h := by simpa using hy
        rw [this]; exact hnmem
    simp only
    split
    · obtain ⟨s', hs', hcoh, hb, hmem⟩ := flush_spec _ hc'
      refine ⟨s', hs', hcoh, ?_⟩
      intro x
      rw [hb, hmem x]
      simp only [List.not_mem_nil, or_false, List.mem_append, List.mem_singleton]
    · refine ⟨_, rfl, hc', ?_⟩
      intro x
      simp only [List.mem_append, List.mem_singleton]

/-- one operation keeps the handle coherent and adds exactly the hash it names -/
theorem runOp_inv (s : HS) (hc : s.Coherent) (o : HSOp) :
    ∃ s', runOp s o = .ok s' ∧ s'.Coherent ∧
      (∀ x, x ∈ s'.file.entries ∨ x ∈ s'.batch ↔
        x ∈ s.file.entries ∨ x ∈ s.batch ∨ x ∈ addedOf [o]) := by
  cases o with
  | add h =>
    obtain ⟨s', h1, h2, h3⟩ := add_spec s hc h
    refine ⟨s', h1, h2, ?_⟩
    intro x; rw [h3 x]; simp [addedOf]
  | flush =>
    obtain ⟨s', h1, h2, h3, h4⟩ := flush_spec s hc
    refine ⟨s', h1, h2, ?_⟩
    intro x; rw [h3, h4 x]; simp [addedOf]
  | flushReopen =>
    obtain ⟨s', h1, h2, h3, h4⟩ := flush_spec s hc
    refine ⟨HS.open_ s'.file s'.batchSize, by simp [runOp, h1], open_coherent_of_inv _ h2.1 _, ?_⟩
    intro x; rw [open_file, open_batch, h4 x]; simp [addedOf]

theorem addedOf_cons (o : HSOp) (os : List HSOp) : addedOf (o :: os) = addedOf [o] ++ addedOf os := by
  cases o <;> simp [addedOf]

theorem runOps_inv (ops : List HSOp) : ∀ (s : HS), s.Coherent →
    ∃ s', runOps s ops = .ok s' ∧ s'.Coherent ∧
      (∀ x, x ∈ s'.file.entries ∨ x ∈ s'.batch ↔
        x ∈ s.file.entries ∨ x ∈ s.batch ∨ x ∈ addedOf ops) := by
  induction ops with
  | nil =>
    intro s hc
    exact ⟨s, rfl, hc, by intro x; simp [addedOf]⟩
  | cons o os ih =>
    intro s hc
    obtain ⟨s1, h1, hc1, hm1⟩ := runOp_inv s hc o
    obtain ⟨s2, h2, hc2, hm2⟩ := ih s1 hc1
    refine ⟨s2, by simp only [runOps, h1]; exact h2, hc2, ?_⟩
    intro x
    rw [hm2 x, addedOf_cons, List.mem_append, ← or_assoc, hm1 x]
    simp only [or_assoc]

theorem runOps_append (a b : List HSOp) : ∀ (s s' : HS), runOps s a = .ok s' →
    runOps s (a ++ b) = runOps s' b := by
  induction a with
  | nil => intro s s' h; simp only [runOps, Res.ok.injEq] at h; rw [h]; rfl
  | cons o os ih =>
    intro s s' h
    simp only [runOps, List.cons_append] at h ⊢
    cases hr : runOp s o with
    | ok s1 => rw [hr] at h; simp only at h ⊢; exact ih s1 s' h
    | err e => rw [hr] at h; simp at h
    | panic p => rw [hr] at h; simp at h

/-- C20: after any sequence of additions (with repeats, any order), flushes (any pattern, any batch
    size) and flush+close+reopen steps, followed by a flush, the file is sorted with a consistent
    fan-out table, membership answers are exactly "was added", and a reopened handle answers alike. -/
theorem hashset_is_a_set (bs : Nat) (ops : List HSOp) :
    ∃ s, runOps (HS.open_ { fanout := [], entries := [] } bs) (ops ++ [.flush]) = .ok s ∧
      hsInv s.file = true ∧
      (∀ h, s.has h = .ok (decide (h ∈ addedOf ops))) ∧
      (∀ h, (HS.open_ s.file bs).has h = s.has h) := by
  obtain ⟨s1, h1, hc1, hm1⟩ := runOps_inv ops _ (open_coherent bs)
  obtain ⟨s2, h2, hc2, hb2, hm2⟩ := flush_spec s1 hc1
  refine ⟨s2, ?_, hc2.1, ?_, ?_⟩
  · rw [runOps_append ops [.flush] _ s1 h1]
    simp only [runOps, runOp, h2]
  · intro h
    rw [has_spec s2 hc2 h]
    congr 1
    apply decide_eq_decide.mpr
    rw [hm2 h, hm1 h, open_file, open_batch]
    simp
  · intro h
    unfold HS.has
    rw [open_file]

end Wrgl
