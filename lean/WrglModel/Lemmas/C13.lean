import WrglModel.Model.Crash
import WrglModel.Lemmas.C13Aux
namespace Wrgl

/-- what must already hold in the state for a write to keep the repository consistent -/
def prereqOk (u : Universe) (heads : List Nat) (s : RState) : WOp → Bool
  | .blk _ => true
  | .blkidx _ => true
  | .tblidx _ => true
  | .tblsum _ => true
  | .tbl t => (match u.table? t with
      | some (bs, is) => bs.all s.blks.contains && is.all s.idxs.contains && s.tblIdx.contains t
      | none => false)
  | .com c => (match u.commit? c with
      | some (ps, _) => ps.all s.coms.contains
      | none => false)
  | .ref r c => s.coms.contains c && (!heads.contains r || (match u.commit? c with
      | some (_, t) => s.tbls.contains t
      | none => false))
  | .delBlk b => s.tbls.all (fun t => match u.table? t with
      | some (bs, _) => !bs.contains b
      | none => true)
  | .delBlkidx i => s.tbls.all (fun t => match u.table? t with
      | some (_, is) => !is.contains i
      | none => true)
  | .delTbl t => s.refs.all (fun p => !heads.contains p.1 || (match u.commit? p.2 with
      | some (_, t') => t' != t
      | none => true))
  | .delTblidx t => !s.tbls.contains t
  | .delTblsum _ => true
  | .delCom c => s.refs.all (fun p => p.2 != c) && s.coms.all (fun c' => c' == c || (match u.commit? c' with
      | some (ps, _) => !ps.contains c
      | none => true))


/-! ### prerequisites in `Prop` form -/

theorem prereq_tbl_iff (u : Universe) (heads : List Nat) (s : RState) (t : Nat) :
    prereqOk u heads s (.tbl t) = true ↔
      ∃ bs is, u.table? t = some (bs, is) ∧ (∀ b ∈ bs, b ∈ s.blks) ∧ (∀ i ∈ is, i ∈ s.idxs) ∧ t ∈ s.tblIdx := by
  simp only [prereqOk]
  cases h : u.table? t with
  | none => simp
  | some v => rcases v with ⟨bs, is⟩; simp [and_assoc]

theorem prereq_com_iff (u : Universe) (heads : List Nat) (s : RState) (c : Nat) :
    prereqOk u heads s (.com c) = true ↔
      ∃ ps t, u.commit? c = some (ps, t) ∧ ∀ p ∈ ps, p ∈ s.coms := by
  simp only [prereqOk]
  cases h : u.commit? c with
  | none => simp
  | some v => rcases v with ⟨ps, t⟩; simp

theorem prereq_ref_iff (u : Universe) (heads : List Nat) (s : RState) (r c : Nat) :
    prereqOk u heads s (.ref r c) = true ↔
      c ∈ s.coms ∧ (r ∈ heads → ∃ ps t, u.commit? c = some (ps, t) ∧ t ∈ s.tbls) := by
  simp only [prereqOk]
  cases h : u.commit? c with
  | none => simp
  | some v => rcases v with ⟨ps, t⟩; simp [and_assoc, Decidable.imp_iff_not_or]

theorem prereq_delBlk (u : Universe) (heads : List Nat) (s : RState) (b : Nat)
    (h : prereqOk u heads s (.delBlk b) = true) :
    ∀ t ∈ s.tbls, ∀ bs is, u.table? t = some (bs, is) → b ∉ bs := by
  simp only [prereqOk, List.all_eq_true] at h
  intro t ht bs is hu
  have := h t ht
  rw [hu] at this
  simpa using this

theorem prereq_delBlkidx (u : Universe) (heads : List Nat) (s : RState) (i : Nat)
    (h : prereqOk u heads s (.delBlkidx i) = true) :
    ∀ t ∈ s.tbls, ∀ bs is, u.table? t = some (bs, is) → i ∉ is := by
  simp only [prereqOk, List.all_eq_true] at h
  intro t ht bs is hu
  have := h t ht
  rw [hu] at this
  simpa using this

theorem prereq_delTbl (u : Universe) (heads : List Nat) (s : RState) (t : Nat)
    (h : prereqOk u heads s (.delTbl t) = true) :
    ∀ p ∈ s.refs, p.1 ∈ heads → ∀ ps t', u.commit? p.2 = some (ps, t') → t' ≠ t := by
  simp only [prereqOk, List.all_eq_true] at h
  intro p hp hh ps t' hu
  have := h p hp
  rw [hu] at this
  simpa [hh] using this

theorem prereq_delTblidx (u : Universe) (heads : List Nat) (s : RState) (t : Nat)
    (h : prereqOk u heads s (.delTblidx t) = true) : t ∉ s.tbls := by
  simpa [prereqOk] using h

theorem prereq_delCom (u : Universe) (heads : List Nat) (s : RState) (c : Nat)
    (h : prereqOk u heads s (.delCom c) = true) :
    (∀ p ∈ s.refs, p.2 ≠ c) ∧
    (∀ c' ∈ s.coms, c' ≠ c → ∀ ps t, u.commit? c' = some (ps, t) → c ∉ ps) := by
  simp only [prereqOk, Bool.and_eq_true, List.all_eq_true] at h
  refine ⟨fun p hp => by simpa using h.1 p hp, ?_⟩
  intro c' hc' hne ps t hu
  have := h.2 c' hc'
  rw [hu] at this
  simpa [hne] using this

/-- one write whose prerequisites hold keeps a consistent repository consistent -/
theorem apply_consistent (u : Universe) (heads : List Nat) (s : RState) (w : WOp)
    (hc : Consistent u heads s) (hp : prereqOk u heads s w = true) : Consistent u heads (s.apply w) := by
  rw [consistent_iff] at hc ⊢
  obtain ⟨h1, h2, h3, h4⟩ := hc
  cases w with
  | blk b =>
    simp only [RState.apply]
    refine ⟨h1, h2, ?_, h4⟩
    intro t ht
    obtain ⟨bs, is, hu, hb, hi, hx⟩ := h3 t ht
    exact ⟨bs, is, hu, fun x hx' => (mem_addN _ _ _).2 (Or.inr (hb x hx')), hi, hx⟩
  | blkidx i =>
    simp only [RState.apply]
    refine ⟨h1, h2, ?_, h4⟩
    intro t ht
    obtain ⟨bs, is, hu, hb, hi, hx⟩ := h3 t ht
    exact ⟨bs, is, hu, hb, fun x hx' => (mem_addN _ _ _).2 (Or.inr (hi x hx')), hx⟩
  | tblidx t0 =>
    simp only [RState.apply]
    refine ⟨h1, h2, ?_, h4⟩
    intro t ht
    obtain ⟨bs, is, hu, hb, hi, hx⟩ := h3 t ht
    exact ⟨bs, is, hu, hb, hi, (mem_addN _ _ _).2 (Or.inr hx)⟩
  | tblsum t0 =>
    simp only [RState.apply]
    exact ⟨h1, h2, h3, h4⟩
  | tbl t0 =>
    rw [prereq_tbl_iff] at hp
    simp only [RState.apply]
    refine ⟨h1, h2, ?_, ?_⟩
    · intro t ht
      rcases (mem_addN _ _ _).1 ht with rfl | ht
      · exact hp
      · exact h3 t ht
    · intro p hp' hh
      obtain ⟨ps, t, hu, ht⟩ := h4 p hp' hh
      exact ⟨ps, t, hu, (mem_addN _ _ _).2 (Or.inr ht)⟩
  | com c0 =>
    rw [prereq_com_iff] at hp
    simp only [RState.apply]
    refine ⟨?_, ?_, h3, h4⟩
    · intro p hp'
      exact (mem_addN _ _ _).2 (Or.inr (h1 p hp'))
    · intro c hc'
      rcases (mem_addN _ _ _).1 hc' with rfl | hc'
      · obtain ⟨ps, t, hu, hps⟩ := hp
        exact ⟨ps, t, hu, fun p hp' => (mem_addN _ _ _).2 (Or.inr (hps p hp'))⟩
      · obtain ⟨ps, t, hu, hps⟩ := h2 c hc'
        exact ⟨ps, t, hu, fun p hp' => (mem_addN _ _ _).2 (Or.inr (hps p hp'))⟩
  | ref r c0 =>
    rw [prereq_ref_iff] at hp
    simp only [RState.apply]
    refine ⟨?_, h2, h3, ?_⟩
    · intro p hp'
      rcases List.mem_cons.1 hp' with rfl | hp'
      · exact hp.1
      · exact h1 p (List.mem_filter.1 hp').1
    · intro p hp' hh
      rcases List.mem_cons.1 hp' with rfl | hp'
      · exact hp.2 hh
      · exact h4 p (List.mem_filter.1 hp').1 hh
  | delBlk b =>
    have hd := prereq_delBlk u heads s b hp
    simp only [RState.apply]
    refine ⟨h1, h2, ?_, h4⟩
    intro t ht
    obtain ⟨bs, is, hu, hb, hi, hx⟩ := h3 t ht
    refine ⟨bs, is, hu, ?_, hi, hx⟩
    intro x hx'
    refine List.mem_filter.2 ⟨hb x hx', ?_⟩
    have : x ≠ b := fun e => hd t ht bs is hu (e ▸ hx')
    simpa using this
  | delBlkidx i =>
    have hd := prereq_delBlkidx u heads s i hp
    simp only [RState.apply]
    refine ⟨h1, h2, ?_, h4⟩
    intro t ht
    obtain ⟨bs, is, hu, hb, hi, hx⟩ := h3 t ht
    refine ⟨bs, is, hu, hb, ?_, hx⟩
    intro x hx'
    refine List.mem_filter.2 ⟨hi x hx', ?_⟩
    have : x ≠ i := fun e => hd t ht bs is hu (e ▸ hx')
    simpa using this
  | delTbl t0 =>
    have hd := prereq_delTbl u heads s t0 hp
    simp only [RState.apply]
    refine ⟨h1, h2, ?_, ?_⟩
    · intro t ht
      exact h3 t (List.mem_filter.1 ht).1
    · intro p hp' hh
      obtain ⟨ps, t, hu, ht⟩ := h4 p hp' hh
      refine ⟨ps, t, hu, List.mem_filter.2 ⟨ht, ?_⟩⟩
      have : t ≠ t0 := hd p hp' hh ps t hu
      simpa using this
  | delTblidx t0 =>
    have hd := prereq_delTblidx u heads s t0 hp
    simp only [RState.apply]
    refine ⟨h1, h2, ?_, h4⟩
    intro t ht
    obtain ⟨bs, is, hu, hb, hi, hx⟩ := h3 t ht
    refine ⟨bs, is, hu, hb, hi, List.mem_filter.2 ⟨hx, ?_⟩⟩
    have : t ≠ t0 := fun e => hd (e ▸ ht)
    simpa using this
  | delTblsum t0 =>
    simp only [RState.apply]
    exact ⟨h1, h2, h3, h4⟩
  | delCom c0 =>
    obtain ⟨hd1, hd2⟩ := prereq_delCom u heads s c0 hp
    simp only [RState.apply]
    refine ⟨?_, ?_, h3, h4⟩
    · intro p hp'
      refine List.mem_filter.2 ⟨h1 p hp', ?_⟩
      simpa using hd1 p hp'
    · intro c hc'
      obtain ⟨hc', hne⟩ := List.mem_filter.1 hc'
      have hne : c ≠ c0 := by simpa using hne
      obtain ⟨ps, t, hu, hps⟩ := h2 c hc'
      refine ⟨ps, t, hu, ?_⟩
      intro p hp'
      refine List.mem_filter.2 ⟨hps p hp', ?_⟩
      have : p ≠ c0 := fun e => hd2 c hc' hne ps t hu (e ▸ hp')
      simpa using this

/-! ### sequences of writes whose prerequisites hold one after the other -/

def SeqOk (u : Universe) (heads : List Nat) : RState → List WOp → Prop
  | _, [] => True
  | s, w :: ws => prereqOk u heads s w = true ∧ SeqOk u heads (s.apply w) ws

theorem seqOk_append (u : Universe) (heads : List Nat) (a b : List WOp) : ∀ (s : RState),
    SeqOk u heads s (a ++ b) ↔ SeqOk u heads s a ∧ SeqOk u heads (s.applyAll a) b := by
  induction a with
  | nil => intro s; simp [SeqOk, applyAll_nil]
  | cons w a ih => intro s; simp [SeqOk, applyAll_cons, ih, and_assoc]

theorem seqOk_of_trivial (u : Universe) (heads : List Nat) (ws : List WOp)
    (h : ∀ w ∈ ws, ∀ s, prereqOk u heads s w = true) : ∀ s, SeqOk u heads s ws := by
  induction ws with
  | nil => intro s; trivial
  | cons w ws ih =>
    intro s
    exact ⟨h w (List.mem_cons_self ..) s, ih (fun w' hw' => h w' (List.mem_cons_of_mem _ hw')) _⟩

theorem seqOk_getElem (u : Universe) (heads : List Nat) (ws : List WOp) : ∀ (s : RState),
    SeqOk u heads s ws →
    ∀ k w, ws[k]? = some w → prereqOk u heads (s.applyAll (ws.take k)) w = true := by
  induction ws with
  | nil => intro s _ k w h; simp at h
  | cons w0 ws ih =>
    intro s hs k w h
    cases k with
    | zero =>
      simp at h
      subst h
      exact hs.1
    | succ k =>
      rw [List.take_succ_cons, applyAll_cons]
      exact ih _ hs.2 k w (by simpa using h)

/-- hence every prefix of a dependency-ordered write sequence — every crash point — is consistent -/
theorem prefix_consistent (u : Universe) (heads : List Nat) (s : RState) (ws : List WOp)
    (hc : Consistent u heads s)
    (hp : ∀ k w, ws[k]? = some w → prereqOk u heads (s.applyAll (ws.take k)) w = true) :
    ∀ n, Consistent u heads (s.applyAll (ws.take n)) := by
  intro n
  induction n with
  | zero => simpa [applyAll_nil] using hc
  | succ n ih =>
    rw [List.take_add_one, applyAll_append]
    cases h : ws[n]? with
    | none => simpa [applyAll_nil] using ih
    | some w =>
      simp only [Option.toList, applyAll_cons, applyAll_nil]
      exact apply_consistent u heads _ w ih (hp n w h)

theorem seqOk_consistent (u : Universe) (heads : List Nat) (s : RState) (ws : List WOp)
    (hc : Consistent u heads s) (hs : SeqOk u heads s ws) :
    ∀ n, Consistent u heads (s.applyAll (ws.take n)) :=
  prefix_consistent u heads s ws hc (seqOk_getElem u heads ws s hs)

theorem commitWrites_eq (t c r : Nat) (blocks idxs : List Nat) :
    commitWrites ["blk", "blkidx"] ["blocks", "tblidx", "tblsum", "tbl"] ["table", "com", "ref"] t blocks idxs c r
      = bwPairs (blocks.zip idxs) ++ [.tblidx t, .tblsum t, .tbl t, .com c, .ref r c] := by
  simp [commitWrites, ingestWrites, blockWrites, bwPairs]

theorem receiveTableWrites_eq (t : Nat) (idxs : List Nat) :
    receiveTableWrites ["blkidx", "tblidx"] ["index", "tblsum", "tbl"] t idxs
      = idxs.map .blkidx ++ [.tblidx t, .tblsum t, .tbl t] := by
  simp [receiveTableWrites]

/-- `commit` with the write order of the current source (blocks: blk then blkidx; table: index and
    profile before the table object; then the commit object; then the branch): every crash point is
    consistent, for every table shape and any parent already present -/
theorem commit_writes_safe (u : Universe) (heads : List Nat) (s : RState)
    (t c r : Nat) (blocks idxs parents : List Nat)
    (hc : Consistent u heads s)
    (ht : u.table? t = some (blocks, idxs)) (hlen : blocks.length = idxs.length)
    (hcm : u.commit? c = some (parents, t)) (hpar : ∀ p ∈ parents, p ∈ s.coms) :
    ∀ n, Consistent u heads (s.applyAll ((commitWrites ["blk", "blkidx"] ["blocks", "tblidx", "tblsum", "tbl"] ["table", "com", "ref"]
      t blocks idxs c r).take n)) := by
  rw [commitWrites_eq]
  apply seqOk_consistent u heads s _ hc
  rw [seqOk_append]
  constructor
  · apply seqOk_of_trivial
    intro w hw s'
    simp only [bwPairs, List.mem_flatMap, List.mem_cons, List.not_mem_nil, or_false] at hw
    obtain ⟨p, _, rfl | rfl⟩ := hw <;> rfl
  · obtain ⟨e1, e2, e3, e4, m5, m6, m7⟩ := applyAll_bwPairs (blocks.zip idxs) s
    generalize s.applyAll (bwPairs (blocks.zip idxs)) = s' at *
    have hT : ∀ s0, prereqOk u heads s0 (.tblidx t) = true := fun _ => rfl
    have hS : ∀ s0, prereqOk u heads s0 (.tblsum t) = true := fun _ => rfl
    simp only [SeqOk, hT, hS, prereq_tbl_iff, prereq_com_iff, prereq_ref_iff, RState.apply, mem_addN, and_true, true_and]
    refine ⟨⟨blocks, idxs, ht, ?_, ?_, Or.inl trivial⟩, ⟨parents, t, hcm, ?_⟩, Or.inl trivial, fun _ => ⟨parents, t, hcm, Or.inl rfl⟩⟩
    · intro b hb
      obtain ⟨i, hi⟩ := mem_zip_of_mem_left blocks idxs hlen b hb
      exact (m7 _ hi).1
    · intro i hi
      obtain ⟨b, hb⟩ := mem_zip_of_mem_right blocks idxs hlen i hi
      exact (m7 _ hb).2
    · intro p hp
      rw [e1]; exact hpar p hp

/-- receipt of a table whose blocks are already at the destination (`saveTable` after the blocks):
    block indices, table index, profile, and only then the table object -/
theorem receive_table_writes_safe (u : Universe) (heads : List Nat) (s : RState)
    (t : Nat) (blocks idxs : List Nat)
    (hc : Consistent u heads s)
    (ht : u.table? t = some (blocks, idxs)) (hb : ∀ b ∈ blocks, b ∈ s.blks) :
    ∀ n, Consistent u heads (s.applyAll ((receiveTableWrites ["blkidx", "tblidx"] ["index", "tblsum", "tbl"] t idxs).take n)) := by
  rw [receiveTableWrites_eq]
  apply seqOk_consistent u heads s _ hc
  rw [seqOk_append]
  constructor
  · apply seqOk_of_trivial
    intro w hw s'
    obtain ⟨i, _, rfl⟩ := List.mem_map.1 hw
    rfl
  · obtain ⟨e1, e2, e3, e4, e5, m6, m7⟩ := applyAll_idxWrites idxs s
    generalize s.applyAll (idxs.map .blkidx) = s' at *
    have hT : ∀ s0, prereqOk u heads s0 (.tblidx t) = true := fun _ => rfl
    have hS : ∀ s0, prereqOk u heads s0 (.tblsum t) = true := fun _ => rfl
    simp only [SeqOk, hT, hS, prereq_tbl_iff, RState.apply, mem_addN, and_true, true_and]
    refine ⟨blocks, idxs, ht, ?_, m7, Or.inl trivial⟩
    intro b hb'
    rw [e5]; exact hb b hb'

/-- the order before the repair (table object first) is NOT safe: a crash after the first write
    leaves a present table without its index -/
theorem table_first_is_unsafe :
    let u : Universe := { commits := [], tables := [(1, [1], [1])] }
    let s : RState := { blks := [1], idxs := [], tbls := [], tblIdx := [], tblSum := [], coms := [], refs := [] }
    ¬ Consistent u [] (s.applyAll ((receiveTableWrites ["blkidx", "tblidx"] ["tbl", "index", "tblsum"] 1 [1]).take 1)) := by
  intro u s
  unfold Consistent
  decide

end Wrgl
