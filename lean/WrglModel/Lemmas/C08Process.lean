import WrglModel.Model.Finder
import WrglModel.Spec.Finder
import WrglModel.Lemmas.C11MultiAux
import WrglModel.Lemmas.C08Multi
import WrglModel.Lemmas.C08ProcessAux
namespace Wrgl
open C11MultiAux C08ProcessAux

/-- `Process` accepts every want that is reachable from some ref (and whose table is present):
    it never answers "unrecognized wants" for such a request — whatever the commit timestamps. -/
theorem process_accepts_reachable (revisit : Bool) (g : Graph) (hwf : g.wf = true) (full : Full)
    (tie : List (Nat × Int) → List (Nat × Int)) (htie : ∀ l, (tie l).Perm l ∧ (tie l).Pairwise (fun a b => a.2 ≥ b.2))
    (order : List Nat → List Nat) (depth walkFuel : Nat) (refs : List Nat) (f : Finder)
    (wants haves : List Nat) (done : Bool)
    (hrefs : ∀ r ∈ refs, (g.get? r).isSome = true)
    (hw : ∀ w ∈ wants, full w = true ∧ ∃ r ∈ refs, Reach g w r) :
    Finder.process revisit g full tie order depth walkFuel refs f wants haves done ≠ .err "unrecognized-wants" := by
  obtain ⟨q, eq, hinv⟩ := queueOf_inv (g := g) tie (fun l => (htie l).1) refs hrefs
  have hr1 : ∃ conf q1, (if wants.isEmpty then (Res.ok ([], q) : Res (List Nat × Q))
        else ensureWants g full (g.length + 2) q wants []) = .ok (conf, q1) ∧ ∀ w ∈ wants, w ∈ conf := by
    by_cases hwe : wants.isEmpty = true
    · refine ⟨[], q, by simp only [hwe, ↓reduceIte], ?_⟩
      intro w hw'
      rw [List.isEmpty_iff] at hwe
      subst hwe
      cases hw'
    · obtain ⟨conf, q1, p1, e, -, -, -, a3⟩ :=
        ensureWants_spec (sums := refs) hwf full (g.length + 2) (by omega) wants q [] [] hinv
      exact ⟨conf, q1, by simp only [hwe]; exact e, a3 hw⟩
  obtain ⟨conf, q1, e1, hall⟩ := hr1
  have hany : wants.any (fun w => !conf.contains w) = false := by
    rw [List.any_eq_false]
    intro w hw'
    simp [hall w hw']
  unfold Finder.process
  simp only [eq]
  rw [e1]
  simp only [hany, Bool.false_eq_true, ↓reduceIte]
  have hfc := findCommons_nu g (g.length + 2) haves q1 [] []
  split
  · rename_i e he; rw [he] at hfc; exact nu_err_of hfc
  · exact nu_panic _
  · rename_i commons _
    split
    · exact nu_ok _
    · rename_i e he
      have := enqueueWants_nu revisit g depth
        (!(({ f with wants := (f.wants ++ wants).eraseDups } : Finder).commons ++ commons).eraseDups.isEmpty && !done)
        walkFuel (order (f.wants ++ wants).eraseDups)
        { commons := (f.commons ++ commons).eraseDups, wants := (f.wants ++ wants).eraseDups,
          commitLists := f.commitLists, tableLists := f.tableLists, steps := f.steps } [] []
      rw [he] at this
      exact nu_err_of this
    · exact nu_panic _

/-- … and only those: when `Process` succeeds, every want was reachable from a ref and had its
    table, and every acknowledged have is one of the haves and an ancestor-or-self of some ref. -/
theorem process_ok_sound (revisit : Bool) (g : Graph) (hwf : g.wf = true) (full : Full)
    (tie : List (Nat × Int) → List (Nat × Int)) (htie : ∀ l, (tie l).Perm l ∧ (tie l).Pairwise (fun a b => a.2 ≥ b.2))
    (order : List Nat → List Nat) (depth walkFuel : Nat) (refs : List Nat) (f : Finder)
    (wants haves : List Nat) (done : Bool)
    (hrefs : ∀ r ∈ refs, (g.get? r).isSome = true)
    (acks : List Nat) (f' : Finder)
    (h : Finder.process revisit g full tie order depth walkFuel refs f wants haves done = .ok (acks, f')) :
    (∀ w ∈ wants, full w = true ∧ ∃ r ∈ refs, Reach g w r) ∧
    (∀ a ∈ acks, a ∈ haves ∧ ∃ r ∈ refs, Reach g a r) := by
  obtain ⟨q, eq, hinv⟩ := queueOf_inv (g := g) tie (fun l => (htie l).1) refs hrefs
  unfold Finder.process at h
  simp only [eq] at h
  have hr1 : ∃ conf q1 p1, (if wants.isEmpty then (Res.ok ([], q) : Res (List Nat × Q))
        else ensureWants g full (g.length + 2) q wants []) = .ok (conf, q1) ∧ MInv g refs q1 p1 ∧
        ∀ c ∈ conf, full c = true ∧ Tgt g refs c := by
    by_cases hwe : wants.isEmpty = true
    · refine ⟨[], q, [], by simp only [hwe, ↓reduceIte], hinv, ?_⟩
      intro c hc; cases hc
    · obtain ⟨conf, q1, p1, e, h1, a1, -, -⟩ :=
        ensureWants_spec (sums := refs) hwf full (g.length + 2) (by omega) wants q [] [] hinv
      refine ⟨conf, q1, p1, by simp only [hwe]; exact e, h1, ?_⟩
      intro c hc
      rcases a1 c hc with h0 | h0
      · cases h0
      · exact h0
  obtain ⟨conf, q1, p1, e1, h1, hconf⟩ := hr1
  rw [e1] at h
  simp only at h
  split at h
  · cases h
  · rename_i hany
    have hany' : ∀ w ∈ wants, w ∈ conf := by
      intro w hw
      have := hany
      simp only [List.any_eq_true, not_exists, not_and] at this
      have := this w hw
      simpa using this
    refine ⟨fun w hw => hconf w (hany' w hw), ?_⟩
    split at h
    · cases h
    · cases h
    · rename_i commons hfc
      have hsp := findCommons_spec (sums := refs) hwf (g.length + 2) (by omega) haves q1 p1 [] [] commons h1 hfc
      split at h
      · simp only [Res.ok.injEq, Prod.mk.injEq] at h
        obtain ⟨rfl, -⟩ := h
        intro a ha
        rcases hsp a ha with h0 | h0
        · cases h0
        · exact h0
      · cases h
      · cases h

end Wrgl
