import WrglModel.Model.Transfer
import WrglModel.Lemmas.C07Aux
namespace Wrgl

/-- cutting into packfiles loses, duplicates and reorders nothing, for every size limit -/
theorem packfiles_flatten (maxSize : Nat) (size : ObjKey → Nat) (objs : List ObjKey) :
    (packfiles maxSize size (objs.length + 1) objs).flatten = objs := by
  exact (C07.packfiles_spec maxSize size _ objs (Nat.lt_succ_self _)).1

/-- every packfile carries at least one object, so at most `|objs|` packfiles are needed -/
theorem packfiles_nonempty (maxSize : Nat) (size : ObjKey → Nat) (objs : List ObjKey) :
    (∀ p ∈ packfiles maxSize size (objs.length + 1) objs, p ≠ []) ∧
    (packfiles maxSize size (objs.length + 1) objs).length ≤ objs.length := by
  exact (C07.packfiles_spec maxSize size _ objs (Nat.lt_succ_self _)).2

/-- sender order: within the object sequence, a table's newly sent blocks come before the table,
    the table comes before the first commit that needs it, no block or table is sent twice, and
    the commit objects are the given list, occurrence by occurrence -/
theorem sender_order (s : SrcRepo) (tts : List Nat) (st : SenderSt) (toSend : List Nat) (objs : List ObjKey)
    (h : senderObjs s tts st toSend = .ok objs) :
    (objs.filterMap (fun o => match o with
      | .com c => some c
      | _ => none)) = toSend ∧
    (objs.filter (fun o => match o with
      | .com _ => false
      | _ => true)).Nodup ∧
    (∀ (i : Nat) (t : Nat), objs[i]? = some (.tbl t) →
      ∀ ti, s.table? t = some ti → ∀ b ∈ ti.blocks, st.commonBlocks.contains b = true ∨ .blk b ∈ objs.take i) := by
  obtain ⟨h1, h2, _, _, h5⟩ := C07.senderObjs_order (f := fun o => match o with
      | .com _ => false
      | _ => true) (g := fun o => match o with
      | .com c => some c
      | _ => none) (fun _ => rfl) (fun _ => rfl) (fun _ => rfl) (fun _ => rfl) (fun _ => rfl) (fun _ => rfl)
    toSend st objs h
  refine ⟨h1, h2, ?_⟩
  intro i t hi ti hti b hb
  rcases h5 i t hi ti hti b hb with h | h
  · exact Or.inl (List.contains_iff_mem.2 h)
  · exact Or.inr h

/-- hypotheses of an honest transfer: what the destination holds is closed (every commit it has,
    has its parents; every table it has, has its blocks), it really has what the common commits
    reference, and the commits to send are parent-first relative to it -/
structure TransferOK (s : SrcRepo) (d : DstRepo) (common toSend : List Nat) : Prop where
  commonKnown : ∀ c ∈ common, (s.commits.get? c).isSome = true
  commonBlocks : ∀ c ∈ common, ∀ cm, s.commits.get? c = some cm → ∀ ti, s.table? cm.table = some ti →
    ∀ b ∈ ti.blocks, b ∈ d.blocks
  known : ∀ c ∈ toSend, (s.commits.get? c).isSome = true
  parentFirst : ∀ (i : Nat) (c : Nat), toSend[i]? = some c → ∀ cm, s.commits.get? c = some cm →
    ∀ p ∈ cm.parents, (d.commits.get? p).isSome = true ∨ p ∈ toSend.take i

/-- C07: an honest transfer is accepted object by object, and the destination ends up holding what
    it held plus exactly the sent commits, their selected tables present at the source and those
    tables' blocks -/
theorem transfer_exact (s : SrcRepo) (d : DstRepo) (common toSend tts : List Nat) (st : SenderSt) (objs : List ObjKey)
    (hok : TransferOK s d common toSend)
    (hi : senderInit s common = .ok st) (ho : senderObjs s tts st toSend = .ok objs) :
    ∃ d', receiveAll s d objs = .ok d' ∧
      (∀ k, d'.has k = true ↔ d.has k = true ∨ k ∈ objs) := by
  have hB : ∀ b ∈ st.commonBlocks, d.has (.blk b) = true := by
    intro b hb
    obtain ⟨c, hc, cm, hcm, ti, hti, hbt⟩ := C07.senderInit_blocks hi b hb
    exact List.contains_iff_mem.2 (hok.commonBlocks c hc cm hcm ti hti b hbt)
  obtain ⟨d', hd'⟩ := C07.senderObjs_receive toSend st d objs ho hB hok.parentFirst
  exact ⟨d', hd', C07.receiveAll_has _ hd'⟩

/-- a commit is never accepted while a parent is missing, and a rejected object changes nothing -/
theorem no_orphan_commit (s : SrcRepo) (d : DstRepo) (c : Nat) (cm : Commit) (p : Nat)
    (hc : s.commits.get? c = some cm) (hp : p ∈ cm.parents) (hmiss : (d.commits.get? p).isSome = false) :
    receiveObj s d (.com c) = .err "parent-missing" := by
  have : cm.parents.all (fun p => (d.commits.get? p).isSome) = false := by
    rw [List.all_eq_false]
    exact ⟨p, hp, by simp [hmiss]⟩
  simp [receiveObj, hc, this]

end Wrgl
