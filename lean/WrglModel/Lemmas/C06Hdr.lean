import WrglModel.Model.Encoding
import WrglModel.Model.Time
namespace Wrgl

/-! ## packfile header (helper lemmas live in `Wrgl.C06Hdr` to avoid name clashes) -/
namespace C06Hdr

theorem u8_toNat (x : Nat) : (u8 x).toNat = x % 256 := by
  simp [u8]

theorem group_lt (u p : Nat) (hu : u < 2 ^ 64) : (u / 2 ^ p % 128) * 2 ^ p < 2 ^ 64 := by
  have h1 : u / 2 ^ p % 128 ≤ u / 2 ^ p := Nat.mod_le _ _
  have h2 : (u / 2 ^ p) * 2 ^ p ≤ u := Nat.div_mul_le_self _ _
  have h3 : (u / 2 ^ p % 128) * 2 ^ p ≤ (u / 2 ^ p) * 2 ^ p := Nat.mul_le_mul_right _ h1
  omega

theorem group_contrib (u p : Nat) (hu : u < 2 ^ 64) :
    (if p < 64 then ((u / 2 ^ p % 128) * 2 ^ p) % 2 ^ 64 else 0) = (u / 2 ^ p % 128) * 2 ^ p := by
  split
  · exact Nat.mod_eq_of_lt (group_lt u p hu)
  · have : 2 ^ 64 ≤ 2 ^ p := Nat.pow_le_pow_right (by omega) (by omega)
    have : u / 2 ^ p = 0 := Nat.div_eq_of_lt (by omega)
    simp [this]

theorem split_group (u p n : Nat) :
    u / 2 ^ p % 2 ^ (7 * (n + 1 + 1)) * 2 ^ p =
      u / 2 ^ p % 128 * 2 ^ p + u / 2 ^ (p + 7) % 2 ^ (7 * (n + 1)) * 2 ^ (p + 7) := by
  have e1 : u / 2 ^ (p + 7) = u / 2 ^ p / 128 := by
    rw [Nat.pow_add, Nat.div_div_eq_div_mul]
  have e2 : (2:Nat) ^ (7 * (n + 1 + 1)) = 128 * 2 ^ (7 * (n+1)) := by
    rw [show 7 * (n + 1 + 1) = 7 + 7 * (n+1) by omega, Nat.pow_add]
  rw [e1, e2, Nat.mod_mul, Nat.pow_add, Nat.add_mul, show (2:Nat)^7 = 128 from rfl]
  congr 1
  ac_rfl

theorem hdrTail_length (u : Nat) : ∀ n p, (hdrTail u n p).length = n
  | 0, _ => rfl
  | 1, _ => rfl
  | n+2, p => by simp [hdrTail, hdrTail_length u (n+1) (p+7)]

theorem decodeHdrTail_hdrTail (u : Nat) (hu : u < 2 ^ 64) (rest : Bytes) :
    ∀ (n fuel p acc : Nat), n + 1 ≤ fuel →
      decodeHdrTail fuel (hdrTail u (n+1) p ++ rest) p acc =
        .ok (acc + (u / 2 ^ p % 2 ^ (7 * (n+1))) * 2 ^ p, rest) := by
  intro n
  induction n with
  | zero =>
    intro fuel p acc hf
    obtain ⟨f, rfl⟩ : ∃ f, fuel = f + 1 := ⟨fuel - 1, by omega⟩
    have hlt : u / 2 ^ p % 128 < 128 := Nat.mod_lt _ (by omega)
    have hb : (u8 (u / 2 ^ p % 128)).toNat = u / 2 ^ p % 128 := by
      rw [u8_toNat]; omega
    simp only [hdrTail, List.cons_append, List.nil_append, decodeHdrTail, hb]
    rw [Nat.mod_eq_of_lt hlt, group_contrib u p hu]
    simp [hlt]
  | succ n ih =>
    intro fuel p acc hf
    obtain ⟨f, rfl⟩ : ∃ f, fuel = f + 1 := ⟨fuel - 1, by omega⟩
    have hlt : u / 2 ^ p % 128 < 128 := Nat.mod_lt _ (by omega)
    have hb : (u8 (128 + u / 2 ^ p % 128)).toNat = 128 + u / 2 ^ p % 128 := by
      rw [u8_toNat]; omega
    have hbm : (128 + u / 2 ^ p % 128) % 128 = u / 2 ^ p % 128 := by omega
    have hnl : ¬ (128 + u / 2 ^ p % 128 < 128) := by omega
    simp only [hdrTail, List.cons_append, decodeHdrTail, hb, hbm, hnl, if_false]
    rw [group_contrib u p hu, ih f (p+7) _ (by omega)]
    rw [split_group, Nat.add_assoc]

theorem numBytes_facts : ∀ bits : Fin 71, 2 ≤ numBytesOf (bits.val : Int) ∧
    (bits.val : Int) ≤ 4 + 7 * (numBytesOf (bits.val : Int) - 1) := by
  decide

theorem bitLen_lt (u : Nat) : u < 2 ^ bitLen u := by
  cases u with
  | zero => simp [bitLen]
  | succ n => exact Nat.lt_log2_self

end C06Hdr
open C06Hdr

/-- the packfile object header round-trips for every type 0..7, every 64-bit length and every
    bit count that does not under-estimate the length (the exact `bits.Len64` the code uses now,
    and any over-estimate such as the float `Log2` it used before) -/
theorem packHeader_roundtrip (t u bits : Nat) (rest : Bytes) (ht : t < 8) (hu : u < 2 ^ 64)
    (hb : bitLen u ≤ bits) (hb2 : bits ≤ 70) :
    ∃ b, encodeHdr bits t u = .ok b ∧ decodeHdr (b ++ rest) = .ok (t, u, rest) := by
  obtain ⟨h2, hcov⟩ := numBytes_facts ⟨bits, by omega⟩
  simp only at h2 hcov
  obtain ⟨n, hn⟩ : ∃ n : Nat, numBytesOf (bits : Int) = (n : Int) + 2 :=
    ⟨(numBytesOf (bits : Int) - 2).toNat, by omega⟩
  have hcov' : bits ≤ 4 + 7 * (n + 1) := by omega
  have hnb : ¬ (numBytesOf (bits : Int) < 1) := by omega
  have hnn : (numBytesOf (bits : Int)).toNat - 1 = n + 1 := by omega
  refine ⟨_, by simp only [encodeHdr, hnb, if_false]; rfl, ?_⟩
  rw [hnn]
  have hb0 : (u8 (128 + t % 8 * 16 + u % 16)).toNat = 128 + t * 16 + u % 16 := by
    rw [u8_toNat]; omega
  simp only [List.cons_append, decodeHdr, hb0]
  rw [decodeHdrTail_hdrTail u hu rest n _ 4 _ (by simp [hdrTail_length]; omega)]
  have hlt : u / 2 ^ 4 < 2 ^ (7 * (n + 1)) := by
    have h1 : u < 2 ^ bits := Nat.lt_of_lt_of_le (bitLen_lt u) (Nat.pow_le_pow_right (by omega) hb)
    have h2 : 2 ^ bits ≤ 2 ^ (4 + 7 * (n+1)) := Nat.pow_le_pow_right (by omega) hcov'
    rw [Nat.div_lt_iff_lt_mul (by omega), Nat.mul_comm, ← Nat.pow_add]
    omega
  rw [Nat.mod_eq_of_lt hlt]
  have e1 : (128 + t * 16 + u % 16) / 16 % 8 = t := by omega
  have e2 : (128 + t * 16 + u % 16) % 16 + u / 2 ^ 4 * 2 ^ 4 = u := by omega
  simp only [e1, e2]

theorem bitLen_spec (u : Nat) : u < 2 ^ bitLen u ∧ (0 < u → 2 ^ (bitLen u - 1) ≤ u) := by
  cases u with
  | zero => simp [bitLen]
  | succ n =>
    simp only [bitLen, Nat.add_sub_cancel]
    exact ⟨Nat.lt_log2_self, fun _ => Nat.log2_self_le (by omega)⟩

/-! ## time field -/
namespace C06Hdr


def pstep : Option Nat → UInt8 → Option Nat := fun acc d => match acc with
      | none => none
      | some a => if 48 ≤ d.toNat ∧ d.toNat ≤ 57 then some (a * 10 + (d.toNat - 48)) else none

theorem parseDigits_ne_nil (l : List UInt8) (h : l ≠ []) : parseDigits l = l.foldl pstep (some 0) := by
  cases l with
  | nil => contradiction
  | cons x xs => rfl

theorem digitByte_toNat (d : Nat) : (digitByte d).toNat = 48 + d % 10 := by
  simp [digitByte]; omega

theorem pstep_digit (a d : Nat) : pstep (some a) (digitByte d) = some (a * 10 + d % 10) := by
  have : 48 + d % 10 ≤ 57 := by omega
  simp [pstep, digitByte_toNat, this]

theorem foldl_decDigits : ∀ fuel n, n < 10 ^ fuel →
    (decDigits fuel n).foldl pstep (some 0) = some n
  | 0, n, h => by
    have : n = 0 := by simpa using h
    simp [decDigits, this]
  | fuel+1, n, h => by
    unfold decDigits
    split
    · rename_i h10
      simp [pstep_digit, Nat.mod_eq_of_lt h10]
    · have : n / 10 < 10 ^ fuel := by
        rw [Nat.div_lt_iff_lt_mul (by omega), ← Nat.pow_succ]; exact h
      rw [List.foldl_append, foldl_decDigits fuel (n/10) this]
      simp [pstep_digit]; omega

theorem foldl_zeros (k : Nat) : (List.replicate k (48 : UInt8)).foldl pstep (some 0) = some 0 := by
  induction k with
  | zero => rfl
  | succ k ih => rw [List.replicate_succ, List.foldl_cons]; exact ih

theorem lt_ten_pow_succ (n : Nat) : n < 10 ^ (n+1) :=
  Nat.lt_of_lt_of_le (Nat.lt_pow_self (by omega : 1 < 10)) (Nat.pow_le_pow_right (by omega) (by omega))

theorem decDigits_len_pos : ∀ fuel n, 1 ≤ fuel → 1 ≤ (decDigits fuel n).length
  | fuel+1, n, _ => by
    unfold decDigits; split <;> simp

theorem dec_ne_nil (n : Nat) : dec n ≠ [] := by
  have := decDigits_len_pos (n+1) n (by omega)
  intro h; rw [dec] at h; rw [h] at this; simp at this

theorem parseDigits_padZero_dec (k n : Nat) : parseDigits (padZero k (dec n)) = some n := by
  rw [parseDigits_ne_nil _ (by simp [padZero, dec_ne_nil]), padZero, List.foldl_append, foldl_zeros]
  exact foldl_decDigits _ _ (lt_ten_pow_succ n)

theorem decDigits_len_le : ∀ fuel n k, n < 10 ^ k → 1 ≤ k → (decDigits fuel n).length ≤ k
  | 0, _, _, _, _ => by simp [decDigits]
  | fuel+1, n, k, h, hk => by
    unfold decDigits
    split
    · simpa using hk
    · rename_i h10
      obtain ⟨k', rfl⟩ : ∃ k', k = k' + 1 := ⟨k - 1, by omega⟩
      have hk' : 1 ≤ k' := by
        cases k' with
        | zero => simp at h; omega
        | succ _ => omega
      have : n / 10 < 10 ^ k' := by
        rw [Nat.div_lt_iff_lt_mul (by omega), ← Nat.pow_succ]; exact h
      have := decDigits_len_le fuel (n/10) k' this hk'
      simp; omega

theorem decDigits_len_ge : ∀ fuel n k, 10 ^ k ≤ n → n < 10 ^ fuel → k + 1 ≤ (decDigits fuel n).length
  | 0, n, k, h, hf => by
    have : 0 < 10 ^ k := Nat.pow_pos (by omega)
    simp at hf; omega
  | fuel+1, n, k, h, hf => by
    unfold decDigits
    split
    · rename_i h10
      cases k with
      | zero => simp
      | succ k' =>
        have : 10 ^ 1 ≤ 10 ^ (k'+1) := Nat.pow_le_pow_right (by omega) (by omega)
        omega
    · cases k with
      | zero => simp
      | succ k' =>
        have h1 : 10 ^ k' ≤ n / 10 := by
          rw [Nat.le_div_iff_mul_le (by omega), ← Nat.pow_succ]; exact h
        have h2 : n / 10 < 10 ^ fuel := by
          rw [Nat.div_lt_iff_lt_mul (by omega), ← Nat.pow_succ]; exact hf
        have := decDigits_len_ge fuel (n/10) k' h1 h2
        simp; omega

theorem dec_len_le (n k : Nat) (h : n < 10 ^ k) (hk : 1 ≤ k) : (dec n).length ≤ k :=
  decDigits_len_le _ _ _ h hk

theorem dec_len_ge (n k : Nat) (h : 10 ^ k ≤ n) : k + 1 ≤ (dec n).length :=
  decDigits_len_ge _ _ _ h (lt_ten_pow_succ n)

theorem padZero_length (w : Nat) (d : List UInt8) : (padZero w d).length = w - d.length + d.length := by
  simp [padZero]

theorem fmtZone_len_ge (z : Int) : 5 ≤ (fmtZone z).length := by
  simp only [fmtZone, List.length_cons, List.length_append, padZero_length]
  omega

theorem decDigits_digits : ∀ fuel n, ∀ x ∈ decDigits fuel n, 48 ≤ x.toNat ∧ x.toNat ≤ 57
  | 0, _, x, hx => by simp [decDigits] at hx
  | fuel+1, n, x, hx => by
    unfold decDigits at hx
    split at hx
    · simp at hx; subst hx; rw [digitByte_toNat]; omega
    · simp at hx
      rcases hx with hx | hx
      · exact decDigits_digits fuel _ x hx
      · subst hx; rw [digitByte_toNat]; omega

theorem padZero_digits (w n : Nat) : ∀ x ∈ padZero w (dec n), 48 ≤ x.toNat ∧ x.toNat ≤ 57 := by
  intro x hx
  simp only [padZero, List.mem_append, List.mem_replicate] at hx
  rcases hx with ⟨_, rfl⟩ | hx
  · decide
  · exact decDigits_digits _ _ x hx

theorem parseInt10_digits (l : List UInt8) (h : ∀ x ∈ l, 48 ≤ x.toNat ∧ x.toNat ≤ 57) :
    parseInt10 l = (parseDigits l).map (fun n => (n : Int)) := by
  unfold parseInt10
  split
  · have := h 45 (by simp); simp at this
  · have := h 43 (by simp); simp at this
  · rfl

theorem parseInt10_fmt010 (sec : Int) : parseInt10 (fmt010 sec) = some sec := by
  unfold fmt010
  split
  · rw [parseInt10_digits _ (padZero_digits _ _), parseDigits_padZero_dec]
    simp; omega
  · simp only [parseInt10]
    rw [parseDigits_padZero_dec]
    simp; omega

theorem fmt010_length (sec : Int) (hs : -999999999 ≤ sec ∧ sec < 10000000000) :
    (fmt010 sec).length = 10 := by
  unfold fmt010
  split
  · have := dec_len_le sec.toNat 10 (by omega) (by omega)
    rw [padZero_length]; omega
  · have := dec_len_le (-sec).toNat 9 (by omega) (by omega)
    rw [List.length_cons, padZero_length]; omega

theorem pad2 (x : Nat) (hx : x < 100) : ∃ a b, padZero 2 (dec x) = [a, b] := by
  have h1 := dec_len_le x 2 (by omega) (by omega)
  have h2 : (padZero 2 (dec x)).length = 2 := by rw [padZero_length]; omega
  match h : padZero 2 (dec x), h2 with
  | [a, b], _ => exact ⟨a, b, rfl⟩

/-- shape of the written time field and what `readTime` computes from it, for any zone whose hours
    still fit two digits -/
theorem time_shape (sec zoneMin : Int) (hs : -999999999 ≤ sec ∧ sec < 10000000000)
    (hz : zoneMin.natAbs < 6000) :
    (encodeTime sec (zoneMin * 60)).length = 16 ∧
    readTime (encodeTime sec (zoneMin * 60)) =
      (match (if zoneMin.natAbs / 60 > 24 || zoneMin.natAbs % 60 > 60 then
                (.err "time-zone" : Res (Int × Int))
              else if zoneMin < 0 then
                .ok (sec, -(((zoneMin.natAbs / 60 * 60 + zoneMin.natAbs % 60) * 60 : Nat) : Int))
              else .ok (sec, ((zoneMin.natAbs / 60 * 60 + zoneMin.natAbs % 60) * 60 : Nat))) with
        | .ok t => .ok (some t)
        | .err e => .err e
        | .panic p => .panic p) := by
  have hF := fmt010_length sec hs
  have hP := parseInt10_fmt010 sec
  obtain ⟨h1, h2, hH⟩ := pad2 (zoneMin.natAbs / 60) (by omega)
  obtain ⟨m1, m2, hM⟩ := pad2 (zoneMin.natAbs % 60) (by omega)
  have hhh := parseDigits_padZero_dec 2 (zoneMin.natAbs / 60)
  have hmm := parseDigits_padZero_dec 2 (zoneMin.natAbs % 60)
  rw [hH] at hhh
  rw [hM] at hmm
  have hzm : Int.tdiv (zoneMin * 60) 60 = zoneMin := Int.mul_tdiv_cancel _ (by omega)
  have henc : encodeTime sec (zoneMin * 60) =
      fmt010 sec ++ 32 :: (if zoneMin < 0 then 45 else 43) :: [h1, h2, m1, m2] := by
    simp only [encodeTime, fmtZone, hzm, hH, hM]
    simp
  generalize fmt010 sec = F at *
  have hlen : (encodeTime sec (zoneMin * 60)).length = 16 := by
    rw [henc]; simp [hF]
  refine ⟨hlen, ?_⟩
  have hall : (encodeTime sec (zoneMin * 60)).all (· == 0) = false := by
    rw [henc]; simp
  have htake : (encodeTime sec (zoneMin * 60)).take 10 = F := by
    rw [henc, List.take_left' hF]
  have hdrop : (encodeTime sec (zoneMin * 60)).drop 11 =
      (if zoneMin < 0 then 45 else 43) :: [h1, h2, m1, m2] := by
    rw [henc, show 11 = F.length + 1 by omega, List.drop_append]
    simp
  simp only [readTime, hall, decodeTime, hlen, htake, hdrop, hP, hhh, hmm]
  by_cases hg : 24 < zoneMin.natAbs / 60 ∨ 60 < zoneMin.natAbs % 60 <;>
    by_cases hneg : zoneMin < 0 <;> simp [hneg, hg]

end C06Hdr

/-- instants with a 10-character `%010d` rendering and zones that are whole minutes within ±99:59
    round-trip through the 16-byte time field -/
theorem time_roundtrip (sec zoneMin : Int) (hs : -999999999 ≤ sec ∧ sec < 10000000000)
    (hz : -1500 < zoneMin ∧ zoneMin < 1500) :
    (encodeTime sec (zoneMin * 60)).length = 16 ∧
    readTime (encodeTime sec (zoneMin * 60)) = .ok (some (sec, zoneMin * 60)) := by
  have hg : ¬ (24 < zoneMin.natAbs / 60 ∨ 60 < zoneMin.natAbs % 60) := by omega
  obtain ⟨hlen, hread⟩ := time_shape sec zoneMin hs (by omega)
  refine ⟨hlen, ?_⟩
  rw [hread]
  by_cases hneg : zoneMin < 0
  · simp [hneg, hg]; omega
  · simp [hneg, hg]; omega

/-- everything else is refused at write time (with the guard) -/
theorem time_out_of_range_refused (sec z : Int) (hs : sec < -999999999 ∨ 10000000000 ≤ sec) :
    writeTime true (some (sec, z)) = .err "time-out-of-range" := by
  have hlen : 11 ≤ (fmt010 sec).length := by
    unfold fmt010
    split
    · have : 10 ^ 10 ≤ sec.toNat := by omega
      have := dec_len_ge _ _ this
      rw [padZero_length]; omega
    · have : 10 ^ 9 ≤ (-sec).toNat := by omega
      have := dec_len_ge _ _ this
      rw [List.length_cons, padZero_length]; omega
  have hz := fmtZone_len_ge z
  have : (encodeTime sec z).length ≠ 16 := by
    simp only [encodeTime, List.length_append, List.length_cons, List.length_nil]; omega
  simp [writeTime, this]

theorem time_zero_roundtrip : ∃ b, writeTime true none = .ok b ∧ readTime b = .ok none :=
  ⟨_, rfl, by decide⟩

end Wrgl


namespace Wrgl

/-- a zone offset of 25 hours or more is written (the text still has 16 bytes) but cannot be read
    back: `time.Parse("-0700", …)` refuses the hour -/
theorem time_zone_over_24h_unreadable (sec zoneMin : Int) (hs : -999999999 ≤ sec ∧ sec < 10000000000)
    (hz : 1500 ≤ zoneMin ∧ zoneMin < 6000) :
    (encodeTime sec (zoneMin * 60)).length = 16 ∧
    readTime (encodeTime sec (zoneMin * 60)) = .err "time-zone" := by
  have hg : 24 < zoneMin.natAbs / 60 := by omega
  obtain ⟨hlen, hread⟩ := C06Hdr.time_shape sec zoneMin hs (by omega)
  refine ⟨hlen, ?_⟩
  rw [hread]
  simp [hg]

end Wrgl
