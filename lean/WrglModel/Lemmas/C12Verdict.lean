import WrglModel.Model.Prune
import WrglModel.Lemmas.C12Aux
namespace Wrgl

namespace C12Aux
open C11Aux

/-! ### the verdict, parameterised by the "kept" predicate -/

def verdictWith (k : Commit → Bool) (before after : PRepo) : List String :=
  let keptCommits := before.commits.filter k
  let goneCommits := before.commits.filter (fun c => !k c)
  let liveTables := before.tables.filter (fun t => keptCommits.any (fun c => c.table == t.id))
  let liveBlocks := liveTables.flatMap (·.blocks)
  let liveIdxs := liveTables.flatMap (·.idxs)
  (if keptCommits.all (fun c => (after.commits.get? c.id).isSome) then [] else ["reachable-commits-kept"]) ++
  (if liveTables.all (fun t => after.tables.contains t) then [] else ["tables-of-reachable-commits-kept"]) ++
  (if liveTables.all (fun t => (!before.tblIdx.contains t.id || after.tblIdx.contains t.id) &&
                               (!before.profiles.contains t.id || after.profiles.contains t.id)) then [] else ["table-index-and-profile-kept"]) ++
  (if (liveBlocks.filter before.blocks.contains).all after.blocks.contains &&
      (liveIdxs.filter before.idxs.contains).all after.idxs.contains then [] else ["blocks-and-block-indices-kept"]) ++
  (if goneCommits.all (fun c => (after.commits.get? c.id).isNone) then [] else ["unreachable-commits-gone"]) ++
  (if goneCommits.isEmpty ||
      (after.tables.all (fun t => liveTables.contains t) &&
       after.blocks.all liveBlocks.contains && after.idxs.all liveIdxs.contains) then [] else ["orphaned-tables-and-blocks-gone"]) ++
  (if after.commits.all (fun c => before.commits.contains c) && after.tables.all before.tables.contains &&
      after.blocks.all before.blocks.contains && after.idxs.all before.idxs.contains then [] else ["nothing-created"])

theorem pruneVerdict_eq (before after : PRepo) (refs : List Nat) :
    pruneVerdict before after refs =
      verdictWith (fun c => (reachableCommits before refs).contains c.id) before after := rfl

theorem verdictWith_congr (k k' : Commit → Bool) (before after : PRepo)
    (h : ∀ c ∈ before.commits, k c = k' c) : verdictWith k before after = verdictWith k' before after := by
  have h1 : before.commits.filter k = before.commits.filter k' := List.filter_congr h
  have h2 : before.commits.filter (fun c => !k c) = before.commits.filter (fun c => !k' c) :=
    List.filter_congr (fun c hc => by simp [h c hc])
  unfold verdictWith
  rw [h1, h2]

theorem get?_of_mem {g : Graph} {c : Commit} (hc : c ∈ g) : (g.get? c.id).isSome = true := by
  unfold Graph.get?
  rw [List.find?_isSome]
  exact ⟨c, hc, by simp⟩

theorem commit_beq_iff (a b : Commit) : (a == b) = true ↔ a = b := by
  cases a; cases b
  show instBEqCommit.beq _ _ = true ↔ _
  simp [instBEqCommit.beq]

instance : LawfulBEq Commit where
  eq_of_beq h := (commit_beq_iff _ _).1 h
  rfl := (commit_beq_iff _ _).2 rfl

theorem all_of_filter_not_isEmpty {k : Commit → Bool} {l : List Commit}
    (he : (l.filter (fun c => !k c)).isEmpty = true) : ∀ c ∈ l, k c = true := by
  rw [List.isEmpty_iff, List.filter_eq_nil_iff] at he
  intro c hc
  simpa using he c hc

theorem verdict_same (k : Commit → Bool) (r : PRepo)
    (he : (r.commits.filter (fun c => !k c)).isEmpty = true) : verdictWith k r r = [] := by
  have hall := all_of_filter_not_isEmpty he
  unfold verdictWith
  simp only [he]
  simp
  refine ⟨?_, ?_, ?_⟩
  · intro x hx _ hn
    have := get?_of_mem hx
    simp [hn] at this
  · intro x hx _ _ _ _; exact hx
  · intro x hx hk
    rw [hall x hx] at hk; cases hk

/-- the repository `prune` builds when something has to go -/
def pruned (found : List Nat) (r : PRepo) : PRepo :=
  let surviving := r.commits.filter (fun c => found.contains c.id)
  let keptTables := r.tables.filter (fun t => surviving.any (fun c => c.table == t.id))
  let keepBlock := keptTables.flatMap (·.blocks)
  let keepIdx := keptTables.flatMap (·.idxs)
  { commits := surviving,
    tables := keptTables,
    blocks := r.blocks.filter keepBlock.contains,
    idxs := r.idxs.filter keepIdx.contains,
    tblIdx := r.tblIdx.filter (fun t => keptTables.any (·.id == t) || !r.tables.any (·.id == t)),
    profiles := r.profiles.filter (fun t => keptTables.any (·.id == t) || !r.tables.any (·.id == t)) }

theorem get?_filter_found {g : Graph} {found : List Nat} {x : Commit} (hx : x ∈ g)
    (hf : x.id ∈ found) :
    ¬ Graph.get? (g.filter (fun c => decide (c.id ∈ found))) x.id = none := by
  have hm : x ∈ g.filter (fun c => decide (c.id ∈ found)) := by
    rw [List.mem_filter]; exact ⟨hx, by simpa using hf⟩
  have := get?_of_mem hm
  intro hn; simp [hn] at this

theorem get?_filter_notfound {g : Graph} {found : List Nat} {i : Nat} (hf : ¬ i ∈ found) :
    Graph.get? (g.filter (fun c => decide (c.id ∈ found))) i = none := by
  unfold Graph.get?
  rw [List.find?_eq_none]
  intro c hc
  rw [List.mem_filter] at hc
  have h2 : c.id ∈ found := by simpa using hc.2
  intro he
  have : c.id = i := by simpa using he
  exact hf (this ▸ h2)

theorem verdict_pruned (found : List Nat) (r : PRepo) :
    verdictWith (fun c => found.contains c.id) r (pruned found r) = [] := by
  unfold verdictWith pruned
  simp
  refine ⟨?_, ?_, ?_, ⟨?_, ?_⟩, ?_, ?_, ?_, ?_, ?_, ?_⟩
  · intro x hx hf; exact get?_filter_found hx hf
  · grind
  · grind
  · grind
  · grind
  · intro x _ hf; exact get?_filter_notfound hf
  · grind
  · grind
  · grind
  · grind
  · grind

/-! ### `prune` after the mark phase -/

theorem prune_eq {r : PRepo} {refs found : List Nat}
    (h : markLoop r.commits (r.commits.length + 2)
      (insertRefs r.commits { items := [], seen := [] } refs) [] = .ok found) :
    prune true r refs =
      if (r.commits.filter (fun c => !found.contains c.id)).isEmpty then .ok r
      else .ok (pruned found r) := by
  unfold prune pruned
  simp only [Bool.not_true, Bool.false_eq_true, ↓reduceIte, h]

theorem mem_reachableCommits {r : PRepo} (hwf : r.commits.wf = true) {refs found : List Nat}
    (hg : ∀ x ∈ found, (r.commits.get? x).isSome = true)
    (hf : ∀ a, a ∈ found ↔ FromRefs r.commits refs a) (x : Nat) :
    x ∈ reachableCommits r refs ↔ x ∈ found := by
  unfold reachableCommits
  rw [List.mem_filter, mem_ancestorsOfAll r.commits hwf _
    (by intro b hb; exact (List.mem_filter.1 hb).2) x, hf x]
  constructor
  · intro ⟨⟨b, hb, hr⟩, _⟩
    exact ⟨b, (List.mem_filter.1 hb).1, (List.mem_filter.1 hb).2, hr⟩
  · intro ⟨b, hb, hgb, hr⟩
    exact ⟨⟨b, List.mem_filter.2 ⟨hb, hgb⟩, hr⟩, hg x ((hf x).2 ⟨b, hb, hgb, hr⟩)⟩

/-! ### the surviving sub-history -/

theorem get?_eq_of_mem {g : Graph} (hn : (g.map (·.id)).Nodup) {c : Commit} (hc : c ∈ g) :
    g.get? c.id = some c := by
  induction g with
  | nil => simp at hc
  | cons d g ih =>
    rw [List.map_cons, List.nodup_cons] at hn
    rcases List.mem_cons.1 hc with rfl | hc
    · simp [Graph.get?]
    · have hne : ¬ d.id = c.id := by
        intro e
        exact hn.1 (e ▸ List.mem_map.2 ⟨c, hc, rfl⟩)
      have ih' := ih hn.2 hc
      unfold Graph.get? at ih' ⊢
      rw [List.find?_cons]
      have : (d.id == c.id) = false := by simpa using hne
      simp only [this]
      exact ih'

theorem find?_congr' {α : Type} {p q : α → Bool} : ∀ (l : List α), (∀ x ∈ l, p x = q x) →
    l.find? p = l.find? q := by
  intro l
  induction l with
  | nil => intro _; rfl
  | cons a l ih =>
    intro h
    rw [List.find?_cons, List.find?_cons, h a (by simp), ih (fun x hx => h x (by simp [hx]))]

theorem get?_surviving {g : Graph} {found : List Nat} {i : Nat} (hi : i ∈ found) :
    Graph.get? (g.filter (fun c => found.contains c.id)) i = g.get? i := by
  unfold Graph.get?
  rw [List.find?_filter]
  apply find?_congr'
  intro c _
  by_cases h : c.id = i
  · subst h
    simp [hi]
  · have : (c.id == i) = false := by simpa using h
    simp [this]

theorem parentsOf_surviving {g : Graph} {found : List Nat} {i : Nat} (hi : i ∈ found) :
    parentsOf (g.filter (fun c => found.contains c.id)) i = parentsOf g i := by
  unfold parentsOf
  rw [get?_surviving hi]

theorem surviving_wf {g : Graph} (hwf : g.wf = true) {refs found : List Nat}
    (hg : ∀ x ∈ found, (g.get? x).isSome = true)
    (hf : ∀ a, a ∈ found ↔ FromRefs g refs a) :
    Graph.wf (g.filter (fun c => found.contains c.id)) = true := by
  have hn := wf_nodup hwf
  unfold Graph.wf
  rw [Bool.and_eq_true]
  constructor
  · rw [decide_eq_true_iff]
    exact List.Nodup.sublist (List.Sublist.map _ List.filter_sublist) hn
  · rw [List.all_eq_true]
    intro c hc
    rw [List.all_eq_true]
    intro p hp
    rw [List.mem_filter] at hc
    have hcf : c.id ∈ found := by simpa using hc.2
    have hpar : p ∈ parentsOf g c.id := by
      simp only [parentsOf, get?_eq_of_mem hn hc.1]
      exact hp
    have hpf : p ∈ found := (hf p).2 (fromRefs_closed g refs _ _ ((hf _).1 hcf) hpar)
    rw [get?_surviving hpf]
    exact hg p hpf

theorem reach_surviving {g : Graph} {refs found : List Nat}
    (hf : ∀ a, a ∈ found ↔ FromRefs g refs a) {a b : Nat} (h : Reach g a b) :
    b ∈ found → Reach (g.filter (fun c => found.contains c.id)) a b := by
  induction h with
  | refl => intro _; exact Reach.refl _
  | step hp _ ih =>
    intro hb
    have hpf := (hf _).2 (fromRefs_closed g refs _ _ ((hf _).1 hb) hp)
    exact Reach.step (by rw [parentsOf_surviving hb]; exact hp) (ih hpf)

theorem fromRefs_surviving {g : Graph} {refs found : List Nat}
    (hf : ∀ a, a ∈ found ↔ FromRefs g refs a) {a : Nat} (ha : a ∈ found) :
    FromRefs (g.filter (fun c => found.contains c.id)) refs a := by
  obtain ⟨b, hb, hgb, hr⟩ := (hf a).1 ha
  have hbf : b ∈ found := (hf b).2 ⟨b, hb, hgb, Reach.refl b⟩
  refine ⟨b, hb, ?_, reach_surviving hf hr hbf⟩
  rw [get?_surviving hbf]
  exact hgb

end C12Aux

end Wrgl
