import WrglModel.Model.Finder
import WrglModel.Model.Transfer
import WrglModel.Spec.Finder
import WrglModel.Lemmas.C08
import WrglModel.Lemmas.C07
namespace Wrgl

/-- a set of commits closed under parents (a repository holding full history) -/
def AncClosed (g : Graph) (L : List Nat) : Prop := ∀ c ∈ L, ∀ p ∈ parentsOf g c, p ∈ L

theorem ancClosed_reach (g : Graph) (L : List Nat) (h : AncClosed g L) (s a : Nat) (hs : s ∈ L) (hr : Reach g a s) : a ∈ L := by
  exact Reach.closed g (fun x => x ∈ L) s hs (fun x hx p hp => h x hx p hp) a hr

/-- C09 (fetch / push closure): the receiver holds an ancestor-closed set `L`; the commons
    acknowledged during negotiation are commits it holds; the sender lists the walk from the want.
    Then every ancestor of the want is either already held or in the list — after the transfer the
    updated ref's whole history is present. -/
theorem fetch_closed (g : Graph) (hwf : g.wf = true) (hac : Acyclic g) (L commons : List Nat)
    (hL : AncClosed g L) (hc : ∀ s ∈ commons, s ∈ L) (w : Nat) (hw : (g.get? w).isSome = true)
    (a : Nat) (hr : Reach g a w) :
    a ∈ L ∨ ∃ d, (a, d) ∈ unfoldTree g (fun x => commons.contains x) (g.length + 1) w 0 := by
  rcases unfoldTree_closed g hwf hac (fun x => commons.contains x) w a hw hr with h | ⟨s, hs, has, _⟩
  · exact Or.inr h
  · have hsc : s ∈ commons := by simpa using hs
    exact Or.inl (ancClosed_reach g L hL s a (hc s hsc) has)

/-- the list the finder produces is acceptable to the receiver: for EVERY position of the list
    (repeats included) the parents of the commit at that position are held by the receiver or occur
    earlier in the list -/
theorem walk_list_parent_first_everywhere (revisit : Bool) (g : Graph) (hwf : g.wf = true) (hac : Acyclic g)
    (L commons : List Nat) (hL : AncClosed g L) (hc : ∀ s ∈ commons, s ∈ L)
    (depth : Nat) (w : Nat) (hw : (g.get? w).isSome = true)
    (fuel : Nat) (cl tl sums : List Nat) (steps : Nat)
    (h : walkWant revisit g commons [] depth false fuel [(w, 0)] [] [] [] 0 = .ok (some (cl, tl, sums, steps)))
    (i : Nat) (c : Nat) (hi : cl[i]? = some c) (p : Nat) (hp : p ∈ parentsOf g c) :
    p ∈ L ∨ p ∈ cl.take i := by
  have _ := hwf; have _ := hac; have _ := hw; have _ := hL
  obtain ⟨pre, e, -, hpf⟩ :=
    C08Aux.walk_pf_gen g revisit commons depth fuel [(w, 0)] [] [] [] 0 cl tl sums steps h
  have e' : cl = pre := by simpa using e
  subst e'
  rcases hpf i c hi p hp with hcm | hmem
  · have hpc : p ∈ commons := by simpa using hcm
    exact Or.inl (hc p hpc)
  · exact Or.inr hmem

end Wrgl
