import WrglModel.Model.Finder
import WrglModel.Spec.Finder
import WrglModel.Lemmas.C08
import WrglModel.Lemmas.C08MultiAux
namespace Wrgl

/-- C08 across wants (one call of `enqueueWants`, i.e. one negotiation round or the final
    `CommitsToSend`): the lists added by this call, concatenated in order, are
    (1) closed: every ancestor of every want that was not left pending is listed or is an ancestor
        of an acknowledged common commit;
    (2) acceptable at EVERY position: each parent of the commit at position i is an acknowledged
        common commit or occurs before position i (across the lists of different wants);
    (3) sound: everything listed is an ancestor of some want. -/
theorem enqueueWants_spec (revisit : Bool) (g : Graph) (hwf : g.wf = true) (hac : Acyclic g)
    (depth fuel : Nat) (stop : Bool) (ws : List Nat) (hws : ∀ w ∈ ws, (g.get? w).isSome = true)
    (f f' : Finder) (pending : List Nat)
    (h : enqueueWants revisit g depth stop fuel ws f [] [] = .ok (f', pending)) :
    ∃ newLists : List (List Nat), f'.commitLists = f.commitLists ++ newLists ∧ f'.commons = f.commons ∧
    (∀ w ∈ ws, w ∉ pending → ∀ a, Reach g a w → a ∈ newLists.flatten ∨ ∃ s ∈ f.commons, Reach g a s) ∧
    (∀ (i : Nat) (c : Nat), newLists.flatten[i]? = some c → ∀ p ∈ parentsOf g c,
        p ∈ f.commons ∨ p ∈ newLists.flatten.take i) ∧
    (∀ a ∈ newLists.flatten, ∃ w ∈ ws, Reach g a w) := by
  have _ := hwf; have _ := hac; have _ := hws
  obtain ⟨nl, e1, e2, -, hcl, hpf, hsd⟩ :=
    C08Multi.enqueue_gen revisit g depth stop fuel ws f [] [] [] f' pending
      (by intro s hs; cases hs) (by intro i c hi; simp at hi) h
  rw [List.nil_append] at hcl hpf
  exact ⟨nl, e1, e2, hcl, hpf, hsd⟩

end Wrgl
