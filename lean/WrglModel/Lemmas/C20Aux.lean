/-
Auxiliary lemmas for C20 (pkg/index hash set): order facts on hashes, lower bounds, `insertIndex`,
`mergeAt`, `addToFanout`. Core Lean only.
-/
import WrglModel.Model.HashSet
import WrglModel.Spec.HashSet
import WrglModel.Lemmas.Search
import WrglModel.Lemmas.Order
namespace Wrgl
namespace C20

/-! ## order on hashes -/

def hlt (a b : Hash) : Prop := bytesCmp a b = .lt
def hle (a b : Hash) : Prop := bytesCmp a b ≠ .gt

theorem hle_iff_not_hlt (a b : Hash) : hle a b ↔ ¬ hlt b a := by
  unfold hle hlt; rw [Ne, bytesCmp_gt_iff_lt]

theorem hle_refl (a : Hash) : hle a a := by
  unfold hle; rw [bytesCmp_refl]; decide

theorem hlt_irrefl (a : Hash) : ¬ hlt a a := bytesCmp_lt_irrefl a

theorem hle_of_hlt {a b : Hash} (h : hlt a b) : hle a b := by
  unfold hle; unfold hlt at h; rw [h]; decide

theorem hle_hlt_trans {a b c : Hash} (h1 : hle a b) (h2 : hlt b c) : hlt a c :=
  bytesCmp_le_lt_trans h1 h2

theorem hle_trans {a b c : Hash} (h1 : hle a b) (h2 : hle b c) : hle a c := by
  rcases (bytesCmp_ne_gt_iff b c).mp h2 with h | h
  · exact hle_of_hlt (hle_hlt_trans h1 h)
  · subst h; exact h1

theorem hle_total (a b : Hash) : hle a b ∨ hle b a := by
  rcases bytesCmp_total a b with h | h | h
  · exact Or.inl (hle_of_hlt h)
  · subst h; exact Or.inl (hle_refl a)
  · exact Or.inr (hle_of_hlt h)

theorem hle_antisymm {a b : Hash} (h1 : hle a b) (h2 : hle b a) : a = b := by
  apply bytesCmp_antisymm _ h1
  intro h
  exact (hle_iff_not_hlt b a).mp h2 h

theorem hashGe_iff (h b : Hash) : hashGe h b = true ↔ ¬ hlt h b := by
  unfold hashGe hlt; simp

theorem hashGe_false_iff (h b : Hash) : hashGe h b = false ↔ hlt h b := by
  unfold hashGe hlt; simp

theorem firstByte_lt_256 (h : Hash) : firstByte h < 256 := by
  cases h with
  | nil => simp [firstByte]
  | cons x xs => simp only [firstByte]; exact UInt8.toNat_lt x

theorem hlt_of_firstByte_lt {a b : Hash} (h : firstByte a < firstByte b) : hlt a b := by
  unfold hlt
  cases a with
  | nil => cases b with
    | nil => simp [firstByte] at h
    | cons y ys => simp [bytesCmp]
  | cons x xs => cases b with
    | nil => simp [firstByte] at h
    | cons y ys =>
      simp only [firstByte] at h
      simp [bytesCmp, UInt8.lt_iff_toNat_lt, h]

theorem firstByte_mono {a b : Hash} (h : hle a b) : firstByte a ≤ firstByte b := by
  apply Nat.le_of_not_lt
  intro hlt'
  exact (hle_iff_not_hlt a b).mp h (hlt_of_firstByte_lt hlt')

/-! ## sortedness -/

def Sorted (l : List Hash) : Prop := l.Pairwise hle

theorem sortedHashes_iff (l : List Hash) : sortedHashes l = true ↔ Sorted l := by
  unfold Sorted
  induction l with
  | nil => simp [sortedHashes]
  | cons a l ih =>
    cases l with
    | nil => simp [sortedHashes]
    | cons b rest =>
      simp only [sortedHashes, Bool.and_eq_true, ih]
      constructor
      · rintro ⟨hab, hs⟩
        have hab' : hle a b := by simpa [hle] using hab
        refine List.Pairwise.cons ?_ hs
        intro x hx
        rcases List.mem_cons.mp hx with rfl | hx
        · exact hab'
        · exact hle_trans hab' ((List.pairwise_cons.mp hs).1 x hx)
      · intro h
        have h' := List.pairwise_cons.mp h
        refine ⟨?_, h'.2⟩
        have : hle a b := h'.1 b (by simp)
        simpa [hle] using this

/-! ## insertSorted / sortHashes -/

theorem mem_insertSorted (h x : Hash) (l : List Hash) : x ∈ insertSorted h l ↔ x = h ∨ x ∈ l := by
  induction l with
  | nil => simp [insertSorted]
  | cons y ys ih =>
    simp only [insertSorted]
    split
    · simp only [List.mem_cons, ih]; constructor <;> (intro h; rcases h with h | h | h <;> simp [h])
    · simp

theorem countP_insertSorted (q : Hash → Bool) (h : Hash) (l : List Hash) :
    (insertSorted h l).countP q = (h :: l).countP q := by
  induction l with
  | nil => simp [insertSorted]
  | cons y ys ih =>
    simp only [insertSorted]
    split
    · simp only [List.countP_cons] at ih ⊢; omega
    · rfl

theorem sorted_insertSorted (h : Hash) (l : List Hash) (hs : Sorted l) : Sorted (insertSorted h l) := by
  unfold Sorted at *
  induction l with
  | nil => simp [insertSorted]
  | cons y ys ih =>
    simp only [insertSorted]
    have hs' := List.pairwise_cons.mp hs
    split
    · rename_i hgt
      have hyh : hle y h := by
        apply hle_of_hlt
        have : bytesCmp h y = .gt := by simpa using hgt
        exact (bytesCmp_gt_iff_lt h y).mp this
      refine List.Pairwise.cons ?_ (ih hs'.2)
      intro x hx
      rcases (mem_insertSorted h x ys).mp hx with rfl | hx
      · exact hyh
      · exact hs'.1 x hx
    · rename_i hgt
      have hhy : hle h y := by simpa [hle] using hgt
      refine List.Pairwise.cons ?_ hs
      intro x hx
      rcases List.mem_cons.mp hx with rfl | hx
      · exact hhy
      · exact hle_trans hhy (hs'.1 x hx)

theorem mem_sortHashes (x : Hash) (l : List Hash) : x ∈ sortHashes l ↔ x ∈ l := by
  induction l with
  | nil => simp [sortHashes]
  | cons y ys ih =>
    have : sortHashes (y :: ys) = insertSorted y (sortHashes ys) := rfl
    rw [this, mem_insertSorted, ih]; simp

theorem countP_sortHashes (q : Hash → Bool) (l : List Hash) : (sortHashes l).countP q = l.countP q := by
  induction l with
  | nil => simp [sortHashes]
  | cons y ys ih =>
    have : sortHashes (y :: ys) = insertSorted y (sortHashes ys) := rfl
    rw [this, countP_insertSorted]; simp only [List.countP_cons, ih]

theorem sorted_sortHashes (l : List Hash) : Sorted (sortHashes l) := by
  induction l with
  | nil => simp [sortHashes, Sorted]
  | cons y ys ih => exact sorted_insertSorted y _ ih

/-! ## lower bounds -/

/-- `p` is the lower-bound position of `b` in `es`: everything before is `< b`, everything from
    `p` on is `≥ b` -/
structure LB (es : List Hash) (b : Hash) (p : Nat) : Prop where
  le : p ≤ es.length
  lo : ∀ i (h : i < es.length), i < p → hlt es[i] b
  hi : ∀ i (h : i < es.length), p ≤ i → ¬ hlt es[i] b

theorem LB_nil (b : Hash) : LB [] b 0 := ⟨Nat.le_refl _, by intro i h; simp at h, by intro i h; simp at h⟩

theorem LB.tail {e : Hash} {es : List Hash} {b : Hash} {k : Nat} (h : LB (e :: es) b (k+1)) :
    LB es b k ∧ hlt e b := by
  refine ⟨⟨?_, ?_, ?_⟩, ?_⟩
  · have := h.le; simp at this; omega
  · intro i hi hik
    have := h.lo (i+1) (by simp; omega) (by omega)
    simpa using this
  · intro i hi hik
    have := h.hi (i+1) (by simp; omega) (by omega)
    simpa using this
  · have := h.lo 0 (by simp) (by omega)
    simpa using this

theorem LB.head_ge {e : Hash} {es : List Hash} {b : Hash} (h : LB (e :: es) b 0) : ¬ hlt e b := by
  have := h.hi 0 (by simp) (Nat.le_refl _)
  simpa using this

/-- in a sorted list the elements satisfying a downward-closed predicate form a prefix -/
theorem prefix_spec (q : Hash → Bool) (hq : ∀ a b, hle a b → q b = true → q a = true)
    (es : List Hash) (hs : Sorted es) :
    ∀ i (h : i < es.length), (i < es.countP q → q es[i] = true) ∧ (es.countP q ≤ i → q es[i] = false) := by
  induction es with
  | nil => intro i h; simp at h
  | cons e es ih =>
    have hs' := List.pairwise_cons.mp hs
    by_cases hqe : q e = true
    · intro i h
      have hc : (e :: es).countP q = es.countP q + 1 := by simp [hqe]
      rw [hc]
      cases i with
      | zero => simp [hqe]
      | succ j =>
        have hj : j < es.length := by simpa using h
        have := ih hs'.2 j hj
        simp only [List.getElem_cons_succ]
        exact ⟨fun h1 => this.1 (by omega), fun h1 => this.2 (by omega)⟩
    · have hall : ∀ x ∈ es, ¬ q x = true := by
        intro x hx hqx
        exact hqe (hq e x (hs'.1 x hx) hqx)
      have hc0 : es.countP q = 0 := List.countP_eq_zero.mpr hall
      have hc : (e :: es).countP q = 0 := by simp [hqe, hc0]
      rw [hc]
      intro i h
      refine ⟨fun h1 => absurd h1 (Nat.not_lt_zero _), fun _ => ?_⟩
      cases i with
      | zero => simpa using hqe
      | succ j =>
        have hj : j < es.length := by simpa using h
        simp only [List.getElem_cons_succ]
        have := hall es[j] (List.getElem_mem hj)
        simpa using this

/-- the bucket computation of `insertIndex`, on the entry list alone -/
theorem bucket_search_LB (es : List Hash) (hs : Sorted es) (b : Hash) :
    es.countP (fun h => decide (firstByte h < firstByte b)) ≤ es.countP (fun h => decide (firstByte h ≤ firstByte b)) ∧
    es.countP (fun h => decide (firstByte h ≤ firstByte b)) ≤ es.length ∧
    (es.countP (fun h => decide (firstByte h < firstByte b)) = es.countP (fun h => decide (firstByte h ≤ firstByte b)) →
      LB es b (es.countP (fun h => decide (firstByte h < firstByte b)))) ∧
    (es.countP (fun h => decide (firstByte h < firstByte b)) ≠ es.countP (fun h => decide (firstByte h ≤ firstByte b)) →
      LB es b (es.countP (fun h => decide (firstByte h < firstByte b)) +
        search (es.countP (fun h => decide (firstByte h ≤ firstByte b)) - es.countP (fun h => decide (firstByte h < firstByte b)))
          (fun pos => match es[es.countP (fun h => decide (firstByte h < firstByte b)) + pos]? with
            | some h => hashGe h b
            | none => true))) := by
  generalize hS : es.countP (fun h => decide (firstByte h < firstByte b)) = S
  generalize hE : es.countP (fun h => decide (firstByte h ≤ firstByte b)) = E
  have hSE : S ≤ E := by
    rw [← hS, ← hE]; apply List.countP_mono_left
    intro x _ hx; simp at hx ⊢; omega
  have hEl : E ≤ es.length := by rw [← hE]; exact List.countP_le_length
  have pS := prefix_spec (fun h => decide (firstByte h < firstByte b))
    (by intro a c hac hc; have := firstByte_mono hac; simp at hc ⊢; omega) es hs
  have pE := prefix_spec (fun h => decide (firstByte h ≤ firstByte b))
    (by intro a c hac hc; have := firstByte_mono hac; simp at hc ⊢; omega) es hs
  rw [hS] at pS
  rw [hE] at pE
  have A : ∀ i (h : i < es.length), i < S → hlt es[i] b := by
    intro i h hi
    have := (pS i h).1 hi
    exact hlt_of_firstByte_lt (by simpa using this)
  have C : ∀ i (h : i < es.length), i < E → firstByte es[i] ≤ firstByte b := by
    intro i h hi
    have := (pE i h).1 hi
    simpa using this
  have D : ∀ i (h : i < es.length), E ≤ i → ¬ hlt es[i] b := by
    intro i h hi hl
    have := (pE i h).2 hi
    have h2 : hlt b es[i] := hlt_of_firstByte_lt (by simp at this; omega)
    exact bytesCmp_lt_asymm hl h2
  refine ⟨hSE, hEl, ?_, ?_⟩
  · intro heq
    exact ⟨by omega, A, fun i h hi => D i h (by omega)⟩
  · intro hne
    have hlt' : S < E := by omega
    generalize hg : (fun pos => match es[S + pos]? with
            | some h => hashGe h b
            | none => true) = g
    have g_eval : ∀ k (h : S + k < es.length), g k = hashGe es[S + k] b := by
      intro k h; rw [← hg]; simp [h]
    have mono : ∀ a c, a ≤ c → c < E - S → g a = true → g c = true := by
      intro a c hac hc hga
      have hc' : S + c < es.length := by omega
      have ha' : S + a < es.length := by omega
      rw [g_eval c hc']
      rw [g_eval a ha'] at hga
      rw [hashGe_iff] at hga ⊢
      by_cases hac' : a = c
      · subst hac'; exact hga
      · have hle' : hle es[S + a] es[S + c] :=
          List.pairwise_iff_getElem.mp hs (S + a) (S + c) ha' hc' (by omega)
        intro hcb
        exact hga (hle_hlt_trans hle' hcb)
    obtain ⟨r_le, r_lo, r_hi⟩ := search_spec g (E - S) mono
    refine ⟨by omega, ?_, ?_⟩
    · intro i h hi
      by_cases hiS : i < S
      · exact A i h hiS
      · obtain ⟨k, rfl⟩ := Nat.exists_eq_add_of_le (Nat.le_of_not_lt hiS)
        have := r_lo k (by omega)
        rw [g_eval k h] at this
        exact (hashGe_false_iff _ _).mp this
    · intro i h hi
      by_cases hiE : E ≤ i
      · exact D i h hiE
      · obtain ⟨k, rfl⟩ := Nat.exists_eq_add_of_le (show S ≤ i by omega)
        have := r_hi k (by omega) (by omega)
        rw [g_eval k h] at this
        exact (hashGe_iff _ _).mp this

/-! ## `insertIndex` on a file satisfying the invariant -/

theorem fanoutOk_length {f : HSFile} (h : fanoutOk f = true) : f.fanout.length = 256 := by
  unfold fanoutOk at h
  simp only [Bool.and_eq_true, beq_iff_eq] at h
  exact h.1

theorem fanoutOk_get {f : HSFile} (h : fanoutOk f = true) (k : Nat) (hk : k < 256) :
    f.fanout[k]? = some (f.entries.countP (fun h => decide (firstByte h ≤ k))) := by
  have hlen := fanoutOk_length h
  unfold fanoutOk at h
  simp only [Bool.and_eq_true, List.all_eq_true] at h
  have hk' : k < f.fanout.length := by omega
  have hmem : (f.fanout[k], k) ∈ f.fanout.zipIdx := by
    rw [List.mem_zipIdx_iff_getElem?]; simp [hk']
  have := h.2 _ hmem
  simp only [beq_iff_eq] at this
  rw [List.getElem?_eq_getElem hk', this, List.countP_eq_length_filter]

theorem hsInv_cases {f : HSFile} (h : hsInv f = true) :
    (f.fanout = [] ∧ f.entries = []) ∨ (f.fanout ≠ [] ∧ Sorted f.entries ∧ fanoutOk f = true) := by
  unfold hsInv at h
  simp only [Bool.or_eq_true, Bool.and_eq_true, List.isEmpty_iff] at h
  rcases h with h | h
  · exact Or.inl h
  · right
    refine ⟨?_, (sortedHashes_iff _).mp h.1, h.2⟩
    intro he
    have := fanoutOk_length h.2
    rw [he] at this; simp at this

theorem insertIndex_spec (f : HSFile) (hinv : hsInv f = true) (b : Hash) :
    ∃ p, insertIndex f b = .ok p ∧ LB f.entries b p := by
  rcases hsInv_cases hinv with ⟨hf, he⟩ | ⟨hf, hs, hfo⟩
  · refine ⟨0, by simp [insertIndex, hf], ?_⟩
    rw [he]; exact LB_nil b
  · have hne : f.fanout.isEmpty = false := by simpa using hf
    have hb0 := firstByte_lt_256 b
    have hstart : (if firstByte b > 0 then (f.fanout[firstByte b - 1]?).getD 0 else 0)
        = f.entries.countP (fun h => decide (firstByte h < firstByte b)) := by
      split
      · rename_i hpos
        rw [fanoutOk_get hfo _ (by omega)]
        simp only [Option.getD_some]
        congr 1; funext h; simp; omega
      · rename_i hpos
        have : firstByte b = 0 := by omega
        rw [this]; simp
    have hend : (f.fanout[firstByte b]?).getD 0
        = f.entries.countP (fun h => decide (firstByte h ≤ firstByte b)) := by
      rw [fanoutOk_get hfo _ hb0]; rfl
    obtain ⟨hSE, hEl, heq, hne'⟩ := bucket_search_LB f.entries hs b
    unfold insertIndex
    simp only [hne, Bool.false_eq_true, ↓reduceIte, hstart, hend]
    by_cases hc : f.entries.countP (fun h => decide (firstByte h < firstByte b))
        = f.entries.countP (fun h => decide (firstByte h ≤ firstByte b))
    · refine ⟨_, ?_, heq hc⟩
      simp [hc]
    · refine ⟨_, ?_, hne' hc⟩
      have h1 : ¬ (f.entries.countP (fun h => decide (firstByte h ≤ firstByte b))
          < f.entries.countP (fun h => decide (firstByte h < firstByte b))) := by omega
      have h2 : ¬ (f.entries.countP (fun h => decide (firstByte h ≤ firstByte b)) > f.entries.length) := by omega
      simp [hc, h1, h2]
      rfl

theorem offsetsOf_spec (f : HSFile) (hinv : hsInv f = true) (bs : List Hash) :
    ∃ offs, offsetsOf f bs = .ok offs ∧ offs.map (·.2) = bs ∧
      ∀ x ∈ offs, LB f.entries x.2 x.1 := by
  induction bs with
  | nil => exact ⟨[], rfl, rfl, by simp⟩
  | cons b bs ih =>
    obtain ⟨offs, h1, h2, h3⟩ := ih
    obtain ⟨p, hp, hlb⟩ := insertIndex_spec f hinv b
    refine ⟨(p, b) :: offs, ?_, ?_, ?_⟩
    · simp [offsetsOf, hp, h1]
    · simp [h2]
    · intro x hx
      rcases List.mem_cons.mp hx with rfl | hx
      · exact hlb
      · exact h3 x hx

/-- with a lower-bound position, membership is decided by the entry at that position -/
theorem LB_mem_iff {es : List Hash} (hs : Sorted es) {b : Hash} {p : Nat} (hlb : LB es b p) :
    b ∈ es ↔ es[p]? = some b := by
  constructor
  · intro hb
    obtain ⟨i, hi, rfl⟩ := List.mem_iff_getElem.mp hb
    by_cases hip : i < p
    · exact absurd (hlb.lo i hi hip) (hlt_irrefl _)
    · have hp : p < es.length := by omega
      rw [List.getElem?_eq_getElem hp]
      congr 1
      by_cases hpi : p = i
      · subst hpi; rfl
      · have h1 : hle es[p] es[i] := List.pairwise_iff_getElem.mp hs p i hp hi (by omega)
        have h2 : hle es[i] es[p] := (hle_iff_not_hlt _ _).mpr (hlb.hi p hp (Nat.le_refl _))
        exact hle_antisymm h1 h2
  · intro h
    exact List.mem_of_getElem? h

theorem indexOf_spec (f : HSFile) (hinv : hsInv f = true) (b : Hash) :
    ∃ r, indexOf f b = .ok r ∧ (r.isSome = true ↔ b ∈ f.entries) := by
  obtain ⟨p, hp, hlb⟩ := insertIndex_spec f hinv b
  have hs : Sorted f.entries := by
    rcases hsInv_cases hinv with ⟨_, he⟩ | ⟨_, hs, _⟩
    · rw [he]; exact List.Pairwise.nil
    · exact hs
  have hmem := LB_mem_iff hs hlb
  simp only [indexOf, hp]
  cases hget : f.entries[p]? with
  | none =>
    refine ⟨none, rfl, ?_⟩
    rw [hmem, hget]; simp
  | some h =>
    by_cases hhb : h = b
    · subst hhb
      refine ⟨some p, by simp, ?_⟩
      rw [hmem, hget]; simp
    · refine ⟨none, by simp [hhb], ?_⟩
      rw [hmem, hget]; simp [hhb]

/-! ## `mergeAt` -/

theorem mem_mergeAt (offs : List (Nat × Hash)) (x : Hash) :
    ∀ (es : List Hash) (o : Nat), x ∈ mergeAt offs o es ↔ x ∈ es ∨ ∃ p, o ≤ p ∧ (p, x) ∈ offs := by
  intro es
  induction es with
  | nil =>
    intro o
    simp only [mergeAt, mem_sortHashes, List.mem_map, List.mem_filter, List.not_mem_nil, false_or]
    constructor
    · rintro ⟨⟨p, y⟩, ⟨hm, hp⟩, rfl⟩
      exact ⟨p, by simpa using hp, hm⟩
    · rintro ⟨p, hp, hm⟩
      exact ⟨(p, x), ⟨hm, by simpa using hp⟩, rfl⟩
  | cons e es ih =>
    intro o
    simp only [mergeAt, List.mem_append, List.mem_cons, mem_sortHashes, ih, List.mem_map, List.mem_filter]
    constructor
    · rintro (⟨⟨p, y⟩, ⟨hm, hp⟩, rfl⟩ | rfl | h | ⟨p, hp, hm⟩)
      · right; exact ⟨p, by simp at hp; omega, hm⟩
      · left; left; rfl
      · left; right; exact h
      · right; exact ⟨p, by omega, hm⟩
    · rintro ((rfl | h) | ⟨p, hp, hm⟩)
      · right; left; rfl
      · right; right; left; exact h
      · by_cases hpo : p = o
        · left; exact ⟨(p, x), ⟨hm, by simp [hpo]⟩, rfl⟩
        · right; right; right; exact ⟨p, by omega, hm⟩

theorem countP_split (q : Hash → Bool) (o : Nat) (offs : List (Nat × Hash)) :
    ((offs.filter (fun p => p.1 == o)).map (·.2)).countP q +
      ((offs.filter (fun p => decide (p.1 ≥ o + 1))).map (·.2)).countP q =
    ((offs.filter (fun p => decide (p.1 ≥ o))).map (·.2)).countP q := by
  induction offs with
  | nil => simp
  | cons x xs ih =>
    simp only [List.filter_cons]
    by_cases h1 : x.1 = o
    · have h2 : ¬ (x.1 ≥ o + 1) := by omega
      have h3 : x.1 ≥ o := by omega
      simp only [h1, beq_self_eq_true, ↓reduceIte, List.map_cons, List.countP_cons] at ih ⊢
      simp only [show ¬ (o ≥ o + 1) by omega, decide_false, Bool.false_eq_true, ↓reduceIte,
        Nat.le_refl, decide_true, List.map_cons, List.countP_cons]
      omega
    · by_cases h2 : x.1 ≥ o + 1
      · have h3 : x.1 ≥ o := by omega
        simp only [beq_iff_eq, h1, ↓reduceIte, h2, decide_true, h3, List.map_cons, List.countP_cons] at ih ⊢
        omega
      · have h3 : ¬ x.1 ≥ o := by omega
        simp only [beq_iff_eq, h1, ↓reduceIte, h2, decide_false, h3, Bool.false_eq_true] at ih ⊢
        omega

theorem countP_mergeAt (q : Hash → Bool) (offs : List (Nat × Hash)) :
    ∀ (es : List Hash) (o : Nat), (mergeAt offs o es).countP q =
      es.countP q + ((offs.filter (fun p => decide (p.1 ≥ o))).map (·.2)).countP q := by
  intro es
  induction es with
  | nil => intro o; simp [mergeAt, countP_sortHashes]
  | cons e es ih =>
    intro o
    simp only [mergeAt, List.countP_append, List.countP_cons, countP_sortHashes, ih]
    have := countP_split q o offs
    omega

theorem sorted_mergeAt (offs : List (Nat × Hash)) :
    ∀ (es : List Hash) (o : Nat), Sorted es → (∀ x ∈ offs, o ≤ x.1 → LB es x.2 (x.1 - o)) →
      Sorted (mergeAt offs o es) := by
  intro es
  induction es with
  | nil => intro o _ _; exact sorted_sortHashes _
  | cons e es ih =>
    intro o hs H
    have hs' := List.pairwise_cons.mp hs
    have H' : ∀ x ∈ offs, o + 1 ≤ x.1 → LB es x.2 (x.1 - (o + 1)) ∧ hlt e x.2 := by
      intro x hx hox
      have := H x hx (by omega)
      rw [show x.1 - o = (x.1 - (o + 1)) + 1 by omega] at this
      exact this.tail
    have hge : ∀ a ∈ sortHashes ((offs.filter (fun p => p.1 == o)).map (·.2)), hle a e := by
      intro a ha
      rw [mem_sortHashes] at ha
      simp only [List.mem_map, List.mem_filter] at ha
      obtain ⟨x, ⟨hx, hxo⟩, rfl⟩ := ha
      have hxo' : x.1 = o := by simpa using hxo
      have := H x hx (by omega)
      rw [hxo', Nat.sub_self] at this
      exact (hle_iff_not_hlt _ _).mpr this.head_ge
    have hrest : ∀ y ∈ mergeAt offs (o + 1) es, hle e y := by
      intro y hy
      rcases (mem_mergeAt offs y es (o + 1)).mp hy with h | ⟨p, hp, hm⟩
      · exact hs'.1 y h
      · exact hle_of_hlt (H' (p, y) hm hp).2
    have ihs := ih (o + 1) hs'.2 (fun x hx hox => (H' x hx hox).1)
    show Sorted (sortHashes ((offs.filter (fun p => p.1 == o)).map (·.2)) ++ e :: mergeAt offs (o + 1) es)
    unfold Sorted
    rw [List.pairwise_append]
    refine ⟨sorted_sortHashes _, List.Pairwise.cons hrest ihs, ?_⟩
    intro a ha b hb
    rcases List.mem_cons.mp hb with rfl | hb
    · exact hge a ha
    · exact hle_trans (hge a ha) (hrest b hb)

/-! ## `addToFanout` -/

theorem addToFanout_cons (fan : List Nat) (h : Hash) (hs : List Hash) :
    addToFanout fan (h :: hs) =
      addToFanout ((fan.zipIdx).map (fun (c, k) => if k ≥ firstByte h then c + 1 else c)) hs := rfl

theorem addToFanout_length (hs : List Hash) : ∀ fan, (addToFanout fan hs).length = fan.length := by
  induction hs with
  | nil => intro fan; rfl
  | cons h hs ih => intro fan; rw [addToFanout_cons, ih]; simp

theorem addToFanout_get (hs : List Hash) : ∀ (fan : List Nat) (k : Nat),
    (addToFanout fan hs)[k]? = fan[k]?.map (· + hs.countP (fun h => decide (firstByte h ≤ k))) := by
  induction hs with
  | nil => intro fan k; simp [addToFanout]
  | cons h hs ih =>
    intro fan k
    rw [addToFanout_cons, ih]
    simp only [List.getElem?_map, List.getElem?_zipIdx, List.countP_cons]
    cases fan[k]? with
    | none => simp
    | some c =>
      simp only [Option.map_some, Nat.zero_add, decide_eq_true_eq]
      congr 1
      by_cases hk : firstByte h ≤ k
      · simp [hk]; omega
      · simp [hk]

/-! ## the file written by `Flush` -/

theorem fanoutOk_of_get (f : HSFile) (hlen : f.fanout.length = 256)
    (h : ∀ k, k < 256 → f.fanout[k]? = some (f.entries.countP (fun h => decide (firstByte h ≤ k)))) :
    fanoutOk f = true := by
  unfold fanoutOk
  simp only [Bool.and_eq_true, beq_iff_eq, List.all_eq_true]
  refine ⟨hlen, ?_⟩
  rintro ⟨c, k⟩ hm
  rw [List.mem_zipIdx_iff_getElem?] at hm
  simp only at hm
  have hk : k < 256 := by
    rw [← hlen]
    exact (List.getElem?_eq_some_iff.mp hm).1
  rw [h k hk] at hm
  simp only [Option.some.injEq] at hm
  rw [← hm, List.countP_eq_length_filter]

theorem sorted_of_hsInv {f : HSFile} (h : hsInv f = true) : Sorted f.entries := by
  rcases hsInv_cases h with ⟨_, he⟩ | ⟨_, hs, _⟩
  · rw [he]; exact List.Pairwise.nil
  · exact hs

/-- the in-memory fan-out table of a coherent handle counts the file's entries -/
theorem memFanout_get {f : HSFile} (hinv : hsInv f = true) (k : Nat) (hk : k < 256) :
    (if f.fanout.isEmpty then zeros256 else f.fanout)[k]? =
      some (f.entries.countP (fun h => decide (firstByte h ≤ k))) := by
  rcases hsInv_cases hinv with ⟨hf, he⟩ | ⟨hf, _, hfo⟩
  · simp only [hf, he, List.isEmpty_nil, ↓reduceIte, zeros256, List.getElem?_replicate, hk,
      List.countP_nil]
  · have : f.fanout.isEmpty = false := by simpa using hf
    simp only [this, Bool.false_eq_true, ↓reduceIte]
    exact fanoutOk_get hfo k hk

theorem memFanout_length {f : HSFile} (hinv : hsInv f = true) :
    (if f.fanout.isEmpty then zeros256 else f.fanout).length = 256 := by
  rcases hsInv_cases hinv with ⟨hf, _⟩ | ⟨hf, _, hfo⟩
  · simp only [hf, List.isEmpty_nil, ↓reduceIte, zeros256, List.length_replicate]
  · have : f.fanout.isEmpty = false := by simpa using hf
    simp only [this, Bool.false_eq_true, ↓reduceIte]
    exact fanoutOk_length hfo

theorem flush_file_inv (f : HSFile) (hinv : hsInv f = true) (batch : List Hash)
    (offs : List (Nat × Hash)) (hmap : offs.map (·.2) = batch)
    (hlb : ∀ x ∈ offs, LB f.entries x.2 x.1) :
    hsInv { fanout := addToFanout (if f.fanout.isEmpty then zeros256 else f.fanout) batch,
            entries := mergeAt offs 0 f.entries } = true ∧
    addToFanout (if f.fanout.isEmpty then zeros256 else f.fanout) batch ≠ [] := by
  have hlen : (addToFanout (if f.fanout.isEmpty then zeros256 else f.fanout) batch).length = 256 := by
    rw [addToFanout_length, memFanout_length hinv]
  refine ⟨?_, ?_⟩
  · unfold hsInv
    simp only [Bool.or_eq_true, Bool.and_eq_true]
    right
    refine ⟨(sortedHashes_iff _).mpr ?_, fanoutOk_of_get _ hlen ?_⟩
    · apply sorted_mergeAt offs f.entries 0 (sorted_of_hsInv hinv)
      intro x hx _
      exact hlb x hx
    · intro k hk
      simp only
      rw [addToFanout_get, memFanout_get hinv k hk, countP_mergeAt]
      have hall : offs.filter (fun p => decide (p.1 ≥ 0)) = offs :=
        List.filter_eq_self.mpr (fun _ _ => by simp)
      rw [hall, hmap]
      rfl
  · intro h
    rw [h] at hlen
    simp at hlen

end C20
end Wrgl
