/-
C05, table level: findByKey / allKeys facts, uniqueness of the sorted result, the laws of `mergeKey`
used by `mergeSpec_identity` / `mergeSpec_idempotent`.
-/
import WrglModel.Lemmas.C05Res
namespace Wrgl.C05Aux
open Wrgl.KeyOrder

/-! ### findByKey, allKeys -/

theorem findByKey_some {pk : List Nat} {t : List Row} {k : List Bytes} {r : Row}
    (h : findByKey pk t k = some r) : r ∈ t ∧ keyOf pk r = k := by
  unfold findByKey at h
  refine ⟨List.mem_of_find?_eq_some h, ?_⟩
  have := List.find?_some h
  simpa using this

theorem findByKey_none {pk : List Nat} {t : List Row} {k : List Bytes} :
    findByKey pk t k = none ↔ ∀ r ∈ t, keyOf pk r ≠ k := by
  unfold findByKey
  rw [List.find?_eq_none]
  simp

theorem findByKey_mem {pk : List Nat} {t : List Row}
    (hk : t.Pairwise (fun a b => keyOf pk a ≠ keyOf pk b)) {r : Row} (hr : r ∈ t) :
    findByKey pk t (keyOf pk r) = some r := by
  cases h : findByKey pk t (keyOf pk r) with
  | none => exact absurd rfl (findByKey_none.1 h r hr)
  | some r' =>
    obtain ⟨h1, h2⟩ := findByKey_some h
    rw [SorterAux.eq_of_pairwise_ne (keyOf pk) t hk r' h1 r hr h2]

theorem allKeys_nodup (pk : List Nat) (base : List Row) (branches : List (List Row)) :
    (allKeys pk base branches).Nodup := nodup_eraseDups _ _ (Nat.le_refl _)

theorem mem_allKeys {pk : List Nat} {base : List Row} {branches : List (List Row)} {k : List Bytes} :
    k ∈ allKeys pk base branches ↔ ∃ t ∈ base :: branches, ∃ r ∈ t, keyOf pk r = k := by
  unfold allKeys
  rw [List.mem_eraseDups, List.mem_map]
  simp only [List.mem_flatten]
  constructor
  · rintro ⟨r, ⟨t, ht, hr⟩, e⟩; exact ⟨t, ht, r, hr, e⟩
  · rintro ⟨t, ht, r, hr, e⟩; exact ⟨r, ⟨t, ht, hr⟩, e⟩

/-! ### uniqueness of the sorted, de-duplicated result -/

theorem dedupAdj_id (pk : List Nat) : ∀ (l : List Row) (prev : Option (List Bytes)),
    l.Pairwise (fun a b => keyOf pk a ≠ keyOf pk b) →
    (∀ k, prev = some k → ∀ r ∈ l, keyOf pk r ≠ k) → dedupAdj pk prev l = l := by
  intro l
  induction l with
  | nil => intro prev _ _; rfl
  | cons r rs ih =>
    intro prev hp hprev
    obtain ⟨h1, h2⟩ := List.pairwise_cons.1 hp
    simp only [dedupAdj]
    have hb : (prev == some (keyOf pk r)) = false := by
      rw [Bool.eq_false_iff]
      intro e
      rw [beq_iff_eq] at e
      exact hprev _ e r List.mem_cons_self rfl
    rw [hb]
    simp only [Bool.false_eq_true, if_false]
    congr 1
    apply ih _ h2
    intro k hk x hx
    injection hk with hk
    subst hk
    exact fun e => h1 x hx e.symm

theorem sorted_strict (sortFn : List Row → List Row) (pk : List Nat) (hs : IsSort pk sortFn) (L : List Row)
    (p : L.Pairwise (fun a b => keyOf pk a ≠ keyOf pk b)) :
    (sortFn L).Pairwise (fun a b => keyOf pk a ≠ keyOf pk b) ∧
    (sortFn L).Pairwise (fun a b => keyCmp (keyOf pk a) (keyOf pk b) = .lt) := by
  have hne : (sortFn L).Pairwise (fun a b => keyOf pk a ≠ keyOf pk b) :=
    (hs.perm L).symm.pairwise p (fun h e => h e.symm)
  refine ⟨hne, ?_⟩
  have hsd := hs.sorted L
  have hboth := hne.and hsd
  refine hboth.imp ?_
  intro a b ⟨h1, h2⟩
  exact keyCmp_good.lt_of_not_gt_of_ne _ _ ((rowLt_false_iff pk b a).1 h2) h1

theorem sort_unique (sortFn : List Row → List Row) (pk : List Nat) (hs : IsSort pk sortFn) (L1 L2 : List Row)
    (p1 : L1.Pairwise (fun a b => keyOf pk a ≠ keyOf pk b))
    (p2 : L2.Pairwise (fun a b => keyOf pk a ≠ keyOf pk b))
    (hm : ∀ r, r ∈ L1 ↔ r ∈ L2) :
    dedupAdj pk none (sortFn L1) = sortFn L2 := by
  obtain ⟨n1, s1⟩ := sorted_strict sortFn pk hs L1 p1
  obtain ⟨n2, s2⟩ := sorted_strict sortFn pk hs L2 p2
  rw [dedupAdj_id pk _ none n1 (fun k hk => by cases hk)]
  have m12 : ∀ r, r ∈ sortFn L1 ↔ r ∈ sortFn L2 := by
    intro r
    rw [(hs.perm L1).mem_iff, (hs.perm L2).mem_iff]
    exact hm r
  apply SorterAux.asc_unique keyCmp_good (keyOf pk) _ _ s1 s2
  · intro a ha; exact ⟨a, (m12 a).1 ha, rfl⟩
  · intro b hb; exact ⟨b, (m12 b).2 hb, rfl⟩
  · intro a ha b hb e
    exact SorterAux.eq_of_pairwise_ne (keyOf pk) _ n1 a ha b ((m12 b).2 hb) e

/-! ### lists generated from a duplicate-free key list -/

theorem filterMap_keys_pairwise (pk : List Nat) (ks : List (List Bytes)) (hks : ks.Nodup)
    (g : List Bytes → Option Row) (hg : ∀ k r, g k = some r → keyOf pk r = k) :
    (ks.filterMap g).Pairwise (fun a b => keyOf pk a ≠ keyOf pk b) := by
  rw [List.pairwise_filterMap]
  refine List.Pairwise.imp ?_ hks
  intro k k' hne r hr r' hr' e
  apply hne
  rw [← hg k r hr, ← hg k' r' hr', e]

theorem nodup_of_keys (pk : List Nat) (l : List Row)
    (h : l.Pairwise (fun a b => keyOf pk a ≠ keyOf pk b)) : l.Nodup :=
  List.Pairwise.imp (fun hne e => hne (by rw [e])) h

theorem filterMap_find_perm (pk : List Nat) (ks : List (List Bytes)) (hks : ks.Nodup) (x : List Row)
    (hx : x.Pairwise (fun a b => keyOf pk a ≠ keyOf pk b)) (hall : ∀ r ∈ x, keyOf pk r ∈ ks) :
    (ks.filterMap (findByKey pk x)).Perm x := by
  rw [List.perm_ext_iff_of_nodup
    (nodup_of_keys pk _ (filterMap_keys_pairwise pk ks hks _ (fun k r h => (findByKey_some h).2)))
    (nodup_of_keys pk _ hx)]
  intro r
  rw [List.mem_filterMap]
  constructor
  · rintro ⟨k, _, h⟩; exact (findByKey_some h).1
  · intro hr; exact ⟨keyOf pk r, hall r hr, findByKey_mem hx hr⟩

/-! ### a key whose branches either keep the base row or all make the same change -/

def outcomeOf : Option Row → KeyOutcome
  | none => .absent
  | some r => .row r

theorem mergeKey_none_one (n : Nat) (r : Row) (hr : r.length = n) (xs : List (Option Row))
    (h : ∀ o ∈ xs, o = none ∨ o = some r) (hm : some r ∈ xs) : mergeKey n none xs = .row r := by
  have hp : ∀ a ∈ xs.filterMap id, a = r := by
    intro a ha
    simp only [List.mem_filterMap, id] at ha
    obtain ⟨o, ho, e⟩ := ha
    subst e
    rcases h _ ho with e | e
    · cases e
    · injection e
  have hrp : r ∈ xs.filterMap id := by
    simp only [List.mem_filterMap, id]; exact ⟨some r, hm, rfl⟩
  have hne : xs.filterMap id ≠ [] := fun e => by rw [e] at hrp; cases hrp
  have hemp : (xs.filterMap id).isEmpty = false := by
    rw [Bool.eq_false_iff, Ne, List.isEmpty_iff]; exact hne
  have hcells : ∀ i, ∀ c ∈ cellsAt i (xs.filterMap id), c = (r[i]?).getD [] := by
    intro i c hc
    simp only [cellsAt, List.mem_map] at hc
    obtain ⟨a, ha, e⟩ := hc
    rw [← e, hp a ha]
  have hcne : ∀ i, cellsAt i (xs.filterMap id) ≠ [] := by
    intro i; unfold cellsAt; simpa using hne
  rw [mergeKey_none, hemp]
  simp only [Bool.false_eq_true, if_false]
  have hall : (List.range n).all (fun i => (cellsAt i (xs.filterMap id)).eraseDups.length == 1) = true := by
    rw [List.all_eq_true]
    intro i _
    rw [beq_iff_eq, eraseDups_length_eq_one]
    refine ⟨hcne i, ?_⟩
    intro a ha b hb
    rw [hcells i a ha, hcells i b hb]
  rw [if_pos hall]
  congr 1
  refine Eq.trans (List.map_congr_left ?_) (row_rebuild n r hr)
  intro i _
  rw [eraseDups_headD]
  cases hc : cellsAt i (xs.filterMap id) with
  | nil => exact absurd hc (hcne i)
  | cons a as =>
    simp only [List.headD_cons]
    exact hcells i a (by rw [hc]; exact List.mem_cons_self)

theorem mergeKey_follow (n : Nat) (b o : Option Row) (xs : List (Option Row))
    (hb : ∀ r, b = some r → r.length = n) (ho : ∀ r, o = some r → r.length = n)
    (h : ∀ o' ∈ xs, o' = b ∨ o' = o) (hm : o ∈ xs) : mergeKey n b xs = outcomeOf o := by
  cases b with
  | none =>
    cases o with
    | none =>
      have : xs.filterMap id = [] := by
        rw [List.filterMap_eq_nil_iff]
        intro a ha
        rcases h a ha with e | e <;> rw [e] <;> rfl
      rw [mergeKey_none, this]
      rfl
    | some r => exact mergeKey_none_one n r (ho r rfl) xs h hm
  | some br =>
    cases o with
    | none =>
      rw [mergeKey_some]
      have h1 : (xs.filterMap id).all (fun r => r == br) = true := by
        rw [List.all_eq_true]
        intro a ha
        simp only [List.mem_filterMap, id] at ha
        obtain ⟨o', ho', e⟩ := ha
        subst e
        rcases h _ ho' with e | e
        · injection e with e; simp [e]
        · cases e
      have h2 : xs.any Option.isNone = true := List.any_eq_true.2 ⟨none, hm, rfl⟩
      rw [h1, h2]
      rfl
    | some r => exact mergeKey_two_valued n br r (hb br rfl) (ho r rfl) xs h hm


theorem filterMap_congr' {α β : Type} {f g : α → Option β} : ∀ {l : List α}, (∀ a ∈ l, f a = g a) →
    l.filterMap f = l.filterMap g := by
  intro l
  induction l with
  | nil => intro _; rfl
  | cons a t ih =>
    intro h
    rw [List.filterMap_cons, List.filterMap_cons, h a List.mem_cons_self,
      ih (fun b hb => h b (List.mem_cons_of_mem _ hb))]

/-! ### clean form of mergeSpec -/

def specOut (n : Nat) (pk : List Nat) (base : List Row) (branches : List (List Row)) (k : List Bytes) : KeyOutcome :=
  mergeKey n (findByKey pk base k) (branches.map (fun br => findByKey pk br k))

def specRowOf (n : Nat) (pk : List Nat) (base : List Row) (branches : List (List Row)) (k : List Bytes) : Option Row :=
  match specOut n pk base branches k with
  | .row r => some r
  | .conflict => findByKey pk base k
  | .absent => none

theorem mergeSpec_conflictKeys (sortFn : List Row → List Row) (n : Nat) (pk : List Nat) (base : List Row)
    (branches : List (List Row)) :
    (mergeSpec sortFn n pk base branches).conflictKeys =
      (allKeys pk base branches).filterMap (fun k =>
        if specOut n pk base branches k == .conflict then some k else none) := by
  simp only [mergeSpec, List.filterMap_map]
  rfl

theorem mergeSpec_rows (sortFn : List Row → List Row) (n : Nat) (pk : List Nat) (base : List Row)
    (branches : List (List Row)) :
    (mergeSpec sortFn n pk base branches).rows =
      sortFn ((allKeys pk base branches).filterMap (specRowOf n pk base branches)) := by
  simp only [mergeSpec, List.filterMap_map]
  rfl

theorem spec_follow (sortFn : List Row → List Row) (pk : List Nat) (hs : IsSort pk sortFn)
    (n : Nat) (base : List Row) (branches : List (List Row)) (x : List Row)
    (hx : x.Pairwise (fun a b => keyOf pk a ≠ keyOf pk b)) (hmem : x ∈ base :: branches)
    (h : ∀ k ∈ allKeys pk base branches, specOut n pk base branches k = outcomeOf (findByKey pk x k)) :
    (mergeSpec sortFn n pk base branches).conflictKeys = [] ∧
    (mergeSpec sortFn n pk base branches).rows.Perm x := by
  refine ⟨?_, ?_⟩
  · rw [mergeSpec_conflictKeys, List.filterMap_eq_nil_iff]
    intro k hk
    rw [h k hk]
    cases findByKey pk x k <;> rfl
  · rw [mergeSpec_rows]
    refine (hs.perm _).trans ?_
    have : (allKeys pk base branches).filterMap (specRowOf n pk base branches) =
        (allKeys pk base branches).filterMap (findByKey pk x) := by
      apply filterMap_congr'
      intro k hk
      unfold specRowOf
      rw [h k hk]
      cases findByKey pk x k <;> rfl
    rw [this]
    apply filterMap_find_perm pk _ (allKeys_nodup _ _ _) x hx
    intro r hr
    exact mem_allKeys.2 ⟨x, hmem, r, hr, rfl⟩

end Wrgl.C05Aux
