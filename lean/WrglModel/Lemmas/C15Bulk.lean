/-
C15 auxiliary lemmas: the bulk helpers (delete / rename all refs of a remote) and the one-step
simulation. Core Lean only.
-/
import WrglModel.Lemmas.C15Ops
namespace Wrgl
open SqlSt

/-! ### bulk delete -/

theorem foldl_delete_refs (K : List Name) : ∀ (s : SqlSt) (j : Name),
    getL (K.foldl (fun st k => st.delete k) s).refs j = if j ∈ K then none else getL s.refs j := by
  induction K with
  | nil => intro s j; simp
  | cons k K ih =>
    intro s j
    rw [List.foldl_cons, ih]
    show (if j ∈ K then none else getL (s.refs.filter (fun r => r.1 != k)) j) = _
    rw [getL_filter_ne]
    by_cases h1 : j ∈ K
    · simp [h1]
    · by_cases h2 : j = k
      · simp [h2]
      · simp [h1, h2]

theorem foldl_delete_rows (K : List Name) : ∀ (s : SqlSt) (j : Name),
    rowsOf (K.foldl (fun st k => st.delete k) s).logs j = if j ∈ K then [] else rowsOf s.logs j := by
  induction K with
  | nil => intro s j; simp
  | cons k K ih =>
    intro s j
    rw [List.foldl_cons, ih]
    show (if j ∈ K then [] else rowsOf (s.logs.filter (fun l => l.ref != k)) j) = _
    rw [rowsOf_delete]
    by_cases h1 : j ∈ K
    · simp [h1]
    · by_cases h2 : j = k
      · simp [h2]
      · simp [h1, h2]

theorem foldl_delete_nodup (K : List Name) : ∀ (s : SqlSt), (s.refs.map (·.1)).Nodup →
    ((K.foldl (fun st k => st.delete k) s).refs.map (·.1)).Nodup := by
  induction K with
  | nil => intro s h; exact h
  | cons k K ih =>
    intro s h
    rw [List.foldl_cons]
    exact ih _ (nodup_filter_fst h _)

theorem foldl_adel_val (K : List Name) : ∀ (a : ASt) (j : Name),
    (K.foldl (fun st k => (st.setVal k none).setLog k []) a).val j =
      if j ∈ K then none else a.val j := by
  induction K with
  | nil => intro a j; simp
  | cons k K ih =>
    intro a j
    rw [List.foldl_cons, ih, ASt.val_setLog, ASt.val_setVal_none]
    by_cases h1 : j ∈ K
    · simp [h1]
    · by_cases h2 : j = k
      · simp [h2]
      · simp [h1, h2]

theorem foldl_adel_log (K : List Name) : ∀ (a : ASt) (j : Name),
    (K.foldl (fun st k => (st.setVal k none).setLog k []) a).log j =
      if j ∈ K then [] else a.log j := by
  induction K with
  | nil => intro a j; simp
  | cons k K ih =>
    intro a j
    rw [List.foldl_cons, ih, ASt.log_setLog, ASt.log_setVal]
    by_cases h1 : j ∈ K
    · simp [h1]
    · by_cases h2 : j = k
      · simp [h2]
      · simp [h1, h2]

theorem R_bulk_delete {s : SqlSt} {a : ASt} (h : R s a) (K1 K2 : List Name)
    (hK : ∀ j, j ∈ K1 ↔ j ∈ K2) :
    R (K1.foldl (fun st k => st.delete k) s)
      (K2.foldl (fun st k => (st.setVal k none).setLog k []) a) := by
  refine ⟨foldl_delete_nodup K1 s h.nodup, ?_, ?_, ?_, ?_⟩
  · intro j
    rw [foldl_delete_refs, foldl_adel_val, h.vals]
    by_cases hj : j ∈ K1
    · simp [hj, (hK j).1 hj]
    · have hj2 : j ∉ K2 := fun h2 => hj ((hK j).2 h2)
      simp [hj, hj2]
  · intro j
    rw [foldl_delete_rows, foldl_adel_log]
    by_cases hj : j ∈ K1
    · simp [hj, (hK j).1 hj]
    · have hj2 : j ∉ K2 := fun h2 => hj ((hK j).2 h2)
      simp [hj, hj2, h.logs]
  · intro j
    rw [foldl_delete_rows]
    by_cases hj : j ∈ K1
    · simp [hj]
    · simp [hj, h.ords]
  · intro j hj
    rw [foldl_delete_refs] at hj
    rw [foldl_delete_rows]
    by_cases hjk : j ∈ K1
    · simp [hjk]
    · simp only [hjk, if_false] at hj ⊢
      exact h.dom j hj

theorem mem_keys_iff (a : ASt) (f : Name → Bool) (j : Name) :
    j ∈ (sortedPairs a f).map (·.1) ↔ j ∈ a.names.filter f := by
  rw [List.mem_map, List.mem_filter, mem_names_iff]
  constructor
  · rintro ⟨p, hp, rfl⟩
    rw [mem_sortedPairs] at hp
    exact ⟨by rw [hp.2]; simp, hp.1⟩
  · rintro ⟨hv, hf⟩
    cases hv' : a.val j with
    | none => exact absurd hv' hv
    | some v => exact ⟨(j, v), (mem_sortedPairs a f (j, v)).2 ⟨hf, hv'⟩, rfl⟩

/-! ### bulk rename -/

theorem remoteRef_strip (o : String) (k : Name) (hk : hasPrefix (remoteRef o "") k = true) :
    remoteRef o (String.ofList (k.toList.drop (remoteRef o "").length)) = k := by
  unfold hasPrefix at hk
  rw [List.isPrefixOf_iff_prefix] at hk
  rcases hk with ⟨t, ht⟩
  apply String.ext
  rw [← ht, ← String.length_toList]
  rw [List.drop_left]
  simp [remoteRef, String.toList_append]

def cRenStep (oldR newR : String) (acc : SqlSt × Bool) (k : Name) : SqlSt × Bool :=
  if !acc.2 then acc else
  let name := String.ofList (k.toList.drop (remoteRef oldR "").length)
  match acc.1.rename (remoteRef oldR name) (remoteRef newR name) with
  | some st => (st, true)
  | none => (acc.1, false)

def aRenStep (oldR newR : String) (acc : ASt × Bool) (k : Name) : ASt × Bool :=
  if !acc.2 then acc else
  match aRename acc.1 k (remoteRef newR (stripPrefix (remoteRef oldR "") k)) with
  | some st => (st, true)
  | none => (acc.1, false)

theorem renameAll_sim (oldR newR : String) (K : List Name) :
    (∀ k ∈ K, hasPrefix (remoteRef oldR "") k = true) →
    ∀ (s : SqlSt) (a : ASt) (b : Bool), R s a →
      R (K.foldl (cRenStep oldR newR) (s, b)).1 (K.foldl (aRenStep oldR newR) (a, b)).1 ∧
      (K.foldl (cRenStep oldR newR) (s, b)).2 = (K.foldl (aRenStep oldR newR) (a, b)).2 := by
  induction K with
  | nil => intro _ s a b h; exact ⟨h, rfl⟩
  | cons k K ih =>
    intro hK s a b h
    have hK' : ∀ k ∈ K, hasPrefix (remoteRef oldR "") k = true :=
      fun x hx => hK x (List.mem_cons_of_mem _ hx)
    rw [List.foldl_cons, List.foldl_cons]
    cases b with
    | false => exact ih hK' s a false h
    | true =>
      have e := remoteRef_strip oldR k (hK k List.mem_cons_self)
      have hc : cRenStep oldR newR (s, true) k =
          match s.rename k (remoteRef newR (stripPrefix (remoteRef oldR "") k)) with
          | some st => (st, true)
          | none => (s, false) := by
        simp only [cRenStep, Bool.not_true, Bool.false_eq_true, if_false, e]
        rfl
      have ha : aRenStep oldR newR (a, true) k =
          match aRename a k (remoteRef newR (stripPrefix (remoteRef oldR "") k)) with
          | some st => (st, true)
          | none => (a, false) := by
        simp only [aRenStep, Bool.not_true, Bool.false_eq_true, if_false]
      rw [hc, ha]
      rcases rename_sim h k (remoteRef newR (stripPrefix (remoteRef oldR "") k)) with
        ⟨h1, h2⟩ | ⟨s', a', h1, h2, h3⟩
      · rw [h1, h2]; exact ih hK' s a false h
      · rw [h1, h2]; exact ih hK' s' a' true h3

/-! ### one step -/

theorem step_sim {s : SqlSt} {a : ASt} (h : R s a) (op : ROp) :
    (stepC true s op).2 = (stepA a op).2 ∧ R (stepC true s op).1 (stepA a op).1 := by
  cases op with
  | set k v => exact ⟨rfl, R_set h k v⟩
  | setLog k v m => exact ⟨rfl, R_setWithLog h k v m⟩
  | get k => exact ⟨by simp [stepC, stepA, SqlSt.get_eq, h.vals], h⟩
  | del k => exact ⟨rfl, R_delete h k⟩
  | filter ps nps => exact ⟨by simp [stepC, stepA, filter_eq h], h⟩
  | filterKey ps nps => exact ⟨by simp [stepC, stepA, SqlSt.filterKey, filter_eq h], h⟩
  | rename o n =>
    rcases rename_sim h o n with ⟨h1, h2⟩ | ⟨s', a', h1, h2, h3⟩
    · simp only [stepC, stepA, h1, h2]; exact ⟨trivial, h⟩
    · simp only [stepC, stepA, h1, h2]; exact ⟨trivial, h3⟩
  | copy src dst =>
    rcases copy_sim h src dst with ⟨h1, h2⟩ | ⟨v, s', h1, h2, h3, h4⟩
    · simp only [stepC, stepA, h1]
      rcases h2 with h2 | h2
      · rw [h2]; exact ⟨rfl, h⟩
      · cases hv : a.val src with
        | none => exact ⟨rfl, h⟩
        | some v => simp only [h2, if_true]; exact ⟨trivial, h⟩
    · simp only [stepC, stepA, h1, h2, h3, Option.isSome_none, Bool.false_eq_true, if_false]
      exact ⟨trivial, h4⟩
  | log k =>
    refine ⟨?_, h⟩
    simp only [stepC, stepA, readLog_eq h k]
    by_cases he : (a.log k).isEmpty = true
    · simp [he]
    · have he' : (a.log k).isEmpty = false := by simpa using he
      simp only [he', Bool.false_eq_true, if_false]
      rw [List.map_reverse, h.logs]
  | listRefs pfx =>
    refine ⟨?_, h⟩
    simp only [stepC, stepA, listRefs, filter_single h]
    rfl
  | delAllRemote r =>
    refine ⟨rfl, ?_⟩
    simp only [stepC, stepA, deleteAllRemoteRefs, SqlSt.filterKey, filter_single h]
    exact R_bulk_delete h _ _ (mem_keys_iff a _)
  | renameAllRemote o n =>
    have hK : ∀ k ∈ (sortedPairs a (hasPrefix (remoteRef o ""))).map (·.1),
        hasPrefix (remoteRef o "") k = true := by
      intro k hk
      rw [mem_keys_iff, List.mem_filter] at hk
      exact hk.2
    have ec : renameAllRemoteRefs true s o n =
        ((sortedPairs a (hasPrefix (remoteRef o ""))).map (·.1)).foldl (cRenStep o n) (s, true) := by
      simp only [renameAllRemoteRefs, SqlSt.filterKey, filter_single h]
      rfl
    have ea : stepA a (.renameAllRemote o n) =
        ((((sortedPairs a (hasPrefix (remoteRef o ""))).map (·.1)).foldl (aRenStep o n) (a, true)).1,
          if (((sortedPairs a (hasPrefix (remoteRef o ""))).map (·.1)).foldl
            (aRenStep o n) (a, true)).2 then .ok else .err) := rfl
    have ec' : stepC true s (.renameAllRemote o n) =
        match ((sortedPairs a (hasPrefix (remoteRef o ""))).map (·.1)).foldl (cRenStep o n) (s, true) with
        | (s', true) => (s', .ok)
        | (s', false) => (s', .err) := by
      simp only [stepC, ec]
      rfl
    have hsim := renameAll_sim o n _ hK s a true h
    rw [ea, ec']
    generalize ((sortedPairs a (hasPrefix (remoteRef o ""))).map (·.1)).foldl (cRenStep o n) (s, true) = rc at hsim ⊢
    generalize ((sortedPairs a (hasPrefix (remoteRef o ""))).map (·.1)).foldl (aRenStep o n) (a, true) = ra at hsim ⊢
    rcases rc with ⟨s', b⟩
    rcases ra with ⟨a', b'⟩
    simp only at hsim
    rcases hsim with ⟨h1, h2⟩
    subst h2
    cases b with
    | true => exact ⟨rfl, h1⟩
    | false => exact ⟨rfl, h1⟩

end Wrgl
