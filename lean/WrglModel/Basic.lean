def hello := "world"
