import WrglModel.Props.C07
#print axioms Wrgl.C07_packfiles_exact
#print axioms Wrgl.C07_sender_order
#print axioms Wrgl.C07_transfer_exact
#print axioms Wrgl.C07_no_orphan_commit
