import WrglModel.Props.C07
#print axioms Wrgl.C07_placeholder
