import WrglModel.Props.C14
#print axioms Wrgl.C14_fact_commitGuarded
#print axioms Wrgl.C14_fact_discardGuardFirst
#print axioms Wrgl.C14_fact_writeOrder
#print axioms Wrgl.C14_all_or_completable
#print axioms Wrgl.C14_interrupted_state
#print axioms Wrgl.C14_committed_is_final
#print axioms Wrgl.C14_discard_frame
#print axioms Wrgl.C14_unguarded_double_commit
#print axioms Wrgl.C14_unguarded_discard_side_effect
#print axioms Wrgl.C14_discard_fault
#print axioms Wrgl.C14_completable_across_advances
#print axioms Wrgl.C14_rerun_keeps_moved_branch
#print axioms Wrgl.C14_advance_frame
