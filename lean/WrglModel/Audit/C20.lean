import WrglModel.Props.C20
#print axioms Wrgl.C20_membership
#print axioms Wrgl.C20_flush_inv
#print axioms Wrgl.C20_has_exact
