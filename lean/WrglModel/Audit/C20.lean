import WrglModel.Props.C20
#print axioms Wrgl.C20_placeholder
