import WrglModel.Props.C20
#print axioms Wrgl.C20_membership
#print axioms Wrgl.C20_flush_inv
#print axioms Wrgl.C20_has_exact
#print axioms Wrgl.sortedHashes_eq_TR
#print axioms Wrgl.fanoutOk_eq_C
