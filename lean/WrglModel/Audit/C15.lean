import WrglModel.Props.C15
#print axioms Wrgl.C15_fact_literalPrefix
#print axioms Wrgl.C15_refines
#print axioms Wrgl.C15_like_is_not_prefix
#print axioms Wrgl.C15_fact_remotePrefixBoundary
