import WrglModel.Props.C15
#print axioms Wrgl.C15_fact_literalPrefix
#print axioms Wrgl.C15_refines
#print axioms Wrgl.C15_like_is_not_prefix
#print axioms Wrgl.C15_fact_remotePrefixBoundary
#print axioms Wrgl.C15_fs_same_elsewhere
#print axioms Wrgl.C15_fs_conservative
#print axioms Wrgl.C15_fs_rename_replaces
#print axioms Wrgl.C15_fs_copy_replaces
