import WrglModel.Props.C15
#print axioms Wrgl.C15_placeholder
