import WrglModel.Props.C19
#print axioms Wrgl.C19_fact_blockSize
#print axioms Wrgl.C19_fact_addRowGuard
#print axioms Wrgl.C19_kept_spec
#print axioms Wrgl.C19_outputs_agree
#print axioms Wrgl.C19_block_cut
#print axioms Wrgl.C19_config_independent
#print axioms Wrgl.C19_addRows_total
#print axioms Wrgl.C19_reuse_history_independent
#print axioms Wrgl.C19_reuse_kept_spec
#print axioms Wrgl.C19_failed_spill_keeps_rows
#print axioms Wrgl.C19_no_fault_is_addRows
#print axioms Wrgl.C19_keyless_key_is_all_columns
#print axioms Wrgl.C19_narrower_index_list_collapses_rows
#print axioms Wrgl.C19_reuse_keyless_keeps_every_row
