import WrglModel.Props.C01
#print axioms Wrgl.C01_fact_blockSize
#print axioms Wrgl.C01_fact_addRowGuard
#print axioms Wrgl.C01_fact_sortFileChecksAddRow
#print axioms Wrgl.C01_fact_encodeGuard
#print axioms Wrgl.C01_fact_offsetWide
#print axioms Wrgl.C01_keys_exact
#print axioms Wrgl.C01_unique_exact
#print axioms Wrgl.C01_overlimit_refused
#print axioms Wrgl.C01_config_independent
#print axioms Wrgl.C01_row_roundtrip
#print axioms Wrgl.C01_key_order_is_not_a_flattened_order
