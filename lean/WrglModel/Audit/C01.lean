import WrglModel.Props.C01
#print axioms Wrgl.C01_placeholder
