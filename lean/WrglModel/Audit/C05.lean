import WrglModel.Props.C05
#print axioms Wrgl.C05_placeholder
