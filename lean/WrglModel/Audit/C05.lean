import WrglModel.Props.C05
#print axioms Wrgl.C05_resolveCell_spec
#print axioms Wrgl.C05_model_meets_spec_partial
#print axioms Wrgl.C05_identity
#print axioms Wrgl.C05_idempotent
#print axioms Wrgl.C05_order_independent
#print axioms Wrgl.C05_conflict_reported
#print axioms Wrgl.C05_disjoint_no_conflict
#print axioms Wrgl.C05_cols_model_extends_same
#print axioms Wrgl.C05_unresolve_table_is_model
#print axioms Wrgl.C05_tryResolve_cell_is_cellFold
#print axioms Wrgl.C05_base_column_rule
#print axioms Wrgl.C05_added_column_rule
#print axioms Wrgl.C05_merge_base_spec
#print axioms Wrgl.C05_merge_base_reaches_every_head
