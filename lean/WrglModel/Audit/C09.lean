import WrglModel.Props.C09
#print axioms Wrgl.C09_selection_closed
#print axioms Wrgl.C09_list_acceptable
#print axioms Wrgl.C09_transfer_closed
#print axioms Wrgl.C09_any_packfile_size
#print axioms Wrgl.C09_repeat_lists_nothing
#print axioms Wrgl.C09_tables_within_depth
#print axioms Wrgl.C09_transfer_closed_multi
#print axioms Wrgl.C09_fact_fetchRetryResetsCookies
#print axioms Wrgl.C09_interrupted_commit_has_table
#print axioms Wrgl.C09_deferred_tables_unsafe
