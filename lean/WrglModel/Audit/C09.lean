import WrglModel.Props.C09
#print axioms Wrgl.C09_placeholder
