import WrglModel.Props.C06
#print axioms Wrgl.C06_fact_maxCell
#print axioms Wrgl.C06_fact_offsetWide
#print axioms Wrgl.C06_fact_writeStringGuard
#print axioms Wrgl.C06_fact_writeTimeGuard
#print axioms Wrgl.C06_fact_hdrBitsExact
#print axioms Wrgl.C06_strList_roundtrip
#print axioms Wrgl.C06_strList_refuses_overlimit
#print axioms Wrgl.C06_strList_injective
#print axioms Wrgl.C06_block_roundtrip
#print axioms Wrgl.C06_block_injective
#print axioms Wrgl.C06_table_roundtrip
#print axioms Wrgl.C06_commit_roundtrip
#print axioms Wrgl.C06_commit_overlimit_rejected
#print axioms Wrgl.C06_time_roundtrip
#print axioms Wrgl.C06_time_out_of_range_refused
#print axioms Wrgl.C06_packHeader_roundtrip
#print axioms Wrgl.C06_save_key_is_hash
