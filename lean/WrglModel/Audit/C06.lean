import WrglModel.Props.C06
#print axioms Wrgl.C06_placeholder
