import WrglModel.Props.C17
#print axioms Wrgl.C17_placeholder
