import WrglModel.Props.C17
#print axioms Wrgl.C17_decoders_never_panic
#print axioms Wrgl.C17_packfile_reader_safe
#print axioms Wrgl.C17_output_bounded_by_input
#print axioms Wrgl.C17_fact_indexTableChecks
#print axioms Wrgl.C17_indexTable_never_panics
#print axioms Wrgl.C17_indexTable_unchecked_panics
