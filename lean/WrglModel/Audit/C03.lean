import WrglModel.Props.C03
#print axioms Wrgl.C03_ingest_inv
#print axioms Wrgl.C03_offsets
