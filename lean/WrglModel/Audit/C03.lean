import WrglModel.Props.C03
#print axioms Wrgl.C03_placeholder
