import WrglModel.Props.C03
#print axioms Wrgl.C03_ingest_inv
#print axioms Wrgl.C03_offsets
#print axioms Wrgl.C03_fact_indexTableComparesSums
#print axioms Wrgl.C03_fact_indexTableEntryIsFirstRowKey
#print axioms Wrgl.C03_receive_index_clauses
#print axioms Wrgl.C03_receive_inv
#print axioms Wrgl.C03_receive_order_is_the_senders
#print axioms Wrgl.C03_diagnose_complete
#print axioms Wrgl.C03_ingest_diagnosis_clean
#print axioms Wrgl.C03_resolve_one_is_ingest
#print axioms Wrgl.C03_resolve_history_independent
#print axioms Wrgl.C03_resolve_inv
