import WrglModel.Props.C18
#print axioms Wrgl.C18_placeholder
