import WrglModel.Props.C18
#print axioms Wrgl.C18_fact_no_single_read
#print axioms Wrgl.C18_all_sites_full
#print axioms Wrgl.C18_readFull_chunk_independent
#print axioms Wrgl.C18_packfile
#print axioms Wrgl.C18_packfile_eq_whole_buffer
#print axioms Wrgl.C18_single_read_witness
