import WrglModel.Props.C10
#print axioms Wrgl.C10_fetch_forward
#print axioms Wrgl.C10_fetch_tag_kept
#print axioms Wrgl.C10_push_forward
#print axioms Wrgl.C10_fetch_moves_to_descendant
#print axioms Wrgl.C10_merge_ff_exact
#print axioms Wrgl.C10_merge_ff_only_rejects
#print axioms Wrgl.C10_merge_identical_nothing
#print axioms Wrgl.C10_frame
#print axioms Wrgl.C10_fact_fetchForceNotAssigned
#print axioms Wrgl.C10_fact_pushForceNotAssigned
#print axioms Wrgl.C10_fetch_table_is_model
#print axioms Wrgl.C10_push_table_is_model
#print axioms Wrgl.C10_merge_ff_site
#print axioms Wrgl.C10_flag_overrides_config
#print axioms Wrgl.C10_explicit_ff_fast_forwards
