import WrglModel.Props.C13
#print axioms Wrgl.C13_placeholder
