import WrglModel.Props.C13
#print axioms Wrgl.C13_fact_insertBlock
#print axioms Wrgl.C13_fact_ingest
#print axioms Wrgl.C13_fact_commitCmd
#print axioms Wrgl.C13_fact_receiveTable
#print axioms Wrgl.C13_fact_indexTable
#print axioms Wrgl.C13_fact_mergeCommit
#print axioms Wrgl.C13_fact_prune
#print axioms Wrgl.C13_prefix_consistent
#print axioms Wrgl.C13_commit_prefix_consistent
#print axioms Wrgl.C13_receive_prefix_consistent
#print axioms Wrgl.C13_table_first_is_unsafe
#print axioms Wrgl.C13_receive_any_order_parents
#print axioms Wrgl.C13_unchecked_receive_unsafe
