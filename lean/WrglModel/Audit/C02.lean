import WrglModel.Props.C02
#print axioms Wrgl.C02_same_content_same_id
#print axioms Wrgl.C02_injective
#print axioms Wrgl.C02_no_change_detected
#print axioms Wrgl.C02_key_change_changes_id
#print axioms Wrgl.C02_joined_key_names_ambiguous
