import WrglModel.Props.C02
#print axioms Wrgl.C02_placeholder
