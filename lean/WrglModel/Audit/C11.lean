import WrglModel.Props.C11
#print axioms Wrgl.C11_isAncestor_iff_reachable
#print axioms Wrgl.C11_walk_each_once
#print axioms Wrgl.C11_seek_common_fails
#print axioms Wrgl.C11_seek_input_fails
#print axioms Wrgl.C11_seek_common_two
#print axioms Wrgl.C11_oracle_reach_sound
#print axioms Wrgl.C11_walk_multi_each_once
