import WrglModel.Props.C12
#print axioms Wrgl.C12_fact_searchChecked
#print axioms Wrgl.C12_no_panic
#print axioms Wrgl.C12_completes
#print axioms Wrgl.C12_mark_exact
#print axioms Wrgl.C12_reachable_kept_unreachable_gone
#print axioms Wrgl.C12_idempotent
#print axioms Wrgl.C12_fact_rootsAllRefs
#print axioms Wrgl.C12_dangling_refs_root_nothing
#print axioms Wrgl.C12_live_table_kept_whole
#print axioms Wrgl.C12_same_blocks_other_indices_both_kept
