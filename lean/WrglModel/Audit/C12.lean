import WrglModel.Props.C12
#print axioms Wrgl.C12_placeholder
