import WrglModel.Props.C16
#print axioms Wrgl.C16_fact_guarded
#print axioms Wrgl.C16_fact_errChan
#print axioms Wrgl.C16_ingest_invariant
#print axioms Wrgl.C16_ingest_schedule_independent
#print axioms Wrgl.C16_ingest_can_finish
#print axioms Wrgl.C16_lost_update_witness
#print axioms Wrgl.C16_fact_mergeErrChan
#print axioms Wrgl.C16_error_report_never_blocks
#print axioms Wrgl.C16_error_report_blocks_witness
#print axioms Wrgl.C16_fact_pbarLazyInitLocked
#print axioms Wrgl.C16_fact_pbarDoneForcesCompletion
#print axioms Wrgl.C16_pbar_done_returns
#print axioms Wrgl.C16_pbar_done_blocks_witness
#print axioms Wrgl.C16_ingest_is_over_when_it_returns
#print axioms Wrgl.C16_pipeline_counts_every_row
#print axioms Wrgl.C16_early_return_witness
#print axioms Wrgl.C16_sole_worker_failure_witness
