import WrglModel.Props.C08
#print axioms Wrgl.C08_fact_revisit
#print axioms Wrgl.C08_walk_lists_unfolding
#print axioms Wrgl.C08_closed
#print axioms Wrgl.C08_only_reachable
#print axioms Wrgl.C08_parent_first
#print axioms Wrgl.C08_terminates
#print axioms Wrgl.C08_steps_exponential
#print axioms Wrgl.C08_all_wants
#print axioms Wrgl.C08_accepts_reachable_wants
#print axioms Wrgl.C08_process_sound
