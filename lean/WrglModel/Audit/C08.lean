import WrglModel.Props.C08
#print axioms Wrgl.C08_placeholder
