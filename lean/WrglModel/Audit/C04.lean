import WrglModel.Props.C04
#print axioms Wrgl.C04_placeholder
