import WrglModel.Props.C04
#print axioms Wrgl.C04_fact_emptyGuard
#print axioms Wrgl.C04_diff_exact
