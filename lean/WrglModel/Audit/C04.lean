import WrglModel.Props.C04
#print axioms Wrgl.C04_fact_emptyGuard
#print axioms Wrgl.C04_diff_exact
#print axioms Wrgl.C04_wf_from_C03
#print axioms Wrgl.C04_differ_reads_stored
#print axioms Wrgl.C04_diff_exact_of_stored
