/-
Model of objline.EncodeTime / WriteTime / DecodeTime / ReadTime (C06). A time is
(unix seconds, zone offset in seconds east of UTC); the zero `time.Time` is a separate value.
Core Lean only.
-/
import WrglModel.Model.Basic
namespace Wrgl

def digitByte (d : Nat) : UInt8 := UInt8.ofNat (48 + d % 10)

/-- decimal digits of `n`, most significant first (`0` ↦ "0") -/
def decDigits : Nat → Nat → List UInt8
  | 0, _ => []
  | fuel+1, n => if n < 10 then [digitByte n] else decDigits fuel (n / 10) ++ [digitByte n]

def dec (n : Nat) : List UInt8 := decDigits (n + 1) n

/-- left-pad with '0' to `width` (never truncates) -/
def padZero (width : Nat) (d : List UInt8) : List UInt8 := List.replicate (width - d.length) 48 ++ d

/-- `%010d` -/
def fmt010 (n : Int) : Bytes :=
  if n ≥ 0 then padZero 10 (dec n.toNat) else 45 :: padZero 9 (dec (-n).toNat)

/-- `t.Format("-0700")` -/
def fmtZone (zoneSec : Int) : Bytes :=
  let zm := Int.tdiv zoneSec 60
  let a := zm.natAbs
  (if zm < 0 then 45 else 43) :: (padZero 2 (dec (a / 60)) ++ padZero 2 (dec (a % 60)))

/-- `EncodeTime` -/
def encodeTime (sec zoneSec : Int) : Bytes := fmt010 sec ++ [32] ++ fmtZone zoneSec

/-- `WriteTime`; `guard`: the extracted fact that an encoding that is not 16 bytes long is refused -/
def writeTime (guard : Bool) (t : Option (Int × Int)) : Res Bytes :=
  match t with
  | none => .ok (List.replicate 16 0)
  | some (sec, z) =>
    let b := encodeTime sec z
    if guard && b.length != 16 then .err "time-out-of-range" else .ok b

def parseDigits : List UInt8 → Option Nat
  | [] => none
  | ds => ds.foldl (fun acc d => match acc with
      | none => none
      | some a => if 48 ≤ d.toNat ∧ d.toNat ≤ 57 then some (a * 10 + (d.toNat - 48)) else none) (some 0)

/-- `strconv.ParseInt(s, 10, 64)` on 10 bytes (optional sign) -/
def parseInt10 (b : Bytes) : Option Int :=
  match b with
  | 45 :: ds => (parseDigits ds).map (fun n => -(n : Int))
  | 43 :: ds => (parseDigits ds).map (fun n => (n : Int))
  | ds => (parseDigits ds).map (fun n => (n : Int))

/-- `DecodeTime` on the 16 bytes: seconds and zone offset in seconds -/
def decodeTime (b : Bytes) : Res (Int × Int) :=
  if b.length != 16 then .panic "decodetime-slice" else
  match parseInt10 (b.take 10) with
  | none => .err "time-seconds"
  | some sec =>
    match b.drop 11 with
    | [sg, h1, h2, m1, m2] =>
      match parseDigits [h1, h2], parseDigits [m1, m2] with
      | some hh, some mm =>
        -- `time.Parse("-0700", …)`: "time zone offset hour / minute out of range"
        if hh > 24 || mm > 60 then .err "time-zone" else
        if sg == 43 then .ok (sec, ((hh * 60 + mm) * 60 : Nat))
        else if sg == 45 then .ok (sec, -(((hh * 60 + mm) * 60 : Nat) : Int))
        else .err "time-zone"
      | _, _ => .err "time-zone"
    | _ => .err "time-zone"

/-- `ReadTime` -/
def readTime (b : Bytes) : Res (Option (Int × Int)) :=
  if b.all (· == 0) then .ok none
  else match decodeTime b with
    | .ok t => .ok (some t)
    | .err e => .err e
    | .panic p => .panic p

end Wrgl
