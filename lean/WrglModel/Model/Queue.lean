/-
Model of pkg/ref/commits_queue.go and pkg/ref/utils.go (C11; shared by C08, C10, C12).
Core Lean only.
-/
import WrglModel.Model.Basic
namespace Wrgl

/-- `CommitsQueue`: `items` are (sum, commit time), newest first; `seen` is the Go `seen` map. -/
structure Q where
  items : List (Nat × Int)
  seen : List Nat
  deriving Repr, DecidableEq

namespace Q

def hasSeen (q : Q) (id : Nat) : Bool := q.seen.contains id

/-- position chosen by `sort.Search(q.Len(), func(i) { return q.commits[i].Time <= commit.Time })` -/
def insertPos (items : List (Nat × Int)) (t : Int) : Nat :=
  search items.length (fun i => match items[i]? with
    | some (_, ti) => decide (ti ≤ t)
    | none => true)

/-- `CommitsQueue.Insert`: no-op when seen; error when the commit object is missing. -/
def insert (g : Graph) (q : Q) (id : Nat) : Res Q :=
  if q.hasSeen id then .ok q
  else match g.get? id with
    | none => .err "missing-commit"
    | some c =>
      let i := insertPos q.items c.time
      .ok { items := q.items.take i ++ (id, c.time) :: q.items.drop i, seen := id :: q.seen }

def insertAll (g : Graph) : Q → List Nat → Res Q
  | q, [] => .ok q
  | q, p :: ps => match insert g q p with
    | .ok q' => insertAll g q' ps
    | .err e => .err e
    | .panic s => .panic s

/-- `NewCommitsQueue(db, [sum])` -/
def single (g : Graph) (id : Nat) : Res Q :=
  match g.get? id with
  | none => .err "missing-commit"
  | some c => .ok { items := [(id, c.time)], seen := [id] }

/-- `PopInsertParents`: `none` is `io.EOF`. -/
def popInsertParents (g : Graph) (q : Q) : Res (Option Nat × Q) :=
  match q.items with
  | [] => .ok (none, q)
  | (id, _) :: rest =>
    match g.get? id with
    | none => .err "missing-commit"      -- cannot happen: every queued commit was loaded on insert
    | some c =>
      match insertAll g { q with items := rest } c.parents with
      | .ok q' => .ok (some id, q')
      | .err e => .err e
      | .panic s => .panic s

end Q

/-- loop of `ref.IsAncestorOf(db, commit1, commit2)` -/
def isAncestorLoop (g : Graph) (a : Nat) : Nat → Q → Res Bool
  | 0, _ => .err "fuel"
  | fuel+1, q =>
    match Q.popInsertParents g q with
    | .ok (none, _) => .ok false
    | .ok (some id, q') => if id == a then .ok true else isAncestorLoop g a fuel q'
    | .err e => .err e
    | .panic s => .panic s

def isAncestorOf (g : Graph) (a b : Nat) : Res Bool :=
  match Q.single g b with
  | .ok q => isAncestorLoop g a (g.length + 2) q
  | .err e => .err e
  | .panic s => .panic s

/-- full pop order of a walk from `b` (the Traveller / history walk) -/
def walkLoop (g : Graph) : Nat → Q → List Nat → Res (List Nat)
  | 0, _, _ => .err "fuel"
  | fuel+1, q, acc =>
    match Q.popInsertParents g q with
    | .ok (none, _) => .ok acc.reverse
    | .ok (some id, q') => walkLoop g fuel q' (id :: acc)
    | .err e => .err e
    | .panic s => .panic s

def walk (g : Graph) (b : Nat) : Res (List Nat) :=
  match Q.single g b with
  | .ok q => walkLoop g (g.length + 2) q []
  | .err e => .err e
  | .panic s => .panic s

/-! ### `SeekCommonAncestor` -/

structure SeekSt where
  bases : List (Option Nat)      -- `nil` sum after EOF is `none`
  qs : List Q
  deriving Repr

/-- inner `for j := len(bases)-1; j >= 0; j--` loop, `j1 = j+1`; returns the updated `i`. -/
def elimJ : SeekSt → Nat → Nat → Res (SeekSt × Nat)
  | st, i, 0 => .ok (st, i)
  | st, i, j+1 =>
    if i == j then elimJ st i j
    else
      match st.bases[i]?, st.qs[j]? with
      | some bi, some qj =>
        let seen := match bi with
          | some b => qj.hasSeen b
          | none => false
        if seen then
          elimJ { bases := st.bases.eraseIdx j, qs := st.qs.eraseIdx j } (if i > j then i - 1 else i) j
        else elimJ st i j
      | _, _ => .panic "seek-index"

/-- outer `for i := len(bases)-1; i >= 0; i--` loop, `i1 = i+1`. -/
def elimI : Nat → SeekSt → Nat → Res SeekSt
  | 0, st, _ => .ok st
  | _, st, 0 => .ok st
  | fuel+1, st, i+1 =>
    match elimJ st i st.bases.length with
    | .ok (st', i') => elimI fuel st' i'
    | .err e => .err e
    | .panic s => .panic s

def elim (st : SeekSt) : Res SeekSt := elimI (st.bases.length + 1) st st.bases.length

/-- one `PopInsertParents` on every queue; returns new state and the number of EOFs -/
def popAll (g : Graph) : List Q → Res (List (Option Nat) × List Q × Nat)
  | [] => .ok ([], [], 0)
  | q :: qs =>
    match Q.popInsertParents g q with
    | .ok (b, q') =>
      match popAll g qs with
      | .ok (bs, qs', e) => .ok (b :: bs, q' :: qs', if b.isNone then e + 1 else e)
      | .err e => .err e
      | .panic s => .panic s
    | .err e => .err e
    | .panic s => .panic s

def seekLoop (g : Graph) : Nat → SeekSt → Res (Option Nat)
  | 0, _ => .err "fuel"
  | fuel+1, st =>
    match elim st with
    | .ok st =>
      if st.bases.length == 1 then
        match st.bases with
        | [b] => .ok b
        | _ => .panic "seek-index"
      else
        match popAll g st.qs with
        | .ok (bs, qs, eofs) =>
          if eofs == qs.length then .err "not-found"
          else seekLoop g fuel { bases := bs, qs := qs }
        | .err e => .err e
        | .panic s => .panic s
    | .err e => .err e
    | .panic s => .panic s

def initQs (g : Graph) : List Nat → Res (List Q)
  | [] => .ok []
  | c :: cs =>
    match Q.single g c with
    | .ok q => match initQs g cs with
      | .ok qs => .ok (q :: qs)
      | .err e => .err e
      | .panic s => .panic s
    | .err e => .err e
    | .panic s => .panic s

/-- `ref.SeekCommonAncestor(db, commits...)`; `.ok none` would be a nil sum with nil error. -/
def seekCommonAncestor (g : Graph) (commits : List Nat) : Res (Option Nat) :=
  match initQs g commits with
  | .ok qs => seekLoop g (g.length + 3) { bases := commits.map some, qs := qs }
  | .err e => .err e
  | .panic s => .panic s

end Wrgl
