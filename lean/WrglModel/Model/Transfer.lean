/-
Model of pkg/api/utils/object_sender.go and object_receiver.go at the level of object identities
(C07; used by C09, C13): which objects are sent, in which order, how they are cut into packfiles,
and what the receiver accepts. Object contents are abstract: a commit is (id, table, parents), a
table is (id, blocks), and sizes are supplied. Core Lean only.
-/
import WrglModel.Model.Basic
namespace Wrgl

inductive ObjKey where
  | blk (b : Nat)
  | tbl (t : Nat)
  | com (c : Nat)
  deriving Repr, DecidableEq, BEq

structure TblInfo where
  id : Nat
  blocks : List Nat
  deriving Repr, DecidableEq

/-- the sending repository as far as the sender looks at it -/
structure SrcRepo where
  commits : Graph                 -- `table` field = table id
  tables : List TblInfo           -- tables whose object is present
  deriving Repr

def SrcRepo.table? (s : SrcRepo) (t : Nat) : Option TblInfo := s.tables.find? (fun x => x.id == t)

structure SenderSt where
  commonTables : List Nat
  commonBlocks : List Nat
  deriving Repr

/-- `NewObjectSender`: tables of the common commits and their blocks count as present -/
def senderInit (s : SrcRepo) (commonCommits : List Nat) : Res SenderSt :=
  if commonCommits.any (fun c => (s.commits.get? c).isNone) then .err "common-commit-missing" else
  let cts := (commonCommits.filterMap (fun c => (s.commits.get? c).map (·.table))).eraseDups
  let cbs := (cts.flatMap (fun t => match s.table? t with
    | some ti => ti.blocks
    | none => [])).eraseDups
  .ok { commonTables := cts, commonBlocks := cbs }

/-- `enqueueNextCommit` + `enqueueTable` for one commit of the list: the objects it contributes -/
def commitObjs (s : SrcRepo) (tablesToSend : List Nat) (st : SenderSt) (c : Nat) : Res (List ObjKey × SenderSt) :=
  match s.commits.get? c with
  | none => .err "commit-missing"
  | some cm =>
    if tablesToSend.contains cm.table && !st.commonTables.contains cm.table then
      match s.table? cm.table with
      | none => .ok ([.com c], { st with commonTables := cm.table :: st.commonTables })   -- table object absent: skipped
      | some ti =>
        let newBlocks := (ti.blocks.filter (fun b => !st.commonBlocks.contains b)).eraseDups
        .ok (newBlocks.map .blk ++ [.tbl cm.table, .com c],
             { commonTables := cm.table :: st.commonTables, commonBlocks := newBlocks ++ st.commonBlocks })
    else .ok ([.com c], st)

/-- the whole object sequence for the list of commits to send (occurrence by occurrence) -/
def senderObjs (s : SrcRepo) (tablesToSend : List Nat) : SenderSt → List Nat → Res (List ObjKey)
  | _, [] => .ok []
  | st, c :: cs =>
    match commitObjs s tablesToSend st c with
    | .ok (objs, st') =>
      match senderObjs s tablesToSend st' cs with
      | .ok rest => .ok (objs ++ rest)
      | .err e => .err e
      | .panic p => .panic p
    | .err e => .err e
    | .panic p => .panic p

/-- `WriteObjects`' cut: a packfile takes objects until their cumulative size reaches the limit
    (checked after each object, so every packfile holds at least one object) -/
def cutPack (maxSize : Nat) (size : ObjKey → Nat) : List ObjKey → Nat → List ObjKey → List ObjKey × List ObjKey
  | [], _, acc => (acc.reverse, [])
  | o :: os, sz, acc =>
    let sz' := sz + size o
    if sz' ≥ maxSize then ((o :: acc).reverse, os) else cutPack maxSize size os sz' (o :: acc)

def packfiles (maxSize : Nat) (size : ObjKey → Nat) : Nat → List ObjKey → List (List ObjKey)
  | 0, _ => []
  | _, [] => []
  | fuel+1, objs =>
    let (p, rest) := cutPack maxSize size objs 0 []
    p :: packfiles maxSize size fuel rest

/-- the receiving repository: which objects it holds; for tables also their block list -/
structure DstRepo where
  blocks : List Nat
  tables : List TblInfo
  commits : Graph
  deriving Repr

def DstRepo.has (d : DstRepo) : ObjKey → Bool
  | .blk b => d.blocks.contains b
  | .tbl t => d.tables.any (fun x => x.id == t)
  | .com c => (d.commits.get? c).isSome

/-- `Receive` of one object: a table needs all its blocks (it is re-indexed from them), a commit
    needs all its parents -/
def receiveObj (s : SrcRepo) (d : DstRepo) : ObjKey → Res DstRepo
  | .blk b => .ok (if d.blocks.contains b then d else { d with blocks := b :: d.blocks })
  | .tbl t =>
    match s.table? t with
    | none => .err "table-unknown"
    | some ti =>
      if ti.blocks.all d.blocks.contains then
        .ok (if d.tables.any (fun x => x.id == t) then d else { d with tables := ti :: d.tables })
      else .err "table-block-missing"
  | .com c =>
    match s.commits.get? c with
    | none => .err "commit-unknown"
    | some cm =>
      if cm.parents.all (fun p => (d.commits.get? p).isSome) then
        .ok (if (d.commits.get? c).isSome then d else { d with commits := cm :: d.commits })
      else .err "parent-missing"

def receiveAll (s : SrcRepo) : DstRepo → List ObjKey → Res DstRepo
  | d, [] => .ok d
  | d, o :: os =>
    match receiveObj s d o with
    | .ok d' => receiveAll s d' os
    | .err e => .err e
    | .panic p => .panic p

end Wrgl
