/-
Model of the binary encodings (C06; used by C01, C02, C03, C07, C17, C18):
pkg/objects/str_list.go, block.go, uint_list.go, table.go, commit.go, block_index.go,
pkg/encoding/objline/*.go, pkg/encoding/packfile/packfile.go (header).
Decoders here have whole-buffer (`io.ReadFull`) semantics; chunked readers are in Model/Chunked.lean.
Core Lean only.
-/
import WrglModel.Model.Basic
namespace Wrgl

/-! ## fixed-width big-endian integers -/

def u8 (n : Nat) : UInt8 := UInt8.ofNat (n % 256)

def u16be (n : Nat) : Bytes := [u8 (n / 256), u8 n]
def u32be (n : Nat) : Bytes := [u8 (n / 16777216), u8 (n / 65536), u8 (n / 256), u8 n]
def u64be (n : Nat) : Bytes := u32be (n / 4294967296) ++ u32be (n % 4294967296)

def beNat : Bytes → Nat
  | [] => 0
  | b :: bs => b.toNat * 256 ^ bs.length + beNat bs

/-- take exactly `n` bytes (an `io.ReadFull`): `none` when fewer remain -/
def takeN (n : Nat) (b : Bytes) : Option (Bytes × Bytes) :=
  if b.length < n then none else some (b.take n, b.drop n)

/-! ## string list (`StrListEncoder.Encode`, `StrListDecoder.Read/Decode`) -/

/-- `Encode`: 32-bit count, then per cell a 16-bit length and the bytes. `maxCell` is the extracted
    guard of `Encode` (a cell longer than that panics). -/
def encodeCells : Row → Bytes
  | [] => []
  | c :: cs => u16be c.length ++ c ++ encodeCells cs

def strListEncode (maxCell : Nat) (r : Row) : Res Bytes :=
  if r.any (fun c => decide (c.length > maxCell)) then .panic "strlist-cell-too-long"
  else .ok (u32be r.length ++ encodeCells r)

/-- `Read`'s cell loop over the remaining bytes; `n` cells to go. The quirk of the Go decoder is
    reproduced: when the stream ends exactly after the last cell's (non-zero) length, the cell is
    read as "" without error. -/
def decodeCells : Nat → Bytes → Res (Row × Bytes)
  | 0, b => .ok ([], b)
  | n+1, b =>
    match takeN 2 b with
    | none => .err "eof-in-length"
    | some (lb, rest) =>
      let l := beNat lb
      if l == 0 then
        match decodeCells n rest with
        | .ok (cs, r') => .ok ([] :: cs, r')
        | .err e => .err e
        | .panic p => .panic p
      else
        match takeN l rest with
        | some (c, rest') =>
          match decodeCells n rest' with
          | .ok (cs, r') => .ok (c :: cs, r')
          | .err e => .err e
          | .panic p => .panic p
        | none =>
          if rest.isEmpty && n == 0 then .ok ([[]], [])
          else .err "eof-in-cell"

/-- `StrListDecoder.Read` on a buffer: the row and the unread rest -/
def strListRead (b : Bytes) : Res (Row × Bytes) :=
  match takeN 4 b with
  | none => if b.isEmpty then .err "eof" else .err "unexpected-eof"
  | some (cb, rest) => decodeCells (beNat cb) rest

/-! ## block (`WriteBlockTo` / `CombineRowBytesIntoBlock`, `ReadBlockFrom`) -/

def encodeRows (maxCell : Nat) : List Row → Res Bytes
  | [] => .ok []
  | r :: rs =>
    match strListEncode maxCell r with
    | .ok b => match encodeRows maxCell rs with
      | .ok bs => .ok (b ++ bs)
      | .err e => .err e
      | .panic p => .panic p
    | .err e => .err e
    | .panic p => .panic p

def blockEncode (maxCell : Nat) (rows : List Row) : Res Bytes :=
  match encodeRows maxCell rows with
  | .ok b => .ok (u32be rows.length ++ b)
  | .err e => .err e
  | .panic p => .panic p

def decodeRows : Nat → Bytes → Res (List Row × Bytes)
  | 0, b => .ok ([], b)
  | n+1, b =>
    match strListRead b with
    | .ok (r, rest) =>
      match decodeRows n rest with
      | .ok (rs, r') => .ok (r :: rs, r')
      | .err e => .err e
      | .panic p => .panic p
    | .err e => .err e
    | .panic p => .panic p

def blockDecode (b : Bytes) : Res (List Row × Bytes) :=
  match takeN 4 b with
  | none => .err "eof"
  | some (cb, rest) => decodeRows (beNat cb) rest

/-! ## uint list -/

def uintListEncode (l : List Nat) : Bytes := u32be l.length ++ l.flatMap u32be

def decodeUints : Nat → Bytes → Res (List Nat × Bytes)
  | 0, b => .ok ([], b)
  | n+1, b =>
    match takeN 4 b with
    | none => .err "eof"
    | some (x, rest) =>
      match decodeUints n rest with
      | .ok (xs, r') => .ok (beNat x :: xs, r')
      | .err e => .err e
      | .panic p => .panic p

def uintListRead (b : Bytes) : Res (List Nat × Bytes) :=
  match takeN 4 b with
  | none => .err "eof"
  | some (cb, rest) => decodeUints (beNat cb) rest

/-! ## objline fields -/

def strBytes (s : String) : Bytes := s.toUTF8.toList

def field (label : String) (body : Bytes) : Bytes := strBytes label ++ [32] ++ body ++ [10]

/-- `objline.WriteString`; `guard` is the extracted fact "WriteString refuses a string longer than
    65535 bytes with an error" -/
def writeString (guard : Bool) (s : Bytes) : Res Bytes :=
  if s.length > 65535 then
    (if guard then .err "string-too-long" else .ok (u16be (s.length % 65536) ++ s))
  else .ok (u16be s.length ++ s)

/-- consume `label ++ " "`; `none` = clean EOF before the label -/
def readLabel (label : String) (b : Bytes) : Res (Option Bytes) :=
  let l := strBytes label ++ [32]
  if b.isEmpty then .ok none
  else match takeN l.length b with
    | none => .err "label"
    | some (x, rest) => if x == l then .ok (some rest) else .err "label"

def readNewline (b : Bytes) : Res Bytes :=
  match b with
  | 10 :: rest => .ok rest
  | _ => .err "newline"

def readString (b : Bytes) : Res (Bytes × Bytes) :=
  match takeN 2 b with
  | none => .err "eof"
  | some (lb, rest) =>
    match takeN (beNat lb) rest with
    | none => .err "eof"
    | some (s, rest') => .ok (s, rest')

/-! ## table object (`Table.WriteTo`) -/

structure TableObj where
  columns : Row
  pk : List Nat
  rowsCount : Nat
  blocks : List Bytes          -- 16-byte sums
  blockIndices : List Bytes    -- 16-byte sums
  deriving Repr, DecidableEq

def tableBytes (maxCell : Nat) (t : TableObj) : Res Bytes :=
  match strListEncode maxCell t.columns with
  | .ok cols =>
    .ok (field "columns" cols ++ field "pk" (uintListEncode t.pk) ++ field "rows" (u32be t.rowsCount) ++
         t.blocks.flatten ++ t.blockIndices.flatten)
  | .err e => .err e
  | .panic p => .panic p

def blocksCount (rows : Nat) : Nat := (rows + 254) / 255

def takeSums : Nat → Bytes → Res (List Bytes × Bytes)
  | 0, b => .ok ([], b)
  | n+1, b =>
    match takeN 16 b with
    | none => .err "eof-in-sums"
    | some (s, rest) =>
      match takeSums n rest with
      | .ok (ss, r') => .ok (s :: ss, r')
      | .err e => .err e
      | .panic p => .panic p

def tableRead (b : Bytes) : Res TableObj :=
  match readLabel "columns" b with
  | .ok (some b1) =>
    match strListRead b1 with
    | .ok (cols, b2) =>
      match readNewline b2 with
      | .ok b3 =>
        match readLabel "pk" b3 with
        | .ok (some b4) =>
          match uintListRead b4 with
          | .ok (pk, b5) =>
            match readNewline b5 with
            | .ok b6 =>
              match readLabel "rows" b6 with
              | .ok (some b7) =>
                match takeN 4 b7 with
                | some (rc, b8) =>
                  match readNewline b8 with
                  | .ok b9 =>
                    let n := blocksCount (beNat rc)
                    match takeSums n b9 with
                    | .ok (blks, b10) =>
                      match takeSums n b10 with
                      | .ok (idxs, _) => .ok { columns := cols, pk := pk, rowsCount := beNat rc, blocks := blks, blockIndices := idxs }
                      | .err e => .err e
                      | .panic p => .panic p
                    | .err e => .err e
                    | .panic p => .panic p
                  | .err e => .err e
                  | .panic p => .panic p
                | none => .err "eof"
              | .ok none => .err "eof"
              | .err e => .err e
              | .panic p => .panic p
            | .err e => .err e
            | .panic p => .panic p
          | .err e => .err e
          | .panic p => .panic p
        | .ok none => .err "eof"
        | .err e => .err e
        | .panic p => .panic p
      | .err e => .err e
      | .panic p => .panic p
    | .err e => .err e
    | .panic p => .panic p
  | .ok none => .err "eof"
  | .err e => .err e
  | .panic p => .panic p

/-! ## commit object -/

structure CommitObj where
  table : Bytes               -- 16 bytes
  authorName : Bytes
  authorEmail : Bytes
  time : Bytes                -- the 16 bytes written by `WriteTime` (model of time: see Time below)
  message : Bytes
  parents : List Bytes        -- 16 bytes each
  deriving Repr, DecidableEq

def commitBytes (guard : Bool) (c : CommitObj) : Res Bytes :=
  match writeString guard c.authorName, writeString guard c.authorEmail, writeString guard c.message with
  | .ok n, .ok e, .ok m =>
    .ok (field "table" c.table ++ field "authorName" n ++ field "authorEmail" e ++ field "time" c.time ++
         field "message" m ++ (c.parents.map (field "parent")).flatten)
  | .err x, _, _ => .err x
  | _, .err x, _ => .err x
  | _, _, .err x => .err x
  | .panic p, _, _ => .panic p
  | _, .panic p, _ => .panic p
  | _, _, .panic p => .panic p

def readParents : Nat → Bytes → Res (List Bytes)
  | 0, _ => .err "fuel"
  | fuel+1, b =>
    match readLabel "parent" b with
    | .ok none => .ok []
    | .ok (some b1) =>
      match takeN 16 b1 with
      | none => .err "eof"
      | some (p, b2) =>
        match readNewline b2 with
        | .ok b3 =>
          match readParents fuel b3 with
          | .ok ps => .ok (p :: ps)
          | .err e => .err e
          | .panic q => .panic q
        | .err e => .err e
        | .panic q => .panic q
    | .err e => .err e
    | .panic q => .panic q

def readStrField (label : String) (b : Bytes) : Res (Bytes × Bytes) :=
  match readLabel label b with
  | .ok (some b1) =>
    match readString b1 with
    | .ok (s, b2) => match readNewline b2 with
      | .ok b3 => .ok (s, b3)
      | .err e => .err e
      | .panic q => .panic q
    | .err e => .err e
    | .panic q => .panic q
  | .ok none => .err "eof"
  | .err e => .err e
  | .panic q => .panic q

def readFixedField (label : String) (n : Nat) (b : Bytes) : Res (Bytes × Bytes) :=
  match readLabel label b with
  | .ok (some b1) =>
    match takeN n b1 with
    | some (s, b2) => match readNewline b2 with
      | .ok b3 => .ok (s, b3)
      | .err e => .err e
      | .panic q => .panic q
    | none => .err "eof"
  | .ok none => .err "eof"
  | .err e => .err e
  | .panic q => .panic q

def commitRead (b : Bytes) : Res CommitObj :=
  match readFixedField "table" 16 b with
  | .ok (tbl, b1) =>
    match readStrField "authorName" b1 with
    | .ok (an, b2) =>
      match readStrField "authorEmail" b2 with
      | .ok (ae, b3) =>
        match readFixedField "time" 16 b3 with
        | .ok (tm, b4) =>
          match readStrField "message" b4 with
          | .ok (msg, b5) =>
            match readParents (b5.length + 1) b5 with
            | .ok ps => .ok { table := tbl, authorName := an, authorEmail := ae, time := tm, message := msg, parents := ps }
            | .err e => .err e
            | .panic q => .panic q
          | .err e => .err e
          | .panic q => .panic q
        | .err e => .err e
        | .panic q => .panic q
      | .err e => .err e
      | .panic q => .panic q
    | .err e => .err e
    | .panic q => .panic q
  | .err e => .err e
  | .panic q => .panic q

/-! ## block index object (`BlockIndex.WriteTo/ReadFrom`) -/

/-- `n`, `sortedOff` bytes, then 32 bytes per row (key hash ++ row hash) -/
def blockIndexBytes (sortedOff : List Nat) (rows : List (Bytes × Bytes)) : Bytes :=
  [u8 rows.length] ++ sortedOff.map u8 ++ (rows.map (fun r => r.1 ++ r.2)).flatten

/-! ## packfile object header (`encodeObjTypeAndLen`, `decodeObjTypeAndLen`) -/

def bitLen : Nat → Nat
  | 0 => 0
  | n+1 => Nat.log2 (n+1) + 1

/-- Go's integer division and remainder truncate toward zero -/
def numBytesOf (bits : Int) : Int :=
  let nb := Int.tdiv (bits - 4) 7 + 1
  let nb := if Int.tmod (bits - 4) 7 > 0 then nb + 1 else nb
  if nb == 1 then 2 else nb

/-- bytes 1.. of the header: 7 bits of `u` per byte starting at bit `bits`; all carry the
    continuation flag except the last -/
def hdrTail (u : Nat) : Nat → Nat → Bytes
  | 0, _ => []
  | 1, bits => [u8 ((u / 2 ^ bits) % 128)]
  | n+2, bits => u8 (128 + (u / 2 ^ bits) % 128) :: hdrTail u (n+1) (bits + 7)

/-- `encodeObjTypeAndLen(buf, objType, u)` with `bits` the value the code computes for `u`;
    `zeroGuard`: the code handles `u = 0` (otherwise `Log2(0)` gives a negative buffer size) -/
def encodeHdr (bits : Nat) (objType u : Nat) : Res Bytes :=
  let nb := numBytesOf bits
  if nb < 1 then .panic "hdr-negative-buffer"
  else .ok (u8 (128 + (objType % 8) * 16 + u % 16) :: hdrTail u (nb.toNat - 1) 4)

/-- `decodeObjTypeAndLen` on a buffer: type, length (mod 2^64 like Go's shifts), rest -/
def decodeHdrTail : Nat → Bytes → Nat → Nat → Res (Nat × Bytes)
  | 0, _, _, _ => .err "fuel"
  | _, [], _, _ => .err "data-corrupted"
  | fuel+1, b :: rest, bits, acc =>
    let acc' := acc + (if bits < 64 then ((b.toNat % 128) * 2 ^ bits) % 2 ^ 64 else 0)
    -- Go ORs; the encoder never sets overlapping bits, the decoder model adds what OR would set
    if b.toNat < 128 then .ok (acc', rest) else decodeHdrTail fuel rest (bits + 7) acc'

def decodeHdr (b : Bytes) : Res (Nat × Nat × Bytes) :=
  match b with
  | [] => .err "eof"
  | b0 :: rest =>
    match decodeHdrTail (rest.length + 1) rest 4 (b0.toNat % 16) with
    | .ok (u, rest') => .ok ((b0.toNat / 16) % 8, u, rest')
    | .err e => .err e
    | .panic p => .panic p

end Wrgl
