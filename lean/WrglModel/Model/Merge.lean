/-
Model of the three-way merge (C05): pkg/merge/merger.go (mergeTables: per-key collection of each
branch's row against the base), row_resolver.go (Resolve / tryResolve: the cell-wise decision
chain), row_collector.go (resolved rows + untouched base rows re-sorted). Tables are lists of rows
with unique keys; row hashes are replaced by row equality (hash assumed injective on the run).
The column-layout machinery (CompareColumns) enters through the per-layer `added`/`removed`
predicates of the decision chain; the table-level functions below are for tables that all have the
same column list. Core Lean only.
-/
import WrglModel.Model.Sorter
namespace Wrgl

/-- what `mergeTables` collects for one key -/
structure MRec where
  key : List Bytes
  base : Option Row
  others : List (Option Row)       -- one entry per branch (layer)
  deriving Repr, DecidableEq

/-- state of the per-column loop of `tryResolve` -/
structure CellSt where
  add : Option Bytes
  mod : Option Bytes
  rem : Bool
  val : Bytes            -- `m.ResolvedRow[i]`
  unresolved : Bool      -- `i ∈ m.UnresolvedCols`
  deriving Repr, DecidableEq

/-- `unresolveCol(i)` -/
def CellSt.unresolve (st : CellSt) (baseCell : Option Bytes) : CellSt :=
  { st with val := baseCell.getD [], unresolved := true }

/-- one iteration of `for j, row := range r.rows.Values` for column `i`: `x = row[i]`,
    `isAdded`/`isRemoved`: column `i` is in `cd.Added[layer]` / `cd.Removed[layer]` -/
def cellStep (baseCell : Option Bytes) (isAdded isRemoved : Bool) (x : Bytes) (st : CellSt) : CellSt :=
  if isAdded then
    match st.add with
    | none => { st with add := some x, val := x }
    | some a => if a != x then st.unresolve baseCell else { st with val := x }
  else if st.add.isSome then st
  else if isRemoved then
    match st.mod with
    | none => { st with rem := true, val := x }
    | some _ => st.unresolve baseCell
  else if baseCell != some x then
    if st.rem then st.unresolve baseCell
    else match st.mod with
      | none => { st with mod := some x, val := x }
      | some m => if m != x then st.unresolve baseCell else { st with val := x }
  else if st.rem || st.mod.isSome then st
  else { st with val := x }

/-- the distinct present rows, each at the last layer carrying it, ordered by layer
    (`uniqSums` + `sort.Sort(r.rows)`) -/
def uniqRows (others : List (Option Row)) : List (Nat × Row) :=
  (others.zipIdx).filterMap (fun (o, i) =>
    match o with
    | none => none
    | some r => if ((others.drop (i + 1)).any (fun o' => o' == some r)) then none else some (i, r))

/-- outcome of resolving one key -/
inductive Resolution where
  | removed                                   -- Resolved, ResolvedRow = nil
  | resolved (row : Row)
  | conflict (row : Row) (cols : List Nat)    -- not resolved: partial row and unresolved columns
  deriving Repr, DecidableEq

/-- `tryResolve` for `nCols` columns; `added l i` / `removed l i`: column i added / removed in layer l -/
def tryResolve (nCols : Nat) (added removed : Nat → Nat → Bool) (m : MRec) : Resolution :=
  let rows := uniqRows m.others
  let removedLayers : List Nat :=
    if m.base.isNone then [] else (m.others.zipIdx).filterMap (fun (o, i) => if o.isNone then some i else none)
  let cells := (List.range nCols).map (fun i =>
    let baseCell := m.base.map (fun b => (b[i]?).getD [])
    let rem0 := removedLayers.any (fun l => !added l i)
    let init : CellSt := { add := none, mod := none, rem := rem0, val := baseCell.getD [], unresolved := false }
    rows.foldl (fun st (lr : Nat × Row) => cellStep baseCell (added lr.1 i) (removed lr.1 i) ((lr.2[i]?).getD []) st) init)
  let row := cells.map (·.val)
  let unresolved := ((cells.zipIdx).filter (fun (c, _) => c.unresolved)).map (·.2)
  if !removedLayers.isEmpty then .conflict row unresolved
  else if unresolved.isEmpty then .resolved row else .conflict row unresolved

/-- `RowResolver.Resolve` -/
def resolveRec (nCols : Nat) (added removed : Nat → Nat → Bool) (m : MRec) : Resolution :=
  let present := m.others.filterMap id
  let unchanged := present.filter (fun r => some r == m.base)
  if present.isEmpty || unchanged.length == present.length then .removed
  else tryResolve nCols added removed m

/-! ### table level, all tables with the same columns -/

def findByKey (pk : List Nat) (rows : List Row) (k : List Bytes) : Option Row :=
  rows.find? (fun r => keyOf pk r == k)

/-- keys occurring in any table (no duplicates) -/
def allKeys (pk : List Nat) (base : List Row) (branches : List (List Row)) : List (List Bytes) :=
  ((base :: branches).flatten.map (keyOf pk)).eraseDups

/-- the `Merge` records that reach the resolver: every key of any table, except those present and
    unchanged in the base and all branches -/
def mergeRecs (pk : List Nat) (base : List Row) (branches : List (List Row)) : List MRec :=
  (allKeys pk base branches).filterMap (fun k =>
    let b := findByKey pk base k
    let os := branches.map (fun br => findByKey pk br k)
    if b.isSome && os.all (fun o => o == b) then none
    else some { key := k, base := b, others := os })

structure MergeOut where
  conflicts : List (List Bytes × Row × List Nat)    -- key, partial row, unresolved columns
  rows : List Row                                    -- result rows (conflicting keys keep their base row)
  deriving Repr, DecidableEq

/-- the whole pipeline for equal column lists: resolve every record, discard the keys of resolved
    ones, add the untouched base rows, sort and de-duplicate by key -/
def mergeTablesModel (sortFn : List Row → List Row) (nCols : Nat) (pk : List Nat) (base : List Row)
    (branches : List (List Row)) : MergeOut :=
  let recs := mergeRecs pk base branches
  let res := recs.map (fun m => (m, resolveRec nCols (fun _ _ => false) (fun _ _ => false) m))
  let resolvedRows := res.filterMap (fun (_, r) => match r with
    | .resolved row => some row
    | _ => none)
  let discarded := res.filterMap (fun (m, r) => match r with
    | .conflict _ _ => none
    | _ => some m.key)
  let untouched := base.filter (fun r => !discarded.contains (keyOf pk r))
  let conflicts := res.filterMap (fun (m, r) => match r with
    | .conflict row cols => some (m.key, row, cols)
    | _ => none)
  { conflicts := conflicts,
    rows := dedupAdj pk none (sortFn (resolvedRows ++ untouched)) }

end Wrgl
