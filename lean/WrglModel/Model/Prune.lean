/-
Model of pkg/prune/prune.go (C12): mark (walk from all refs), keep the tables of surviving
commits and their blocks / block indices, sweep the rest, commits last. Core Lean only.
-/
import WrglModel.Model.Queue
import WrglModel.Spec.Graph
namespace Wrgl

structure PTable where
  id : Nat
  blocks : List Nat
  idxs : List Nat          -- block index ids, one per block
  deriving Repr, DecidableEq

/-- what the object store holds -/
structure PRepo where
  commits : Graph           -- commit objects present (`table` = table id; parents may be absent)
  tables : List PTable      -- table objects present
  blocks : List Nat
  idxs : List Nat
  tblIdx : List Nat         -- table ids with a table index
  profiles : List Nat       -- table ids with a profile
  deriving Repr, DecidableEq

def PRepo.table? (r : PRepo) (t : Nat) : Option PTable := r.tables.find? (fun x => x.id == t)

/-- `findCommitsToRemove`'s walk: insert every ref target (errors ignored), pop until empty.
    A missing parent makes `PopInsertParents` fail, and with it the whole prune. -/
def markLoop (g : Graph) : Nat → Q → List Nat → Res (List Nat)
  | 0, _, _ => .err "fuel"
  | fuel+1, q, acc =>
    match Q.popInsertParents g q with
    | .ok (none, _) => .ok acc
    | .ok (some id, q') => markLoop g fuel q' (id :: acc)
    | .err e => .err e
    | .panic p => .panic p

def insertRefs (g : Graph) : Q → List Nat → Q
  | q, [] => q
  | q, r :: rs => match Q.insert g q r with
    | .ok q' => insertRefs g q' rs
    | _ => insertRefs g q rs          -- `q.Insert(sum)`'s error is ignored

/-- `prune.Prune(db, rs)`; `checked` is the extracted fact that `sort.Search` results are compared
    with the key before use -/
def prune (checked : Bool) (r : PRepo) (refs : List Nat) : Res PRepo :=
  if !checked then .err "unchecked-search-not-modelled" else
  match markLoop r.commits (r.commits.length + 2) (insertRefs r.commits { items := [], seen := [] } refs) [] with
  | .err e => .err e
  | .panic p => .panic p
  | .ok found =>
    let surviving := r.commits.filter (fun c => found.contains c.id)
    let toRemove := r.commits.filter (fun c => !found.contains c.id)
    if toRemove.isEmpty then .ok r else
    let keptTables := r.tables.filter (fun t => surviving.any (fun c => c.table == t.id))
    let keepBlock := keptTables.flatMap (·.blocks)
    let keepIdx := keptTables.flatMap (·.idxs)
    .ok { commits := surviving,
          tables := keptTables,
          blocks := r.blocks.filter keepBlock.contains,
          idxs := r.idxs.filter keepIdx.contains,
          tblIdx := r.tblIdx.filter (fun t => keptTables.any (·.id == t) || !r.tables.any (·.id == t)),
          profiles := r.profiles.filter (fun t => keptTables.any (·.id == t) || !r.tables.any (·.id == t)) }

/-! ### specification -/

/-- commits reachable from the refs through parent links, among the commits present -/
def reachableCommits (r : PRepo) (refs : List Nat) : List Nat :=
  (ancestorsOfAll r.commits (refs.filter (fun x => (r.commits.get? x).isSome))).filter (fun x => (r.commits.get? x).isSome)

/-- clauses of C12 on a before/after pair -/
def pruneVerdict (before after : PRepo) (refs : List Nat) : List String :=
  let reach := reachableCommits before refs
  let keptCommits := before.commits.filter (fun c => reach.contains c.id)
  let goneCommits := before.commits.filter (fun c => !reach.contains c.id)
  let liveTables := before.tables.filter (fun t => keptCommits.any (fun c => c.table == t.id))
  let liveBlocks := liveTables.flatMap (·.blocks)
  let liveIdxs := liveTables.flatMap (·.idxs)
  (if keptCommits.all (fun c => (after.commits.get? c.id).isSome) then [] else ["reachable-commits-kept"]) ++
  (if liveTables.all (fun t => after.tables.contains t) then [] else ["tables-of-reachable-commits-kept"]) ++
  (if liveTables.all (fun t => (!before.tblIdx.contains t.id || after.tblIdx.contains t.id) &&
                               (!before.profiles.contains t.id || after.profiles.contains t.id)) then [] else ["table-index-and-profile-kept"]) ++
  (if (liveBlocks.filter before.blocks.contains).all after.blocks.contains &&
      (liveIdxs.filter before.idxs.contains).all after.idxs.contains then [] else ["blocks-and-block-indices-kept"]) ++
  (if goneCommits.all (fun c => (after.commits.get? c.id).isNone) then [] else ["unreachable-commits-gone"]) ++
  (if goneCommits.isEmpty ||
      (after.tables.all (fun t => liveTables.contains t) &&
       after.blocks.all liveBlocks.contains && after.idxs.all liveIdxs.contains) then [] else ["orphaned-tables-and-blocks-gone"]) ++
  (if after.commits.all (fun c => before.commits.contains c) && after.tables.all before.tables.contains &&
      after.blocks.all before.blocks.contains && after.idxs.all before.idxs.contains then [] else ["nothing-created"])

end Wrgl
