/-
C17 / C03: the acceptance conditions of `ingest.IndexTable` on a received table (pkg/ingest/index.go)
and the table index it builds. Core Lean only.
-/
import WrglModel.Model.Sorter
namespace Wrgl

/-- `IndexTable` on the table's description (`cols`, `pk`) and its blocks. `checked`: the extracted
    fact that key indices and row widths are compared with the column list first. Without the checks
    an out-of-range key position is a panic (index out of range in `slice.IndicesToValues`). -/
def indexTable (checked : Bool) (cols : Row) (pk : List Nat) (blocks : List (List Row)) : Res (List (List Bytes)) :=
  if checked && pk.any (fun i => i ≥ cols.length) then .err "pk-out-of-range" else
  let rec go : List (List Row) → List (List Bytes) → Res (List (List Bytes))
    | [], acc => .ok acc.reverse
    | blk :: rest, acc =>
      match blk with
      | [] => .err "empty-block"
      | first :: _ =>
        if checked && blk.any (fun r => r.length != cols.length) then .err "row-width"
        else if blk.any (fun r => pk.any (fun i => i ≥ r.length)) then .panic "index out of range"
        else go rest ((if pk.isEmpty then first else pk.map (fun i => (first[i]?).getD [])) :: acc)
  go blocks []

end Wrgl
