/-
The object store behind `objects.Save*` / `Get*` / `Delete*` (pkg/objects/persistence.go) as a
function of its history: a finite map from keys to contents, where `Save*` binds
`prefix ++ identifier` to the content written WHATEVER the key held before, and `Delete*` unbinds it.

Four kinds are content addressed (block, block index, table, commit: identifier = hash of the
content); two are keyed by the sum of the table they describe (table index, table profile), so the
same key legitimately receives different contents over time (`wrgl profile --refresh`, re-indexing
after an interrupted receive). Compression of blocks and block indices (s2) is a parameter: contents
are compared uncompressed.
-/
import WrglModel.Model.Basic
namespace Wrgl

abbrev ObjStore := List (Bytes × Bytes)

namespace ObjStore

def get (s : ObjStore) (k : Bytes) : Option Bytes :=
  match s with
  | [] => none
  | (k', v) :: rest => if k' == k then some v else get rest k

def del (s : ObjStore) (k : Bytes) : ObjStore :=
  match s with
  | [] => []
  | (k', v) :: rest => if k' == k then del rest k else (k', v) :: del rest k

def set (s : ObjStore) (k v : Bytes) : ObjStore := (k, v) :: s.del k

def keys (s : ObjStore) : List Bytes := s.map (·.1)

end ObjStore

inductive ObjKind
  | block | blockIndex | table | tableIndex | commit | tableProfile
  deriving DecidableEq, Repr

def asciiBytes (s : String) : Bytes := s.toList.map (fun c => UInt8.ofNat c.toNat)

/-- the key prefixes of pkg/objects/persistence.go -/
def ObjKind.pfx : ObjKind → Bytes
  | .block => asciiBytes "blk/"
  | .blockIndex => asciiBytes "blkidx/"
  | .table => asciiBytes "tbl/"
  | .tableIndex => asciiBytes "tblidx/"
  | .commit => asciiBytes "com/"
  | .tableProfile => asciiBytes "tblsum/"

/-- stored under the hash of its own content (true) or under the sum of the table it describes -/
def ObjKind.byContent : ObjKind → Bool
  | .tableIndex | .tableProfile => false
  | _ => true

inductive StoreOp
  /-- `Save<kind>`; `sum` is the table sum for table index / table profile, unused otherwise -/
  | save (kind : ObjKind) (sum content : Bytes)
  /-- `Delete<kind>(sum)` -/
  | delete (kind : ObjKind) (sum : Bytes)

/-- the identifier an operation addresses -/
def StoreOp.ident (H : Bytes → Bytes) : StoreOp → Bytes
  | .save kind sum content => if kind.byContent then H content else sum
  | .delete _ sum => sum

def StoreOp.kind : StoreOp → ObjKind
  | .save k _ _ => k
  | .delete k _ => k

def StoreOp.key (H : Bytes → Bytes) (op : StoreOp) : Bytes := op.kind.pfx ++ op.ident H

def storeStep (H : Bytes → Bytes) (s : ObjStore) (op : StoreOp) : ObjStore :=
  match op with
  | .save _ _ content => s.set (op.key H) content
  | .delete _ _ => s.del (op.key H)

def storeRun (H : Bytes → Bytes) (s : ObjStore) (ops : List StoreOp) : ObjStore :=
  ops.foldl (storeStep H) s

/-- the states after each operation of a history (one per operation) -/
def storeTrace (H : Bytes → Bytes) : ObjStore → List StoreOp → List ObjStore
  | _, [] => []
  | s, op :: rest => let s' := storeStep H s op; s' :: storeTrace H s' rest

/-!
### the transactional store (`objbadger.Txn`, `RepoDir.OpenObjectsTransaction`)

The same `Save*` / `Delete*` calls on a store that only STAGES them: reads made through the
transaction see the staged operations on top of what is committed, the database itself changes at
`commit` (`Txn.PartialCommit` / `Txn.Commit`). The staged operations hold VALUES: what a `Save*` was
given when it was called, whatever its caller does with the buffer afterwards.
-/

structure TxnStore where
  /-- what the database holds (what a reader outside the transaction sees) -/
  base : ObjStore
  /-- operations staged since the last commit, newest first -/
  staged : List StoreOp

/-- what a read through the transaction sees -/
def TxnStore.view (H : Bytes → Bytes) (t : TxnStore) : ObjStore :=
  t.staged.foldr (fun op s => storeStep H s op) t.base

inductive TxnOp
  /-- a `Save*` / `Delete*` through the transaction -/
  | op (o : StoreOp)
  /-- `PartialCommit` / `Commit`: the staged operations reach the database -/
  | commit

def txnStep (H : Bytes → Bytes) (t : TxnStore) : TxnOp → TxnStore
  | .op o => { t with staged := o :: t.staged }
  | .commit => { base := t.view H, staged := [] }

def txnRun (H : Bytes → Bytes) (t : TxnStore) (ops : List TxnOp) : TxnStore :=
  ops.foldl (txnStep H) t

/-- the states after each step of a transactional history -/
def txnTrace (H : Bytes → Bytes) : TxnStore → List TxnOp → List TxnStore
  | _, [] => []
  | t, op :: rest => let t' := txnStep H t op; t' :: txnTrace H t' rest

/-- the `Save*` / `Delete*` calls of a transactional history, in order -/
def TxnOp.storeOps : List TxnOp → List StoreOp
  | [] => []
  | .op o :: rest => o :: TxnOp.storeOps rest
  | .commit :: rest => TxnOp.storeOps rest

end Wrgl
