/-
Readers that deliver a stream in arbitrary pieces (C18), and decoders written against the two ways
Go code consumes an `io.Reader`: one `Read` call, or `io.ReadFull`. Which one each decoder site
uses is an extracted fact (`Facts.readMode`). Core Lean only.
-/
import WrglModel.Model.Basic
import WrglModel.Model.Encoding
namespace Wrgl

/-- an `io.Reader` over a fixed byte string: successive `Read` calls return at most one chunk;
    `eofWithLast`: the call that returns the final bytes also returns `io.EOF` -/
structure Chunked where
  chunks : List Bytes
  eofWithLast : Bool
  deriving Repr, DecidableEq

namespace Chunked

def content (c : Chunked) : Bytes := c.chunks.flatten

/-- one `Read(buf[:n])` on the chunk list: bytes, whether `io.EOF` came with them, what remains.
    Empty chunks are skipped (a reader must not return 0, nil). -/
def readList (ewl : Bool) : List Bytes → Nat → Bytes × Bool × List Bytes
  | [], _ => ([], true, [])
  | ch :: rest, n =>
    if ch.isEmpty then readList ewl rest n
    else if n == 0 then ([], false, ch :: rest)
    else if ch.length ≤ n then
      let restEmpty := rest.all (·.isEmpty)
      (ch, ewl && restEmpty, if restEmpty then [] else rest)
    else (ch.take n, false, ch.drop n :: rest)

def read (c : Chunked) (n : Nat) : Bytes × Bool × Chunked :=
  let (b, e, r) := readList c.eofWithLast c.chunks n
  (b, e, { c with chunks := r })

/-- `io.ReadFull(r, buf[:n])`: loops over `Read` until `n` bytes or EOF. Returns the bytes read
    (fewer than `n` only at end of stream) and the remaining reader. -/
def readFull : Nat → Chunked → Nat → Bytes → Bytes × Chunked
  | 0, c, _, acc => (acc, c)
  | fuel+1, c, n, acc =>
    if n == 0 then (acc, c) else
    let (b, eof, c') := c.read n
    if b.isEmpty && eof then (acc, c')
    else if b.isEmpty then (acc, c')        -- cannot happen for n > 0 with non-empty chunks
    else readFull fuel c' (n - b.length) (acc ++ b)

def readFullN (c : Chunked) (n : Nat) : Bytes × Chunked := readFull (n + 1) c n []

end Chunked

inductive ReadMode where
  | single   -- one `Read` call, the buffer is assumed filled
  | full     -- `io.ReadFull` / a loop until complete
  deriving Repr, DecidableEq

/-- decoder sites whose read mode is extracted from the source -/
inductive Site where
  | packVersion | packHeader | packBody | parserNext | objlineBytes | tableBlock | blkIdx
  | uintList | floatList | blockCount
  deriving Repr, DecidableEq

def Site.all : List Site :=
  [.packVersion, .packHeader, .packBody, .parserNext, .objlineBytes, .tableBlock, .blkIdx,
   .uintList, .floatList, .blockCount]

/-- what the Go code at a site gets when it asks for `n` bytes: with `.single` a buffer of `n`
    bytes of which only the first chunk's worth is meaningful (the rest keeps the zero padding of a
    fresh buffer) and the error of that one call; with `.full` exactly the next `n` bytes. -/
def fetch (mode : ReadMode) (c : Chunked) (n : Nat) : Bytes × Nat × Bool × Chunked :=
  match mode with
  | .full =>
    let (b, c') := c.readFullN n
    (b ++ List.replicate (n - b.length) 0, b.length, decide (b.length < n), c')
  | .single =>
    let (b, eof, c') := c.read n
    (b ++ List.replicate (n - b.length) 0, b.length, eof, c')

/-! ### the packfile reader over a chunked stream -/

/-- `readVersion`: `"PACK"` then a 32-bit version; errors as in the Go code -/
def packVersionC (mode : Site → ReadMode) (c : Chunked) : Res (Nat × Chunked) :=
  let (b, _, e1, c1) := fetch (mode .packVersion) c 4
  if e1 then .err "pack-string" else
  if b != [80, 65, 67, 75] then .err "not-a-packfile" else
  let (v, _, e2, c2) := fetch (mode .packVersion) c1 4
  if e2 then .err "pack-version" else .ok (beNat v, c2)

/-- `decodeObjTypeAndLen` over a chunked stream: `none` = clean EOF before the first byte -/
def packHdrTailC (mode : Site → ReadMode) : Nat → Chunked → Nat → Nat → Res (Nat × Chunked)
  | 0, _, _, _ => .err "fuel"
  | fuel+1, c, bits, acc =>
    let (b, got, e, c') := fetch (mode .packHeader) c 1
    if e && (mode .packHeader == .single || got == 0) then .err "data-corrupted" else
    match b with
    | [x] =>
      let acc' := acc + (if bits < 64 then ((x.toNat % 128) * 2 ^ bits) % 2 ^ 64 else 0)
      if x.toNat < 128 then .ok (acc', c') else packHdrTailC mode fuel c' (bits + 7) acc'
    | _ => .panic "hdr-buffer"

def packHdrC (mode : Site → ReadMode) (c : Chunked) : Res (Option (Nat × Nat) × Chunked) :=
  let (b, got, e, c') := fetch (mode .packHeader) c 1
  if e && (mode .packHeader == .single || got == 0) then
    (if got == 0 || mode .packHeader == .single then .ok (none, c') else .err "hdr")
  else match b with
    | [x] =>
      match packHdrTailC mode (c'.content.length + 2) c' 4 (x.toNat % 16) with
      | .ok (u, c'') => .ok (some ((x.toNat / 16) % 8, u), c'')
      | .err e => .err e
      | .panic p => .panic p
    | _ => .panic "hdr-buffer"

/-- `ReadObject` loop: all objects of a packfile as (type, bytes) -/
def packObjectsC (mode : Site → ReadMode) : Nat → Chunked → Res (List (Nat × Bytes))
  | 0, _ => .err "fuel"
  | fuel+1, c =>
    match packHdrC mode c with
    | .ok (none, _) => .ok []
    | .ok (some (t, u), c1) =>
      let (b, c2) := c1.readFullN u          -- the body is read in a loop / ReadAll at every version
      if b.length < u then .err "unexpected-eof" else
      match packObjectsC mode fuel c2 with
      | .ok os => .ok ((t, b) :: os)
      | .err e => .err e
      | .panic p => .panic p
    | .err e => .err e
    | .panic p => .panic p

def packfileC (mode : Site → ReadMode) (c : Chunked) : Res (Nat × List (Nat × Bytes)) :=
  match packVersionC mode c with
  | .ok (v, c1) =>
    match packObjectsC mode (c.content.length + 2) c1 with
    | .ok os => .ok (v, os)
    | .err e => .err e
    | .panic p => .panic p
  | .err e => .err e
  | .panic p => .panic p

/-- whole-buffer reading of the same format (what every chunking must agree with) -/
def packfileFlat (b : Bytes) : Res (Nat × List (Nat × Bytes)) :=
  packfileC (fun _ => .full) { chunks := [b], eofWithLast := false }

end Wrgl
