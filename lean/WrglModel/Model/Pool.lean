/-
Model of the ingest worker pool (C16): `numWorkers` goroutines drain the channel of sorted blocks
(`insertBlock`), each saving its block and then adding to the shared row count and block list.
A schedule is a list of worker ids; each entry lets that worker take one step. Whether the two
shared updates happen inside one critical section is an extracted fact. Core Lean only.
-/
import WrglModel.Model.Basic
namespace Wrgl

structure PBlk where
  off : Nat
  rows : Nat
  deriving Repr, DecidableEq

inductive WSt where
  | idle                                   -- at `for blk := range i.blocks`
  | got (b : PBlk)                         -- block saved, about to update the shared state
  | readRC (b : PBlk) (rc : Nat)           -- (unguarded) read rowsCount
  | wroteRC (b : PBlk)                     -- (unguarded) wrote rowsCount
  | readSl (b : PBlk) (sl : List PBlk)     -- (unguarded) read the slice header
  | done                                   -- channel closed and drained
  deriving Repr, DecidableEq

structure Pool where
  todo : List PBlk         -- blocks still in the channel (the sorter closes it after the last one)
  ws : List WSt
  rc : Nat                 -- `i.rowsCount`
  blocks : List PBlk       -- `i.asyncBlocks`
  deriving Repr, DecidableEq

def Pool.init (blocks : List PBlk) (nWorkers : Nat) : Pool :=
  { todo := blocks, ws := List.replicate nWorkers .idle, rc := 0, blocks := [] }

/-- one step of worker `w` -/
def Pool.step (guarded : Bool) (p : Pool) (w : Nat) : Pool :=
  match p.ws[w]? with
  | none => p
  | some st =>
    let setW := fun (st' : WSt) => p.ws.set w st'
    match st with
    | .idle => (match p.todo with
        | [] => { p with ws := setW .done }
        | b :: rest => { p with todo := rest, ws := setW (.got b) })
    | .got b =>
      if guarded then { p with rc := p.rc + b.rows, blocks := p.blocks ++ [b], ws := setW .idle }
      else { p with ws := setW (.readRC b p.rc) }
    | .readRC b rc => { p with rc := rc + b.rows, ws := setW (.wroteRC b) }
    | .wroteRC b => { p with ws := setW (.readSl b p.blocks) }
    | .readSl b sl => { p with blocks := sl ++ [b], ws := setW .idle }
    | .done => p

def Pool.run (guarded : Bool) (p : Pool) (schedule : List Nat) : Pool := schedule.foldl (Pool.step guarded) p

/-- all workers have finished -/
def Pool.finished (p : Pool) : Bool := p.todo.isEmpty && p.ws.all (· == .done)

/-- what `sortBlocks` + `tbl.RowsCount` make of the shared state: blocks ordered by offset -/
def Pool.result (p : Pool) : Nat × List PBlk :=
  (p.rc, p.blocks.mergeSort (fun a b => decide (a.off ≤ b.off)))

end Wrgl

namespace Wrgl

/-- A shared buffered error channel that is only drained after the goroutines have finished
    (`Merger.errChan`, `Inserter.errChan`): each goroutine sends at most one error (`true` = it
    fails). `none` = some sender blocks forever because the buffer is full. -/
def sendAll (cap : Nat) : List Bool → Nat → Option Nat
  | [], used => some used
  | fails :: rest, used =>
    if fails then (if used < cap then sendAll cap rest (used + 1) else none) else sendAll cap rest used

end Wrgl
