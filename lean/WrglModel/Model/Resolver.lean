/-
C03: the doctor's resolver (pkg/doctor/resolver.go) as a producer of stored tables over a HISTORY of
issues. `Doctor.Resolve` makes one resolver per ref; the resolver keeps ONE `sorter.Sorter` for all
the issues of that ref (oldest commit first). The sorter is an object with two kinds of state:
what it holds (in-memory run, spilled runs, size counter: `SorterSt`) and its `PK` field, which
`Sorter.Reset` does not touch. A use for one issue is
  `reingest`:     `tbl.PK = nil` when the resolution is a key reset;
  `ingestTable`:  `srt.Reset()`, `srt.SetColumns(tbl.Columns)`,
                  `srt.PK = slice.KeyIndices(srt.Columns, tbl.PrimaryKey())`,
                  `srt.AddRow` for every row of every block, in stored order,
                  `IngestTableFromSorter(srt.Columns, srt.PK)`.
The sorter sorts, drops equal keys and labels its blocks by the key IT holds; the inserter records
the key it is handed — in the code both are `srt.PK` after the assignment above.
Core Lean only.
-/
import WrglModel.Model.SorterReuse
namespace Wrgl

/-- how an issue is to be resolved (`ReingestResolution`, `ResetPKResolution`) -/
inductive DocResolution where
  | reingest
  | resetPK
  deriving Repr, DecidableEq

/-- a stored table the diagnosis reported: what the table object says and the rows of its blocks
    in stored order (any order, repeats included — it is damaged) -/
structure DamagedTable where
  columns : Row
  pk : List Nat
  rows : List Row
  resolution : DocResolution
  deriving Repr

/-- the resolver's sorter between two issues: what it holds and its `PK` field -/
structure ResolverSt where
  srt : SorterSt
  srtPK : List Nat
  deriving Repr

/-- a new resolver (`sorter.NewSorter()`) -/
def ResolverSt.fresh : ResolverSt := { srt := SorterSt.empty, srtPK := [] }

/-- `slice.KeyIndices(columns, keys)`: for every key name the positions of the columns of that
    name (every one of them: the inner loop carries on after a hit); an error for a name no column has -/
def keyIndices (columns : Row) : List Bytes → Res (List Nat)
  | [] => .ok []
  | k :: ks =>
    let found := (List.range columns.length).filter (fun i => columns[i]? == some k)
    if found.isEmpty then .err "key not found in string slice" else
      match keyIndices columns ks with
      | .ok r => .ok (found ++ r)
      | .err e => .err e
      | .panic p => .panic p

/-- `reingest`: the key the loaded table object is left with (`tbl.PK = nil` for a key reset) -/
def keptKey (d : DamagedTable) : List Nat :=
  match d.resolution with
  | .resetPK => []
  | .reingest => d.pk

/-- the key the new table gets: the kept key through `tbl.PrimaryKey()` (`slice.IndicesToValues`:
    indexes the column list, a run-time panic when a position lies outside) and `slice.KeyIndices` -/
def resolvedKey (d : DamagedTable) : Res (List Nat) :=
  if (keptKey d).any (fun i => decide (i ≥ d.columns.length)) then .panic "slice.IndicesToValues"
  else keyIndices d.columns ((keptKey d).map (fun i => (d.columns[i]?).getD []))

/-- the name `ensureColumnNamesAreNotEmpty` tries for a column without one -/
def unnamedColumn (j : Nat) : Bytes := ("unnamed__" ++ toString j).toUTF8.toList

/-- the first `j' ≥ j` whose name no column has yet (at most `taken.length` names are taken) -/
def firstFreeName (taken : List Bytes) : Nat → Nat → Nat
  | 0, j => j
  | fuel+1, j => if taken.contains (unnamedColumn j) then firstFreeName taken fuel (j + 1) else j

/-- `ensureColumnNamesAreNotEmpty` (pkg/ingest/inserter.go, applied by every ingest to the column
    list it records): a column without a name is called `unnamed__<j>` for the first `j` (counting
    on from the last one used) that no column is called -/
def ensureNamesGo (taken : List Bytes) (j : Nat) : List Bytes → List Bytes
  | [] => []
  | c :: cs =>
    if c.isEmpty then
      let j' := firstFreeName taken (taken.length + 1) j
      unnamedColumn j' :: ensureNamesGo (unnamedColumn j' :: taken) j' cs
    else c :: ensureNamesGo taken j cs

def ensureNames (columns : Row) : Row := ensureNamesGo columns 1 columns

/-- one issue resolved by a resolver whose sorter is in state `st` (left by the issues before).
    `sortOf pk` stands for `SortRows` of a sorter whose `PK` is `pk`. Rows come out of stored blocks,
    so `AddRow` (whose error the resolver does not look at) has nothing to refuse. -/
def resolveOne (sortOf : List Nat → List Row → List Row) (blockSize : Nat) (maxCell : Option Nat) (runSize : Nat)
    (st : ResolverSt) (d : DamagedTable) : Res (StoredTable × ResolverSt) :=
  match resolvedKey d with
  | .err e => .err e
  | .panic p => .panic p
  | .ok pk =>
    -- Reset (what the sorter holds, not its key), then PK := pk: the key left by the issue before is gone
    let srtPK := pk
    match reuse (sortOf srtPK) maxCell runSize st.srt d.rows with
    | .err e => .err e
    | .panic p => .panic p
    | .ok s =>
      let blks := sortedBlocks (sortOf srtPK) blockSize srtPK [] s
      .ok ({ columns := ensureNames d.columns, pk := pk, rowsCount := (blks.map (fun b => b.rows.length)).sum,
             blocks := blks.map (·.rows), tblIdx := blks.map (·.pk) },
           { srt := s, srtPK := srtPK })

/-- all the issues of a ref, oldest first, by one resolver -/
def resolveAll (sortOf : List Nat → List Row → List Row) (blockSize : Nat) (maxCell : Option Nat) (runSize : Nat) :
    ResolverSt → List DamagedTable → Res (List StoredTable)
  | _, [] => .ok []
  | st, d :: ds =>
    match resolveOne sortOf blockSize maxCell runSize st d with
    | .err e => .err e
    | .panic p => .panic p
    | .ok (t, st') =>
      match resolveAll sortOf blockSize maxCell runSize st' ds with
      | .ok ts => .ok (t :: ts)
      | .err e => .err e
      | .panic p => .panic p

end Wrgl
