/-
Shared definitions of the wrgl model. Core Lean only (no Mathlib): this file is linked into the
`wrgl_model` driver executable.
-/
namespace Wrgl

abbrev Bytes := List UInt8
abbrev Row := List Bytes

/-- Three outcomes of a Go call: a value, a returned `error`, or a run-time panic at `site`. -/
inductive Res (α : Type) where
  | ok (a : α)
  | err (e : String)
  | panic (site : String)
  deriving Repr, DecidableEq, BEq

namespace Res
def bind {α β : Type} : Res α → (α → Res β) → Res β
  | .ok a, f => f a
  | .err e, _ => .err e
  | .panic s, _ => .panic s

instance : Monad Res where
  pure := .ok
  bind := Res.bind

def isPanic {α : Type} : Res α → Bool
  | .panic _ => true
  | _ => false

def isOk {α : Type} : Res α → Bool
  | .ok _ => true
  | _ => false

def tag {α : Type} : Res α → String
  | .ok _ => "ok"
  | .err e => "err:" ++ e
  | .panic s => "panic:" ++ s

@[simp] theorem bind_ok {α β : Type} (a : α) (f : α → Res β) : (Res.ok a >>= f) = f a := rfl
@[simp] theorem bind_err {α β : Type} (e : String) (f : α → Res β) : (Res.err e >>= f) = .err e := rfl
@[simp] theorem bind_panic {α β : Type} (s : String) (f : α → Res β) : (Res.panic s >>= f) = .panic s := rfl
@[simp] theorem pure_eq {α : Type} (a : α) : (pure a : Res α) = .ok a := rfl
end Res

/-! ## `sort.Search`, literally -/

/-- The loop of Go's `sort.Search(n, f)`: `i, j := 0, n; for i < j { h := (i+j)/2; if !f(h) {i = h+1} else {j = h} }`. -/
def searchLoop (f : Nat → Bool) : Nat → Nat → Nat → Nat
  | 0, i, _ => i
  | fuel+1, i, j =>
    if i < j then
      let h := (i + j) / 2
      if !f h then searchLoop f fuel (h+1) j else searchLoop f fuel i h
    else i

def search (n : Nat) (f : Nat → Bool) : Nat := searchLoop f (n+1) 0 n

/-! ## Byte-string order (Go's `<` on strings, `bytes.Compare`) -/

/-- lexicographic comparison of byte strings: `-1`, `0`, `1` like `bytes.Compare`. -/
def bytesCmp : Bytes → Bytes → Ordering
  | [], [] => .eq
  | [], _ :: _ => .lt
  | _ :: _, [] => .gt
  | a :: as, b :: bs => if a < b then .lt else if b < a then .gt else bytesCmp as bs

def bytesLt (a b : Bytes) : Bool := bytesCmp a b == .lt

/-- `slice.StringSliceIsLess` / `StrList.LessThan` restricted to key columns: component-wise
    lexicographic; a shorter list that is a prefix counts as less. -/
def keyCmp : List Bytes → List Bytes → Ordering
  | [], [] => .eq
  | [], _ :: _ => .lt
  | _ :: _, [] => .gt
  | a :: as, b :: bs =>
    match bytesCmp a b with
    | .lt => .lt
    | .gt => .gt
    | .eq => keyCmp as bs

def keyLt (a b : List Bytes) : Bool := keyCmp a b == .lt

/-- key of a row: the listed columns, or the whole row when there is no primary key.
    A missing column yields the empty string (callers guarantee indices are in range). -/
def keyOf (pk : List Nat) (r : Row) : List Bytes :=
  if pk.isEmpty then r else pk.map (fun i => (r[i]?).getD [])

/-! ## Commit graphs (C08, C09, C10, C11, C12) -/

structure Commit where
  id : Nat
  time : Int
  parents : List Nat
  table : Nat := 0
  deriving Repr, DecidableEq, BEq

abbrev Graph := List Commit

def Graph.get? (g : Graph) (id : Nat) : Option Commit := g.find? (fun c => c.id == id)

end Wrgl
