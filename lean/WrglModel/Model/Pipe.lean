/-
Model of one `IngestTableFromSorter` call as a pipeline (C16, histories on one sorter): the producer
goroutine started by `Sorter.SortedBlocks` takes rows out of the sorter's `current` - state that
belongs to the CALLER between two calls - builds blocks of `blkRows` rows and sends them into a
buffered channel; the workers of `insertBlock` receive, save and count; a save may fail (the
`failAt`-th save of the call); the coordinator (`ingestTableFromBlocks`) may return once it has
seen what its discipline waits for, which cancels the producer's context. The producer polls the
context before a send only: a send that has started is not cancel-aware.

A schedule is a list of actor ids: `0 .. nWorkers-1` are the workers, `nWorkers` is the producer.
Core Lean only.
-/
import WrglModel.Model.Basic
namespace Wrgl

/-- the producer goroutine of `SortedBlocks` -/
inductive PrSt where
  | building            -- in its loop, taking rows from the sorter
  | parked (b : Nat)    -- blocked in `blocks <- b`: the channel is full
  | closed              -- returned; its deferred `close(blocks)` has run
  deriving Repr, DecidableEq

/-- a worker goroutine (`insertBlock`) -/
inductive PwSt where
  | idle                -- at `for blk := range i.blocks`
  | saving (b : Nat)    -- holds a block of `b` rows, inside its store writes
  | failed              -- reported a store error and left
  | done                -- saw the channel closed and drained, and left
  deriving Repr, DecidableEq

def PwSt.terminal : PwSt → Bool
  | .failed => true
  | .done => true
  | _ => false

structure Pipe where
  src : Nat             -- rows in the sorter's `current`
  blkRows : Nat         -- rows per block
  cap : Nat             -- buffer of the sorted-block channel
  chan : List Nat       -- blocks in the channel (their row counts)
  prod : PrSt
  ws : List PwSt
  rows : Nat            -- `i.rowsCount`
  nblk : Nat            -- `len(i.asyncBlocks)`
  saves : Nat           -- saves started so far in this call
  cancelled : Bool      -- the call has returned: its deferred `cancel()` has run
  deriving Repr, DecidableEq

def Pipe.init (rows blkRows cap nWorkers : Nat) : Pipe :=
  { src := rows, blkRows := blkRows, cap := cap, chan := [], prod := .building,
    ws := List.replicate nWorkers .idle, rows := 0, nblk := 0, saves := 0, cancelled := false }

/-- one step of the producer -/
def Pipe.stepProd (p : Pipe) : Pipe :=
  match p.prod with
  | .building =>
    if p.src = 0 then { p with prod := .closed }
    else
      let k := min p.blkRows p.src
      let p' := { p with src := p.src - k }
      if p.cancelled then { p' with prod := .closed }
      else if p.chan.length < p.cap then { p' with chan := p.chan ++ [k] }
      else { p' with prod := .parked k }
  | .parked b => if p.chan.length < p.cap then { p with chan := p.chan ++ [b], prod := .building } else p
  | .closed => p

/-- one step of worker `w`; the `failAt`-th save of the call fails -/
def Pipe.stepWorker (failAt : Option Nat) (p : Pipe) (w : Nat) : Pipe :=
  match p.ws[w]? with
  | none => p
  | some st =>
    match st with
    | .idle => (match p.chan with
        | b :: rest => { p with chan := rest, ws := p.ws.set w (.saving b) }
        | [] => if p.prod = .closed then { p with ws := p.ws.set w .done } else p)
    | .saving b =>
      if failAt = some p.saves then { p with saves := p.saves + 1, ws := p.ws.set w .failed }
      else { p with saves := p.saves + 1, rows := p.rows + b, nblk := p.nblk + 1, ws := p.ws.set w .idle }
    | .failed => p
    | .done => p

def Pipe.step (failAt : Option Nat) (p : Pipe) (a : Nat) : Pipe :=
  if a < p.ws.length then p.stepWorker failAt a
  else if a = p.ws.length then p.stepProd
  else p

def Pipe.run (failAt : Option Nat) (p : Pipe) (schedule : List Nat) : Pipe :=
  schedule.foldl (Pipe.step failAt) p

/-- every worker has left -/
def Pipe.allLeft (p : Pipe) : Bool := p.ws.all PwSt.terminal

def Pipe.anyFailed (p : Pipe) : Bool := p.ws.any (· == .failed)

/-- some worker left because it saw the channel closed -/
def Pipe.anyDone (p : Pipe) : Bool := p.ws.any (· == .done)

/-- When the coordinator may return. `waitAll = true`: after `wg.Wait()`, every worker has left.
    `waitAll = false`: at the first reported error, or when every worker has left. -/
def Pipe.mayReturn (waitAll : Bool) (p : Pipe) : Bool :=
  if waitAll then p.allLeft else (p.anyFailed || p.allLeft)

/-- the call returns: the deferred `cancel()` runs -/
def Pipe.ret (p : Pipe) : Pipe := { p with cancelled := true }

/-- the caller, who owns the sorter again, empties it and loads `n` rows (`Reset()`, `SortFile`) -/
def Pipe.reload (p : Pipe) (n : Nat) : Pipe := { p with src := n }

/-- nothing of the pipeline can move any more -/
def Pipe.quiescent (p : Pipe) : Bool := p.allLeft && p.prod == .closed

/-- what the caller is told: `none` = an error, `some (rows, blocks)` = the table -/
def Pipe.outcome (p : Pipe) : Option (Nat × Nat) :=
  if p.anyFailed then none else some (p.rows, p.nblk)

/-- rows held by a worker -/
def PwSt.held : PwSt → Nat
  | .saving b => b
  | _ => 0

def PrSt.held : PrSt → Nat
  | .parked b => b
  | _ => 0

end Wrgl
