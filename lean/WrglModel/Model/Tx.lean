/-
Model of pkg/transaction/transaction.go (Commit, Discard) over the ref store and object store as
sequences of store operations, any of which may fail or be the last one before a crash (C14; the
write sequences are also used by C13). Commits are content-addressed: the commit a transaction
creates for a branch is determined by the staged commit and the parent. Core Lean only.
-/
import WrglModel.Model.Basic
namespace Wrgl

/-- identity of a commit object -/
inductive Cid where
  | none                                   -- no commit (a branch that does not exist yet)
  | orig (n : Nat)                         -- a commit that existed before
  | txc (staged : Nat) (parent : Cid)      -- staged commit re-parented by the transaction
  | adv (n : Nat) (parent : Cid)           -- an ordinary commit made on top of `parent` by another operation
  deriving Repr, DecidableEq

structure TxLog where
  branch : String
  new : Cid
  old : Cid
  deriving Repr, DecidableEq

structure TxSt where
  heads : List (String × Cid)
  staged : List (String × Nat)       -- `txs/<id>/<branch>` refs
  logs : List TxLog                  -- reflog entries carrying this transaction's id
  exists_ : Bool                     -- the transaction row exists
  committed : Bool
  objects : List Cid                 -- commit objects written by the transaction
  deriving Repr, DecidableEq

def TxSt.head (s : TxSt) (b : String) : Cid := ((s.heads.find? (fun p => p.1 == b)).map (·.2)).getD .none

def setHead (hs : List (String × Cid)) (b : String) (c : Cid) : List (String × Cid) :=
  if hs.any (fun p => p.1 == b) then hs.map (fun p => if p.1 == b then (b, c) else p) else hs ++ [(b, c)]

inductive TxOutcome where
  | ok
  | refused            -- returned an error without having written anything
  | failed             -- a store operation failed / the process died mid-way
  deriving Repr, DecidableEq

/-- per-branch part of `Commit`: two writes (SaveCommit, SaveRef with log). `budget` is the number
    of writes that still succeed (`none` = unlimited). -/
def commitBranches (statusGuard : Bool) : List String → Option Nat → TxSt → TxSt × Option Nat × Bool
  | [], budget, s => (s, budget, true)
  | b :: bs, budget, s =>
    -- skip branches already moved by this transaction (extracted fact `statusGuard` covers both repairs)
    if statusGuard && s.logs.any (fun l => l.branch == b) then commitBranches statusGuard bs budget s else
    match (s.staged.find? (fun p => p.1 == b)).map (·.2) with
    | none => commitBranches statusGuard bs budget s
    | some st =>
      let old := s.head b
      let c := Cid.txc st old
      -- write 1: SaveCommit
      match budget with
      | some 0 => (s, some 0, false)
      | _ =>
        let budget1 := budget.map (· - 1)
        let s1 := { s with objects := if s.objects.contains c then s.objects else c :: s.objects }
        -- write 2: SaveRef (ref + reflog in one SQL transaction)
        match budget1 with
        | some 0 => (s1, some 0, false)
        | _ =>
          let budget2 := budget1.map (· - 1)
          let s2 := { s1 with heads := setHead s1.heads b c, logs := s1.logs ++ [{ branch := b, new := c, old := old }] }
          commitBranches statusGuard bs budget2 s2

/-- `transaction.Commit`; `order`: the (map-iteration) order of the staged branches;
    `failAt = some k`: the (k+1)-th write fails (or the process dies before it) -/
def txCommit (statusGuard : Bool) (order : List String) (failAt : Option Nat) (s : TxSt) : TxSt × TxOutcome :=
  if !s.exists_ then (s, .refused) else
  if statusGuard && s.committed then (s, .refused) else
  match commitBranches statusGuard order failAt s with
  | (s', _, false) => (s', .failed)
  | (s', budget, true) =>
    -- last write: UpdateTransaction (status := committed)
    match budget with
    | some 0 => (s', .failed)
    | _ => ({ s' with committed := true }, .ok)

/-- `transaction.Discard`; `guardFirst`: the status is checked before the staged refs are deleted -/
def txDiscard (guardFirst : Bool) (s : TxSt) : TxSt × TxOutcome :=
  if !s.exists_ then (s, .refused) else
  if guardFirst then
    if s.committed then (s, .refused) else ({ s with staged := [], exists_ := false }, .ok)
  else
    -- staged refs are deleted first; DeleteTransaction then refuses a committed transaction
    if s.committed then ({ s with staged := [] }, .failed) else ({ s with staged := [], exists_ := false }, .ok)

/-- `transaction.Discard` with the (k+1)-th store operation failing: one `Delete` per staged ref
    (in `order`), then `DeleteTransaction` -/
def txDiscardFault (guardFirst : Bool) (order : List String) (k : Nat) (s : TxSt) : TxSt × TxOutcome :=
  if !s.exists_ then (s, .refused) else
  if guardFirst && s.committed then (s, .refused) else
  let dels := order.filter (fun b => s.staged.any (fun p => p.1 == b))
  if k < dels.length then ({ s with staged := s.staged.filter (fun p => !(dels.take k).contains p.1) }, .failed)
  else if s.committed then ({ s with staged := [] }, .failed)
  else if k == dels.length then ({ s with staged := [] }, .failed)
  else ({ s with staged := [], exists_ := false }, .ok)

/-- Another operation of the repository (`wrgl commit`, merge, pull, reapply …) moves branch `b`
    while the transaction is open, interrupted or over: an ordinary commit `n` on top of the
    branch's head (which creates the branch when it does not exist). Its reflog entry carries no
    transaction id, so the transaction's own log (`logs`), its staged refs and its status are
    untouched. -/
def txAdvance (b : String) (n : Nat) (s : TxSt) : TxSt :=
  { s with heads := setHead s.heads b (Cid.adv n (s.head b)) }

/-- a history of such commits, oldest first -/
def txAdvances (advs : List (String × Nat)) (s : TxSt) : TxSt :=
  advs.foldl (fun s p => txAdvance p.1 p.2 s) s

/-! ### specification -/

/-- number of commits made by the transaction in the history of a commit (first parents) -/
def txCommitsIn : Cid → Nat
  | .none => 0
  | .orig _ => 0
  | .txc _ p => txCommitsIn p + 1
  | .adv _ p => txCommitsIn p

/-- ordinary commits `ns` (oldest first) stacked on `c` -/
def applyAdvs (c : Cid) (ns : List Nat) : Cid := ns.foldl (fun c n => Cid.adv n c) c

/-- Where a staged branch may be once the transaction has moved it, when other operations have put
    the ordinary commits `ns` (oldest first) on the branch since the transaction was staged: the
    staged commit `st` re-parented on the head of that moment — exactly once, after any number `j`
    of those commits — with the later ones on top. Without such commits this is the single
    position `txc st c0` of `allBranchesHeads`. -/
def movedOnceHeads (c0 : Cid) (st : Nat) (ns : List Nat) : List Cid :=
  (List.range (ns.length + 1)).map (fun j => applyAdvs (Cid.txc st (applyAdvs c0 (ns.take j))) (ns.drop j))

/-- the all-branches outcome: every staged branch moved to the staged commit re-parented on the
    branch's previous head, exactly once -/
def allBranchesHeads (init : TxSt) : List (String × Cid) :=
  init.staged.foldl (fun hs (p : String × Nat) => setHead hs p.1 (Cid.txc p.2 (init.head p.1))) init.heads

end Wrgl
