/-
Model of pkg/index (hash_set.go, index.go, fanout.go, utils.go) — the on-disk set of 16-byte hashes
(C20). The file is modelled as its fan-out table and its entry list; `addToHashTable`'s in-place
shifting is modelled by its net effect (each pending hash inserted at its lower-bound offset), and
the raw file image is compared with the implementation's after every flush. Core Lean only.
-/
import WrglModel.Model.Basic
namespace Wrgl

abbrev Hash := Bytes

/-- file image: `fanout` is `[]` for a file that was never flushed, else 256 counters -/
structure HSFile where
  fanout : List Nat
  entries : List Hash
  deriving Repr, DecidableEq

structure HS where
  file : HSFile
  memFanout : List Nat     -- `s.fanout`
  size : Nat               -- `s.size`
  batch : List Hash
  batchSize : Nat
  deriving Repr

def firstByte (h : Hash) : Nat := match h with
  | b :: _ => b.toNat
  | [] => 0

/-- the comparison closure of `insertIndex`: stored hash ≥ b -/
def hashGe (h b : Hash) : Bool := bytesCmp h b != .lt

/-- `insertIndex(r, buf, b)` -/
def insertIndex (f : HSFile) (b : Hash) : Res Nat :=
  if f.fanout.isEmpty then .ok 0 else
  let b0 := firstByte b
  let startInd := if b0 > 0 then (f.fanout[b0 - 1]?).getD 0 else 0
  let endInd := (f.fanout[b0]?).getD 0
  if startInd == endInd then .ok startInd else
  if endInd < startInd || endInd > f.entries.length then .panic "hashset-read-past-end" else
  .ok (startInd + search (endInd - startInd) (fun pos => match f.entries[startInd + pos]? with
    | some h => hashGe h b
    | none => true))

/-- `indexOf`: `none` is -1 -/
def indexOf (f : HSFile) (b : Hash) : Res (Option Nat) :=
  match insertIndex f b with
  | .ok pos => match f.entries[pos]? with
    | some h => if h == b then .ok (some pos) else .ok none
    | none => .ok none
  | .err e => .err e
  | .panic p => .panic p

def zeros256 : List Nat := List.replicate 256 0

/-- `addToFanoutTable`: every counter at or above the first byte is incremented -/
def addToFanout (fan : List Nat) (hashes : List Hash) : List Nat :=
  hashes.foldl (fun f h => (f.zipIdx).map (fun (c, k) => if k ≥ firstByte h then c + 1 else c)) fan

/-- insertion sort of a group (the Go code sorts each group ascending) -/
def insertSorted (h : Hash) : List Hash → List Hash
  | [] => [h]
  | x :: xs => if bytesCmp h x == .gt then x :: insertSorted h xs else h :: x :: xs

def sortHashes (l : List Hash) : List Hash := l.foldr insertSorted []

/-- net effect of `addToHashTable`: the pending hashes whose insert offset is `o`, sorted, go in
    front of old entry `o` -/
def mergeAt (offs : List (Nat × Hash)) : Nat → List Hash → List Hash
  | o, [] => sortHashes ((offs.filter (fun p => p.1 ≥ o)).map (·.2))
  | o, e :: es => sortHashes ((offs.filter (fun p => p.1 == o)).map (·.2)) ++ e :: mergeAt offs (o + 1) es

def offsetsOf (f : HSFile) : List Hash → Res (List (Nat × Hash))
  | [] => .ok []
  | b :: bs =>
    match insertIndex f b with
    | .ok o => match offsetsOf f bs with
      | .ok r => .ok ((o, b) :: r)
      | .err e => .err e
      | .panic p => .panic p
    | .err e => .err e
    | .panic p => .panic p

/-- `Flush` -/
def HS.flush (s : HS) : Res HS :=
  match offsetsOf s.file s.batch with
  | .ok offs =>
    let entries := mergeAt offs 0 s.file.entries
    let fan := addToFanout s.memFanout s.batch
    .ok { s with file := { fanout := fan, entries := entries }, memFanout := fan,
                 size := s.size + s.batch.length, batch := [] }
  | .err e => .err e
  | .panic p => .panic p

/-- `Add` -/
def HS.add (s : HS) (h : Hash) : Res HS :=
  match indexOf s.file h with
  | .ok (some _) => .ok s
  | .ok none =>
    let s' := { s with batch := s.batch ++ [h] }
    if s'.batch.length ≥ s.batchSize then s'.flush else .ok s'
  | .err e => .err e
  | .panic p => .panic p

/-- `Has` -/
def HS.has (s : HS) (h : Hash) : Res Bool :=
  match indexOf s.file h with
  | .ok r => .ok r.isSome
  | .err e => .err e
  | .panic p => .panic p

/-- `NewHashSet(file, batchSize)` (also models closing and reopening; a pending batch is lost) -/
def HS.open_ (f : HSFile) (batchSize : Nat) : HS :=
  let bs := if batchSize == 0 then 1024 else batchSize
  if f.fanout.isEmpty then { file := f, memFanout := zeros256, size := 0, batch := [], batchSize := bs }
  else { file := f, memFanout := f.fanout, size := (f.fanout[255]?).getD 0, batch := [], batchSize := bs }

end Wrgl
