/-
Model for C13: operations as sequences of store writes (object store and ref store), a crash is a
prefix of the sequence, and `Consistent` is the invariant a reopened repository must satisfy. The
order in which each operation issues its writes is a regenerated fact (`Facts.writeOrder*`).
Core Lean only.
-/
import WrglModel.Model.Basic
namespace Wrgl

/-- the objects that may exist and how they reference each other (content addressed, so the
    links of an object never change) -/
structure Universe where
  commits : List (Nat × List Nat × Nat)        -- id, parents, table
  tables : List (Nat × List Nat × List Nat)     -- id, blocks, block indices
  deriving Repr

def Universe.commit? (u : Universe) (c : Nat) : Option (List Nat × Nat) :=
  (u.commits.find? (fun x => x.1 == c)).map (fun x => (x.2.1, x.2.2))
def Universe.table? (u : Universe) (t : Nat) : Option (List Nat × List Nat) :=
  (u.tables.find? (fun x => x.1 == t)).map (fun x => (x.2.1, x.2.2))

/-- what a reopened repository holds -/
structure RState where
  blks : List Nat
  idxs : List Nat
  tbls : List Nat
  tblIdx : List Nat
  tblSum : List Nat
  coms : List Nat
  refs : List (Nat × Nat)        -- ref id ↦ commit
  deriving Repr, DecidableEq

inductive WOp where
  | blk (b : Nat) | blkidx (i : Nat) | tbl (t : Nat) | tblidx (t : Nat) | tblsum (t : Nat) | com (c : Nat)
  | ref (r c : Nat)
  | delBlk (b : Nat) | delBlkidx (i : Nat) | delTbl (t : Nat) | delTblidx (t : Nat) | delTblsum (t : Nat) | delCom (c : Nat)
  deriving Repr, DecidableEq

def addN (l : List Nat) (x : Nat) : List Nat := if l.contains x then l else x :: l

def RState.apply (s : RState) : WOp → RState
  | .blk b => { s with blks := addN s.blks b }
  | .blkidx i => { s with idxs := addN s.idxs i }
  | .tbl t => { s with tbls := addN s.tbls t }
  | .tblidx t => { s with tblIdx := addN s.tblIdx t }
  | .tblsum t => { s with tblSum := addN s.tblSum t }
  | .com c => { s with coms := addN s.coms c }
  | .ref r c => { s with refs := (r, c) :: s.refs.filter (fun p => p.1 != r) }
  | .delBlk b => { s with blks := s.blks.filter (· != b) }
  | .delBlkidx i => { s with idxs := s.idxs.filter (· != i) }
  | .delTbl t => { s with tbls := s.tbls.filter (· != t) }
  | .delTblidx t => { s with tblIdx := s.tblIdx.filter (· != t) }
  | .delTblsum t => { s with tblSum := s.tblSum.filter (· != t) }
  | .delCom c => { s with coms := s.coms.filter (· != c) }

def RState.applyAll (s : RState) (ws : List WOp) : RState := ws.foldl RState.apply s

/-- the clauses of C13 on a reopened repository. `heads`: refs written by commit / merge, whose
    commit must have its table. -/
def consistentClauses (u : Universe) (heads : List Nat) (s : RState) : List String :=
  (if s.refs.all (fun p => s.coms.contains p.2) then [] else ["every-ref-resolves-to-an-existing-commit"]) ++
  (if s.coms.all (fun c => match u.commit? c with
      | some (ps, _) => ps.all s.coms.contains
      | none => false) then [] else ["every-stored-commit-has-all-its-parents"]) ++
  (if s.tbls.all (fun t => match u.table? t with
      | some (bs, is) => bs.all s.blks.contains && is.all s.idxs.contains && s.tblIdx.contains t
      | none => false) then [] else ["every-present-table-is-fully-usable"]) ++
  (if s.refs.all (fun p => !heads.contains p.1 || (match u.commit? p.2 with
      | some (_, t) => s.tbls.contains t
      | none => false)) then [] else ["branch-heads-have-their-table"])

def Consistent (u : Universe) (heads : List Nat) (s : RState) : Prop := consistentClauses u heads s = []

/-! ### write sequences of the operations, in the extracted order -/

/-- blocks and their indices, block by block, in the order `insertBlock` saves the two -/
def blockWrites (order : List String) (blocks idxs : List Nat) : List WOp :=
  (blocks.zip idxs).flatMap (fun (b, i) => order.filterMap (fun k =>
    if k == "blk" then some (.blk b) else if k == "blkidx" then some (.blkidx i) else none))

/-- `ingestTableFromBlocks`: `order` lists "blocks", "tblidx", "tblsum", "tbl" as the source has them -/
def ingestWrites (blockOrder order : List String) (t : Nat) (blocks idxs : List Nat) (withProfile : Bool) : List WOp :=
  order.flatMap (fun k =>
    if k == "blocks" then blockWrites blockOrder blocks idxs
    else if k == "tblidx" then [.tblidx t]
    else if k == "tblsum" then (if withProfile then [.tblsum t] else [])
    else if k == "tbl" then [.tbl t]
    else [])

/-- `commit` (commit_cmd.go): the table, the commit object, the branch -/
def commitWrites (blockOrder ingestOrder cmdOrder : List String) (t : Nat) (blocks idxs : List Nat) (c r : Nat) : List WOp :=
  cmdOrder.flatMap (fun k =>
    if k == "table" then ingestWrites blockOrder ingestOrder t blocks idxs true
    else if k == "com" then [.com c]
    else if k == "ref" then [.ref r c]
    else [])

/-- receipt of one table by `ObjectReceiver.saveTable` (its blocks arrived before): `order` lists
    "index", "tblsum", "tbl"; "index" = IndexTable = block indices then table index -/
def receiveTableWrites (indexOrder order : List String) (t : Nat) (idxs : List Nat) : List WOp :=
  order.flatMap (fun k =>
    if k == "index" then indexOrder.flatMap (fun j =>
      if j == "blkidx" then idxs.map .blkidx else if j == "tblidx" then [.tblidx t] else [])
    else if k == "tblsum" then [.tblsum t]
    else if k == "tbl" then [.tbl t]
    else [])

end Wrgl
