/-
`Sorter.AddRow` when a spill can fail (pkg/sorter/sorter.go: `writeChunk` returns an error because
the temporary file cannot be created or written). The error is returned to the caller; the rows of
the run stay in memory — only the size counter has been reset — so a caller that carries on
(pkg/ingest `reingestTable`, pkg/doctor `ingestTable` ignore the error) or retries loses nothing:
the rows are spilled by a later attempt or sorted in memory at the end. Core Lean only.
-/
import WrglModel.Model.Sorter
namespace Wrgl

/-- the guard at the head of `AddRow` -/
def cellTooLong (maxCell : Option Nat) (row : Row) : Bool :=
  match maxCell with
  | some m => row.any (fun c => decide (c.length > m))
  | none => false

/-- one `AddRow`; `spillOk = false`: a spill attempted by this call fails. The flag of the result
    says whether this call returned the spill's error. -/
def addRowF (sortFn : List Row → List Row) (maxCell : Option Nat) (runSize : Nat) (st : SorterSt)
    (row : Row) (spillOk : Bool) : Res (SorterSt × Bool) :=
  if spillOk then
    match addRow sortFn maxCell runSize st row with
    | .ok st' => .ok (st', false)
    | .err e => .err e
    | .panic p => .panic p
  else if cellTooLong maxCell row then .err "cell-too-long"
  else if st.size + rowSize row ≥ runSize then
    .ok ({ chunks := st.chunks, current := st.current ++ [row], size := 0 }, true)
  else .ok ({ chunks := st.chunks, current := st.current ++ [row], size := st.size + rowSize row }, false)

/-- rows `idx, idx+1, …` added by a caller that carries on after a failed spill; `bad i`: no spill
    file can be created while row `i` is added. Returns the state and the indices of the calls that
    returned the spill's error. -/
def addRowsF (sortFn : List Row → List Row) (maxCell : Option Nat) (runSize : Nat) (bad : Nat → Bool) :
    Nat → SorterSt → List Row → Res (SorterSt × List Nat)
  | _, st, [] => .ok (st, [])
  | idx, st, r :: rs =>
    match addRowF sortFn maxCell runSize st r (!bad idx) with
    | .ok (st', failed) =>
      match addRowsF sortFn maxCell runSize bad (idx + 1) st' rs with
      | .ok (st'', fs) => .ok (st'', if failed then idx :: fs else fs)
      | .err e => .err e
      | .panic p => .panic p
    | .err e => .err e
    | .panic p => .panic p

/-- every row handed to the sorter is held by it (in a spilled run or in memory), whether or not
    spills failed on the way -/
def SorterSt.held (st : SorterSt) : List Row := st.chunks.flatten ++ st.current

end Wrgl
