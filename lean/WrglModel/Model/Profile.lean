/-
Model of the table profile encoding (C06): pkg/objects/table_profile.go `(*TableProfile).WriteTo`,
value_counts.go `writeValueCounts`, float_list.go `Encode`, objline scalars.
Floating-point statistics are carried as their 64-bit patterns (the format stores `math.Float64bits`),
so the model needs no floating-point arithmetic. Core Lean only.

The writer is modelled at the level the property speaks about: every text value (a column name, a top
value) is length-prefixed with 16 bits, and a text that does not fit is REFUSED. For the column name the
refusal is `objline.WriteString`'s guard (extracted fact `writeStringGuard`); for a top value the
property demands the same.
-/
import WrglModel.Model.Encoding
namespace Wrgl

structure ColProfile where
  name : Bytes
  naCount : Nat
  min : Option Nat
  max : Option Nat
  mean : Option Nat
  median : Option Nat
  stdDeviation : Option Nat
  percentiles : Option (List Nat)
  minStrLen : Nat
  maxStrLen : Nat
  avgStrLen : Nat
  topValues : Option (List (Bytes × Nat))
  deriving Repr, DecidableEq

structure ProfileObj where
  version : Nat
  rowsCount : Nat
  columns : List ColProfile
  deriving Repr, DecidableEq

/-- the field table written into every profile (`profileFields`, in order; indices are 1-based) -/
def profileFieldNames : List String :=
  ["name", "naCount", "min", "max", "mean", "median", "stdDeviation", "percentiles",
   "minStrLen", "maxStrLen", "avgStrLen", "topValues"]

/-- a non-empty field: its 16-bit index, then the content; an empty field is skipped -/
def pfield (idx : Nat) (empty : Bool) (content : Bytes) : Bytes :=
  if empty then [] else u16be idx ++ content

def optF64 (idx : Nat) : Option Nat → Bytes
  | none => []
  | some bits => u16be idx ++ u64be bits

def floatListEncode (l : List Nat) : Bytes := u32be l.length ++ l.flatMap u64be

/-- the entries of `writeValueCounts`: 32-bit count, 16-bit length, the value -/
def valueCountEntries : List (Bytes × Nat) → Res Bytes
  | [] => .ok []
  | (v, c) :: rest =>
    match writeString true v with
    | .ok s =>
      (match valueCountEntries rest with
       | .ok r => .ok (u32be c ++ s ++ r)
       | .err e => .err e
       | .panic p => .panic p)
    | .err e => .err e
    | .panic p => .panic p

def topValuesBytes : Option (List (Bytes × Nat)) → Res Bytes
  | none => .ok []
  | some l =>
    match valueCountEntries l with
    | .ok b => .ok (u16be 12 ++ u32be l.length ++ b)
    | .err e => .err e
    | .panic p => .panic p

def nameBytes (guard : Bool) (n : Bytes) : Res Bytes :=
  if n.isEmpty then .ok []
  else match writeString guard n with
    | .ok s => .ok (u16be 1 ++ s)
    | .err e => .err e
    | .panic p => .panic p

/-- one column record: the non-empty fields in table order, then a zero index -/
def colBytes (guard : Bool) (c : ColProfile) : Res Bytes :=
  match nameBytes guard c.name with
  | .ok nm =>
    (match topValuesBytes c.topValues with
     | .ok tv =>
       .ok (nm ++ pfield 2 (c.naCount == 0) (u32be c.naCount) ++
            optF64 3 c.min ++ optF64 4 c.max ++ optF64 5 c.mean ++ optF64 6 c.median ++ optF64 7 c.stdDeviation ++
            (match c.percentiles with
             | none => []
             | some l => u16be 8 ++ floatListEncode l) ++
            pfield 9 (c.minStrLen == 0) (u16be c.minStrLen) ++ pfield 10 (c.maxStrLen == 0) (u16be c.maxStrLen) ++
            pfield 11 (c.avgStrLen == 0) (u16be c.avgStrLen) ++ tv ++ u16be 0)
     | .err e => .err e
     | .panic p => .panic p)
  | .err e => .err e
  | .panic p => .panic p

def colsBytes (guard : Bool) : List ColProfile → Res Bytes
  | [] => .ok []
  | c :: cs =>
    match colBytes guard c with
    | .ok b =>
      (match colsBytes guard cs with
       | .ok bs => .ok (b ++ bs)
       | .err e => .err e
       | .panic p => .panic p)
    | .err e => .err e
    | .panic p => .panic p

/-- `(*TableProfile).WriteTo` -/
def profileBytes (guard : Bool) (p : ProfileObj) : Res Bytes :=
  match colsBytes guard p.columns with
  | .ok cols =>
    .ok (field "version" (u32be p.version) ++
         field "fields" (u32be profileFieldNames.length ++ encodeCells (profileFieldNames.map strBytes)) ++
         field "rowsCount" (u32be p.rowsCount) ++ field "colsCount" (u32be p.columns.length) ++
         field "columns" cols)
  | .err e => .err e
  | .panic p => .panic p

/-- every text of the profile fits its 16-bit length prefix -/
def topValuesFit : Option (List (Bytes × Nat)) → Bool
  | none => true
  | some l => l.all (fun vc => decide (vc.1.length ≤ 65535))

def ColProfile.textsFit (c : ColProfile) : Bool :=
  decide (c.name.length ≤ 65535) && topValuesFit c.topValues

def ProfileObj.textsFit (p : ProfileObj) : Bool := p.columns.all ColProfile.textsFit

end Wrgl
