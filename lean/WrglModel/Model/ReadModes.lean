import WrglModel.Model.Chunked
import WrglModel.Gen.Facts
namespace Wrgl

def Site.name : Site → String
  | .packVersion => "packVersion" | .packHeader => "packHeader" | .packBody => "packBody"
  | .parserNext => "parserNext" | .objlineBytes => "objlineBytes" | .tableBlock => "tableBlock"
  | .blkIdx => "blkIdx" | .uintList => "uintList" | .floatList => "floatList" | .blockCount => "blockCount"

/-- the read mode of every decoder site, from the regenerated facts -/
def Facts.readMode (s : Site) : ReadMode :=
  if Facts.readModeSingleSites.contains s.name then .single else .full

end Wrgl
