/-
C05 with column-changing branches: the merged column layout by NAME (pkg/diff/coldiff.go decides
the left-to-right order of the merged columns, which the property leaves open; everything else —
which columns a layer added or removed, how a stored row is re-arranged into the merged layout —
is determined by the names), and `tryResolve` over it. Core Lean only.
-/
import WrglModel.Model.Merge
import WrglModel.Model.Sync
namespace Wrgl

/-- the merged columns: the base's, then every new name in order of first appearance -/
def mergedNames (base : Row) (others : List Row) : Row :=
  base ++ (others.flatten.filter (fun n => !base.contains n)).eraseDups

/-- `RearrangeRow` / `RearrangeBaseRow`: the cell of each merged column, empty when the table does
    not have the column -/
def rearrange (names cols : Row) (row : Row) : Row :=
  names.map (fun n => (((cols.zip row).find? (fun p => p.1 == n)).map (·.2)).getD [])

/-- `tryResolve` with the distinct present rows supplied by the caller: their identity is decided
    on the stored rows (row hashes), before re-arrangement into the merged layout -/
def tryResolveL (nCols : Nat) (added removed : Nat → Nat → Bool) (base : Option Row) (others : List (Option Row))
    (rows : List (Nat × Row)) : Resolution :=
  let removedLayers : List Nat :=
    if base.isNone then [] else (others.zipIdx).filterMap (fun (o, i) => if o.isNone then some i else none)
  let cells := (List.range nCols).map (fun i =>
    let baseCell := base.map (fun b => (b[i]?).getD [])
    let rem0 := removedLayers.any (fun l => !added l i)
    let init : CellSt := { add := none, mod := none, rem := rem0, val := baseCell.getD [], unresolved := false }
    rows.foldl (fun st (lr : Nat × Row) => cellStep baseCell (added lr.1 i) (removed lr.1 i) ((lr.2[i]?).getD []) st) init)
  let row := cells.map (·.val)
  let unresolved := ((cells.zipIdx).filter (fun (c, _) => c.unresolved)).map (·.2)
  if !removedLayers.isEmpty then .conflict row unresolved
  else if unresolved.isEmpty then .resolved row else .conflict row unresolved

theorem tryResolve_eq_L (nCols : Nat) (added removed : Nat → Nat → Bool) (m : MRec) :
    tryResolve nCols added removed m = tryResolveL nCols added removed m.base m.others (uniqRows m.others) := rfl

/-- `Resolve` for one key when the tables have their own column lists: `baseCols`, `cols[l]` the
    columns of the base and of layer `l`; `origBase`, `origOthers` the stored rows -/
def resolveRecCols (baseCols : Row) (cols : List Row) (origBase : Option Row) (origOthers : List (Option Row)) : Resolution :=
  let names := mergedNames baseCols cols
  let present := origOthers.filterMap id
  let unchanged := present.filter (fun r => some r == origBase)
  if present.isEmpty || unchanged.length == present.length then .removed else
  let colsOf := fun (l : Nat) => (cols[l]?).getD []
  let added := fun (l i : Nat) => match names[i]? with
    | some n => (colsOf l).contains n && !baseCols.contains n
    | none => false
  let removed := fun (l i : Nat) => match names[i]? with
    | some n => baseCols.contains n && !(colsOf l).contains n
    | none => false
  let base' := origBase.map (rearrange names baseCols)
  let others' := (origOthers.zipIdx).map (fun (o, l) => o.map (rearrange names (colsOf l)))
  let rows := (uniqRows origOthers).map (fun (lr : Nat × Row) => (lr.1, rearrange names (colsOf lr.1) lr.2))
  tryResolveL names.length added removed base' others' rows

/-- with identical column lists this is `resolveRec` -/
theorem resolveRecCols_same_example :
    resolveRecCols [[1], [2]] [[[1], [2]], [[1], [2]]] (some [[7], [8]]) [some [[7], [9]], some [[7], [8]]]
      = resolveRec 2 (fun _ _ => false) (fun _ _ => false) { key := [[7]], base := some [[7], [8]], others := [some [[7], [9]], some [[7], [8]]] } := by
  decide

/-! ### the per-cell decision chain as a regenerated guard table (extract/paths.go, C05) -/

/-- the situation of one (column, row) step of `tryResolve`'s inner loop -/
structure CellEnv where
  isAdded : Bool
  isRemoved : Bool
  add : Option Bytes
  mod : Option Bytes
  rem : Bool
  baseCell : Option Bytes
  x : Bytes

def cellAtom (e : CellEnv) : String → Option Bool
  | "_, ok := r.cd.Added[layer][i]; ok" => some e.isAdded
  | "_, ok := r.cd.Removed[layer][i]; ok" => some e.isRemoved
  | "add == nil" => some e.add.isNone
  | "add != nil" => some e.add.isSome
  | "*add != row[i]" => some (e.add != some e.x)
  | "mod == nil" => some e.mod.isNone
  | "*mod != row[i]" => some (e.mod != some e.x)
  | "baseRow == nil || baseRow[i] != row[i]" => some (e.baseCell != some e.x)
  | "rem" => some e.rem
  | _ => none

/-- the model's step on the same situation, from a not-yet-unresolved state -/
def CellEnv.stepUnresolves (e : CellEnv) : Bool :=
  (cellStep e.baseCell e.isAdded e.isRemoved e.x
    { add := e.add, mod := e.mod, rem := e.rem, val := [], unresolved := false }).unresolved

end Wrgl
