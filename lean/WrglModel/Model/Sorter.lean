/-
Model of pkg/sorter/sorter.go (C19, C01) and of the ingest pipeline on top of it (C01, C02, C03):
AddRow/spill, SortRows, the k-way merge of SortedBlocks/SortedRows, de-duplication of adjacent
equal keys, block cutting, block keys, column removal. Core Lean only.
-/
import WrglModel.Model.Basic
namespace Wrgl

/-! ### comparison used by `SortRows` / `StrList.LessThan` / `StringSliceIsLess` -/

/-- `StringSliceIsLess(pk, a, b)`: key columns in key order, all columns when keyless -/
def rowLt (pk : List Nat) (a b : Row) : Bool := keyLt (keyOf pk a) (keyOf pk b)

/-! ### k-way merge: first minimal head wins, chunks scanned in order -/

/-- first index whose head is minimal (ties: earliest chunk), with that head -/
def minHead {α : Type} (lt : α → α → Bool) : List (List α) → Option (Nat × α)
  | [] => none
  | c :: cs =>
    match c, minHead lt cs with
    | [], r => r.map (fun p => (p.1 + 1, p.2))
    | x :: _, none => some (0, x)
    | x :: _, some (j, m) => if lt m x then some (j + 1, m) else some (0, x)

def popAt {α : Type} : List (List α) → Nat → List (List α)
  | [], _ => []
  | c :: cs, 0 => c.tail :: cs
  | c :: cs, n+1 => c :: popAt cs n

def totalLen {α : Type} (cs : List (List α)) : Nat := (cs.map List.length).sum

def kway {α : Type} (lt : α → α → Bool) : Nat → List (List α) → List α
  | 0, _ => []
  | f+1, cs =>
    match minHead lt cs with
    | none => []
    | some (i, x) => x :: kway lt f (popAt cs i)

/-! ### sorter state -/

structure SorterSt where
  chunks : List (List Row)     -- spilled, each sorted by `SortRows`
  current : List Row            -- in-memory run, insertion order
  size : Nat
  deriving Repr

def rowSize (r : Row) : Nat := 4 + (r.map (fun c => c.length + 2)).sum

/-- `Sorter.AddRow`; `maxCell` is the extracted guard (`none`: no guard in the code),
    `sortFn` stands for `SortRows` (an unstable sort) -/
def addRow (sortFn : List Row → List Row) (maxCell : Option Nat) (runSize : Nat) (st : SorterSt) (row : Row) :
    Res SorterSt :=
  match maxCell with
  | some m => if row.any (fun c => decide (c.length > m)) then .err "cell-too-long" else
    let size := st.size + rowSize row
    let cur := st.current ++ [row]
    if size ≥ runSize then .ok { chunks := st.chunks ++ [sortFn cur], current := [], size := 0 }
    else .ok { chunks := st.chunks, current := cur, size := size }
  | none =>
    let size := st.size + rowSize row
    let cur := st.current ++ [row]
    if size ≥ runSize then .ok { chunks := st.chunks ++ [sortFn cur], current := [], size := 0 }
    else .ok { chunks := st.chunks, current := cur, size := size }

def addRows (sortFn : List Row → List Row) (maxCell : Option Nat) (runSize : Nat) :
    SorterSt → List Row → Res SorterSt
  | st, [] => .ok st
  | st, r :: rs =>
    match addRow sortFn maxCell runSize st r with
    | .ok st' => addRows sortFn maxCell runSize st' rs
    | .err e => .err e
    | .panic p => .panic p

/-- merge of the spilled chunks and the (sorted) in-memory run; the in-memory run is consulted
    last and wins only on strictly less, i.e. it is the last chunk -/
def mergedRows (sortFn : List Row → List Row) (pk : List Nat) (st : SorterSt) : List Row :=
  let cs := st.chunks ++ [sortFn st.current]
  kway (rowLt pk) (totalLen cs) cs

/-- keep a row iff it is the first or its key differs from the previous row's key
    (`pkIsDifferent` with `prevRowPK`, after the first-row fix) -/
def dedupAdj (pk : List Nat) : Option (List Bytes) → List Row → List Row
  | _, [] => []
  | prev, r :: rs =>
    let k := keyOf pk r
    if prev == some k then dedupAdj pk prev rs else r :: dedupAdj pk (some k) rs

def removeCols (removed : List Nat) (r : Row) : Row :=
  (r.zipIdx).filterMap (fun (c, i) => if removed.contains i then none else some c)

/-- cut into blocks of `n` rows -/
def cutBlocks {α : Type} (n : Nat) : Nat → List α → List (List α)
  | 0, _ => []
  | fuel+1, l => if l.isEmpty then [] else
    if n == 0 then [l] else l.take n :: cutBlocks n fuel (l.drop n)

/-- one emitted `sorter.Block` -/
structure OutBlock where
  offset : Nat
  rows : List Row        -- after column removal
  pk : List Bytes        -- key of the first row (from the row before column removal)
  deriving Repr, DecidableEq

/-- `Sorter.SortedBlocks(removedCols)` as a list; `pkIdx` are `pkIndices()`: the key columns or
    all columns of `nCols` -/
def sortedBlocks (sortFn : List Row → List Row) (blockSize : Nat) (pk : List Nat) (removed : List Nat)
    (st : SorterSt) : List OutBlock :=
  let kept := dedupAdj pk none (mergedRows sortFn pk st)
  let blks := cutBlocks blockSize (kept.length + 1) kept
  (blks.zipIdx).map (fun (b, i) =>
    { offset := i, rows := b.map (removeCols removed),
      pk := match b with
        | r :: _ => keyOf pk r
        | [] => [] })

/-- `Sorter.SortedRows(removedCols)`: same rows, as decoded rows, in blocks of `blockSize` -/
def sortedRows (sortFn : List Row → List Row) (blockSize : Nat) (pk : List Nat) (removed : List Nat)
    (st : SorterSt) : List (List Row) :=
  let kept := dedupAdj pk none (mergedRows sortFn pk st)
  (cutBlocks blockSize (kept.length + 1) kept).map (fun b => b.map (removeCols removed))

/-! ### ingest: what ends up in the table -/

structure StoredTable where
  columns : Row
  pk : List Nat
  rowsCount : Nat
  blocks : List (List Row)
  tblIdx : List (List Bytes)
  deriving Repr, DecidableEq

/-- `ingest.IngestTable` (sorter → inserter → table), independent of the number of workers because
    blocks are re-ordered by their offset (`sortBlocks`) — see C16 for the concurrency argument. -/
def ingestTable (sortFn : List Row → List Row) (blockSize : Nat) (maxCell : Option Nat) (runSize : Nat)
    (columns : Row) (pk : List Nat) (rows : List Row) : Res StoredTable :=
  match addRows sortFn maxCell runSize { chunks := [], current := [], size := 0 } rows with
  | .err e => .err e
  | .panic p => .panic p
  | .ok st =>
    let blks := sortedBlocks sortFn blockSize pk [] st
    .ok { columns := columns, pk := pk, rowsCount := (blks.map (fun b => b.rows.length)).sum,
          blocks := blks.map (·.rows), tblIdx := blks.map (·.pk) }

/-- the reference sort used by the driver (any correct sort gives the same result when keys are
    unique; with duplicate keys the Go sort is unstable and results are compared up to the choice
    of representative) -/
def refSort (pk : List Nat) (l : List Row) : List Row := l.mergeSort (fun a b => !rowLt pk b a)

end Wrgl
