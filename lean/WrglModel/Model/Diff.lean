/-
Model of pkg/diff/iterate.go, pkg/diff/diff.go (diffRows) and objects.BlockIndex.Get (C04).
The diff code never reads rows: it works on the table indices (first key of every block) and the
block indices (per row: hash of the key, hash of the row). Core Lean only.
-/
import WrglModel.Model.Basic
namespace Wrgl

/-- a decoded `objects.BlockIndex`: `rows[i] = (pkSum, rowSum)` in row order, `sortedOff` the
    permutation that sorts rows by `pkSum`. -/
structure BIdx where
  sortedOff : List Nat
  rows : List (Bytes × Bytes)
  deriving Repr, DecidableEq

/-- what the differ sees of a table -/
structure DTable where
  blocks : List BIdx            -- one block index per block (`tbl.Blocks`/`tbl.BlockIndices`)
  tblIdx : List (List Bytes)    -- table index: key of the first row of every block
  deriving Repr

/-- `BlockIndex.Get(pkSum)`: bisection over `sortedOff`; `none` = `(0, nil)`. -/
def BIdx.get (idx : BIdx) (pk : Bytes) : Res (Option (Nat × Bytes)) :=
  let n := idx.rows.length
  let ok := (List.range n).all (fun i => match idx.sortedOff[i]? with
    | some j => decide (j < n)
    | none => false)
  if !ok then .panic "blockindex-get-index" else
  let i := search n (fun i => match idx.sortedOff[i]? with
    | some j => match idx.rows[j]? with
      | some (p, _) => bytesCmp p pk != .lt
      | none => true
    | none => true)
  if i ≥ n then .ok none
  else match idx.sortedOff[i]? with
    | some j => match idx.rows[j]? with
      | some (p, s) => if p == pk then .ok (some (j, s)) else .ok none
      | none => .panic "blockindex-get-index"
    | none => .panic "blockindex-get-index"

/-- the inner `for k, s := range tblIdx1[off1]` loop: compares `tblIdx2[j]` (first argument)
    with `tblIdx1[off1]` component by component. Go panics when `tblIdx2[j]` is shorter. -/
def cmpKeyComp : List Bytes → List Bytes → Res Ordering
  | _, [] => .ok .eq
  | [], _ :: _ => .panic "tblidx-component"
  | a :: as, s :: ss =>
    match bytesCmp a s with
    | .gt => .ok .gt
    | .lt => .ok .lt
    | .eq => cmpKeyComp as ss

/-- the `findStart:` loop from `j`; `-1` when it runs off the end -/
def findStart (idx2 : List (List Bytes)) (s : List Bytes) : Nat → Nat → Res Int
  | 0, _ => .ok (-1)
  | fuel+1, j =>
    match idx2[j]? with
    | none => .ok (-1)
    | some v =>
      match cmpKeyComp v s with
      | .ok .gt => .ok (if j = 0 then 0 else (j : Int) - 1)
      | .ok .lt => findStart idx2 s fuel (j+1)
      | .ok .eq => .ok j
      | .err e => .err e
      | .panic p => .panic p

/-- the `findEnd:` loop from `j`; `-1` when it runs off the end -/
def findEnd (idx2 : List (List Bytes)) (s' : List Bytes) : Nat → Nat → Res Int
  | 0, _ => .ok (-1)
  | fuel+1, j =>
    match idx2[j]? with
    | none => .ok (-1)
    | some v =>
      match cmpKeyComp v s' with
      | .ok .gt => .ok j
      | .ok .lt => findEnd idx2 s' fuel (j+1)
      | .ok .eq => .ok j
      | .err e => .err e
      | .panic p => .panic p

/-- `findOverlappingBlocks(tblIdx1, tblIdx2, off1, prevEnd)`; `emptyGuard` is the extracted fact
    "the function returns (0,0) when table 2 has no block". -/
def findOverlappingBlocks (emptyGuard : Bool) (idx1 idx2 : List (List Bytes)) (off1 prevEnd : Nat) :
    Res (Int × Int) :=
  let n := idx2.length
  if emptyGuard && n == 0 then .ok (0, 0) else
  let prevEnd := if prevEnd == 0 then 1 else prevEnd
  match idx1[off1]? with
  | none => if prevEnd - 1 < n then .panic "tblidx1-index" else .ok ((n : Int) - 1, n)
  | some s =>
    match findStart idx2 s (n + 1) (prevEnd - 1) with
    | .err e => .err e
    | .panic p => .panic p
    | .ok start =>
      if start == -1 then .ok ((n : Int) - 1, n) else
      if off1 + 1 < idx1.length then
        match idx1[off1 + 1]? with
        | none => .panic "tblidx1-index"
        | some s' =>
          match findEnd idx2 s' (n + 1) start.toNat with
          | .err e => .err e
          | .panic p => .panic p
          | .ok e => .ok (start, if e == -1 then (n : Int) else e)
      else .ok (start, n)

/-- `getBlockIndices`: the block indices of blocks `[start, end)` of table 2, reusing the previous
    window's slice. `none` is a nil slice. Entries are `Option BIdx` because a reused slot may be
    a nil pointer. -/
def getBlockIndices (blocks : List BIdx) (start end_ : Int) (prevSl : Option (List (Option BIdx)))
    (prevStart prevEnd : Int) : Res (Option (List (Option BIdx))) :=
  if start ≥ blocks.length || start == end_ then .ok none else
  if end_ < start then .panic "makeslice-negative" else
  let len := (end_ - start).toNat
  let prev := prevSl.getD []
  -- copy(sl, prevSl[start-prevStart:])
  let copied : Res (List (Option BIdx)) :=
    if prevEnd > start then
      let off := start - prevStart
      if off < 0 || off > prev.length then .panic "slice-bounds" else .ok ((prev.drop off.toNat).take len)
    else .ok []
  match copied with
  | .err e => .err e
  | .panic p => .panic p
  | .ok cp =>
    let from_ : Int := if prevEnd > start then prevEnd else start
    -- slots [0, cp.length) hold copies, slots [from_-start, len) are loaded, anything between is nil
    let slots := (List.range len).map (fun (k : Nat) =>
      let j : Int := start + (k : Int)
      if j ≥ from_ then
        (if j < 0 then none else blocks[j.toNat]?)
      else (cp[k]?).getD none)
    -- loading block index j ≥ len(tbl.BlockIndices) panics
    if (List.range len).any (fun (k : Nat) => let j : Int := start + (k : Int); decide (j ≥ from_) && (decide (j < 0) || decide (j.toNat ≥ blocks.length)))
    then .panic "blockindices-index"
    else .ok (some slots)

/-- one callback invocation of `iterateAndMatch` -/
structure Match where
  pk : Bytes
  row1 : Bytes
  row2 : Option Bytes
  off1 : Nat
  off2 : Nat
  deriving Repr, DecidableEq

def lookupIn (blockSize : Nat) (start : Int) : List (Option BIdx) → Nat → Bytes → Res (Option (Bytes × Nat))
  | [], _, _ => .ok none
  | none :: _, _, _ => .panic "nil-blockindex"
  | some idx :: rest, k, pk =>
    match idx.get pk with
    | .ok (some (off, sum)) => .ok (some (sum, ((start + k).toNat) * blockSize + off))
    | .ok none => lookupIn blockSize start rest (k+1) pk
    | .err e => .err e
    | .panic p => .panic p

def matchRows (blockSize : Nat) (i : Nat) (start : Int) (indices2 : List (Option BIdx)) :
    List (Bytes × Bytes) → Nat → Res (List Match)
  | [], _ => .ok []
  | (pk, row1) :: rest, rowOff =>
    match lookupIn blockSize start indices2 0 pk with
    | .err e => .err e
    | .panic p => .panic p
    | .ok r =>
      match matchRows blockSize i start indices2 rest (rowOff + 1) with
      | .err e => .err e
      | .panic p => .panic p
      | .ok ms =>
        let m : Match := match r with
          | some (sum, off2) => { pk := pk, row1 := row1, row2 := some sum, off1 := i * blockSize + rowOff, off2 := off2 }
          | none => { pk := pk, row1 := row1, row2 := none, off1 := i * blockSize + rowOff, off2 := 0 }
        .ok (m :: ms)

/-- `iterateAndMatch(tbl1, tbl2)`: the list of callback invocations -/
def iterateBlocks (emptyGuard : Bool) (blockSize : Nat) (t1 t2 : DTable) :
    List BIdx → Nat → Int → Int → Option (List (Option BIdx)) → Res (List Match)
  | [], _, _, _, _ => .ok []
  | idx1 :: rest, i, prevStart, prevEnd, prevSl =>
    match findOverlappingBlocks emptyGuard t1.tblIdx t2.tblIdx i prevEnd.toNat with
    | .err e => .err e
    | .panic p => .panic p
    | .ok (start, end_) =>
      match getBlockIndices t2.blocks start end_ prevSl prevStart prevEnd with
      | .err e => .err e
      | .panic p => .panic p
      | .ok sl =>
        match matchRows blockSize i start (sl.getD []) idx1.rows 0 with
        | .err e => .err e
        | .panic p => .panic p
        | .ok ms =>
          match iterateBlocks emptyGuard blockSize t1 t2 rest (i+1) start end_ sl with
          | .err e => .err e
          | .panic p => .panic p
          | .ok ms' => .ok (ms ++ ms')

def iterateAndMatch (emptyGuard : Bool) (blockSize : Nat) (t1 t2 : DTable) : Res (List Match) :=
  iterateBlocks emptyGuard blockSize t1 t2 t1.blocks 0 0 0 none

/-- `objects.Diff` -/
structure DiffEv where
  pk : Bytes
  sum : Option Bytes
  off : Nat
  oldSum : Option Bytes
  oldOff : Nat
  deriving Repr, DecidableEq

/-- `Differ.diffRows` with `colsEqual = true`, `emitUnchangedRow = false` -/
def diffRows (emptyGuard : Bool) (blockSize : Nat) (t1 t2 : DTable) : Res (List DiffEv) :=
  match iterateAndMatch emptyGuard blockSize t1 t2 with
  | .err e => .err e
  | .panic p => .panic p
  | .ok ms1 =>
    let evs1 := ms1.filterMap (fun m => match m.row2 with
      | some r2 => if m.row1 != r2 then some { pk := m.pk, sum := some m.row1, off := m.off1, oldSum := some r2, oldOff := m.off2 } else none
      | none => some { pk := m.pk, sum := some m.row1, off := m.off1, oldSum := none, oldOff := 0 })
    match iterateAndMatch emptyGuard blockSize t2 t1 with
    | .err e => .err e
    | .panic p => .panic p
    | .ok ms2 =>
      let evs2 := ms2.filterMap (fun m => match m.row2 with
        | some _ => none
        | none => some { pk := m.pk, sum := none, off := 0, oldSum := some m.row1, oldOff := m.off1 })
      .ok (evs1 ++ evs2)

end Wrgl
