/-
Model of pkg/ref/sql/store.go + logreader.go (each SQL statement as a list operation) and of the
helper layer in pkg/ref/refs.go built on it (C15; used by C10, C12, C14). Core Lean only.
-/
import WrglModel.Model.Basic
namespace Wrgl

abbrev Name := String

structure LogRow where
  ref : Name
  ordinal : Nat
  oldoid : Option Bytes
  newoid : Bytes
  msg : String
  deriving Repr, DecidableEq

structure SqlSt where
  refs : List (Name × Bytes)
  logs : List LogRow
  deriving Repr, DecidableEq

def hasPrefix (p n : Name) : Bool := p.toList.isPrefixOf n.toList

/-! SQLite `LIKE` without ESCAPE: `_` one character, `%` any run, ASCII case-insensitive -/
def lowerAscii (c : Char) : Char := if 'A' ≤ c ∧ c ≤ 'Z' then Char.ofNat (c.toNat + 32) else c

def likeGo : Nat → List Char → List Char → Bool
  | 0, _, _ => false
  | _, [], [] => true
  | _, [], _ :: _ => false
  | fuel+1, '%' :: ps, s =>
    likeGo fuel ps s || (match s with
      | [] => false
      | _ :: ss => likeGo fuel ('%' :: ps) ss)
  | fuel+1, '_' :: ps, s => (match s with
      | [] => false
      | _ :: ss => likeGo fuel ps ss)
  | fuel+1, p :: ps, s => (match s with
      | [] => false
      | c :: ss => lowerAscii p == lowerAscii c && likeGo fuel ps ss)

def likeMatch (pattern s : String) : Bool :=
  likeGo (2 * (pattern.length + s.length) + 2) pattern.toList s.toList

/-- the condition built by `filterQuery` for one prefix; `literal` is the extracted fact that the
    query compares the literal prefix rather than using `LIKE prefix%` -/
def prefixCond (literal : Bool) (p n : Name) : Bool :=
  if literal then hasPrefix p n else likeMatch (p ++ "%") n

/-- `WHERE (p1 OR p2 ...) AND NOT np1 AND NOT np2 ...` (no prefixes: no positive condition) -/
def matchFilter (literal : Bool) (prefixes notPrefixes : List Name) (n : Name) : Bool :=
  (prefixes.isEmpty || prefixes.any (fun p => prefixCond literal p n)) &&
  notPrefixes.all (fun p => !prefixCond literal p n)

namespace SqlSt

def get (s : SqlSt) (k : Name) : Option Bytes := (s.refs.find? (fun r => r.1 == k)).map (·.2)

/-- `INSERT ... ON CONFLICT (name) DO UPDATE` -/
def upsert (refs : List (Name × Bytes)) (k : Name) (v : Bytes) : List (Name × Bytes) :=
  if refs.any (fun r => r.1 == k) then refs.map (fun r => if r.1 == k then (k, v) else r) else refs ++ [(k, v)]

def set (s : SqlSt) (k : Name) (v : Bytes) : SqlSt := { s with refs := upsert s.refs k v }

def logCount (s : SqlSt) (k : Name) : Nat := (s.logs.filter (fun l => l.ref == k)).length

/-- `SetWithLog`: old value read in the same transaction; ordinal = COUNT(*)+1 -/
def setWithLog (s : SqlSt) (k : Name) (v : Bytes) (msg : String) : SqlSt :=
  { refs := upsert s.refs k v,
    logs := s.logs ++ [{ ref := k, ordinal := s.logCount k + 1, oldoid := s.get k, newoid := v, msg := msg }] }

def delete (s : SqlSt) (k : Name) : SqlSt :=
  { refs := s.refs.filter (fun r => r.1 != k), logs := s.logs.filter (fun l => l.ref != k) }

def insertSortedName (x : Name × Bytes) : List (Name × Bytes) → List (Name × Bytes)
  | [] => [x]
  | y :: ys => if x.1 < y.1 then x :: y :: ys else y :: insertSortedName x ys

def sortByName (l : List (Name × Bytes)) : List (Name × Bytes) := l.foldr insertSortedName []

/-- `Filter` (a Go map; canonicalised here as the name-sorted list) -/
def filter (literal : Bool) (s : SqlSt) (ps nps : List Name) : List (Name × Bytes) :=
  sortByName (s.refs.filter (fun r => matchFilter literal ps nps r.1))

/-- `FilterKey` (`ORDER BY name`) -/
def filterKey (literal : Bool) (s : SqlSt) (ps nps : List Name) : List Name :=
  (filter literal s ps nps).map (·.1)

/-- `Rename`: fails (and changes nothing) when the old name is absent or the new name exists -/
def rename (s : SqlSt) (o n : Name) : Option SqlSt :=
  match s.get o with
  | none => none
  | some v =>
    if (s.get n).isSome then none else
    some { refs := (s.refs ++ [(n, v)]).filter (fun r => r.1 != o),
           logs := s.logs.map (fun l => if l.ref == o then { l with ref := n } else l) }

/-- `Copy`: fails when the source is absent or the destination exists (or has log rows left) -/
def copy (s : SqlSt) (src dst : Name) : Option SqlSt :=
  match s.get src with
  | none => none
  | some v =>
    if (s.get dst).isSome then none
    else if src != dst && s.logCount dst != 0 then none
    else some { refs := s.refs ++ [(dst, v)],
                logs := s.logs ++ (s.logs.filter (fun l => l.ref == src)).map (fun l => { l with ref := dst }) }

/-- `LogReader(key)` fully drained: newest first; `none` = ErrKeyNotFound; a missing ordinal is an
    error (`some none`) -/
def readLog (s : SqlSt) (k : Name) : Option (Option (List LogRow)) :=
  let c := s.logCount k
  if c == 0 then none else
  let rows := (List.range c).map (fun i => s.logs.find? (fun l => l.ref == k && l.ordinal == c - i))
  if rows.all Option.isSome then some (some (rows.filterMap id)) else some none

end SqlSt

/-! ### helper layer (pkg/ref/refs.go) -/

def remoteRef (remote name : String) : Name := "remotes/" ++ remote ++ "/" ++ name

/-- `listRefs`: names with the prefix stripped *by length* from whatever matched -/
def listRefs (literal : Bool) (s : SqlSt) (pfx : Name) : List (Name × Bytes) :=
  (s.filter literal [pfx] []).map (fun r => (String.ofList (r.1.toList.drop pfx.length), r.2))

def deleteAllRemoteRefs (literal : Bool) (s : SqlSt) (remote : String) : SqlSt :=
  (s.filterKey literal [remoteRef remote ""] []).foldl (fun st k => st.delete k) s

/-- `RenameAllRemoteRefs`: stops at the first failing rename (earlier renames stay) -/
def renameAllRemoteRefs (literal : Bool) (s : SqlSt) (oldR newR : String) : SqlSt × Bool :=
  let pfx := remoteRef oldR ""
  (s.filterKey literal [pfx] []).foldl (fun (acc : SqlSt × Bool) k =>
    if !acc.2 then acc else
    let name := String.ofList (k.toList.drop pfx.length)
    match acc.1.rename (remoteRef oldR name) (remoteRef newR name) with
    | some st => (st, true)
    | none => (acc.1, false)) (s, true)

end Wrgl
