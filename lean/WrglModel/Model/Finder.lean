/-
Model of pkg/api/utils/closed_sets_finder.go (C08; used by C09): reachability of wants from the
refs, common tips from the haves, the breadth-first walk from each want that stops at common tips
and pushes commits to the FRONT of the list (so parents end up before children), depth-limited
table selection, multi-round state. Go iterates `f.Wants` (a map) in random order; the model takes
the order as a parameter. Core Lean only.
-/
import WrglModel.Model.Queue
import WrglModel.Spec.Graph
namespace Wrgl

/-- which commits have their table object locally (`isFullCommit`) -/
abbrev Full := Nat → Bool

structure Finder where
  commons : List Nat            -- `f.commons` (acknowledged common tips)
  wants : List Nat              -- `f.Wants` (pending)
  commitLists : List (List Nat) -- `f.commitLists`, each parent-first
  tableLists : List (List Nat)  -- commits whose table is selected, per list
  steps : Nat                   -- queue pops performed by `enqueueWants` (complexity clause)
  deriving Repr

def Finder.init : Finder := { commons := [], wants := [], commitLists := [], tableLists := [], steps := 0 }

/-- `queue.PopUntil(b)`: pops (inserting parents) until `b` is popped; `none` = EOF -/
def popUntil (g : Graph) (b : Nat) : Nat → Q → Res (Option Nat × Q)
  | 0, _ => .err "fuel"
  | fuel+1, q =>
    match Q.popInsertParents g q with
    | .ok (none, q') => .ok (none, q')
    | .ok (some id, q') => if id == b then .ok (some id, q') else popUntil g b fuel q'
    | .err e => .err e
    | .panic p => .panic p

/-- `NewCommitsQueue(db, sums)` with several initial sums: de-duplicated, sorted newest first
    (`sort.Sort`, unstable; ties are ordered by the parameter `tie`) -/
def queueOf (g : Graph) (tie : List (Nat × Int) → List (Nat × Int)) (sums : List Nat) : Res Q :=
  let ids := sums.eraseDups
  if ids.any (fun i => (g.get? i).isNone) then .err "missing-commit" else
  let items := ids.filterMap (fun i => (g.get? i).map (fun c => (i, c.time)))
  .ok { items := tie items, seen := ids }

/-- `ensureWantsAreReachable`: the confirmed wants and the advanced queue, or the unrecognized ones -/
def ensureWants (g : Graph) (full : Full) : Nat → Q → List Nat → List Nat → Res (List Nat × Q)
  | _, q, [], conf => .ok (conf, q)
  | fuel, q, w :: ws, conf =>
    if q.hasSeen w then
      match g.get? w with
      | none => .err "missing-commit"
      | some _ => ensureWants g full fuel q ws (if full w then w :: conf else conf)
    else
      match popUntil g w fuel q with
      | .ok (some _, q') => ensureWants g full fuel q' ws (if full w then w :: conf else conf)
      | .ok (none, q') => .ok (conf, q')          -- EOF: `break`
      | .err e => .err e
      | .panic p => .panic p

/-- `addToCommons`' inner walk: all ancestors of `b` into `anc` -/
def markAncestors (g : Graph) : Nat → List Nat → List Nat → Res (List Nat)
  | 0, _, _ => .err "fuel"
  | _, [], anc => .ok anc
  | fuel+1, s :: rest, anc =>
    if anc.contains s then markAncestors g fuel rest anc
    else match g.get? s with
      | none => .err "missing-commit"
      | some c => markAncestors g fuel (rest ++ c.parents) (s :: anc)

/-- `findCommons` -/
def findCommons (g : Graph) : Nat → Q → List Nat → List Nat → List Nat → Res (List Nat)
  | _, _, [], _, commons => .ok commons.reverse
  | fuel, q, h :: hs, anc, commons =>
    if anc.contains h then findCommons g fuel q hs anc commons
    else if q.hasSeen h then
      match markAncestors g (fuel * fuel + fuel + 2) [h] anc with
      | .ok anc' => findCommons g fuel q hs anc' (h :: commons)
      | .err e => .err e
      | .panic p => .panic p
    else
      match popUntil g h fuel q with
      | .ok (none, _) => .ok commons.reverse          -- EOF: `break`
      | .ok (some _, q') =>
        match markAncestors g (fuel * fuel + fuel + 2) [h] anc with
        | .ok anc' => findCommons g fuel q' hs anc' (h :: commons)
        | .err e => .err e
        | .panic p => .panic p
      | .err e => .err e
      | .panic p => .panic p

/-- the walk of `enqueueWants` for one want: the list is built by `PushFront`, there is no
    visited set inside one walk. `stopAtRoot`: the `cont` callback (a root reached while commons
    exist and the client is not done ⇒ the want stays pending). Returns
    (commit list, table list, visited sums, steps) or `none` when the want stays pending. -/
def walkWant (revisit : Bool) (g : Graph) (commons seenBefore : List Nat) (depth : Nat) (stopAtRoot : Bool) :
    Nat → List (Nat × Nat) → List Nat → List Nat → List Nat → Nat →
    Res (Option (List Nat × List Nat × List Nat × Nat))
  | 0, _, _, _, _, _ => .err "fuel"
  | _, [], cl, tl, sums, steps => .ok (some (cl, tl, sums, steps))
  | fuel+1, (s, d) :: rest, cl, tl, sums, steps =>
    let sums' := s :: sums
    let seen := seenBefore.contains s
    -- `revisit` (extracted fact): a commit listed for an earlier want is walked through again
    -- while within the depth limit, so that its table is still selected
    if seen && (!revisit || depth == 0 || d ≥ depth) then walkWant revisit g commons seenBefore depth stopAtRoot fuel rest cl tl sums' (steps + 1)
    else if commons.contains s then walkWant revisit g commons seenBefore depth stopAtRoot fuel rest cl tl sums' (steps + 1)
    else match g.get? s with
      | none => .err "missing-commit"
      | some c =>
        let cl' := if seen then cl else s :: cl
        let tl' := if depth == 0 || d < depth then s :: tl else tl
        if !seen && stopAtRoot && c.parents.isEmpty then .ok none
        else walkWant revisit g commons seenBefore depth stopAtRoot fuel (rest ++ c.parents.map (fun p => (p, d + 1))) cl' tl' sums' (steps + 1)

/-- `enqueueWants(cont)` over the pending wants in the given order -/
def enqueueWants (revisit : Bool) (g : Graph) (depth : Nat) (stopAtRoot : Bool) (fuel : Nat) :
    List Nat → Finder → List Nat → List Nat → Res (Finder × List Nat)
  | [], f, _, pending => .ok ({ f with wants := [] }, pending.reverse)
  | w :: ws, f, seenBefore, pending =>
    match walkWant revisit g f.commons seenBefore depth stopAtRoot fuel [(w, 0)] [] [] [] 0 with
    | .ok none => enqueueWants revisit g depth stopAtRoot fuel ws f seenBefore (w :: pending)
    | .ok (some (cl, tl, sums, st)) =>
      enqueueWants revisit g depth stopAtRoot fuel ws
        { f with commitLists := f.commitLists ++ [cl], tableLists := f.tableLists ++ [tl], steps := f.steps + st }
        (sums ++ seenBefore) pending
    | .err e => .err e
    | .panic p => .panic p

/-- `Process(wants, haves, done)`: acks and the new state. `refs`: targets of all refs;
    `order` permutes the pending wants (Go map iteration). -/
def Finder.process (revisit : Bool) (g : Graph) (full : Full) (tie : List (Nat × Int) → List (Nat × Int))
    (order : List Nat → List Nat) (depth walkFuel : Nat) (refs : List Nat) (f : Finder)
    (wants haves : List Nat) (done : Bool) : Res (List Nat × Finder) :=
  match queueOf g tie refs with
  | .err e => .err e
  | .panic p => .panic p
  | .ok q =>
    let fuel := g.length + 2
    let r1 : Res (List Nat × Q) := if wants.isEmpty then .ok ([], q) else ensureWants g full fuel q wants []
    match r1 with
    | .err e => .err e
    | .panic p => .panic p
    | .ok (conf, q1) =>
      if wants.any (fun w => !conf.contains w) then .err "unrecognized-wants" else
      let f1 := { f with wants := (f.wants ++ wants).eraseDups }
      match findCommons g fuel q1 haves [] [] with
      | .err e => .err e
      | .panic p => .panic p
      | .ok commons =>
        let f2 := { f1 with commons := (f1.commons ++ commons).eraseDups }
        let stop := !f2.commons.isEmpty && !done
        match enqueueWants revisit g depth stop walkFuel (order f2.wants) f2 [] [] with
        | .ok (f3, pending) => .ok (commons, { f3 with wants := pending })
        | .err e => .err e
        | .panic p => .panic p

/-- `CommitsToSend()` / `TablesToSend()`: pending wants are walked to the roots first -/
def Finder.finish (revisit : Bool) (g : Graph) (order : List Nat → List Nat) (depth walkFuel : Nat) (f : Finder) :
    Res (List Nat × List Nat × Finder) :=
  let r := if f.wants.isEmpty then .ok (f, []) else enqueueWants revisit g depth false walkFuel (order f.wants) f [] []
  match r with
  | .ok (f', _) => .ok (f'.commitLists.flatten, f'.tableLists.flatten.eraseDups, f')
  | .err e => .err e
  | .panic p => .panic p

end Wrgl
