/-
Model of one progress bar (C16, "always terminate"): the state of an `mpb.Bar` as `pkg/pbar` drives
it — total, current, whether reaching the total completes the bar (`triggerComplete`), and whether
it has completed. `pbar.bar.Done()` waits for completion (`mpb.Bar.Wait`), so the caller returns
exactly when the bar is completed at that point. Whether `Done` forces a bar with a fixed total to
its total before waiting is an extracted fact. Core Lean only.
-/
import WrglModel.Model.Basic
namespace Wrgl

structure PBarSt where
  total : Int
  current : Int
  trig : Bool         -- mpb `bState.triggerComplete`
  completed : Bool
  ctorTotal : Int     -- pbar `bar.total`: the total given at construction, never updated
  deriving Repr, DecidableEq

/-- mpb `reach`: with triggerComplete, reaching the total completes the bar -/
def PBarSt.settle (s : PBarSt) : PBarSt :=
  if s.trig && decide (s.current ≥ s.total) then { s with current := s.total, completed := true } else s

/-- mpb `EnableTriggerComplete` -/
def PBarSt.enableTrigger (s : PBarSt) : PBarSt :=
  if s.trig || decide (s.total ≤ 0) then s
  else if s.current ≥ s.total then { s with current := s.total, completed := true }
  else { s with trig := true }

/-- `Container.addBar`: `Progress.New(total, …)` then `EnableTriggerComplete` -/
def PBarSt.new (total : Int) : PBarSt :=
  ({ total := total, current := 0, trig := decide (total > 0), completed := false, ctorTotal := total } : PBarSt).enableTrigger

/-- mpb `SetTotal(total, now)` -/
def PBarSt.mpbSetTotal (s : PBarSt) (total : Int) (now : Bool) : PBarSt :=
  if s.trig then s else
  let s := { s with total := if total < 0 then s.current else total }
  if now then { s with current := s.total, completed := true } else s

/-- mpb `SetCurrent` -/
def PBarSt.mpbSetCurrent (s : PBarSt) (c : Int) : PBarSt :=
  if c < 0 then s else ({ s with current := c } : PBarSt).settle

/-- mpb `IncrInt64` -/
def PBarSt.mpbIncr (s : PBarSt) (n : Int) : PBarSt :=
  if n ≤ 0 then s else ({ s with current := s.current + n } : PBarSt).settle

inductive PBarOp where
  | incr (n : Int)
  | setTotal (t : Int)
  | setCurrent (c : Int)
  deriving Repr, DecidableEq

/-- the `pbar.Bar` methods -/
def PBarSt.step (s : PBarSt) : PBarOp → PBarSt
  | .incr n => let s := s.mpbIncr n; if s.ctorTotal == 0 then s.mpbSetTotal (-1) false else s
  | .setTotal t => s.mpbSetTotal t false
  | .setCurrent c => s.mpbSetCurrent c

/-- the largest int64 -/
def maxInt64 : Int := 9223372036854775807

/-- `pbar.bar.Done()` up to its `Wait()`: the state the wait finds -/
def PBarSt.done (forces : Bool) (s : PBarSt) : PBarSt :=
  if s.completed then s else
  let s := s.mpbSetTotal (-1) true
  if !s.completed && forces then s.mpbSetCurrent maxInt64 else s

/-- `Done()` returns: `Wait()` finds a completed bar -/
def pbarDoneReturns (forces : Bool) (total : Int) (ops : List PBarOp) : Bool :=
  ((ops.foldl PBarSt.step (PBarSt.new total)).done forces).completed

end Wrgl
