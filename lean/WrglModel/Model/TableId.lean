/-
From stored rows to object identifiers (C02, C03): block bytes, block index, table object, table id.
`H` is the hash (meow in the code), `sortPerm` the permutation `sort.Sort(idx)` produces for a block
index (any permutation that orders the key hashes). Core Lean only.
-/
import WrglModel.Model.Sorter
import WrglModel.Model.Encoding
import WrglModel.Model.Diff
namespace Wrgl

/-- hashes recorded for one row: (H of the encoded key cells, H of the encoded row); without a
    primary key both are the row hash (`IndexBlockFromBytes`) -/
def rowHashes (H : Bytes → Bytes) (maxCell : Nat) (pk : List Nat) (r : Row) : Bytes × Bytes :=
  let rowSum := match strListEncode maxCell r with
    | .ok b => H b
    | _ => []
  if pk.isEmpty then (rowSum, rowSum)
  else match strListEncode maxCell (keyOf pk r) with
    | .ok kb => (H kb, rowSum)
    | _ => ([], rowSum)

/-- `IndexBlockFromBytes` / `IndexBlock` -/
def indexBlock (H : Bytes → Bytes) (sortPerm : List Bytes → List Nat) (maxCell : Nat) (pk : List Nat)
    (rows : List Row) : BIdx :=
  let hs := rows.map (rowHashes H maxCell pk)
  { sortedOff := sortPerm (hs.map (·.1)), rows := hs }

/-- the permutation is a permutation of `0..n-1` along which the key hashes do not decrease -/
structure IsSortPerm (sortPerm : List Bytes → List Nat) : Prop where
  perm : ∀ ks, (sortPerm ks).Perm (List.range ks.length)
  sorted : ∀ ks (i j : Nat) (a b : Bytes), i < j →
    ((sortPerm ks)[i]?).bind (ks[·]?) = some a → ((sortPerm ks)[j]?).bind (ks[·]?) = some b →
    bytesCmp a b ≠ .gt

/-- the table object written for a stored table: block sums are hashes of the block bytes, block
    index sums hashes of the block index bytes -/
def tableObjOf (H : Bytes → Bytes) (sortPerm : List Bytes → List Nat) (maxCell : Nat) (t : StoredTable) : TableObj :=
  { columns := t.columns, pk := t.pk, rowsCount := t.rowsCount,
    blocks := t.blocks.map (fun b => match blockEncode maxCell b with
      | .ok bytes => H bytes
      | _ => []),
    blockIndices := t.blocks.map (fun b =>
      let idx := indexBlock H sortPerm maxCell t.pk b
      H (blockIndexBytes idx.sortedOff idx.rows)) }

/-- the table identifier: hash of the table object's bytes -/
def tableId (H : Bytes → Bytes) (sortPerm : List Bytes → List Nat) (maxCell : Nat) (t : StoredTable) : Res Bytes :=
  match tableBytes maxCell (tableObjOf H sortPerm maxCell t) with
  | .ok b => .ok (H b)
  | .err e => .err e
  | .panic p => .panic p

end Wrgl
