/-
Decision logic of ref updates in fetch, push and merge (C10) and the closure a successful fetch or
push must establish (C09): cmd/wrgl/fetch/root.go saveFetchedRefs, cmd/wrgl/push_cmd.go
identifyUpdates, cmd/wrgl/merge_cmd.go runMerge. Core Lean only.
-/
import WrglModel.Model.Queue
import WrglModel.Spec.Graph
namespace Wrgl

inductive RefDecision where
  | unchanged      -- old = new: nothing to do
  | update
  | reject
  deriving Repr, DecidableEq

/-- `saveFetchedRefs` for one ref: `old` (none = the local ref does not exist), `new`, whether the
    destination is a tag, the force flag (global or per refspec) and the ancestor test -/
def fetchDecision (old : Option Nat) (new : Nat) (isTag force : Bool) (isAnc : Nat → Nat → Bool) : RefDecision :=
  match old with
  | none => .update
  | some o =>
    if o == new then .unchanged
    else if isTag then (if force then .update else .reject)
    else if isAnc o new then .update
    else if force then .update else .reject

/-- `identifyUpdates` for one refspec of a push: the remote's current value, the local value -/
def pushDecision (remote : Option Nat) (localSum : Nat) (isTag force : Bool) (isAnc : Nat → Nat → Bool) : RefDecision :=
  match remote with
  | none => .update
  | some v =>
    if v == localSum then .unchanged
    else if isTag then (if force then .update else .reject)
    else if isAnc v localSum then .update
    else if force then .update else .reject

inductive FFMode where
  | default_ | never | only
  deriving Repr, DecidableEq

inductive MergeOutcome where
  | nothing                    -- all commits identical
  | fastForward (to : Nat)     -- the branch is moved to this commit (logged)
  | mergeCommit (parents : List Nat)   -- a new commit with these parents becomes the head
  | rejected
  | realMerge                  -- a three-way merge is performed (C05)
  deriving Repr, DecidableEq

/-- `runMerge` for a branch head `head` and one other commit, given the computed base -/
def mergeDecision (ff : FFMode) (head other base : Nat) : MergeOutcome :=
  let nonAnc := [head, other].filter (· != base)
  match nonAnc with
  | [] => .nothing
  | [x] => if ff == .never then .mergeCommit [head, other] else .fastForward x
  | _ => if ff == .only then .rejected else .realMerge

end Wrgl
