/-
Decision logic of ref updates in fetch, push and merge (C10) and the closure a successful fetch or
push must establish (C09): cmd/wrgl/fetch/root.go saveFetchedRefs, cmd/wrgl/push_cmd.go
identifyUpdates, cmd/wrgl/merge_cmd.go runMerge. Core Lean only.
-/
import WrglModel.Model.Queue
import WrglModel.Spec.Graph
namespace Wrgl

inductive RefDecision where
  | unchanged      -- old = new: nothing to do
  | update
  | reject
  deriving Repr, DecidableEq

/-- `saveFetchedRefs` for one ref: `old` (none = the local ref does not exist), `new`, whether the
    destination is a tag, the force flag (global or per refspec) and the ancestor test -/
def fetchDecision (old : Option Nat) (new : Nat) (isTag force : Bool) (isAnc : Nat → Nat → Bool) : RefDecision :=
  match old with
  | none => .update
  | some o =>
    if o == new then .unchanged
    else if isTag then (if force then .update else .reject)
    else if isAnc o new then .update
    else if force then .update else .reject

/-- `identifyUpdates` for one refspec of a push: the remote's current value, the local value -/
def pushDecision (remote : Option Nat) (localSum : Nat) (isTag force : Bool) (isAnc : Nat → Nat → Bool) : RefDecision :=
  match remote with
  | none => .update
  | some v =>
    if v == localSum then .unchanged
    else if isTag then (if force then .update else .reject)
    else if isAnc v localSum then .update
    else if force then .update else .reject

inductive FFMode where
  | default_ | never | only
  deriving Repr, DecidableEq

inductive MergeOutcome where
  | nothing                    -- all commits identical
  | fastForward (to : Nat)     -- the branch is moved to this commit (logged)
  | mergeCommit (parents : List Nat)   -- a new commit with these parents becomes the head
  | rejected
  | realMerge                  -- a three-way merge is performed (C05)
  deriving Repr, DecidableEq

/-- `runMerge` for a branch head `head` and one other commit, given the computed base -/
def mergeDecision (ff : FFMode) (head other base : Nat) : MergeOutcome :=
  let nonAnc := [head, other].filter (· != base)
  match nonAnc with
  | [] => .nothing
  | [x] => if ff == .never then .mergeCommit [head, other] else .fastForward x
  | _ => if ff == .only then .rejected else .realMerge

/-- the mode handed to `runMerge` (`getFastForward`, shared by merge and pull): a mode given on the
    command line (`--ff` = `default_`, `--no-ff`, `--ff-only`) is the one in force; `merge.fastForward`
    of the configuration counts only when no flag is given -/
def effectiveFF (flag config : Option FFMode) : FFMode :=
  match flag with
  | some m => m
  | none => config.getD .default_

end Wrgl

namespace Wrgl

/-! ### decision tables regenerated from the source (extract/paths.go)

A table is a list of guard lists: one list per call that performs the update, holding the branch
conditions on the way to that call as (polarity, source text) pairs. The functions below
interpret such a table over named atoms. -/

def evalGuard (atom : String → Option Bool) (g : Bool × String) : Option Bool :=
  (atom g.2).map (fun b => if g.1 then b else !b)

def guardsHold (atom : String → Option Bool) (p : List (Bool × String)) : Option Bool :=
  p.foldl (fun acc c => match acc, evalGuard atom c with
    | some a, some b => some (a && b)
    | _, _ => none) (some true)

/-- does some row of the table fire? `none`: a guard the interpretation does not know -/
def tableFires (atom : String → Option Bool) (t : List (List (Bool × String))) : Option Bool :=
  t.foldl (fun acc p => match acc, guardsHold atom p with
    | some a, some b => some (a || b)
    | _, _ => none) (some false)

/-- the situation of one ref in `saveFetchedRefs` / `identifyUpdates` -/
structure GEnv where
  eq : Bool      -- old value = new value
  tag : Bool     -- the destination is a tag
  isNil : Bool   -- there is no old value
  ff : Bool      -- the old value is an ancestor of the new one
  force : Bool   -- `--force` or a `+` refspec
  deriving Repr, DecidableEq

def fetchAtom (e : GEnv) : String → Option Bool
  | "bytes.Equal(oldSum, sum)" => some e.eq
  | "oldSum != nil && strings.HasPrefix(r.Dst(), 'tags/')" => some (!e.isNil && e.tag)
  | "oldSum == nil" => some e.isNil
  | "err != nil" => some false
  | "fastForward" => some e.ff
  | "force || r.Force" => some e.force
  | _ => none

/-- what the source's table says for a push; the trailing `Force=…` marker is not a guard -/
def pushAtom (e : GEnv) : String → Option Bool
  | "err != nil" => some false
  | "fastForward, err := ref.IsAncestorOf(db, v, sum); err != nil" => some false
  | "v, ok := remoteRefs[dst]; ok" => some (!e.isNil)
  | "string(v) == string(sum)" => some e.eq
  | "sum == nil" => some false            -- deletions are not modelled (the local ref exists)
  | "sum != nil" => some true
  | "strings.HasPrefix(dst, 'tags/')" => some e.tag
  | "fastForward" => some e.ff
  | "force || s.Force" => some e.force
  | "Force=true" => some true
  | "Force=false" => some true
  | _ => none

/-- the model's decision in the same vocabulary -/
def GEnv.old (e : GEnv) : Option Nat := if e.isNil then none else some 0
def GEnv.new (e : GEnv) : Nat := if e.eq && !e.isNil then 0 else 1

end Wrgl
