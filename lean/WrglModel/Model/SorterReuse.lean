/-
One sorter used for several tables (`Sorter.Reset`, pkg/sorter/sorter.go; callers: pkg/doctor
`ingestTable`, pkg/ingest `reingestTable`). Model of a history of uses: every use after the first
starts with `Reset`, which forgets the in-memory run, the spilled chunks and the size counter,
wherever the previous use ended (rows only added, output read partly, output read to the end —
reading removes rows from the heads of the chunks and of the in-memory run). Core Lean only.
-/
import WrglModel.Model.Sorter
namespace Wrgl

/-- a sorter that holds nothing (a new sorter) -/
def SorterSt.empty : SorterSt := { chunks := [], current := [], size := 0 }

/-- `Sorter.Reset` -/
def SorterSt.reset (_ : SorterSt) : SorterSt := SorterSt.empty

/-- reading `n` merged rows off a sorter (what a consumer that stops early leaves behind): the
    heads are popped from the chunks / the sorted in-memory run, as the k-way merge does -/
def consume (sortFn : List Row → List Row) (pk : List Nat) : Nat → SorterSt → SorterSt
  | 0, st => st
  | n+1, st =>
    let cs := st.chunks ++ [sortFn st.current]
    match minHead (rowLt pk) cs with
    | none => st
    | some (i, _) =>
      let cs' := popAt cs i
      consume sortFn pk n { chunks := cs'.take st.chunks.length, current := (cs'.drop st.chunks.length).flatten, size := st.size }

/-- one use of a sorter in state `st` left by earlier uses: `Reset`, then `AddRow` for every row -/
def reuse (sortFn : List Row → List Row) (maxCell : Option Nat) (runSize : Nat) (st : SorterSt) (rows : List Row) :
    Res SorterSt :=
  addRows sortFn maxCell runSize st.reset rows

end Wrgl
