/-
C03: the producers of stored tables other than ingest.
* `diagnose`: `doctor.diagnoseCommit` (pkg/doctor/diagnose.go) on a table whose objects are all
  readable — the repository's own diagnosis.
* `receiveTable`: what `ObjectReceiver.saveTable` + `ingest.IndexTable` (pkg/api/utils/object_receiver.go,
  pkg/ingest/index.go) accept and derive for a table object whose blocks are already stored.
Core Lean only.
-/
import WrglModel.Model.TableId
import WrglModel.Model.IndexTable
import WrglModel.Spec.TableInv
namespace Wrgl

/-- first pair of adjacent equal rows, scanning the rows of all blocks in order (`prevRow` is carried
    across blocks; a row without cells never becomes `prevRow` because `append(prevRow[:0])` of
    nothing leaves it nil) -/
def adjacentDup : Option Row → List Row → Bool
  | _, [] => false
  | prev, r :: rs =>
    (match prev with
     | some p => p == r
     | none => false) || adjacentDup (if r.isEmpty && prev.isNone then none else some r) rs

/-- `diagnoseCommit`: the first issue found, in the order the code looks -/
def diagnose (t : FullTable) : Option String :=
  if t.pk.any (fun k => k ≥ t.columns.length) then some "pk index greater than columns count"
  else if t.pk.any (fun k => ((t.columns[k]?).getD []).isEmpty) then some "primary key column is empty"
  else if adjacentDup none t.blocks.flatten then some "duplicated rows"
  else if (t.blocks.map List.length).sum != t.rowsCount then some "rows count does not match"
  else if t.indices.length != t.blocks.length then some "block indices count does not match"
  else if (t.indices.map (fun i => i.rows.length)).sum != t.rowsCount then some "index rows count does not match"
  else none

/-- the part of a stored table that `IndexTable` derives: per block the index, and the table index.
    `sums` are the block-index sums the table object declares; `compareSums` is the extracted fact
    that each recomputed block-index sum is compared with the declared one. -/
def receiveTable (H : Bytes → Bytes) (sortPerm : List Bytes → List Nat) (mc : Nat)
    (checked compareSums : Bool) (o : TableObj) (getBlock : Bytes → Option (List Row)) : Res FullTable :=
  match o.blocks.mapM getBlock with
  | none => .err "GetBlock"
  | some blocks =>
    match indexTable checked o.columns o.pk blocks with
    | .err e => .err e
    | .panic p => .panic p
    | .ok tblIdx =>
      let idxs := blocks.map (indexBlock H sortPerm mc o.pk)
      let sums := idxs.map (fun idx => H (blockIndexBytes idx.sortedOff idx.rows))
      if compareSums && sums != o.blockIndices then .err "block index has different sum"
      else .ok { columns := o.columns, pk := o.pk, rowsCount := o.rowsCount, blocks := blocks,
                 hashes := blocks.map (fun b => b.map (rowHashes H mc o.pk)),
                 indices := idxs, tblIdx := tblIdx }

/-- the clauses of `tableInv` that depend on the rows and the recorded row count only -/
def rowClauses : List String := ["rowscount-equals-rows-present", "block-sizes", "keys-strictly-ascending"]

end Wrgl
