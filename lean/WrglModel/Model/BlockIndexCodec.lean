/-
C06 / C18: the byte codec of a block index (pkg/objects/block_index.go WriteTo / ReadFrom):
one count byte, `count` offset bytes, then `count` entries of 32 bytes (16-byte key hash, 16-byte
row hash). Core Lean only.
-/
import WrglModel.Model.Diff
namespace Wrgl

/-- what `WriteTo` can write faithfully: at most 255 rows (one count byte), one offset per row,
    offsets fit a byte, hashes are 16 bytes -/
def BIdx.codecOk (b : BIdx) : Bool :=
  b.rows.length ≤ 255 && b.sortedOff.length == b.rows.length && b.sortedOff.all (fun o => o < 256) &&
  b.rows.all (fun p => p.1.length == 16 && p.2.length == 16)

/-- `(*BlockIndex).WriteTo` -/
def encodeBIdx (b : BIdx) : Bytes :=
  [UInt8.ofNat b.rows.length] ++ b.sortedOff.map UInt8.ofNat ++ b.rows.flatMap (fun p => p.1 ++ p.2)

/-- the `count` 32-byte entries -/
def readEntries : Nat → Bytes → Option (List (Bytes × Bytes) × Bytes)
  | 0, rest => some ([], rest)
  | n+1, bs =>
    if bs.length < 32 then none else
    match readEntries n (bs.drop 32) with
    | some (es, rest) => some (((bs.take 16), ((bs.drop 16).take 16)) :: es, rest)
    | none => none

/-- `(*BlockIndex).ReadFrom` on a byte stream: the decoded index and the unread rest; every short
    input is an error (`io.ReadFull`) -/
def decodeBIdx (bs : Bytes) : Res (BIdx × Bytes) :=
  match bs with
  | [] => .err "eof"
  | c :: rest =>
    let n := c.toNat
    if rest.length < n then .err "unexpected-eof" else
    match readEntries n (rest.drop n) with
    | some (es, tail) => .ok ({ sortedOff := (rest.take n).map UInt8.toNat, rows := es }, tail)
    | none => .err "unexpected-eof"

end Wrgl
