/-
Specification of the row-level diff (C04). Core Lean only.
-/
import WrglModel.Model.Diff
namespace Wrgl

/-- a stored row as the specification sees it -/
structure KRow where
  key : List Bytes     -- key cells (all cells when the table has no primary key)
  cells : Row
  pkSum : Bytes        -- what the block index records for this row
  rowSum : Bytes
  off : Nat            -- absolute offset: block * blockSize + position
  deriving Repr

def keysOf (rows : List KRow) : List (List Bytes) := rows.map (·.key)

/-- rows of `a` whose key does not occur in `b` -/
def onlyIn (a b : List KRow) : List KRow := a.filter (fun r => !(b.any (fun s => s.key == r.key)))

/-- rows of `a` whose key occurs in `b` with different content -/
def changedIn (a b : List KRow) : List KRow :=
  a.filter (fun r => b.any (fun s => s.key == r.key && s.cells != r.cells))

def sameSet (a b : List Bytes) : Bool :=
  a.length == b.length && a.all b.contains && b.all a.contains

def nodupB (a : List Bytes) : Bool := a.eraseDups.length == a.length

/-- the clauses of C04 evaluated on an event list -/
def diffVerdict (r1 r2 : List KRow) (evs : List DiffEv) : List String :=
  let added := evs.filter (fun e => e.sum.isSome && e.oldSum.isNone)
  let removed := evs.filter (fun e => e.sum.isNone && e.oldSum.isSome)
  let modified := evs.filter (fun e => e.sum.isSome && e.oldSum.isSome)
  let junk := evs.filter (fun e => e.sum.isNone && e.oldSum.isNone)
  let at1 := fun (off : Nat) => r1.find? (fun r => r.off == off)
  let at2 := fun (off : Nat) => r2.find? (fun r => r.off == off)
  (if sameSet (added.map (·.pk)) ((onlyIn r1 r2).map (·.pkSum)) then [] else ["added-exact"]) ++
  (if sameSet (removed.map (·.pk)) ((onlyIn r2 r1).map (·.pkSum)) then [] else ["removed-exact"]) ++
  (if sameSet (modified.map (·.pk)) ((changedIn r1 r2).map (·.pkSum)) then [] else ["modified-exact"]) ++
  (if junk.isEmpty then [] else ["nothing-else"]) ++
  (if nodupB (evs.map (·.pk)) then [] else ["no-key-twice"]) ++
  (if (added ++ modified).all (fun e => match at1 e.off with
        | some r => r.pkSum == e.pk && some r.rowSum == e.sum
        | none => false) then [] else ["offset-addresses-row"]) ++
  (if (removed ++ modified).all (fun e => match at2 e.oldOff with
        | some r => r.pkSum == e.pk && some r.rowSum == e.oldSum
        | none => false) then [] else ["old-offset-addresses-row"])

end Wrgl
