/-
C08 specification: what the negotiated commit list and table set must satisfy. Core Lean only.
-/
import WrglModel.Model.Finder
namespace Wrgl

/-- shortest parent-distance from any of `srcs`, not walking through `stops` (common tips) -/
def distFrom (g : Graph) (stops : List Nat) : Nat → List Nat → List Nat → Nat → List (Nat × Nat) → List (Nat × Nat)
  | 0, _, _, _, acc => acc
  | fuel+1, frontier, seen, d, acc =>
    let fresh := (frontier.filter (fun x => !seen.contains x && !stops.contains x)).eraseDups
    if fresh.isEmpty then acc else
    distFrom g stops fuel (fresh.flatMap (parentsOf g)) (fresh ++ seen) (d + 1) (acc ++ fresh.map (fun x => (x, d)))

def firstIndex (l : List Nat) (x : Nat) : Option Nat := l.findIdx? (· == x)

structure FinderScenario where
  g : Graph
  tableOf : Nat → Nat
  depth : Nat
  wants : List Nat           -- all accepted wants over the rounds
  commons : List Nat         -- all acknowledged common tips over the rounds

/-- clauses of C08 on a negotiated result: `sent` the commit list (with repeats, in order),
    `tables` the selected table numbers -/
def finderVerdict (s : FinderScenario) (sent : List Nat) (tables : List Nat) : List String :=
  let ancW := ancestorsOfAll s.g s.wants
  let ancC := ancestorsOfAll s.g s.commons
  let n := s.g.length
  -- lower bound: distance along paths that avoid the (finally known) common tips; upper bound: plain
  -- graph distance. Without commons both coincide and the clause is exact.
  let distLo := distFrom s.g s.commons (n + 1) s.wants [] 0 []
  let distHi := distFrom s.g [] (n + 1) s.wants [] 0 []
  let tablesFor := fun (dist : List (Nat × Nat)) => ((sent.eraseDups.filter (fun c =>
      s.depth == 0 || (dist.any (fun (x, d) => x == c && d < s.depth)))).map s.tableOf).eraseDups
  let mustTables := tablesFor distLo
  let mayTables := tablesFor distHi
  (if ancW.all (fun a => sent.contains a || ancC.contains a) then [] else ["closed-set-covers-every-ancestor-of-every-want"]) ++
  (if sent.eraseDups.all (fun c => match firstIndex sent c with
      | none => true
      | some i => (parentsOf s.g c).all (fun p => ancC.contains p || (sent.take i).contains p)) then []
   else ["parents-common-or-earlier"]) ++
  (if sent.all ancW.contains then [] else ["nothing-unreachable-from-wants-sent"]) ++
  (if tables.all mayTables.contains && mustTables.all tables.contains then [] else ["tables-exactly-within-depth"]) ++
  (if sent.length ≤ n * n + n then [] else ["polynomial-time"])

end Wrgl
