/-
Specification side of the commit-graph properties (C08, C10, C11, C12): reachability through
parent links, as a plain computable closure. Core Lean only.
-/
import WrglModel.Model.Basic
namespace Wrgl

def parentsOf (g : Graph) (id : Nat) : List Nat :=
  match g.get? id with
  | some c => c.parents
  | none => []

/-- add every parent of every member (no duplicates) -/
def expand (g : Graph) (s : List Nat) : List Nat :=
  (s.flatMap (parentsOf g)).foldl (fun acc p => if acc.contains p then acc else acc ++ [p]) s

def closureN (g : Graph) : Nat → List Nat → List Nat
  | 0, s => s
  | n+1, s => closureN g n (expand g s)

/-- ancestors-or-self of `b` (ids, discovery order) -/
def ancestors (g : Graph) (b : Nat) : List Nat := closureN g g.length [b]

def ancestorsOfAll (g : Graph) (bs : List Nat) : List Nat := closureN g g.length bs.eraseDups

/-- `a` is an ancestor-or-self of `b` -/
def reach (g : Graph) (a b : Nat) : Bool := (ancestors g b).contains a

/-- Prop-level reachability through parent links -/
inductive Reach (g : Graph) : Nat → Nat → Prop where
  | refl (b : Nat) : Reach g b b
  | step {a p b : Nat} : p ∈ parentsOf g b → Reach g a p → Reach g a b

/-- any set containing `b` and closed under parents contains everything reachable from `b` -/
theorem Reach.closed (g : Graph) (S : Nat → Prop) (b : Nat) (hb : S b)
    (hcl : ∀ x, S x → ∀ p ∈ parentsOf g x, S p) : ∀ a, Reach g a b → S a := by
  intro a h
  induction h with
  | refl => exact hb
  | step hp _ ih => exact ih (hcl _ hb _ hp)

/-- well-formed graph: ids distinct, every parent present -/
def Graph.wf (g : Graph) : Bool :=
  (g.map (·.id)).Nodup && g.all (fun c => c.parents.all (fun p => (g.get? p).isSome))

/-! ### C11 oracle -/

structure SeekVerdict where
  common : Bool          -- result is ancestor-or-self of every input
  inputWhenAncestor : Bool  -- if some input is an ancestor of all inputs, the result is such an input
  foundIffExists : Bool
  deriving Repr

def commonAncestors (g : Graph) (inputs : List Nat) : List Nat :=
  match inputs with
  | [] => []
  | x :: xs => (ancestors g x).filter (fun a => xs.all (fun y => reach g a y))

def seekVerdict (g : Graph) (inputs : List Nat) (result : Option Nat) : SeekVerdict :=
  let commons := commonAncestors g inputs
  let inputAnc := inputs.filter (fun x => inputs.all (fun y => reach g x y))
  match result with
  | some r =>
    { common := inputs.all (fun y => reach g r y),
      inputWhenAncestor := inputAnc.isEmpty || inputAnc.contains r,
      foundIffExists := true }
  | none =>
    { common := true, inputWhenAncestor := inputAnc.isEmpty, foundIffExists := commons.isEmpty }

end Wrgl
