/-
Hypotheses of the C04 theorem: what a structurally sound table (C03) looks like to the differ.
Core Lean only.
-/
import WrglModel.Model.Diff
import WrglModel.Spec.Diff
namespace Wrgl

/-- an abstract stored table: rows (with their key, hashes) grouped by block, plus the stored
    `sortedOff` permutation of every block index -/
structure ATable where
  blocks : List (List KRow)
  sortedOffs : List (List Nat)
  deriving Repr

namespace ATable

def allRows (t : ATable) : List KRow := t.blocks.flatten

/-- what the differ reads: block indices and the table index (first key of every block) -/
def toD (t : ATable) : DTable :=
  { blocks := (t.blocks.zip t.sortedOffs).map (fun (rows, so) =>
      { sortedOff := so, rows := rows.map (fun r => (r.pkSum, r.rowSum)) }),
    tblIdx := t.blocks.map (fun rows => match rows with
      | r :: _ => r.key
      | [] => []) }

/-- `so` sorts the rows of a block by key hash: a permutation of `0..n-1` along which `pkSum`
    is non-decreasing -/
def sortedOffOk (rows : List KRow) (so : List Nat) : Prop :=
  so.Perm (List.range rows.length) ∧
  ∀ (i j : Nat) (a b : KRow), i < j → (so[i]?).bind (rows[·]?) = some a → (so[j]?).bind (rows[·]?) = some b →
    bytesCmp a.pkSum b.pkSum ≠ .gt

/-- structural soundness as far as the differ relies on it (a consequence of C03's `TableInv`) -/
structure WF (bs arity : Nat) (t : ATable) : Prop where
  sameLen : t.sortedOffs.length = t.blocks.length
  nonempty : ∀ b ∈ t.blocks, b ≠ []
  sizes : ∀ b ∈ t.blocks, b.length ≤ bs
  full : ∀ (i : Nat) b, t.blocks[i]? = some b → i + 1 < t.blocks.length → b.length = bs
  arity : ∀ r ∈ t.allRows, r.key.length = arity
  ascending : t.allRows.Pairwise (fun a b => keyCmp a.key b.key = .lt)
  sorted : ∀ (i : Nat) b so, t.blocks[i]? = some b → t.sortedOffs[i]? = some so → sortedOffOk b so
  offs : ∀ (i : Nat) b (j : Nat) r, t.blocks[i]? = some b → b[j]? = some r → r.off = i * bs + j

end ATable

/-- the key hash identifies the key, over the rows of both tables -/
def HashInj (t1 t2 : ATable) : Prop :=
  ∀ a ∈ t1.allRows ++ t2.allRows, ∀ b ∈ t1.allRows ++ t2.allRows, (a.pkSum = b.pkSum ↔ a.key = b.key)

/-- the row hash identifies the row content, over the rows of both tables -/
def RowHashInj (t1 t2 : ATable) : Prop :=
  ∀ a ∈ t1.allRows ++ t2.allRows, ∀ b ∈ t1.allRows ++ t2.allRows, (a.rowSum = b.rowSum ↔ a.cells = b.cells)

end Wrgl
