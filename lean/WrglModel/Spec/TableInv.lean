/-
C03: structural soundness of a stored table, as a decidable predicate over what is stored.
Core Lean only.
-/
import WrglModel.Model.Sorter
import WrglModel.Model.Diff
import WrglModel.Spec.Sorter
namespace Wrgl

/-- everything stored for a table, with the key/row hashes of every row (computed from the rows) -/
structure FullTable where
  columns : Row
  pk : List Nat
  rowsCount : Nat
  blocks : List (List Row)
  hashes : List (List (Bytes × Bytes))     -- per block, per row: (H key, H row)
  indices : List BIdx                       -- stored block indices
  tblIdx : List (List Bytes)
  deriving Repr

def strictAsc : List (List Bytes) → Bool
  | [] => true
  | [_] => true
  | a :: b :: rest => keyCmp a b == .lt && strictAsc (b :: rest)

def isPermOfRange (so : List Nat) (n : Nat) : Bool :=
  so.length == n && (List.range n).all so.contains

def nondecreasingAlong (so : List Nat) (rows : List (Bytes × Bytes)) : Bool :=
  let ks := so.map (fun j => match rows[j]? with
    | some (p, _) => p
    | none => [])
  (ks.zip ks.tail).all (fun (a, b) => bytesCmp a b != .gt)

/-- the clauses of C03 -/
def tableInv (bs : Nat) (t : FullTable) : List String :=
  let keys := t.blocks.flatten.map (keyOf t.pk)
  (if t.rowsCount == (t.blocks.map List.length).sum then [] else ["rowscount-equals-rows-present"]) ++
  (if blockSizesOk bs (t.blocks.map List.length) then [] else ["block-sizes"]) ++
  (if strictAsc keys then [] else ["keys-strictly-ascending"]) ++
  (if t.indices.length == t.blocks.length && t.hashes.length == t.blocks.length then [] else ["one-index-per-block"]) ++
  (if (t.indices.zip t.hashes).all (fun (idx, hs) => idx.rows == hs) then [] else ["block-index-maps-key-hash-to-row-hash-and-position"]) ++
  (if t.indices.all (fun idx => isPermOfRange idx.sortedOff idx.rows.length && nondecreasingAlong idx.sortedOff idx.rows) then []
   else ["block-index-sorted-by-key-hash"]) ++
  (if t.tblIdx == t.blocks.map (fun b => match b with
      | r :: _ => keyOf t.pk r
      | [] => []) then [] else ["table-index-lists-first-key-per-block"])

end Wrgl
