/-
C05 specification for tables with the same column list: the three-way merge rule, per key and
per column. Core Lean only.
-/
import WrglModel.Model.Merge
namespace Wrgl

/-- per column: the distinct values the branches changed the cell to -/
def changedVals (baseCell : Option Bytes) (cells : List Bytes) : List Bytes :=
  (cells.filter (fun x => some x != baseCell)).eraseDups

inductive KeyOutcome where
  | absent                                   -- not in the result
  | row (r : Row)                            -- resolved (or untouched) row
  | conflict                                 -- must be reported, never a silent pick
  deriving Repr, DecidableEq

/-- the merge rule for one key: `b` the base row (if any), `xs` each branch's row (if any) -/
def mergeKey (nCols : Nat) (b : Option Row) (xs : List (Option Row)) : KeyOutcome :=
  let present := xs.filterMap id
  match b with
  | none =>
    if present.isEmpty then .absent else
    -- added by one or more branches: every column must agree
    let cols := (List.range nCols).map (fun i => (present.map (fun r => (r[i]?).getD [])).eraseDups)
    if cols.all (fun vs => vs.length == 1) then .row (cols.map (fun vs => vs.headD [])) else .conflict
  | some br =>
    let someRemoved := xs.any Option.isNone
    if present.all (fun r => r == br) then (if someRemoved then .absent else .row br)
    else if someRemoved then .conflict          -- one branch removed the row, another modified it
    else
      let cols := (List.range nCols).map (fun i =>
        let bc := (br[i]?).getD []
        (bc, changedVals (some bc) (present.map (fun r => (r[i]?).getD []))))
      if cols.all (fun (_, vs) => vs.length ≤ 1) then .row (cols.map (fun (bc, vs) => vs.headD bc)) else .conflict

structure MergeSpecOut where
  conflictKeys : List (List Bytes)
  rows : List Row          -- resolved and untouched rows; a conflicting key keeps its base row until resolved
  deriving Repr

def mergeSpec (sortFn : List Row → List Row) (nCols : Nat) (pk : List Nat) (base : List Row) (branches : List (List Row)) : MergeSpecOut :=
  let keys := allKeys pk base branches
  let outs := keys.map (fun k => (k, findByKey pk base k, mergeKey nCols (findByKey pk base k) (branches.map (fun br => findByKey pk br k))))
  { conflictKeys := outs.filterMap (fun (k, _, o) => if o == .conflict then some k else none),
    rows := sortFn (outs.filterMap (fun (_, b, o) => match o with
      | .row r => some r
      | .conflict => b
      | .absent => none)) }

/-- move the key columns to the front (the merged layout hoists the primary key) -/
def hoistRow (pk : List Nat) (r : Row) : Row :=
  pk.map (fun i => (r[i]?).getD []) ++ ((r.zipIdx).filter (fun (_, i) => !pk.contains i)).map (·.1)

end Wrgl
