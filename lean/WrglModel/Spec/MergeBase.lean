/-
The base of a merge (C05: "merging branches that share a base"): on the commit graph, the commits
every merged head descends from (or is), none of whose proper descendants is such a commit too.
With two heads this is the usual merge base; with three it is the commit where ALL three histories
meet, whatever pair of them shares more. Built on the reachability closure of Spec/Graph.lean.
Core Lean only.
-/
import WrglModel.Spec.Graph
namespace Wrgl

/-- common ancestors (or self) of all inputs that have no other common ancestor below them -/
def bestCommonAncestors (g : Graph) (inputs : List Nat) : List Nat :=
  let cs := commonAncestors g inputs
  cs.filter (fun c => !cs.any (fun d => d != c && reach g c d))

end Wrgl
