/-
Specification of the external sort (C19) and of what ingest stores (C01). Core Lean only.
-/
import WrglModel.Model.Sorter
namespace Wrgl

def keyLe (a b : List Bytes) : Bool := keyCmp a b != .gt

/-- drop adjacent repeats -/
def dedupKeys : List (List Bytes) → List (List Bytes)
  | [] => []
  | [k] => [k]
  | a :: b :: rest => if a == b then dedupKeys (b :: rest) else a :: dedupKeys (b :: rest)

/-- the distinct keys of the input, ascending -/
def distinctKeys (pk : List Nat) (rows : List Row) : List (List Bytes) :=
  dedupKeys ((rows.map (keyOf pk)).mergeSort keyLe)

/-- `out[i]` is (the image under column removal of) an input row carrying the i-th distinct key -/
def pairedOk (pk removed : List Nat) (input : List Row) : List (List Bytes) → List Row → Bool
  | [], [] => true
  | k :: ks, o :: os =>
    input.any (fun r => keyOf pk r == k && removeCols removed r == o) && pairedOk pk removed input ks os
  | _, _ => false

/-- block sizes: every block but the last has `bs` rows, the last 1..bs -/
def blockSizesOk (bs : Nat) : List Nat → Bool
  | [] => true
  | [n] => decide (1 ≤ n ∧ n ≤ bs)
  | n :: rest => n == bs && blockSizesOk bs rest

/-- clauses of C19 for a sorted output given as blocks of rows -/
def sortVerdict (bs : Nat) (pk removed : List Nat) (input : List Row) (blocks : List (List Row)) : List String :=
  let out := blocks.flatten
  let ks := distinctKeys pk input
  (if out.length == ks.length then [] else ["one-row-per-distinct-key"]) ++
  (if pairedOk pk removed input ks out then [] else ["rows-are-input-rows-in-key-order"]) ++
  (if blockSizesOk bs (blocks.map List.length) then [] else ["block-sizes"])

/-- block keys: block i's recorded key is the i*bs-th distinct key -/
def blockKeysOk (bs : Nat) (ks : List (List Bytes)) (blockKeys : List (List Bytes)) : Bool :=
  (blockKeys.zipIdx).all (fun (k, i) => ks[i * bs]? == some k)

end Wrgl
