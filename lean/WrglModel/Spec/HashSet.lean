import WrglModel.Model.HashSet
namespace Wrgl

def sortedHashes : List Hash → Bool
  | [] => true
  | [_] => true
  | a :: b :: rest => bytesCmp a b != .gt && sortedHashes (b :: rest)

/-- fan-out table consistent with the entries: 256 counters, counter k = number of entries whose
    first byte is ≤ k -/
def fanoutOk (f : HSFile) : Bool :=
  f.fanout.length == 256 &&
  (f.fanout.zipIdx).all (fun (c, k) => c == (f.entries.filter (fun h => firstByte h ≤ k)).length)

/-- invariant of a flushed file -/
def hsInv (f : HSFile) : Bool := f.fanout.isEmpty && f.entries.isEmpty || (sortedHashes f.entries && fanoutOk f)

end Wrgl
