import WrglModel.Model.HashSet
namespace Wrgl

def sortedHashes : List Hash → Bool
  | [] => true
  | [_] => true
  | a :: b :: rest => bytesCmp a b != .gt && sortedHashes (b :: rest)

/-- tail-recursive form of `sortedHashes`, used by the compiled driver (`sortedHashes_eq_TR`): a
    file of tens of thousands of entries is checked without deep recursion -/
def sortedFrom (prev : Hash) : List Hash → Bool
  | [] => true
  | b :: rest => if bytesCmp prev b == .gt then false else sortedFrom b rest

def sortedHashesTR : List Hash → Bool
  | [] => true
  | a :: l => sortedFrom a l

theorem sortedHashes_cons_eq (a : Hash) (l : List Hash) : sortedHashes (a :: l) = sortedFrom a l := by
  induction l generalizing a with
  | nil => simp [sortedHashes, sortedFrom]
  | cons b rest ih =>
    simp only [sortedHashes, sortedFrom]
    rw [ih b]
    cases bytesCmp a b <;> simp

@[csimp] theorem sortedHashes_eq_TR : @sortedHashes = @sortedHashesTR := by
  funext l
  cases l with
  | nil => rfl
  | cons a l => exact sortedHashes_cons_eq a l

/-- fan-out table consistent with the entries: 256 counters, counter k = number of entries whose
    first byte is ≤ k -/
def fanoutOk (f : HSFile) : Bool :=
  f.fanout.length == 256 &&
  (f.fanout.zipIdx).all (fun (c, k) => c == (f.entries.filter (fun h => firstByte h ≤ k)).length)

/-- `fanoutOk` counting in place instead of building 256 filtered lists; the compiled driver uses
    it (`fanoutOk_eq_C`) -/
def fanoutOkC (f : HSFile) : Bool :=
  f.fanout.length == 256 &&
  (f.fanout.zipIdx).all (fun (c, k) => c == f.entries.countP (fun h => firstByte h ≤ k))

@[csimp] theorem fanoutOk_eq_C : @fanoutOk = @fanoutOkC := by
  funext f
  simp [fanoutOk, fanoutOkC, List.countP_eq_length_filter]

/-- invariant of a flushed file -/
def hsInv (f : HSFile) : Bool := f.fanout.isEmpty && f.entries.isEmpty || (sortedHashes f.entries && fanoutOk f)

end Wrgl
