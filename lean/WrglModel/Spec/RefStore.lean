/-
C15 specification: a plain map from exact names to values with per-name append-only logs, the
operations of the ref store on it, and the two step functions (concrete SQL model / abstract map)
whose output traces the property equates. Core Lean only.
-/
import WrglModel.Model.RefStore
namespace Wrgl

structure Entry where
  old : Option Bytes
  new : Bytes
  msg : String
  deriving Repr, DecidableEq

/-- the abstract store: association lists used as finite maps (first binding wins) -/
structure ASt where
  vals : List (Name × Bytes)
  logs : List (Name × List Entry)     -- oldest entry first
  deriving Repr

namespace ASt
def val (a : ASt) (k : Name) : Option Bytes := (a.vals.find? (fun r => r.1 == k)).map (·.2)
def log (a : ASt) (k : Name) : List Entry := ((a.logs.find? (fun r => r.1 == k)).map (·.2)).getD []
def setVal (a : ASt) (k : Name) (v : Option Bytes) : ASt :=
  { a with vals := (match v with
      | some x => [(k, x)]
      | none => []) ++ a.vals.filter (fun r => r.1 != k) }
def setLog (a : ASt) (k : Name) (l : List Entry) : ASt :=
  { a with logs := (k, l) :: a.logs.filter (fun r => r.1 != k) }
def names (a : ASt) : List Name := (a.vals.map (·.1)).eraseDups
end ASt

inductive ROp where
  | set (k : Name) (v : Bytes)
  | setLog (k : Name) (v : Bytes) (msg : String)
  | get (k : Name)
  | del (k : Name)
  | filter (ps nps : List Name)
  | filterKey (ps nps : List Name)
  | rename (o n : Name)
  | copy (s d : Name)
  | log (k : Name)
  | listRefs (pfx : Name)
  | delAllRemote (remote : String)
  | renameAllRemote (o n : String)
  deriving Repr

inductive ROut where
  | ok
  | err
  | val (v : Option Bytes)
  | pairs (l : List (Name × Bytes))
  | names (l : List Name)
  | log (l : Option (List Entry))      -- newest first; none = not found
  deriving Repr, DecidableEq

def toEntry (l : LogRow) : Entry := { old := l.oldoid, new := l.newoid, msg := l.msg }

/-- literal prefix filter of the specification (case-sensitive, no wildcard) -/
def litFilter (ps nps : List Name) (n : Name) : Bool :=
  (ps.isEmpty || ps.any (fun p => hasPrefix p n)) && nps.all (fun p => !hasPrefix p n)

def stripPrefix (pfx n : Name) : Name := String.ofList (n.toList.drop pfx.length)

/-- concrete step (SQL model) -/
def stepC (literal : Bool) (s : SqlSt) : ROp → SqlSt × ROut
  | .set k v => (s.set k v, .ok)
  | .setLog k v m => (s.setWithLog k v m, .ok)
  | .get k => (s, .val (s.get k))
  | .del k => (s.delete k, .ok)
  | .filter ps nps => (s, .pairs (s.filter literal ps nps))
  | .filterKey ps nps => (s, .names (s.filterKey literal ps nps))
  | .rename o n => (match s.rename o n with
      | some s' => (s', .ok)
      | none => (s, .err))
  | .copy a b => (match s.copy a b with
      | some s' => (s', .ok)
      | none => (s, .err))
  | .log k => (s, match s.readLog k with
      | none => .log none
      | some none => .err
      | some (some rows) => .log (some (rows.map toEntry)))
  | .listRefs pfx => (s, .pairs (listRefs literal s pfx))
  | .delAllRemote r => (deleteAllRemoteRefs literal s r, .ok)
  | .renameAllRemote o n => (match renameAllRemoteRefs literal s o n with
      | (s', true) => (s', .ok)
      | (s', false) => (s', .err))

def sortedPairs (a : ASt) (f : Name → Bool) : List (Name × Bytes) :=
  SqlSt.sortByName ((a.names.filter f).filterMap (fun n => (a.val n).map (fun v => (n, v))))

/-- abstract rename on the map -/
def aRename (a : ASt) (o n : Name) : Option ASt :=
  match a.val o with
  | none => none
  | some v => if (a.val n).isSome then none
    else some (((a.setVal n (some v)).setVal o none).setLog n (a.log o) |>.setLog o [])

/-- abstract step (plain map with append-only logs) -/
def stepA (a : ASt) : ROp → ASt × ROut
  | .set k v => (a.setVal k (some v), .ok)
  | .setLog k v m => ((a.setLog k (a.log k ++ [{ old := a.val k, new := v, msg := m }])).setVal k (some v), .ok)
  | .get k => (a, .val (a.val k))
  | .del k => ((a.setVal k none).setLog k [], .ok)
  | .filter ps nps => (a, .pairs (sortedPairs a (litFilter ps nps)))
  | .filterKey ps nps => (a, .names ((sortedPairs a (litFilter ps nps)).map (·.1)))
  | .rename o n => (match aRename a o n with
      | some a' => (a', .ok)
      | none => (a, .err))
  | .copy s d => (match a.val s with
      | none => (a, .err)
      | some v => if (a.val d).isSome then (a, .err)
        else ((a.setVal d (some v)).setLog d (a.log s), .ok))
  | .log k => (a, if (a.log k).isEmpty then .log none else .log (some (a.log k).reverse))
  | .listRefs pfx => (a, .pairs ((sortedPairs a (fun n => hasPrefix pfx n)).map (fun r => (stripPrefix pfx r.1, r.2))))
  | .delAllRemote r =>
    let pfx := remoteRef r ""
    ((a.names.filter (hasPrefix pfx)).foldl (fun st k => (st.setVal k none).setLog k []) a, .ok)
  | .renameAllRemote o n =>
    let pfx := remoteRef o ""
    let keys := (sortedPairs a (hasPrefix pfx)).map (·.1)
    let r := keys.foldl (fun (acc : ASt × Bool) k =>
      if !acc.2 then acc else
      match aRename acc.1 k (remoteRef n (stripPrefix pfx k)) with
      | some st => (st, true)
      | none => (acc.1, false)) (a, true)
    (r.1, if r.2 then .ok else .err)

def runC (literal : Bool) : SqlSt → List ROp → List ROut
  | _, [] => []
  | s, o :: os => let (s', out) := stepC literal s o; out :: runC literal s' os

def runA : ASt → List ROp → List ROut
  | _, [] => []
  | a, o :: os => let (a', out) := stepA a o; out :: runA a' os

/-! ### The file-based store (`pkg/ref/fs`): the same map, three operations in their file-store form

`pkg/ref/fs` keeps one file per ref (`refs/<name>`) and one per log (`logs/<name>`). It is judged by
the SAME abstract map `ASt`/`stepA`; the operations below are the only ones whose file-store form
differs, and each form is still an operation of a plain map with per-name logs:

* `del` of a name that is not bound reports an error (`os.Remove`) and changes nothing; the SQL
  store reports success.
* `rename o n` / `copy s d` onto a bound destination REPLACE it — value and log — the way
  assigning to a map entry does (`os.Rename` / `os.Create`); the SQL store refuses. Written here
  as "delete the destination, then the map's rename/copy". `rename o o` / `copy s s` of a bound
  name leave the map as it is.
* `renameAllRemote` is the same loop over the file-store rename.

Everything else (`set`, `setLog`, `get`, `filter`, `filterKey`, `log`, `listRefs`, `delAllRemote`)
is `stepA` itself. What the file store does not implement at all (several prefixes, excluded
prefixes, prefixes that are not directory paths, names that are directories of other names, a log
entry's old value computed by the store, transactions, the order of `FilterKey`) is never
generated for it or is normalised by the runner; the list is in harness/c15.go (`c15FsDomain`). -/

/-- file-store form of one step of the abstract map -/
def stepAF (a : ASt) : ROp → ASt × ROut
  | .del k => if (a.val k).isSome then stepA a (.del k) else (a, .err)
  | .rename o n =>
    if (a.val o).isSome && (a.val n).isSome then
      (if o == n then (a, .ok) else stepA (stepA a (.del n)).1 (.rename o n))
    else stepA a (.rename o n)
  | .copy s d =>
    if (a.val s).isSome && (a.val d).isSome then
      (if s == d then (a, .ok) else stepA (stepA a (.del d)).1 (.copy s d))
    else stepA a (.copy s d)
  | .renameAllRemote o n =>
    let pfx := remoteRef o ""
    let keys := (sortedPairs a (hasPrefix pfx)).map (·.1)
    let r := keys.foldl (fun (acc : ASt × Bool) k =>
      if !acc.2 then acc else
      match stepAF_rename acc.1 k (remoteRef n (stripPrefix pfx k)) with
      | (st, .ok) => (st, true)
      | (st, _) => (st, false)) (a, true)
    (r.1, if r.2 then .ok else .err)
  | op => stepA a op
where
  stepAF_rename (a : ASt) (o n : Name) : ASt × ROut :=
    if (a.val o).isSome && (a.val n).isSome then
      (if o == n then (a, .ok) else stepA (stepA a (.del n)).1 (.rename o n))
    else stepA a (.rename o n)

def runAF : ASt → List ROp → List ROut
  | _, [] => []
  | a, o :: os => let (a', out) := stepAF a o; out :: runAF a' os

end Wrgl
