import WrglModel.Model.Transfer
namespace Wrgl
theorem C07_placeholder : True := trivial
end Wrgl
