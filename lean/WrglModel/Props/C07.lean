/-
C07 — Commits sent through packfiles are reproduced exactly at the destination.
Property theorems only. Model: Model/Transfer.lean (ObjectSender's object order and packfile cut,
ObjectReceiver's acceptance conditions) at the level of object identities; byte identity and the
re-built indices/profiles are compared on the implementation (and checked with C03's `tableInv`).
-/
import WrglModel.Model.Transfer
import WrglModel.Lemmas.C07
namespace Wrgl

/-- For every size limit (from 1 byte up), cutting the object sequence into packfiles loses,
    duplicates and reorders nothing; every packfile is non-empty, so the exchange terminates. -/
theorem C07_packfiles_exact (maxSize : Nat) (size : ObjKey → Nat) (objs : List ObjKey) :
    (packfiles maxSize size (objs.length + 1) objs).flatten = objs ∧
    (∀ p ∈ packfiles maxSize size (objs.length + 1) objs, p ≠ []) ∧
    (packfiles maxSize size (objs.length + 1) objs).length ≤ objs.length :=
  ⟨packfiles_flatten maxSize size objs, (packfiles_nonempty maxSize size objs).1, (packfiles_nonempty maxSize size objs).2⟩

/-- Objects arrive in an order the receiver accepts: commit objects follow the given list, a
    table's new blocks precede it, no block or table is sent twice. -/
theorem C07_sender_order (s : SrcRepo) (tts : List Nat) (st : SenderSt) (toSend : List Nat) (objs : List ObjKey)
    (h : senderObjs s tts st toSend = .ok objs) :
    (objs.filterMap (fun o => match o with
      | .com c => some c
      | _ => none)) = toSend ∧
    (objs.filter (fun o => match o with
      | .com _ => false
      | _ => true)).Nodup ∧
    (∀ (i : Nat) (t : Nat), objs[i]? = some (.tbl t) →
      ∀ ti, s.table? t = some ti → ∀ b ∈ ti.blocks, st.commonBlocks.contains b = true ∨ .blk b ∈ objs.take i) :=
  sender_order s tts st toSend objs h

/-- For any set of commits (listed parent-first relative to the destination, repeats allowed), any
    subset of tables and blocks already present at the destination and any selection of tables to
    send: every object is accepted and the destination ends up holding exactly what it held plus
    the sent objects. -/
theorem C07_transfer_exact (s : SrcRepo) (d : DstRepo) (common toSend tts : List Nat) (st : SenderSt) (objs : List ObjKey)
    (hok : TransferOK s d common toSend)
    (hi : senderInit s common = .ok st) (ho : senderObjs s tts st toSend = .ok objs) :
    ∃ d', receiveAll s d objs = .ok d' ∧ (∀ k, d'.has k = true ↔ d.has k = true ∨ k ∈ objs) :=
  transfer_exact s d common toSend tts st objs hok hi ho

/-- A commit is never accepted while a parent is missing. -/
theorem C07_no_orphan_commit (s : SrcRepo) (d : DstRepo) (c : Nat) (cm : Commit) (p : Nat)
    (hc : s.commits.get? c = some cm) (hp : p ∈ cm.parents) (hmiss : (d.commits.get? p).isSome = false) :
    receiveObj s d (.com c) = .err "parent-missing" :=
  no_orphan_commit s d c cm p hc hp hmiss

end Wrgl
