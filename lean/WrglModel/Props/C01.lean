import WrglModel.Model.Sorter
import WrglModel.Spec.Sorter
import WrglModel.Spec.TableInv
import WrglModel.Gen.Facts
namespace Wrgl
theorem C01_placeholder : True := trivial
end Wrgl
