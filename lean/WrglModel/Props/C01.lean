/-
C01 — Committing a CSV stores exactly its rows (one per primary key), losslessly.
Property theorems only. Model: Model/Sorter.lean (`ingestTable`: sorter → blocks → table),
Model/Encoding.lean (row/block codec). `sort.Slice` is a parameter assumed to be a correct sort.
CSV tokenisation (encoding/csv) is trusted: "the rows of the CSV" are what it returns.
-/
import WrglModel.Model.Sorter
import WrglModel.Lemmas.C01
import WrglModel.Lemmas.C06Codec
import WrglModel.Gen.Facts
namespace Wrgl

/-! ties to the source -/
theorem C01_fact_blockSize : Facts.blockSize = 255 := by decide
theorem C01_fact_addRowGuard : Facts.addRowMaxCell = some 65535 := by decide
theorem C01_fact_sortFileChecksAddRow : Facts.sortFileChecksAddRow = true := by decide
theorem C01_fact_encodeGuard : Facts.strListEncodeMaxCell = some 65535 := by decide
theorem C01_fact_offsetWide : Facts.strListOffsetWide = true := by decide

/-- For every input, key choice, run size (spill pattern) and correct sort: the stored rows are
    input rows, their keys strictly ascend in byte order, every input key is represented — exactly
    one row per distinct key, each identical cell-for-cell to an input row carrying that key — and
    the recorded row count is the number of stored rows. Empty keys and empty cells included. -/
theorem C01_keys_exact (sortFn : List Row → List Row) (pk : List Nat) (hs : IsSort pk sortFn)
    (w : Nat) (runSize : Nat) (columns : Row) (rows : List Row) (t : StoredTable) (hw : RowsWF w pk rows)
    (h : ingestTable sortFn Facts.blockSize Facts.addRowMaxCell runSize columns pk rows = .ok t) :
    t.blocks.flatten.Pairwise (fun a b => keyCmp (keyOf pk a) (keyOf pk b) = .lt) ∧
    (∀ r ∈ t.blocks.flatten, r ∈ rows) ∧
    (∀ r ∈ rows, ∃ r' ∈ t.blocks.flatten, keyOf pk r' = keyOf pk r) ∧
    t.rowsCount = t.blocks.flatten.length ∧ t.columns = columns := by
  have h1 := ingest_rows_spec sortFn pk hs Facts.blockSize (by decide) w Facts.addRowMaxCell runSize columns rows t hw h
  obtain ⟨_, _, _, _, _, _, hc, _⟩ := ingest_shape sortFn Facts.blockSize (by decide) Facts.addRowMaxCell runSize columns pk rows t h
  exact ⟨h1.1, h1.2.1, h1.2.2.1, h1.2.2.2, hc⟩

/-- When keys are unique the stored rows are exactly the input rows (a permutation of them):
    nothing dropped, duplicated, truncated or altered. -/
theorem C01_unique_exact (sortFn : List Row → List Row) (pk : List Nat) (hs : IsSort pk sortFn)
    (w : Nat) (runSize : Nat) (columns : Row) (rows : List Row) (t : StoredTable) (hw : RowsWF w pk rows)
    (huniq : rows.Pairwise (fun a b => keyOf pk a ≠ keyOf pk b))
    (h : ingestTable sortFn Facts.blockSize Facts.addRowMaxCell runSize columns pk rows = .ok t) :
    t.blocks.flatten.Perm rows :=
  ingest_unique_perm sortFn pk hs Facts.blockSize (by decide) w Facts.addRowMaxCell runSize columns rows t hw huniq h

/-- A cell over the 65535-byte limit is refused with an error — never a panic, never a stored
    table — and nothing else is refused. -/
theorem C01_overlimit_refused (sortFn : List Row → List Row) (runSize : Nat) (columns : Row) (pk : List Nat) (rows : List Row) :
    ((∃ t, ingestTable sortFn Facts.blockSize Facts.addRowMaxCell runSize columns pk rows = .ok t) ↔
      ∀ r ∈ rows, ∀ c ∈ r, c.length ≤ 65535) ∧
    (∀ p, ingestTable sortFn Facts.blockSize Facts.addRowMaxCell runSize columns pk rows ≠ .panic p) := by
  rw [C01_fact_addRowGuard]
  exact ingest_total sortFn Facts.blockSize 65535 runSize columns pk rows

/-- The stored table does not depend on the order of the rows in the file, the run size or the
    sort used (unique keys); worker count independence is C16. -/
theorem C01_config_independent (s1 s2 : List Row → List Row) (pk : List Nat)
    (h1 : IsSort pk s1) (h2 : IsSort pk s2) (w : Nat) (rs1 rs2 : Nat)
    (columns : Row) (rows1 rows2 : List Row) (t1 t2 : StoredTable) (hw : RowsWF w pk rows1)
    (hperm : rows1.Perm rows2) (huniq : rows1.Pairwise (fun a b => keyOf pk a ≠ keyOf pk b))
    (e1 : ingestTable s1 Facts.blockSize Facts.addRowMaxCell rs1 columns pk rows1 = .ok t1)
    (e2 : ingestTable s2 Facts.blockSize Facts.addRowMaxCell rs2 columns pk rows2 = .ok t2) : t1 = t2 :=
  ingest_config_independent s1 s2 pk h1 h2 Facts.blockSize w _ _ rs1 rs2 columns rows1 rows2 t1 t2 hw hperm huniq e1 e2

/-- Every stored row reads back cell-for-cell, whatever its total size. -/
theorem C01_row_roundtrip (r : Row) (rest b : Bytes)
    (hc : ∀ c ∈ r, c.length ≤ 65535) (hn : r.length < 2 ^ 32)
    (he : strListEncode 65535 r = .ok b) : strListRead (b ++ rest) = .ok (r, rest) :=
  strList_roundtrip 65535 (by decide) r rest b hc hn he

/-- The key order is column by column: no flattening of a composite key into one byte string with a
    separator byte `sep` reproduces it, because the separator may occur in a cell. For every
    separator there are two keys in ascending key order whose flattened forms are in descending
    order, and two different keys whose flattened forms are equal. (Why the generated tables carry
    composite keys over prefixes and the bytes 0x00, 0x01, 0x1f, tab.) -/
theorem C01_key_order_is_not_a_flattened_order (sep : UInt8) :
    (∃ a b : List Bytes, keyCmp a b = .lt ∧ bytesCmp (List.intercalate [sep] a) (List.intercalate [sep] b) ≠ .lt) ∧
    (∃ a b : List Bytes, a ≠ b ∧ List.intercalate [sep] a = List.intercalate [sep] b) := by
  have h255 : ¬ ((255 : UInt8) < sep) := by
    have := sep.toNat_lt
    rw [UInt8.lt_iff_toNat_lt]
    simp
    omega
  constructor
  · refine ⟨[[107], [255]], [[107, sep], []], ?_, ?_⟩
    · simp [keyCmp, bytesCmp]
    · by_cases h : sep < 255
      · simp [List.intercalate, bytesCmp, h, h255]
      · simp [List.intercalate, bytesCmp, h, h255]
  · refine ⟨[[107, sep], [98]], [[107], [sep, 98]], ?_, ?_⟩
    · simp
    · simp [List.intercalate]

end Wrgl
