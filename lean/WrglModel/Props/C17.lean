/-
C17 — Malformed or hostile bytes are rejected with an error, never a crash.
Property theorems only. Models: Model/Encoding.lean (whole-buffer decoders), Model/Chunked.lean
(packfile reader). Every Go slice/index/make the models cover is a checked operation yielding
`.panic` where Go would; termination is by structural recursion or explicit fuel shown sufficient.
-/
import WrglModel.Model.Encoding
import WrglModel.Model.Chunked
import WrglModel.Lemmas.C17
import WrglModel.Lemmas.C17Index
import WrglModel.Gen.Facts
namespace Wrgl

/-- On ANY byte string the modelled decoders return a value or an error: never a panic, never an
    exhausted fuel (no unbounded loop). -/
theorem C17_decoders_never_panic (b : Bytes) (p : String) :
    strListRead b ≠ .panic p ∧ blockDecode b ≠ .panic p ∧ uintListRead b ≠ .panic p ∧
    tableRead b ≠ .panic p ∧ commitRead b ≠ .panic p ∧ commitRead b ≠ .err "fuel" ∧
    decodeHdr b ≠ .panic p ∧ decodeHdr b ≠ .err "fuel" ∧
    packfileFlat b ≠ .panic p ∧ packfileFlat b ≠ .err "fuel" :=
  ⟨strListRead_no_panic b p, blockDecode_no_panic b p, uintListRead_no_panic b p, tableRead_no_panic b p,
   (commitRead_no_panic b p).1, (commitRead_no_panic b p).2, (decodeHdr_no_panic b p).1, (decodeHdr_no_panic b p).2,
   (packfileFlat_no_panic b p).1, (packfileFlat_no_panic b p).2⟩

/-- The packfile reader, under every read mode and every chunking of the input. -/
theorem C17_packfile_reader_safe (mode : Site → ReadMode) (c : Chunked) (p : String) :
    packfileC mode c ≠ .panic p ∧ packfileC mode c ≠ .err "fuel" :=
  packfileC_safe mode c p

/-- Memory proportional to the input: what a decoder returns is accounted for, byte by byte, by
    what it consumed (exact for string lists and blocks, an upper bound for packfiles). -/
theorem C17_output_bounded_by_input (b : Bytes) :
    (∀ r rest, strListRead b = .ok (r, rest) → 2 * r.length + rowBytes r + rest.length + 4 = b.length) ∧
    (∀ rows rest, blockDecode b = .ok (rows, rest) →
      4 + 4 * rows.length + 2 * (rows.map List.length).sum + (rows.map rowBytes).sum + rest.length = b.length) ∧
    (∀ v objs, packfileFlat b = .ok (v, objs) → 8 + 2 * objs.length + (objs.map (fun o => o.2.length)).sum ≤ b.length) :=
  ⟨fun r rest h => strListRead_size_eq b r rest h, fun rows rest h => blockDecode_size_eq b rows rest h,
   fun v objs h => packfileFlat_size b v objs h⟩

/-- tie to the source: `IndexTable` compares the key indices and every row's width with the table's
    column list before it indexes rows by key position -/
theorem C17_fact_indexTableChecks : Facts.indexTableChecksKeyAndWidth = true := by decide

/-- A received table object that misdescribes its blocks (a key position beyond the row width, rows
    of another width, an empty block) is refused with an error: the receiver's indexing never goes
    out of range. -/
theorem C17_indexTable_never_panics (cols : Row) (pk : List Nat) (blocks : List (List Row)) (p : String) :
    indexTable Facts.indexTableChecksKeyAndWidth cols pk blocks ≠ .panic p := by
  rw [C17_fact_indexTableChecks]; exact indexTable_no_panic cols pk blocks p

/-- … which is what the unchecked version did (the repaired defect, c77b6c0). -/
theorem C17_indexTable_unchecked_panics :
    indexTable false [[97]] [3] [[[[48]]]] = .panic "index out of range" := indexTable_unchecked_panics

end Wrgl
