import WrglModel.Model.Chunked
import WrglModel.Model.ReadModes
namespace Wrgl
theorem C17_placeholder : True := trivial
end Wrgl
