/-
C19 — External sort emits every distinct key once, in key order, at any memory limit.
Property theorems only. Model: Model/Sorter.lean (pkg/sorter/sorter.go). `sort.Slice` is a
parameter `sortFn` assumed to be some correct sort (`IsSort`).
-/
import WrglModel.Model.Sorter
import WrglModel.Model.SorterReuse
import WrglModel.Spec.Sorter
import WrglModel.Lemmas.C19
import WrglModel.Lemmas.SorterFault
import WrglModel.Gen.Facts
namespace Wrgl

/-- ties to the source -/
theorem C19_fact_blockSize : Facts.blockSize = 255 := by decide
theorem C19_fact_addRowGuard : Facts.addRowMaxCell = some 65535 := by decide

/-- For every multiset of rows, every memory limit (`runSize`, from "every row spills" to "nothing
    spills") and every correct sort: the rows that survive the k-way merge and the adjacent-key
    collapse are input rows, their keys strictly ascend in byte order (composite keys
    lexicographically, all columns when keyless), and every input key is represented — i.e.
    exactly one row per distinct key, in key order. -/
theorem C19_kept_spec (sortFn : List Row → List Row) (pk : List Nat) (hs : IsSort pk sortFn)
    (w : Nat) (maxCell : Option Nat) (runSize : Nat) (rows : List Row) (st : SorterSt)
    (hw : RowsWF w pk rows)
    (hadd : addRows sortFn maxCell runSize { chunks := [], current := [], size := 0 } rows = .ok st) :
    (keptRows sortFn pk st).Pairwise (fun a b => keyCmp (keyOf pk a) (keyOf pk b) = .lt) ∧
    (∀ r ∈ keptRows sortFn pk st, r ∈ rows) ∧
    (∀ r ∈ rows, ∃ r' ∈ keptRows sortFn pk st, keyOf pk r' = keyOf pk r) :=
  kept_spec sortFn pk hs w maxCell runSize rows st hw hadd

/-- Both outputs (binary blocks and plain rows) carry the same rows, with the same removed columns
    dropped; the key used for ordering, de-duplication and the block key is taken from the row
    before column removal. -/
theorem C19_outputs_agree (sortFn : List Row → List Row) (pk removed : List Nat) (st : SorterSt) :
    (sortedBlocks sortFn Facts.blockSize pk removed st).map (·.rows) =
      sortedRows sortFn Facts.blockSize pk removed st :=
  sortedBlocks_rows_agree sortFn Facts.blockSize pk removed st

/-- Blocks: nothing lost, every block but the last has exactly 255 rows, the last 1..255. -/
theorem C19_block_cut (l : List Row) :
    (cutBlocks Facts.blockSize (l.length + 1) l).flatten = l ∧
    blockSizesOk Facts.blockSize ((cutBlocks Facts.blockSize (l.length + 1) l).map List.length) = true :=
  cutBlocks_spec Facts.blockSize (by decide) l

/-- With unique keys the result does not depend on the memory limit, on the order of the input
    rows or on which correct sort is used. -/
theorem C19_config_independent (s1 s2 : List Row → List Row) (pk : List Nat)
    (h1 : IsSort pk s1) (h2 : IsSort pk s2) (w : Nat) (m1 m2 : Option Nat) (rs1 rs2 : Nat)
    (rows1 rows2 : List Row) (st1 st2 : SorterSt) (hw : RowsWF w pk rows1)
    (hperm : rows1.Perm rows2)
    (huniq : rows1.Pairwise (fun a b => keyOf pk a ≠ keyOf pk b))
    (ha1 : addRows s1 m1 rs1 { chunks := [], current := [], size := 0 } rows1 = .ok st1)
    (ha2 : addRows s2 m2 rs2 { chunks := [], current := [], size := 0 } rows2 = .ok st2) :
    keptRows s1 pk st1 = keptRows s2 pk st2 :=
  kept_config_independent s1 s2 pk h1 h2 w m1 m2 rs1 rs2 rows1 rows2 st1 st2 hw hperm huniq ha1 ha2

/-- Adding rows never panics; with the guard it fails exactly when a cell exceeds 65535 bytes. -/
theorem C19_addRows_total (sortFn : List Row → List Row) (runSize : Nat) (rows : List Row) :
    ((∃ st, addRows sortFn Facts.addRowMaxCell runSize { chunks := [], current := [], size := 0 } rows = .ok st) ↔
      ∀ r ∈ rows, ∀ c ∈ r, c.length ≤ 65535) ∧
    ∀ p, addRows sortFn Facts.addRowMaxCell runSize { chunks := [], current := [], size := 0 } rows ≠ .panic p := by
  rw [C19_fact_addRowGuard]
  exact ⟨addRows_ok_iff sortFn 65535 runSize rows, fun p => addRows_never_panics sortFn (some 65535) runSize rows p⟩

/-- One sorter used for several tables (`Reset` between them): the state a use starts from does
    not depend on what the sorter held before — rows never read, rows read up to a cancellation
    (`consume`), chunks spilled or not. -/
theorem C19_reuse_history_independent (sortFn : List Row → List Row) (maxCell : Option Nat) (runSize : Nat)
    (st : SorterSt) (rows : List Row) :
    reuse sortFn maxCell runSize st rows =
      addRows sortFn maxCell runSize { chunks := [], current := [], size := 0 } rows := rfl

/-- Hence a re-used sorter emits, for the table loaded after the `Reset`, exactly one row per
    distinct key of THAT table in key order, whatever was left in it (same statement as
    `C19_kept_spec`, for any earlier state `st0`, e.g. one reached by `consume`). -/
theorem C19_reuse_kept_spec (sortFn : List Row → List Row) (pk : List Nat) (hs : IsSort pk sortFn)
    (w : Nat) (maxCell : Option Nat) (runSize : Nat) (rows : List Row) (st0 st : SorterSt)
    (hw : RowsWF w pk rows)
    (hadd : reuse sortFn maxCell runSize st0 rows = .ok st) :
    (keptRows sortFn pk st).Pairwise (fun a b => keyCmp (keyOf pk a) (keyOf pk b) = .lt) ∧
    (∀ r ∈ keptRows sortFn pk st, r ∈ rows) ∧
    (∀ r ∈ rows, ∃ r' ∈ keptRows sortFn pk st, keyOf pk r' = keyOf pk r) :=
  kept_spec sortFn pk hs w maxCell runSize rows st hw hadd

/-- Spills that fail while rows are added (`AddRow` returns the error, the caller carries on, as
    re-ingest and the doctor do): for any pattern `bad` of failing spills the sorter still holds
    every row it was handed — in a spilled run or in memory — so nothing is missing from what the
    merge reads. -/
theorem C19_failed_spill_keeps_rows (sortFn : List Row → List Row) (pk : List Nat) (hs : IsSort pk sortFn)
    (maxCell : Option Nat) (runSize : Nat) (bad : Nat → Bool) (rows : List Row) (st : SorterSt) (fs : List Nat)
    (hadd : addRowsF sortFn maxCell runSize bad 0 { chunks := [], current := [], size := 0 } rows = .ok (st, fs)) :
    st.held.Perm rows := by
  have := SorterFault.addRowsF_held sortFn hs.perm maxCell runSize bad rows 0 _ st fs hadd
  simpa [SorterSt.held] using this

/-- Without failing spills the fault model is `addRows` and reports no error. -/
theorem C19_no_fault_is_addRows (sortFn : List Row → List Row) (maxCell : Option Nat) (runSize : Nat)
    (rows : List Row) (st : SorterSt) :
    addRowsF sortFn maxCell runSize (fun _ => false) 0 st rows =
      (match addRows sortFn maxCell runSize st rows with
       | .ok st' => .ok (st', [])
       | .err e => .err e
       | .panic p => .panic p) :=
  SorterFault.addRowsF_no_fault sortFn maxCell runSize rows 0 st

/-- The key of a table without primary key is every column of THAT table: for a row of width `w`
    it is the key read through the index list `[0, .., w-1]` (what `Sorter.pkIndices` hands to the
    key extraction), and through no shorter list. -/
theorem C19_keyless_key_is_all_columns (w : Nat) (r : Row) (hw : r.length = w) :
    keyOf (List.range w) r = keyOf [] r := by
  subst hw
  unfold keyOf
  by_cases h : r = []
  · subst h; simp
  · have : (List.range r.length).isEmpty = false := by
      cases r with
      | nil => exact absurd rfl h
      | cons a l => simp [List.range_succ]
    simp only [this, List.isEmpty_nil]
    apply List.ext_getElem
    · simp
    · intro i h1 h2
      simp at h1
      simp [h1]

/-- an index list made for a narrower table does not identify the rows of a wider one -/
theorem C19_narrower_index_list_collapses_rows :
    ∃ (a b : Row), a.length = 2 ∧ b.length = 2 ∧ a ≠ b ∧ keyOf (List.range 1) a = keyOf (List.range 1) b :=
  ⟨[[1], [2]], [[1], [3]], rfl, rfl, by decide, by decide⟩

/-- One sorter, several key-less tables of any widths: the table loaded after a `Reset` comes out as
    the set of its own distinct rows — every input row is there, nothing else is, no row twice —
    whatever the sorter held (and had worked out about the earlier tables) before. -/
theorem C19_reuse_keyless_keeps_every_row (sortFn : List Row → List Row) (hs : IsSort [] sortFn)
    (w : Nat) (maxCell : Option Nat) (runSize : Nat) (rows : List Row) (st0 st : SorterSt)
    (hw : RowsWF w [] rows)
    (hadd : reuse sortFn maxCell runSize st0 rows = .ok st) :
    (∀ r, r ∈ rows ↔ r ∈ keptRows sortFn [] st) ∧ (keptRows sortFn [] st).Nodup := by
  obtain ⟨h1, h2, h3⟩ := C19_reuse_kept_spec sortFn [] hs w maxCell runSize rows st0 st hw hadd
  refine ⟨fun r => ⟨fun hr => ?_, h2 r⟩, ?_⟩
  · obtain ⟨r', hr', hk⟩ := h3 r hr
    simp [keyOf] at hk
    exact hk ▸ hr'
  · refine List.Pairwise.imp ?_ h1
    intro a b hab hne
    subst hne
    simp [keyOf] at hab
    rw [KeyOrder.keyCmp_refl] at hab
    exact absurd hab (by decide)

end Wrgl
