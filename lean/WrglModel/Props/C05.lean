/-
C05 — Three-way merge keeps all non-conflicting changes, never silently alters data.
Property theorems only. Model: Model/Merge.lean (mergeTables, Resolve/tryResolve with the literal
per-column decision chain, RowCollector). Spec: Spec/Merge.lean (`mergeKey`, `mergeSpec`).
Proved for tables with the same column list (any key position, composite or absent key, any number
of branches); column-changing branches are `_partial`: see DESIGN.md. Two known findings concern the
layout of untouched rows when the key is not first and keyless merges.
-/
import WrglModel.Model.Merge
import WrglModel.Spec.Merge
import WrglModel.Spec.MergeBase
import WrglModel.Lemmas.C11Seek
import WrglModel.Lemmas.C05
import WrglModel.Lemmas.C05Cols
import WrglModel.Lemmas.C05CellCols
import WrglModel.Gen.Facts
namespace Wrgl

/-- The decision chain of `tryResolve` on one column IS the three-way rule: unresolved iff two
    different changed values occur; otherwise the changed value if there is one, else the base value. -/
theorem C05_resolveCell_spec (bc : Option Bytes) (xs : List Bytes) :
    let st := xs.foldl (fun st x => cellStep bc false false x st)
      { add := none, mod := none, rem := false, val := bc.getD [], unresolved := false }
    (st.unresolved = true ↔ (changedVals bc xs).length ≥ 2) ∧
    (st.unresolved = false → st.val = (changedVals bc xs).headD (bc.getD [])) :=
  cellFold_spec bc xs

/-- The pipeline as implemented (equal column lists, unique keys, any number of branches) reports
    exactly the specified conflicts and produces exactly the specified rows: for every key and
    column the value changed by some branch if exactly one distinct change was made, the base value
    if none was, a reported conflict otherwise; untouched rows unchanged. -/
theorem C05_model_meets_spec_partial (sortFn : List Row → List Row) (pk : List Nat) (hs : IsSort pk sortFn)
    (nCols : Nat) (base : List Row) (branches : List (List Row))
    (hb : TableOK nCols pk base) (hbr : ∀ t ∈ branches, TableOK nCols pk t) :
    (mergeTablesModel sortFn nCols pk base branches).conflicts.map (·.1) =
      (mergeSpec sortFn nCols pk base branches).conflictKeys ∧
    (mergeTablesModel sortFn nCols pk base branches).rows = (mergeSpec sortFn nCols pk base branches).rows :=
  merge_model_meets_spec sortFn pk hs nCols base branches hb hbr

/-- merge(base; X, base) = X = merge(base; base, X), without conflict -/
theorem C05_identity (sortFn : List Row → List Row) (pk : List Nat) (hs : IsSort pk sortFn)
    (nCols : Nat) (base x : List Row) (hb : TableOK nCols pk base) (hx : TableOK nCols pk x) :
    (mergeSpec sortFn nCols pk base [x, base]).conflictKeys = [] ∧
    (mergeSpec sortFn nCols pk base [x, base]).rows.Perm x ∧
    (mergeSpec sortFn nCols pk base [base, x]).conflictKeys = [] ∧
    (mergeSpec sortFn nCols pk base [base, x]).rows.Perm x :=
  mergeSpec_identity sortFn pk hs nCols base x hb hx

/-- merge(base; X, X) = X, without conflict -/
theorem C05_idempotent (sortFn : List Row → List Row) (pk : List Nat) (hs : IsSort pk sortFn)
    (nCols : Nat) (base x : List Row) (hb : TableOK nCols pk base) (hx : TableOK nCols pk x) :
    (mergeSpec sortFn nCols pk base [x, x]).conflictKeys = [] ∧
    (mergeSpec sortFn nCols pk base [x, x]).rows.Perm x :=
  mergeSpec_idempotent sortFn pk hs nCols base x hb hx

/-- The outcome for a key does not depend on the order in which the branches are listed. -/
theorem C05_order_independent (nCols : Nat) (b : Option Row) (xs ys : List (Option Row)) (h : xs.Perm ys) :
    mergeKey nCols b xs = mergeKey nCols b ys :=
  mergeKey_perm nCols b xs ys h

/-- Different edits of one cell, or a removal against a modification, are reported as conflicts —
    never a silent pick. -/
theorem C05_conflict_reported (nCols : Nat) (br x y : Row) (i : Nat)
    (hl : br.length = nCols ∧ x.length = nCols ∧ y.length = nCols) (hi : i < nCols)
    (hx : x[i]? ≠ br[i]?) (hy : y[i]? ≠ br[i]?) (hxy : x[i]? ≠ y[i]?) :
    mergeKey nCols (some br) [some x, some y] = .conflict ∧
    mergeKey nCols (some br) [none, some x] = .conflict :=
  mergeKey_conflict_reported nCols br x y i hl hi hx hy hxy

/-- A key that only one branch changed takes that branch's row (disjoint edits combine). -/
theorem C05_disjoint_no_conflict (nCols : Nat) (br x : Row) (hl : br.length = nCols ∧ x.length = nCols) (n m : Nat) :
    mergeKey nCols (some br) (List.replicate n (some br) ++ [some x] ++ List.replicate m (some br)) = .row x :=
  mergeKey_single_change nCols br x hl n m

/-- The by-name resolution used for column-changing branches (`resolveRecCols`, what the driver
    compares the implementation with when branches add, remove or move columns) is the proved
    same-columns resolution whenever every table has the base's column list. -/
theorem C05_cols_model_extends_same (cols : Row) (hnd : cols.Nodup) (key : List Bytes) (b : Option Row) (os : List (Option Row))
    (hb : ∀ r, b = some r → r.length = cols.length)
    (hos : ∀ r, some r ∈ os → r.length = cols.length) :
    resolveRecCols cols (List.replicate os.length cols) b os =
      resolveRec cols.length (fun _ _ => false) (fun _ _ => false) { key := key, base := b, others := os } :=
  resolveRecCols_same cols hnd key b os hb hos

/-- non-vacuity, with a column added by one branch and removed by another: the added column keeps
    its value, the removed one is dropped to the empty cell, no conflict -/
example :
    resolveRecCols [[1], [2]] [[[1], [2], [3]], [[1]]] (some [[7], [8]]) [some [[7], [8], [9]], some [[7]]]
      = .resolved [[7], [], [9]] := by decide

/-- The guards in front of every `unresolveCol(i)` of `tryResolve`'s inner loop, regenerated from
    the source, fire exactly when the model's `cellStep` marks the column unresolved — in every
    situation of a step (column added / removed in this layer or not; an earlier layer added or
    modified the cell to the same or another value or not; removed by an earlier layer or not; the
    base cell absent, equal or different). -/
theorem C05_unresolve_table_is_model (isAdded isRemoved rem : Bool) (a m b : Fin 3) :
    let v : Fin 3 → Option Bytes := fun i => if i = 0 then none else if i = 1 then some [1] else some [2]
    let e : CellEnv := { isAdded := isAdded, isRemoved := isRemoved, add := v a, mod := v m, rem := rem, baseCell := v b, x := [1] }
    tableFires (cellAtom e) Facts.resolveUnresolvePaths = some e.stepUnresolves := by
  revert isAdded isRemoved rem a m b
  decide

/-- `tryResolve`'s computation of one column of one key IS `cellFold` over the distinct rows of the
    key, each tagged with "this layer added the column" / "this layer removed the column". -/
theorem C05_tryResolve_cell_is_cellFold (baseCell : Option Bytes) (rem0 : Bool) (rows : List (Nat × Row))
    (added removed : Nat → Nat → Bool) (i : Nat) :
    rows.foldl (fun st (lr : Nat × Row) => cellStep baseCell (added lr.1 i) (removed lr.1 i) ((lr.2[i]?).getD []) st)
      { add := none, mod := none, rem := rem0, val := baseCell.getD [], unresolved := false } =
    cellFold baseCell rem0 (rows.map (fun lr => (added lr.1 i, removed lr.1 i, (lr.2[i]?).getD []))) := by
  unfold cellFold; rw [List.foldl_map]

/-- Column-changing branches, a column of the BASE table, any number of layers: the decision chain
    reports a conflict iff the column (or the whole row) was removed by one layer and the cell
    changed by another, or two layers changed the cell differently; otherwise it yields the changed
    value if there is one, else the empty cell when a layer removed the column, else the base value. -/
theorem C05_base_column_rule (bc : Option Bytes) (rem0 : Bool) (layers : List (Bool × Bytes))
    (hrm : ∀ l ∈ layers, l.1 = true → l.2 = []) :
    let st := cellFold bc rem0 (layers.map (fun l => (false, l.1, l.2)))
    let changed := changedVals bc ((layers.filter (fun l => !l.1)).map (·.2))
    let removed := rem0 || layers.any (·.1)
    (st.unresolved = true ↔ (removed = true ∧ changed ≠ []) ∨ changed.length ≥ 2) ∧
    (st.unresolved = false →
      st.val = (match changed with
        | v :: _ => v
        | [] => if layers.any (·.1) then [] else bc.getD [])) :=
  cellFold_base_column bc rem0 layers hrm

/-- Column-changing branches, a column NOT in the base (added by some layers): a conflict iff two
    layers added different values, otherwise the added value (empty if no layer has the column).
    `hrem` is what `tryResolve` guarantees: "a layer lacks the row" is only set when the base has it. -/
theorem C05_added_column_rule (bc : Option Bytes) (hbc : bc = none ∨ bc = some [])
    (rem0 : Bool) (hrem : bc = none → rem0 = false)
    (layers : List (Bool × Bytes)) (hlack : ∀ l ∈ layers, l.1 = false → l.2 = []) :
    let st := cellFold bc rem0 (layers.map (fun l => (l.1, false, l.2)))
    let addedVals := ((layers.filter (·.1)).map (·.2)).eraseDups
    (st.unresolved = true ↔ addedVals.length ≥ 2) ∧
    (st.unresolved = false → st.val = addedVals.headD []) :=
  cellFold_added_column_reachable bc hbc rem0 hrem layers hlack

/-- non-vacuity: one layer removes the column, another changes the cell — a conflict; two layers
    add the same value to a new column — that value -/
example : (cellFold (some [1]) false [(false, true, []), (false, false, [2])]).unresolved = true := by decide
example : (cellFold (some []) false [(true, false, [5]), (true, false, [5]), (false, false, [])]).val = [5] := by decide

/-- non-vacuity -/
example : TableOK 2 [0] [[[1], [2]], [[3], [4]]] := by
  constructor
  · intro r hr; simp at hr; rcases hr with rfl | rfl <;> rfl
  · simp [keyOf]

/-! ### the shared base of a merge of several heads (Spec/MergeBase.lean)

"Merging branches that share a base": for the histories the harness builds (op `merge-cli-pull`: three
heads merged at once) the driver takes `bestCommonAncestors` of the commit graph for that base. -/

theorem mem_commonAncestors (g : Graph) (x : Nat) (xs : List Nat) (c : Nat) :
    c ∈ commonAncestors g (x :: xs) ↔ ∀ y ∈ x :: xs, reach g c y = true := by
  simp only [commonAncestors, List.mem_filter, List.all_eq_true, reach, List.contains_iff_mem, List.mem_cons]
  constructor
  · rintro ⟨h1, h2⟩ y (rfl | hy)
    · exact h1
    · exact h2 y hy
  · intro h
    exact ⟨h x (Or.inl rfl), fun y hy => h y (Or.inr hy)⟩

/-- Every commit the driver takes for the base of a merge of the heads `x :: xs` is an
    ancestor-or-self of EVERY head (not just of two of them), and no other commit with that property
    lies below it (is a descendant of it): it is where all the histories meet. And conversely. -/
theorem C05_merge_base_spec (g : Graph) (x : Nat) (xs : List Nat) (c : Nat) :
    c ∈ bestCommonAncestors g (x :: xs) ↔
    ((∀ y ∈ x :: xs, reach g c y = true) ∧
     (∀ d, (∀ y ∈ x :: xs, reach g d y = true) → d ≠ c → reach g c d = false)) := by
  constructor
  · intro h
    simp only [bestCommonAncestors, List.mem_filter] at h
    obtain ⟨hc, hn⟩ := h
    refine ⟨(mem_commonAncestors g x xs c).1 hc, ?_⟩
    intro d hd hne
    have hdm := (mem_commonAncestors g x xs d).2 hd
    cases hr : reach g c d with
    | false => rfl
    | true =>
      exfalso
      have : (commonAncestors g (x :: xs)).any (fun d => d != c && reach g c d) = true := by
        apply List.any_eq_true.2
        exact ⟨d, hdm, by simp [hne, hr]⟩
      simp [this] at hn
  · rintro ⟨hc, hbest⟩
    simp only [bestCommonAncestors, List.mem_filter]
    refine ⟨(mem_commonAncestors g x xs c).2 hc, ?_⟩
    cases ha : (commonAncestors g (x :: xs)).any (fun d => d != c && reach g c d) with
    | false => rfl
    | true =>
      exfalso
      obtain ⟨d, hdm, hp⟩ := List.any_eq_true.1 ha
      simp only [Bool.and_eq_true, bne_iff_ne, ne_eq] at hp
      have := hbest d ((mem_commonAncestors g x xs d).1 hdm) hp.1
      rw [this] at hp
      exact Bool.noConfusion hp.2

/-- the same through parent links proper (`Reach`), on a well-formed graph that holds the heads -/
theorem C05_merge_base_reaches_every_head (g : Graph) (hwf : g.wf = true) (x : Nat) (xs : List Nat) (c : Nat)
    (hin : ∀ y ∈ x :: xs, (g.get? y).isSome = true) (h : c ∈ bestCommonAncestors g (x :: xs)) :
    ∀ y ∈ x :: xs, Reach g c y :=
  fun y hy => (reach_iff_Reach g hwf c y (hin y hy)).1 (((C05_merge_base_spec g x xs c).1 h).1 y hy)

/-- non-vacuity: root 0, 1 on it, 2 and 3 on 1, 4 on the root. Heads 4, 2, 3: the base is the root,
    although 2 and 3 share the more recent commit 1 -/
example : bestCommonAncestors [⟨0, 0, [], 0⟩, ⟨1, 1, [0], 0⟩, ⟨2, 2, [1], 0⟩, ⟨3, 3, [1], 0⟩, ⟨4, 4, [0], 0⟩] [4, 2, 3] = [0] := by decide
example : bestCommonAncestors [⟨0, 0, [], 0⟩, ⟨1, 1, [0], 0⟩, ⟨2, 2, [1], 0⟩, ⟨3, 3, [1], 0⟩, ⟨4, 4, [0], 0⟩] [2, 3] = [1] := by decide

end Wrgl
