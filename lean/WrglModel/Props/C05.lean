import WrglModel.Model.Merge
import WrglModel.Spec.Merge
namespace Wrgl
theorem C05_placeholder : True := trivial
end Wrgl
