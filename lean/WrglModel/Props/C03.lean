/-
C03 — Every stored table is structurally sound and its indices agree with its rows.
Property theorems only. Spec: Spec/TableInv.lean (`tableInv`, the decidable predicate the driver also
evaluates on every real table dump). Model: Model/Sorter.lean, Model/TableId.lean (`indexBlock`).
-/
import WrglModel.Model.TableId
import WrglModel.Spec.TableInv
import WrglModel.Lemmas.C01
import WrglModel.Gen.Facts
namespace Wrgl

/-- the full stored table (rows, recomputed hashes, block indices, table index) of an ingest result -/
def fullTableOfStored (H : Bytes → Bytes) (sortPerm : List Bytes → List Nat) (mc : Nat) (pk : List Nat) (t : StoredTable) : FullTable :=
  FullTable.mk t.columns t.pk t.rowsCount t.blocks (t.blocks.map (fun b => b.map (rowHashes H mc pk)))
    (t.blocks.map (indexBlock H sortPerm mc pk)) t.tblIdx

/-- The table ingest stores (commit, and every producer that goes through the sorter/inserter:
    merge results, doctor re-ingest), with block indices built from its blocks, satisfies every
    clause: row count = rows present; blocks 255/…/255/1..255; keys strictly ascending over the
    whole table; each block index holds exactly (H key, H row) per row in row order and is sorted by
    key hash; the table index lists the first key of every block. Includes sizes k·255 and k·255+1
    and duplicate keys at a block edge (all inputs). -/
theorem C03_ingest_inv (H : Bytes → Bytes) (sortPerm : List Bytes → List Nat) (hp : IsSortPerm sortPerm)
    (sortFn : List Row → List Row) (pk : List Nat) (hs : IsSort pk sortFn)
    (w : Nat) (mc : Nat) (runSize : Nat) (columns : Row) (rows : List Row) (t : StoredTable) (hw : RowsWF w pk rows)
    (h : ingestTable sortFn Facts.blockSize Facts.addRowMaxCell runSize columns pk rows = .ok t) :
    tableInv Facts.blockSize (fullTableOfStored H sortPerm mc pk t) = [] :=
  ingest_tableInv H sortPerm hp sortFn pk hs Facts.blockSize (by decide) w Facts.addRowMaxCell mc runSize columns rows t hw h

/-- `rowAt`: the offset arithmetic diff and merge rely on (`RowToBlockAndOffset`) -/
def rowAt (bs : Nat) (blocks : List (List Row)) (off : Nat) : Option Row :=
  (blocks[off / bs]?).bind (·[off % bs]?)

/-- With every block but the last full, absolute offset `b·255+i` addresses row `i` of block `b`. -/
theorem C03_offsets (blocks : List (List Row)) (b i : Nat) (blk : List Row) (r : Row)
    (hb : blocks[b]? = some blk) (hi : blk[i]? = some r) (hlen : blk.length ≤ Facts.blockSize) :
    rowAt Facts.blockSize blocks (b * Facts.blockSize + i) = some r := by
  have hil : i < blk.length := by
    rcases Nat.lt_or_ge i blk.length with h | h
    · exact h
    · rw [List.getElem?_eq_none h] at hi; exact absurd hi (by simp)
  have hbs : i < Facts.blockSize := by omega
  unfold rowAt
  have h1 : (b * Facts.blockSize + i) / Facts.blockSize = b := by
    rw [Nat.mul_comm, Nat.mul_add_div (by decide)]; simp [Nat.div_eq_of_lt hbs]
  have h2 : (b * Facts.blockSize + i) % Facts.blockSize = i := by
    rw [Nat.mul_comm, Nat.mul_add_mod]; exact Nat.mod_eq_of_lt hbs
  rw [h1, h2, hb]; simpa using hi

end Wrgl
