/-
C03 — Every stored table is structurally sound and its indices agree with its rows.
Property theorems only. Spec: Spec/TableInv.lean (`tableInv`, the decidable predicate the driver also
evaluates on every real table dump). Model: Model/Sorter.lean, Model/TableId.lean (`indexBlock`).
-/
import WrglModel.Model.TableId
import WrglModel.Spec.TableInv
import WrglModel.Lemmas.C01
import WrglModel.Lemmas.C03Producers
import WrglModel.Model.Resolver
import WrglModel.Gen.Facts
namespace Wrgl

/-- the full stored table (rows, recomputed hashes, block indices, table index) of an ingest result -/
def fullTableOfStored (H : Bytes → Bytes) (sortPerm : List Bytes → List Nat) (mc : Nat) (pk : List Nat) (t : StoredTable) : FullTable :=
  FullTable.mk t.columns t.pk t.rowsCount t.blocks (t.blocks.map (fun b => b.map (rowHashes H mc pk)))
    (t.blocks.map (indexBlock H sortPerm mc pk)) t.tblIdx

/-- The table ingest stores (commit, and every producer that goes through the sorter/inserter:
    merge results, doctor re-ingest), with block indices built from its blocks, satisfies every
    clause: row count = rows present; blocks 255/…/255/1..255; keys strictly ascending over the
    whole table; each block index holds exactly (H key, H row) per row in row order and is sorted by
    key hash; the table index lists the first key of every block. Includes sizes k·255 and k·255+1
    and duplicate keys at a block edge (all inputs). -/
theorem C03_ingest_inv (H : Bytes → Bytes) (sortPerm : List Bytes → List Nat) (hp : IsSortPerm sortPerm)
    (sortFn : List Row → List Row) (pk : List Nat) (hs : IsSort pk sortFn)
    (w : Nat) (mc : Nat) (runSize : Nat) (columns : Row) (rows : List Row) (t : StoredTable) (hw : RowsWF w pk rows)
    (h : ingestTable sortFn Facts.blockSize Facts.addRowMaxCell runSize columns pk rows = .ok t) :
    tableInv Facts.blockSize (fullTableOfStored H sortPerm mc pk t) = [] :=
  ingest_tableInv H sortPerm hp sortFn pk hs Facts.blockSize (by decide) w Facts.addRowMaxCell mc runSize columns rows t hw h

/-- `rowAt`: the offset arithmetic diff and merge rely on (`RowToBlockAndOffset`) -/
def rowAt (bs : Nat) (blocks : List (List Row)) (off : Nat) : Option Row :=
  (blocks[off / bs]?).bind (·[off % bs]?)

/-- With every block but the last full, absolute offset `b·255+i` addresses row `i` of block `b`. -/
theorem C03_offsets (blocks : List (List Row)) (b i : Nat) (blk : List Row) (r : Row)
    (hb : blocks[b]? = some blk) (hi : blk[i]? = some r) (hlen : blk.length ≤ Facts.blockSize) :
    rowAt Facts.blockSize blocks (b * Facts.blockSize + i) = some r := by
  have hil : i < blk.length := by
    rcases Nat.lt_or_ge i blk.length with h | h
    · exact h
    · rw [List.getElem?_eq_none h] at hi; exact absurd hi (by simp)
  have hbs : i < Facts.blockSize := by omega
  unfold rowAt
  have h1 : (b * Facts.blockSize + i) / Facts.blockSize = b := by
    rw [Nat.mul_comm, Nat.mul_add_div (by decide)]; simp [Nat.div_eq_of_lt hbs]
  have h2 : (b * Facts.blockSize + i) % Facts.blockSize = i := by
    rw [Nat.mul_comm, Nat.mul_add_mod]; exact Nat.mod_eq_of_lt hbs
  rw [h1, h2, hb]; simpa using hi

/-! ### the other producers -/

theorem C03_fact_indexTableComparesSums : Facts.indexTableComparesIndexSums = true := by decide
theorem C03_fact_indexTableEntryIsFirstRowKey : Facts.indexTableEntryIsFirstRowKey = true := by decide

/-- Receipt over the wire, any table object (honest or not) whose blocks are stored: if the receiver
    (`saveTable` → `IndexTable`) accepts it, then the only clauses of the invariant that can fail
    are the three that speak about the rows themselves. Everything about indices holds by
    construction: one index per block, each holding exactly (H key, H row) per row in row order,
    sorted by key hash, and the table index lists the first key of every block. The accepted table's
    declared block-index sums are the sums of those recomputed indices. -/
theorem C03_receive_index_clauses (H : Bytes → Bytes) (sortPerm : List Bytes → List Nat) (hp : IsSortPerm sortPerm)
    (mc : Nat) (o : TableObj) (getBlock : Bytes → Option (List Row)) (ft : FullTable)
    (h : receiveTable H sortPerm mc Facts.indexTableChecksKeyAndWidth Facts.indexTableComparesIndexSums o getBlock = .ok ft) :
    (∀ c ∈ tableInv Facts.blockSize ft, c ∈ rowClauses) ∧
    o.blockIndices = ft.indices.map (fun idx => H (blockIndexBytes idx.sortedOff idx.rows)) := by
  refine ⟨C03P.receive_index_clauses H sortPerm hp mc _ _ Facts.blockSize o getBlock ft h, ?_⟩
  obtain ⟨_, _, _, _, _, ei, _, _, hc⟩ := C03P.receiveTable_ok H sortPerm mc _ _ o getBlock ft h
  rw [ei]; exact hc C03_fact_indexTableComparesSums

/-- Receipt of a table that satisfied the invariant where it came from (same description, same
    rows in the same blocks — what C07 proves the transfer delivers): the received table satisfies
    every clause at the destination. -/
theorem C03_receive_inv (H : Bytes → Bytes) (sortPerm : List Bytes → List Nat) (hp : IsSortPerm sortPerm)
    (mc : Nat) (o : TableObj) (getBlock : Bytes → Option (List Row)) (ft src : FullTable)
    (h : receiveTable H sortPerm mc Facts.indexTableChecksKeyAndWidth Facts.indexTableComparesIndexSums o getBlock = .ok ft)
    (hsrc : tableInv Facts.blockSize src = [])
    (hrc : src.rowsCount = o.rowsCount) (hpk : src.pk = o.pk) (hblocks : o.blocks.mapM getBlock = some src.blocks) :
    tableInv Facts.blockSize ft = [] := by
  obtain ⟨hb, _, epk, erc, _, _, _, _, _⟩ := C03P.receiveTable_ok H sortPerm mc _ _ o getBlock ft h
  have eb : ft.blocks = src.blocks := by rw [hblocks] at hb; exact (Option.some.inj hb).symm
  have cs := (C03P.tableInv_nil_iff _ src).1 hsrc
  have hsub := (C03_receive_index_clauses H sortPerm hp mc o getBlock ft h).1
  -- the three row clauses carry over
  have c1 : (ft.rowsCount == (ft.blocks.map List.length).sum) = true := by rw [erc, eb, ← hrc]; exact cs.c1
  have c2 : blockSizesOk Facts.blockSize (ft.blocks.map List.length) = true := by rw [eb]; exact cs.c2
  have c3 : strictAsc (ft.blocks.flatten.map (keyOf ft.pk)) = true := by rw [eb, epk, ← hpk]; exact cs.c3
  cases hti : tableInv Facts.blockSize ft with
  | nil => rfl
  | cons c rest =>
    exfalso
    have hc : c ∈ tableInv Facts.blockSize ft := by rw [hti]; simp
    have hr := hsub c hc
    unfold tableInv at hc
    simp only [c1, c2, c3, if_true, List.nil_append, List.mem_append] at hc
    unfold rowClauses at hr
    simp only [List.mem_cons, List.not_mem_nil, or_false] at hr
    rcases hc with ((hc | hc) | hc) | hc <;>
      (have e := C03P.mem_ite_single hc; rw [e] at hr; revert hr; decide)

/-- The order of the rows is NOT re-checked on receipt: a table object listing two one-row blocks
    in descending key order, with truthful index sums, is accepted by the receiver model. C03 is
    therefore a property of what the repository's own sender ships (C07), not of hostile input. -/
theorem C03_receive_order_is_the_senders (H : Bytes → Bytes) (sortPerm : List Bytes → List Nat) :
    ∃ (o : TableObj) (getBlock : Bytes → Option (List Row)) (ft : FullTable),
      receiveTable H sortPerm 65535 true true o getBlock = .ok ft ∧
      "keys-strictly-ascending" ∈ tableInv Facts.blockSize ft := by
  let b1 : List Row := [[[50]]]
  let b2 : List Row := [[[49]]]
  let get : Bytes → Option (List Row) := fun s => if s == [1] then some b1 else if s == [2] then some b2 else none
  let idx := fun (b : List Row) => indexBlock H sortPerm 65535 [0] b
  let sum := fun (b : List Row) => H (blockIndexBytes (idx b).sortedOff (idx b).rows)
  let o : TableObj := { columns := [[97]], pk := [0], rowsCount := 2, blocks := [[1], [2]], blockIndices := [sum b1, sum b2] }
  refine ⟨o, get, { columns := o.columns, pk := o.pk, rowsCount := 2, blocks := [b1, b2], hashes := [b1, b2].map (fun b => b.map (rowHashes H 65535 o.pk)), indices := [idx b1, idx b2], tblIdx := [[[50]], [[49]]] }, ?_, ?_⟩
  · simp [receiveTable, o, get, b1, b2, idx, sum, indexTable, indexTable.go, List.mapM_cons, List.mapM_nil]
  · unfold tableInv
    simp [b1, b2, o, keyOf, strictAsc, keyCmp, bytesCmp]

/-- The repository's own diagnosis (`doctor`, `diagnoseCommit`) reports nothing for a table that
    satisfies the invariant, whose key positions lie inside the column list and whose key columns
    have names. -/
theorem C03_diagnose_complete (t : FullTable) (hinv : tableInv Facts.blockSize t = [])
    (hh : t.hashes.map List.length = t.blocks.map List.length)
    (hpk : t.pk.any (fun k => decide (k ≥ t.columns.length)) = false)
    (hnames : t.pk.any (fun k => ((t.columns[k]?).getD []).isEmpty) = false) :
    diagnose t = none :=
  C03P.diagnose_none Facts.blockSize t hinv hh hpk hnames

/-- … in particular for everything ingest stores (commit, merge result, doctor's re-ingest). -/
theorem C03_ingest_diagnosis_clean (H : Bytes → Bytes) (sortPerm : List Bytes → List Nat) (hp : IsSortPerm sortPerm)
    (sortFn : List Row → List Row) (pk : List Nat) (hs : IsSort pk sortFn)
    (w : Nat) (mc : Nat) (runSize : Nat) (columns : Row) (rows : List Row) (t : StoredTable) (hw : RowsWF w pk rows)
    (h : ingestTable sortFn Facts.blockSize Facts.addRowMaxCell runSize columns pk rows = .ok t)
    (hpk : t.pk.any (fun k => decide (k ≥ t.columns.length)) = false)
    (hnames : t.pk.any (fun k => ((t.columns[k]?).getD []).isEmpty) = false) :
    diagnose (fullTableOfStored H sortPerm mc pk t) = none := by
  apply C03_diagnose_complete _ (C03_ingest_inv H sortPerm hp sortFn pk hs w mc runSize columns rows t hw h) _ hpk hnames
  simp [fullTableOfStored, Function.comp_def]

/-! ### doctor resolve: one sorter over a history of issues -/

/-- every position `slice.KeyIndices` returns lies inside the column list -/
theorem keyIndices_lt (columns : Row) : ∀ (ks : List Bytes) (r : List Nat), keyIndices columns ks = .ok r →
    ∀ i ∈ r, i < columns.length
  | [], r, h, i, hi => by
    simp [keyIndices] at h; subst h; simp at hi
  | k :: ks, r, h, i, hi => by
    unfold keyIndices at h
    simp only at h
    split at h
    · exact absurd h (by simp)
    · cases hr : keyIndices columns ks with
      | ok r' =>
        rw [hr] at h
        simp only [Res.ok.injEq] at h
        subst h
        rcases List.mem_append.1 hi with hi | hi
        · exact List.mem_range.1 (List.mem_filter.1 hi).1
        · exact keyIndices_lt columns ks r' hr i hi
      | err e => rw [hr] at h; exact absurd h (by simp)
      | panic p => rw [hr] at h; exact absurd h (by simp)

/-- An issue resolved by a resolver in ANY state (whatever its sorter holds and whatever key the
    issue before left in it) stores exactly what an ingest of that table's rows under the table's
    own new key stores (columns without a name named, as every ingest does): `Reset` forgets the
    rows, the assignment of `PK` forgets the key. -/
theorem C03_resolve_one_is_ingest (sortOf : List Nat → List Row → List Row) (bs : Nat) (maxCell : Option Nat) (runSize : Nat)
    (st st' : ResolverSt) (d : DamagedTable) (t : StoredTable)
    (h : resolveOne sortOf bs maxCell runSize st d = .ok (t, st')) :
    ∃ pk, resolvedKey d = .ok pk ∧ ingestTable (sortOf pk) bs maxCell runSize (ensureNames d.columns) pk d.rows = .ok t ∧ st'.srtPK = pk := by
  unfold resolveOne at h
  cases hk : resolvedKey d with
  | err e => rw [hk] at h; exact absurd h (by simp)
  | panic p => rw [hk] at h; exact absurd h (by simp)
  | ok pk =>
    rw [hk] at h
    simp only [reuse, SorterSt.reset, SorterSt.empty] at h
    refine ⟨pk, rfl, ?_⟩
    unfold ingestTable
    cases ha : addRows (sortOf pk) maxCell runSize { chunks := [], current := [], size := 0 } d.rows with
    | err e => rw [ha] at h; exact absurd h (by simp)
    | panic p => rw [ha] at h; exact absurd h (by simp)
    | ok s =>
      rw [ha] at h
      simp only [Res.ok.injEq, Prod.mk.injEq] at h
      obtain ⟨h1, h2⟩ := h
      subst h1; subst h2
      exact ⟨rfl, rfl⟩

/-- … so what an issue's resolution stores does not depend on the issues resolved before it. -/
theorem C03_resolve_history_independent (sortOf : List Nat → List Row → List Row) (bs : Nat) (maxCell : Option Nat) (runSize : Nat)
    (st : ResolverSt) (d : DamagedTable) :
    (match resolveOne sortOf bs maxCell runSize st d with
     | .ok (t, _) => Res.ok t
     | .err e => .err e
     | .panic p => .panic p) =
    (match resolveOne sortOf bs maxCell runSize ResolverSt.fresh d with
     | .ok (t, _) => Res.ok t
     | .err e => .err e
     | .panic p => .panic p) := by
  unfold resolveOne reuse SorterSt.reset
  rfl

/-- the key a resolution gives a table of `w` columns names columns of that table -/
theorem resolvedKey_lt (d : DamagedTable) (pk : List Nat) (h : resolvedKey d = .ok pk) : ∀ i ∈ pk, i < d.columns.length := by
  unfold resolvedKey at h
  split at h
  · exact absurd h (by simp)
  · exact keyIndices_lt d.columns _ pk h

/-- Doctor resolve over a whole history of issues of one ref (re-ingests and key resets in any
    order, one sorter for all of them, started in any state): every table it writes satisfies
    every clause of the invariant, provided the rows of each damaged table have as many cells as the
    table has columns. -/
theorem C03_resolve_inv (H : Bytes → Bytes) (sortPerm : List Bytes → List Nat) (hp : IsSortPerm sortPerm)
    (sortOf : List Nat → List Row → List Row) (hs : ∀ pk, IsSort pk (sortOf pk)) (mc : Nat) (runSize : Nat) :
    ∀ (ds : List DamagedTable) (st : ResolverSt) (ts : List StoredTable),
    (∀ d ∈ ds, ∀ r ∈ d.rows, r.length = d.columns.length) →
    resolveAll sortOf Facts.blockSize Facts.addRowMaxCell runSize st ds = .ok ts →
    ∀ t ∈ ts, tableInv Facts.blockSize (fullTableOfStored H sortPerm mc t.pk t) = []
  | [], _, ts, _, h, t, ht => by
    simp [resolveAll] at h; subst h; simp at ht
  | d :: ds, st, ts, hw, h, t, ht => by
    unfold resolveAll at h
    cases h1 : resolveOne sortOf Facts.blockSize Facts.addRowMaxCell runSize st d with
    | err e => rw [h1] at h; exact absurd h (by simp)
    | panic p => rw [h1] at h; exact absurd h (by simp)
    | ok r =>
      obtain ⟨t1, st1⟩ := r
      rw [h1] at h
      simp only at h
      cases h2 : resolveAll sortOf Facts.blockSize Facts.addRowMaxCell runSize st1 ds with
      | err e => rw [h2] at h; exact absurd h (by simp)
      | panic p => rw [h2] at h; exact absurd h (by simp)
      | ok ts' =>
        rw [h2] at h
        simp only [Res.ok.injEq] at h
        subst h
        rcases List.mem_cons.1 ht with e | ht'
        · subst e
          obtain ⟨pk, hk, hi, _⟩ := C03_resolve_one_is_ingest sortOf _ _ runSize st st1 d t h1
          have hpk : t.pk = pk := by
            unfold ingestTable at hi
            split at hi
            · exact absurd hi (by simp)
            · exact absurd hi (by simp)
            · simp only [Res.ok.injEq] at hi; rw [← hi]
          rw [hpk]
          have hwf : RowsWF d.columns.length pk d.rows :=
            ⟨hw d (by simp), resolvedKey_lt d pk hk⟩
          exact C03_ingest_inv H sortPerm hp (sortOf pk) pk (hs pk) d.columns.length mc runSize (ensureNames d.columns) d.rows t hwf hi
        · exact C03_resolve_inv H sortPerm hp sortOf hs mc runSize ds st1 ts' (fun d' hd' => hw d' (List.mem_cons_of_mem _ hd')) h2 t ht'

/-- insertion sort by key (a sort `decide` can run) -/
def insertByKey (pk : List Nat) (r : Row) : List Row → List Row
  | [] => [r]
  | x :: xs => if rowLt pk r x then r :: x :: xs else x :: insertByKey pk r xs

/-- non-vacuity: a keyed re-ingest followed by a key reset, by one resolver; the second table is
    sorted by its whole rows and labelled with them, not by the key of the first -/
example : resolveAll (fun pk l => l.foldr (insertByKey pk) []) 255 (some 65535) 1000000 ResolverSt.fresh
    [{ columns := [[97], [98]], pk := [1], rows := [[[50], [49]], [[49], [50]], [[49], [50]]], resolution := .reingest },
     { columns := [[97], [98]], pk := [7], rows := [[[50], [49]], [[49], [50]]], resolution := .resetPK }] =
    .ok [{ columns := [[97], [98]], pk := [1], rowsCount := 2, blocks := [[[[50], [49]], [[49], [50]]]], tblIdx := [[[49]]] },
         { columns := [[97], [98]], pk := [], rowsCount := 2, blocks := [[[[49], [50]], [[50], [49]]]], tblIdx := [[[49], [50]]] }] := by decide

/-- non-vacuity: a concrete two-block-free table meets the hypotheses of `C03_diagnose_complete` -/
example : tableInv 255 { columns := [[97]], pk := [0], rowsCount := 1, blocks := [[[[49]]]], hashes := [[([1], [2])]], indices := [{ sortedOff := [0], rows := [([1], [2])] }], tblIdx := [[[49]]] } = [] := by decide

/-- the diagnosis is not vacuous either: a recorded row count that is off by one is reported -/
example : diagnose { columns := [[97]], pk := [0], rowsCount := 2, blocks := [[[[49]]]], hashes := [[([1], [2])]], indices := [{ sortedOff := [0], rows := [([1], [2])] }], tblIdx := [[[49]]] } = some "rows count does not match" := by decide

end Wrgl
