/-
C04 — Diff reports exactly the rows added, removed and modified between two tables.
Property theorems only. Model: Model/Diff.lean (pkg/diff/iterate.go, diff.go, BlockIndex.Get).
Spec: Spec/Diff.lean (`diffVerdict`, the predicate the driver also evaluates on the Go output),
hypotheses: Spec/DiffWF.lean (`ATable.WF` — what C03 guarantees of a stored table).
-/
import WrglModel.Model.Diff
import WrglModel.Spec.Diff
import WrglModel.Spec.DiffWF
import WrglModel.Lemmas.C04
import WrglModel.Lemmas.Bridge
import WrglModel.Gen.Facts
namespace Wrgl

/-- tie to the source: the window search returns the empty window for a table without blocks -/
theorem C04_fact_emptyGuard : Facts.diffEmptyGuard = true := by decide

/-- For any two structurally sound tables with the same key arity — any number of blocks, any key
    ranges, either side possibly empty — whose hashes identify keys and rows, the differ as
    implemented (window search over the table indices, cached block-index slices, bisection in each
    block index, two passes) does not panic or fail, and its events are exactly: one `added` per key
    only in the first table, one `removed` per key only in the second, one `modified` per key in
    both with different content, nothing else, no key twice, every offset addressing its row. -/
theorem C04_diff_exact (arity : Nat) (harity : 0 < arity) (t1 t2 : ATable)
    (h1 : t1.WF Facts.blockSize arity) (h2 : t2.WF Facts.blockSize arity)
    (hk : HashInj t1 t2) (hr : RowHashInj t1 t2) :
    ∃ evs, diffRows Facts.diffEmptyGuard Facts.blockSize t1.toD t2.toD = .ok evs ∧
      diffVerdict t1.allRows t2.allRows evs = [] := by
  rw [C04_fact_emptyGuard]
  exact diffRows_exact Facts.blockSize arity (by decide) harity t1 t2 h1 h2 hk hr

/-! ### the hypotheses of `C04_diff_exact` are what C03 proves of a stored table -/

/-- A stored table satisfying C03's invariant `tableInv` (with one recorded hash pair per row and
    all keys of one arity) is, to the differ, a well-formed abstract table: `ATable.WF` is a
    consequence of C03, not an assumption. -/
theorem C04_wf_from_C03 (arity : Nat) (t : FullTable) (hinv : tableInv Facts.blockSize t = [])
    (hh : t.hashes.map List.length = t.blocks.map List.length)
    (har : ∀ r ∈ t.blocks.flatten, (keyOf t.pk r).length = arity) :
    (Bridge.aTableOf Facts.blockSize t).WF Facts.blockSize arity :=
  Bridge.wf_of_tableInv Facts.blockSize arity (by decide) t hinv hh har

/-- … and what the differ reads of it (`ATable.toD`) is exactly what is stored: the block indices
    and the table index. -/
theorem C04_differ_reads_stored (t : FullTable) (hinv : tableInv Facts.blockSize t = [])
    (hh : t.hashes.map List.length = t.blocks.map List.length) :
    (Bridge.aTableOf Facts.blockSize t).toD = { blocks := t.indices, tblIdx := t.tblIdx } :=
  Bridge.toD_of_inv Facts.blockSize t hinv hh

/-- C03 ∘ C04: for any two stored tables that satisfy C03's invariant (as every table produced by
    ingest does, `C03_ingest_inv`, and every table received from such a repository, `C03_receive_inv`)
    and whose hashes identify keys and rows, the differ run on their stored block indices and table
    indices reports exactly the added, removed and modified rows. -/
theorem C04_diff_exact_of_stored (arity : Nat) (harity : 0 < arity) (t1 t2 : FullTable)
    (i1 : tableInv Facts.blockSize t1 = []) (i2 : tableInv Facts.blockSize t2 = [])
    (hh1 : t1.hashes.map List.length = t1.blocks.map List.length)
    (hh2 : t2.hashes.map List.length = t2.blocks.map List.length)
    (ha1 : ∀ r ∈ t1.blocks.flatten, (keyOf t1.pk r).length = arity)
    (ha2 : ∀ r ∈ t2.blocks.flatten, (keyOf t2.pk r).length = arity)
    (hk : HashInj (Bridge.aTableOf Facts.blockSize t1) (Bridge.aTableOf Facts.blockSize t2))
    (hr : RowHashInj (Bridge.aTableOf Facts.blockSize t1) (Bridge.aTableOf Facts.blockSize t2)) :
    ∃ evs, diffRows Facts.diffEmptyGuard Facts.blockSize
        { blocks := t1.indices, tblIdx := t1.tblIdx } { blocks := t2.indices, tblIdx := t2.tblIdx } = .ok evs ∧
      diffVerdict (Bridge.aTableOf Facts.blockSize t1).allRows (Bridge.aTableOf Facts.blockSize t2).allRows evs = [] := by
  rw [← C04_differ_reads_stored t1 i1 hh1, ← C04_differ_reads_stored t2 i2 hh2]
  exact C04_diff_exact arity harity _ _ (C04_wf_from_C03 arity t1 i1 hh1 ha1) (C04_wf_from_C03 arity t2 i2 hh2 ha2) hk hr

end Wrgl
