/-
C04 — Diff reports exactly the rows added, removed and modified between two tables.
Property theorems only. Model: Model/Diff.lean (pkg/diff/iterate.go, diff.go, BlockIndex.Get).
Spec: Spec/Diff.lean (`diffVerdict`, the predicate the driver also evaluates on the Go output),
hypotheses: Spec/DiffWF.lean (`ATable.WF` — what C03 guarantees of a stored table).
-/
import WrglModel.Model.Diff
import WrglModel.Spec.Diff
import WrglModel.Spec.DiffWF
import WrglModel.Lemmas.C04
import WrglModel.Gen.Facts
namespace Wrgl

/-- tie to the source: the window search returns the empty window for a table without blocks -/
theorem C04_fact_emptyGuard : Facts.diffEmptyGuard = true := by decide

/-- For any two structurally sound tables with the same key arity — any number of blocks, any key
    ranges, either side possibly empty — whose hashes identify keys and rows, the differ as
    implemented (window search over the table indices, cached block-index slices, bisection in each
    block index, two passes) does not panic or fail, and its events are exactly: one `added` per key
    only in the first table, one `removed` per key only in the second, one `modified` per key in
    both with different content, nothing else, no key twice, every offset addressing its row. -/
theorem C04_diff_exact (arity : Nat) (harity : 0 < arity) (t1 t2 : ATable)
    (h1 : t1.WF Facts.blockSize arity) (h2 : t2.WF Facts.blockSize arity)
    (hk : HashInj t1 t2) (hr : RowHashInj t1 t2) :
    ∃ evs, diffRows Facts.diffEmptyGuard Facts.blockSize t1.toD t2.toD = .ok evs ∧
      diffVerdict t1.allRows t2.allRows evs = [] := by
  rw [C04_fact_emptyGuard]
  exact diffRows_exact Facts.blockSize arity (by decide) harity t1 t2 h1 h2 hk hr

end Wrgl
