import WrglModel.Model.Diff
import WrglModel.Spec.Diff
import WrglModel.Gen.Facts
namespace Wrgl
theorem C04_placeholder : True := trivial
end Wrgl
