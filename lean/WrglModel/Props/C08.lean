import WrglModel.Model.Finder
import WrglModel.Spec.Finder
namespace Wrgl
theorem C08_placeholder : True := trivial
end Wrgl
