/-
C08 — Negotiation picks a closed, parent-first commit set covering every want.
Property theorems only. Model: Model/Finder.lean (pkg/api/utils/closed_sets_finder.go). The theorems
are about the walk from one want (`walkWant`, the core of `enqueueWants`) and, across wants, about
one whole call of `enqueueWants` (`C08_all_wants`: one negotiation round or the final
`CommitsToSend`); the round-to-round bookkeeping of `Process` (reachability of wants, discovery of
commons) is tied to the code by the correspondence runs and the same clauses (`finderVerdict`)
evaluated by Lean on the implementation's actual output.
-/
import WrglModel.Model.Finder
import WrglModel.Spec.Finder
import WrglModel.Lemmas.C08
import WrglModel.Lemmas.C08Multi
import WrglModel.Lemmas.C08Process
import WrglModel.Gen.Facts
namespace Wrgl

theorem C08_fact_revisit : Facts.finderRevisitsWithinDepth = true := by decide

/-- The walk lists exactly the unfolding tree below the want that avoids common tips (one entry per
    path), and selects tables exactly for the visits within the requested depth (all when depth = 0). -/
theorem C08_walk_lists_unfolding (g : Graph) (hwf : g.wf = true) (hac : Acyclic g)
    (commons : List Nat) (depth : Nat) (w : Nat) (hw : (g.get? w).isSome = true)
    (fuel : Nat) (cl tl sums : List Nat) (steps : Nat)
    (h : walkWant Facts.finderRevisitsWithinDepth g commons [] depth false fuel [(w, 0)] [] [] [] 0 = .ok (some (cl, tl, sums, steps))) :
    cl.Perm ((unfoldTree g (fun x => commons.contains x) (g.length + 1) w 0).map (·.1)) ∧
    tl.Perm (((unfoldTree g (fun x => commons.contains x) (g.length + 1) w 0).filter
              (fun nd => depth == 0 || decide (nd.2 < depth))).map (·.1)) :=
  walkWant_spec _ g hwf hac commons depth w hw fuel cl tl sums steps h

/-- Closed: every ancestor of the want is listed unless every path to it runs into a common tip
    (in which case it is an ancestor of that acknowledged common commit). -/
theorem C08_closed (g : Graph) (hwf : g.wf = true) (hac : Acyclic g) (stop : Nat → Bool) (w a : Nat)
    (hw : (g.get? w).isSome = true) (hr : Reach g a w) :
    (∃ d, (a, d) ∈ unfoldTree g stop (g.length + 1) w 0) ∨
    (∃ s, stop s = true ∧ Reach g a s ∧ Reach g s w) :=
  unfoldTree_closed g hwf hac stop w a hw hr

/-- Nothing unreachable from the want is sent. -/
theorem C08_only_reachable (g : Graph) (hwf : g.wf = true) (hac : Acyclic g) (stop : Nat → Bool) (w a : Nat)
    (hw : (g.get? w).isSome = true) :
    (∃ d, (a, d) ∈ unfoldTree g stop (g.length + 1) w 0) → Reach g a w :=
  unfoldTree_mem g hwf hac stop w a hw

/-- Parent-first: the first occurrence of a commit in the list is preceded by each of its parents,
    unless that parent is an acknowledged common tip. -/
theorem C08_parent_first (g : Graph) (hwf : g.wf = true) (hac : Acyclic g)
    (commons : List Nat) (depth : Nat) (w : Nat) (hw : (g.get? w).isSome = true)
    (fuel : Nat) (cl tl sums : List Nat) (steps : Nat)
    (h : walkWant Facts.finderRevisitsWithinDepth g commons [] depth false fuel [(w, 0)] [] [] [] 0 = .ok (some (cl, tl, sums, steps)))
    (a p : Nat) (i : Nat) (hi : firstIndex cl a = some i) (hp : p ∈ parentsOf g a) :
    commons.contains p = true ∨ p ∈ cl.take i :=
  walkWant_parent_first _ g hwf hac commons depth w hw fuel cl tl sums steps h a p i hi hp


/-- Across wants (one call of `enqueueWants` with any number of wants, in any order, duplicates and
    nested wants included; later wants skip what earlier ones listed): the lists added by the call,
    concatenated, are closed for every want not left pending, acceptable to the receiver at EVERY
    position, and contain only ancestors of wants. -/
theorem C08_all_wants (g : Graph) (hwf : g.wf = true) (hac : Acyclic g)
    (depth fuel : Nat) (stop : Bool) (ws : List Nat) (hws : ∀ w ∈ ws, (g.get? w).isSome = true)
    (f f' : Finder) (pending : List Nat)
    (h : enqueueWants Facts.finderRevisitsWithinDepth g depth stop fuel ws f [] [] = .ok (f', pending)) :
    ∃ newLists : List (List Nat), f'.commitLists = f.commitLists ++ newLists ∧ f'.commons = f.commons ∧
    (∀ w ∈ ws, w ∉ pending → ∀ a, Reach g a w → a ∈ newLists.flatten ∨ ∃ s ∈ f.commons, Reach g a s) ∧
    (∀ (i : Nat) (c : Nat), newLists.flatten[i]? = some c → ∀ p ∈ parentsOf g c,
        p ∈ f.commons ∨ p ∈ newLists.flatten.take i) ∧
    (∀ a ∈ newLists.flatten, ∃ w ∈ ws, Reach g a w) :=
  enqueueWants_spec _ g hwf hac depth fuel stop ws hws f f' pending h

/-- non-vacuity of `C08_all_wants`: two nested wants on a chain, the older one walked second -/
example :
    let g : Graph := [{ id := 1, time := 1, parents := [] }, { id := 2, time := 2, parents := [1] }, { id := 3, time := 3, parents := [2] }]
    (match enqueueWants true g 0 false 10 [3, 2] Finder.init [] [] with
     | .ok (f, p) => (f.commitLists, p)
     | _ => ([], [0])) = ([[1, 2, 3], []], []) := by decide

/-- `Process` accepts every want that is reachable from some ref and has its table — whatever the
    commit timestamps — … -/
theorem C08_accepts_reachable_wants (g : Graph) (hwf : g.wf = true) (full : Full)
    (tie : List (Nat × Int) → List (Nat × Int)) (htie : ∀ l, (tie l).Perm l ∧ (tie l).Pairwise (fun a b => a.2 ≥ b.2))
    (order : List Nat → List Nat) (depth walkFuel : Nat) (refs : List Nat) (f : Finder)
    (wants haves : List Nat) (done : Bool)
    (hrefs : ∀ r ∈ refs, (g.get? r).isSome = true)
    (hw : ∀ w ∈ wants, full w = true ∧ ∃ r ∈ refs, Reach g w r) :
    Finder.process Facts.finderRevisitsWithinDepth g full tie order depth walkFuel refs f wants haves done ≠ .err "unrecognized-wants" :=
  process_accepts_reachable _ g hwf full tie htie order depth walkFuel refs f wants haves done hrefs hw

/-- … and only those; and every acknowledged have is one of the haves and an ancestor-or-self of
    some ref (so "common" commits really are common). -/
theorem C08_process_sound (g : Graph) (hwf : g.wf = true) (full : Full)
    (tie : List (Nat × Int) → List (Nat × Int)) (htie : ∀ l, (tie l).Perm l ∧ (tie l).Pairwise (fun a b => a.2 ≥ b.2))
    (order : List Nat → List Nat) (depth walkFuel : Nat) (refs : List Nat) (f : Finder)
    (wants haves : List Nat) (done : Bool)
    (hrefs : ∀ r ∈ refs, (g.get? r).isSome = true)
    (acks : List Nat) (f' : Finder)
    (h : Finder.process Facts.finderRevisitsWithinDepth g full tie order depth walkFuel refs f wants haves done = .ok (acks, f')) :
    (∀ w ∈ wants, full w = true ∧ ∃ r ∈ refs, Reach g w r) ∧
    (∀ a ∈ acks, a ∈ haves ∧ ∃ r ∈ refs, Reach g a r) :=
  process_ok_sound _ g hwf full tie htie order depth walkFuel refs f wants haves done hrefs acks f' h

/-- The walk terminates on every (acyclic) history. -/
theorem C08_terminates (g : Graph) (hwf : g.wf = true) (hac : Acyclic g)
    (commons : List Nat) (depth : Nat) (w : Nat) (hw : (g.get? w).isSome = true) :
    ∃ fuel r, walkWant Facts.finderRevisitsWithinDepth g commons [] depth false fuel [(w, 0)] [] [] [] 0 = .ok (some r) :=
  walkWant_terminates _ g hwf hac commons depth w hw

/-- full-strength complexity clause: the list length is polynomial in the history size -/
def C08_steps_poly_full : Prop :=
  ∃ c : Nat, ∀ (g : Graph) (w : Nat), g.wf = true → Acyclic g →
    (unfoldTree g (fun _ => false) (g.length + 1) w 0).length ≤ c * (g.length + 1) ^ 2

/-- … which FAILS on this tree (known finding C08-exponential-walk): a chain of k diamonds
    (3k+1 commits) costs at least 2^k list entries. -/
theorem C08_steps_exponential (k : Nat) :
    2 ^ k ≤ (unfoldTree (diamondChain k) (fun _ => false) ((diamondChain k).length + 1) (3 * k + 1) 0).length :=
  unfoldTree_exponential k

end Wrgl
