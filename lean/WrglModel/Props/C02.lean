/-
C02 — A table's identity depends only on its logical content.
Property theorems only. Model: Model/TableId.lean (table object bytes, block and block-index sums,
`tableId = H (table bytes)`), Model/Sorter.lean (ingest). `H` (meow) is a parameter.
-/
import WrglModel.Model.TableId
import WrglModel.Lemmas.C01
import WrglModel.Gen.Facts
namespace Wrgl

/-- Same columns, same key, same set of rows (keys unique) ⇒ same identifier, regardless of the
    order of rows in the file, the run size / number of spill files and the sort used. No
    assumption on the hash is needed. -/
theorem C02_same_content_same_id (H : Bytes → Bytes) (sortPerm : List Bytes → List Nat) (mc : Nat)
    (s1 s2 : List Row → List Row) (pk : List Nat)
    (h1 : IsSort pk s1) (h2 : IsSort pk s2) (w : Nat) (rs1 rs2 : Nat)
    (columns : Row) (rows1 rows2 : List Row) (t1 t2 : StoredTable) (hw : RowsWF w pk rows1)
    (hperm : rows1.Perm rows2) (huniq : rows1.Pairwise (fun a b => keyOf pk a ≠ keyOf pk b))
    (e1 : ingestTable s1 Facts.blockSize Facts.addRowMaxCell rs1 columns pk rows1 = .ok t1)
    (e2 : ingestTable s2 Facts.blockSize Facts.addRowMaxCell rs2 columns pk rows2 = .ok t2) :
    tableId H sortPerm mc t1 = tableId H sortPerm mc t2 :=
  tableId_config_independent H sortPerm mc s1 s2 pk h1 h2 Facts.blockSize w _ _ rs1 rs2 columns rows1 rows2 t1 t2 hw hperm huniq e1 e2

/-- If the hash is injective on the strings hashed, equal identifiers mean equal column list
    (names and order), equal key and equal rows: a differing cell, column name, column order or key
    choice gives a different identifier. -/
theorem C02_injective (H : Bytes → Bytes) (hinj : ∀ a b, H a = H b → a = b)
    (sortPerm : List Bytes → List Nat) (t1 t2 : StoredTable) (id : Bytes)
    (hwf1 : (tableObjOf H sortPerm 65535 t1).WF) (hwf2 : (tableObjOf H sortPerm 65535 t2).WF)
    (hr1 : ∀ b ∈ t1.blocks, b.length < 2 ^ 32 ∧ ∀ r ∈ b, r.length < 2 ^ 32 ∧ ∀ c ∈ r, c.length ≤ 65535)
    (hr2 : ∀ b ∈ t2.blocks, b.length < 2 ^ 32 ∧ ∀ r ∈ b, r.length < 2 ^ 32 ∧ ∀ c ∈ r, c.length ≤ 65535)
    (e1 : tableId H sortPerm 65535 t1 = .ok id) (e2 : tableId H sortPerm 65535 t2 = .ok id) :
    t1.columns = t2.columns ∧ t1.pk = t2.pk ∧ t1.blocks = t2.blocks :=
  tableId_injective H hinj sortPerm 65535 (by decide) t1 t2 id hwf1 hwf2 hr1 hr2 e1 e2

/-- A different key choice is a different table, whatever the columns are called: two stored tables
    whose keys (lists of column positions) differ cannot get one identifier - also when both keys read
    the same once their column names are joined into one string (the column `last,first` against the
    columns `last`, `first`). So a commit whose key choice changed is never "no change". -/
theorem C02_key_change_changes_id (H : Bytes → Bytes) (hinj : ∀ a b, H a = H b → a = b)
    (sortPerm : List Bytes → List Nat) (t1 t2 : StoredTable) (id1 id2 : Bytes)
    (hwf1 : (tableObjOf H sortPerm 65535 t1).WF) (hwf2 : (tableObjOf H sortPerm 65535 t2).WF)
    (hr1 : ∀ b ∈ t1.blocks, b.length < 2 ^ 32 ∧ ∀ r ∈ b, r.length < 2 ^ 32 ∧ ∀ c ∈ r, c.length ≤ 65535)
    (hr2 : ∀ b ∈ t2.blocks, b.length < 2 ^ 32 ∧ ∀ r ∈ b, r.length < 2 ^ 32 ∧ ∀ c ∈ r, c.length ≤ 65535)
    (e1 : tableId H sortPerm 65535 t1 = .ok id1) (e2 : tableId H sortPerm 65535 t2 = .ok id2)
    (hpk : t1.pk ≠ t2.pk) : id1 ≠ id2 := by
  intro h
  subst h
  exact hpk (C02_injective H hinj sortPerm t1 t2 id1 hwf1 hwf2 hr1 hr2 e1 e2).2.1

/-- Why a key has to be compared as a list of names: writing the names out with a separator is not
    injective - the one-column key `x,y` and the two-column key `x`, `y` are written alike. A test
    "is this the key the cached table was made with" that compares the written form answers yes for
    a different key, against `C02_key_change_changes_id`. -/
theorem C02_joined_key_names_ambiguous :
    ∃ a b : List String, a ≠ b ∧ String.intercalate "," a = String.intercalate "," b :=
  ⟨["x,y"], ["x", "y"], by decide, by decide⟩

/-- Re-committing unchanged data is detected: the commit command compares table identifiers, which
    by the two theorems above are equal exactly when the logical tables are. (The comparison itself,
    `bytes.Equal(sum, oldSum)` in commitIfBranchFileHasChanged, is observed by the runs.) -/
theorem C02_no_change_detected (id1 id2 : Bytes) : (id1 == id2) = true ↔ id1 = id2 := by
  simp

end Wrgl
