import WrglModel.Model.Sync
namespace Wrgl
theorem C09_placeholder : True := trivial
end Wrgl
