/-
C09 — Fetch and push leave the receiving side closed and identical, and are idempotent.
Property theorems only. The theorems compose the C08 finder model (Model/Finder.lean: which commits
the sender lists) with the C07 transfer model (Model/Transfer.lean: sender object order, packfile
cut, receiver acceptance): the ref update of a fetch/push happens only after `receiveAll` succeeded
(that order is checked on the implementation by the C13 crash runs), so closure of the updated ref
is closure of the receiver's object set after the transfer.
PARTIAL: negotiation rounds are abstracted to "the acknowledged commons are
commits the receiver holds"; HTTP framing, gzip, sessions and the reference server are exercised by
the correspondence runs (Driver/C09.lean evaluates the same closure clauses on both repositories'
observed state), not modelled.
-/
import WrglModel.Model.Sync
import WrglModel.Lemmas.C09
import WrglModel.Lemmas.C09E2E
import WrglModel.Lemmas.C09Tables
import WrglModel.Lemmas.C09Cut
import WrglModel.Gen.Facts
namespace Wrgl

/-- Closure of the selection: the receiver holds a history closed under parents and every
    acknowledged common commit; then every ancestor of the want is already held or is listed. -/
theorem C09_selection_closed (g : Graph) (hwf : g.wf = true) (hac : Acyclic g) (L commons : List Nat)
    (hL : AncClosed g L) (hc : ∀ s ∈ commons, s ∈ L) (w : Nat) (hw : (g.get? w).isSome = true)
    (a : Nat) (hr : Reach g a w) :
    a ∈ L ∨ ∃ d, (a, d) ∈ unfoldTree g (fun x => commons.contains x) (g.length + 1) w 0 :=
  fetch_closed g hwf hac L commons hL hc w hw a hr

/-- The list is acceptable to the receiver at EVERY position (repeats included): the parents of
    the commit at position i are held by the receiver or occur before position i. -/
theorem C09_list_acceptable (g : Graph) (hwf : g.wf = true) (hac : Acyclic g)
    (L commons : List Nat) (hL : AncClosed g L) (hc : ∀ s ∈ commons, s ∈ L)
    (depth : Nat) (w : Nat) (hw : (g.get? w).isSome = true)
    (fuel : Nat) (cl tl sums : List Nat) (steps : Nat)
    (h : walkWant Facts.finderRevisitsWithinDepth g commons [] depth false fuel [(w, 0)] [] [] [] 0 = .ok (some (cl, tl, sums, steps)))
    (i : Nat) (c : Nat) (hi : cl[i]? = some c) (p : Nat) (hp : p ∈ parentsOf g c) :
    p ∈ L ∨ p ∈ cl.take i :=
  walk_list_parent_first_everywhere _ g hwf hac L commons hL hc depth w hw fuel cl tl sums steps h i c hi p hp

/-- End to end for one updated ref: finder walk → sender object stream → receiver. Every object is
    accepted, afterwards the receiver holds EVERY ancestor of the want, and nothing it held is lost.
    Holds for any table selection `tts`, any depth, any set of acknowledged commons (i.e. however
    many negotiation rounds produced them). -/
theorem C09_transfer_closed (s : SrcRepo) (d : DstRepo) (hwf : s.commits.wf = true) (hac : Acyclic s.commits)
    (commons tts : List Nat) (depth : Nat) (w : Nat) (hw : (s.commits.get? w).isSome = true)
    (hheld : ∀ c, (d.commits.get? c).isSome = true → ∀ p ∈ parentsOf s.commits c, (d.commits.get? p).isSome = true)
    (hcom : ∀ c ∈ commons, (s.commits.get? c).isSome = true ∧ (d.commits.get? c).isSome = true)
    (hblk : ∀ c ∈ commons, ∀ cm, s.commits.get? c = some cm → ∀ ti, s.table? cm.table = some ti → ∀ b ∈ ti.blocks, b ∈ d.blocks)
    (fuel : Nat) (cl tl sums : List Nat) (steps : Nat)
    (hwalk : walkWant Facts.finderRevisitsWithinDepth s.commits commons [] depth false fuel [(w, 0)] [] [] [] 0 = .ok (some (cl, tl, sums, steps)))
    (st : SenderSt) (objs : List ObjKey)
    (hi : senderInit s commons = .ok st) (ho : senderObjs s tts st cl = .ok objs) :
    ∃ d', receiveAll s d objs = .ok d' ∧
      (∀ a, Reach s.commits a w → (d'.commits.get? a).isSome = true) ∧
      (∀ k, d.has k = true → d'.has k = true) :=
  fetch_end_to_end s d hwf hac commons tts depth w hw hheld hcom hblk _ fuel cl tl sums steps hwalk st objs hi ho

/-- Tables: with the tables the finder selects (those of the commits visited within the requested
    depth, all when depth = 0), after the transfer the receiver holds the table of EVERY commit of
    the want's history that lies within the depth — given that the source has those table objects
    and that the receiver holds the tables of the acknowledged common commits (a shallow receiver
    must not have a shallow commit acknowledged as common: that is exactly the clause the seeded
    change C09-m1 breaks). -/
theorem C09_tables_within_depth (s : SrcRepo) (d : DstRepo) (hwf : s.commits.wf = true) (hac : Acyclic s.commits)
    (commons : List Nat) (depth : Nat) (w : Nat) (hw : (s.commits.get? w).isSome = true)
    (hheld : ∀ c, (d.commits.get? c).isSome = true → ∀ p ∈ parentsOf s.commits c, (d.commits.get? p).isSome = true)
    (hcom : ∀ c ∈ commons, (s.commits.get? c).isSome = true ∧ (d.commits.get? c).isSome = true)
    (hblk : ∀ c ∈ commons, ∀ cm, s.commits.get? c = some cm → ∀ ti, s.table? cm.table = some ti → ∀ b ∈ ti.blocks, b ∈ d.blocks)
    (hctbl : ∀ c ∈ commons, ∀ cm, s.commits.get? c = some cm → d.has (.tbl cm.table) = true)
    (fuel : Nat) (cl tl sums : List Nat) (steps : Nat)
    (hwalk : walkWant Facts.finderRevisitsWithinDepth s.commits commons [] depth false fuel [(w, 0)] [] [] [] 0 = .ok (some (cl, tl, sums, steps)))
    (st : SenderSt) (objs : List ObjKey)
    (hi : senderInit s commons = .ok st) (ho : senderObjs s (tablesOf s.commits tl) st cl = .ok objs)
    (d' : DstRepo) (hrecv : receiveAll s d objs = .ok d')
    (c dist : Nat) (hc : (c, dist) ∈ unfoldTree s.commits (fun x => commons.contains x) (s.commits.length + 1) w 0)
    (hd : depth = 0 ∨ dist < depth)
    (cm : Commit) (hcm : s.commits.get? c = some cm) (hsrc : (s.table? cm.table).isSome = true) :
    d'.has (.tbl cm.table) = true :=
  fetch_tables_within_depth s d hwf hac commons depth w hw hheld hcom hblk hctbl _ fuel cl tl sums steps hwalk st objs hi ho d' hrecv c dist hc hd cm hcm hsrc

/-- Several wants in one exchange (what `CommitsToSend` returns for one call of `enqueueWants`):
    every object is accepted and afterwards the receiver holds every ancestor of every want that
    was not left pending; nothing it held is lost. -/
theorem C09_transfer_closed_multi (s : SrcRepo) (d : DstRepo) (hwf : s.commits.wf = true) (hac : Acyclic s.commits)
    (tts : List Nat) (depth fuel : Nat) (ws : List Nat) (hws : ∀ w ∈ ws, (s.commits.get? w).isSome = true)
    (f f' : Finder) (pending : List Nat) (hf0 : f.commitLists = [])
    (hheld : ∀ c, (d.commits.get? c).isSome = true → ∀ p ∈ parentsOf s.commits c, (d.commits.get? p).isSome = true)
    (hcom : ∀ c ∈ f.commons, (s.commits.get? c).isSome = true ∧ (d.commits.get? c).isSome = true)
    (hblk : ∀ c ∈ f.commons, ∀ cm, s.commits.get? c = some cm → ∀ ti, s.table? cm.table = some ti → ∀ b ∈ ti.blocks, b ∈ d.blocks)
    (henq : enqueueWants Facts.finderRevisitsWithinDepth s.commits depth false fuel ws f [] [] = .ok (f', pending))
    (st : SenderSt) (objs : List ObjKey)
    (hi : senderInit s f.commons = .ok st) (ho : senderObjs s tts st f'.commitLists.flatten = .ok objs) :
    ∃ d', receiveAll s d objs = .ok d' ∧
      (∀ w ∈ ws, w ∉ pending → ∀ a, Reach s.commits a w → (d'.commits.get? a).isSome = true) ∧
      (∀ k, d.has k = true → d'.has k = true) :=
  fetch_end_to_end_multi s d hwf hac tts depth fuel ws hws f f' pending hf0 hheld hcom hblk _ henq st objs hi ho

/-- Interrupted transfers (a stream reset, a short body, a killed process): the receiver took the
    objects before a cut at ANY object boundary of the sender's stream - whatever the packfile sizes,
    however many wants the stream serves - and nothing after it. Every commit it holds now and did not
    hold before has its table (when that table is selected and the source has it), given that it
    holds the tables the sender counts as present from the start. This is what makes the retry sound:
    a new session asks only for advertised commits that are not stored yet, so a commit stored by the
    interrupted attempt is never asked for again, and neither is its table. -/
theorem C09_interrupted_commit_has_table (s : SrcRepo) (d : DstRepo) (tts : List Nat) (st : SenderSt) (cs : List Nat)
    (objs : List ObjKey) (ho : senderObjs s tts st cs = .ok objs)
    (hct : ∀ t ∈ st.commonTables, d.has (.tbl t) = true)
    (a b : List ObjKey) (hs : objs = a ++ b) (d' : DstRepo) (hrecv : receiveAll s d a = .ok d')
    (c : Nat) (hnew : d'.has (.com c) = true) (hold : d.has (.com c) = false)
    (cm : Commit) (hcm : s.commits.get? c = some cm) (htts : tts.contains cm.table = true)
    (hsrc : (s.table? cm.table).isSome = true) :
    d'.has (.tbl cm.table) = true :=
  interrupted_commit_has_table s d tts st cs objs ho hct a b hs d' hrecv c hnew hold cm hcm htts hsrc

/-- ... and it rests on the receiver storing each table when it is read: a receiver that sets the
    tables of a packfile aside until the packfile's end (`deferredPrefix`) is left, by a cut after
    the first of two independent tips, with that tip's commit and without its table. -/
theorem C09_deferred_tables_unsafe :
    ∃ (s : SrcRepo) (objs a b : List ObjKey) (d' : DstRepo),
      senderObjs s [10, 20] { commonTables := [], commonBlocks := [] } [1, 2] = .ok objs ∧ objs = a ++ b ∧
      receiveAll s { blocks := [], tables := [], commits := [] } (deferredPrefix a) = .ok d' ∧
      d'.has (.com 1) = true ∧ d'.has (.tbl 10) = false :=
  ⟨{ commits := [{ id := 1, time := 1, parents := [], table := 10 }, { id := 2, time := 1, parents := [], table := 20 }],
     tables := [{ id := 10, blocks := [100] }, { id := 20, blocks := [200] }] },
   [.blk 100, .tbl 10, .com 1, .blk 200, .tbl 20, .com 2], [.blk 100, .tbl 10, .com 1, .blk 200], [.tbl 20, .com 2],
   { blocks := [200, 100], tables := [], commits := [{ id := 1, time := 1, parents := [], table := 10 }] },
   by decide, by decide, rfl, by decide, by decide⟩

/-- … and this is independent of how the object stream is cut into packfiles: for every size
    limit the concatenation of the packfiles is the stream. -/
theorem C09_any_packfile_size (maxSize : Nat) (size : ObjKey → Nat) (objs : List ObjKey) :
    (packfiles maxSize size (objs.length + 1) objs).flatten = objs :=
  packfiles_flatten maxSize size objs

/-- Idempotence of the selection: when the want itself is an acknowledged common commit (the
    receiver already holds it — the state right after a successful fetch/push), nothing is listed. -/
theorem C09_repeat_lists_nothing (g : Graph) (commons : List Nat) (depth : Nat) (w : Nat)
    (hw : commons.contains w = true) (fuel : Nat) (cl tl sums : List Nat) (steps : Nat)
    (h : walkWant Facts.finderRevisitsWithinDepth g commons [] depth false fuel [(w, 0)] [] [] [] 0 = .ok (some (cl, tl, sums, steps))) :
    cl = [] ∧ tl = [] := by
  have hm : w ∈ commons := List.contains_iff_mem.1 hw
  match fuel with
  | 0 => simp [walkWant] at h
  | 1 => simp [walkWant, hm] at h
  | f + 2 =>
    simp [walkWant, hm] at h
    exact ⟨h.1, h.2.1⟩

/-- non-vacuity: a two-commit history, receiver holds the root, want = the tip -/
example :
    let g : Graph := [{ id := 1, time := 1, parents := [] }, { id := 2, time := 2, parents := [1] }]
    walkWant true g [1] [] 0 false 10 [(2, 0)] [] [] [] 0 = .ok (some ([2], [2], [1, 2], 2)) := by decide

/-- a fetch that retries after a stream error first drops the cookie of the interrupted upload-pack session (otherwise the remote resumes after the packfile that was cut short) -/
theorem C09_fact_fetchRetryResetsCookies : Facts.fetchRetryResetsCookies = true := by decide

end Wrgl
