import WrglModel.Model.RefStore
import WrglModel.Spec.RefStore
namespace Wrgl
theorem C15_placeholder : True := trivial
end Wrgl
