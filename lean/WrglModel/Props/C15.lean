/-
C15 — The ref store behaves as a map from exact names to commits with faithful logs.
Property theorems only. Model: Model/RefStore.lean (every SQL statement of pkg/ref/sql/store.go as a
list operation, the helper layer of pkg/ref/refs.go on top). Spec: Spec/RefStore.lean (`ASt`, a plain
map with per-name append-only logs; `stepA`).
-/
import WrglModel.Model.RefStore
import WrglModel.Spec.RefStore
import WrglModel.Lemmas.C15
import WrglModel.Lemmas.C15Fs
import WrglModel.Gen.Facts
namespace Wrgl

/-- tie to the source: `filterQuery` compares the literal prefix (no LIKE/GLOB pattern) -/
theorem C15_fact_literalPrefix : Facts.refFilterIsLiteralPrefix = true := by decide

/-- Refinement: every sequence of set, logged set, get, delete, filter, filter-keys, rename, copy,
    log read, list-by-prefix, bulk delete and bulk rename on the SQL model returns, step by step,
    exactly what a plain name-to-value map with per-name append-only logs returns. In particular
    prefix operations touch exactly the names that literally start with the prefix, operations on
    one name never affect another, each log entry's old value is the value held just before, logs
    read newest-first, rename and copy carry the log. -/
theorem C15_refines (ops : List ROp) :
    runC Facts.refFilterIsLiteralPrefix { refs := [], logs := [] } ops = runA { vals := [], logs := [] } ops := by
  rw [C15_fact_literalPrefix]
  exact refstore_refines ops

/-- With `LIKE` patterns (the code before the repair) the store is not such a map: `_` matches any
    character. Kept as the witness that the fact above carries the property. -/
theorem C15_like_is_not_prefix :
    runC false { refs := [], logs := [] }
      [.set "remotes/myXrepo/x" [1], .filterKey ["remotes/my_repo/"] []] ≠
    runA { vals := [], logs := [] }
      [.set "remotes/myXrepo/x" [1], .filterKey ["remotes/my_repo/"] []] :=
  like_is_not_prefix

/-- removing a remote filters on `remotes/<r>/`, a prefix that ends at a path boundary -/
theorem C15_fact_remotePrefixBoundary : Facts.remoteRefsPrefixEndsWithSlash = true := by decide

/-! ### The file-based store (`pkg/ref/fs`) is judged by the same map

`stepAF` (Spec/RefStore.lean) is the oracle of the correspondence runs on the file store. The
theorems below pin down that it is the abstract map `stepA` except in three documented places,
and that in those places it still is a map operation (the destination is replaced by the source's
value and log; nothing else changes hands). -/

/-- the operations whose file-store form is the map's own -/
def ROp.fsSame : ROp → Bool
  | .del _ | .rename _ _ | .copy _ _ | .renameAllRemote _ _ => false
  | _ => true

theorem C15_fs_same_elsewhere (a : ASt) (op : ROp) (h : op.fsSame = true) : stepAF a op = stepA a op := by
  cases op <;> simp_all [ROp.fsSame, stepAF]

/-- deleting a bound name, renaming or copying onto an unbound name: the map's own step -/
theorem C15_fs_conservative (a : ASt) :
    (∀ k, (a.val k).isSome = true → stepAF a (.del k) = stepA a (.del k)) ∧
    (∀ k, a.val k = none → stepAF a (.del k) = (a, .err)) ∧
    (∀ o n, a.val n = none → stepAF a (.rename o n) = stepA a (.rename o n)) ∧
    (∀ s d, a.val d = none → stepAF a (.copy s d) = stepA a (.copy s d)) := by
  refine ⟨?_, ?_, ?_, ?_⟩
  · intro k h; simp [stepAF, h]
  · intro k h; simp [stepAF, h]
  · intro o n h; simp [stepAF, h]
  · intro s d h; simp [stepAF, h]

/-- rename onto a bound destination replaces it: the destination ends with the source's value and
    log, the source is gone with its log -/
theorem C15_fs_rename_replaces (a : ASt) (o n : Name) (v : Bytes) (ho : a.val o = some v)
    (hn : (a.val n).isSome = true) (hne : o ≠ n) :
    (stepAF a (.rename o n)).2 = .ok ∧ (stepAF a (.rename o n)).1.val n = some v ∧
    (stepAF a (.rename o n)).1.log n = a.log o ∧
    (stepAF a (.rename o n)).1.val o = none ∧ (stepAF a (.rename o n)).1.log o = [] :=
  fs_rename_replaces a o n v ho hn hne

/-- copy onto a bound destination replaces it: the destination ends with the source's value and
    log, the source keeps both -/
theorem C15_fs_copy_replaces (a : ASt) (s d : Name) (v : Bytes) (hs : a.val s = some v)
    (hd : (a.val d).isSome = true) (hne : s ≠ d) :
    (stepAF a (.copy s d)).2 = .ok ∧ (stepAF a (.copy s d)).1.val d = some v ∧
    (stepAF a (.copy s d)).1.log d = a.log s ∧
    (stepAF a (.copy s d)).1.val s = some v ∧ (stepAF a (.copy s d)).1.log s = a.log s :=
  fs_copy_replaces a s d v hs hd hne

end Wrgl
