/-
C15 — The ref store behaves as a map from exact names to commits with faithful logs.
Property theorems only. Model: Model/RefStore.lean (every SQL statement of pkg/ref/sql/store.go as a
list operation, the helper layer of pkg/ref/refs.go on top). Spec: Spec/RefStore.lean (`ASt`, a plain
map with per-name append-only logs; `stepA`).
-/
import WrglModel.Model.RefStore
import WrglModel.Spec.RefStore
import WrglModel.Lemmas.C15
import WrglModel.Gen.Facts
namespace Wrgl

/-- tie to the source: `filterQuery` compares the literal prefix (no LIKE/GLOB pattern) -/
theorem C15_fact_literalPrefix : Facts.refFilterIsLiteralPrefix = true := by decide

/-- Refinement: every sequence of set, logged set, get, delete, filter, filter-keys, rename, copy,
    log read, list-by-prefix, bulk delete and bulk rename on the SQL model returns, step by step,
    exactly what a plain name-to-value map with per-name append-only logs returns. In particular
    prefix operations touch exactly the names that literally start with the prefix, operations on
    one name never affect another, each log entry's old value is the value held just before, logs
    read newest-first, rename and copy carry the log. -/
theorem C15_refines (ops : List ROp) :
    runC Facts.refFilterIsLiteralPrefix { refs := [], logs := [] } ops = runA { vals := [], logs := [] } ops := by
  rw [C15_fact_literalPrefix]
  exact refstore_refines ops

/-- With `LIKE` patterns (the code before the repair) the store is not such a map: `_` matches any
    character. Kept as the witness that the fact above carries the property. -/
theorem C15_like_is_not_prefix :
    runC false { refs := [], logs := [] }
      [.set "remotes/myXrepo/x" [1], .filterKey ["remotes/my_repo/"] []] ≠
    runA { vals := [], logs := [] }
      [.set "remotes/myXrepo/x" [1], .filterKey ["remotes/my_repo/"] []] :=
  like_is_not_prefix

/-- removing a remote filters on `remotes/<r>/`, a prefix that ends at a path boundary -/
theorem C15_fact_remotePrefixBoundary : Facts.remoteRefsPrefixEndsWithSlash = true := by decide

end Wrgl
