/-
C20 — The on-disk hash set answers membership exactly like a set.
Property theorems only. Model: Model/HashSet.lean (pkg/index). Spec: Spec/HashSet.lean (`hsInv`).
-/
import WrglModel.Model.HashSet
import WrglModel.Spec.HashSet
import WrglModel.Lemmas.C20
namespace Wrgl

/-- After any sequence of additions (repeats, any order), flushes (any pattern, any batch size)
    and flush+close+reopen steps, followed by a flush: no operation failed or panicked, the stored
    entries are sorted and the fan-out table is consistent with them, `Has` answers `true` exactly
    for the hashes that were added, and a handle reopened from the file gives the same answers. -/
theorem C20_membership (bs : Nat) (ops : List HSOp) :
    ∃ s, runOps (HS.open_ { fanout := [], entries := [] } bs) (ops ++ [.flush]) = .ok s ∧
      hsInv s.file = true ∧
      (∀ h, s.has h = .ok (decide (h ∈ addedOf ops))) ∧
      (∀ h, (HS.open_ s.file bs).has h = s.has h) :=
  hashset_is_a_set bs ops

/-- One flush: sortedness and fan-out consistency are kept and exactly the batch is added. -/
theorem C20_flush_inv (s : HS) (hc : s.Coherent) :
    ∃ s', s.flush = .ok s' ∧ s'.Coherent ∧ s'.batch = [] ∧
      (∀ h, h ∈ s'.file.entries ↔ h ∈ s.file.entries ∨ h ∈ s.batch) :=
  flush_spec s hc

/-- `Has` on a coherent handle: no false negative, no false positive. -/
theorem C20_has_exact (s : HS) (hc : s.Coherent) (h : Hash) :
    s.has h = .ok (decide (h ∈ s.file.entries)) :=
  has_spec s hc h

/-- non-vacuity: a repeat within a batch, an insert between existing entries, first bytes 0x00/0xff -/
example :
    (runOps (HS.open_ { fanout := [], entries := [] } 2)
      [.add [0xff, 1], .add [0x00, 2], .add [0x7f], .add [0x7f], .flush]).isOk = true := by decide

end Wrgl
