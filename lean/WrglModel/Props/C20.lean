import WrglModel.Model.HashSet
import WrglModel.Spec.HashSet
namespace Wrgl
theorem C20_placeholder : True := trivial
end Wrgl
