/-
C12 — Pruning removes only unreachable objects and leaves every ref fully usable.
Property theorems only. Model: Model/Prune.lean (pkg/prune/prune.go over CommitsQueue).
Spec: `pruneVerdict` (the decidable predicate the driver also evaluates on the real before/after
key sets) and `reachableCommits` (mark-and-sweep from all refs).
-/
import WrglModel.Model.Prune
import WrglModel.Lemmas.C12
import WrglModel.Gen.Facts
namespace Wrgl

/-- tie to the source: every `sort.Search` result in pruneTables is compared with the key -/
theorem C12_fact_searchChecked : Facts.pruneSearchChecked = true := by decide

/-- Prune completes without crashing on ANY repository state — shallow commits whose tables were
    never fetched, tables with missing blocks, refs to missing commits included. -/
theorem C12_no_panic (r : PRepo) (refs : List Nat) (p : String) : prune Facts.pruneSearchChecked r refs ≠ .panic p := by
  rw [C12_fact_searchChecked]; exact prune_never_panics r refs p

theorem C12_completes (r : PRepo) (hok : r.OK) (refs : List Nat) : ∃ r', prune Facts.pruneSearchChecked r refs = .ok r' := by
  rw [C12_fact_searchChecked]; exact prune_completes r hok refs

/-- The marked commits are exactly those reachable from a ref (of any kind) through parent links. -/
theorem C12_mark_exact (r : PRepo) (hok : r.OK) (refs : List Nat) (found : List Nat)
    (h : markLoop r.commits (r.commits.length + 2) (insertRefs r.commits { items := [], seen := [] } refs) [] = .ok found) :
    ∀ a, a ∈ found ↔ ∃ b ∈ refs, (r.commits.get? b).isSome = true ∧ Reach r.commits a b :=
  mark_spec r hok refs found h

/-- Every reachable commit is kept together with its table, table index, profile, blocks and block
    indices wherever those existed before; every unreachable commit is gone, as are tables
    referenced only by removed commits and blocks referenced only by removed tables; nothing is
    created. -/
theorem C12_reachable_kept_unreachable_gone (r : PRepo) (hok : r.OK) (refs : List Nat) (r' : PRepo)
    (h : prune Facts.pruneSearchChecked r refs = .ok r') : pruneVerdict r r' refs = [] := by
  rw [C12_fact_searchChecked] at h; exact prune_meets_spec r hok refs r' h

/-- Repeated prune changes nothing. -/
theorem C12_idempotent (r : PRepo) (hok : r.OK) (refs : List Nat) (r' : PRepo)
    (h : prune Facts.pruneSearchChecked r refs = .ok r') : prune Facts.pruneSearchChecked r' refs = .ok r' := by
  rw [C12_fact_searchChecked] at h ⊢; exact prune_idempotent r hok refs r' h

/-- the mark phase starts from every ref (the `roots` of the theorems below are all refs) -/
theorem C12_fact_rootsAllRefs : Facts.pruneRootsAreAllRefs = true := by decide

end Wrgl
