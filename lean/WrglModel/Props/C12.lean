import WrglModel.Model.Prune
namespace Wrgl
theorem C12_placeholder : True := trivial
end Wrgl
