/-
C12 — Pruning removes only unreachable objects and leaves every ref fully usable.
Property theorems only. Model: Model/Prune.lean (pkg/prune/prune.go over CommitsQueue).
Spec: `pruneVerdict` (the decidable predicate the driver also evaluates on the real before/after
key sets) and `reachableCommits` (mark-and-sweep from all refs).
-/
import WrglModel.Model.Prune
import WrglModel.Lemmas.C12
import WrglModel.Gen.Facts
namespace Wrgl

/-- tie to the source: every `sort.Search` result in pruneTables is compared with the key -/
theorem C12_fact_searchChecked : Facts.pruneSearchChecked = true := by decide

/-- Prune completes without crashing on ANY repository state — shallow commits whose tables were
    never fetched, tables with missing blocks, refs to missing commits included. -/
theorem C12_no_panic (r : PRepo) (refs : List Nat) (p : String) : prune Facts.pruneSearchChecked r refs ≠ .panic p := by
  rw [C12_fact_searchChecked]; exact prune_never_panics r refs p

theorem C12_completes (r : PRepo) (hok : r.OK) (refs : List Nat) : ∃ r', prune Facts.pruneSearchChecked r refs = .ok r' := by
  rw [C12_fact_searchChecked]; exact prune_completes r hok refs

/-- The marked commits are exactly those reachable from a ref (of any kind) through parent links. -/
theorem C12_mark_exact (r : PRepo) (hok : r.OK) (refs : List Nat) (found : List Nat)
    (h : markLoop r.commits (r.commits.length + 2) (insertRefs r.commits { items := [], seen := [] } refs) [] = .ok found) :
    ∀ a, a ∈ found ↔ ∃ b ∈ refs, (r.commits.get? b).isSome = true ∧ Reach r.commits a b :=
  mark_spec r hok refs found h

/-- Every reachable commit is kept together with its table, table index, profile, blocks and block
    indices wherever those existed before; every unreachable commit is gone, as are tables
    referenced only by removed commits and blocks referenced only by removed tables; nothing is
    created. -/
theorem C12_reachable_kept_unreachable_gone (r : PRepo) (hok : r.OK) (refs : List Nat) (r' : PRepo)
    (h : prune Facts.pruneSearchChecked r refs = .ok r') : pruneVerdict r r' refs = [] := by
  rw [C12_fact_searchChecked] at h; exact prune_meets_spec r hok refs r' h

/-- Repeated prune changes nothing. -/
theorem C12_idempotent (r : PRepo) (hok : r.OK) (refs : List Nat) (r' : PRepo)
    (h : prune Facts.pruneSearchChecked r refs = .ok r') : prune Facts.pruneSearchChecked r' refs = .ok r' := by
  rw [C12_fact_searchChecked] at h ⊢; exact prune_idempotent r hok refs r' h

/-- A ref whose commit is not stored (a remote-tracking ref or tag saved for a commit whose objects
    never arrived) roots nothing and stops nothing: prune does exactly what it does on the same
    repository without that ref. With `C12_completes`: it completes on a closed history. -/
theorem C12_dangling_refs_root_nothing (r : PRepo) (refs : List Nat) :
    prune Facts.pruneSearchChecked r refs =
      prune Facts.pruneSearchChecked r (refs.filter (fun x => (r.commits.get? x).isSome)) :=
  prune_ignores_dangling_refs _ r refs

/-- The table of every reachable commit survives WHOLE: the table object, each of its blocks and
    each of its OWN block indices that was stored — whatever else lists the same blocks. -/
theorem C12_live_table_kept_whole (r : PRepo) (hok : r.OK) (refs : List Nat) (r' : PRepo)
    (h : prune Facts.pruneSearchChecked r refs = .ok r')
    (t : PTable) (ht : t ∈ r.tables) (c : Commit) (hc : c ∈ r.commits)
    (hreach : (reachableCommits r refs).contains c.id = true) (hct : c.table = t.id) :
    t ∈ r'.tables ∧ (∀ b ∈ t.blocks, b ∈ r.blocks → b ∈ r'.blocks) ∧ (∀ i ∈ t.idxs, i ∈ r.idxs → i ∈ r'.idxs) := by
  rw [C12_fact_searchChecked] at h; exact live_table_kept_whole r hok refs r' h t ht c hc hreach hct

/-- Two live tables over the same blocks with different block indices (the same rows committed under
    two primary keys: a block index is a function of the rows AND the key): the block indices of
    both survive. "Same block, hence same block index" is not a property of the store. -/
theorem C12_same_blocks_other_indices_both_kept (r : PRepo) (hok : r.OK) (refs : List Nat) (r' : PRepo)
    (h : prune Facts.pruneSearchChecked r refs = .ok r')
    (t₁ t₂ : PTable) (h₁ : t₁ ∈ r.tables) (h₂ : t₂ ∈ r.tables) (_hsame : t₁.blocks = t₂.blocks)
    (c₁ c₂ : Commit) (hc₁ : c₁ ∈ r.commits) (hc₂ : c₂ ∈ r.commits)
    (hr₁ : (reachableCommits r refs).contains c₁.id = true) (hr₂ : (reachableCommits r refs).contains c₂.id = true)
    (ht₁ : c₁.table = t₁.id) (ht₂ : c₂.table = t₂.id) :
    ∀ i ∈ t₁.idxs ++ t₂.idxs, i ∈ r.idxs → i ∈ r'.idxs := by
  intro i hi hir
  rcases List.mem_append.mp hi with hi | hi
  · exact (C12_live_table_kept_whole r hok refs r' h t₁ h₁ c₁ hc₁ hr₁ ht₁).2.2 i hi hir
  · exact (C12_live_table_kept_whole r hok refs r' h t₂ h₂ c₂ hc₂ hr₂ ht₂).2.2 i hi hir

/-- the mark phase starts from every ref (the `roots` of the theorems below are all refs) -/
theorem C12_fact_rootsAllRefs : Facts.pruneRootsAreAllRefs = true := by decide

end Wrgl
