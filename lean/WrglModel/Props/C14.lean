/-
C14 — A transaction's commits land on all of its branches or on none.
Property theorems only. Model: Model/Tx.lean (transaction.Commit / Discard as sequences of store
writes, any of which may fail or be the last before a crash; commits are content addressed).
-/
import WrglModel.Model.Tx
import WrglModel.Lemmas.C14
import WrglModel.Lemmas.C14Advance
import WrglModel.Gen.Facts
namespace Wrgl

/-! ties to the source -/
theorem C14_fact_commitGuarded : Facts.txCommitGuarded = true := by decide
theorem C14_fact_discardGuardFirst : Facts.txDiscardGuardFirst = true := by decide
theorem C14_fact_writeOrder : Facts.writeOrderTxCommit = ["com", "ref", "status"] := by decide

/-- All-or-completable: commit a fresh transaction with a failure or crash before ANY write, with
    ANY branch orders, then re-run. Either the first run succeeded (and the re-run is refused) or the
    re-run succeeds; every staged branch ends at its staged commit on top of its ORIGINAL head —
    moved exactly once, logged exactly once — and the transaction is committed. -/
theorem C14_all_or_completable (init : TxSt) (hf : init.Fresh) (order1 order2 : List String)
    (h1 : IsOrder init order1) (h2 : IsOrder init order2) (k : Option Nat) :
    let r1 := txCommit Facts.txCommitGuarded order1 k init
    let r2 := txCommit Facts.txCommitGuarded order2 none r1.1
    (r2.2 = .ok ∨ (r1.2 = .ok ∧ r2.2 = .refused)) ∧
    r2.1.committed = true ∧
    (∀ b, r2.1.head b = lookupHead (allBranchesHeads init) b) ∧
    (∀ b, (r2.1.logs.filter (fun l => l.branch == b)).length = if (init.staged.map (·.1)).contains b then 1 else 0) := by
  rw [C14_fact_commitGuarded]
  exact tx_all_or_completable init hf order1 order2 h1 h2 k

/-- An interrupted run leaves every branch either where it was or at its final position. -/
theorem C14_interrupted_state (init : TxSt) (hf : init.Fresh) (order : List String) (h : IsOrder init order) (k : Option Nat) :
    let r := txCommit Facts.txCommitGuarded order k init
    ∀ b, r.1.head b = init.head b ∨ r.1.head b = lookupHead (allBranchesHeads init) b := by
  rw [C14_fact_commitGuarded]
  exact tx_partial_state init hf order h k

/-- A committed transaction can be neither committed a second time nor discarded, and the refused
    call changes nothing. -/
theorem C14_committed_is_final (s : TxSt) (hc : s.committed = true) (he : s.exists_ = true) (order : List String) (k : Option Nat) :
    txCommit Facts.txCommitGuarded order k s = (s, .refused) ∧ txDiscard Facts.txDiscardGuardFirst s = (s, .refused) := by
  rw [C14_fact_commitGuarded, C14_fact_discardGuardFirst]
  exact tx_committed_is_final s hc he order k

/-- Discarding an open transaction removes all staged refs and never touches a branch or a log. -/
theorem C14_discard_frame (s : TxSt) (ho : s.committed = false) (he : s.exists_ = true) :
    (txDiscard Facts.txDiscardGuardFirst s).2 = .ok ∧ (txDiscard Facts.txDiscardGuardFirst s).1.staged = [] ∧
    (txDiscard Facts.txDiscardGuardFirst s).1.heads = s.heads ∧ (txDiscard Facts.txDiscardGuardFirst s).1.logs = s.logs := by
  rw [C14_fact_discardGuardFirst]
  exact tx_discard_frame s ho he

/-- Witnesses that the two guards carry the property (the code before the repairs). -/
theorem C14_unguarded_double_commit :
    let init : TxSt := { heads := [("a", .orig 1)], staged := [("a", 2)], logs := [], exists_ := true, committed := false, objects := [] }
    let s1 := (txCommit false ["a"] none init).1
    let s2 := (txCommit false ["a"] none s1).1
    s2.head "a" ≠ s1.head "a" := tx_unguarded_double_commit

theorem C14_unguarded_discard_side_effect :
    let s : TxSt := { heads := [("a", .orig 1)], staged := [("a", 2)], logs := [], exists_ := true, committed := true, objects := [] }
    (txDiscard false s).1.staged ≠ s.staged := tx_unguarded_discard_side_effect

/-- Discard interrupted by a failing store operation (at any position, any deletion order): no
    branch, log or object is touched; it reports success only when every staged ref and the
    transaction row are gone; and discarding again completes it. -/
theorem C14_discard_fault (order : List String) (k : Nat) (s : TxSt) :
    let r := txDiscardFault Facts.txDiscardGuardFirst order k s
    r.1.heads = s.heads ∧ r.1.logs = s.logs ∧ r.1.objects = s.objects ∧ r.1.committed = s.committed ∧
    (r.2 = .ok → r.1.staged = [] ∧ r.1.exists_ = false) ∧
    (s.exists_ = true → s.committed = false →
      (txDiscard Facts.txDiscardGuardFirst r.1).1.staged = [] ∧ (txDiscard Facts.txDiscardGuardFirst r.1).1.exists_ = false) := by
  rw [C14_fact_discardGuardFirst]
  unfold txDiscardFault txDiscard
  by_cases he : s.exists_ <;> by_cases hc : s.committed <;> simp [he, hc] <;>
    (split <;> try split) <;> simp_all

/-- Across other operations: ordinary commits (`txAdvance`: `wrgl commit`, merge, pull …) land on ANY
    branches after staging (`advs0`) and between an interrupted run and the re-run (`advs1`) — the
    branches the interrupted run has already moved included. For every failure position and all
    branch orders the re-run completes the transaction (or the first run had succeeded and the
    re-run is refused), and every staged branch carries exactly ONE log entry and exactly ONE commit
    of the transaction in its history, every other branch none: no duplicated commits. -/
theorem C14_completable_across_advances (init : TxSt) (hf : init.Fresh)
    (h0 : ∀ b, txCommitsIn (init.head b) = 0)
    (advs0 advs1 : List (String × Nat)) (order1 order2 : List String)
    (h1 : IsOrder init order1) (h2 : IsOrder init order2) (k : Option Nat) :
    let r1 := txCommit Facts.txCommitGuarded order1 k (txAdvances advs0 init)
    let r2 := txCommit Facts.txCommitGuarded order2 none (txAdvances advs1 r1.1)
    (r2.2 = .ok ∨ (r1.2 = .ok ∧ r2.2 = .refused)) ∧
    r2.1.committed = true ∧
    (∀ b, (r2.1.logs.filter (fun l => l.branch == b)).length = if (init.staged.map (·.1)).contains b then 1 else 0) ∧
    (∀ b, txCommitsIn (r2.1.head b) = if (init.staged.map (·.1)).contains b then 1 else 0) := by
  rw [C14_fact_commitGuarded]
  exact tx_completable_across_advances init hf h0 advs0 advs1 order1 order2 h1 h2 k

/-- A run of the commit — interrupted anywhere or not — leaves a branch the transaction has already
    moved exactly where it finds it, also when other operations have moved that branch on since
    (`advs`), and does not log it a second time. -/
theorem C14_rerun_keeps_moved_branch (s : TxSt) (b : String) (advs : List (String × Nat))
    (hl : s.logs.any (fun l => l.branch == b) = true) (order : List String) (k : Option Nat) :
    let s1 := txAdvances advs s
    (txCommit Facts.txCommitGuarded order k s1).1.head b = s1.head b ∧
    ((txCommit Facts.txCommitGuarded order k s1).1.logs.filter (fun l => l.branch == b)).length =
      (s.logs.filter (fun l => l.branch == b)).length := by
  rw [C14_fact_commitGuarded]
  exact tx_rerun_keeps_moved_branch s b advs hl order k

/-- An ordinary commit on a branch is invisible to the transaction: log, staged refs, status and
    the other branches stay as they are. -/
theorem C14_advance_frame (b : String) (n : Nat) (s : TxSt) :
    (txAdvance b n s).logs = s.logs ∧ (txAdvance b n s).staged = s.staged ∧
    (txAdvance b n s).committed = s.committed ∧ (txAdvance b n s).exists_ = s.exists_ ∧
    (txAdvance b n s).head b = Cid.adv n (s.head b) ∧ ∀ b', b' ≠ b → (txAdvance b n s).head b' = s.head b' := by
  refine ⟨rfl, rfl, rfl, rfl, ?_, fun b' hb => ?_⟩
  · rw [C14.head_txAdvance]; simp
  · rw [C14.head_txAdvance]; simp [hb]

end Wrgl
