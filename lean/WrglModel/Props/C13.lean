/-
C13 — A crash at any point leaves the repository consistent and the operation repeatable.
Property theorems only. Model: Model/Crash.lean (operations as sequences of store writes; a crash is
a prefix). The ORDER of each operation's writes is regenerated from the source (Facts.writeOrder*);
the theorems are about the write sequences in exactly that order. PARTIAL: each store call is
assumed atomic and durable (badger / SQLite below one call are not modelled); "re-running ends in
the uninterrupted outcome" is established by the correspondence runs (content addressing makes
the re-run write the same objects), not by a theorem.
-/
import WrglModel.Model.Crash
import WrglModel.Lemmas.C13
import WrglModel.Lemmas.C13Recv
import WrglModel.Gen.Facts
namespace Wrgl

/-! ties to the source: the write orders the theorems below are about -/
theorem C13_fact_insertBlock : Facts.writeOrderInsertBlock = ["blk", "blkidx"] := by decide
theorem C13_fact_ingest : Facts.writeOrderIngest = ["blocks", "tblidx", "tblsum", "tbl"] := by decide
theorem C13_fact_commitCmd : Facts.writeOrderCommitCmd = ["table", "com", "ref"] := by decide
theorem C13_fact_receiveTable : Facts.writeOrderReceiveTable = ["index", "tblsum", "tbl"] := by decide
theorem C13_fact_indexTable : Facts.writeOrderIndexTable = ["blkidx", "tblidx"] := by decide
theorem C13_fact_mergeCommit : Facts.writeOrderMergeCommit = ["com", "ref"] := by decide
theorem C13_fact_prune : Facts.writeOrderPrune = ["tables", "blk", "blkidx", "com"] := by decide

/-- Generic: if every write finds its prerequisites in the state left by the writes before it, then
    EVERY prefix of the sequence — every crash point — is a consistent repository: refs resolve,
    stored commits have their parents, present tables are fully usable, branch heads have their table. -/
theorem C13_prefix_consistent (u : Universe) (heads : List Nat) (s : RState) (ws : List WOp)
    (hc : Consistent u heads s)
    (hp : ∀ k w, ws[k]? = some w → prereqOk u heads (s.applyAll (ws.take k)) w = true) :
    ∀ n, Consistent u heads (s.applyAll (ws.take n)) :=
  prefix_consistent u heads s ws hc hp

/-- `wrgl commit` with the write order of the current source, for every table shape, any number of
    blocks and any parent already present: every crash point is consistent. -/
theorem C13_commit_prefix_consistent (u : Universe) (heads : List Nat) (s : RState)
    (t c r : Nat) (blocks idxs parents : List Nat)
    (hc : Consistent u heads s)
    (ht : u.table? t = some (blocks, idxs)) (hlen : blocks.length = idxs.length)
    (hcm : u.commit? c = some (parents, t)) (hpar : ∀ p ∈ parents, p ∈ s.coms) :
    ∀ n, Consistent u heads (s.applyAll ((commitWrites Facts.writeOrderInsertBlock Facts.writeOrderIngest Facts.writeOrderCommitCmd
      t blocks idxs c r).take n)) := by
  rw [C13_fact_insertBlock, C13_fact_ingest, C13_fact_commitCmd]
  exact commit_writes_safe u heads s t c r blocks idxs parents hc ht hlen hcm hpar

/-- Receipt of a table (fetch / pull / push receiver) after its blocks arrived: block indices, table
    index and profile are written before the table object, so every crash point is consistent. -/
theorem C13_receive_prefix_consistent (u : Universe) (heads : List Nat) (s : RState)
    (t : Nat) (blocks idxs : List Nat)
    (hc : Consistent u heads s)
    (ht : u.table? t = some (blocks, idxs)) (hb : ∀ b ∈ blocks, b ∈ s.blks) :
    ∀ n, Consistent u heads (s.applyAll ((receiveTableWrites Facts.writeOrderIndexTable Facts.writeOrderReceiveTable t idxs).take n)) := by
  rw [C13_fact_indexTable, C13_fact_receiveTable]
  exact receive_table_writes_safe u heads s t blocks idxs hc ht hb

/-- Receive (fetch / pull / push receiver), commits: for ANY object stream - whatever order the sender
    chose, parent-first or not, e.g. a history whose commit times disagree with its topology, sorted
    by time - and any crash point or refusal, every stored commit has all its parents: the receiver
    looks the parents up before it writes the commit (Model/Transfer.lean `receiveObj`), so the
    clause does not rest on the sender. -/
theorem C13_receive_any_order_parents (s : SrcRepo) (d : DstRepo) (os : List ObjKey) (h : ParentClosed d) :
    ∀ n, ParentClosed (receiveUpTo s d (os.take n)) :=
  fun n => C13Recv.receiveUpTo_parentClosed s (os.take n) d h

/-- ... and the look-up carries it: without it, a child sent before its parent (a child made on a
    machine whose clock is behind, in a stream ordered by time) is stored, and a crash before the
    parent's write leaves a commit whose parent is missing. -/
theorem C13_unchecked_receive_unsafe :
    let s : SrcRepo := { commits := [{ id := 1, time := 3, parents := [] }, { id := 2, time := 1, parents := [1] }], tables := [] }
    ¬ ParentClosed (receiveUpToUnchecked s { blocks := [], tables := [], commits := [] } ([ObjKey.com 2, ObjKey.com 1].take 1)) := by
  intro s h
  have := h 2 { id := 2, time := 1, parents := [1] } (by decide) 1 (by simp)
  revert this
  decide

/-- The order before the repair (table object first) is NOT safe: the witness that the extracted
    order carries the theorem. -/
theorem C13_table_first_is_unsafe :
    let u : Universe := { commits := [], tables := [(1, [1], [1])] }
    let s : RState := { blks := [1], idxs := [], tbls := [], tblIdx := [], tblSum := [], coms := [], refs := [] }
    ¬ Consistent u [] (s.applyAll ((receiveTableWrites ["blkidx", "tblidx"] ["tbl", "index", "tblsum"] 1 [1]).take 1)) :=
  table_first_is_unsafe

end Wrgl
