import WrglModel.Model.Crash
namespace Wrgl
theorem C13_placeholder : True := trivial
end Wrgl
