/-
C16 — Concurrent pipelines give the sequential result under every schedule.
Property theorems only. Model: Model/Pool.lean (the ingest worker pool as a small-step system over
schedules). PARTIAL by nature: the Go memory model, the scheduler and the runtime's channels are
not modelled; the race detector (harness built with -race, seeded yields) serves as the search for
a failing schedule, never as evidence of absence.
-/
import WrglModel.Model.Pool
import WrglModel.Model.PBar
import WrglModel.Lemmas.C16
import WrglModel.Model.Pipe
import WrglModel.Lemmas.C16Pipe
import WrglModel.Gen.Facts
namespace Wrgl

/-! ties to the source -/
theorem C16_fact_guarded : Facts.ingestSharedAccessGuarded = true := by decide
theorem C16_fact_errChan : Facts.ingestErrChanHoldsAllWorkers = true := by decide

/-- For any number of workers and EVERY schedule prefix: nothing is lost or duplicated — the row
    count plus what is still in the channel or in a worker's hands is the total, and published,
    queued and held blocks together are a permutation of the input. -/
theorem C16_ingest_invariant (blocks : List PBlk) (n : Nat) (schedule : List Nat) :
    let p := (Pool.init blocks n).run Facts.ingestSharedAccessGuarded schedule
    p.rc + totalRows p.todo + totalRows (p.ws.flatMap heldBy) = totalRows blocks ∧
    (p.blocks ++ p.todo ++ p.ws.flatMap heldBy).Perm blocks := by
  rw [C16_fact_guarded]; exact pool_invariant blocks n schedule

/-- Every schedule that runs all workers to completion ends with the row count of the input and
    exactly the input's blocks: the one-worker result once `sortBlocks` orders them by offset. -/
theorem C16_ingest_schedule_independent (blocks : List PBlk) (n : Nat) (schedule : List Nat)
    (hfin : ((Pool.init blocks n).run Facts.ingestSharedAccessGuarded schedule).finished = true) :
    ((Pool.init blocks n).run Facts.ingestSharedAccessGuarded schedule).rc = totalRows blocks ∧
    ((Pool.init blocks n).run Facts.ingestSharedAccessGuarded schedule).blocks.Perm blocks := by
  rw [C16_fact_guarded] at hfin ⊢; exact pool_schedule_independent blocks n schedule hfin

/-- Completion is reachable (the pool does not deadlock by construction of its step relation). -/
theorem C16_ingest_can_finish (blocks : List PBlk) (n : Nat) (hn : 0 < n) :
    ∃ schedule, ((Pool.init blocks n).run Facts.ingestSharedAccessGuarded schedule).finished = true := by
  rw [C16_fact_guarded]; exact pool_can_finish blocks n hn

/-- Without the critical section a two-worker schedule loses a block and its rows — the defect that
    was repaired; kept as the witness that the extracted fact carries the theorem. -/
theorem C16_lost_update_witness :
    let blocks : List PBlk := [{ off := 0, rows := 255 }, { off := 1, rows := 7 }]
    let p := (Pool.init blocks 2).run false [0, 1, 0, 1, 0, 1, 0, 1, 0, 1, 0, 1]
    p.finished = true ∧ (p.rc ≠ 262 ∨ p.blocks.length ≠ 2) :=
  pool_unguarded_lost_update

/-! ### histories: several ingests in a row on one sorter (Model/Pipe.lean)

Between two calls the sorter belongs to the caller, who empties it and loads the next table
(`Reset()`, `SortFile`/`AddRow` — doctor's resolver, `ReingestTable`, a retry after a store error).
The producer goroutine of a call reads that very state. So a call has to be over when it returns. -/

/-- The coordinator that waits for all its workers (`wg.Wait()` in `ingestTableFromBlocks`): when the
    call returns — with a table or with the error of a failed worker — and at least one worker left
    by seeing the channel closed (every worker that does not fail leaves that way), the whole
    pipeline is at rest: whatever the caller loads into the sorter next stays untouched under every
    further schedule of the old goroutines, for any fault position and any schedule so far. -/
theorem C16_ingest_is_over_when_it_returns (n bs cap nw : Nat) (f : Option Nat) (s : List Nat)
    (hret : ((Pipe.init n bs cap nw).run f s).mayReturn true = true)
    (hdone : ((Pipe.init n bs cap nw).run f s).anyDone = true)
    (m : Nat) (f' : Option Nat) (s' : List Nat) :
    ((((Pipe.init n bs cap nw).run f s).ret.reload m).run f' s') =
      ((Pipe.init n bs cap nw).run f s).ret.reload m ∧
    ((((Pipe.init n bs cap nw).run f s).ret.reload m).run f' s').src = m := by
  have hl : ((Pipe.init n bs cap nw).run f s).allLeft = true := by
    simpa [Pipe.mayReturn] using hret
  have hq := pipe_rest_at_return n bs cap nw f s hl hdone
  have hq' : (((Pipe.init n bs cap nw).run f s).ret.reload m).quiescent = true := hq
  have := quiescent_run f' s' _ hq'
  exact ⟨this, by rw [this]; rfl⟩

/-- Without a fault every schedule that lets all workers leave has counted every row of the sorter,
    has emptied it, and is at rest: the attempt's table does not depend on the schedule. -/
theorem C16_pipeline_counts_every_row (n bs cap nw : Nat) (hnw : 0 < nw) (s : List Nat)
    (hl : ((Pipe.init n bs cap nw).run none s).allLeft = true) :
    ((Pipe.init n bs cap nw).run none s).rows = n ∧ ((Pipe.init n bs cap nw).run none s).src = 0 ∧
    ((Pipe.init n bs cap nw).run none s).quiescent = true :=
  pipe_complete n bs cap nw hnw s hl

/-- A coordinator that returns at the first reported error instead: two workers, five blocks, a
    channel of one. Worker 0's save fails while worker 1 is inside its save and the producer is
    blocked in a send. The call may return under that discipline (not under `wg.Wait()`); the caller
    loads 510 rows; the left-over worker finishes and receives, the producer's send goes through,
    it builds one more block — out of the caller's rows — before it looks at its context: 255 of the
    510 rows of the next table are gone. -/
theorem C16_early_return_witness :
    let p := (Pipe.init (5 * 255) 255 1 2).run (some 0) [2, 0, 2, 1, 2, 2, 0]
    p.mayReturn false = true ∧ p.mayReturn true = false ∧
    ((p.ret.reload 510).run (some 0) [1, 1, 2, 2]).src = 255 := by decide

/-- The premise "some worker saw the channel closed" of `C16_ingest_is_over_when_it_returns` cannot
    be dropped: when the only worker fails, `wg.Wait()` returns while the producer is still in its
    loop; it finishes the block it is building — from whatever the sorter holds by then — before it
    looks at its context. -/
theorem C16_sole_worker_failure_witness :
    let p := (Pipe.init (3 * 255) 255 10 1).run (some 0) [1, 0, 0]
    p.mayReturn true = true ∧ p.anyDone = false ∧
    ((p.ret.reload 510).run (some 0) [1]).src = 255 := by decide

theorem C16_fact_mergeErrChan : Facts.mergeErrChanHoldsAllDiffers = true := by decide

theorem sendAll_room (cap : Nat) : ∀ (l : List Bool) (used : Nat), used + l.length ≤ cap → (sendAll cap l used).isSome = true
  | [], _, _ => rfl
  | true :: rest, used, h => by
    have h1 : used < cap := by simp at h; omega
    simp only [sendAll, if_true, h1]
    exact sendAll_room cap rest (used + 1) (by simp at h ⊢; omega)
  | false :: rest, used, h => by
    simp only [sendAll, Bool.false_eq_true, if_false]
    exact sendAll_room cap rest used (by simp at h ⊢; omega)

/-- The error channels: with room for one error per goroutine (the extracted facts
    `ingestErrChanHoldsAllWorkers`, `mergeErrChanHoldsAllDiffers`), no goroutine ever blocks on
    reporting its error, whichever subset of them fails — so one unreadable object that makes
    several differs fail at once cannot hang the merge. -/
theorem C16_error_report_never_blocks (goroutines : List Bool) (cap : Nat) (h : goroutines.length ≤ cap) :
    (sendAll cap goroutines 0).isSome = true :=
  sendAll_room cap goroutines 0 (by omega)

/-- … and with a smaller buffer two failing goroutines do hang. -/
theorem C16_error_report_blocks_witness : sendAll 1 [true, true] 0 = none := by decide

/-- the progress bar objects shared by the workers are created lazily under a lock -/
theorem C16_fact_pbarLazyInitLocked : Facts.pbarLazyInitLocked = true := by decide

/-- `pbar.bar.Done()` drives a bar with a fixed total to it before waiting (regenerated fact) -/
theorem C16_fact_pbarDoneForcesCompletion : Facts.pbarDoneForcesCompletion = true := by decide

/-- Finishing a progress bar always returns: whatever state the bar is in — created with or without
    a total, wherever its counter stands — `Done()` leaves it completed, so the `Wait()` that
    follows cannot block. (`wrgl merge` finishes its bar when the merge channel closes, at
    whatever progress the last tick reported.) The bound is the int64 range of the real field. -/
theorem C16_pbar_done_returns (s : PBarSt) (h : s.total ≤ maxInt64) :
    (s.done Facts.pbarDoneForcesCompletion).completed = true := by
  rw [C16_fact_pbarDoneForcesCompletion]
  unfold PBarSt.done
  by_cases hc : s.completed = true
  · simp [hc]
  · by_cases ht : s.trig = true
    · have h0 : (0 : Int) ≤ maxInt64 := by decide
      have hm : ¬ (maxInt64 < 0) := by omega
      simp [hc, ht, PBarSt.mpbSetTotal, PBarSt.mpbSetCurrent, PBarSt.settle, hm, h]
    · simp [hc, ht, PBarSt.mpbSetTotal]

/-- the premise is met by a live state: a bar with total 10 standing at 5 -/
example : ((PBarSt.new 10).step (.setCurrent 5)).total ≤ maxInt64 ∧
    ((PBarSt.new 10).step (.setCurrent 5)).completed = false := by decide

/-- … and without that step a bar with a total that stands below it is waited for forever — the
    defect that was repaired (a merge ending between two progress ticks hung `wrgl merge`). -/
theorem C16_pbar_done_blocks_witness : pbarDoneReturns false 10 [.setCurrent 5] = false := by decide

end Wrgl
