/-
C11 — Ancestry queries and merge-base selection agree with the commit graph.
Property theorems only (helper lemmas live in Lemmas/C11*.lean).

Model: WrglModel/Model/Queue.lean (transcription of pkg/ref/commits_queue.go, pkg/ref/utils.go).
Spec:  `Reach g a b` — `a` is reachable from `b` through parent links (or `a = b`).
-/
import WrglModel.Model.Queue
import WrglModel.Spec.Graph
import WrglModel.Lemmas.C11
import WrglModel.Lemmas.C11Multi
import WrglModel.Lemmas.C11Seek
namespace Wrgl

/-! ## Ancestor test (full strength, arbitrary timestamps) -/

/-- `ref.IsAncestorOf` always answers (never errors, never runs out of the stated fuel) on a
    well-formed graph, and answers `true` exactly when `a` is reachable from `b`. -/
theorem C11_isAncestor_iff_reachable (g : Graph) (hwf : g.wf = true) (a b : Nat)
    (hb : (g.get? b).isSome = true) :
    (∃ r, isAncestorOf g a b = .ok r) ∧ (isAncestorOf g a b = .ok true ↔ Reach g a b) :=
  isAncestor_correct g hwf a b hb

/-- A history walk visits every ancestor-or-self of its start exactly once. -/
theorem C11_walk_each_once (g : Graph) (hwf : g.wf = true) (b : Nat)
    (hb : (g.get? b).isSome = true) :
    ∃ l, walk g b = .ok l ∧ l.Nodup ∧ ∀ x, x ∈ l ↔ Reach g x b :=
  walk_correct g hwf b hb

/-- The same from ANY list of start points (repeats allowed: two refs on one commit; `tie` is the
    unstable initial sort): every ancestor-or-self of some start point exactly once. This is the
    queue `popHaves` and the negotiation build from all refs. -/
theorem C11_walk_multi_each_once (g : Graph) (hwf : g.wf = true) (tie : List (Nat × Int) → List (Nat × Int))
    (htie : ∀ l, (tie l).Perm l ∧ (tie l).Pairwise (fun a b => a.2 ≥ b.2))
    (sums : List Nat) (hs : ∀ s ∈ sums, (g.get? s).isSome = true) :
    ∃ q l, queueOf g tie sums = .ok q ∧ walkLoop g (g.length + 2) q [] = .ok l ∧ l.Nodup ∧
      ∀ x, x ∈ l ↔ ∃ s ∈ sums, Reach g x s :=
  walkMulti_correct g hwf tie htie sums hs

/-! ## Merge base -/

/-- Two inputs (the only case `wrgl merge` of two branches, fetch and pull use): the base is an
    ancestor-or-self of both, is found whenever a common ancestor exists, and "not found" is
    reported only when none exists; no panic, no nil result, the stated fuel suffices. -/
theorem C11_seek_common_two (g : Graph) (hwf : g.wf = true) (x y : Nat)
    (hx : (g.get? x).isSome = true) (hy : (g.get? y).isSome = true) :
    (∃ r, seekCommonAncestor g [x, y] = .ok (some r) ∧ Reach g r x ∧ Reach g r y) ∨
    (seekCommonAncestor g [x, y] = .err "not-found" ∧ ¬ ∃ r, Reach g r x ∧ Reach g r y) :=
  seek_two_common g hwf x y hx hy

/-- The computable closure `reach` that the driver's oracle evaluates on implementation output is
    the specification `Reach`. -/
theorem C11_oracle_reach_sound (g : Graph) (hwf : g.wf = true) (a b : Nat)
    (hb : (g.get? b).isSome = true) : reach g a b = true ↔ Reach g a b :=
  reach_iff_Reach g hwf a b hb

/-- full-strength statement 1: the base is an ancestor-or-self of every input. -/
def C11_seek_common_full : Prop :=
  ∀ (g : Graph) (inputs : List Nat) (r : Nat), g.wf = true →
    seekCommonAncestor g inputs = .ok (some r) → ∀ x ∈ inputs, Reach g r x

/-- full-strength statement 2: the base is one of the inputs whenever that input is an ancestor
    of all the others. -/
def C11_seek_input_full : Prop :=
  ∀ (g : Graph) (inputs : List Nat) (x r : Nat), g.wf = true → x ∈ inputs →
    (∀ y ∈ inputs, Reach g x y) → seekCommonAncestor g inputs = .ok (some r) →
    (∀ y ∈ inputs, Reach g r y) ∧ r ∈ inputs

/-- witness for statement 2 (two inputs, topology-consistent clocks):
    P←A←M1←M2←B with B also a child of P; inputs (A, B). -/
def c11WitnessInput : Graph :=
  [⟨1, 100, [], 0⟩, ⟨2, 200, [1], 0⟩, ⟨3, 300, [2], 0⟩, ⟨4, 400, [3], 0⟩, ⟨5, 500, [4, 1], 0⟩]

/-- witness for statement 1 (three inputs): 0←1←2←3, 0←4; inputs (3, 4, 1). -/
def c11WitnessCommon : Graph :=
  [⟨0, 100, [], 0⟩, ⟨1, 200, [0], 0⟩, ⟨2, 300, [1], 0⟩, ⟨3, 400, [2], 0⟩, ⟨4, 500, [0], 0⟩]

theorem reach_sound_witness1 : ¬ Reach c11WitnessCommon 1 4 := by
  intro h
  have := Reach.closed c11WitnessCommon (fun x => x = 4 ∨ x = 0) 4 (Or.inl rfl)
    (by
      intro x hx p hp
      rcases hx with rfl | rfl <;>
        simp [parentsOf, Graph.get?, c11WitnessCommon] at hp <;> simp [hp]) 1 h
  omega

/-- On this tree the three-input merge base need not be a common ancestor (known finding). -/
theorem C11_seek_common_fails : ¬ C11_seek_common_full := by
  intro h
  have := h c11WitnessCommon [3, 4, 1] 1 (by decide) (by decide) 4 (by simp)
  exact reach_sound_witness1 this

/-- On this tree a would-be fast-forward input is not returned as the base (known finding). -/
theorem C11_seek_input_fails : ¬ C11_seek_input_full := by
  intro h
  have := h c11WitnessInput [2, 5] 2 1 (by decide) (by simp)
    (by
      intro y hy
      simp at hy
      rcases hy with rfl | rfl
      · exact Reach.refl 2
      · exact Reach.step (p := 4) (by decide) (Reach.step (p := 3) (by decide) (Reach.step (p := 2) (by decide) (Reach.refl 2))))
    (by decide)
  have h2 := this.2
  simp at h2

/-- non-vacuity: a concrete well-formed graph with a merge and skewed clocks meets the hypotheses. -/
example : c11WitnessInput.wf = true ∧ (c11WitnessInput.get? 5).isSome = true := by decide

end Wrgl
