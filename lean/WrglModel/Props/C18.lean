/-
C18 — Decoding a stream does not depend on how the transport chunks it.
Property theorems only. Model: Model/Chunked.lean (a reader that delivers a byte stream in arbitrary
pieces; `fetch` = what a decoder site sees with one `Read` or with `io.ReadFull`; the packfile
reader written against it). The read mode of every site is a regenerated fact.
-/
import WrglModel.Model.Chunked
import WrglModel.Model.ReadModes
import WrglModel.Lemmas.C18
namespace Wrgl

/-- tie to the source: no decoder site (packfile version/header/body, Parser.NextBytes,
    objline.ReadBytes, Table.readBlock, BlockIndex.ReadFrom, uint/float list, ReadBlockFrom)
    consumes its reader with a single `Read` call -/
theorem C18_fact_no_single_read : Facts.readModeSingleSites = [] := by decide

theorem C18_all_sites_full (s : Site) : Facts.readMode s = .full := by
  simp [Facts.readMode, C18_fact_no_single_read]

/-- `io.ReadFull` over ANY chunking (1-byte reads, reads ending mid-header, empty reads skipped,
    data+EOF in one call) returns the next n bytes of the stream and leaves the rest. -/
theorem C18_readFull_chunk_independent (c : Chunked) (n : Nat) :
    (c.readFullN n).1 = c.content.take n ∧ (c.readFullN n).2.content = c.content.drop n :=
  ⟨(readFullN_content c n).1, (readFullN_content c n).2.1⟩

/-- The packfile reader as implemented (read modes taken from the source): decoded objects, errors
    and the end-of-stream condition are the same for every two ways of chunking the same bytes,
    and equal the whole-buffer result. -/
theorem C18_packfile (c1 c2 : Chunked) (h : c1.content = c2.content) :
    packfileC Facts.readMode c1 = packfileC Facts.readMode c2 :=
  packfileC_chunk_independent Facts.readMode C18_all_sites_full c1 c2 h

theorem C18_packfile_eq_whole_buffer (c : Chunked) :
    packfileC Facts.readMode c = packfileFlat c.content :=
  packfileC_eq_flat Facts.readMode C18_all_sites_full c

/-- A site that trusts a single `Read` breaks the property (the code before the repair): the same
    valid packfile is accepted whole and rejected when the first read returns one byte. -/
theorem C18_single_read_witness :
    let mode : Site → ReadMode := fun s => if s = .packVersion then .single else .full
    let bytes : Bytes := [80, 65, 67, 75, 0, 0, 0, 1]
    packfileC mode { chunks := [bytes], eofWithLast := false } ≠
    packfileC mode { chunks := [[80], [65, 67, 75, 0, 0, 0, 1]], eofWithLast := false } :=
  single_read_is_chunk_dependent

/-- non-vacuity: a packfile with one object decodes under a hostile chunking with data+EOF -/
example : packfileC Facts.readMode
    { chunks := [[80], [65, 67], [75, 0, 0, 0], [1, 0x91, 0x00], [7]], eofWithLast := true } =
    .ok (1, [(1, [7])]) := by decide

end Wrgl
