import WrglModel.Model.Chunked
import WrglModel.Model.ReadModes
namespace Wrgl
theorem C18_placeholder : True := trivial
end Wrgl
