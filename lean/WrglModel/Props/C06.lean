/-
C06 — Objects round-trip through their encodings and are stored under their hash.
Property theorems only. Model: Model/Encoding.lean, Model/Time.lean.
-/
import WrglModel.Model.Encoding
import WrglModel.Model.Time
import WrglModel.Lemmas.C06Codec
import WrglModel.Lemmas.C06Hdr
import WrglModel.Gen.Facts
import WrglModel.Lemmas.C06BIdx
import WrglModel.Lemmas.C06Store
import WrglModel.Lemmas.C06Profile
namespace Wrgl

/-! ties to the source -/
theorem C06_fact_maxCell : Facts.strListEncodeMaxCell = some 65535 := by decide
theorem C06_fact_offsetWide : Facts.strListOffsetWide = true := by decide
theorem C06_fact_writeStringGuard : Facts.writeStringGuard = true := by decide
theorem C06_fact_writeTimeGuard : Facts.writeTimeGuard = true := by decide
/-- the decoders' pre-allocation cap only sizes slices; it never bounds a read loop (which would
    silently truncate objects with more elements than the cap, e.g. tables of more than 4096 blocks) -/
theorem C06_fact_preallocCapOnly : Facts.preallocCapNeverBoundsLoops = true := by decide

theorem C06_fact_hdrBitsExact : Facts.hdrBitsExact = true := by decide

/-- A row whose cells fit the 16-bit length prefix reads back equal, whatever its total size
    (also beyond 64 KiB), and the decoder stops exactly at the end of the row. -/
theorem C06_strList_roundtrip (r : Row) (rest b : Bytes)
    (hc : ∀ c ∈ r, c.length ≤ 65535) (hn : r.length < 2 ^ 32)
    (he : strListEncode 65535 r = .ok b) : strListRead (b ++ rest) = .ok (r, rest) :=
  strList_roundtrip 65535 (by decide) r rest b hc hn he

/-- Encoding succeeds exactly on rows whose cells fit; any other row is refused, never encoded
    into something unreadable. -/
theorem C06_strList_refuses_overlimit (r : Row) :
    ((∃ b, strListEncode 65535 r = .ok b) ↔ ∀ c ∈ r, c.length ≤ 65535) ∧
    ((∃ c ∈ r, c.length > 65535) → strListEncode 65535 r = .panic "strlist-cell-too-long") :=
  ⟨strList_encode_ok_iff 65535 r, strList_encode_overlimit 65535 r⟩

/-- Distinct rows have distinct encodings (so equal stored bytes mean equal content). -/
theorem C06_strList_injective (r1 r2 : Row) (b : Bytes)
    (h1 : r1.length < 2 ^ 32) (h2 : r2.length < 2 ^ 32)
    (e1 : strListEncode 65535 r1 = .ok b) (e2 : strListEncode 65535 r2 = .ok b) : r1 = r2 :=
  strList_injective 65535 (by decide) r1 r2 b h1 h2 e1 e2

theorem C06_block_roundtrip (rows : List Row) (rest b : Bytes)
    (hn : rows.length < 2 ^ 32) (hr : ∀ r ∈ rows, r.length < 2 ^ 32)
    (he : blockEncode 65535 rows = .ok b) : blockDecode (b ++ rest) = .ok (rows, rest) :=
  block_roundtrip 65535 (by decide) rows rest b hn hr he

theorem C06_block_injective (rows1 rows2 : List Row) (b : Bytes)
    (h1 : rows1.length < 2 ^ 32) (h2 : rows2.length < 2 ^ 32)
    (hr1 : ∀ r ∈ rows1, r.length < 2 ^ 32) (hr2 : ∀ r ∈ rows2, r.length < 2 ^ 32)
    (e1 : blockEncode 65535 rows1 = .ok b) (e2 : blockEncode 65535 rows2 = .ok b) : rows1 = rows2 :=
  block_injective 65535 (by decide) rows1 rows2 b h1 h2 hr1 hr2 e1 e2

theorem C06_table_roundtrip (t : TableObj) (b : Bytes) (hw : t.WF)
    (he : tableBytes 65535 t = .ok b) : tableRead b = .ok t :=
  table_roundtrip 65535 (by decide) t b hw he

/-- Every commit that can be written (text fields within 65535 bytes) reads back equal; a longer
    field is rejected with an error at write time. -/
theorem C06_commit_roundtrip (c : CommitObj) (b : Bytes) (hw : c.WF)
    (he : commitBytes Facts.writeStringGuard c = .ok b) : commitRead b = .ok c := by
  rw [C06_fact_writeStringGuard] at he
  exact commit_roundtrip c b hw he

theorem C06_commit_overlimit_rejected (c : CommitObj)
    (h : c.authorName.length > 65535 ∨ c.authorEmail.length > 65535 ∨ c.message.length > 65535) :
    ∃ e, commitBytes Facts.writeStringGuard c = .err e := by
  rw [C06_fact_writeStringGuard]
  exact commit_overlimit_err c h

/-- Commit times: every instant with a 10-character rendering and every whole-minute zone within ±24:59
    round-trips; every other instant is refused at write time; the zero time round-trips. -/
theorem C06_time_roundtrip (sec zoneMin : Int) (hs : -999999999 ≤ sec ∧ sec < 10000000000)
    (hz : -1500 < zoneMin ∧ zoneMin < 1500) :
    (encodeTime sec (zoneMin * 60)).length = 16 ∧
    readTime (encodeTime sec (zoneMin * 60)) = .ok (some (sec, zoneMin * 60)) :=
  time_roundtrip sec zoneMin hs hz

/-- … but a zone offset of 25 hours or more is written (the text still has 16 bytes) and cannot be
    read back: `time.Parse` refuses the hour. Known finding C06-time-zone-over-24h (no real zone is
    that far from UTC; `time.FixedZone` accepts it). -/
theorem C06_time_zone_over_24h_unreadable (sec zoneMin : Int) (hs : -999999999 ≤ sec ∧ sec < 10000000000)
    (hz : 1500 ≤ zoneMin ∧ zoneMin < 6000) :
    (encodeTime sec (zoneMin * 60)).length = 16 ∧
    readTime (encodeTime sec (zoneMin * 60)) = .err "time-zone" :=
  time_zone_over_24h_unreadable sec zoneMin hs hz

theorem C06_time_out_of_range_refused (sec z : Int) (hs : sec < -999999999 ∨ 10000000000 ≤ sec) :
    writeTime Facts.writeTimeGuard (some (sec, z)) = .err "time-out-of-range" := by
  rw [C06_fact_writeTimeGuard]
  exact time_out_of_range_refused sec z hs

/-- The packfile length header round-trips for every object type, every 64-bit length (0 included)
    and every bit count that does not under-estimate the length. -/
theorem C06_packHeader_roundtrip (t u bits : Nat) (rest : Bytes) (ht : t < 8) (hu : u < 2 ^ 64)
    (hb : bitLen u ≤ bits) (hb2 : bits ≤ 70) :
    ∃ b, encodeHdr bits t u = .ok b ∧ decodeHdr (b ++ rest) = .ok (t, u, rest) :=
  packHeader_roundtrip t u bits rest ht hu hb hb2

/-- Objects are stored under prefix ++ hash of their canonical bytes: same content, same key. -/
def saveKey (H : Bytes → Bytes) (pfx content : Bytes) : Bytes := pfx ++ H content

theorem C06_save_key_is_hash (H : Bytes → Bytes) (pfx c1 c2 : Bytes) (h : c1 = c2) :
    saveKey H pfx c1 = saveKey H pfx c2 := by rw [h]

/-- non-vacuity: a row crossing 64 KiB in total with a maximal cell meets the hypotheses -/
example : ∃ b, strListEncode 65535 [List.replicate 3 7, []] = .ok b := ⟨_, rfl⟩

/-! ### block index -/

/-- A block index that fits the format (at most 255 rows, byte offsets, 16-byte hashes) reads back
    equal to what was written, consuming exactly its own bytes. -/
theorem C06_blockIndex_roundtrip (b : BIdx) (h : b.codecOk = true) (tail : Bytes) :
    decodeBIdx (encodeBIdx b ++ tail) = .ok (b, tail) :=
  bidx_roundtrip b h tail

/-- Re-encoding what was read reproduces the stored bytes; whatever decodes fits the format. -/
theorem C06_blockIndex_reencode (bs : Bytes) (b : BIdx) (tail : Bytes) (h : decodeBIdx bs = .ok (b, tail)) :
    encodeBIdx b ++ tail = bs ∧ b.codecOk = true :=
  bidx_reencode bs b tail h

/-- The encoding is injective, so the content hash identifies the index. -/
theorem C06_blockIndex_injective (a b : BIdx) (ha : a.codecOk = true) (hb : b.codecOk = true)
    (h : encodeBIdx a = encodeBIdx b) : a = b :=
  bidx_encode_injective a b ha hb h

/-! ### the store as a function of its history (Model/ObjStore.lean) -/

/-- What `Save*` writes is what a read of its key returns, whatever the key held before - also for
    the table index and the table profile, whose key (the table's sum) receives different contents
    over time. -/
theorem C06_save_reads_back (H : Bytes → Bytes) (s : ObjStore) (kind : ObjKind) (sum content : Bytes) :
    (storeStep H s (.save kind sum content)).get ((StoreOp.save kind sum content).key H) = some content :=
  ObjStore.get_set_same s _ content

/-- A save or delete leaves every other key as it was. -/
theorem C06_store_op_keeps_other_keys (H : Bytes → Bytes) (s : ObjStore) (op : StoreOp) (k : Bytes)
    (hne : k ≠ op.key H) : (storeStep H s op).get k = s.get k := by
  cases op with
  | save kind sum content => exact ObjStore.get_set_other s _ content k hne
  | delete kind sum => exact ObjStore.get_del_other s _ k hne

/-- After `Delete*` the key reads as absent. -/
theorem C06_delete_unbinds (H : Bytes → Bytes) (s : ObjStore) (kind : ObjKind) (sum : Bytes) :
    (storeStep H s (.delete kind sum)).get ((StoreOp.delete kind sum).key H) = none :=
  ObjStore.get_del_same s _

/-- Content-addressed kinds are stored under prefix ++ hash of the content. -/
theorem C06_content_key_is_prefix_hash (H : Bytes → Bytes) (kind : ObjKind) (sum content : Bytes)
    (h : kind.byContent = true) : (StoreOp.save kind sum content).key H = saveKey H kind.pfx content := by
  simp [StoreOp.key, StoreOp.kind, StoreOp.ident, h, saveKey]

/-- Identical content is stored once: saving it again leaves the store as it was, and no history
    binds a key twice. -/
theorem C06_save_again_changes_nothing (H : Bytes → Bytes) (s : ObjStore) (kind : ObjKind) (sum content : Bytes) :
    storeStep H (storeStep H s (.save kind sum content)) (.save kind sum content)
      = storeStep H s (.save kind sum content) :=
  ObjStore.set_set_same s _ content

theorem C06_store_keys_distinct (H : Bytes → Bytes) (ops : List StoreOp) :
    (storeRun H [] ops).keys.Nodup :=
  storeRun_nodup H ops [] (by simp [ObjStore.keys])

/-- non-vacuity: a table profile refreshed over a stale one reads back as the fresh one -/
example : (storeRun (fun _ => [9]) [] [.save .tableProfile [1] [10], .save .tableProfile [1] [20]]).get
    (ObjKind.tableProfile.pfx ++ [1]) = some [20] := by decide

/-! ### the transactional store (`objbadger.Txn`): staged, read through, committed -/

/-- Objects saved through a transaction and committed - in one commit or with partial commits
    anywhere in between - leave the database exactly as the same `Save*` / `Delete*` calls on a plain
    store: every key holds the content its last save was GIVEN, later calls (and whatever the caller
    does with its buffers between them) change nothing about it. -/
theorem C06_txn_commit_is_the_direct_history (H : Bytes → Bytes) (s : ObjStore) (ops : List TxnOp) :
    (txnStep H (txnRun H { base := s, staged := [] } ops) .commit).base = storeRun H s (TxnOp.storeOps ops) := by
  rw [txnStep_commit_base, txnRun_view]
  rfl

/-- A read through the transaction sees what was just saved, before any commit. -/
theorem C06_txn_reads_its_own_writes (H : Bytes → Bytes) (t : TxnStore) (kind : ObjKind) (sum content : Bytes) :
    ((txnStep H t (.op (.save kind sum content))).view H).get ((StoreOp.save kind sum content).key H) = some content := by
  rw [txnStep_view]
  exact ObjStore.get_set_same _ _ content

/-- Nothing reaches the database before the commit. -/
theorem C06_txn_staged_is_invisible_outside (H : Bytes → Bytes) (t : TxnStore) (o : StoreOp) :
    (txnStep H t (.op o)).base = t.base := rfl

/-- non-vacuity: two commits saved through one transaction, then committed: both read back as given -/
example : ((txnStep (fun c => c) (txnRun (fun c => c) { base := [], staged := [] }
    [.op (.save .commit [] [1, 2]), .op (.save .commit [] [3, 4])]) .commit).base.get (ObjKind.commit.pfx ++ [1, 2]))
    = some [1, 2] := by decide

/-! table profile writer (Model/Profile.lean) -/

/-- The profile writer succeeds exactly when every text it has to length-prefix with 16 bits (column
    names, top values) fits: a value that does not fit the format is refused at write time, and nothing
    else is. -/
theorem C06_profile_written_iff_texts_fit (p : ProfileObj) :
    (profileBytes Facts.writeStringGuard p).isOk = p.textsFit := by
  rw [C06_fact_writeStringGuard]
  exact profileBytes_isOk p

theorem C06_profile_overlong_name_refused (p : ProfileObj) (c : ColProfile) (hc : c ∈ p.columns)
    (h : c.name.length > 65535) : (profileBytes Facts.writeStringGuard p).isOk = false := by
  rw [C06_profile_written_iff_texts_fit]
  unfold ProfileObj.textsFit
  apply Bool.eq_false_iff.mpr
  intro hall
  have := List.all_eq_true.mp hall c hc
  unfold ColProfile.textsFit at this
  have h2 : decide (c.name.length ≤ 65535) = true := by
    cases hd : decide (c.name.length ≤ 65535) <;> simp [hd] at this ⊢
  have := of_decide_eq_true h2
  omega

end Wrgl
