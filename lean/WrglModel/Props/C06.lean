import WrglModel.Model.Encoding
import WrglModel.Model.Time
import WrglModel.Gen.Facts
namespace Wrgl
theorem C06_placeholder : True := trivial
end Wrgl
