/-
C10 — Without force, a ref only ever moves forward along its own history.
Property theorems only. Model: Model/Sync.lean (the if-chains of saveFetchedRefs, identifyUpdates and
runMerge as `fetchDecision`, `pushDecision`, `mergeDecision`), composed with the ancestor test of
C11 (`isAncestorOf`, proved to answer reachability) and the ref store of C15 (log entries carry the
value held just before). Which decision the real commands take is compared on every generated
repository pair (correspondence), together with the property clauses on the observed refs/reflogs.
-/
import WrglModel.Model.Sync
import WrglModel.Props.C11
import WrglModel.Gen.Facts
namespace Wrgl

/-- Fetch, not forced: a ref is updated only if it did not exist, or is not a tag and the new
    value has the old one among its ancestors; an existing tag is never overwritten. -/
theorem C10_fetch_forward (old : Option Nat) (new : Nat) (isTag : Bool) (isAnc : Nat → Nat → Bool)
    (h : fetchDecision old new isTag false isAnc = .update) :
    old = none ∨ (isTag = false ∧ ∃ o, old = some o ∧ isAnc o new = true) := by
  unfold fetchDecision at h
  cases old with
  | none => exact Or.inl rfl
  | some o =>
    right
    simp only at h
    by_cases h1 : (o == new) = true
    · simp [h1] at h
    · simp only [h1] at h
      cases isTag with
      | true => simp at h
      | false =>
        by_cases h2 : isAnc o new = true
        · exact ⟨rfl, o, rfl, h2⟩
        · simp [h2] at h

/-- … and a rejected or unchanged decision leaves the ref as it was (the caller only writes on
    `.update`): the three outcomes are exhaustive and only `.update` carries a new value. -/
theorem C10_fetch_tag_kept (o new : Nat) (isAnc : Nat → Nat → Bool) (hne : (o == new) = false) :
    fetchDecision (some o) new true false isAnc = .reject := by
  simp [fetchDecision, hne]

/-- Push, not forced: the same rule against the remote's current value. -/
theorem C10_push_forward (remote : Option Nat) (localSum : Nat) (isTag : Bool) (isAnc : Nat → Nat → Bool)
    (h : pushDecision remote localSum isTag false isAnc = .update) :
    remote = none ∨ (isTag = false ∧ ∃ v, remote = some v ∧ isAnc v localSum = true) := by
  unfold pushDecision at h
  cases remote with
  | none => exact Or.inl rfl
  | some v =>
    right
    simp only at h
    by_cases h1 : (v == localSum) = true
    · simp [h1] at h
    · simp only [h1] at h
      cases isTag with
      | true => simp at h
      | false =>
        by_cases h2 : isAnc v localSum = true
        · exact ⟨rfl, v, rfl, h2⟩
        · simp [h2] at h

/-- With the real ancestor test: an unforced fetch that moves an existing ref moves it to a
    descendant of its previous value (reachability through parent links, whatever the timestamps). -/
theorem C10_fetch_moves_to_descendant (g : Graph) (hwf : g.wf = true) (o new : Nat)
    (hn : (g.get? new).isSome = true)
    (h : fetchDecision (some o) new false false (fun a b => decide (isAncestorOf g a b = .ok true)) = .update) :
    Reach g o new := by
  have := C10_fetch_forward (some o) new false _ h
  rcases this with h0 | ⟨_, o', ho, hanc⟩
  · cases h0
  · cases ho
    have hiff := (C11_isAncestor_iff_reachable g hwf o new hn).2
    have hanc' : isAncestorOf g o new = .ok true := by simpa using hanc
    exact hiff.1 hanc' 

/-- Merge: when the branch head is the base (the other commit descends from it) the branch is moved
    exactly to the other commit, unless fast-forward is disabled, in which case a commit with both
    parents is created; with ff-only a true merge is rejected; identical commits change nothing. -/
theorem C10_merge_ff_exact (ff : FFMode) (head other : Nat) (hne : (other != head) = true) :
    mergeDecision ff head other head = (if ff == .never then .mergeCommit [head, other] else .fastForward other) := by
  unfold mergeDecision
  simp [hne]

theorem C10_merge_ff_only_rejects (head other base : Nat) (h1 : (head != base) = true) (h2 : (other != base) = true) :
    mergeDecision .only head other base = .rejected := by
  unfold mergeDecision
  simp [h1, h2]

theorem C10_merge_identical_nothing (ff : FFMode) (c : Nat) : mergeDecision ff c c c = .nothing := by
  unfold mergeDecision
  simp

/-- A mode given on the command line is the mode in force, whatever `merge.fastForward` says. -/
theorem C10_flag_overrides_config (m : FFMode) (config : Option FFMode) : effectiveFF (some m) config = m := rfl

/-- Hence an explicit `--ff` fast-forwards (moves the branch exactly to the other commit) also in a
    repository configured with `merge.fastForward = never` or `only`. -/
theorem C10_explicit_ff_fast_forwards (config : Option FFMode) (head other : Nat) (hne : (other != head) = true) :
    mergeDecision (effectiveFF (some .default_) config) head other head = .fastForward other := by
  rw [C10_flag_overrides_config, C10_merge_ff_exact _ _ _ hne]
  rfl

/-- Frame: the decision for one ref is a function of that ref's own old and new value only, so a
    rejection of one ref cannot change the outcome of another in the same operation. -/
theorem C10_frame (refs : List (Option Nat × Nat × Bool)) (force : Bool) (isAnc : Nat → Nat → Bool) (i : Nat)
    (r : Option Nat × Nat × Bool) (hr : refs[i]? = some r) :
    (refs.map (fun x => fetchDecision x.1 x.2.1 x.2.2 force isAnc))[i]? = some (fetchDecision r.1 r.2.1 r.2.2 force isAnc) := by
  simp [List.getElem?_map, hr]

/-- non-vacuity: a non-fast-forward fetch of a branch is rejected, a fast-forward one is applied -/
example : fetchDecision (some 1) 2 false false (fun _ _ => false) = .reject ∧
          fetchDecision (some 1) 2 false false (fun _ _ => true) = .update := by decide

/-! ### the decision tables regenerated from the source are the model -/

theorem C10_fact_fetchForceNotAssigned : Facts.fetchForceParamAssigned = false := by decide
theorem C10_fact_pushForceNotAssigned : Facts.pushForceParamAssigned = false := by decide

/-- For every situation of a ref (equal or not, tag or branch, new or existing, fast-forward or not,
    forced or not) the guards extracted from `saveFetchedRefs` let a `ref.SaveFetchRef` through
    exactly when the model's `fetchDecision` says `update`. -/
theorem C10_fetch_table_is_model (e : GEnv) (h : e.isNil = true → e.eq = false) :
    tableFires (fetchAtom e) Facts.fetchSavePaths =
      some (decide (fetchDecision e.old e.new e.tag e.force (fun _ _ => e.ff) = .update)) := by
  obtain ⟨eq, tag, isNil, ff, force⟩ := e
  cases eq <;> cases tag <;> cases isNil <;> cases ff <;> cases force <;> simp at h <;> decide

/-- The same for `identifyUpdates` (push): an update is queued exactly when `pushDecision` says `update`. -/
theorem C10_push_table_is_model (e : GEnv) (h : e.isNil = true → e.eq = false) :
    tableFires (pushAtom e) Facts.pushUpdatePaths =
      some (decide (pushDecision e.old e.new e.tag e.force (fun _ _ => e.ff) = .update)) := by
  obtain ⟨eq, tag, isNil, ff, force⟩ := e
  cases eq <;> cases tag <;> cases isNil <;> cases ff <;> cases force <;> simp at h <;> decide

/-- `runMerge` has exactly one fast-forward write; it is guarded by "exactly one commit is not the
    merge base" and "not --no-ff", and it moves the branch to that one commit. -/
theorem C10_merge_ff_site :
    Facts.mergeFFPaths = [[(false, "err != nil"), (false, "!strings.HasPrefix(name, 'heads/')"), (false, "err != nil"),
      (false, "len(nonAncestralCommits) == 0"), (true, "len(nonAncestralCommits) == 1"), (false, "ff == conf.FF_Never"),
      (true, "target=nonAncestralCommits[0]")]] := by decide

end Wrgl
