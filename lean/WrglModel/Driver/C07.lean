import WrglModel.Driver.C01
import WrglModel.Model.Transfer
import WrglModel.Model.Encoding
import WrglModel.Spec.Finder
open Lean
namespace Wrgl.Drv

def objKeyOf (t id : Nat) : ObjKey := if t == 1 then .com id else if t == 2 then .tbl id else .blk id
def jObjKey : ObjKey → Json
  | .com c => Json.arr #[jNat 1, jNat c]
  | .tbl t => Json.arr #[jNat 2, jNat t]
  | .blk b => Json.arr #[jNat 3, jNat b]

def pairList (j : Json) : Except String (List (Nat × Nat)) := do
  (← asArr j).mapM fun p => do
    match ← asNatList p with
    | [a, b] => return (a, b)
    | _ => throw "bad pair"

def handleC07 (op : String) (input impl : Json) : Except String Json := do
  match op with
  | "xfer" =>
    if (input.getObjVal? "commits").toOption.isNone then return reply Json.null true []
    let g ← graphOf (← fld input "commits")
    let tables ← (← arrFld input "tables").mapM fun t => do
      return ({ id := ← natFld t "id", blocks := ← asNatList (← fld t "blocks") } : TblInfo)
    let sizes ← (← arrFld input "sizes").mapM asNatList
    -- a negotiated transfer: the destination names the commits it wants and what it has; the commit
    -- list, the table selection and the common commits are decided by the real ClosedSetsFinder and
    -- come with the outcome ("neg"). The transfer model is run on that list; what the destination must
    -- hold in the end is derived from the wants alone.
    let negotiated := (fldD input "negotiated" (Json.bool false)).getBool?.toOption.getD false
    let wants ← asNatList (fldD input "wants" (Json.arr #[]))
    let depth ← asNat (fldD input "depth" (jNat 0))
    if negotiated && resClass impl == "panic" then return reply Json.null false ["no-panic"]
    if negotiated && resClass impl != "ok" then
      -- the wants are reachable from the source's refs and the haves are honest: neither the
      -- negotiation nor the transfer of what it selected may fail
      let kind := (fldD impl "kind" Json.null).compress
      let inNegotiation := kind == "\"negotiate\"" || kind == "\"commits-to-send\"" || kind == "\"tables-to-send\""
      return reply Json.null false [if inNegotiation then "reachable-wants-negotiated" else "receiver-accepts-sender-order"]
    let neg := fldD (fldD impl "val" Json.null) "neg" Json.null
    let toSend ← asNatList (fldD (if negotiated then neg else input) (if negotiated then "sent" else "toSend") (Json.arr #[]))
    let tts ← asNatList (fldD (if negotiated then neg else input) (if negotiated then "tables" else "tablesToSend") (Json.arr #[]))
    let common ← asNatList (fldD (if negotiated then neg else input) (if negotiated then "commons" else "common") (Json.arr #[]))
    let maxSize0 ← natFld input "maxSize"
    let maxSize := if maxSize0 == 0 then 2147483648 else maxSize0
    let dB ← asNatList (fldD input "dstBlocks" (Json.arr #[]))
    let dT ← asNatList (fldD input "dstTables" (Json.arr #[]))
    let dC ← asNatList (fldD input "dstCommits" (Json.arr #[]))
    let src : SrcRepo := { commits := g, tables := tables }
    let size : ObjKey → Nat := fun k =>
      let (t, id) := match k with
        | .com c => (1, c)
        | .tbl t => (2, t)
        | .blk b => (3, b)
      let len := (sizes.find? (fun s => s.take 2 == [t, id])).bind (·[2]?) |>.getD 0
      len + (numBytesOf (bitLen len)).toNat
    let dst0 : DstRepo := { blocks := dB, tables := tables.filter (fun t => dT.contains t.id),
                            commits := g.filter (fun c => dC.contains c.id) }
    let m : Res (List (List ObjKey) × DstRepo) :=
      match senderInit src common with
      | .ok st =>
        match senderObjs src tts st toSend with
        | .ok objs =>
          let packs := if objs.isEmpty then [[]] else packfiles maxSize size (objs.length + 1) objs
          match receiveAll src dst0 objs with
          | .ok d => .ok (packs, d)
          | .err e => .err e
          | .panic p => .panic p
        | .err e => .err e
        | .panic p => .panic p
      | .err e => .err e
      | .panic p => .panic p
    let sortKeys := fun (l : List (Nat × Nat)) => l.mergeSort (fun a b => a.1 < b.1 || (a.1 == b.1 && a.2 ≤ b.2))
    let mkeys := fun (d : DstRepo) =>
      sortKeys (d.commits.map (fun c => (1, c.id)) ++ d.tables.map (fun t => (2, t.id)) ++ d.blocks.map (fun b => (3, b)))
    let mj := jRes (fun (r : List (List ObjKey) × DstRepo) =>
      Json.mkObj [("packs", Json.arr (r.1.map (fun p => Json.arr (p.map jObjKey).toArray)).toArray),
                  ("keys", Json.arr ((mkeys r.2).map (fun k => Json.arr #[jNat k.1, jNat k.2])).toArray)]) m
    if resClass impl == "panic" then return reply mj false ["no-panic"]
    if resClass impl != "ok" then
      -- a transfer that the model accepts must be accepted
      return reply mj (resClass mj == "err") (if resClass mj == "ok" then ["receiver-accepts-sender-order"] else [])
    -- a transfer the model refuses because a parent is missing must be refused
    if (match m with
        | .err e => e == "parent-missing"
        | _ => false) then
      return reply mj false ["commit-never-accepted-without-its-parents"]
    let v := fldD impl "val" Json.null
    let ipacks ← (← arrFld v "packs").mapM pairList
    let ikeys ← pairList (fldD v "keys" (Json.arr #[]))
    let identical := (fldD v "identical" (Json.bool false)).getBool?.toOption.getD false
    let done := (fldD v "done" (Json.bool false)).getBool?.toOption.getD false
    let arrival := ipacks.flatten
    -- expected final contents: what was there plus everything the sent commits reference (for selected tables)
    let sentCommits := toSend.eraseDups
    let blocksOf := fun (ts : List Nat) => ts.flatMap (fun t => ((tables.find? (·.id == t)).map (·.blocks)).getD [])
    let tablesOfCommits := fun (cs : List Nat) => ((cs.filterMap (fun c => (g.get? c).map (·.table))).filter (fun t => tables.any (·.id == t))).eraseDups
    let sentTables := (sentCommits.filterMap (fun c => (g.get? c).map (·.table))).filter (fun t => tts.contains t && tables.any (·.id == t))
    -- negotiated: every ancestor of a want must be there in the end, with its table when it lies within the
    -- depth (plain distance from the nearest want; everything when depth = 0), and nothing outside the
    -- wanted history may have been added. Given list: exactly what the list names.
    let wantedHistory := ancestorsOfAll g wants
    let dist := distFrom g [] (g.length + 1) wants [] 0 []
    let withinDepth := wantedHistory.filter (fun c => depth == 0 || dist.any (fun (x, d) => x == c && d < depth))
    let mustCommits := if negotiated then wantedHistory else sentCommits
    let needTables := if negotiated then tablesOfCommits withinDepth else sentTables
    let needBlocks := blocksOf needTables
    let mayCommits := if negotiated then wantedHistory else sentCommits
    let mayTables := if negotiated then tablesOfCommits wantedHistory else sentTables
    let mayBlocks := blocksOf mayTables
    let hasKey := fun (k : Nat × Nat) => ikeys.contains k
    let posOf := fun (k : Nat × Nat) => arrival.findIdx? (· == k)
    let before := fun (a b : Nat × Nat) => match posOf a, posOf b with
      | some i, some j => decide (i < j)
      | _, _ => true
    let checks ← asArr (fldD v "tableChecks" (Json.arr #[]))
    let tviol ← checks.mapM fun c => do
      let issues ← (← asArr (fldD c "issues" (Json.arr #[]))).mapM asStr
      let same := (fldD c "derivedSame" (Json.bool false)).getBool?.toOption.getD false
      let inv ← (match c.getObjVal? "table" with
        | .ok tj => do
          let t ← tableOf tj
          let hs ← hashesOf (fldD c "hashes" (Json.arr #[]))
          pure (tableInv Facts.blockSize (fullTableOf t hs))
        | .error _ => pure [])
      -- one block index per block of the received table, each held by the destination with the source's
      -- bytes: a block index is a function of (block rows, primary key), so the very same block has another
      -- index under another key and each table needs its own
      let bis ← match c.getObjVal? "blockIndices" with
        | .ok b => (do pure (some (← (← asArr b).mapM asNatList)))
        | .error _ => pure none
      let nBlocks ← asNat (fldD c "blocks" (jNat 0))
      let bidxViol := match bis with
        | none => []
        | some l =>
          (if l.length == nBlocks then [] else ["received-table-names-one-block-index-per-block"]) ++
          (if l.all (fun e => e == [1, 1]) then [] else ["received-table-block-indices-rebuilt-identically"])
      pure ((if issues.isEmpty then [] else ["received-table-diagnosis-clean"]) ++
            (if same then [] else ["received-table-index-and-profile-rebuilt-identically"]) ++ bidxViol ++ inv.map (fun s => "received-table:" ++ s))
    -- interrupted deliveries: packfile k cut after `c` bytes, handed to a copy of the destination as it
    -- was before that packfile. The framing is 8 header bytes, then each object with its type/length
    -- prefix; the object boundaries follow from the object sizes. A cut on a boundary is a complete
    -- (shorter) packfile: accepted. Any other cut ends inside the header or inside an object: it must be
    -- refused. Either way the copy then holds exactly what the complete objects before the cut bring
    -- (model: `receiveAll` on that prefix), each identical to the source's object.
    let toKey := fun (k : Nat × Nat) => objKeyOf k.1 k.2
    let cuts ← (← asArr (fldD v "cuts" (Json.arr #[]))).mapM asNatList
    let cutViol := cuts.flatMap fun ct =>
      match ct with
      | [k, c, refused, same, nc, ntb, nb] =>
        let objs := (ipacks.getD k []).map toKey
        let bounds := objs.foldl (fun (acc : List Nat) o => acc ++ [(acc.getLast?.getD 8) + size o]) [8]
        let onBoundary := bounds.contains c
        let complete := (bounds.drop 1).countP (· ≤ c)
        let before := ((ipacks.take k).flatten.map toKey) ++ objs.take complete
        let expect := match receiveAll src dst0 before with
          | .ok d => some (d.commits.length, d.tables.length, d.blocks.length)
          | _ => none
        (if onBoundary || refused == 1 then [] else ["truncated-packfile-refused"]) ++
        (if onBoundary && refused == 1 && expect.isSome then ["complete-objects-accepted"] else []) ++
        (if same == 1 && expect == some (nc, ntb, nb) then [] else ["interrupted-transfer-leaves-only-complete-source-objects"])
      | _ => ["bad-cut-record"]
    let viol :=
      cutViol.eraseDups ++
      (if identical then [] else ["objects-byte-identical"]) ++
      (if done then [] else ["receiver-reports-done"]) ++
      (if mustCommits.all (fun c => hasKey (1, c)) && needTables.all (fun t => hasKey (2, t)) && needBlocks.all (fun b => hasKey (3, b)) then [] else ["all-sent-objects-present"]) ++
      (if ikeys.all (fun k => (k.1 == 1 && (dC.contains k.2 || mayCommits.contains k.2)) || (k.1 == 2 && (dT.contains k.2 || mayTables.contains k.2)) ||
            (k.1 == 3 && (dB.contains k.2 || mayBlocks.contains k.2))) then [] else ["nothing-else-stored"]) ++
      (if !negotiated || common.all dC.contains then [] else ["commons-held-by-destination"]) ++
      (if mayTables.all (fun t => (((tables.find? (·.id == t)).map (·.blocks)).getD []).all (fun b => before (3, b) (2, t))) then [] else ["blocks-before-their-table"]) ++
      (if sentCommits.all (fun c => ((g.get? c).map (·.parents)).getD [] |>.all (fun p => before (1, p) (1, c))) then [] else ["parents-before-children"]) ++
      (if ipacks.all (fun p => !p.isEmpty) || arrival.isEmpty then [] else ["packfiles-nonempty"]) ++
      tviol.flatten.eraseDups
    let agree := match m with
      | .ok (packs, d) =>
        packs.map (fun p => p.map (fun k => match k with
          | .com c => (1, c)
          | .tbl t => (2, t)
          | .blk b => (3, b))) == ipacks && mkeys d == sortKeys ikeys
      | _ => false
    return reply mj agree viol
  | _ => throw s!"unknown op {op}"

end Wrgl.Drv
