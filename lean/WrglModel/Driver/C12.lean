import WrglModel.Driver.Util
import WrglModel.Model.Prune
import WrglModel.Gen.Facts
open Lean
namespace Wrgl.Drv

def prepoOf (j : Json) : Except String PRepo := do
  let tables ← (← arrFld j "tables").mapM fun t => do
    return ({ id := ← natFld t "id", blocks := ← asNatList (← fld t "blocks"), idxs := ← asNatList (← fld t "idxs") } : PTable)
  return { commits := ← graphOf (← fld j "commits"), tables := tables,
           blocks := ← asNatList (← fld j "blocks"), idxs := ← asNatList (← fld j "idxs"),
           tblIdx := ← asNatList (← fld j "tblIdx"), profiles := ← asNatList (← fld j "profiles") }

def sortN (l : List Nat) : List Nat := l.mergeSort (fun a b => decide (a ≤ b))

def canonRepo (r : PRepo) : String :=
  toString (sortN (r.commits.map (·.id))) ++ "|" ++ toString (sortN (r.tables.map (·.id))) ++ "|" ++ toString (sortN r.blocks) ++ "|" ++
  toString (sortN r.idxs) ++ "|" ++ toString (sortN r.tblIdx) ++ "|" ++ toString (sortN r.profiles)

def handleC12 (op : String) (input impl : Json) : Except String Json := do
  match op with
  | "prune" =>
    if (input.getObjVal? "before").toOption.isNone then return reply Json.null true []
    let before ← prepoOf (← fld input "before")
    let refs ← asNatList (fldD input "refs" (Json.arr #[]))
    let m := prune Facts.pruneSearchChecked before refs
    let mj := jRes (fun r => Json.str (canonRepo r)) m
    if resClass impl == "panic" then return reply mj false ["completes-without-crashing"]
    if resClass impl != "ok" then
      return reply mj (resClass mj == "err") (if resClass mj == "ok" then ["completes-without-error"] else [])
    let v := fldD impl "val" Json.null
    let after ← prepoOf (← fld v "after")
    let usable := (fldD v "usable" (Json.bool false)).getBool?.toOption.getD false
    let idem := (fldD v "idempotent" (Json.bool false)).getBool?.toOption.getD false
    let viol := pruneVerdict before after refs ++
      (if usable then [] else ["reachable-commits-still-readable"]) ++ (if idem then [] else ["repeated-prune-changes-nothing"])
    let agree := match m with
      | .ok r => canonRepo r == canonRepo after
      | _ => false
    return reply mj agree viol
  | "gc-cli" =>
    -- `wrgl gc` with a freshly opened transaction: its staged ref and everything it reaches survive,
    -- the orphaned commit goes (3 commits before: branch, orphan, staged; 2 after)
    if resClass impl == "panic" then return reply Json.null false ["no-panic"]
    if resClass impl != "ok" then return reply Json.null false ["unexpected-error"]
    let v := fldD impl "val" Json.null
    let n := fun (k : String) => (fldD v k (jNat 0)).getNat?.toOption.getD 0
    let b := fun (k : String) => (fldD v k (Json.bool false)).getBool?.toOption.getD false
    let viol :=
      (if n "txRefsBefore" == 1 && b "stagedUsableBefore" && n "commitsBefore" == 3 then [] else ["harness-setup-failed"]) ++
      (if n "txRefsAfter" == 1 && b "stagedUsableAfter" then [] else ["reachable-from-a-ref-is-kept"]) ++
      (if n "commitsAfter" == 2 then [] else ["unreachable-is-removed-and-nothing-else"])
    return reply (Json.mkObj [("commitsAfter", jNat 2), ("txRefsAfter", jNat 1)]) viol.isEmpty viol
  | _ => throw s!"unknown op {op}"

end Wrgl.Drv
