import WrglModel.Driver.Util
import WrglModel.Model.Prune
import WrglModel.Gen.Facts
open Lean
namespace Wrgl.Drv

def prepoOf (j : Json) : Except String PRepo := do
  let tables ← (← arrFld j "tables").mapM fun t => do
    return ({ id := ← natFld t "id", blocks := ← asNatList (← fld t "blocks"), idxs := ← asNatList (← fld t "idxs") } : PTable)
  return { commits := ← graphOf (← fld j "commits"), tables := tables,
           blocks := ← asNatList (← fld j "blocks"), idxs := ← asNatList (← fld j "idxs"),
           tblIdx := ← asNatList (← fld j "tblIdx"), profiles := ← asNatList (← fld j "profiles") }

def sortN (l : List Nat) : List Nat := l.mergeSort (fun a b => decide (a ≤ b))

def canonRepo (r : PRepo) : String :=
  toString (sortN (r.commits.map (·.id))) ++ "|" ++ toString (sortN (r.tables.map (·.id))) ++ "|" ++ toString (sortN r.blocks) ++ "|" ++
  toString (sortN r.idxs) ++ "|" ++ toString (sortN r.tblIdx) ++ "|" ++ toString (sortN r.profiles)

/-- the clauses of `pruneVerdict` that must hold even for a run that reported an error -/
def safetyClauses : List String :=
  ["reachable-commits-kept", "tables-of-reachable-commits-kept", "table-index-and-profile-kept",
   "blocks-and-block-indices-kept", "nothing-created"]

def handleC12 (op : String) (input impl : Json) : Except String Json := do
  match op with
  | "prune" =>
    if (input.getObjVal? "before").toOption.isNone then return reply Json.null true []
    let before ← prepoOf (← fld input "before")
    let refs ← asNatList (fldD input "refs" (Json.arr #[]))
    let m := prune Facts.pruneSearchChecked before refs
    let mj := jRes (fun r => Json.str (canonRepo r)) m
    if resClass impl == "panic" then return reply mj false ["completes-without-crashing"]
    if resClass impl != "ok" then
      return reply mj (resClass mj == "err") (if resClass mj == "ok" then ["completes-without-error"] else [])
    let v := fldD impl "val" Json.null
    let after ← prepoOf (← fld v "after")
    let usable := (fldD v "usable" (Json.bool false)).getBool?.toOption.getD false
    let idem := (fldD v "idempotent" (Json.bool false)).getBool?.toOption.getD false
    let viol := pruneVerdict before after refs ++
      (if usable then [] else ["reachable-commits-still-readable"]) ++ (if idem then [] else ["repeated-prune-changes-nothing"])
    let agree := match m with
      | .ok r => canonRepo r == canonRepo after
      | _ => false
    return reply mj agree viol
  | "prune-fault" =>
    -- prune while the ref store's scan fails part-way (disk I/O error), then once more on a
    -- healthy store. Whatever the first run reports, nothing reachable from a ref may be lost or
    -- created; if it reports success its result must be complete; the second run must complete.
    let before ← prepoOf (← fld input "before")
    let refs ← asNatList (fldD input "refs" (Json.arr #[]))
    let m := prune Facts.pruneSearchChecked before refs
    let mj := jRes (fun r => Json.str (canonRepo r)) m
    if resClass impl == "panic" then return reply mj false ["completes-without-crashing"]
    if resClass impl != "ok" then return reply mj false ["harness-setup-failed"]
    let v := fldD impl "val" Json.null
    let bf := fun (k : String) => (fldD v k (Json.bool false)).getBool?.toOption.getD false
    let after ← prepoOf (← fld v "after")
    let afterRetry ← prepoOf (← fld v "afterRetry")
    let all1 := pruneVerdict before after refs
    let viol :=
      (if bf "pruneErr" then all1.filter safetyClauses.contains else all1) ++
      (if bf "pruneErr" && !bf "faultHit" && resClass mj == "ok" then ["completes-without-error"] else []) ++
      (if bf "usable" then [] else ["reachable-commits-still-readable"]) ++
      (if bf "retryErr" && resClass mj == "ok" then ["completes-without-error-once-the-fault-is-gone"] else []) ++
      (if bf "retryErr" then [] else (pruneVerdict before afterRetry refs).map (fun c => "after-retry:" ++ c)) ++
      (if bf "usableRetry" then [] else ["after-retry:reachable-commits-still-readable"])
    let agree := match m with
      | .ok r => canonRepo r == canonRepo afterRetry
      | _ => bf "retryErr"
    return reply mj agree viol
  | "prune-readfault" =>
    -- prune while the object store fails ONE read of ONE commit object once, then once more on the
    -- healthy store. The failing read reports an input/output error, or (faultKind "absent") that
    -- the commit is not stored. Whatever the first run reports, nothing that a ref reaches may be
    -- lost and nothing may be created; a run that reports success must have removed everything no
    -- ref reaches; the second run must complete.
    -- "Reaches": through reads that were answered. A ref whose target was reported absent is, for
    -- all prune can tell, a dangling ref: what only such a ref reaches MAY go (lower bound: the
    -- other refs), what no ref at all reaches MUST go (upper bound: all refs). After an
    -- input/output error, or when the fault was not delivered, both bounds are all the refs.
    let before ← prepoOf (← fld input "before")
    let refs ← asNatList (fldD input "refs" (Json.arr #[]))
    let kind := (fldD input "faultKind" (Json.str "")).getStr?.toOption.getD ""
    let fc := (fldD input "faultCommit" (jNat 0)).getNat?.toOption.getD 0
    let m := prune Facts.pruneSearchChecked before refs
    let mj := jRes (fun r => Json.str (canonRepo r)) m
    if resClass impl == "panic" then return reply mj false ["completes-without-crashing"]
    if resClass impl != "ok" then return reply mj false ["harness-setup-failed"]
    let v := fldD impl "val" Json.null
    let bf := fun (k : String) => (fldD v k (Json.bool false)).getBool?.toOption.getD false
    let after ← prepoOf (← fld v "after")
    let afterRetry ← prepoOf (← fld v "afterRetry")
    let low := if kind == "absent" && bf "faultHit" then refs.filter (· != fc) else refs
    let judge := fun (a : PRepo) (complete : Bool) =>
      (pruneVerdict before a low).filter safetyClauses.contains ++
      (if complete then (pruneVerdict before a refs).filter (fun c => !safetyClauses.contains c) else [])
    let mLow := prune Facts.pruneSearchChecked before low
    let viol :=
      judge after (!bf "pruneErr") ++
      (if bf "pruneErr" && !bf "faultHit" && resClass mj == "ok" then ["completes-without-error"] else []) ++
      (if bf "usable" then [] else ["reachable-commits-still-readable"]) ++
      (if bf "retryErr" && resClass mj == "ok" then ["completes-without-error-once-the-fault-is-gone"] else []) ++
      (if bf "retryErr" then [] else (judge afterRetry true).map (fun c => "after-retry:" ++ c)) ++
      (if bf "usableRetry" then [] else ["after-retry:reachable-commits-still-readable"])
    let agree := match m, mLow with
      | .ok r, .ok r' => canonRepo r == canonRepo afterRetry || canonRepo r' == canonRepo afterRetry
      | .ok r, _ => canonRepo r == canonRepo afterRetry
      | _, _ => bf "retryErr"
    return reply mj agree viol
  | "gc" =>
    -- `wrgl gc` / `wrgl prune` on a repository directory with transactions of several ages.
    -- Roots that must survive: every ref that is not the staged ref of an expired transaction
    -- (in progress, begun at least the time-to-live ago; only gc expires transactions). After the
    -- command, with the refs that exist THEN as roots, every clause of pruneVerdict must hold.
    if (input.getObjVal? "before").toOption.isNone then return reply Json.null true []
    let before ← prepoOf (← fld input "before")
    let gc ← fld input "gc"
    let cmd ← strFld gc "cmd"
    let ttl ← natFld gc "ttl"
    let txs ← (← arrFld gc "txs").mapM fun t => do return ((← natFld t "age"), (← strFld t "status"))
    let refList ← (← arrFld gc "refList").mapM fun t => do return ((← natFld t "c"), (← intFld t "tx"))
    let expired := fun (i : Int) =>
      if i < 0 then false else
      match txs[i.toNat]? with
      | some (age, status) => cmd == "gc" && status == "in-progress" && age ≥ ttl
      | none => false
    let idxs := List.range refList.length
    let liveIdx := idxs.filter (fun i => match refList[i]? with | some (_, t) => !expired t | none => false)
    let deadIdx := idxs.filter (fun i => match refList[i]? with | some (_, t) => expired t | none => false)
    let liveTx := (List.range txs.length).filter (fun i => !expired (Int.ofNat i))
    let mj := Json.mkObj [("refsAfter", jNats liveIdx), ("txsAfter", jNats liveTx)]
    if resClass impl == "panic" then return reply mj false ["completes-without-crashing"]
    if resClass impl != "ok" then return reply mj false ["harness-setup-failed"]
    let v := fldD impl "val" Json.null
    let bf := fun (k : String) => (fldD v k (Json.bool false)).getBool?.toOption.getD false
    let after ← prepoOf (← fld v "after")
    let refsAfter ← asNatList (← fld v "refsAfter")
    let txsAfter ← asNatList (← fld v "txsAfter")
    let extraRefs := (fldD v "extraRefs" (jNat 0)).getNat?.toOption.getD 0
    let rootsAfter := refsAfter.filterMap (fun i => (refList[i]?).map (·.1))
    let rootsLive := liveIdx.filterMap (fun i => (refList[i]?).map (·.1))
    -- the history is closed in these repositories, so the command must complete
    let mustComplete := resClass (jRes (fun r => Json.str (canonRepo r)) (prune Facts.pruneSearchChecked before rootsLive)) == "ok"
    let viol :=
      (if bf "cmdErr" && mustComplete then ["completes-without-error"] else []) ++
      (if liveIdx.all refsAfter.contains && extraRefs == 0 then [] else ["refs-outside-expired-transactions-untouched"]) ++
      (if bf "cmdErr" || deadIdx.all (fun i => !refsAfter.contains i) then [] else ["refs-of-expired-transactions-removed"]) ++
      (if bf "cmdErr" || sortN txsAfter == liveTx then [] else ["exactly-the-expired-transactions-discarded"]) ++
      (if bf "cmdErr" then (pruneVerdict before after rootsLive).filter safetyClauses.contains
       else pruneVerdict before after rootsAfter) ++
      (if bf "usable" then [] else ["reachable-commits-still-readable"])
    return reply mj viol.isEmpty viol
  | "gc-cli" =>
    -- `wrgl gc` with a freshly opened transaction: its staged ref and everything it reaches survive,
    -- the orphaned commit goes (3 commits before: branch, orphan, staged; 2 after)
    if resClass impl == "panic" then return reply Json.null false ["no-panic"]
    if resClass impl != "ok" then return reply Json.null false ["unexpected-error"]
    let v := fldD impl "val" Json.null
    let n := fun (k : String) => (fldD v k (jNat 0)).getNat?.toOption.getD 0
    let b := fun (k : String) => (fldD v k (Json.bool false)).getBool?.toOption.getD false
    let viol :=
      (if n "txRefsBefore" == 1 && b "stagedUsableBefore" && n "commitsBefore" == 3 then [] else ["harness-setup-failed"]) ++
      (if n "txRefsAfter" == 1 && b "stagedUsableAfter" then [] else ["reachable-from-a-ref-is-kept"]) ++
      (if n "commitsAfter" == 2 then [] else ["unreachable-is-removed-and-nothing-else"])
    return reply (Json.mkObj [("commitsAfter", jNat 2), ("txRefsAfter", jNat 1)]) viol.isEmpty viol
  | _ => throw s!"unknown op {op}"

end Wrgl.Drv
