import WrglModel.Driver.Util
import WrglModel.Model.Crash
import WrglModel.Gen.Facts
open Lean
namespace Wrgl.Drv

def universeOf (j : Json) : Except String Universe := do
  let commits ← (← arrFld j "commits").mapM fun c => do
    match ← asArr c with
    | [i, ps, t] => return (← asNat i, ← asNatList ps, ← asNat t)
    | _ => throw "bad commit"
  let tables ← (← arrFld j "tables").mapM fun c => do
    match ← asArr c with
    | [i, bs, is] => return (← asNat i, ← asNatList bs, ← asNatList is)
    | _ => throw "bad table"
  return { commits := commits, tables := tables }

def rstateOf (j : Json) : Except String RState := do
  let refs ← (← arrFld j "refs").mapM fun r => do
    match ← asNatList r with
    | [a, b] => return (a, b)
    | _ => throw "bad ref"
  return { blks := ← asNatList (← fld j "blks"), idxs := ← asNatList (← fld j "idxs"), tbls := ← asNatList (← fld j "tbls"),
           tblIdx := ← asNatList (← fld j "tblIdx"), tblSum := ← asNatList (← fld j "tblSum"), coms := ← asNatList (← fld j "coms"),
           refs := refs }

def wopOf (j : Json) : Except String (Option WOp) := do
  match ← asArr j with
  | [Json.str k, a] =>
    let n ← asNat a
    return (match k with
      | "blk" => some (.blk n) | "blkidx" => some (.blkidx n) | "tbl" => some (.tbl n) | "tblidx" => some (.tblidx n)
      | "tblsum" => some (.tblsum n) | "com" => some (.com n)
      | "del-blk" => some (.delBlk n) | "del-blkidx" => some (.delBlkidx n) | "del-tbl" => some (.delTbl n)
      | "del-tblidx" => some (.delTblidx n) | "del-tblsum" => some (.delTblsum n) | "del-com" => some (.delCom n)
      | _ => none)
  | [Json.str "ref", r, c] => return some (.ref (← asNat r) (← asNat c))
  | _ => return none

def sortL (l : List Nat) : List Nat := l.mergeSort (fun a b => decide (a ≤ b))
def canonState (s : RState) : String :=
  toString (sortL s.blks) ++ "|" ++ toString (sortL s.idxs) ++ "|" ++ toString (sortL s.tbls) ++ "|" ++ toString (sortL s.tblIdx) ++ "|" ++
  toString (sortL s.tblSum) ++ "|" ++ toString (sortL s.coms) ++ "|" ++ toString (s.refs.mergeSort (fun a b => decide (a.1 ≤ b.1)))

/-- whether the effect of a write is present in a state -/
def stateHas (s : RState) : WOp → Bool
  | .blk b => s.blks.contains b | .blkidx i => s.idxs.contains i | .tbl t => s.tbls.contains t
  | .tblidx t => s.tblIdx.contains t | .tblsum t => s.tblSum.contains t | .com c => s.coms.contains c
  | .ref r c => s.refs.contains (r, c)
  | .delBlk b => !s.blks.contains b | .delBlkidx i => !s.idxs.contains i | .delTbl t => !s.tbls.contains t
  | .delTblidx t => !s.tblIdx.contains t | .delTblsum t => !s.tblSum.contains t | .delCom c => !s.coms.contains c

def wkind : WOp → String
  | .blk _ => "blk" | .blkidx _ => "blkidx" | .tbl _ => "tbl" | .tblidx _ => "tblidx" | .tblsum _ => "tblsum" | .com _ => "com" | .ref _ _ => "ref"
  | .delBlk _ => "del-blk" | .delBlkidx _ => "del-blkidx" | .delTbl _ => "del-tbl" | .delTblidx _ => "del-tblidx" | .delTblsum _ => "del-tblsum" | .delCom _ => "del-com"

/-- a recorded write that changes no object and no ref: the status flip of a transaction -/
def isStatusWrite (j : Json) : Bool :=
  match j.getArr?.toOption.map (·.toList) with
  | some [Json.str "tx.update", _] => true
  | _ => false

/-- what the model says `transaction commit` writes for the staged branches `heads` (refs), given the
    extracted order of one round of its loop and the status flip ("com", "ref", "status"): per
    staged branch one commit object and then the update of that branch to exactly that commit, each
    branch once, in any branch order (the loop ranges over a map); the status flip after all of them.
    `raw`: the recorded writes (`none` = the status flip). -/
def txCommitWritesOk (order : List String) (heads : List Nat) (raw : List (Option WOp)) : Bool :=
  let perBranch := order.filter (· != "status")
  let kinds := raw.map (fun o => match o with | some w => wkind w | none => "status")
  let expected := (List.replicate heads.length perBranch).flatten ++ order.filter (· == "status")
  let ws := raw.filterMap id
  let coms := ws.filterMap (fun w => match w with | .com c => some c | _ => none)
  let refs := ws.filterMap (fun w => match w with | .ref r c => some (r, c) | _ => none)
  kinds == expected &&
  -- the k-th ref update puts the k-th new commit on its branch; every staged branch exactly once
  refs.map (·.2) == coms &&
  refs.all (fun p => heads.contains p.1) && heads.all (fun h => (refs.filter (fun p => p.1 == h)).length == 1)

/-- what the model says the operation writes, by kind, for a table of `nb` blocks -/
def modelKinds (kind : String) (nb : Nat) : Option (List String) :=
  let blocks := List.range nb
  if kind == "commit" then
    some ((commitWrites Facts.writeOrderInsertBlock Facts.writeOrderIngest Facts.writeOrderCommitCmd 0 blocks blocks 0 0).map wkind)
  else if kind == "merge-commit" then
    -- table without profile from the inserter, profile added afterwards, then commit and ref
    some ((Facts.writeOrderMergeResult.flatMap (fun k =>
      if k == "table" then (ingestWrites Facts.writeOrderInsertBlock Facts.writeOrderIngest 0 blocks blocks false).map wkind
      else if k == "tblsum" then ["tblsum"]
      else if k == "commit" then Facts.writeOrderMergeCommit else [])))
  else none

/-- the commits reachable from `front` through parent links (every link consumes fuel) -/
def reachComs (u : Universe) : Nat → List Nat → List Nat → List Nat
  | 0, _, seen => seen
  | _ + 1, [], seen => seen
  | fuel + 1, c :: rest, seen =>
    if seen.contains c then reachComs u fuel rest seen
    else match u.commit? c with
      | some (ps, _) => reachComs u fuel (ps ++ rest) (c :: seen)
      | none => reachComs u fuel rest (c :: seen)

/-- "the same refs pointing at the same tables and history": the refs of `r` are those of `final`,
    every commit reachable from them is stored in `r`, and so is the table of each of them that the
    uninterrupted run ends with. Objects that no ref reaches do not count (a prune may have removed them). -/
def sameHistory (u : Universe) (final r : RState) : Bool :=
  let sortRefs := fun (l : List (Nat × Nat)) => l.mergeSort (fun a b => decide (a.1 ≤ b.1))
  let fuel := u.commits.foldl (fun acc c => acc + 1 + c.2.1.length) (final.refs.length + 1)
  let reach := reachComs u fuel (final.refs.map (·.2)) []
  sortRefs r.refs == sortRefs final.refs &&
  reach.all (fun c => r.coms.contains c && (match u.commit? c with
    | some (_, t) => !final.tbls.contains t || r.tbls.contains t
    | none => false))

def handleC13 (op : String) (input impl : Json) : Except String Json := do
  match op with
  | "crash" =>
    if (input.getObjVal? "universe").toOption.isNone then return reply Json.null true []
    if resClass impl == "panic" then return reply Json.null false ["no-panic"]
    if resClass impl != "ok" then return reply Json.null false ["unexpected-error"]
    let kind ← strFld input "kind"
    let u ← universeOf (← fld input "universe")
    let init ← rstateOf (← fld input "init")
    let heads ← asNatList (fldD input "heads" (Json.arr #[]))
    let wsRaw ← arrFld input "writes"
    let wsOpt ← wsRaw.mapM wopOf
    let ws := wsOpt.filterMap id
    -- every recorded write is one the model knows: an object / ref write, or (transaction commit) the status flip
    let wsKnown := (wsRaw.zip wsOpt).all (fun (j, o) => o.isSome || (kind == "tx-commit" && isStatusWrite j))
    let v := fldD impl "val" Json.null
    let final ← rstateOf (← fld v "final")
    let crashes ← (← arrFld v "crashes").mapM rstateOf
    let reruns ← (← arrFld v "rerun").mapM rstateOf
    let faulted ← (← arrFld v "faulted").mapM asBool
    let rerunOk ← (← arrFld v "rerunOk").mapM asBool
    -- single injected write errors (optional fields: older corpus entries lack them)
    let arrD := fun (k : String) => match v.getObjVal? k with
      | .ok (.arr a) => a.toList
      | _ => []
    let errStates ← (arrD "errStates").mapM rstateOf
    let errReruns ← (arrD "errRerun").mapM rstateOf
    let errReported ← (arrD "errReported").mapM asBool
    let errRerunOk ← (arrD "errRerunOk").mapM asBool
    let sameOutcome := fun (r : RState) =>
      (r.refs.mergeSort (fun a b => decide (a.1 ≤ b.1))) == (final.refs.mergeSort (fun a b => decide (a.1 ≤ b.1))) &&
      final.coms.all r.coms.contains && final.tbls.all r.tbls.contains && final.blks.all r.blks.contains &&
      final.idxs.all r.idxs.contains && final.tblIdx.all r.tblIdx.contains && (consistentClauses u heads r == [])
    -- a recovery history: crash, then a complete prune of the reopened repository, then the operation again
    let pruned ← (arrD "pruned").mapM rstateOf
    let prunedOk ← (arrD "prunedOk").mapM asBool
    let prunedReruns ← (arrD "prunedRerun").mapM rstateOf
    let prunedRerunOk ← (arrD "prunedRerunOk").mapM asBool
    let pruneViol :=
      (if prunedOk.all id then [] else ["prune-after-crash-succeeds"]) ++
      ((pruned.flatMap (consistentClauses u heads)).eraseDups.map (fun s => "after-prune:" ++ s)) ++
      (if prunedRerunOk.all id then [] else ["rerun-after-prune-succeeds"]) ++
      (if prunedReruns.all (sameHistory u final) then [] else ["rerun-after-prune-reaches-the-uninterrupted-outcome"]) ++
      ((prunedReruns.flatMap (consistentClauses u heads)).eraseDups.map (fun s => "rerun-after-prune:" ++ s))
    let errViol :=
      (errStates.flatMap (consistentClauses u heads)).eraseDups ++
      -- an operation that swallows the error must still have produced the uninterrupted outcome
      (if ((errStates.zip errReported).all (fun (s, rep) => rep || sameOutcome s)) then [] else ["write-error-is-reported"]) ++
      (if errRerunOk.all id then [] else ["rerun-succeeds"]) ++
      (if errReruns.all sameOutcome then [] else ["rerun-reaches-the-uninterrupted-outcome"])
    -- property clauses, on every real crash state and on the end states
    let crashViol := ((crashes.flatMap (consistentClauses u heads)) ++ errViol).eraseDups
    let viol := crashViol ++
      (if consistentClauses u heads init == [] then [] else ["initial-state-inconsistent(harness)"]) ++
      ((consistentClauses u heads final).map (fun s => "final:" ++ s)) ++
      (if rerunOk.all id then [] else ["rerun-succeeds"]) ++
      (if reruns.all (fun r => (r.refs.mergeSort (fun a b => decide (a.1 ≤ b.1))) == (final.refs.mergeSort (fun a b => decide (a.1 ≤ b.1))) &&
          final.coms.all r.coms.contains && final.tbls.all r.tbls.contains && final.blks.all r.blks.contains &&
          final.idxs.all r.idxs.contains && final.tblIdx.all r.tblIdx.contains &&
          (consistentClauses u heads r == [])) then [] else ["rerun-reaches-the-uninterrupted-outcome"]) ++
      pruneViol
    -- correspondence: a crash before write k leaves exactly the k-prefix of the write sequence applied;
    -- the write kinds are what the model derives from the extracted orders
    -- With several ingest workers the block-phase writes interleave differently from run to run, so a
    -- crash state is compared with the write sequence up to that interleaving: its visible effects
    -- are writes of the sequence, table-level writes (everything but blk/blkidx) form a prefix of
    -- their order and only start once the block phase is complete, and the count fits k.
    let isBlockPhase := fun (w : WOp) => wkind w == "blk" || wkind w == "blkidx"
    let bw := ws.filter isBlockPhase
    let tw := ws.filter (fun w => !isBlockPhase w)
    let crashOk := fun (c : RState) (k : Nat) =>
      let vis := fun (w : WOp) => stateHas c w && !stateHas init w
      let twVis := tw.map vis
      let nVis := (ws.filter vis).eraseDups.length
      let nInvisible := (ws.filter (fun w => stateHas init w)).length
      -- visible table-level writes are a prefix
      (twVis.dropWhile id).all (fun b => !b) &&
      -- a visible table-level write implies the whole block phase is visible (or was already there)
      (!(twVis.any id) || bw.all (fun w => stateHas c w)) &&
      nVis ≤ k && k ≤ nVis + nInvisible + (ws.length - ws.eraseDups.length) &&
      -- nothing outside the sequence changed
      canonState (c.applyAll ws) == canonState (init.applyAll ws)
    let strictPrefix := fun (c : RState) (k : Nat) => canonState (init.applyAll (ws.take k)) == canonState c
    let concurrentBlocks := kind == "commit" || kind == "merge-commit"
    -- fetch: the order in which the remote's refs are advertised (a Go map) may change the order of the
    -- transfer from run to run, so each interrupted run is compared with ITS OWN recorded writes: k of
    -- them, all among the writes of the uninterrupted run, and the state is exactly their effect
    -- transaction commit: the loop over the staged branches ranges over a Go map, so the branch order
    -- differs from run to run: same comparison (the status flip is the last write, never inside a prefix)
    let tracesOpt ← (arrD "traces").mapM (fun t => do (← asArr t).mapM wopOf)
    let ownPrefix := fun (c : RState) (k : Nat) => match tracesOpt[k]? with
      | some t => t.all Option.isSome && t.length == k && (t.filterMap id).all ws.contains &&
                  canonState (init.applyAll (t.filterMap id)) == canonState c
      | none => false
    let ownOrder := kind == "fetch" || kind == "tx-commit"
    let prefixOk := wsKnown &&
      (crashes.zipIdx).all (fun (c, k) => if ownOrder then ownPrefix c k else if concurrentBlocks then crashOk c k else strictPrefix c k) &&
      canonState (init.applyAll ws) == canonState final && faulted.all id
    -- fetch / receive: refs are saved by the caller after every object arrived, and the writes of each
    -- received table are those of the model (block indices, table index, profile, table object) in its order
    let isRef := fun (w : WOp) => wkind w == "ref"
    let refsLast := (ws.dropWhile (fun w => !isRef w)).all isRef
    let tableOrderOk := (ws.filterMap (fun w => match w with | .tbl t => some t | _ => none)).all (fun t =>
      match u.table? t with
      | some (_, is) =>
        -- the writes that end with the table object are exactly the model's list for that table
        let m := receiveTableWrites Facts.writeOrderIndexTable Facts.writeOrderReceiveTable t is
        let upTo := (ws.takeWhile (fun w => w != .tbl t)) ++ [.tbl t]
        upTo.drop (upTo.length - m.length) == m
      | none => false)
    let nb := (ws.filter (fun w => wkind w == "blk")).length
    let kindsOk := match modelKinds kind nb with
      | some ks =>
        -- blocks of one table may be saved by several workers: compare per-kind order after grouping block writes
        let norm := fun (l : List String) => l.filter (fun k => k != "blk" && k != "blkidx")
        norm ks == norm (ws.map wkind) &&
        -- every block index after ... and all block writes before the first table-level write
        ((ws.map wkind).takeWhile (fun k => k == "blk" || k == "blkidx")).length == 2 * nb
      | none => if kind == "fetch" then refsLast && tableOrderOk
                else if kind == "tx-commit" then txCommitWritesOk Facts.writeOrderTxCommit heads wsOpt
                else true
    return reply (Json.str (canonState (init.applyAll ws))) (prefixOk && kindsOk) viol
  | _ => throw s!"unknown op {op}"

end Wrgl.Drv
